import TinyVerif.Model.Fs
/-! Helper lemmas for C14 (frame properties of the tree operations, syscall inversions). -/
namespace TinyVerif.Fs
set_option linter.unusedSimpArgs false
set_option linter.unusedVariables false

/-! ### entries -/

theorem assoc_append (es fs : List (Name × Node)) (c : Name) :
    assoc (es ++ fs) c = match assoc es c with | some v => some v | none => assoc fs c := by
  induction es with
  | nil => simp [assoc]
  | cons e es ih =>
    obtain ⟨n, x⟩ := e
    simp only [List.cons_append, assoc]
    split <;> simp_all

theorem assoc_map_replace (es : List (Name × Node)) (c c' : Name) (x : Node) :
    assoc (es.map (fun e => if e.1 = c then (c, x) else e)) c' =
      if c' = c then (match assoc es c with | some _ => some x | none => none) else assoc es c' := by
  induction es with
  | nil => simp [assoc]
  | cons e es ih =>
    obtain ⟨n, y⟩ := e
    simp only [List.map_cons, assoc]
    by_cases h1 : n = c
    · subst h1
      simp only [if_true, assoc]
      by_cases h2 : c' = n
      · subst h2; simp
      · have : ¬ n = c' := fun h => h2 h.symm
        simp [this, h2, ih]
    · simp only [h1, if_false, assoc]
      by_cases h2 : c' = c
      · subst h2
        have : ¬ n = c' := h1
        simp [this, ih]
      · by_cases h3 : n = c'
        · simp [h3, h2]
        · simp [h3, h2, ih]

theorem assoc_put (es : List (Name × Node)) (c c' : Name) (x : Node) :
    assoc (put es c x) c' = if c' = c then some x else assoc es c' := by
  unfold put
  split
  · rename_i v h
    rw [assoc_map_replace, h]
  · rename_i h
    rw [assoc_append]
    by_cases h2 : c' = c
    · subst h2; simp [h, assoc]
    · have : ¬ c = c' := fun h => h2 h.symm
      simp [h2, assoc, this]
      split <;> simp_all

theorem assoc_del (es : List (Name × Node)) (c c' : Name) :
    assoc (del es c) c' = if c' = c then none else assoc es c' := by
  unfold del
  induction es with
  | nil => simp [assoc]
  | cons e es ih =>
    obtain ⟨n, y⟩ := e
    by_cases h1 : n = c
    · subst h1
      simp only [List.filter, ne_eq, not_true_eq_false, decide_false, assoc]
      rw [ih]
      by_cases h2 : c' = n
      · simp [h2]
      · have : ¬ n = c' := fun h => h2 h.symm
        simp [h2, this]
    · simp only [List.filter, ne_eq, h1, not_false_eq_true, decide_true, assoc]
      rw [ih]
      by_cases h2 : c' = c
      · subst h2; simp [h1]
      · simp [h2]


/-! ### getAt / setAt -/

theorem getAt_append (r : Node) (l m : List Name) :
    getAt r (l ++ m) = (getAt r l).bind (fun x => getAt x m) := by
  induction l generalizing r with
  | nil => simp [getAt]
  | cons c l ih =>
    cases r with
    | dir es =>
      simp only [List.cons_append, getAt]
      cases h : assoc es c with
      | none => simp
      | some x => simp [ih]
    | file b => simp [getAt]
    | symlink t => simp [getAt]
    | fifo => simp [getAt]
    | special s => simp [getAt]

theorem kind_setAt (r : Node) (loc : List Name) (o : Option Node) (h : loc ≠ []) :
    (setAt r loc o).kind = r.kind := by
  cases loc with
  | nil => exact absurd rfl h
  | cons c l =>
    cases r with
    | dir es =>
      cases l with
      | nil => simp [setAt, Node.kind]
      | cons c' l' =>
        simp only [setAt]
        split <;> simp [Node.kind]
    | file b => simp [setAt]
    | symlink t => simp [setAt]
    | fifo => simp [setAt]
    | special s => simp [setAt]

/-- every location that is neither `loc` nor below it looks the same after `setAt … loc …` -/
theorem view_setAt_other (r : Node) (loc q : List Name) (o : Option Node)
    (hne : q ≠ loc) (hnp : ¬ loc <+: q) : view (setAt r loc o) q = view r q := by
  induction loc generalizing r q with
  | nil => exact absurd (List.nil_prefix) hnp
  | cons c l ih =>
    cases q with
    | nil =>
      simp only [view, getAt, Option.map_some]
      rw [kind_setAt _ _ _ (by simp)]
    | cons d q' =>
      cases r with
      | dir es =>
        cases l with
        | nil =>
          have hdc : d ≠ c := by
            intro h; subst h
            exact hnp (by simp)
          cases o with
          | some x => simp [setAt, view, getAt, assoc_put, hdc]
          | none => simp [setAt, view, getAt, assoc_del, hdc]
        | cons c' l' =>
          simp only [setAt]
          cases hx : assoc es c with
          | none => simp
          | some x =>
            simp only [view, getAt, assoc_put]
            by_cases hdc : d = c
            · subst hdc
              simp only [if_true, hx]
              have h1 : q' ≠ c' :: l' := by
                intro h; subst h; exact hne rfl
              have h2 : ¬ (c' :: l') <+: q' := by
                intro h; exact hnp (by simpa using h)
              exact ih x q' h1 h2
            · simp [hdc]
      | file b => simp [setAt]
      | symlink t => simp [setAt]
      | fifo => simp [setAt]
      | special s => simp [setAt]

/-- the parent of `loc` resolves to a directory (vacuous for the root) -/
def parentOk : Node → List Name → Prop
  | _, [] => True
  | .dir _, [_] => True
  | .dir es, c :: c' :: l => ∃ x, assoc es c = some x ∧ parentOk x (c' :: l)
  | .file _, _ :: _ => False
  | .symlink _, _ :: _ => False
  | .fifo, _ :: _ => False
  | .special _, _ :: _ => False

theorem getAt_setAt_some (r : Node) (loc : List Name) (x : Node) (hp : parentOk r loc) :
    getAt (setAt r loc (some x)) loc = some x := by
  induction loc generalizing r with
  | nil => simp [setAt, getAt]
  | cons c l ih =>
    cases r with
    | dir es =>
      cases l with
      | nil => simp [setAt, getAt, assoc_put]
      | cons c' l' =>
        obtain ⟨y, hy, hp'⟩ := hp
        simp [setAt, hy, getAt, assoc_put, ih y hp']
    | file b => exact absurd hp (by simp [parentOk])
    | symlink t => exact absurd hp (by simp [parentOk])
    | fifo => exact absurd hp (by simp [parentOk])
    | special s => exact absurd hp (by simp [parentOk])

theorem parentOk_setAt (r : Node) (loc : List Name) (o : Option Node) (hp : parentOk r loc) :
    parentOk (setAt r loc o) loc := by
  induction loc generalizing r with
  | nil => simp [parentOk]
  | cons c l ih =>
    cases r with
    | dir es =>
      cases l with
      | nil => simp [setAt, parentOk]
      | cons c' l' =>
        obtain ⟨y, hy, hp'⟩ := hp
        simp only [setAt, hy, parentOk, assoc_put, if_true]
        exact ⟨_, rfl, ih y hp'⟩
    | file b => exact absurd hp (by simp [parentOk])
    | symlink t => exact absurd hp (by simp [parentOk])
    | fifo => exact absurd hp (by simp [parentOk])
    | special s => exact absurd hp (by simp [parentOk])

theorem getAt_setAt_none (r : Node) (loc : List Name) (h : loc ≠ []) :
    getAt (setAt r loc none) loc = none := by
  induction loc generalizing r with
  | nil => exact absurd rfl h
  | cons c l ih =>
    cases r with
    | dir es =>
      cases l with
      | nil => simp [setAt, getAt, assoc_del]
      | cons c' l' =>
        simp only [setAt]
        cases hx : assoc es c with
        | none => simp [getAt, hx]
        | some x => simp [getAt, assoc_put, ih x (by simp)]
    | file b => simp [setAt, getAt]
    | symlink t => simp [setAt, getAt]
    | fifo => simp [setAt, getAt]
    | special s => simp [setAt, getAt]

/-! ### walk -/

theorem walk_found (r : Node) (loc : List Name) (n : Node) (h : walk r loc = .found n) :
    getAt r loc = some n ∧ parentOk r loc := by
  induction loc generalizing r with
  | nil => simp [walk] at h; simp [getAt, h, parentOk]
  | cons c l ih =>
    cases r with
    | dir es =>
      simp only [walk] at h
      split at h
      · cases h
      · cases hx : assoc es c with
        | none => rw [hx] at h; cases l <;> simp at h
        | some x =>
          rw [hx] at h
          have := ih x h
          refine ⟨by simp [getAt, hx, this.1], ?_⟩
          cases l with
          | nil => simp [parentOk]
          | cons c' l' => exact ⟨x, hx, this.2⟩
    | file b => simp [walk] at h
    | symlink t => simp [walk] at h
    | fifo => simp [walk] at h
    | special s => simp [walk] at h

theorem walk_missing (r : Node) (loc : List Name) (h : walk r loc = .missing) :
    getAt r loc = none ∧ parentOk r loc ∧ loc ≠ [] := by
  induction loc generalizing r with
  | nil => simp [walk] at h
  | cons c l ih =>
    cases r with
    | dir es =>
      simp only [walk] at h
      split at h
      · cases h
      · cases hx : assoc es c with
        | none =>
          rw [hx] at h
          cases l with
          | nil => simp [getAt, hx, parentOk]
          | cons c' l' => simp at h
        | some x =>
          rw [hx] at h
          have := ih x h
          refine ⟨by simp [getAt, hx, this.1], ?_, by simp⟩
          cases l with
          | nil => simp [parentOk]
          | cons c' l' => exact ⟨x, hx, this.2.1⟩
    | file b => simp [walk] at h
    | symlink t => simp [walk] at h
    | fifo => simp [walk] at h
    | special s => simp [walk] at h

/-- nothing lives below a location that is absent or not a directory -/
theorem view_below_none (r : Node) (loc m : List Name) (hm : m ≠ [])
    (h : getAt r loc = none ∨ (∃ b, getAt r loc = some (.file b)) ∨ (∃ t, getAt r loc = some (.symlink t)) ∨ getAt r loc = some .fifo) :
    view r (loc ++ m) = none := by
  cases m with
  | nil => exact absurd rfl hm
  | cons c m' =>
    simp only [view, getAt_append]
    rcases h with h | ⟨b, h⟩ | ⟨t, h⟩ | h <;> simp [h, getAt]

/-- replacing an absent node or a regular file by a regular file changes that one location only -/
theorem replace_file_frame (r : Node) (loc : List Name) (b' : Bytes)
    (hp : parentOk r loc)
    (hold : getAt r loc = none ∨ ∃ b, getAt r loc = some (.file b)) :
    getAt (setAt r loc (some (.file b'))) loc = some (.file b') ∧
    parentOk (setAt r loc (some (.file b'))) loc ∧
    ∀ q, q ≠ loc → view (setAt r loc (some (.file b'))) q = view r q := by
  refine ⟨getAt_setAt_some r loc _ hp, parentOk_setAt r loc _ hp, ?_⟩
  intro q hq
  by_cases hpre : loc <+: q
  · obtain ⟨m, rfl⟩ := hpre
    have hm : m ≠ [] := by intro h; subst h; simp at hq
    rw [view_below_none _ loc m hm (Or.inr (Or.inl ⟨b', getAt_setAt_some r loc _ hp⟩))]
    rw [view_below_none r loc m hm (by rcases hold with h | ⟨b, h⟩; exact Or.inl h; exact Or.inr (Or.inl ⟨b, h⟩))]
  · exact view_setAt_other r loc q _ hq hpre


abbrev F_WCT : Nat := 524865   -- O_CLOEXEC | O_WRONLY | O_CREAT | O_TRUNC

theorem openFlags_write : openFlags writeOpts 0 = some F_WCT := by decide
theorem openFlags_copy_dest : openFlags ⟨false, true, false, true, true, false⟩ 0 = some F_WCT := by decide

theorem walk_names (r : Node) (loc : List Name) (h : (∃ n, walk r loc = .found n) ∨ walk r loc = .missing) :
    ∀ c ∈ loc, c.length ≤ NAME_MAX := by
  induction loc generalizing r with
  | nil => simp
  | cons c l ih =>
    cases r with
    | dir es =>
      simp only [walk] at h
      by_cases hc : c.length > NAME_MAX
      · simp [hc] at h
      · simp only [hc, if_false] at h
        cases hx : assoc es c with
        | none =>
          rw [hx] at h
          cases l with
          | nil => intro c' hc'; simp at hc'; subst hc'; omega
          | cons c' l' => simp at h
        | some x =>
          rw [hx] at h
          intro c' hc'
          simp at hc'
          rcases hc' with rfl | hc'
          · omega
          · exact ih x h c' hc'
    | file b => simp [walk] at h
    | symlink t => simp [walk] at h
    | fifo => simp [walk] at h
    | special s => simp [walk] at h

theorem walk_of_getAt (r : Node) (loc : List Name) (n : Node) (hg : getAt r loc = some n)
    (hn : ∀ c ∈ loc, c.length ≤ NAME_MAX) : walk r loc = .found n := by
  induction loc generalizing r with
  | nil => simp [getAt] at hg; simp [walk, hg]
  | cons c l ih =>
    cases r with
    | dir es =>
      simp only [getAt] at hg
      have hc : ¬ c.length > NAME_MAX := by have := hn c (by simp); omega
      simp only [walk, hc, if_false]
      cases hx : assoc es c with
      | none => rw [hx] at hg; simp at hg
      | some x =>
        rw [hx] at hg
        exact ih x hg (fun c' hc' => hn c' (by simp [hc']))
    | file b => simp [getAt] at hg
    | symlink t => simp [getAt] at hg
    | fifo => simp [getAt] at hg
    | special s => simp [getAt] at hg

theorem parsePath_cwd (st st' : FS) (p : Bytes) (h : st'.cwd = st.cwd) : parsePath st' p = parsePath st p := by
  unfold parsePath; rw [h]

theorem fsRead_file (st : FS) (p : Bytes) (loc : List Name) (b : Bytes)
    (hp : parsePath st p = .ok (loc, false)) (hn : ∀ c ∈ loc, c.length ≤ NAME_MAX)
    (hg : getAt st.root loc = some (.file b)) : fsRead st p = .ok b := by
  have hf : openFlags ⟨true, false, false, false, false, false⟩ 0 = some 524288 := by decide
  have hw := walk_of_getAt _ _ _ hg hn
  have hb1 : hasBit 524288 O_CREAT = false := by decide
  have hb2 : hasBit 524288 O_EXCL = false := by decide
  have hb3 : hasBit 524288 O_TRUNC = false := by decide
  have hb4 : hasBit 524288 O_DIRECTORY = false := by decide
  simp [fsRead, optsOpen, hf, openat, hp, hw, hb1, hb2, hb3, hb4, hg]

theorem openat_wct_ok (st st1 : FS) (p : Bytes) (h : Handle)
    (hop : openat st p F_WCT = (st1, .ok h)) :
    parsePath st p = .ok (h.loc, false) ∧ (∀ c ∈ h.loc, c.length ≤ NAME_MAX) ∧ st1.cwd = st.cwd ∧ parentOk st.root h.loc ∧
      (getAt st.root h.loc = none ∨ ∃ b, getAt st.root h.loc = some (.file b)) ∧
      st1.root = setAt st.root h.loc (some (.file [])) ∧ h.isDir = false ∧ h.flags = F_WCT ∧ h.off = 0 := by
  unfold openat at hop
  cases hpp : parsePath st p with
  | error e => rw [hpp] at hop; simp at hop
  | ok lt =>
    obtain ⟨loc, tr⟩ := lt
    rw [hpp] at hop
    have hb1 : hasBit F_WCT O_CREAT = true := by decide
    have hb2 : hasBit F_WCT O_EXCL = false := by decide
    have hb3 : hasBit F_WCT O_TRUNC = true := by decide
    have hb4 : hasBit F_WCT O_DIRECTORY = false := by decide
    have hb5 : hasBit F_WCT O_NOFOLLOW = false := by decide
    have hb6 : F_WCT % 4 = 1 := by decide
    simp only [hb1, hb2, hb3, hb4, hb5, hb6] at hop
    cases hw : walk st.root loc with
    | err e => rw [hw] at hop; simp at hop
    | missing =>
      rw [hw] at hop
      have := walk_missing _ _ hw
      cases tr <;> simp at hop
      obtain ⟨h1, h2⟩ := hop
      subst h1 h2
      exact ⟨rfl, walk_names _ _ (Or.inr hw), rfl, this.2.1, Or.inl this.1, rfl, rfl, rfl, rfl⟩
    | found n =>
      rw [hw] at hop
      have := walk_found _ _ _ hw
      cases n with
      | dir es => simp at hop
      | symlink t => simp at hop
      | fifo => simp at hop
      | special s => cases s <;> cases tr <;> simp at hop
      | file b =>
        cases tr <;> simp at hop
        obtain ⟨h1, h2⟩ := hop
        subst h1 h2
        exact ⟨rfl, walk_names _ _ (Or.inl ⟨_, hw⟩), rfl, this.2, Or.inr ⟨b, this.1⟩, rfl, rfl, rfl, rfl⟩


theorem clamp_le (k want : Nat) : clamp k want ≤ want := by unfold clamp; split <;> omega

theorem writeAt_end (w chunk : Bytes) : writeAt w w.length chunk = w ++ chunk := by
  simp [writeAt]

/-- state reached while the file at `loc` is being (over)written: only `loc` differs from `r0` -/
structure FileInv (r0 r : Node) (loc : List Name) (w : Bytes) : Prop where
  here : getAt r loc = some (.file w)
  par : parentOk r loc
  frame : ∀ q, q ≠ loc → view r q = view r0 q

theorem FileInv.step {r0 r : Node} {loc : List Name} {w : Bytes} (inv : FileInv r0 r loc w) (w' : Bytes) :
    FileInv r0 (setAt r loc (some (.file w'))) loc w' := by
  have := replace_file_frame r loc w' inv.par (Or.inr ⟨w, inv.here⟩)
  exact ⟨this.1, this.2.1, fun q hq => (this.2.2 q hq).trans (inv.frame q hq)⟩

theorem sysWrite_ok (r0 : Node) (st st' : FS) (h h' : Handle) (w data : Bytes) (k n : Nat)
    (inv : FileInv r0 st.root h.loc w) (hd : h.isDir = false) (hf : h.flags = F_WCT) (ho : h.off = w.length)
    (hs : sysWrite st h data k = (st', .ok (h', n))) :
    n = clamp k data.length ∧ FileInv r0 st'.root h.loc (w ++ data.take n) ∧ st'.cwd = st.cwd ∧
      h'.loc = h.loc ∧ h'.isDir = false ∧ h'.flags = F_WCT ∧ h'.off = (w ++ data.take n).length := by
  unfold sysWrite at hs
  have hb : hasBit F_WCT O_APPEND = false := by decide
  have hb6 : F_WCT % 4 = 1 := by decide
  simp only [hd, hf, hb6, inv.here, hb, ho] at hs
  simp at hs
  obtain ⟨h1, h2, h3⟩ := hs
  subst h1 h2 h3
  have hcl : clamp k data.length ≤ data.length := by unfold clamp; split <;> omega
  refine ⟨rfl, ?_, rfl, rfl, rfl, rfl, ?_⟩
  · simp only [writeAt_end]
    exact inv.step _
  · simp [List.length_take]; omega

theorem writeAll_ok (r0 : Node) (script : List Nat) :
    ∀ (st st' : FS) (h : Handle) (w data : Bytes),
      FileInv r0 st.root h.loc w → h.isDir = false → h.flags = F_WCT → h.off = w.length →
      writeAll st h data script = (st', .ok ()) →
      FileInv r0 st'.root h.loc (w ++ data) ∧ st'.cwd = st.cwd := by
  induction script with
  | nil =>
    intro st st' h w data inv hd hf ho hs
    unfold writeAll at hs
    by_cases hdat : data = []
    · simp [hdat] at hs; subst hs; simpa [hdat] using inv
    · simp only [hdat, if_false] at hs
      cases hsw : sysWrite st h data 0 with
      | mk st2 r =>
        rw [hsw] at hs
        cases r with
        | error e => simp at hs
        | ok hn =>
          obtain ⟨h', n⟩ := hn
          simp at hs
          subst hs
          have := sysWrite_ok r0 st st2 h h' w data 0 n inv hd hf ho hsw
          have hn : n = data.length := by simp [this.1, clamp]
          subst hn
          have h2 := this.2.1
          rw [List.take_length] at h2
          exact ⟨h2, this.2.2.1⟩
  | cons k ks ih =>
    intro st st' h w data inv hd hf ho hs
    unfold writeAll at hs
    by_cases hdat : data = []
    · simp [hdat] at hs; subst hs; simpa [hdat] using inv
    · simp only [hdat, if_false] at hs
      cases hsw : sysWrite st h data k with
      | mk st2 r =>
        rw [hsw] at hs
        cases r with
        | error e => simp at hs
        | ok hn =>
          obtain ⟨h', n⟩ := hn
          simp only at hs
          have := sysWrite_ok r0 st st2 h h' w data k n inv hd hf ho hsw
          by_cases hn0 : n = 0
          · simp [hn0] at hs
          · simp only [hn0, if_false] at hs
            obtain ⟨_, inv2, hc, hl, hd', hf', ho'⟩ := this
            rw [← hl] at inv2
            have := ih st2 st' h' (w ++ data.take n) (data.drop n) inv2 hd' hf' ho' hs
            rw [hl] at this
            simpa [List.append_assoc, List.take_append_drop, hc] using this


/-- **write_post** -/
theorem write_post' (st st' : FS) (p data : Bytes) (script : List Nat)
    (h : fsWrite st p data script = (st', .ok ())) :
    ∃ loc, parsePath st p = .ok (loc, false) ∧
      getAt st'.root loc = some (.file data) ∧
      (∀ q, q ≠ loc → view st'.root q = view st.root q) ∧
      fsRead st' p = .ok data := by
  unfold fsWrite optsOpen at h
  rw [openFlags_write] at h
  simp only at h
  cases hop : openat st p F_WCT with
  | mk st1 r =>
    rw [hop] at h
    cases r with
    | error e => simp at h
    | ok hd =>
      simp only at h
      obtain ⟨hpp, hnames, hcwd, hpar, hold, hroot, hdir, hfl, hoff⟩ := openat_wct_ok st st1 p hd hop
      have inv0 : FileInv st.root st1.root hd.loc [] := by
        have := replace_file_frame st.root hd.loc [] hpar hold
        rw [hroot]
        exact ⟨this.1, this.2.1, this.2.2⟩
      have := writeAll_ok st.root script st1 st' hd [] data inv0 hdir hfl (by simp [hoff]) h
      simp only [List.nil_append] at this
      refine ⟨hd.loc, hpp, this.1.here, this.1.frame, ?_⟩
      apply fsRead_file st' p hd.loc data _ hnames this.1.here
      rw [parsePath_cwd st st' p (this.2.trans hcwd)]
      exact hpp


abbrev F_RD : Nat := 524288   -- O_CLOEXEC | O_RDONLY

theorem openat_rd_ok (st st0 : FS) (p : Bytes) (h : Handle)
    (hop : openat st p F_RD = (st0, .ok h)) :
    st0 = st ∧ (∃ tr, parsePath st p = .ok (h.loc, tr)) ∧
      (h.isDir = false → ∃ b, getAt st.root h.loc = some (.file b)) ∧
      (h.isDir = true → ∃ es, getAt st.root h.loc = some (.dir es)) := by
  unfold openat at hop
  cases hpp : parsePath st p with
  | error e => rw [hpp] at hop; simp at hop
  | ok lt =>
    obtain ⟨loc, tr⟩ := lt
    rw [hpp] at hop
    have hb1 : hasBit F_RD O_CREAT = false := by decide
    have hb2 : hasBit F_RD O_EXCL = false := by decide
    have hb3 : hasBit F_RD O_TRUNC = false := by decide
    have hb4 : hasBit F_RD O_DIRECTORY = false := by decide
    have hb5 : hasBit F_RD O_NOFOLLOW = false := by decide
    have hb6 : F_RD % 4 = 0 := by decide
    simp only [hb1, hb2, hb3, hb4, hb5, hb6] at hop
    cases hw : walk st.root loc with
    | err e => rw [hw] at hop; simp at hop
    | missing => rw [hw] at hop; simp at hop
    | found n =>
      rw [hw] at hop
      have := walk_found _ _ _ hw
      cases n with
      | symlink t => simp at hop
      | fifo => simp at hop
      | special s => cases s <;> cases tr <;> simp at hop
      | dir es =>
        simp at hop
        obtain ⟨h1, h2⟩ := hop
        subst h1 h2
        exact ⟨rfl, ⟨tr, rfl⟩, by simp, fun _ => ⟨es, this.1⟩⟩
      | file b =>
        cases tr <;> simp at hop
        obtain ⟨h1, h2⟩ := hop
        subst h1 h2
        exact ⟨rfl, ⟨false, rfl⟩, fun _ => ⟨b, this.1⟩, by simp⟩

theorem clamp_pos (k want : Nat) (h : 0 < want) : 0 < clamp k want := by unfold clamp; split <;> omega

theorem getAt_of_view_file (r : Node) (q : List Name) (b : Bytes) (h : view r q = some (.file b)) :
    getAt r q = some (.file b) := by
  unfold view at h
  cases hg : getAt r q with
  | none => simp [hg] at h
  | some n => cases n <;> simp_all [Node.kind]

theorem copyLoop_ok (r0 : Node) (s : Bytes) (src : Handle) (script : List Nat) :
    ∀ (st st' : FS) (dst : Handle) (offset : Nat),
      FileInv r0 st.root dst.loc (s.take offset) → offset ≤ s.length →
      view r0 src.loc = some (.file s) →
      copyLoop st src dst s.length offset script = (st', .ok ()) →
      FileInv r0 st'.root dst.loc s := by
  induction script with
  | nil =>
    intro st st' dst offset inv hle hsrc hs
    unfold copyLoop at hs
    by_cases hz : s.length - offset = 0
    · simp [hz] at hs; subst hs
      have : offset = s.length := by omega
      subst this; simpa using inv
    · simp only [hz, if_false] at hs
      unfold copyFileRange at hs
      by_cases hsame : src.loc = dst.loc
      · simp [hsame] at hs
      · simp only [hsame, if_false] at hs
        have hsg : getAt st.root src.loc = some (.file s) :=
          getAt_of_view_file _ _ _ ((inv.frame _ hsame).trans hsrc)
        simp only [hsg, inv.here] at hs
        simp at hs
        subst hs
        have hn : clamp 0 (s.length - offset) = s.length - offset := by simp [clamp]
        rw [hn]
        have hw : writeAt (s.take offset) offset ((s.drop offset).take (s.length - offset)) = s := by
          have h1 : (s.take offset).length = offset := by simp [List.length_take]; omega
          have := writeAt_end (s.take offset) ((s.drop offset).take (s.length - offset))
          rw [h1] at this
          rw [this]
          have h2 : (s.drop offset).take (s.length - offset) = s.drop offset := by
            apply List.take_of_length_le; simp
          rw [h2, List.take_append_drop]
        rw [hw]
        exact inv.step s
  | cons k ks ih =>
    intro st st' dst offset inv hle hsrc hs
    unfold copyLoop at hs
    by_cases hz : s.length - offset = 0
    · simp [hz] at hs; subst hs
      have : offset = s.length := by omega
      subst this; simpa using inv
    · simp only [hz, if_false] at hs
      unfold copyFileRange at hs
      by_cases hsame : src.loc = dst.loc
      · simp [hsame] at hs
      · simp only [hsame, if_false] at hs
        have hsg : getAt st.root src.loc = some (.file s) :=
          getAt_of_view_file _ _ _ ((inv.frame _ hsame).trans hsrc)
        simp only [hsg, inv.here] at hs
        simp only [Nat.min_self] at hs
        have hpos := clamp_pos k (s.length - offset) (by omega)
        have hcl := clamp_le k (s.length - offset)
        have hn0 : ¬ clamp k (s.length - offset) = 0 := by omega
        simp only [hn0, if_false] at hs
        refine ih _ st' dst (offset + clamp k (s.length - offset)) ?_ (by omega) hsrc hs
        have hw : writeAt (s.take offset) offset ((s.drop offset).take (clamp k (s.length - offset)))
            = s.take (offset + clamp k (s.length - offset)) := by
          have h1 : (s.take offset).length = offset := by simp [List.length_take]; omega
          have := writeAt_end (s.take offset) ((s.drop offset).take (clamp k (s.length - offset)))
          rw [h1] at this
          rw [this, List.take_add]
        simp only [hw]
        exact inv.step _

/-- **copy_post** (repaired code: destination opened with `truncate(true)`) -/
theorem copy_post' (st st' : FS) (src dst : Bytes) (script : List Nat)
    (h : copyFile st src dst script = (st', .ok ())) :
    ∃ sloc dloc s, (∃ tr, parsePath st src = .ok (sloc, tr)) ∧ parsePath st dst = .ok (dloc, false) ∧
      getAt st.root sloc = some (.file s) ∧
      getAt st'.root dloc = some (.file s) ∧
      (∀ q, q ≠ dloc → view st'.root q = view st.root q) := by
  unfold copyFile copyFileG optsOpen at h
  have hf : openFlags ⟨true, false, false, false, false, false⟩ 0 = some F_RD := by decide
  rw [hf] at h
  simp only at h
  cases hop : openat st src F_RD with
  | mk st0 r =>
    rw [hop] at h
    cases r with
    | error e => simp at h
    | ok hs =>
      simp only at h
      obtain ⟨hst0, hpp, hfile, _⟩ := openat_rd_ok st st0 src hs hop
      subst hst0
      by_cases hdir : hs.isDir = true
      · simp [hdir] at h
      · simp only [hdir] at h
        obtain ⟨s, hsg⟩ := hfile (by simpa using hdir)
        unfold fileCopy fstatSize optsOpen at h
        rw [hsg, openFlags_copy_dest] at h
        simp only at h
        cases hop2 : openat st0 dst F_WCT with
        | mk st1 r2 =>
          rw [hop2] at h
          cases r2 with
          | error e => simp at h
          | ok hd =>
            simp only at h
            obtain ⟨hpp2, hnames, hcwd, hpar, hold, hroot, hdir2, hfl, hoff⟩ := openat_wct_ok st0 st1 dst hd hop2
            have inv0 : FileInv st0.root st1.root hd.loc (s.take 0) := by
              have := replace_file_frame st0.root hd.loc [] hpar hold
              rw [hroot]
              exact ⟨this.1, this.2.1, this.2.2⟩
            have hv : view st0.root hs.loc = some (.file s) := by simp [view, hsg, Node.kind]
            have := copyLoop_ok st0.root s hs script st1 st' hd 0 inv0 (by omega) hv h
            exact ⟨hs.loc, hd.loc, s, hpp, hpp2, hsg, this.here, this.frame⟩


theorem unlinkat_rmdir_ok (st st' : FS) (p : Bytes) (h : unlinkat st p true = (st', .ok ())) :
    ∃ loc tr, parsePath st p = .ok (loc, tr) ∧ loc ≠ [] ∧ getAt st.root loc = some (.dir []) ∧
      st'.root = setAt st.root loc none ∧ st'.cwd = st.cwd := by
  unfold unlinkat at h
  cases hpp : parsePath st p with
  | error e => rw [hpp] at h; simp at h
  | ok lt =>
    obtain ⟨loc, tr⟩ := lt
    rw [hpp] at h
    simp only at h
    cases hw : walk st.root loc with
    | err e => rw [hw] at h; simp at h
    | missing => rw [hw] at h; simp at h
    | found n =>
      rw [hw] at h
      have hf := walk_found _ _ _ hw
      cases n with
      | symlink t => cases tr <;> simp at h
      | fifo => simp at h
      | special s => simp at h
      | file b => simp at h
      | dir es =>
        simp only [Bool.not_true, Bool.false_eq_true, if_false] at h
        by_cases h1 : (loc = [] || loc = st.cwd) = true
        · simp [h1] at h
        · simp only [h1, if_false] at h
          by_cases h2 : es ≠ []
          · simp [h2] at h
          · simp only [h2, if_false] at h
            simp at h2
            subst h2
            simp at h
            subst h
            refine ⟨loc, tr, rfl, ?_, hf.1, rfl, rfl⟩
            intro hl; simp [hl] at h1

theorem removeAllN_file (exact : Bool) (fuel : Nat) (b : Bytes) : (removeAllN exact fuel (.file b)).2 ≠ .ok () := by
  cases fuel with
  | zero => show (Except.error E.unmodelled : Out Unit) ≠ .ok (); intro h; cases h
  | succ n => show (Except.error (E.os ENOTDIR) : Out Unit) ≠ .ok (); intro h; cases h

/-- **remove_dir_all_post** -/
theorem remove_dir_all_post' (exact : Bool) (st st' : FS) (p : Bytes) (h : removeDirAllOn exact st p = (st', .ok ())) :
    ∃ loc, (∃ tr, parsePath st p = .ok (loc, tr)) ∧ loc ≠ [] ∧
      (∃ es, getAt st.root loc = some (.dir es)) ∧
      (∀ q, loc <+: q → getAt st'.root q = none) ∧
      (∀ q, ¬ loc <+: q → view st'.root q = view st.root q) := by
  unfold removeDirAllOn at h
  have hfl : (O_CLOEXEC ||| O_RDONLY) = F_RD := by decide
  rw [hfl] at h
  cases hop : openat st p F_RD with
  | mk st0 r =>
    rw [hop] at h
    cases r with
    | error e => simp at h
    | ok hd =>
      simp only at h
      obtain ⟨hst0, ⟨tr, hpp⟩, hfile, hdirn⟩ := openat_rd_ok st st0 p hd hop
      subst hst0
      cases hg : getAt st0.root hd.loc with
      | none => rw [hg] at h; simp at h
      | some d =>
        rw [hg] at h
        simp only at h
        cases hr : removeAllN exact (depth d + 1) d with
        | mk d' res =>
          rw [hr] at h
          cases res with
          | error e => simp at h
          | ok u =>
            simp only at h
            obtain ⟨loc, tr2, hpp2, hne, hgd, hroot, hcwd⟩ := unlinkat_rmdir_ok _ st' p h
            have hpc := parsePath_cwd st0 { root := setAt st0.root hd.loc (some d'), cwd := st0.cwd } p rfl
            rw [hpc, hpp] at hpp2
            simp at hpp2
            obtain ⟨hl, _⟩ := hpp2
            subst hl
            have hisdir : ∃ es, getAt st0.root hd.loc = some (.dir es) := by
              by_cases hb : hd.isDir = true
              · exact hdirn hb
              · have hb2 : hd.isDir = false := Bool.eq_false_iff.mpr hb
                obtain ⟨b, hb'⟩ := hfile hb2
                have hdb : d = .file b := by rw [hb'] at hg; exact (Option.some.inj hg).symm
                rw [hdb] at hr
                exact absurd (congrArg Prod.snd hr) (removeAllN_file _ _ b)
            refine ⟨hd.loc, ⟨tr, hpp⟩, hne, hisdir, ?_, ?_⟩
            · intro q hq
              obtain ⟨m, rfl⟩ := hq
              rw [hroot, getAt_append, getAt_setAt_none _ _ hne]
              rfl
            · intro q hq
              have hqne : q ≠ hd.loc := by intro h; subst h; exact hq (List.prefix_refl _)
              rw [hroot, view_setAt_other _ _ _ _ hqne hq]
              exact view_setAt_other _ _ _ _ hqne hq


/-- the masked comparisons of `Metadata` recognise exactly their own file type, for every kind of node -/
theorem metaIsDir_stMode (k : Kind) : metaIsDir k.stMode = true ↔ k = .dir := by
  cases k with
  | special s => cases s <;> simp [Kind.stMode, metaIsDir] <;> decide
  | dir => simp [Kind.stMode, metaIsDir]; decide
  | file b => simp [Kind.stMode, metaIsDir]; decide
  | symlink t => simp [Kind.stMode, metaIsDir]; decide
  | fifo => simp [Kind.stMode, metaIsDir]; decide

theorem metaIsFile_stMode (k : Kind) : metaIsFile k.stMode = true ↔ ∃ b, k = .file b := by
  cases k with
  | special s => cases s <;> simp [Kind.stMode, metaIsFile] <;> decide
  | dir => simp [Kind.stMode, metaIsFile]; decide
  | file b => simp [Kind.stMode, metaIsFile]; decide
  | symlink t => simp [Kind.stMode, metaIsFile]; decide
  | fifo => simp [Kind.stMode, metaIsFile]; decide

theorem metaIsSymlink_stMode (k : Kind) : metaIsSymlink k.stMode = true ↔ ∃ t, k = .symlink t := by
  cases k with
  | special s => cases s <;> simp [Kind.stMode, metaIsSymlink] <;> decide
  | dir => simp [Kind.stMode, metaIsSymlink]; decide
  | file b => simp [Kind.stMode, metaIsSymlink]; decide
  | symlink t => simp [Kind.stMode, metaIsSymlink]; decide
  | fifo => simp [Kind.stMode, metaIsSymlink]; decide

/-- nothing that existed was changed or removed (directories may have gained entries) -/
def Mono (st st' : FS) : Prop :=
  st'.cwd = st.cwd ∧ ∀ q k, view st.root q = some k → view st'.root q = some k

theorem Mono.refl (st : FS) : Mono st st := ⟨rfl, fun _ _ h => h⟩

theorem Mono.trans {a b c : FS} (h1 : Mono a b) (h2 : Mono b c) : Mono a c :=
  ⟨h2.1.trans h1.1, fun q k h => h2.2 q k (h1.2 q k h)⟩

theorem mkdirat_mono (st : FS) (p : Bytes) : Mono st (mkdirat st p).1 := by
  unfold mkdirat
  cases hpp : parsePath st p with
  | error e => exact Mono.refl st
  | ok lt =>
    obtain ⟨loc, tr⟩ := lt
    simp only
    cases hw : walk st.root loc with
    | err e => exact Mono.refl st
    | found n => cases n <;> exact Mono.refl st
    | missing =>
      simp only
      refine ⟨rfl, ?_⟩
      intro q k hq
      obtain ⟨hnone, hpar, hne⟩ := walk_missing _ _ hw
      have hql : q ≠ loc := by
        intro h; subst h; simp [view, hnone] at hq
      by_cases hpre : loc <+: q
      · obtain ⟨m, rfl⟩ := hpre
        have hm : m ≠ [] := by intro h; subst h; simp at hql
        rw [view_below_none st.root loc m hm (Or.inl hnone)] at hq
        cases hq
      · rw [view_setAt_other _ _ _ _ hql hpre]; exact hq

theorem mkdirOrExists_mono (st : FS) (p : Bytes) : Mono st (mkdirOrExists st p).1 := by
  have := mkdirat_mono st p
  unfold mkdirOrExists
  cases h : mkdirat st p with
  | mk st' r =>
    rw [h] at this
    cases r with
    | ok u => exact this
    | error e => simp only; split <;> exact this

theorem scanDown_mono (buf : Bytes) (n : Nat) : ∀ st, Mono st (scanDown st buf n).1 := by
  induction n with
  | zero => intro st; exact Mono.refl st
  | succ n ih =>
    intro st
    unfold scanDown
    split
    · have hm := mkdirOrExists_mono st (buf.take (n + 1))
      cases h : mkdirOrExists st (buf.take (n + 1)) with
      | mk st' r =>
        rw [h] at hm
        cases r with
        | ok ex => exact hm
        | error e =>
          simp only
          split
          · exact hm.trans (ih st')
          · exact hm
    · exact ih st

theorem scanUp_mono (rest : Bytes) : ∀ st done ex, Mono st (scanUp st done ex rest).1 := by
  induction rest with
  | nil => intro st done ex; exact Mono.refl st
  | cons b rest ih =>
    intro st done ex
    unfold scanUp
    split
    · have hm := mkdirOrExists_mono st done
      cases h : mkdirOrExists st done with
      | mk st' r =>
        rw [h] at hm
        cases r with
        | ok ex' => exact hm.trans (ih st' _ _)
        | error e => exact hm
    · exact ih st _ _

theorem writeAllSubPaths_mono (st : FS) (buf : Bytes) : Mono st (writeAllSubPaths st buf).1 := by
  unfold writeAllSubPaths
  have h1 := scanDown_mono buf (buf.length - 1) st
  cases hd : scanDown st buf (buf.length - 1) with
  | mk st1 r1 =>
    rw [hd] at h1
    cases r1 with
    | error e => exact h1
    | ok ie =>
      obtain ⟨ind, ex⟩ := ie
      simp only
      have h2 := scanUp_mono (buf.drop (ind + 1)) st1 (buf.take (ind + 1)) ex
      cases hu : scanUp st1 (buf.take (ind + 1)) ex (buf.drop (ind + 1)) with
      | mk st2 r2 =>
        rw [hu] at h2
        cases r2 with
        | error e => exact h1.trans h2
        | ok ex2 =>
          simp only
          by_cases hl : buf.getLast? = some SLASH
          · simp only [hl, if_true]
            cases ex2 with
            | false => exact h1.trans h2
            | true =>
              simp only
              split <;> (try split) <;> exact h1.trans h2
          · simp only [hl, if_false]
            have h3 := mkdirOrExists_mono st2 buf
            cases hm : mkdirOrExists st2 buf with
            | mk st3 r3 =>
              rw [hm] at h3
              cases r3 with
              | error e => exact (h1.trans h2).trans h3
              | ok ex3 =>
                cases ex3 with
                | false => exact (h1.trans h2).trans h3
                | true =>
                  simp only
                  split <;> (try split) <;> exact (h1.trans h2).trans h3

theorem createDirAll_mono (st : FS) (p : Bytes) : Mono st (createDirAll st p).1 := by
  unfold createDirAll
  split
  · exact Mono.refl st
  · split <;> exact writeAllSubPaths_mono st p


theorem mkdirat_ok_stat (st st' : FS) (p : Bytes) (h : mkdirat st p = (st', .ok ())) : stat st' p = .ok .dir := by
  unfold mkdirat at h
  cases hpp : parsePath st p with
  | error e => rw [hpp] at h; simp at h
  | ok lt =>
    obtain ⟨loc, tr⟩ := lt
    rw [hpp] at h
    simp only at h
    cases hw : walk st.root loc with
    | err e => rw [hw] at h; simp at h
    | found n => rw [hw] at h; cases n <;> simp at h
    | missing =>
      rw [hw] at h
      simp at h
      subst h
      obtain ⟨hnone, hpar, hne⟩ := walk_missing _ _ hw
      have hnames := walk_names _ _ (Or.inr hw)
      have hg := getAt_setAt_some st.root loc (.dir []) hpar
      have hw2 := walk_of_getAt _ _ _ hg hnames
      unfold stat
      have hpc := parsePath_cwd st { root := setAt st.root loc (some (Node.dir [])), cwd := st.cwd } p rfl
      rw [hpc, hpp]
      simp only [hw2]

/-- a location that resolves has only directories above it -/
theorem ancestors_are_dirs (r : Node) (l m : List Name) (x : Node) (hm : m ≠ [])
    (h : getAt r (l ++ m) = some x) : ∃ es, getAt r l = some (.dir es) := by
  rw [getAt_append] at h
  cases hg : getAt r l with
  | none => simp [hg] at h
  | some n =>
    cases m with
    | nil => exact absurd rfl hm
    | cons c m' =>
      cases n with
      | dir es => exact ⟨es, rfl⟩
      | file b => simp [hg, getAt] at h
      | symlink t => simp [hg, getAt] at h
      | fifo => simp [hg, getAt] at h
      | special s => simp [hg, getAt] at h

theorem stat_dir (st : FS) (p : Bytes) (h : stat st p = .ok .dir) :
    ∃ loc tr es, parsePath st p = .ok (loc, tr) ∧ getAt st.root loc = some (.dir es) := by
  unfold stat at h
  cases hpp : parsePath st p with
  | error e => rw [hpp] at h; simp at h
  | ok lt =>
    obtain ⟨loc, tr⟩ := lt
    rw [hpp] at h
    simp only at h
    cases hw : walk st.root loc with
    | err e => rw [hw] at h; simp at h
    | missing => rw [hw] at h; simp at h
    | found n =>
      rw [hw] at h
      have := walk_found _ _ _ hw
      cases n with
      | dir es => exact ⟨loc, tr, es, rfl, this.1⟩
      | file b => cases tr <;> simp [Node.kind] at h
      | symlink t => simp at h
      | fifo => cases tr <;> simp [Node.kind] at h
      | special s => cases tr <;> simp [Node.kind] at h

/-- a successful `stat`: the path resolves to a node of the reported kind, and that node is not a symlink -/
theorem stat_ok (st : FS) (p : Bytes) (k : Kind) (h : stat st p = .ok k) :
    ∃ loc tr n, parsePath st p = .ok (loc, tr) ∧ getAt st.root loc = some n ∧ n.kind = k ∧ ∀ t, n ≠ .symlink t := by
  unfold stat at h
  cases hpp : parsePath st p with
  | error e => rw [hpp] at h; simp at h
  | ok lt =>
    obtain ⟨loc, tr⟩ := lt
    rw [hpp] at h
    simp only at h
    cases hw : walk st.root loc with
    | err e => rw [hw] at h; simp at h
    | missing => rw [hw] at h; simp at h
    | found n =>
      rw [hw] at h
      have := walk_found _ _ _ hw
      cases n with
      | dir es => simp at h; exact ⟨loc, tr, _, rfl, this.1, by simp [Node.kind, h], by simp⟩
      | file b => cases tr <;> simp [Node.kind] at h; exact ⟨loc, false, _, rfl, this.1, by simp [Node.kind, h], by simp⟩
      | symlink t => simp at h
      | fifo => cases tr <;> simp [Node.kind] at h; exact ⟨loc, false, _, rfl, this.1, by simp [Node.kind, h], by simp⟩
      | special s => cases tr <;> simp [Node.kind] at h; exact ⟨loc, false, _, rfl, this.1, by simp [Node.kind, h], by simp⟩

theorem createDirAll_isDir_noTrailing (st st' : FS) (p : Bytes)
    (h : createDirAll st p = (st', .ok ())) (hl : p.getLast? ≠ some SLASH) : stat st' p = .ok .dir := by
  have hw : writeAllSubPaths st p = (st', .ok ()) := by
    unfold createDirAll at h
    split at h
    · simp at h
    · split at h <;> exact h
  unfold writeAllSubPaths at hw
  cases hd : scanDown st p (p.length - 1) with
  | mk st1 r1 =>
    rw [hd] at hw
    cases r1 with
    | error e => simp at hw
    | ok ie =>
      obtain ⟨ind, ex⟩ := ie
      simp only at hw
      cases hu : scanUp st1 (p.take (ind + 1)) ex (p.drop (ind + 1)) with
      | mk st2 r2 =>
        rw [hu] at hw
        cases r2 with
        | error e => simp at hw
        | ok ex2 =>
          simp only [hl, if_false] at hw
          cases hm : mkdirOrExists st2 p with
          | mk st3 r3 =>
            rw [hm] at hw
            cases r3 with
            | error e => simp at hw
            | ok ex3 =>
              cases ex3 with
              | true =>
                simp only at hw
                cases hs : stat st3 p with
                | error e => rw [hs] at hw; simp at hw
                | ok k =>
                  rw [hs] at hw
                  simp only at hw
                  by_cases hk : metaIsDir k.stMode = true
                  · simp only [hk, if_true] at hw
                    have hkd := (metaIsDir_stMode k).mp hk
                    subst hkd
                    simp at hw
                    subst hw; exact hs
                  · simp [hk] at hw
              | false =>
                simp at hw
                subst hw
                unfold mkdirOrExists at hm
                cases hmk : mkdirat st2 p with
                | mk st4 r4 =>
                  rw [hmk] at hm
                  cases r4 with
                  | ok u =>
                    simp at hm
                    subst hm
                    exact mkdirat_ok_stat _ _ _ hmk
                  | error e =>
                    simp only at hm
                    split at hm <;> simp at hm


theorem takeWhile_name (name tail : Bytes) (pad : Nat) (hz : ∀ b ∈ name, b ≠ 0) (hp : 0 < pad) :
    (name ++ (List.replicate pad 0 ++ tail)).takeWhile (fun b => decide (b ≠ 0)) = name := by
  induction name with
  | nil =>
    cases pad with
    | zero => omega
    | succ n => simp [List.replicate, List.takeWhile]
  | cons a l ih =>
    have ha : a ≠ 0 := hz a (by simp)
    simp only [List.cons_append, List.takeWhile, ne_eq, ha, not_false_eq_true, decide_true]
    rw [ih (fun b hb => hz b (by simp [hb]))]

theorem reclen_bounds (r : Rec) (hv : r.name.length ≤ 255) :
    20 + r.name.length ≤ reclen r ∧ reclen r ≤ 280 ∧ reclen r % 8 = 0 := by
  unfold reclen; omega

/-- one `linux_dirent64` record is parsed back to exactly its length, type and name, whatever follows it -/
theorem tryFromBytes_encode (r : Rec) (tail : Bytes) (hv : r.name.length ≤ 255) (hz : ∀ b ∈ r.name, b ≠ 0) :
    tryFromBytes (encode r ++ tail) = .some ⟨reclen r, r.dtype, r.name⟩ := by
  obtain ⟨h1, h2, _⟩ := reclen_bounds r hv
  unfold tryFromBytes encode le8
  simp only [List.cons_append, List.nil_append, List.append_assoc, List.length_cons, List.drop_succ_cons, List.drop_zero]
  have hlen : ¬ (List.length (r.name ++ (List.replicate (reclen r - 19 - r.name.length) 0 ++ tail)) + 1 + 1 + 1 + 1 + 1 + 1 + 1 + 1 + 1 + 1 + 1 + 1 + 1 + 1 + 1 + 1 + 1 + 1 + 1 < 18) := by omega
  simp only [hlen, if_false]
  rw [takeWhile_name r.name tail _ hz (by omega)]
  have hn : ¬ r.name.length > 256 := by omega
  simp only [hn, if_false]
  congr 2
  omega

/-! ### create_dir_all: paths ending in separators -/

theorem splitSlash_ne_nil (p : Bytes) : splitSlash p ≠ [] := by
  cases p with
  | nil => simp [splitSlash]
  | cons b r =>
    unfold splitSlash
    split
    · simp
    · split <;> simp

theorem splitSlash_append_slash (xs : Bytes) : splitSlash (xs ++ [SLASH]) = splitSlash xs ++ [[]] := by
  induction xs with
  | nil => simp [splitSlash]
  | cons b r ih =>
    simp only [List.cons_append, splitSlash]
    split
    · rw [ih]; simp
    · rw [ih]
      cases h : splitSlash r with
      | nil => exact absurd h (splitSlash_ne_nil r)
      | cons a t => simp

theorem comps_append_slash (xs : Bytes) : comps (xs ++ [SLASH]) = comps xs := by
  unfold comps
  rw [splitSlash_append_slash]
  simp

/-- the location a path names, read lexically: from the root for an absolute path, from the working directory
otherwise, through its non-empty components (what `parsePath` answers whenever the kernel accepts the path) -/
def pathLoc (st : FS) (p : Bytes) : List Name := (if p.head? = some SLASH then [] else st.cwd) ++ comps p

theorem parsePath_ok_loc (st : FS) (p : Bytes) (loc : List Name) (tr : Bool) (h : parsePath st p = .ok (loc, tr)) :
    loc = pathLoc st p ∧ (comps p).any isDots = false ∧ p.length < PATH_MAX ∧ p ≠ [] := by
  unfold parsePath at h
  by_cases h1 : p = []
  · simp [h1] at h
  · simp only [h1, if_false] at h
    by_cases h2 : p.length ≥ PATH_MAX
    · simp [h2] at h
    · simp only [h2, if_false] at h
      by_cases h3 : (comps p).any isDots = true
      · simp [h3] at h
      · simp only [h3] at h
        simp at h
        refine ⟨?_, by simpa using h3, by omega, h1⟩
        unfold pathLoc
        exact h.1.symm

theorem parsePath_of (st : FS) (p : Bytes) (h1 : p ≠ []) (h2 : p.length < PATH_MAX)
    (h3 : (comps p).any isDots = false) : ∃ tr, parsePath st p = .ok (pathLoc st p, tr) := by
  unfold parsePath pathLoc
  have h2' : ¬ p.length ≥ PATH_MAX := by omega
  simp only [h1, h2', h3, if_false]
  exact ⟨_, rfl⟩

theorem pathLoc_append_slash (st : FS) (xs : Bytes) (h : xs ≠ []) : pathLoc st (xs ++ [SLASH]) = pathLoc st xs := by
  unfold pathLoc
  rw [comps_append_slash]
  cases xs with
  | nil => exact absurd rfl h
  | cons a r => simp

theorem pathLoc_cwd (st st' : FS) (p : Bytes) (h : st'.cwd = st.cwd) : pathLoc st' p = pathLoc st p := by
  unfold pathLoc; rw [h]

/-- a path ending in a separator is the path without it followed by that separator -/
theorem eq_take_append_slash (p : Bytes) (hl : p.getLast? = some SLASH) : p = p.take (p.length - 1) ++ [SLASH] := by
  have hne : p ≠ [] := by intro h; subst h; simp at hl
  have h1 := List.dropLast_concat_getLast hne
  have h2 : p.getLast hne = SLASH := by
    rw [List.getLast?_eq_some_getLast hne] at hl; exact Option.some.inj hl
  rw [h2, List.dropLast_eq_take] at h1
  exact h1.symm

/-- the upward loop over a remainder that ends in a separator: its last `mkdir` is the one on everything before
that final separator, and its answer is the loop's result -/
theorem scanUp_last (rest : Bytes) : ∀ (st st2 : FS) (done : Bytes) (ex ex2 : Bool),
    scanUp st done ex rest = (st2, .ok ex2) → rest.getLast? = some SLASH →
    ∃ sp, mkdirOrExists sp (done ++ rest.dropLast) = (st2, .ok ex2) := by
  induction rest with
  | nil => intro st st2 done ex ex2 h hl; simp at hl
  | cons b rest ih =>
    intro st st2 done ex ex2 h hl
    unfold scanUp at h
    cases rest with
    | nil =>
      simp at hl
      subst hl
      simp only [if_true] at h
      cases hm : mkdirOrExists st done with
      | mk st' r =>
        rw [hm] at h
        cases r with
        | error e => simp at h
        | ok ex' =>
          simp only [scanUp] at h
          refine ⟨st, ?_⟩
          simp only [List.dropLast_singleton, List.append_nil]
          rw [hm]; exact h
    | cons c rest' =>
      have hl' : (c :: rest').getLast? = some SLASH := by simpa [List.getLast?_cons_cons] using hl
      have hd : (b :: c :: rest').dropLast = b :: (c :: rest').dropLast := by simp [List.dropLast]
      rw [hd]
      by_cases hb : b = SLASH
      · simp only [hb, if_true] at h
        cases hm : mkdirOrExists st done with
        | mk st' r =>
          rw [hm] at h
          cases r with
          | error e => simp at h
          | ok ex' =>
            simp only at h
            obtain ⟨sp, hsp⟩ := ih st' st2 (done ++ [SLASH]) ex' ex2 h hl'
            refine ⟨sp, ?_⟩
            rw [hb]
            simpa [List.append_assoc] using hsp
      · simp only [hb, if_false] at h
        obtain ⟨sp, hsp⟩ := ih st st2 (done ++ [b]) ex ex2 h hl'
        exact ⟨sp, by simpa [List.append_assoc] using hsp⟩

/-- the downward scan either finds nothing (index 0, nothing remembered) or stops right after a `mkdir` on the
prefix before a separator, remembering that call's answer -/
theorem scanDown_res (buf : Bytes) (n : Nat) : ∀ (st st1 : FS) (ind : Nat) (ex : Bool),
    scanDown st buf n = (st1, .ok (ind, ex)) →
    (ind = 0 ∧ ex = false) ∨ (1 ≤ ind ∧ ind ≤ n ∧ ∃ sp, mkdirOrExists sp (buf.take ind) = (st1, .ok ex)) := by
  induction n with
  | zero =>
    intro st st1 ind ex h
    simp [scanDown] at h
    exact Or.inl ⟨h.2.1.symm, h.2.2⟩
  | succ n ih =>
    intro st st1 ind ex h
    unfold scanDown at h
    split at h
    · cases hm : mkdirOrExists st (buf.take (n + 1)) with
      | mk st' r =>
        rw [hm] at h
        cases r with
        | ok ex' =>
          simp at h
          obtain ⟨h1, h2, h3⟩ := h
          subst h1 h2 h3
          exact Or.inr ⟨by omega, by omega, st, hm⟩
        | error e =>
          simp only at h
          split at h
          · rcases ih st' st1 ind ex h with h | ⟨h1, h2, h3⟩
            · exact Or.inl h
            · exact Or.inr ⟨h1, by omega, h3⟩
          · simp at h
    · rcases ih st st1 ind ex h with h | ⟨h1, h2, h3⟩
      · exact Or.inl h
      · exact Or.inr ⟨h1, by omega, h3⟩

theorem mkdirOrExists_created (sp st : FS) (q : Bytes) (h : mkdirOrExists sp q = (st, .ok false)) :
    stat st q = .ok .dir := by
  unfold mkdirOrExists at h
  cases hmk : mkdirat sp q with
  | mk st4 r4 =>
    rw [hmk] at h
    cases r4 with
    | ok u =>
      simp at h
      subst h
      exact mkdirat_ok_stat _ _ _ hmk
    | error e =>
      simp only at h
      split at h <;> simp at h

theorem view_dir (r : Node) (q : List Name) (h : view r q = some .dir) : ∃ es, getAt r q = some (.dir es) := by
  unfold view at h
  cases hg : getAt r q with
  | none => simp [hg] at h
  | some n => cases n <;> simp_all [Node.kind]

/-- `write_all_sub_paths` on a path that ends in a separator and is not just `/`: on Ok, either the last `mkdir` (on
the path without its final separator) created the directory, or the final `stat` of the whole path saw a directory -/
theorem writeAllSubPaths_trailing (st st' : FS) (p : Bytes) (hl : p.getLast? = some SLASH) (h2 : 2 ≤ p.length)
    (hw : writeAllSubPaths st p = (st', .ok ())) :
    stat st' (p.take (p.length - 1)) = .ok .dir ∨ stat st' p = .ok .dir := by
  unfold writeAllSubPaths at hw
  cases hd : scanDown st p (p.length - 1) with
  | mk st1 r1 =>
    rw [hd] at hw
    cases r1 with
    | error e => simp at hw
    | ok ie =>
      obtain ⟨ind, ex⟩ := ie
      simp only at hw
      cases hu : scanUp st1 (p.take (ind + 1)) ex (p.drop (ind + 1)) with
      | mk st2 r2 =>
        rw [hu] at hw
        cases r2 with
        | error e => simp at hw
        | ok ex2 =>
          simp only [hl, if_true] at hw
          -- the last mkdir
          have hlast : ∃ sp, mkdirOrExists sp (p.take (p.length - 1)) = (st2, .ok ex2) := by
            have hres := scanDown_res p (p.length - 1) st st1 ind ex hd
            by_cases hrest : p.drop (ind + 1) = []
            · have hge : p.length ≤ ind + 1 := by simpa using hrest
              rw [hrest] at hu
              simp [scanUp] at hu
              obtain ⟨hu1, hu2⟩ := hu
              subst hu1 hu2
              rcases hres with ⟨h0, _⟩ | ⟨h1, hle, sp, hsp⟩
              · omega
              · have : ind = p.length - 1 := by omega
                subst this
                exact ⟨sp, hsp⟩
            · have hlt : ind + 1 < p.length := by
                have : ¬ p.length ≤ ind + 1 := by simpa using hrest
                omega
              have hgl : (p.drop (ind + 1)).getLast? = some SLASH := by
                rw [List.getLast?_drop]
                simp only [hl]
                have : ¬ p.length ≤ ind + 1 := by omega
                simp [this]
              obtain ⟨sp, hsp⟩ := scanUp_last _ st1 st2 _ ex ex2 hu hgl
              refine ⟨sp, ?_⟩
              have : p.take (ind + 1) ++ (p.drop (ind + 1)).dropLast = p.take (p.length - 1) := by
                rw [List.dropLast_eq_take, List.length_drop]
                have : p.length - 1 = (ind + 1) + (p.length - (ind + 1) - 1) := by omega
                rw [this]
                exact List.take_add.symm
              rw [this] at hsp
              exact hsp
          obtain ⟨sp, hsp⟩ := hlast
          cases ex2 with
          | false =>
            simp at hw
            subst hw
            exact Or.inl (mkdirOrExists_created sp _ _ hsp)
          | true =>
            simp only at hw
            cases hs : stat st2 p with
            | error e => rw [hs] at hw; simp at hw
            | ok k =>
              rw [hs] at hw
              simp only at hw
              by_cases hk : metaIsDir k.stMode = true
              · simp only [hk, if_true] at hw
                have hkd := (metaIsDir_stMode k).mp hk
                subst hkd
                simp at hw
                subst hw
                exact Or.inr hs
              · simp [hk] at hw

/-- on Ok the location the path names lexically holds a directory -/
theorem createDirAll_dirAt (st st' : FS) (p : Bytes) (hroot : ∃ es, st.root = .dir es)
    (h : createDirAll st p = (st', .ok ())) :
    (∃ es, getAt st'.root (pathLoc st p) = some (.dir es)) ∧ (comps p).any isDots = false ∧
    (p.length < PATH_MAX → ∃ tr, parsePath st p = .ok (pathLoc st p, tr)) := by
  have hm := createDirAll_mono st p
  rw [h] at hm
  have hw : writeAllSubPaths st p = (st', .ok ()) := by
    unfold createDirAll at h
    split at h
    · simp at h
    · split at h <;> exact h
  have hne : p ≠ [] := by
    intro hp; subst hp
    simp [createDirAll] at h
  -- from a successful `stat` of a path `q` with the same lexical location
  have fromStat : ∀ q : Bytes, stat st' q = .ok .dir → pathLoc st q = pathLoc st p → comps q = comps p →
      (∃ es, getAt st'.root (pathLoc st p) = some (.dir es)) ∧ (comps p).any isDots = false := by
    intro q hs hq hc
    obtain ⟨loc, tr, es, hpp, hg⟩ := stat_dir st' q hs
    obtain ⟨hloc, hdots, _, _⟩ := parsePath_ok_loc st' q loc tr hpp
    rw [pathLoc_cwd st st' q hm.1, hq] at hloc
    rw [hc] at hdots
    subst hloc
    exact ⟨⟨es, hg⟩, hdots⟩
  have fin : (∃ es, getAt st'.root (pathLoc st p) = some (.dir es)) ∧ (comps p).any isDots = false →
      (∃ es, getAt st'.root (pathLoc st p) = some (.dir es)) ∧ (comps p).any isDots = false ∧
      (p.length < PATH_MAX → ∃ tr, parsePath st p = .ok (pathLoc st p, tr)) :=
    fun ⟨a, b⟩ => ⟨a, b, fun hlen => parsePath_of st p hne hlen b⟩
  by_cases hl : p.getLast? = some SLASH
  · by_cases h2 : 2 ≤ p.length
    · have hp := eq_take_append_slash p hl
      have hq : p.take (p.length - 1) ≠ [] := by
        intro hq
        have : (p.take (p.length - 1)).length = 0 := by rw [hq]; rfl
        simp at this; omega
      apply fin
      rcases writeAllSubPaths_trailing st st' p hl h2 hw with hs | hs
      · apply fromStat _ hs
        · conv => rhs; rw [hp]
          exact (pathLoc_append_slash st _ hq).symm
        · conv => rhs; rw [hp]
          exact (comps_append_slash _).symm
      · exact fromStat p hs rfl rfl
    · -- the path is exactly "/": no system call is made at all
      have hp1 : p = [SLASH] := by
        cases p with
        | nil => exact absurd rfl hne
        | cons a r =>
          cases r with
          | nil => simp at hl; rw [hl]
          | cons b r' => simp at h2
      subst hp1
      apply fin
      obtain ⟨es, hes⟩ := hroot
      have hv : view st.root [] = some .dir := by simp [view, getAt, hes, Node.kind]
      have hv' := hm.2 [] _ hv
      have hloc : pathLoc st [SLASH] = [] := by simp [pathLoc, comps, splitSlash]
      rw [hloc]
      exact ⟨view_dir _ _ hv', by simp [comps, splitSlash]⟩
  · apply fin
    exact fromStat p (createDirAll_isDir_noTrailing st st' p h hl) rfl rfl

/-! ### ReadDir over an arbitrary split of the directory stream -/

theorem encode_length (r : Rec) : (encode r).length = reclen r := by
  unfold encode le8
  simp only [List.length_append, List.length_cons, List.length_nil, List.length_replicate]
  unfold reclen
  omega

theorem encodeAll_cons (r : Rec) (ps : List Rec) : encodeAll (r :: ps) = encode r ++ encodeAll ps := by
  simp [encodeAll]

theorem encodeAll_length (c : List Rec) : (encodeAll c).length = (c.map reclen).sum := by
  induction c with
  | nil => simp [encodeAll]
  | cons r ps ih => rw [encodeAll_cons, List.length_append, encode_length, ih]; simp

/-- a record a Linux directory stream can hold: name of at most NAME_MAX = 255 bytes without NUL -/
def RecOk (r : Rec) : Prop := r.name.length ≤ 255 ∧ ∀ b ∈ r.name, b ≠ 0

/-- one legal `getdents64` answer carrying records: at least one, all of them fit the 512-byte buffer together -/
def ChunkOk (c : List Rec) : Prop := c ≠ [] ∧ (c.map reclen).sum ≤ 512 ∧ ∀ r ∈ c, RecOk r

instance (r : Rec) : Decidable (RecOk r) := by unfold RecOk; infer_instance
instance (c : List Rec) : Decidable (ChunkOk c) := by unfold ChunkOk; infer_instance

def entryOf (r : Rec) : Item := .entry r.dtype r.name

/-- iterator state between two refills: the records still `pending` lie at `offset`, `readSize` is their end -/
structure RdInv (s : ReadDir) (pending : List Rec) : Prop where
  len : s.buf.length = 512
  eod : s.eod = false
  data : ∃ junk, s.buf.drop s.offset = encodeAll pending ++ junk
  size : s.readSize = s.offset + (encodeAll pending).length

theorem next_pending (s : ReadDir) (r : Rec) (ps : List Rec) (inv : RdInv s (r :: ps)) (hr : RecOk r) :
    s.next = ({ s with offset := s.offset + reclen r }, entryOf r) ∧
    RdInv { s with offset := s.offset + reclen r } ps := by
  obtain ⟨junk, hd⟩ := inv.data
  have hsz := inv.size
  rw [encodeAll_cons] at hd
  rw [encodeAll_cons, List.length_append, encode_length] at hsz
  have hb := reclen_bounds r hr.1
  have hne : ¬ s.readSize = s.offset := by omega
  have hoff : ¬ s.offset > s.buf.length := by
    intro hgt
    have : (s.buf.drop s.offset).length = 0 := by simp; omega
    rw [hd] at this
    simp [encode_length] at this
    omega
  refine ⟨?_, inv.len, inv.eod, ⟨junk, ?_⟩, ?_⟩
  · unfold ReadDir.next ReadDir.parse
    simp only [hne, hoff, if_false]
    rw [hd, List.append_assoc, tryFromBytes_encode r _ hr.1 hr.2]
    rfl
  · show s.buf.drop (s.offset + reclen r) = encodeAll ps ++ junk
    rw [← List.drop_drop, hd, List.append_assoc]
    have : reclen r = (encode r).length := (encode_length r).symm
    rw [this, List.drop_left]
  · show s.readSize = s.offset + reclen r + (encodeAll ps).length
    omega

/-- draining the pending records: one entry per record, in order; afterwards the buffer is used up -/
theorem run_pending (ps : List Rec) : ∀ (s : ReadDir) (n : Nat), RdInv s ps → (∀ r ∈ ps, RecOk r) →
    s.run (ps.length + n) = ps.map entryOf ++ ({ s with offset := s.readSize } : ReadDir).run n := by
  induction ps with
  | nil =>
    intro s n inv _
    have hsz := inv.size
    simp [encodeAll] at hsz
    have : ({ s with offset := s.readSize } : ReadDir) = s := by
      cases s; simp_all
    simp [this]
  | cons r ps ih =>
    intro s n inv hok
    obtain ⟨hn, inv'⟩ := next_pending s r ps inv (hok r (by simp))
    have hlen : (r :: ps).length + n = (ps.length + n) + 1 := by simp; omega
    rw [hlen, ReadDir.run, hn]
    simp only [List.map_cons, List.cons_append]
    rw [ih _ n inv' (fun x hx => hok x (by simp [hx]))]

/-- a refill with a legal chunk: the call that refills already yields the chunk's first record -/
theorem next_refill (s : ReadDir) (c : List Rec) (rest : List Dents) (hc : ChunkOk c)
    (hex : s.readSize = s.offset) (heod : s.eod = false) (hlen : s.buf.length = 512)
    (hans : s.answers = .recs c :: rest) :
    let s1 : ReadDir := ⟨rest, encodeAll c ++ s.buf.drop (encodeAll c).length, 0, (encodeAll c).length, false⟩
    s.next = s1.next ∧ RdInv s1 c := by
  intro s1
  obtain ⟨hne, hfit, hok⟩ := hc
  have hl := encodeAll_length c
  have hpos : 0 < (encodeAll c).length := by
    cases c with
    | nil => exact absurd rfl hne
    | cons r ps =>
      rw [encodeAll_cons, List.length_append, encode_length]
      have := reclen_bounds r (hok r (by simp)).1
      omega
  have hfit' : (encodeAll c).length ≤ 512 := by omega
  have h1 : ¬ s1.readSize = s1.offset := by show ¬ (encodeAll c).length = 0; omega
  constructor
  · have hs1 : s1.next = s1.parse := by
      unfold ReadDir.next; simp only [h1, if_false]
    rw [hs1]
    unfold ReadDir.next sysGetdents
    simp only [hex, heod, hans, hlen, hfit', if_true]
    have : ¬ (encodeAll c).length = 0 := by omega
    simp [this]
    rfl
  · refine ⟨?_, rfl, ⟨s.buf.drop (encodeAll c).length, ?_⟩, ?_⟩
    · show (encodeAll c ++ s.buf.drop (encodeAll c).length).length = 512
      simp [hlen]; omega
    · show (encodeAll c ++ s.buf.drop (encodeAll c).length).drop 0 = _
      simp
    · show (encodeAll c).length = 0 + (encodeAll c).length
      omega

theorem run_succ_congr {s t : ReadDir} {m : Nat} (h : s.next = t.next) : s.run (m + 1) = t.run (m + 1) := by
  simp only [ReadDir.run, h]

/-- **the iteration over any sequence of legal chunks**: every record of every chunk is yielded exactly once, in
order, with its exact type and name; afterwards the iterator stands at the next answer with its buffer used up -/
theorem run_chunks (chunks : List (List Rec)) : ∀ (s : ReadDir) (rest : List Dents) (n : Nat),
    (∀ c ∈ chunks, ChunkOk c) → s.readSize = s.offset → s.eod = false → s.buf.length = 512 →
    s.answers = chunks.map Dents.recs ++ rest →
    ∃ s' : ReadDir, s.run (chunks.flatten.length + n) = chunks.flatten.map entryOf ++ s'.run n ∧
      s'.readSize = s'.offset ∧ s'.eod = false ∧ s'.buf.length = 512 ∧ s'.answers = rest := by
  induction chunks with
  | nil =>
    intro s rest n _ hex heod hlen hans
    exact ⟨s, by simp, hex, heod, hlen, by simpa using hans⟩
  | cons c cs ih =>
    intro s rest n hok hex heod hlen hans
    have hc := hok c (by simp)
    simp only [List.map_cons, List.cons_append] at hans
    obtain ⟨hnext, inv⟩ := next_refill s c (cs.map Dents.recs ++ rest) hc hex heod hlen hans
    have hcne : c.length ≠ 0 := by
      intro h; exact hc.1 (List.length_eq_zero_iff.mp h)
    have hcount : (c :: cs).flatten.length + n = c.length + (cs.flatten.length + n) := by
      simp; omega
    -- the refilling call is the first call of the drain over the refilled state
    obtain ⟨m, hm⟩ : ∃ m, c.length + (cs.flatten.length + n) = m + 1 := ⟨c.length + (cs.flatten.length + n) - 1, by omega⟩
    generalize hs1 : (ReadDir.mk (cs.map Dents.recs ++ rest) _ 0 _ false) = s1 at hnext inv
    rw [hcount, hm, run_succ_congr hnext, ← hm, run_pending c _ _ inv hc.2.2]
    obtain ⟨s', hrun, h1, h2, h3, h4⟩ := ih { s1 with offset := s1.readSize } rest n
      (fun x hx => hok x (by simp [hx])) rfl inv.eod inv.len (by rw [← hs1])
    refine ⟨s', ?_, h1, h2, h3, h4⟩
    rw [hrun]
    simp [List.append_assoc]

theorem run_eod_forever (k : Nat) : ∀ s : ReadDir, s.readSize = s.offset → s.eod = true →
    s.run k = List.replicate k Item.done := by
  induction k with
  | zero => intro s _ _; rfl
  | succ k ih =>
    intro s h1 h2
    have : s.next = (s, .done) := by unfold ReadDir.next; simp [h1, h2]
    rw [ReadDir.run, this, List.replicate_succ, ih s h1 h2]

/-- the answer 0 (or an exhausted script): `None`, and `None` for every later call, without asking again -/
theorem run_at_eod (s : ReadDir) (k : Nat) (hex : s.readSize = s.offset) (heod : s.eod = false)
    (hans : s.answers = [] ∨ ∃ tail, s.answers = .eod :: tail) : s.run k = List.replicate k Item.done := by
  cases k with
  | zero => rfl
  | succ k =>
    rcases hans with ha | ⟨tail, ha⟩
    · have : s.next = ({ s with answers := [], eod := true }, .done) := by
        unfold ReadDir.next sysGetdents; simp [hex, heod, ha]
      simp only [ReadDir.run, this, List.replicate_succ]
      rw [run_eod_forever k { s with answers := [], eod := true } hex rfl]
    · have : s.next = ({ s with answers := tail, eod := true }, .done) := by
        unfold ReadDir.next sysGetdents; simp [hex, heod, ha]
      simp only [ReadDir.run, this, List.replicate_succ]
      rw [run_eod_forever k { s with answers := tail, eod := true } hex rfl]

/-- an error answer (EINTR included — the code does not retry): that error once, then `None` forever -/
theorem run_at_err (s : ReadDir) (k e : Nat) (tail : List Dents) (hex : s.readSize = s.offset) (heod : s.eod = false)
    (hans : s.answers = .err e :: tail) : s.run (k + 1) = Item.err (.os e) :: List.replicate k Item.done := by
  have : s.next = ({ s with answers := tail, eod := true }, .err (.os e)) := by
    unfold ReadDir.next sysGetdents; simp [hex, heod, hans]
  simp only [ReadDir.run, this]
  rw [run_eod_forever k { s with answers := tail, eod := true } hex rfl]

theorem readdir_split' (chunks : List (List Rec)) (tail : List Dents) (k : Nat) (hok : ∀ c ∈ chunks, ChunkOk c) :
    (ReadDir.new (chunks.map Dents.recs ++ .eod :: tail)).run (chunks.flatten.length + k) =
      chunks.flatten.map entryOf ++ List.replicate k Item.done := by
  obtain ⟨s', hrun, h1, h2, _, h4⟩ :=
    run_chunks chunks (ReadDir.new (chunks.map Dents.recs ++ .eod :: tail)) (.eod :: tail) k hok rfl rfl
      (by exact List.length_replicate) rfl
  rw [hrun, run_at_eod s' k h1 h2 (Or.inr ⟨tail, h4⟩)]

theorem readdir_split_exhausted' (chunks : List (List Rec)) (k : Nat) (hok : ∀ c ∈ chunks, ChunkOk c) :
    (ReadDir.new (chunks.map Dents.recs)).run (chunks.flatten.length + k) =
      chunks.flatten.map entryOf ++ List.replicate k Item.done := by
  obtain ⟨s', hrun, h1, h2, _, h4⟩ :=
    run_chunks chunks (ReadDir.new (chunks.map Dents.recs)) [] k hok rfl rfl (by exact List.length_replicate) (List.append_nil _).symm
  rw [hrun, run_at_eod s' k h1 h2 (Or.inl h4)]

theorem readdir_split_err' (chunks : List (List Rec)) (e : Nat) (tail : List Dents) (k : Nat)
    (hok : ∀ c ∈ chunks, ChunkOk c) :
    (ReadDir.new (chunks.map Dents.recs ++ .err e :: tail)).run (chunks.flatten.length + (k + 1)) =
      chunks.flatten.map entryOf ++ Item.err (.os e) :: List.replicate k Item.done := by
  obtain ⟨s', hrun, h1, h2, _, h4⟩ :=
    run_chunks chunks (ReadDir.new (chunks.map Dents.recs ++ .err e :: tail)) (.err e :: tail) (k + 1) hok rfl rfl
      (by exact List.length_replicate) rfl
  rw [hrun, run_at_err s' k e tail h1 h2 h4]

/-! ### the kernel's own split (greedy) is one of the legal splits -/

theorem fillRecs_spec (l : List Rec) : ∀ space, (fillRecs l space).1 ++ (fillRecs l space).2 = l ∧
    (((fillRecs l space).1).map reclen).sum ≤ space := by
  induction l with
  | nil => intro space; simp [fillRecs]
  | cons r rs ih =>
    intro space
    unfold fillRecs
    by_cases h : reclen r ≤ space
    · simp only [h, if_true]
      obtain ⟨h1, h2⟩ := ih (space - reclen r)
      refine ⟨by simp [h1], ?_⟩
      simp only [List.map_cons, List.sum_cons]
      omega
    · simp [h]

theorem fillRecs_first (r : Rec) (rs : List Rec) (space : Nat) (h : reclen r ≤ space) :
    ∃ t, (fillRecs (r :: rs) space).1 = r :: t := by
  unfold fillRecs
  simp [h]

theorem kernelDents_chunks (fuel : Nat) : ∀ rs : List Rec, rs.length ≤ fuel → (∀ r ∈ rs, RecOk r) →
    ∃ chunks : List (List Rec), kernelDents 512 fuel rs = chunks.map Dents.recs ++ [.eod] ∧ chunks.flatten = rs ∧
      ∀ c ∈ chunks, ChunkOk c := by
  induction fuel with
  | zero =>
    intro rs hl _
    cases rs with
    | nil => exact ⟨[], by simp [kernelDents], rfl, by simp⟩
    | cons r rs => simp at hl
  | succ fuel ih =>
    intro rs hl hok
    cases rs with
    | nil => exact ⟨[], by simp [kernelDents], rfl, by simp⟩
    | cons r rs =>
      have hb := reclen_bounds r (hok r (by simp)).1
      have hfit : reclen r ≤ 512 := by omega
      obtain ⟨hcat, hsum⟩ := fillRecs_spec (r :: rs) 512
      obtain ⟨t, ht⟩ := fillRecs_first r rs 512 hfit
      have hmem : ∀ x, x ∈ (fillRecs (r :: rs) 512).1 ∨ x ∈ (fillRecs (r :: rs) 512).2 → x ∈ r :: rs := by
        intro x hx
        rw [← hcat]; exact List.mem_append.mpr hx
      have hlen : (fillRecs (r :: rs) 512).2.length ≤ fuel := by
        have := congrArg List.length hcat
        rw [List.length_append, ht] at this
        simp at this hl
        omega
      obtain ⟨chunks, hk, hfl, hck⟩ := ih (fillRecs (r :: rs) 512).2 hlen (fun x hx => hok x (hmem x (Or.inr hx)))
      refine ⟨(fillRecs (r :: rs) 512).1 :: chunks, ?_, ?_, ?_⟩
      · simp only [kernelDents, hfit, if_true, hk, List.map_cons, List.cons_append]
      · simp only [List.flatten_cons, hfl, hcat]
      · intro c hc
        simp at hc
        rcases hc with rfl | hc
        · exact ⟨by rw [ht]; simp, hsum, fun x hx => hok x (hmem x (Or.inl hx))⟩
        · exact hck c hc

theorem collect_of_run (ys : List (Nat × Name)) : ∀ s : ReadDir,
    s.run (ys.length + 1) = ys.map (fun y => Item.entry y.1 y.2) ++ [Item.done] →
    ReadDir.collect (ys.length + 1) s = .ok ys := by
  induction ys with
  | nil =>
    intro s h
    simp [ReadDir.run] at h
    unfold ReadDir.collect
    cases hn : s.next with
    | mk s' it => rw [hn] at h; simp at h; subst h; rfl
  | cons y ys ih =>
    intro s h
    simp only [List.length_cons, ReadDir.run, List.map_cons, List.cons_append, List.cons.injEq] at h
    unfold ReadDir.collect
    cases hn : s.next with
    | mk s' it =>
      rw [hn] at h
      simp only at h
      obtain ⟨h1, h2⟩ := h
      subst h1
      simp only
      have := ih s' (by simpa [ReadDir.run] using h2)
      simp only [List.length_cons] at this ⊢
      rw [this]

/-- the iterator over the kernel's own (greedy) answers: every record exactly once, in order -/
theorem readDirAll_exact (rs : List Rec) (hok : ∀ r ∈ rs, RecOk r) :
    readDirAll rs = .ok (rs.map fun r => (r.dtype, r.name)) := by
  obtain ⟨chunks, hk, hfl, hck⟩ := kernelDents_chunks rs.length rs (Nat.le_refl _) hok
  unfold readDirAll
  rw [hk]
  have := readdir_split' chunks [] 1 hck
  rw [hfl] at this
  have hl : rs.length = (rs.map fun r => (r.dtype, r.name)).length := by simp
  rw [hl]
  apply collect_of_run
  rw [← hl, this]
  simp [entryOf, List.map_map, Function.comp_def]

/-! ### file systems that do not fill in `d_type` -/

theorem zip_map_left {α β : Type} (f : α → β) (l : List α) : ∀ p ∈ (l.map f).zip l, p.1 = f p.2 := by
  induction l with
  | nil => intro p hp; simp at hp
  | cons a l ih =>
    intro p hp
    simp only [List.map_cons, List.zip_cons_cons, List.mem_cons] at hp
    rcases hp with rfl | hp
    · rfl
    · exact ih p hp

theorem fileType_unknown : fileType DT_UNKNOWN = .unknown := by decide

/-- on a DT_UNKNOWN mount `Directory::remove_all` cannot remove anything: the first entry, `.`, is not
`FileType::Directory`, goes to the plain `unlinkat` and that answers EISDIR; the directory is left as it was -/
theorem removeAllN_unknown_fails (fuel : Nat) (es : List (Name × Node))
    (hn : ∀ e ∈ es, e.1.length ≤ 255 ∧ ∀ b ∈ e.1, b ≠ 0) :
    removeAllN false (fuel + 1) (.dir es) = (.dir es, .error (.os EISDIR)) := by
  have hok : ∀ r ∈ dirRecsOn false es, RecOk r := by
    intro r hr
    simp only [dirRecsOn, Bool.false_eq_true, if_false, dirRecs, List.map_cons, List.map_map, List.mem_cons, List.mem_map] at hr
    rcases hr with rfl | rfl | ⟨e, he, rfl⟩
    · exact ⟨by decide, by decide⟩
    · exact ⟨by decide, by decide⟩
    · exact hn e he
  have hr := readDirAll_exact (dirRecsOn false es) hok
  unfold removeAllN
  simp only [hr]
  simp only [dirRecsOn, Bool.false_eq_true, if_false, dirRecs, List.map_cons]
  unfold removeEntries
  have h1 : ¬ fileType DT_UNKNOWN = FType.dir := by decide
  have h2 : isDots [DOT] = true := by decide
  simp only [h1, if_false, unlinkatN, h2, if_true, Bool.false_eq_true]

end TinyVerif.Fs
