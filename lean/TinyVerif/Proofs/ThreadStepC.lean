/- per-event preservation of the instance invariant (generated layout, proofs by the `inv_event` tactic of ThreadInv) -/
import TinyVerif.Proofs.ThreadInv
set_option maxRecDepth 4000
set_option linter.unusedVariables false
namespace TinyVerif.Thread

theorem inv_hReadSlot (c : Cfg) (hc : c.Good) (x x' : Inst) (h : stepI c x .hReadSlot = some x') (hinv : IInv x) :
    IInv x' := by
  inv_event

theorem inv_hFreeTsm (c : Cfg) (hc : c.Good) (x x' : Inst) (h : stepI c x .hFreeTsm = some x') (hinv : IInv x) :
    IInv x' := by
  inv_event

theorem inv_hCas (c : Cfg) (hc : c.Good) (x x' : Inst) (ok : Bool) (h : stepI c x (.hCas ok) = some x') (hinv : IInv x) :
    IInv x' := by
  inv_event

theorem inv_tRet (c : Cfg) (hc : c.Good) (x x' : Inst) (v : Nat) (h : stepI c x (.tRet v) = some x') (hinv : IInv x) :
    IInv x' := by
  inv_event

theorem inv_tPanic (c : Cfg) (hc : c.Good) (x x' : Inst) (h : stepI c x .tPanic = some x') (hinv : IInv x) :
    IInv x' := by
  inv_event

theorem inv_tWrite (c : Cfg) (hc : c.Good) (x x' : Inst) (h : stepI c x .tWrite = some x') (hinv : IInv x) :
    IInv x' := by
  inv_event

theorem inv_tPanicRead (c : Cfg) (hc : c.Good) (x x' : Inst) (h : stepI c x .tPanicRead = some x') (hinv : IInv x) :
    IInv x' := by
  inv_event

end TinyVerif.Thread
