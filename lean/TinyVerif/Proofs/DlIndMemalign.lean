import TinyVerif.Proofs.DlIndRealloc
/-!
# `memalign_fix_Spec` (tag `ma_`)

`ma_leader` (the leader: the two headers written in reverse order, then `dispose_chunk` of the first),
`ma_trailer` (split + `dispose_chunk` of the remainder, or nothing), `ma_memalign_fix_spec`.
-/
namespace TinyVerif.Dl

/-- the user chunk at `p0` disappeared, one of `z1` bytes at `p` appeared -/
def ma_MovedTo (s s' : St) (p0 p z1 : Nat) : Prop :=
  ∀ a z, User s' a z ↔ ((User s a z ∧ a ≠ p0) ∨ (a = p ∧ z = z1))

/-- **the leader**: `set_inuse (p0+lead) (z-lead); set_inuse p0 lead; dispose_chunk p0 lead` -/
theorem ma_leader (hd : dispose_chunk_Spec) {s : St} (hi : SInv s) {p0 z lead : Nat} (hu : User s p0 z)
    (hl16 : lead % 16 = 0) (hl : 16 ≤ lead) (hlz : lead + 16 ≤ z) {h1 h2 h3 : Heap} {t : String}
    (e1 : set_inuse s.h (p0 + lead) (z - lead) = .ok h1) (e2 : set_inuse h1 p0 lead = .ok h2)
    (e3 : dispose_chunk (h2.tag t) p0 lead = .ok h3) :
    SInv { s with h := h3 } ∧ ma_MovedTo s { s with h := h3 } p0 (p0 + lead) (z - lead) ∧
      ∀ z', ¬ User s (p0 + lead) z' := by
  obtain ⟨pre, post, e, y, g, u⟩ := ra_user_parts hi.wfs hu
  have hz16 := u.z16
  have hea := u.ea
  subst hea
  have u' : ra_UserAt s e.addr (lead + (z - lead)) pre post e y g := by
    rw [show lead + (z - lead) = z by omega]; exact u
  have r := ra_set_inuse_pair_rev e1 e2 u.hes hi.wfs.ents (by omega) (by omega) (by rw [u.es]; omega)
    (by rw [u.ya, u.es])
  obtain ⟨i2, sp⟩ := ra_split_core hi u' hl16 hl (by omega) (by omega) (H := h2)
    (by rw [r]; exact ⟨rfl, rfl, rfl, rfl, rfl, rfl, rfl⟩)
  have i2t : SInv { s with h := h2.tag t } := ra_sinv_same (s := { s with h := h2 }) i2 (ra_sameHeap_tag h2 t)
  have hsame : ∀ a z, User { s with h := h2.tag t } a z ↔ User { s with h := h2 } a z :=
    fun a z => ra_user_same (s := { s with h := h2 }) (H := h2.tag t) rfl a z
  have hut : User { s with h := h2.tag t } e.addr lead :=
    (hsame _ _).2 ((sp.2 _ _).2 (Or.inr (Or.inl ⟨rfl, rfl⟩)))
  obtain ⟨i3, fr⟩ := hd (s := { s with h := h2.tag t }) i2t hut e3
  refine ⟨i3, ?_, sp.1⟩
  intro a z'
  rw [fr a z', hsame a z', sp.2 a z', show e.addr + 16 - 16 = e.addr by omega]
  constructor
  · rintro ⟨(⟨h1, h2⟩ | ⟨h1, _⟩ | h), hne⟩
    · exact Or.inl ⟨h2, h1⟩
    · exact absurd h1 hne
    · exact Or.inr h
  · rintro (⟨h1, h2⟩ | ⟨h1, h2⟩)
    · exact ⟨Or.inl ⟨h2, h1⟩, h2⟩
    · exact ⟨Or.inr (Or.inr ⟨h1, h2⟩), by omega⟩

/-- **the trailer** -/
theorem ma_trailer (hd : dispose_chunk_Spec) {s : St} (hi : SInv s) {p z nb : Nat} (hu : User s p z)
    (hnb : NbOk nb) (hle : nb ≤ z) {h2 : Heap}
    (hh : (if z > nb + 32 then do
            let h ← set_inuse s.h p nb
            let h ← set_inuse h (p + nb) (z - nb)
            dispose_chunk (h.tag "memalign-trailer") (p + nb) (z - nb)
          else pure s.h) = .ok h2) :
    SInv { s with h := h2 } ∧ ∃ sz, nb ≤ sz ∧ ra_ResizedTo s { s with h := h2 } p sz := by
  split at hh
  · rename_i hgt
    msimp at hh
    obtain ⟨h0, e1, h1, e2, e3⟩ := hh
    obtain ⟨pre, post, e, y, g, u⟩ := ra_user_parts hi.wfs hu
    have hz16 := u.z16
    have hu' : User s p (nb + (z - nb)) := by rw [show nb + (z - nb) = z by omega]; exact hu
    obtain ⟨i2, sp⟩ := ra_split_inuse hi hu' hnb.1 (by have := hnb.2.1; omega) (by have := hnb.1; omega) (by omega) e1 e2
    obtain ⟨r1, r2⟩ := ra_split_dispose hd i2 sp (by have := hnb.2.1; omega) e3
    exact ⟨r1, nb, Nat.le_refl nb, r2⟩
  · msimp at hh
    subst hh
    refine ⟨hi, z, hle, ?_⟩
    intro a z'
    constructor
    · intro h
      by_cases hap : a = p
      · subst hap; exact Or.inr ⟨rfl, gl_user_size h hu⟩
      · exact Or.inl ⟨hap, h⟩
    · rintro (⟨_, h⟩ | ⟨h1, h2⟩)
      · exact h
      · subst h1; subst h2; exact hu

theorem ma_segs_le {s : St} (w : WFS s) {g : Seg} (hg : g ∈ s.segs) : g.base + g.size ≤ 2 ^ 64 := by
  have hsg := w.segs
  unfold segsOk at hsg
  simp only [Bool.and_eq_true, List.all_eq_true, decide_eq_true_eq] at hsg
  exact (hsg.2 g hg).2

/-- **`memalign_fix_Spec`** (given `dispose_chunk_Spec`) -/
theorem ma_memalign_fix_spec (hd : dispose_chunk_Spec) : memalign_fix_Spec := by
  intro s hi mem k nb z h' mem' h16 hu hnb hk hk2 hz hh
  have w := hi.wfs
  obtain ⟨pre, post, e, y, g, u⟩ := ra_user_parts w hu
  have hp016 := u.p16
  have hz16 := u.z16
  have hnb16 := hnb.1
  have hnb32 := hnb.2.1
  have hP32 : 32 ≤ 2 ^ k :=
    calc 32 = 2 ^ 5 := by decide
      _ ≤ 2 ^ k := Nat.pow_le_pow_right (by decide) hk
  have hP16 : 16 ∣ 2 ^ k := by
    have := Nat.pow_dvd_pow 2 (show 4 ≤ k by omega)
    simpa using this
  have hend := (w.struct.in_seg u.hg u.mem_e u.ge).2
  have hseg := ma_segs_le w u.hg
  have hea := u.ea
  have hesz := u.es
  have hov : mem + 2 ^ k ≤ 2 ^ 64 := by omega
  have hA1 := align_up_ge mem k hov
  have hA2 := align_up_lt mem k hov
  have hA3 := align_up_dvd mem k hov
  have hA16 : 16 ∣ align_up mem (2 ^ k) := Nat.dvd_trans hP16 hA3
  have hfe : findEnt s.h.ents (mem - 16) = some e := u.find w
  unfold memalign_fix at hh
  dsimp only at hh
  simp only [MEM_OFFSET_eq, MIN_CHUNK_SIZE_eq] at hh
  msimp at hh
  obtain ⟨_, _, ⟨h1, p⟩, hp, hh⟩ := hh
  dsimp only at hh
  -- phase 1: the leader (or nothing)
  have ph1 : SInv { s with h := h1 } ∧ ∃ z1, User { s with h := h1 } p z1 ∧ nb ≤ z1 ∧ mem - 16 ≤ p ∧
      p + z1 = mem - 16 + z ∧ p % 16 = 0 ∧
      (p = mem - 16 ∨ ((p + 16) % 2 ^ k = 0 ∧ ∀ z', ¬ User s p z')) ∧
      ma_MovedTo s { s with h := h1 } (mem - 16) p z1 := by
    split at hp
    · generalize hpos : (if align_up mem (2 ^ k) - 16 - (mem - 16) > 32 then align_up mem (2 ^ k) - 16
        else align_up mem (2 ^ k) - 16 + 2 ^ k) = pos at hp
      msimp at hp
      obtain ⟨e0, he0, _, hle, _, _, h2, e1, h3, e2, h4, e3, hp⟩ := hp
      have := getE_spec he0
      rw [hfe] at this
      injection this with this
      subst this
      simp only [Prod.mk.injEq] at hp
      obtain ⟨hp1, hp2⟩ := hp
      subst hp1
      subst hp2
      simp only [decide_eq_false_iff_not, Nat.not_lt] at hle
      have hmod : (pos + 16) % 2 ^ k = 0 := by
        split at hpos
        · rw [← hpos, show align_up mem (2 ^ k) - 16 + 16 = align_up mem (2 ^ k) by omega]
          exact Nat.mod_eq_zero_of_dvd hA3
        · rw [← hpos, show align_up mem (2 ^ k) - 16 + 2 ^ k + 16 = align_up mem (2 ^ k) + 2 ^ k by omega,
            Nat.add_mod_right]
          exact Nat.mod_eq_zero_of_dvd hA3
      have hfacts : mem - 16 ≤ pos ∧ (pos - (mem - 16)) % 16 = 0 ∧ 32 ≤ pos - (mem - 16) ∧
          nb + (pos - (mem - 16)) ≤ z := by
        split at hpos <;> omega
      obtain ⟨f1, f2, f3, f4⟩ := hfacts
      generalize hlead : pos - (mem - 16) = lead at *
      have hpl : pos = mem - 16 + lead := by omega
      subst hpl
      rw [hesz] at e1
      obtain ⟨r1, r2, r3⟩ := ma_leader hd hi hu f2 (by omega) (by omega) e1 e2 e3
      refine ⟨r1, z - lead, ?_, by omega, by omega, by omega, by omega, Or.inr ⟨hmod, r3⟩, r2⟩
      exact (r2 _ _).2 (Or.inr ⟨rfl, rfl⟩)
    · msimp at hp
      simp only [Prod.mk.injEq] at hp
      obtain ⟨hp1, hp2⟩ := hp
      subst hp1
      subst hp2
      have hsame : ∀ a z', User { s with h := s.h.tag "memalign-aligned" } a z' ↔ User s a z' :=
        fun a z' => ra_user_same (H := s.h.tag "memalign-aligned") rfl a z'
      refine ⟨ra_sinv_same hi (ra_sameHeap_tag _ _), z, (hsame _ _).2 hu, by omega, Nat.le_refl _, rfl, hp016,
        Or.inl rfl, ?_⟩
      intro a z'
      rw [hsame a z']
      constructor
      · intro h
        by_cases hap : a = mem - 16
        · subst hap; exact Or.inr ⟨rfl, gl_user_size h hu⟩
        · exact Or.inl ⟨h, hap⟩
      · rintro (⟨h, _⟩ | ⟨h1, h2⟩)
        · exact h
        · subst h1; subst h2; exact hu
  obtain ⟨i1, z1, hu1, hz1, hpge, hpz, hp16', hpor, mv⟩ := ph1
  -- phase 2: the trailer
  obtain ⟨e1, he1, _, _, h2, htr, e2, he2, _, hsz, _, hal, hfin⟩ := hh
  have hfe1 := getE_spec he1
  obtain ⟨e1', he1', hc1, hs1', h81, hr1⟩ := hu1
  change findEnt h1.ents p = some e1' at he1'
  rw [hfe1] at he1'
  injection he1' with he1'
  subst he1'
  rw [hs1'] at htr
  have hu1 : User { s with h := h1 } p z1 := ⟨e1, hfe1, hc1, hs1', h81, hr1⟩
  obtain ⟨i2, sz, hsz', rt⟩ := ma_trailer hd (s := { s with h := h1 }) i1 hu1 hnb hz1 htr
  simp only [Prod.mk.injEq] at hfin
  obtain ⟨hf1, hf2⟩ := hfin
  subst hf1
  subst hf2
  simp only [ne_eq, decide_eq_false_iff_not, Decidable.not_not] at hal
  refine ⟨i2, ?_, by omega, by omega, by omega, by omega, ?_, sz, hsz', ?_⟩
  · rcases hpor with h | ⟨h, _⟩
    · subst h
      rw [show mem - 16 + 16 = mem by omega] at hal ⊢
      rw [← hal]
      exact Nat.mod_eq_zero_of_dvd hA3
    · exact h
  · intro hne z'
    rw [show p + 16 - 16 = p by omega]
    rcases hpor with h | ⟨_, h⟩
    · exact absurd (by omega) hne
    · exact h z'
  · intro a z'
    rw [show p + 16 - 16 = p by omega, rt a z']
    constructor
    · rintro (⟨h1, h2⟩ | h)
      · rcases (mv a z').1 h2 with h3 | ⟨h3, _⟩
        · exact Or.inl h3
        · exact absurd h3 h1
      · exact Or.inr h
    · rintro (⟨h1, h2⟩ | h)
      · refine Or.inl ⟨?_, (mv a z').2 (Or.inl ⟨h1, h2⟩)⟩
        intro hap
        subst hap
        rcases hpor with h | ⟨_, h⟩
        · exact h2 h
        · exact h z' h1
      · exact Or.inr h

/-! ## non-vacuity -/

/-- one 208-byte chunk whose payload is 16 mod 32 -/
def maState : Hist := match Hist.init.run [(.malloc 1 200 8, [.m (some 1048576)])] with
  | .ok (hs, _) => hs
  | .error _ => Hist.init

def ma_tags (h : Heap) (mem al nb : Nat) : List String :=
  match memalign_fix { h with tr := [] } mem al nb with
  | .ok (h', _) => h'.tr
  | _ => []

set_option maxRecDepth 40000 in
/-- the hypotheses of `memalign_fix_Spec` hold on a reachable state on which both the leader and the trailer
branch are taken (`k = 5`, `nb = 32`, `z = 208`) -/
example : Inv maState ∧ User maState.st (1048592 - 16) 208 ∧ NbOk 32 ∧ 32 + 2 ^ 5 + 24 ≤ 208 ∧
    ma_tags maState.st.h 1048592 (2 ^ 5) 32 = ["memalign-leader", "dispose-bin", "memalign-trailer", "dispose-into-top"] :=
  ⟨gl_inv_of_check (by decide) (by decide) (by decide) (by decide) (by decide) (by decide),
    ra_user_of_check (by decide), ⟨by decide, by decide, by decide⟩, by decide, by decide⟩

end TinyVerif.Dl
