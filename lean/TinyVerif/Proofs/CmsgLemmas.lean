/- helper lemmas for C16 part 3 (control messages) -/
import TinyVerif.Model.Cmsg
set_option linter.unusedSimpArgs false
namespace TinyVerif.Cmsg

theorem le_length (k n : Nat) : (le k n).length = k := by
  induction k generalizing n with
  | zero => rfl
  | succ k ih => simp [le, ih]

theorem unle_le (k n : Nat) (h : n < 256 ^ k) : unle (le k n) = n := by
  induction k generalizing n with
  | zero => simp at h; simp [le, unle, h]
  | succ k ih =>
    simp only [le, unle]
    rw [ih (n / 256) (by rw [Nat.pow_succ] at h; omega)]
    omega

theorem align_ge (n : Nat) : n ≤ cmsgAlign n := by simp only [cmsgAlign]; omega
theorem align_lt (n : Nat) : cmsgAlign n < n + 8 := by simp only [cmsgAlign]; omega
theorem align_hdr : cmsgAlign HDR = 16 := by decide
theorem space_eq (n : Nat) : cmsgSpace (FD * n) = cmsgAlign (HDR + FD * n) := by
  simp only [cmsgSpace, cmsgAlign, HDR, FD]; omega
theorem len_eq (n : Nat) : cmsgLen (FD * n) = HDR + FD * n := by
  simp only [cmsgLen, cmsgAlign, HDR, FD]

theorem encFds_length (fds : List Nat) : (encFds fds).length = FD * fds.length := by
  induction fds with
  | nil => rfl
  | cons f t ih => simp only [encFds, List.length_append, le_length, ih, List.length_cons, FD]; omega

theorem encHdr_length (l a b : Nat) : (encHdr l a b).length = HDR := by
  simp [encHdr, le_length]

theorem decHdr_enc (l a b : Nat) (rest : List Nat) (hl : l < 256 ^ 8) (ha : a < 256 ^ 4) (hb : b < 256 ^ 4) :
    decHdr (encHdr l a b ++ rest) = some ⟨l, a, b⟩ := by
  have h8 := le_length 8 l
  have h4a := le_length 4 a
  have h4b := le_length 4 b
  have hlen : ¬ (encHdr l a b ++ rest).length < HDR := by
    simp only [encHdr, List.length_append, h8, h4a, h4b, HDR]; omega
  simp only [decHdr, if_neg hlen]
  have e1 : (encHdr l a b ++ rest).take 8 = le 8 l := by
    simp only [encHdr, List.append_assoc]; exact List.take_left' h8
  have e2 : (encHdr l a b ++ rest).drop 8 = le 4 a ++ (le 4 b ++ rest) := by
    simp only [encHdr, List.append_assoc]; exact List.drop_left' h8
  have e3 : (encHdr l a b ++ rest).drop 12 = le 4 b ++ rest := by
    have : encHdr l a b ++ rest = (le 8 l ++ le 4 a) ++ (le 4 b ++ rest) := by
      simp only [encHdr, List.append_assoc]
    rw [this]; exact List.drop_left' (by simp [h8, h4a])
  rw [e1, e2, e3, List.take_left' h4a, List.take_left' h4b]
  rw [unle_le 8 l hl, unle_le 4 a ha, unle_le 4 b hb]

theorem groups4_enc (fds rest : List Nat) (hf : ∀ f ∈ fds, f < 256 ^ 4) :
    groups4 fds.length (encFds fds ++ rest) = fds := by
  induction fds with
  | nil => rfl
  | cons f t ih =>
    have h4 := le_length 4 f
    simp only [List.length_cons, groups4, encFds, List.append_assoc]
    rw [List.take_left' h4, List.drop_left' h4]
    rw [unle_le 4 f (hf f (by simp)), ih (fun x hx => hf x (by simp [hx]))]


/-! ### one step of the iterator on a header that is CMSG_OK -/

theorem cmsgOk_iff (ctl off : Nat) (h : Hdr) : cmsgOk ctl off h = true ↔ HDR ≤ h.len ∧ h.len ≤ ctl - off := by
  simp only [cmsgOk, Bool.and_eq_true, decide_eq_true_eq]

theorem isRights_iff (h : Hdr) : isRights h = true ↔ (h.typ = SCM_RIGHTS ∧ h.level = SOL_SOCKET) := by
  simp only [isRights, Bool.and_eq_true, decide_eq_true_eq]

theorem nxthdr_ok (base ctl off : Nat) (h : Hdr) (hok : cmsgOk ctl off h = true) (hoff : off + HDR ≤ ctl)
    (hctl : ctl < 2 ^ 63) (hb : base + ctl < U64) :
    nxthdr base ctl off h = .ok (if ctl ≤ off + cmsgAlign h.len + HDR then none else some (cmsgAlign h.len)) := by
  rw [cmsgOk_iff] at hok
  have h1 := align_ge h.len
  have h2 := align_lt h.len
  simp only [HDR, U64] at *
  simp only [nxthdr, HDR, U64]
  rw [if_neg (by omega), if_neg (by omega), if_neg (by omega), if_neg (by omega), if_neg (by omega)]
  by_cases hc : ctl ≤ off + cmsgAlign h.len + 16
  · rw [if_pos (by omega), if_pos hc]
  · rw [if_neg (by omega), if_neg hc]

theorem hdrStepOrig_rights_ok (base ctl off : Nat) (m : List Nat) (h : Hdr) (hr : isRights h = true)
    (hok : cmsgOk ctl off h = true) (hoff : off + HDR ≤ ctl) (hm : ctl ≤ off + m.length)
    (hctl : ctl < 2 ^ 63) (hb : base + ctl < U64) :
    hdrStepOrig base ctl off m h =
      .ok (some (groups4 ((h.len - HDR) / FD) (m.drop HDR)), [(off, HDR), (off + HDR, FD * ((h.len - HDR) / FD))],
        if ctl ≤ off + cmsgAlign h.len + HDR then none else some (cmsgAlign h.len)) := by
  have hnx := nxthdr_ok base ctl off h hok hoff hctl hb
  rw [cmsgOk_iff] at hok
  rw [isRights_iff] at hr
  simp only [hdrStepOrig, if_pos hr, hnx]
  simp only [HDR, FD, U64, ISIZE_MAX] at *
  rw [if_neg (by omega), if_neg (by omega), if_neg (by omega), if_neg (by simp only [List.length_drop]; omega)]

theorem hdrStepOrig_foreign_ok (base ctl off : Nat) (m : List Nat) (h : Hdr) (hr : isRights h = false)
    (hok : cmsgOk ctl off h = true) (hoff : off + HDR ≤ ctl) (hctl : ctl < 2 ^ 63) (hb : base + ctl < U64) :
    hdrStepOrig base ctl off m h =
      .ok (none, [(off, HDR)], if ctl ≤ off + cmsgAlign h.len + HDR then none else some (cmsgAlign h.len)) := by
  have hnx := nxthdr_ok base ctl off h hok hoff hctl hb
  have hr' : ¬ (h.typ = SCM_RIGHTS ∧ h.level = SOL_SOCKET) := by
    intro hc; rw [(isRights_iff h).mpr hc] at hr; cases hr
  simp only [hdrStepOrig, if_neg hr', hnx]

theorem hdrStep_false (base ctl off : Nat) (m : List Nat) (h : Hdr) :
    hdrStep false base ctl off m h = hdrStepOrig base ctl off m h := by
  simp only [hdrStep, Bool.false_eq_true, if_false]

/-- on a header that is CMSG_OK the repaired code does what the code did before -/
theorem hdrStep_of_ok (fixed : Bool) (base ctl off : Nat) (m : List Nat) (h : Hdr) (hok : cmsgOk ctl off h = true)
    (hb : base + ctl < U64) : hdrStep fixed base ctl off m h = hdrStepOrig base ctl off m h := by
  rw [cmsgOk_iff] at hok
  cases fixed with
  | false => exact hdrStep_false base ctl off m h
  | true =>
    simp only [hdrStep, if_true]
    rw [if_neg (by omega), if_neg (by simp only [HDR] at *; omega)]

/-- on a header that is not CMSG_OK the repaired code stops: nothing yielded, nothing further read -/
theorem hdrStep_true_not_ok (base ctl off : Nat) (m : List Nat) (h : Hdr) (hnok : cmsgOk ctl off h = false)
    (hb : base + ctl < U64) : hdrStep true base ctl off m h = .ok (none, [(off, HDR)], none) := by
  have hn : ¬ (HDR ≤ h.len ∧ h.len ≤ ctl - off) := by
    intro hc; rw [(cmsgOk_iff ctl off h).mpr hc] at hnok; cases hnok
  simp only [hdrStep, if_true]
  rw [if_neg (by omega), if_pos (by simp only [HDR] at *; omega)]

theorem hdrStep_rights_ok (fixed : Bool) (base ctl off : Nat) (m : List Nat) (h : Hdr) (hr : isRights h = true)
    (hok : cmsgOk ctl off h = true) (hoff : off + HDR ≤ ctl) (hm : ctl ≤ off + m.length)
    (hctl : ctl < 2 ^ 63) (hb : base + ctl < U64) :
    hdrStep fixed base ctl off m h =
      .ok (some (groups4 ((h.len - HDR) / FD) (m.drop HDR)), [(off, HDR), (off + HDR, FD * ((h.len - HDR) / FD))],
        if ctl ≤ off + cmsgAlign h.len + HDR then none else some (cmsgAlign h.len)) := by
  rw [hdrStep_of_ok fixed base ctl off m h hok hb]
  exact hdrStepOrig_rights_ok base ctl off m h hr hok hoff hm hctl hb

theorem hdrStep_foreign_ok (fixed : Bool) (base ctl off : Nat) (m : List Nat) (h : Hdr) (hr : isRights h = false)
    (hok : cmsgOk ctl off h = true) (hoff : off + HDR ≤ ctl) (hctl : ctl < 2 ^ 63) (hb : base + ctl < U64) :
    hdrStep fixed base ctl off m h =
      .ok (none, [(off, HDR)], if ctl ≤ off + cmsgAlign h.len + HDR then none else some (cmsgAlign h.len)) := by
  rw [hdrStep_of_ok fixed base ctl off m h hok hb]
  exact hdrStepOrig_foreign_ok base ctl off m h hr hok hoff hctl hb

theorem kfill_facts (msgs : List (List Nat)) : ∀ (rem : Nat) (g : List Nat), rem ≤ g.length →
    (kfill msgs rem g).2 ≤ rem ∧ ((kfill msgs rem g).2 = 0 ∨ 20 ≤ (kfill msgs rem g).2) ∧
    ((kfill msgs rem g).2 = 0 → delivered msgs rem = []) ∧ (kfill msgs rem g).1.length = g.length := by
  induction msgs with
  | nil => intro rem g _; simp [kfill, delivered]
  | cons fds t ih =>
    intro rem g hg
    simp only [kfill, delivered]
    split
    · exact ih rem g hg
    · split
      · exact ih rem g hg
      · rename_i h16 hk
        simp only [HDR, FD] at h16 hk
        have hsp := align_ge (HDR + FD * min fds.length ((rem - HDR) / FD))
        rw [space_eq]
        simp only [HDR, FD] at hsp ⊢
        have hadv : min (cmsgAlign (16 + 4 * min fds.length ((rem - 16) / 4))) rem ≤ rem := Nat.min_le_right _ _
        have hadv20 : 20 ≤ min (cmsgAlign (16 + 4 * min fds.length ((rem - 16) / 4))) rem := by omega
        have := ih (rem - min (cmsgAlign (16 + 4 * min fds.length ((rem - 16) / 4))) rem)
          (g.drop (min (cmsgAlign (16 + 4 * min fds.length ((rem - 16) / 4))) rem)) (by simp; omega)
        obtain ⟨i1, i2, i3, i4⟩ := this
        refine ⟨by omega, by omega, by omega, ?_⟩
        simp only [List.length_append, encHdr_length, encFds_length, List.length_take, List.length_drop, i4, HDR, FD]
        omega


def FdsOk (msgs : List (List Nat)) : Prop := ∀ fds ∈ msgs, ∀ f ∈ fds, f < 256 ^ 4

theorem iter_kfill (fixed : Bool) (base : Nat) (msgs : List (List Nat)) : ∀ (rem : Nat) (g : List Nat) (fuel off : Nat),
    rem ≤ g.length → off + rem < 2 ^ 63 → base + off + rem < U64 → FdsOk msgs →
    0 < (kfill msgs rem g).2 → (kfill msgs rem g).2 < fuel →
    (iterFrom fixed fuel base (off + (kfill msgs rem g).2) off (kfill msgs rem g).1).msgs = delivered msgs rem ∧
    (iterFrom fixed fuel base (off + (kfill msgs rem g).2) off (kfill msgs rem g).1).bad = none ∧
    ∀ x ∈ (iterFrom fixed fuel base (off + (kfill msgs rem g).2) off (kfill msgs rem g).1).reads,
      off ≤ x.1 ∧ x.1 + x.2 ≤ off + (kfill msgs rem g).2 := by
  induction msgs with
  | nil => intro rem g fuel off _ _ _ _ h; simp [kfill] at h
  | cons fds t ih =>
    intro rem g fuel off hg hrem hbase hfd hpos hfuel
    have hfdt : FdsOk t := fun x hx => hfd x (by simp [hx])
    by_cases h16 : rem < HDR
    · have e1 : kfill (fds :: t) rem g = kfill t rem g := by simp only [kfill, if_pos h16]
      have e2 : delivered (fds :: t) rem = delivered t rem := by simp only [delivered, if_pos h16]
      rw [e1] at hpos hfuel ⊢; rw [e2]
      exact ih rem g fuel off hg hrem hbase hfdt hpos hfuel
    · by_cases hk : min fds.length ((rem - HDR) / FD) = 0
      · have e1 : kfill (fds :: t) rem g = kfill t rem g := by simp only [kfill, if_neg h16, if_pos hk]
        have e2 : delivered (fds :: t) rem = delivered t rem := by simp only [delivered, if_neg h16, if_pos hk]
        rw [e1] at hpos hfuel ⊢; rw [e2]
        exact ih rem g fuel off hg hrem hbase hfdt hpos hfuel
      · -- the message is written
        obtain ⟨k, hkd⟩ : ∃ k, k = min fds.length ((rem - HDR) / FD) := ⟨_, rfl⟩
        obtain ⟨adv, hadvd⟩ : ∃ adv, adv = min (cmsgSpace (FD * k)) rem := ⟨_, rfl⟩
        obtain ⟨pad, hpadd⟩ : ∃ pad, pad = (g.drop (HDR + FD * k)).take (adv - (HDR + FD * k)) := ⟨_, rfl⟩
        have hbody : (encHdr (cmsgLen (FD * k)) SOL_SOCKET SCM_RIGHTS ++ encFds (fds.take k)).length = HDR + FD * k := by
          simp only [List.length_append, encHdr_length, encFds_length, List.length_take]
          rw [hkd]; simp only [HDR, FD]; omega
        have e1 : kfill (fds :: t) rem g =
            (encHdr (cmsgLen (FD * k)) SOL_SOCKET SCM_RIGHTS ++ encFds (fds.take k) ++ pad ++ (kfill t (rem - adv) (g.drop adv)).1,
              adv + (kfill t (rem - adv) (g.drop adv)).2) := by
          simp only [kfill, if_neg h16, if_neg hk]
          rw [← hkd, ← hadvd, hbody, ← hpadd]
        have e2 : delivered (fds :: t) rem = fds.take k :: delivered t (rem - adv) := by
          simp only [delivered, if_neg h16, if_neg hk]; rw [← hkd, ← hadvd]
        simp only [HDR, FD] at h16 hk hkd
        have hk1 : 1 ≤ k := by omega
        have hkrem : 16 + 4 * k ≤ rem := by omega
        have hsp : cmsgSpace (FD * k) = cmsgAlign (16 + 4 * k) := by rw [space_eq]
        have hal := align_ge (16 + 4 * k)
        have hal2 := align_lt (16 + 4 * k)
        have hadv1 : 16 + 4 * k ≤ adv := by rw [hadvd, hsp]; omega
        have hadv2 : adv ≤ rem := by rw [hadvd]; exact Nat.min_le_right _ _
        have hadv3 : adv ≤ cmsgAlign (16 + 4 * k) := by rw [hadvd, hsp]; exact Nat.min_le_left _ _
        have hpadlen : pad.length = adv - (16 + 4 * k) := by
          rw [hpadd]; simp only [List.length_take, List.length_drop, HDR, FD]; omega
        obtain ⟨f1, f2, f3, f4⟩ := kfill_facts t (rem - adv) (g.drop adv) (by simp; omega)
        rw [e1] at hpos hfuel ⊢; rw [e2]
        simp only at hpos hfuel ⊢
        obtain ⟨r1, hr1⟩ : ∃ r1, r1 = (kfill t (rem - adv) (g.drop adv)).1 := ⟨_, rfl⟩
        obtain ⟨r2, hr2⟩ : ∃ r2, r2 = (kfill t (rem - adv) (g.drop adv)).2 := ⟨_, rfl⟩
        rw [← hr2] at hpos hfuel
        rw [← hr1, ← hr2]
        rw [← hr2] at f1 f2 f3
        rw [← hr1] at f4
        obtain ⟨fuel', rfl⟩ : ∃ f', fuel = f' + 1 := ⟨fuel - 1, by omega⟩
        have hm : encHdr (cmsgLen (FD * k)) SOL_SOCKET SCM_RIGHTS ++ encFds (fds.take k) ++ pad ++ r1 =
            encHdr (cmsgLen (FD * k)) SOL_SOCKET SCM_RIGHTS ++ (encFds (fds.take k) ++ (pad ++ r1)) := by
          simp only [List.append_assoc]
        have hlen : cmsgLen (FD * k) = 16 + 4 * k := by rw [len_eq]
        have hdec := decHdr_enc (cmsgLen (FD * k)) SOL_SOCKET SCM_RIGHTS (encFds (fds.take k) ++ (pad ++ r1))
          (by rw [hlen]; omega) (by decide) (by decide)
        have htk : (fds.take k).length = k := by simp only [List.length_take]; omega
        have hdrop16 : (encHdr (cmsgLen (FD * k)) SOL_SOCKET SCM_RIGHTS ++ (encFds (fds.take k) ++ (pad ++ r1))).drop HDR =
            encFds (fds.take k) ++ (pad ++ r1) := List.drop_left' (encHdr_length _ _ _)
        have hgr : groups4 k (encFds (fds.take k) ++ (pad ++ r1)) = fds.take k := by
          have := groups4_enc (fds.take k) (pad ++ r1) (fun f hf => hfd fds (by simp) f (List.mem_of_mem_take hf))
          rw [htk] at this; exact this
        have hdropadv : (encHdr (cmsgLen (FD * k)) SOL_SOCKET SCM_RIGHTS ++ (encFds (fds.take k) ++ (pad ++ r1))).drop adv = r1 := by
          rw [← hm]
          exact List.drop_left' (by rw [List.length_append, hbody, hpadlen]; simp only [HDR, FD]; omega)
        rw [hm]
        rw [hlen] at hdec hdrop16 hdropadv
        have hn : (16 + 4 * k - HDR) / FD = k := by simp only [HDR, FD]; omega
        have hmlen : (encHdr (16 + 4 * k) SOL_SOCKET SCM_RIGHTS ++ (encFds (fds.take k) ++ (pad ++ r1))).length =
            adv + (g.drop adv).length := by
          simp only [List.length_append, encHdr_length, encFds_length, htk, hpadlen, f4, HDR, FD]; omega
        have hstep := hdrStep_rights_ok fixed base (off + (adv + r2)) off
          (encHdr (16 + 4 * k) SOL_SOCKET SCM_RIGHTS ++ (encFds (fds.take k) ++ (pad ++ r1))) ⟨16 + 4 * k, SOL_SOCKET, SCM_RIGHTS⟩
          (by rw [isRights_iff]; exact ⟨rfl, rfl⟩) (by rw [cmsgOk_iff]; simp only [HDR]; omega) (by simp only [HDR]; omega)
          (by rw [hmlen]; simp only [List.length_drop]; omega) (by omega) (by simp only [U64] at hbase ⊢; omega)
        simp only [hn, hdrop16, hgr] at hstep
        rw [hlen]
        rcases f2 with f2 | f2
        · -- nothing follows: the iterator stops here
          rw [if_pos (by simp only [HDR]; omega)] at hstep
          simp only [iterFrom, hdec, hstep, f3 f2, Option.toList, List.append_nil, List.singleton_append, List.cons_append,
            List.nil_append]
          refine ⟨trivial, trivial, ?_⟩
          intro x hx
          simp only [List.mem_cons, List.not_mem_nil, or_false] at hx
          rcases hx with rfl | rfl <;> simp only [HDR, FD] <;> omega
        · -- a further message follows, exactly CMSG_SPACE further on
          have hadveq : adv = cmsgAlign (16 + 4 * k) := by
            rw [hadvd, hsp]; apply Nat.min_eq_left; omega
          rw [if_neg (by simp only [HDR]; omega), ← hadveq] at hstep
          have := ih (rem - adv) (g.drop adv) fuel' (off + adv) (by simp; omega) (by omega) (by omega) hfdt
            (by rw [← hr2]; omega) (by rw [← hr2]; omega)
          rw [← hr1, ← hr2] at this
          obtain ⟨i1, i2, i3⟩ := this
          have hoff : off + adv + r2 = off + (adv + r2) := by omega
          rw [hoff] at i1 i2 i3
          simp only [iterFrom, hdec, hstep, hdropadv, i1, i2, Option.toList, List.singleton_append, List.cons_append,
            List.nil_append]
          refine ⟨trivial, trivial, ?_⟩
          intro x hx
          simp only [List.mem_cons] at hx
          rcases hx with rfl | rfl | hx
          · simp only [HDR]; omega
          · simp only [HDR, FD]; omega
          · have := i3 x hx; omega

/-! ### the iterator against the CMSG_OK walk, for EVERY memory content -/

/-- what the iterator does with the header `h` at `o` when `cmsg_nxthdr!` ends the walk there -/
def lastStep (fixed : Bool) (base ctl o : Nat) (m : List Nat) (h : Hdr) : IterOut :=
  match hdrStep fixed base ctl o m h with
  | .error out => out
  | .ok (item, rd, _) => ⟨item.toList, rd, none⟩

theorem decHdr_some (m : List Nat) (h : HDR ≤ m.length) : ∃ hd, decHdr m = some hd := by
  simp only [decHdr, if_neg (by omega : ¬ m.length < HDR)]
  exact ⟨_, rfl⟩

/-- at a header that is not CMSG_OK `cmsg_nxthdr!` never produces a further header -/
theorem nxthdr_not_ok (base ctl off : Nat) (h : Hdr) (hnok : cmsgOk ctl off h = false) (d : Nat) :
    nxthdr base ctl off h ≠ .ok (some d) := by
  have hn : ¬ (HDR ≤ h.len ∧ h.len ≤ ctl - off) := by
    intro hc; rw [(cmsgOk_iff ctl off h).mpr hc] at hnok; cases hnok
  have h1 := align_ge h.len
  simp only [HDR] at hn
  simp only [nxthdr, HDR]
  repeat' split
  all_goals first
    | (intro hc; cases hc; done)
    | (intro hc; omega)
    | skip
  all_goals (intro hc; omega)

theorem hdrStepOrig_not_ok_next (base ctl off : Nat) (m : List Nat) (h : Hdr) (hnok : cmsgOk ctl off h = false)
    (item : Option (List Nat)) (rd : List (Nat × Nat)) (nx : Option Nat)
    (hs : hdrStepOrig base ctl off m h = .ok (item, rd, nx)) : nx = none := by
  cases nx with
  | none => rfl
  | some d =>
    exfalso
    have hno := nxthdr_not_ok base ctl off h hnok d
    simp only [hdrStepOrig] at hs
    repeat' split at hs
    all_goals first
      | (cases hs; done)
      | (cases hs; exact hno (by assumption))

theorem hdrStep_cases (fixed : Bool) (base ctl off : Nat) (m : List Nat) (h : Hdr) :
    hdrStep fixed base ctl off m h = hdrStepOrig base ctl off m h ∨
    hdrStep fixed base ctl off m h = .error ⟨[], [(off, HDR)], some .panic⟩ ∨
    hdrStep fixed base ctl off m h = .ok (none, [(off, HDR)], none) := by
  cases fixed with
  | false => left; exact hdrStep_false base ctl off m h
  | true =>
    simp only [hdrStep, if_true]
    split
    · right; left; rfl
    · split
      · right; right; rfl
      · left; rfl

theorem hdrStep_not_ok_next (fixed : Bool) (base ctl off : Nat) (m : List Nat) (h : Hdr)
    (hnok : cmsgOk ctl off h = false) (item : Option (List Nat)) (rd : List (Nat × Nat)) (nx : Option Nat)
    (hs : hdrStep fixed base ctl off m h = .ok (item, rd, nx)) : nx = none := by
  rcases hdrStep_cases fixed base ctl off m h with hc | hc | hc
  · rw [hc] at hs; exact hdrStepOrig_not_ok_next base ctl off m h hnok item rd nx hs
  · rw [hc] at hs; cases hs
  · rw [hc] at hs; cases hs; rfl

theorem iterFrom_malformed (fixed : Bool) (fuel base ctl off : Nat) (m : List Nat) (h : Hdr) (hdec : decHdr m = some h)
    (hnok : cmsgOk ctl off h = false) :
    iterFrom fixed (fuel + 1) base ctl off m = lastStep fixed base ctl off m h := by
  simp only [iterFrom, hdec, lastStep]
  cases hs : hdrStep fixed base ctl off m h with
  | error o => rfl
  | ok v =>
    obtain ⟨item, rd, nx⟩ := v
    have := hdrStep_not_ok_next fixed base ctl off m h hnok item rd nx hs
    subst this
    simp

/-- the relation between the CMSG_OK walk `w` and the run `r` of the iterator, both started at offset `lo` -/
def WalkPost (fixed : Bool) (base : Nat) (mem : List Nat) (ctl lo : Nat) (w : List (Nat × Hdr) × Stop) (r : IterOut) : Prop :=
  match w.2 with
  | .done => ∃ pre, r = ⟨rightsOf mem w.1, pre, none⟩ ∧ ∀ x ∈ pre, lo ≤ x.1 ∧ x.1 + x.2 ≤ ctl
  | .malformed o h =>
    ∃ pre, r = ⟨rightsOf mem w.1 ++ (lastStep fixed base ctl o (mem.drop o) h).msgs,
                pre ++ (lastStep fixed base ctl o (mem.drop o) h).reads, (lastStep fixed base ctl o (mem.drop o) h).bad⟩ ∧
      (∀ x ∈ pre, lo ≤ x.1 ∧ x.1 + x.2 ≤ o) ∧ lo ≤ o ∧ o + HDR ≤ ctl ∧ decHdr (mem.drop o) = some h ∧
      cmsgOk ctl o h = false
  | .unmapped => False
  | .fuel => False

theorem iter_walk (fixed : Bool) (base : Nat) (mem : List Nat) (ctl : Nat) (hmem : ctl ≤ mem.length) (hctl : ctl < 2 ^ 63)
    (hb : base + ctl < U64) : ∀ (fuel fuel' off : Nat), off + HDR ≤ ctl → ctl - off < fuel → ctl - off < fuel' →
    WalkPost fixed base mem ctl off (wfWalk uNext fuel' mem ctl off) (iterFrom fixed fuel base ctl off (mem.drop off)) := by
  intro fuel
  induction fuel with
  | zero => intro fuel' off _ h; omega
  | succ fuel ih =>
    intro fuel' off hoff hf hf'
    obtain ⟨fuel', rfl⟩ : ∃ f, fuel' = f + 1 := ⟨fuel' - 1, by omega⟩
    obtain ⟨h, hdec⟩ := decHdr_some (mem.drop off) (by simp only [List.length_drop]; omega)
    cases hok : cmsgOk ctl off h with
    | false =>
      rw [iterFrom_malformed fixed fuel base ctl off _ h hdec hok]
      simp only [wfWalk, hdec, hok, WalkPost]
      refine ⟨[], ?_, ?_, Nat.le_refl _, hoff, hdec, hok⟩
      · simp [rightsOf]
      · intro x hx; cases hx
    | true =>
      have hlen := (cmsgOk_iff ctl off h).mp hok
      have ha1 := align_ge h.len
      have hmlen : ctl ≤ off + (mem.drop off).length := by simp only [List.length_drop]; omega
      by_cases hc : ctl ≤ off + cmsgAlign h.len + HDR
      · -- the walk ends with this header
        have hu : uNext ctl off h = none := by simp only [uNext, if_pos hc]
        simp only [wfWalk, hdec, hok, hu, WalkPost, if_true]
        cases hr : isRights h with
        | true =>
          have hs := hdrStep_rights_ok fixed base ctl off (mem.drop off) h hr hok hoff hmlen hctl hb
          rw [if_pos hc] at hs
          refine ⟨[(off, HDR), (off + HDR, FD * ((h.len - HDR) / FD))], ?_, ?_⟩
          · simp only [iterFrom, hdec, hs, rightsOf, hr, if_true, Option.toList, List.drop_drop, List.append_nil,
              List.singleton_append]
          · intro x hx
            simp only [List.mem_cons, List.not_mem_nil, or_false] at hx
            simp only [HDR, FD] at *
            rcases hx with rfl | rfl <;> simp only <;> omega
        | false =>
          have hs := hdrStep_foreign_ok fixed base ctl off (mem.drop off) h hr hok hoff hctl hb
          rw [if_pos hc] at hs
          refine ⟨[(off, HDR)], ?_, ?_⟩
          · simp [iterFrom, hdec, hs, rightsOf, hr, Option.toList]
          · intro x hx
            simp only [List.mem_cons, List.not_mem_nil, or_false] at hx
            subst hx; simp only [HDR] at *; omega
      · -- a further header follows
        have hu : uNext ctl off h = some (off + cmsgAlign h.len) := by simp only [uNext, if_neg hc]
        have hrec := ih fuel' (off + cmsgAlign h.len) (by simp only [HDR] at *; omega) (by simp only [HDR] at *; omega)
          (by simp only [HDR] at *; omega)
        simp only [wfWalk, hdec, hok, hu, if_true]
        generalize hw : wfWalk uNext fuel' mem ctl (off + cmsgAlign h.len) = w at hrec ⊢
        generalize hrr : iterFrom fixed fuel base ctl (off + cmsgAlign h.len) (mem.drop (off + cmsgAlign h.len)) = rr at hrec
        obtain ⟨wl, ws⟩ := w
        cases hr : isRights h with
        | true =>
          have hs := hdrStep_rights_ok fixed base ctl off (mem.drop off) h hr hok hoff hmlen hctl hb
          rw [if_neg hc] at hs
          have hit : iterFrom fixed (fuel + 1) base ctl off (mem.drop off) =
              ⟨groups4 ((h.len - HDR) / FD) (mem.drop (off + HDR)) :: rr.msgs,
               (off, HDR) :: (off + HDR, FD * ((h.len - HDR) / FD)) :: rr.reads, rr.bad⟩ := by
            simp only [iterFrom, hdec, hs, Option.toList, List.drop_drop, hrr, List.singleton_append, List.cons_append,
              List.nil_append]
          rw [hit]
          cases ws with
          | done =>
            simp only [WalkPost] at hrec ⊢
            obtain ⟨pre, hpre, hin⟩ := hrec
            refine ⟨(off, HDR) :: (off + HDR, FD * ((h.len - HDR) / FD)) :: pre, ?_, ?_⟩
            · rw [hpre]; simp only [rightsOf, hr, if_true]
            · intro x hx
              simp only [List.mem_cons] at hx
              simp only [HDR, FD] at *
              rcases hx with rfl | rfl | hx
              · simp only; omega
              · simp only; omega
              · have := hin x hx; omega
          | malformed o h' =>
            simp only [WalkPost] at hrec ⊢
            obtain ⟨pre, hpre, hin, hlo, ho, hd, hnok⟩ := hrec
            refine ⟨(off, HDR) :: (off + HDR, FD * ((h.len - HDR) / FD)) :: pre, ?_, ?_, by omega, ho, hd, hnok⟩
            · rw [hpre]; simp only [rightsOf, hr, if_true, List.cons_append]
            · intro x hx
              simp only [List.mem_cons] at hx
              simp only [HDR, FD] at *
              rcases hx with rfl | rfl | hx
              · simp only; omega
              · simp only; omega
              · have := hin x hx; omega
          | unmapped => simp only [WalkPost] at hrec
          | fuel => simp only [WalkPost] at hrec
        | false =>
          have hs := hdrStep_foreign_ok fixed base ctl off (mem.drop off) h hr hok hoff hctl hb
          rw [if_neg hc] at hs
          have hit : iterFrom fixed (fuel + 1) base ctl off (mem.drop off) = ⟨rr.msgs, (off, HDR) :: rr.reads, rr.bad⟩ := by
            simp only [iterFrom, hdec, hs, Option.toList, List.drop_drop, hrr, List.singleton_append, List.cons_append,
              List.nil_append]
          rw [hit]
          cases ws with
          | done =>
            simp only [WalkPost] at hrec ⊢
            obtain ⟨pre, hpre, hin⟩ := hrec
            refine ⟨(off, HDR) :: pre, ?_, ?_⟩
            · rw [hpre]; simp [rightsOf, hr]
            · intro x hx
              simp only [List.mem_cons] at hx
              simp only [HDR] at *
              rcases hx with rfl | hx
              · simp only; omega
              · have := hin x hx; omega
          | malformed o h' =>
            simp only [WalkPost] at hrec ⊢
            obtain ⟨pre, hpre, hin, hlo, ho, hd, hnok⟩ := hrec
            refine ⟨(off, HDR) :: pre, ?_, ?_, by omega, ho, hd, hnok⟩
            · rw [hpre]; simp [rightsOf, hr]
            · intro x hx
              simp only [List.mem_cons] at hx
              simp only [HDR] at *
              rcases hx with rfl | hx
              · simp only; omega
              · have := hin x hx; omega
          | unmapped => simp only [WalkPost] at hrec
          | fuel => simp only [WalkPost] at hrec

/-! ### termination, for every memory content, control length and address -/

theorem nxthdr_some (base ctl off : Nat) (h : Hdr) (d : Nat) (hs : nxthdr base ctl off h = .ok (some d)) :
    d = cmsgAlign h.len ∧ HDR ≤ h.len ∧ d + HDR < ctl - off := by
  simp only [nxthdr] at hs
  repeat' split at hs
  all_goals first
    | (cases hs; done)
    | (cases hs; refine ⟨rfl, by omega, by omega⟩)

theorem hdrStepOrig_next (base ctl off : Nat) (m : List Nat) (h : Hdr) (item : Option (List Nat)) (rd : List (Nat × Nat))
    (d : Nat) (hs : hdrStepOrig base ctl off m h = .ok (item, rd, some d)) : HDR ≤ d ∧ d + HDR < ctl - off := by
  have key : nxthdr base ctl off h = .ok (some d) := by
    simp only [hdrStepOrig] at hs
    repeat' split at hs
    all_goals first
      | (cases hs; done)
      | (cases hs; assumption)
  obtain ⟨h1, h2, h3⟩ := nxthdr_some base ctl off h d key
  have := align_ge h.len
  exact ⟨by omega, h3⟩

theorem nxthdr_error (base ctl off : Nat) (h : Hdr) (b : Bad) (hs : nxthdr base ctl off h = .error b) : b = .panic := by
  simp only [nxthdr] at hs
  repeat' split at hs
  all_goals first
    | (cases hs; done)
    | (cases hs; rfl)

theorem hdrStepOrig_error_bad (base ctl off : Nat) (m : List Nat) (h : Hdr) (o : IterOut)
    (hs : hdrStepOrig base ctl off m h = .error o) : o.bad ≠ some .fuel ∧ o.bad ≠ none := by
  simp only [hdrStepOrig] at hs
  repeat' split at hs
  all_goals first
    | (cases hs; done)
    | (cases hs; rename_i b hb; have := nxthdr_error base ctl off h b hb; subst this; exact ⟨by simp, by simp⟩)
    | (cases hs; refine ⟨?_, ?_⟩ <;> simp)

theorem hdrStep_next (fixed : Bool) (base ctl off : Nat) (m : List Nat) (h : Hdr) (item : Option (List Nat))
    (rd : List (Nat × Nat)) (d : Nat) (hs : hdrStep fixed base ctl off m h = .ok (item, rd, some d)) :
    HDR ≤ d ∧ d + HDR < ctl - off := by
  rcases hdrStep_cases fixed base ctl off m h with hc | hc | hc
  · rw [hc] at hs; exact hdrStepOrig_next base ctl off m h item rd d hs
  · rw [hc] at hs; cases hs
  · rw [hc] at hs; cases hs

theorem hdrStep_error_bad (fixed : Bool) (base ctl off : Nat) (m : List Nat) (h : Hdr) (o : IterOut)
    (hs : hdrStep fixed base ctl off m h = .error o) : o.bad ≠ some .fuel ∧ o.bad ≠ none := by
  rcases hdrStep_cases fixed base ctl off m h with hc | hc | hc
  · rw [hc] at hs; exact hdrStepOrig_error_bad base ctl off m h o hs
  · rw [hc] at hs; cases hs; exact ⟨by simp, by simp⟩
  · rw [hc] at hs; cases hs

theorem iterFrom_no_fuel (fixed : Bool) (base ctl : Nat) : ∀ (fuel off : Nat) (m : List Nat), ctl - off < fuel →
    (iterFrom fixed fuel base ctl off m).bad ≠ some .fuel := by
  intro fuel
  induction fuel with
  | zero => intro off m h; omega
  | succ fuel ih =>
    intro off m hf
    simp only [iterFrom]
    cases hdec : decHdr m with
    | none => simp
    | some h =>
      simp only
      cases hs : hdrStep fixed base ctl off m h with
      | error o => exact (hdrStep_error_bad fixed base ctl off m h o hs).1
      | ok v =>
        obtain ⟨item, rd, nx⟩ := v
        cases nx with
        | none => simp
        | some d =>
          have := hdrStep_next fixed base ctl off m h item rd d hs
          simp only [HDR] at this
          exact ih (off + d) (m.drop d) (by omega)

/-! ### what happened at the first header that is not CMSG_OK BEFORE the repair (`fixed = false`) -/

/-- a malformed header NOT tagged SOL_SOCKET/SCM_RIGHTS: the iterator stops there, cleanly — unless `cmsg_len` is within
23 of 2^64, where the alignment arithmetic of `cmsg_nxthdr!` overflows -/
theorem lastStep_foreign (base ctl o : Nat) (m : List Nat) (h : Hdr) (hr : isRights h = false)
    (hnok : cmsgOk ctl o h = false) (ho : o + HDR ≤ ctl) (hb : base + ctl < U64)
    (hsmall : h.len < HDR ∨ h.len + 24 ≤ U64) : lastStep false base ctl o m h = ⟨[], [(o, HDR)], none⟩ := by
  have hr' : ¬ (h.typ = SCM_RIGHTS ∧ h.level = SOL_SOCKET) := by
    intro hc; rw [(isRights_iff h).mpr hc] at hr; cases hr
  have hn : ¬ (HDR ≤ h.len ∧ h.len ≤ ctl - o) := by
    intro hc; rw [(cmsgOk_iff ctl o h).mpr hc] at hnok; cases hnok
  have h1 := align_ge h.len
  have h2 := align_lt h.len
  have hnx : nxthdr base ctl o h = .ok none := by
    simp only [nxthdr]
    simp only [HDR, U64] at *
    by_cases hl : h.len < 16
    · rw [if_pos hl]
    · rw [if_neg hl, if_neg (by omega), if_neg (by omega), if_neg (by omega), if_neg (by omega), if_pos (by omega)]
  simp only [lastStep, hdrStep_false, hdrStepOrig, if_neg hr', hnx, Option.toList]

theorem lastStep_foreign_overflow (base ctl o : Nat) (m : List Nat) (h : Hdr) (hr : isRights h = false)
    (hbig : U64 ≤ h.len + 23) : lastStep false base ctl o m h = ⟨[], [(o, HDR)], some .panic⟩ := by
  have hr' : ¬ (h.typ = SCM_RIGHTS ∧ h.level = SOL_SOCKET) := by
    intro hc; rw [(isRights_iff h).mpr hc] at hr; cases hr
  have h1 := align_ge h.len
  have h2 : cmsgAlign h.len % 8 = 0 := by simp only [cmsgAlign]; omega
  have hnx : nxthdr base ctl o h = .error .panic := by
    simp only [nxthdr]
    simp only [HDR, U64] at *
    rw [if_neg (by omega)]
    by_cases hl : 18446744073709551616 ≤ h.len + 8
    · rw [if_pos hl]
    · rw [if_neg hl, if_pos (by omega)]
  simp only [lastStep, hdrStep_false, hdrStepOrig, if_neg hr', hnx]

/-- a malformed header tagged SOL_SOCKET/SCM_RIGHTS with `cmsg_len < 16`: arithmetic panic -/
theorem lastStep_rights_short (base ctl o : Nat) (m : List Nat) (h : Hdr) (hr : isRights h = true)
    (hshort : h.len < HDR) : lastStep false base ctl o m h = ⟨[], [(o, HDR)], some .panic⟩ := by
  rw [isRights_iff] at hr
  by_cases hov : U64 ≤ base + o + h.len
  · simp only [lastStep, hdrStep_false, hdrStepOrig, if_pos hr, if_pos hov]
  · simp only [lastStep, hdrStep_false, hdrStepOrig, if_pos hr, if_neg hov, if_pos hshort]

/-- a malformed header tagged SOL_SOCKET/SCM_RIGHTS with `cmsg_len` larger than what is left of the buffer (no
overflow, payload mapped): a slice of `(cmsg_len - 16) / 4` descriptors is handed out — whatever the buffer length -/
theorem lastStep_rights_long (base ctl o : Nat) (m : List Nat) (h : Hdr) (hr : isRights h = true)
    (hnok : cmsgOk ctl o h = false) (hlong : HDR ≤ h.len) (ho : o + HDR ≤ ctl) (hb : base + ctl < U64)
    (hov : base + o + h.len < U64) (hb24 : 24 ≤ base + o) (hsz : FD * ((h.len - HDR) / FD) ≤ ISIZE_MAX)
    (hmap : FD * ((h.len - HDR) / FD) ≤ (m.drop HDR).length) :
    lastStep false base ctl o m h =
      ⟨[groups4 ((h.len - HDR) / FD) (m.drop HDR)], [(o, HDR), (o + HDR, FD * ((h.len - HDR) / FD))], none⟩ := by
  have hn : ¬ (HDR ≤ h.len ∧ h.len ≤ ctl - o) := by
    intro hc; rw [(cmsgOk_iff ctl o h).mpr hc] at hnok; cases hnok
  have h1 := align_ge h.len
  have h2 := align_lt h.len
  have hnx : nxthdr base ctl o h = .ok none := by
    simp only [nxthdr]
    simp only [HDR, U64] at *
    rw [if_neg (by omega), if_neg (by omega), if_neg (by omega), if_neg (by omega), if_neg (by omega), if_pos (by omega)]
  rw [isRights_iff] at hr
  simp only [lastStep, hdrStep_false, hdrStepOrig, if_pos hr, hnx]
  simp only [HDR, FD, U64, ISIZE_MAX] at *
  rw [if_neg (by omega), if_neg (by omega), if_neg (by omega), if_neg (by omega)]
  simp only [Option.toList]

/-- same, the payload not (entirely) mapped: the consumer of the slice faults -/
theorem lastStep_rights_long_fault (base ctl o : Nat) (m : List Nat) (h : Hdr) (hr : isRights h = true)
    (hnok : cmsgOk ctl o h = false) (hlong : HDR ≤ h.len) (ho : o + HDR ≤ ctl) (hb : base + ctl < U64)
    (hov : base + o + h.len < U64) (hb24 : 24 ≤ base + o) (hsz : FD * ((h.len - HDR) / FD) ≤ ISIZE_MAX)
    (hmap : (m.drop HDR).length < FD * ((h.len - HDR) / FD)) :
    lastStep false base ctl o m h = ⟨[], [(o, HDR), (o + HDR, FD * ((h.len - HDR) / FD))], some .fault⟩ := by
  have hn : ¬ (HDR ≤ h.len ∧ h.len ≤ ctl - o) := by
    intro hc; rw [(cmsgOk_iff ctl o h).mpr hc] at hnok; cases hnok
  have h1 := align_ge h.len
  have h2 := align_lt h.len
  have hnx : nxthdr base ctl o h = .ok none := by
    simp only [nxthdr]
    simp only [HDR, U64] at *
    rw [if_neg (by omega), if_neg (by omega), if_neg (by omega), if_neg (by omega), if_neg (by omega), if_pos (by omega)]
  rw [isRights_iff] at hr
  simp only [lastStep, hdrStep_false, hdrStepOrig, if_pos hr, hnx]
  simp only [HDR, FD, U64, ISIZE_MAX] at *
  rw [if_neg (by omega), if_neg (by omega), if_neg (by omega), if_pos (by omega)]

/-- a malformed SCM_RIGHTS header never ends the run silently with nothing handed out: crash, or an item built from
the malformed header -/
theorem lastStep_rights_never_clean (base ctl o : Nat) (m : List Nat) (h : Hdr) (hr : isRights h = true) :
    (lastStep false base ctl o m h).bad ≠ none ∨ (lastStep false base ctl o m h).msgs.length = 1 := by
  rw [isRights_iff] at hr
  by_cases c1 : U64 ≤ base + o + h.len
  · left; simp [lastStep, hdrStep_false, hdrStepOrig, hr, c1]
  · by_cases c2 : h.len < HDR
    · left; simp only [lastStep, hdrStep_false, hdrStepOrig, if_pos hr, if_neg c1, if_pos c2]; simp
    · cases hnx : nxthdr base ctl o h with
      | error b => left; simp only [lastStep, hdrStep_false, hdrStepOrig, if_pos hr, if_neg c1, if_neg c2, hnx]; simp
      | ok nx =>
        by_cases c3 : ISIZE_MAX < FD * ((h.len - HDR) / FD)
        · left; simp only [lastStep, hdrStep_false, hdrStepOrig, if_pos hr, if_neg c1, if_neg c2, hnx, if_pos c3]; simp
        · by_cases c4 : (m.drop HDR).length < FD * ((h.len - HDR) / FD)
          · left; simp only [lastStep, hdrStep_false, hdrStepOrig, if_pos hr, if_neg c1, if_neg c2, hnx, if_neg c3, if_pos c4]; simp
          · right; simp only [lastStep, hdrStep_false, hdrStepOrig, if_pos hr, if_neg c1, if_neg c2, hnx, if_neg c3, if_neg c4]
            simp [Option.toList]

/-! ### and since the repair (`fixed = true`): the iterator simply stops there -/

theorem lastStep_fixed (base ctl o : Nat) (m : List Nat) (h : Hdr) (hnok : cmsgOk ctl o h = false)
    (hb : base + ctl < U64) : lastStep true base ctl o m h = ⟨[], [(o, HDR)], none⟩ := by
  simp only [lastStep, hdrStep_true_not_ok base ctl o m h hnok hb, Option.toList]

theorem createSend_layout (fds : List Nat) :
    createSend fds =
      (encHdr (cmsgLen (FD * fds.length)) SOL_SOCKET SCM_RIGHTS ++ encFds fds ++
        List.replicate (cmsgSpace (FD * fds.length) - (HDR + FD * fds.length)) 0, cmsgSpace (FD * fds.length)) := by
  have hh := encHdr_length (cmsgLen (FD * fds.length)) SOL_SOCKET SCM_RIGHTS
  have he := encFds_length fds
  have hsp : HDR + FD * fds.length ≤ cmsgSpace (FD * fds.length) := by
    rw [space_eq]; exact align_ge _
  simp only [createSend, writeAt, List.take_zero, List.nil_append, Nat.zero_add, hh, List.drop_replicate]
  rw [List.take_left' hh]
  have : HDR + (encFds fds).length = (encHdr (cmsgLen (FD * fds.length)) SOL_SOCKET SCM_RIGHTS).length + (encFds fds).length := by rw [hh]
  rw [this, ← List.drop_drop, List.drop_left' rfl, List.drop_replicate, he]
  congr 3
  omega

/-! ### userland CMSG_NXTHDR against the kernel's `__cmsg_nxthdr`: only the trailing 16-byte slot differs -/

theorem trailing_slot_len (ctl off : Nat) (h : Hdr) (hoff : off + HDR = ctl) (hok : cmsgOk ctl off h = true) :
    h.len = HDR := by
  rw [cmsgOk_iff] at hok
  simp only [HDR] at *; omega

theorem rightsOf_append (mem : List Nat) (a b : List (Nat × Hdr)) :
    rightsOf mem (a ++ b) = rightsOf mem a ++ rightsOf mem b := by
  induction a with
  | nil => rfl
  | cons x t ih =>
    obtain ⟨o, h⟩ := x
    simp only [List.cons_append, rightsOf]
    split
    · rw [ih]; rfl
    · exact ih

/-- how the kernel's walk `wk` relates to the userland walk `wu` from the same offset -/
def SlotRel (ctl : Nat) (wu wk : List (Nat × Hdr) × Stop) : Prop :=
  wk = wu ∨
  (wu.2 = .done ∧ wk.2 = .done ∧ ∃ h', h'.len = HDR ∧ wk.1 = wu.1 ++ [(ctl - HDR, h')]) ∨
  (wu.2 = .done ∧ wk.1 = wu.1 ∧ ∃ h', wk.2 = .malformed (ctl - HDR) h')

theorem walk_slot (mem : List Nat) (ctl : Nat) (hmem : ctl ≤ mem.length) : ∀ (fuel off : Nat), off + HDR ≤ ctl →
    ctl - off < fuel → SlotRel ctl (wfWalk uNext fuel mem ctl off) (wfWalk kNext fuel mem ctl off) := by
  intro fuel
  induction fuel with
  | zero => intro off _ h; omega
  | succ fuel ih =>
    intro off hoff hf
    obtain ⟨h, hdec⟩ := decHdr_some (mem.drop off) (by simp only [List.length_drop]; omega)
    cases hok : cmsgOk ctl off h with
    | false => left; simp only [wfWalk, hdec, hok, Bool.false_eq_true, if_false]
    | true =>
      have hlen := (cmsgOk_iff ctl off h).mp hok
      have ha1 := align_ge h.len
      by_cases hc : ctl < off + cmsgAlign h.len + HDR
      · left
        have hu : uNext ctl off h = none := by simp only [uNext, if_pos (by omega : ctl ≤ off + cmsgAlign h.len + HDR)]
        have hk : kNext ctl off h = none := by simp only [kNext, if_pos hc]
        simp only [wfWalk, hdec, hok, hu, hk]
      · by_cases he : ctl = off + cmsgAlign h.len + HDR
        · -- the next header would sit in the trailing slot: userland stops, the kernel looks at it
          have hu : uNext ctl off h = none := by simp only [uNext, if_pos (by omega : ctl ≤ off + cmsgAlign h.len + HDR)]
          have hk : kNext ctl off h = some (ctl - HDR) := by
            simp only [kNext, if_neg hc]; congr 1; simp only [HDR] at *; omega
          obtain ⟨fuel, rfl⟩ : ∃ f, fuel = f + 1 := ⟨fuel - 1, by simp only [HDR] at *; omega⟩
          obtain ⟨h', hdec'⟩ := decHdr_some (mem.drop (ctl - HDR)) (by simp only [List.length_drop, HDR] at *; omega)
          cases hok' : cmsgOk ctl (ctl - HDR) h' with
          | false =>
            right; right
            simp only [wfWalk, hdec, hok, hu, hk, hdec', hok', if_true, Bool.false_eq_true, if_false]
            exact ⟨trivial, trivial, h', rfl⟩
          | true =>
            right; left
            have hl := trailing_slot_len ctl (ctl - HDR) h' (by simp only [HDR] at *; omega) hok'
            have hk' : kNext ctl (ctl - HDR) h' = none := by
              have := align_ge h'.len
              simp only [kNext, HDR] at *; rw [if_pos (by omega)]
            simp only [wfWalk, hdec, hok, hu, hk, hdec', hok', hk', if_true]
            exact ⟨trivial, trivial, h', hl, rfl⟩
        · have hu : uNext ctl off h = some (off + cmsgAlign h.len) := by simp only [uNext, if_neg (by omega : ¬ ctl ≤ off + cmsgAlign h.len + HDR)]
          have hk : kNext ctl off h = some (off + cmsgAlign h.len) := by simp only [kNext, if_neg hc]
          have hrec := ih (off + cmsgAlign h.len) (by omega) (by simp only [HDR] at *; omega)
          simp only [wfWalk, hdec, hok, hu, hk, if_true]
          generalize wfWalk uNext fuel mem ctl (off + cmsgAlign h.len) = wu at hrec ⊢
          generalize wfWalk kNext fuel mem ctl (off + cmsgAlign h.len) = wk at hrec ⊢
          rcases hrec with rfl | ⟨h1, h2, h', hl, h3⟩ | ⟨h1, h2, h', h3⟩
          · left; rfl
          · right; left; exact ⟨h1, h2, h', hl, by simp only [h3, List.cons_append]⟩
          · right; right; exact ⟨h1, by simp only [h2], h', h3⟩

/-! ### the send side is well-formed for the kernel and carries exactly the descriptors -/

theorem createSend_decHdr (fds : List Nat) (hn : 16 + 4 * fds.length < 256 ^ 8) :
    decHdr ((createSend fds).1.drop 0) = some ⟨16 + 4 * fds.length, SOL_SOCKET, SCM_RIGHTS⟩ := by
  rw [createSend_layout, List.drop_zero, len_eq, List.append_assoc]
  exact decHdr_enc _ _ _ _ (by simp only [HDR, FD]; exact hn) (by decide) (by decide)

theorem createSend_ctl (fds : List Nat) : (createSend fds).2 = cmsgAlign (16 + 4 * fds.length) := by
  rw [createSend_layout]; exact space_eq fds.length

theorem createSend_walk (next : Nat → Nat → Hdr → Option Nat) (fds : List Nat) (hn : 16 + 4 * fds.length < 256 ^ 8)
    (hnext : next (createSend fds).2 0 ⟨16 + 4 * fds.length, SOL_SOCKET, SCM_RIGHTS⟩ = none) :
    wfPrefix next (createSend fds).1 (createSend fds).2 = ([(0, ⟨16 + 4 * fds.length, SOL_SOCKET, SCM_RIGHTS⟩)], .done) := by
  have hc := createSend_ctl fds
  have ha := align_ge (16 + 4 * fds.length)
  have hok : cmsgOk (createSend fds).2 0 ⟨16 + 4 * fds.length, SOL_SOCKET, SCM_RIGHTS⟩ = true := by
    rw [cmsgOk_iff]; simp only [HDR]; omega
  simp only [wfPrefix]
  rw [if_neg (by simp only [HDR]; omega)]
  simp only [wfWalk, createSend_decHdr fds hn, hok, hnext, if_true]

theorem createSend_rights (fds : List Nat) (hf : ∀ f ∈ fds, f < 256 ^ 4) :
    rightsOf (createSend fds).1 [(0, ⟨16 + 4 * fds.length, SOL_SOCKET, SCM_RIGHTS⟩)] = [fds] := by
  have hr : isRights ⟨16 + 4 * fds.length, SOL_SOCKET, SCM_RIGHTS⟩ = true := by rw [isRights_iff]; exact ⟨rfl, rfl⟩
  simp only [rightsOf, hr, if_true]
  rw [createSend_layout, List.append_assoc, Nat.zero_add, List.drop_left' (encHdr_length _ _ _)]
  have : (16 + 4 * fds.length - HDR) / FD = fds.length := by simp only [HDR, FD]; omega
  rw [this, groups4_enc fds _ hf]

end TinyVerif.Cmsg
