/- helper lemmas for C16 part 3 (control messages) -/
import TinyVerif.Model.Cmsg
namespace TinyVerif.Cmsg

theorem le_length (k n : Nat) : (le k n).length = k := by
  induction k generalizing n with
  | zero => rfl
  | succ k ih => simp [le, ih]

theorem unle_le (k n : Nat) (h : n < 256 ^ k) : unle (le k n) = n := by
  induction k generalizing n with
  | zero => simp at h; simp [le, unle, h]
  | succ k ih =>
    simp only [le, unle]
    rw [ih (n / 256) (by rw [Nat.pow_succ] at h; omega)]
    omega

theorem align_ge (n : Nat) : n ≤ cmsgAlign n := by simp only [cmsgAlign]; omega
theorem align_lt (n : Nat) : cmsgAlign n < n + 8 := by simp only [cmsgAlign]; omega
theorem align_hdr : cmsgAlign HDR = 16 := by decide
theorem space_eq (n : Nat) : cmsgSpace (FD * n) = cmsgAlign (HDR + FD * n) := by
  simp only [cmsgSpace, cmsgAlign, HDR, FD]; omega
theorem len_eq (n : Nat) : cmsgLen (FD * n) = HDR + FD * n := by
  simp only [cmsgLen, cmsgAlign, HDR, FD]

theorem encFds_length (fds : List Nat) : (encFds fds).length = FD * fds.length := by
  induction fds with
  | nil => rfl
  | cons f t ih => simp only [encFds, List.length_append, le_length, ih, List.length_cons, FD]; omega

theorem encHdr_length (l a b : Nat) : (encHdr l a b).length = HDR := by
  simp [encHdr, le_length]

theorem decHdr_enc (l a b : Nat) (rest : List Nat) (hl : l < 256 ^ 8) (ha : a < 256 ^ 4) (hb : b < 256 ^ 4) :
    decHdr (encHdr l a b ++ rest) = some ⟨l, a, b⟩ := by
  have h8 := le_length 8 l
  have h4a := le_length 4 a
  have h4b := le_length 4 b
  have hlen : ¬ (encHdr l a b ++ rest).length < HDR := by
    simp only [encHdr, List.length_append, h8, h4a, h4b, HDR]; omega
  simp only [decHdr, if_neg hlen]
  have e1 : (encHdr l a b ++ rest).take 8 = le 8 l := by
    simp only [encHdr, List.append_assoc]; exact List.take_left' h8
  have e2 : (encHdr l a b ++ rest).drop 8 = le 4 a ++ (le 4 b ++ rest) := by
    simp only [encHdr, List.append_assoc]; exact List.drop_left' h8
  have e3 : (encHdr l a b ++ rest).drop 12 = le 4 b ++ rest := by
    have : encHdr l a b ++ rest = (le 8 l ++ le 4 a) ++ (le 4 b ++ rest) := by
      simp only [encHdr, List.append_assoc]
    rw [this]; exact List.drop_left' (by simp [h8, h4a])
  rw [e1, e2, e3, List.take_left' h4a, List.take_left' h4b]
  rw [unle_le 8 l hl, unle_le 4 a ha, unle_le 4 b hb]

theorem groups4_enc (fds rest : List Nat) (hf : ∀ f ∈ fds, f < 256 ^ 4) :
    groups4 fds.length (encFds fds ++ rest) = fds := by
  induction fds with
  | nil => rfl
  | cons f t ih =>
    have h4 := le_length 4 f
    simp only [List.length_cons, groups4, encFds, List.append_assoc]
    rw [List.take_left' h4, List.drop_left' h4]
    rw [unle_le 4 f (hf f (by simp)), ih (fun x hx => hf x (by simp [hx]))]


theorem kfill_facts (msgs : List (List Nat)) : ∀ (rem : Nat) (g : List Nat), rem ≤ g.length →
    (kfill msgs rem g).2 ≤ rem ∧ ((kfill msgs rem g).2 = 0 ∨ 20 ≤ (kfill msgs rem g).2) ∧
    ((kfill msgs rem g).2 = 0 → delivered msgs rem = []) ∧ (kfill msgs rem g).1.length = g.length := by
  induction msgs with
  | nil => intro rem g _; simp [kfill, delivered]
  | cons fds t ih =>
    intro rem g hg
    simp only [kfill, delivered]
    split
    · exact ih rem g hg
    · split
      · exact ih rem g hg
      · rename_i h16 hk
        simp only [HDR, FD] at h16 hk
        have hsp := align_ge (HDR + FD * min fds.length ((rem - HDR) / FD))
        rw [space_eq]
        simp only [HDR, FD] at hsp ⊢
        have hadv : min (cmsgAlign (16 + 4 * min fds.length ((rem - 16) / 4))) rem ≤ rem := Nat.min_le_right _ _
        have hadv20 : 20 ≤ min (cmsgAlign (16 + 4 * min fds.length ((rem - 16) / 4))) rem := by omega
        have := ih (rem - min (cmsgAlign (16 + 4 * min fds.length ((rem - 16) / 4))) rem)
          (g.drop (min (cmsgAlign (16 + 4 * min fds.length ((rem - 16) / 4))) rem)) (by simp; omega)
        obtain ⟨i1, i2, i3, i4⟩ := this
        refine ⟨by omega, by omega, by omega, ?_⟩
        simp only [List.length_append, encHdr_length, encFds_length, List.length_take, List.length_drop, i4, HDR, FD]
        omega


def FdsOk (msgs : List (List Nat)) : Prop := ∀ fds ∈ msgs, ∀ f ∈ fds, f < 256 ^ 4

theorem iter_kfill (msgs : List (List Nat)) : ∀ (rem : Nat) (g : List Nat) (fuel off : Nat),
    rem ≤ g.length → rem < 2 ^ 63 → FdsOk msgs →
    0 < (kfill msgs rem g).2 → (kfill msgs rem g).2 < fuel →
    (iterFrom fuel (off + (kfill msgs rem g).2) off (kfill msgs rem g).1).msgs = delivered msgs rem ∧
    (iterFrom fuel (off + (kfill msgs rem g).2) off (kfill msgs rem g).1).bad = none ∧
    ∀ x ∈ (iterFrom fuel (off + (kfill msgs rem g).2) off (kfill msgs rem g).1).reads,
      off ≤ x.1 ∧ x.1 + x.2 ≤ off + (kfill msgs rem g).2 := by
  induction msgs with
  | nil => intro rem g fuel off _ _ _ h; simp [kfill] at h
  | cons fds t ih =>
    intro rem g fuel off hg hrem hfd hpos hfuel
    have hfdt : FdsOk t := fun x hx => hfd x (by simp [hx])
    by_cases h16 : rem < HDR
    · have e1 : kfill (fds :: t) rem g = kfill t rem g := by simp only [kfill, if_pos h16]
      have e2 : delivered (fds :: t) rem = delivered t rem := by simp only [delivered, if_pos h16]
      rw [e1] at hpos hfuel ⊢; rw [e2]
      exact ih rem g fuel off hg hrem hfdt hpos hfuel
    · by_cases hk : min fds.length ((rem - HDR) / FD) = 0
      · have e1 : kfill (fds :: t) rem g = kfill t rem g := by simp only [kfill, if_neg h16, if_pos hk]
        have e2 : delivered (fds :: t) rem = delivered t rem := by simp only [delivered, if_neg h16, if_pos hk]
        rw [e1] at hpos hfuel ⊢; rw [e2]
        exact ih rem g fuel off hg hrem hfdt hpos hfuel
      · -- the message is written
        obtain ⟨k, hkd⟩ : ∃ k, k = min fds.length ((rem - HDR) / FD) := ⟨_, rfl⟩
        obtain ⟨adv, hadvd⟩ : ∃ adv, adv = min (cmsgSpace (FD * k)) rem := ⟨_, rfl⟩
        obtain ⟨pad, hpadd⟩ : ∃ pad, pad = (g.drop (HDR + FD * k)).take (adv - (HDR + FD * k)) := ⟨_, rfl⟩
        have hbody : (encHdr (cmsgLen (FD * k)) SOL_SOCKET SCM_RIGHTS ++ encFds (fds.take k)).length = HDR + FD * k := by
          simp only [List.length_append, encHdr_length, encFds_length, List.length_take]
          rw [hkd]; simp only [HDR, FD]; omega
        have e1 : kfill (fds :: t) rem g =
            (encHdr (cmsgLen (FD * k)) SOL_SOCKET SCM_RIGHTS ++ encFds (fds.take k) ++ pad ++ (kfill t (rem - adv) (g.drop adv)).1,
              adv + (kfill t (rem - adv) (g.drop adv)).2) := by
          simp only [kfill, if_neg h16, if_neg hk]
          rw [← hkd, ← hadvd, hbody, ← hpadd]
        have e2 : delivered (fds :: t) rem = fds.take k :: delivered t (rem - adv) := by
          simp only [delivered, if_neg h16, if_neg hk]; rw [← hkd, ← hadvd]
        simp only [HDR, FD] at h16 hk hkd
        have hk1 : 1 ≤ k := by omega
        have hkrem : 16 + 4 * k ≤ rem := by omega
        have hsp : cmsgSpace (FD * k) = cmsgAlign (16 + 4 * k) := by rw [space_eq]
        have hal := align_ge (16 + 4 * k)
        have hal2 := align_lt (16 + 4 * k)
        have hadv1 : 16 + 4 * k ≤ adv := by rw [hadvd, hsp]; omega
        have hadv2 : adv ≤ rem := by rw [hadvd]; exact Nat.min_le_right _ _
        have hadv3 : adv ≤ cmsgAlign (16 + 4 * k) := by rw [hadvd, hsp]; exact Nat.min_le_left _ _
        have hpadlen : pad.length = adv - (16 + 4 * k) := by
          rw [hpadd]; simp only [List.length_take, List.length_drop, HDR, FD]; omega
        obtain ⟨f1, f2, f3, f4⟩ := kfill_facts t (rem - adv) (g.drop adv) (by simp; omega)
        rw [e1] at hpos hfuel ⊢; rw [e2]
        simp only at hpos hfuel ⊢
        obtain ⟨r1, hr1⟩ : ∃ r1, r1 = (kfill t (rem - adv) (g.drop adv)).1 := ⟨_, rfl⟩
        obtain ⟨r2, hr2⟩ : ∃ r2, r2 = (kfill t (rem - adv) (g.drop adv)).2 := ⟨_, rfl⟩
        rw [← hr2] at hpos hfuel
        rw [← hr1, ← hr2]
        rw [← hr2] at f1 f2 f3
        obtain ⟨fuel', rfl⟩ : ∃ f', fuel = f' + 1 := ⟨fuel - 1, by omega⟩
        have hm : encHdr (cmsgLen (FD * k)) SOL_SOCKET SCM_RIGHTS ++ encFds (fds.take k) ++ pad ++ r1 =
            encHdr (cmsgLen (FD * k)) SOL_SOCKET SCM_RIGHTS ++ (encFds (fds.take k) ++ (pad ++ r1)) := by
          simp only [List.append_assoc]
        have hlen : cmsgLen (FD * k) = 16 + 4 * k := by rw [len_eq]
        have hdec := decHdr_enc (cmsgLen (FD * k)) SOL_SOCKET SCM_RIGHTS (encFds (fds.take k) ++ (pad ++ r1))
          (by rw [hlen]; omega) (by decide) (by decide)
        have htk : (fds.take k).length = k := by simp only [List.length_take]; omega
        have hdrop16 : (encHdr (cmsgLen (FD * k)) SOL_SOCKET SCM_RIGHTS ++ (encFds (fds.take k) ++ (pad ++ r1))).drop HDR =
            encFds (fds.take k) ++ (pad ++ r1) := List.drop_left' (encHdr_length _ _ _)
        have hgr : groups4 k (encFds (fds.take k) ++ (pad ++ r1)) = fds.take k := by
          have := groups4_enc (fds.take k) (pad ++ r1) (fun f hf => hfd fds (by simp) f (List.mem_of_mem_take hf))
          rw [htk] at this; exact this
        have hdropadv : (encHdr (cmsgLen (FD * k)) SOL_SOCKET SCM_RIGHTS ++ (encFds (fds.take k) ++ (pad ++ r1))).drop adv = r1 := by
          rw [← hm]
          exact List.drop_left' (by rw [List.length_append, hbody, hpadlen]; simp only [HDR, FD]; omega)
        rw [hm]
        rw [hlen] at hdec hdrop16 hdropadv
        have hn : (16 + 4 * k - HDR) / FD = k := by simp only [HDR, FD]; omega
        have hl16 : ¬ (16 + 4 * k < HDR) := by simp only [HDR]; omega
        have hdl : ¬ ((encFds (fds.take k) ++ (pad ++ r1)).length < FD * k) := by
          simp only [List.length_append, encFds_length, htk]; omega
        have hcond : (SCM_RIGHTS = SCM_RIGHTS ∧ SOL_SOCKET = SOL_SOCKET) := ⟨rfl, rfl⟩
        rcases f2 with f2 | f2
        · -- nothing follows: the iterator stops here
          have hnx : nxthdr (off + (adv + r2)) off ⟨16 + 4 * k, SOL_SOCKET, SCM_RIGHTS⟩ = .ok none := by
            simp only [nxthdr, if_neg hl16]
            rw [if_neg (by omega), if_pos (by simp only [HDR]; omega)]
          simp only [iterFrom, hlen, hdec, hdrop16, if_neg hl16, hn, if_neg hdl, hnx, hgr, f3 f2, and_self, ↓reduceIte]
          refine ⟨trivial, trivial, ?_⟩
          intro x hx
          simp only [List.mem_cons, List.not_mem_nil, or_false] at hx
          rcases hx with rfl | rfl <;> simp only [HDR, FD] <;> omega
        · -- a further message follows, exactly CMSG_SPACE further on
          have hadveq : adv = cmsgAlign (16 + 4 * k) := by
            rw [hadvd, hsp]; apply Nat.min_eq_left; omega
          have hnx : nxthdr (off + (adv + r2)) off ⟨16 + 4 * k, SOL_SOCKET, SCM_RIGHTS⟩ = .ok (some adv) := by
            simp only [nxthdr, if_neg hl16]
            rw [if_neg (by omega), if_neg (by simp only [HDR]; omega), hadveq]
          have := ih (rem - adv) (g.drop adv) fuel' (off + adv) (by simp; omega) (by omega) hfdt
            (by rw [← hr2]; omega) (by rw [← hr2]; omega)
          rw [← hr1, ← hr2] at this
          obtain ⟨i1, i2, i3⟩ := this
          have hoff : off + adv + r2 = off + (adv + r2) := by omega
          rw [hoff] at i1 i2 i3
          simp only [iterFrom, hlen, hdec, hdrop16, if_neg hl16, hn, if_neg hdl, hnx, hgr, hdropadv, i1, i2, and_self, ↓reduceIte]
          refine ⟨trivial, trivial, ?_⟩
          intro x hx
          simp only [List.mem_cons] at hx
          rcases hx with rfl | rfl | hx
          · simp only [HDR]; omega
          · simp only [HDR, FD]; omega
          · have := i3 x hx; omega

theorem createSend_layout (fds : List Nat) :
    createSend fds =
      (encHdr (cmsgLen (FD * fds.length)) SOL_SOCKET SCM_RIGHTS ++ encFds fds ++
        List.replicate (cmsgSpace (FD * fds.length) - (HDR + FD * fds.length)) 0, cmsgSpace (FD * fds.length)) := by
  have hh := encHdr_length (cmsgLen (FD * fds.length)) SOL_SOCKET SCM_RIGHTS
  have he := encFds_length fds
  have hsp : HDR + FD * fds.length ≤ cmsgSpace (FD * fds.length) := by
    rw [space_eq]; exact align_ge _
  simp only [createSend, writeAt, List.take_zero, List.nil_append, Nat.zero_add, hh, List.drop_replicate]
  rw [List.take_left' hh]
  have : HDR + (encFds fds).length = (encHdr (cmsgLen (FD * fds.length)) SOL_SOCKET SCM_RIGHTS).length + (encFds fds).length := by rw [hh]
  rw [this, ← List.drop_drop, List.drop_left' rfl, List.drop_replicate, he]
  congr 3
  omega

end TinyVerif.Cmsg
