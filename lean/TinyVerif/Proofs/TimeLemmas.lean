import TinyVerif.Model.Time
namespace TinyVerif.Time

@[simp] theorem bind_val {α β} (a : α) (f : α → R β) : (R.val a >>= f) = f a := rfl
@[simp] theorem bind_none {α β} (f : α → R β) : ((R.none : R α) >>= f) = R.none := rfl
@[simp] theorem bind_panic {α β} (f : α → R β) : ((R.panic : R α) >>= f) = R.panic := rfl
@[simp] theorem pure_eq {α} (a : α) : (pure a : R α) = R.val a := rfl

@[simp] theorem bind_ite {α β} (c : Prop) [Decidable c] (x y : R α) (f : α → R β) :
    ((if c then x else y) >>= f) = if c then (x >>= f) else (y >>= f) := by
  split <;> rfl

theorem plainI64_in (rel : Bool) (x : Int) (h : inI64 x) : plainI64 rel x = R.val x := by
  simp only [plainI64, if_pos h]

end TinyVerif.Time
