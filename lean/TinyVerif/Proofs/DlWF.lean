import TinyVerif.Model.DlmallocWF
import TinyVerif.Proofs.DlStep
/-! Consequences of the well-formedness predicate `WF` (`Model/DlmallocWF.lean`). -/
namespace TinyVerif.Dl

def WF (hs : Hist) : Prop := wfb hs = true

/-- the conjuncts of `WF`, unpacked -/
structure WFParts (hs : Hist) : Prop where
  ents : entsOk hs.st.h.ents = true
  shape : shapeOk hs.st.h.ents = true
  inSegs : (hs.st.h.ents.all fun e => hs.st.segs.any fun g => inSeg g e) = true
  tiles : (hs.st.segs.all fun g => tiles (segEnts hs.st.h.ents g) g.base (g.base + g.size)) = true
  tags : (hs.st.segs.all fun g => tagsOk hs.st.h.top true (segEnts hs.st.h.ents g)) = true
  freeList : freeListOk hs.st.h = true
  sbins : (decide (hs.st.h.sbins.length = 32) && sbinsFrom hs.st.h.ents 0 hs.st.h.sbins) = true
  tbins : (decide (hs.st.h.tbins.length = 32) && tbinsFrom hs.st.h.ents 0 hs.st.h.tbins) = true
  dv : dvOk hs.st.h = true
  top : topOk hs.st = true
  segs : segsOk hs.st = true
  live : liveOk hs = true

theorem WF.parts {hs : Hist} (h : WF hs) : WFParts hs := by
  unfold WF wfb wfParts at h
  simp only [List.all_cons, List.all_nil, Bool.and_true, Bool.and_eq_true] at h
  obtain ⟨h1, h2, h3, h4, h5, h6, h7, h8, h9, h10, h11, h12⟩ := h
  exact ⟨h1, h2, h3, h4, h5, h6, by simpa using h7, by simpa using h8, h9, h10, h11, h12⟩

theorem wf_init : WF Hist.init := by unfold WF; decide

/-! ### header table -/

theorem findEnt_some {es : List Ent} {a : Nat} {e : Ent} (h : findEnt es a = some e) : e ∈ es ∧ e.addr = a := by
  induction es with
  | nil => simp [findEnt] at h
  | cons x xs ih =>
    simp only [findEnt] at h
    split at h
    · rename_i hx
      injection h with h; subst h
      exact ⟨List.mem_cons_self, hx⟩
    · obtain ⟨h1, h2⟩ := ih h
      exact ⟨List.mem_cons_of_mem _ h1, h2⟩

theorem entsOk_tail {a : Ent} {es : List Ent} (h : entsOk (a :: es) = true) : entsOk es = true := by
  cases es with
  | nil => rfl
  | cons b rest =>
    simp only [entsOk, Bool.and_eq_true] at h
    exact h.2

theorem entsOk_head_le {es : List Ent} : ∀ {a : Ent}, entsOk (a :: es) = true → ∀ x ∈ es, a.addr + a.size ≤ x.addr := by
  induction es with
  | nil => intro a _ x hx; cases hx
  | cons b rest ih =>
    intro a h x hx
    simp only [entsOk, Bool.and_eq_true, decide_eq_true_eq] at h
    obtain ⟨⟨h1, _⟩, h3⟩ := h
    cases hx with
    | head => exact h1
    | tail _ hx' =>
      have := ih h3 x hx'
      omega

/-- in a well-formed table two headers at different addresses describe disjoint chunks -/
theorem entsOk_sep {es : List Ent} (h : entsOk es = true) :
    ∀ e1 ∈ es, ∀ e2 ∈ es, e1.addr < e2.addr → e1.addr + e1.size ≤ e2.addr := by
  induction es with
  | nil => intro e1 h1; cases h1
  | cons a rest ih =>
    intro e1 h1 e2 h2 hlt
    have hh := entsOk_head_le h
    cases h1 with
    | head =>
      cases h2 with
      | head => omega
      | tail _ h2' => exact hh e2 h2'
    | tail _ h1' =>
      cases h2 with
      | head => have := hh e1 h1'; omega
      | tail _ h2' => exact ih (entsOk_tail h) e1 h1' e2 h2' hlt

theorem tiles_start_le {xs : List Ent} : ∀ {a e : Nat}, tiles xs a e = true → a ≤ e := by
  induction xs with
  | nil => intro a e h; simp [tiles] at h
  | cons x xs ih =>
    intro a e h
    cases xs with
    | nil =>
      simp only [tiles, Bool.and_eq_true, Bool.or_eq_true, decide_eq_true_eq] at h
      omega
    | cons y rest =>
      simp only [tiles, Bool.and_eq_true, decide_eq_true_eq] at h
      have := ih h.2
      omega

/-- every chunk of a tiled segment lies inside the segment -/
theorem tiles_end {xs : List Ent} : ∀ {a e : Nat}, tiles xs a e = true → ∀ x ∈ xs, a ≤ x.addr ∧ x.addr + x.size ≤ e := by
  induction xs with
  | nil => intro a e _ x hx; cases hx
  | cons y ys ih =>
    intro a e h x hx
    cases ys with
    | nil =>
      simp only [tiles, Bool.and_eq_true, Bool.or_eq_true, decide_eq_true_eq] at h
      cases hx with
      | head => omega
      | tail _ hx' => cases hx'
    | cons z rest =>
      simp only [tiles, Bool.and_eq_true, decide_eq_true_eq] at h
      obtain ⟨⟨h1, _⟩, h2⟩ := h
      cases hx with
      | head => have := tiles_start_le h2; omega
      | tail _ hx' => have := ih h2 x hx'; omega

/-- a header that is not a trailer end (foot word / fencepost) is never the last header of its
segment: at least 8 more bytes of the segment follow the chunk -/
theorem tiles_not_last {xs : List Ent} : ∀ {a e : Nat}, tiles xs a e = true →
    ∀ x ∈ xs, isTrailerEnd x = false → x.addr + x.size + 8 ≤ e := by
  induction xs with
  | nil => intro a e _ x hx; cases hx
  | cons y ys ih =>
    intro a e h x hx hnt
    cases ys with
    | nil =>
      simp only [tiles, Bool.and_eq_true] at h
      cases hx with
      | head => rw [hnt] at h; exact absurd h.2 (by decide)
      | tail _ hx' => cases hx'
    | cons z rest =>
      simp only [tiles, Bool.and_eq_true, decide_eq_true_eq] at h
      obtain ⟨⟨h1, hz⟩, h2⟩ := h
      cases hx with
      | head =>
        have := tiles_end h2 z List.mem_cons_self
        omega
      | tail _ hx' => exact ih h2 x hx' hnt

/-- a user chunk (in use, at least MIN_CHUNK_SIZE) is never the last header of its segment -/
theorem tiles_user_not_last {xs : List Ent} {a e : Nat} (h : tiles xs a e = true)
    (x : Ent) (hx : x ∈ xs) (hc : x.cin = true) (hs : 32 ≤ x.size) : x.addr + x.size + 8 ≤ e := by
  refine tiles_not_last h x hx ?_
  unfold isTrailerEnd
  simp only [hc, Bool.not_true, Bool.false_and, Bool.false_or, decide_eq_false_iff_not]
  omega

theorem tagsOk_tail {top : Nat} {pc : Bool} {p : Ent} {rest : List Ent}
    (h : tagsOk top pc (p :: rest) = true) : tagsOk top p.cin rest = true := by
  cases rest with
  | nil => rfl
  | cons y r =>
    simp only [tagsOk, Bool.and_eq_true] at h
    exact h.2

/-- no two adjacent free chunks: in a tagged segment a free chunk other than `top` is followed by an
in-use chunk that carries its size -/
theorem tagsOk_adjacent {top : Nat} {pre : List Ent} : ∀ {pc : Bool} {x y : Ent} {post : List Ent},
    tagsOk top pc (pre ++ x :: y :: post) = true → isFree x = true → x.addr ≠ top →
    y.cin = true ∧ y.pfoot = x.size := by
  induction pre with
  | nil =>
    intro pc x y post h hf hne
    simp only [List.nil_append, tagsOk, hf, if_true, hne, if_false, Bool.and_eq_true, decide_eq_true_eq] at h
    exact ⟨h.1.2.1, h.1.2.2⟩
  | cons p ps ih =>
    intro pc x y post h hf hne
    exact ih (tagsOk_tail h) hf hne

/-! ### live blocks -/

theorem nodupB_map_inj {α : Type} (f : α → Nat) : ∀ (l : List α), nodupB (l.map f) = true →
    ∀ a ∈ l, ∀ b ∈ l, f a = f b → a = b ∨ False → a = b := by
  intro l _ a _ b _ _ h
  rcases h with h | h
  · exact h
  · exact absurd h id

theorem nodupB_map_ne (f : Block → Nat) : ∀ (l : List Block), nodupB (l.map f) = true →
    ∀ (pre mid post : List Block) (a b : Block), l = pre ++ a :: mid ++ b :: post → f a ≠ f b := by
  intro l
  induction l with
  | nil => intro _ pre mid post a b h; cases pre <;> simp at h
  | cons x xs ih =>
    intro hn pre mid post a b h
    simp only [List.map_cons, nodupB, Bool.and_eq_true, Bool.not_eq_true'] at hn
    cases pre with
    | nil =>
      simp only [List.nil_append, List.cons_append, List.cons.injEq] at h
      obtain ⟨h1, h2⟩ := h
      subst h1
      intro heq
      have : (xs.map f).contains (f b) = true := by
        rw [h2]
        simp [List.contains_iff_mem]
      rw [heq] at hn
      rw [this] at hn
      exact absurd hn.1 (by decide)
    | cons p ps =>
      simp only [List.cons_append, List.cons.injEq] at h
      exact ih hn.2 ps mid post a b (by simpa using h.2)

/-- what `liveOk` says about one live block -/
theorem live_block {hs : Hist} (h : WF hs) {b : Block} (hb : b ∈ hs.live) :
    ∃ e, findEnt hs.st.h.ents (b.ptr - 16) = some e ∧ e.cin = true ∧ b.size + 8 ≤ e.size ∧ 32 ≤ e.size ∧
      16 ≤ b.ptr ∧ 0 < b.align ∧ b.ptr % b.align = 0 := by
  have hl := h.parts.live
  unfold liveOk at hl
  simp only [Bool.and_eq_true, List.all_eq_true] at hl
  have := (hl.1.2 b hb).1
  unfold liveChunkOk at this
  split at this
  · rename_i e he
    simp only [Bool.and_eq_true, decide_eq_true_eq] at this
    exact ⟨e, he, this.2.1.1, this.2.1.2, this.2.2, this.1.1.1, this.1.1.2, this.1.2⟩
  · simp at this

/-- **alignment and size**: a live block is aligned as requested and lies inside the payload of an
in-use chunk (`chunk + 16 = ptr`, `ptr + size ≤ chunk + chunksize - 8 + 16`) -/
theorem live_aligned_sized {hs : Hist} (h : WF hs) {b : Block} (hb : b ∈ hs.live) :
    b.ptr % b.align = 0 ∧ ∃ e ∈ hs.st.h.ents, e.addr + 16 = b.ptr ∧ e.cin = true ∧ b.ptr + b.size ≤ e.addr + e.size + 8 := by
  obtain ⟨e, he, hc, hs1, _, h16, _, hal⟩ := live_block h hb
  obtain ⟨hm, ha⟩ := findEnt_some he
  exact ⟨hal, e, hm, by omega, hc, by omega⟩

/-- **disjointness**: two live blocks at different addresses do not overlap (not even their chunks) -/
theorem live_disjoint {hs : Hist} (h : WF hs) {b1 b2 : Block} (h1 : b1 ∈ hs.live) (h2 : b2 ∈ hs.live)
    (hne : b1.ptr ≠ b2.ptr) : b1.ptr + b1.size ≤ b2.ptr ∨ b2.ptr + b2.size ≤ b1.ptr := by
  obtain ⟨e1, he1, _, hs1, _, hp1, _, _⟩ := live_block h h1
  obtain ⟨e2, he2, _, hs2, _, hp2, _, _⟩ := live_block h h2
  obtain ⟨hm1, ha1⟩ := findEnt_some he1
  obtain ⟨hm2, ha2⟩ := findEnt_some he2
  have sep := entsOk_sep h.parts.ents
  rcases Nat.lt_or_gt_of_ne hne with hlt | hgt
  · left
    have := sep e1 hm1 e2 hm2 (by omega)
    omega
  · right
    have := sep e2 hm2 e1 hm1 (by omega)
    omega

/-- different live blocks have different addresses -/
theorem live_ptrs_distinct {hs : Hist} (h : WF hs) (pre mid post : List Block) (b1 b2 : Block)
    (hl : hs.live = pre ++ b1 :: mid ++ b2 :: post) : b1.ptr ≠ b2.ptr := by
  have hl' := h.parts.live
  unfold liveOk at hl'
  simp only [Bool.and_eq_true] at hl'
  exact nodupB_map_ne (·.ptr) hs.live hl'.1.1 pre mid post b1 b2 hl

/-- **bounds**: a live block lies inside one segment obtained from the OS -/
theorem live_inside_segment {hs : Hist} (h : WF hs) {b : Block} (hb : b ∈ hs.live) :
    ∃ g ∈ hs.st.segs, g.base + 16 ≤ b.ptr ∧ b.ptr + b.size ≤ g.base + g.size := by
  obtain ⟨e, he, hcin, hs1, h32, hp1, _, _⟩ := live_block h hb
  obtain ⟨hm, ha⟩ := findEnt_some he
  have hin := h.parts.inSegs
  simp only [List.all_eq_true, List.any_eq_true] at hin
  obtain ⟨g, hg, hge⟩ := hin e hm
  have ht := h.parts.tiles
  simp only [List.all_eq_true] at ht
  have hmem : e ∈ segEnts hs.st.h.ents g := by
    unfold segEnts
    exact List.mem_filter.2 ⟨hm, hge⟩
  obtain ⟨t1, _⟩ := tiles_end (ht g hg) e hmem
  have t2 := tiles_user_not_last (ht g hg) e hmem hcin h32
  refine ⟨g, hg, ?_, ?_⟩
  · omega
  · omega

/-- the direct-mmap branches are dead for live blocks: the chunk of a live block has CINUSE set, so
`Chunk::mmapped` is false for it (`free`, `realloc`, `calloc_must_clear`, `overhead_for`) -/
theorem never_mmapped {hs : Hist} (h : WF hs) {b : Block} (hb : b ∈ hs.live) :
    ∃ e, findEnt hs.st.h.ents (b.ptr - 16) = some e ∧ e.mmapped = false := by
  obtain ⟨e, he, hc, _⟩ := live_block h hb
  exact ⟨e, he, by simp [Ent.mmapped, hc]⟩

/-- in-use headers are accounted for: a live block, a pushed segment record, or a fencepost -/
theorem inuse_accounted {hs : Hist} (h : WF hs) {e : Ent} (he : e ∈ hs.st.h.ents) (hc : e.cin = true) :
    e.size = 8 ∨ isRecord hs.st.segs e = true ∨ ∃ b ∈ hs.live, b.ptr = e.addr + 16 := by
  have hl := h.parts.live
  unfold liveOk at hl
  simp only [Bool.and_eq_true, List.all_eq_true] at hl
  have := hl.2 e he
  simp only [hc, Bool.not_true, Bool.false_or, Bool.or_eq_true, decide_eq_true_eq, List.any_eq_true] at this
  rcases this with (h1 | h2) | ⟨b, hb, hp⟩
  · exact Or.inl h1
  · exact Or.inr (Or.inl h2)
  · exact Or.inr (Or.inr ⟨b, hb, hp⟩)

/-- free chunks are accounted for: every free header is `top`, `dv`, or sits in a bin — and in no
second place (`nodupB (freeList h)`) -/
theorem free_accounted {hs : Hist} (h : WF hs) {e : Ent} (he : e ∈ hs.st.h.ents) (hf : isFree e = true) :
    e.addr = hs.st.h.top ∨ e.addr = hs.st.h.dv ∨ e.addr ∈ binned hs.st.h := by
  have hl := h.parts.freeList
  unfold freeListOk at hl
  simp only [Bool.and_eq_true, List.all_eq_true] at hl
  have := hl.1.2 e he
  simp only [hf, Bool.not_true, Bool.false_or, List.contains_iff_mem] at this
  unfold freeList at this
  simp only [List.mem_append] at this
  rcases this with h1 | h2 | h3
  · left; split at h1 <;> simp_all
  · right; left; split at h2 <;> simp_all
  · exact Or.inr (Or.inr h3)

/-- full coalescing at quiescence: with no live block every in-use header is a segment record or a
fencepost, and (by `tagsOk_adjacent`) free chunks are never adjacent — so each stretch between
segment trailers is a single free chunk -/
theorem quiescent_canonical {hs : Hist} (h : WF hs) (hq : hs.live = []) {e : Ent} (he : e ∈ hs.st.h.ents)
    (hc : e.cin = true) : e.size = 8 ∨ isRecord hs.st.segs e = true := by
  rcases inuse_accounted h he hc with h1 | h2 | ⟨b, hb, _⟩
  · exact Or.inl h1
  · exact Or.inr h2
  · rw [hq] at hb; cases hb

/-! ### operations on named blocks -/

theorem step_malloc_live {hs hs' : Hist} {id size align : Nat} {os : List OsDir} {out : Out}
    (h : hs.step (.malloc id size align) os = .ok (hs', out)) :
    findBlock hs.live id = none ∧
    hs'.live = (if out.ptr ≠ 0 then { id := id, ptr := out.ptr, size := size, align := align } :: hs.live else hs.live) := by
  unfold Hist.step at h
  dsimp only at h
  msimp at h
  obtain ⟨_, hid, ⟨s1, p⟩, hm, _, _, h⟩ := h
  simp only [Prod.mk.injEq] at h
  obtain ⟨h, ho⟩ := h; subst h; subst ho
  refine ⟨?_, rfl⟩
  cases hf : findBlock hs.live id with
  | none => rfl
  | some b => rw [hf] at hid; simp at hid

theorem step_calloc_live {hs hs' : Hist} {id size align : Nat} {os : List OsDir} {out : Out}
    (h : hs.step (.calloc id size align) os = .ok (hs', out)) :
    findBlock hs.live id = none ∧
    hs'.live = (if out.ptr ≠ 0 then { id := id, ptr := out.ptr, size := size, align := align } :: hs.live else hs.live) := by
  unfold Hist.step at h
  dsimp only at h
  msimp at h
  obtain ⟨_, hid, ⟨s1, p, z⟩, hm, _, _, h⟩ := h
  simp only [Prod.mk.injEq] at h
  obtain ⟨h, ho⟩ := h; subst h; subst ho
  refine ⟨?_, rfl⟩
  cases hf : findBlock hs.live id with
  | none => rfl
  | some b => rw [hf] at hid; simp at hid

theorem step_realloc_live {hs hs' : Hist} {id newsize : Nat} {os : List OsDir} {out : Out}
    (h : hs.step (.realloc id newsize) os = .ok (hs', out)) :
    ∃ b, findBlock hs.live id = some b ∧
    hs'.live = (if out.ptr ≠ 0 then { b with ptr := out.ptr, size := newsize } :: hs.live.filter (fun x => x.id ≠ id)
                else hs.live) := by
  unfold Hist.step at h
  dsimp only at h
  split at h
  · msimp at h
  · rename_i b hb
    msimp at h
    obtain ⟨⟨s1, p, c⟩, hm, _, _, h⟩ := h
    simp only [Prod.mk.injEq] at h
    obtain ⟨h, ho⟩ := h; subst h; subst ho
    exact ⟨b, hb, rfl⟩

theorem step_free_live {hs hs' : Hist} {id : Nat} {os : List OsDir} {out : Out}
    (h : hs.step (.free id) os = .ok (hs', out)) :
    ∃ b, findBlock hs.live id = some b ∧ hs'.live = hs.live.filter (fun x => x.id ≠ id) := by
  unfold Hist.step at h
  dsimp only at h
  split at h
  · msimp at h
  · rename_i b hb
    msimp at h
    obtain ⟨s1, hm, _, _, h⟩ := h
    simp only [Prod.mk.injEq] at h
    obtain ⟨h, ho⟩ := h; subst h; subst ho
    exact ⟨b, hb, rfl⟩

/-- the copy a reallocation makes: none when the block stays in place (same address); otherwise
exactly one copy from the old block to the new one, never longer than the new size, and exactly
`min old_size new_size` bytes on the over-aligned path (on the ordinary path the length is
`min (old chunk payload) new_size`, read from the header after the allocation) -/
theorem realloc_copy {s s' : St} {ptr os oa ns p : Nat} {c : Option Copy}
    (h : realloc s ptr os oa ns = .ok (s', p, c)) (hp : p ≠ 0) :
    (c = none ∧ p = ptr) ∨
    (∃ len, c = some { src := ptr, dst := p, len := len } ∧ len ≤ ns ∧
      (oa > MALLOC_ALIGNMENT → len = min os ns)) := by
  unfold realloc at h
  split at h
  · unfold inner_realloc at h
    split at h
    · msimp at h
      simp only [Prod.mk.injEq] at h
      exact absurd h.2.1.symm hp
    · dsimp only at h
      msimp at h
      obtain ⟨_, _, r, hr, h⟩ := h
      split at h
      · msimp at h
        simp only [Prod.mk.injEq] at h
        obtain ⟨_, h2, h3⟩ := h
        exact Or.inl ⟨h3.symm, h2.symm⟩
      · msimp at h
        obtain ⟨⟨s1, p1⟩, hm, h⟩ := h
        dsimp only at h
        split at h
        · msimp at h
          obtain ⟨e, _, _, _, _, _, s2, hf, h⟩ := h
          simp only [Prod.mk.injEq] at h
          obtain ⟨_, h2, h3⟩ := h
          subst h2
          rename_i hle _
          exact Or.inr ⟨_, h3.symm, Nat.min_le_right _ _, fun hgt => absurd hle (by omega)⟩
        · msimp at h
          simp only [Prod.mk.injEq] at h
          exact absurd h.2.1.symm hp
  · rename_i hal
    msimp at h
    obtain ⟨⟨s1, p1⟩, hm, h⟩ := h
    dsimp only at h
    split at h
    · msimp at h
      obtain ⟨s2, hf, h⟩ := h
      simp only [Prod.mk.injEq] at h
      obtain ⟨_, h2, h3⟩ := h
      subst h2
      exact Or.inr ⟨_, h3.symm, Nat.min_le_right _ _, fun _ => rfl⟩
    · msimp at h
      simp only [Prod.mk.injEq] at h
      exact absurd h.2.1.symm hp

theorem calloc_zeroed {s s' : St} {size al p : Nat} {z : Bool} (h : calloc s size al = .ok (s', p, z)) (hp : p ≠ 0) :
    ∃ e, findEnt s'.h.ents (p - MEM_OFFSET) = some e ∧ z = !e.mmapped := by
  unfold calloc at h
  msimp at h
  obtain ⟨⟨s1, p1⟩, hm, h⟩ := h
  dsimp only at h
  split at h
  · msimp at h
    obtain ⟨_, _, e, he, h⟩ := h
    simp only [Prod.mk.injEq] at h
    obtain ⟨h1, h2, h3⟩ := h
    subst h1; subst h2
    unfold getE at he
    split at he
    · rename_i e' he'
      msimp at he
      subst he
      exact ⟨e', he', h3.symm⟩
    · msimp at he
  · msimp at h
    simp only [Prod.mk.injEq] at h
    exact absurd h.2.1.symm hp

/-- header words and the bodies of free chunks never lie inside a live block: the header word of
any chunk (`[addr+8, addr+16)`) and, for a free chunk, everything from its header on
(`[addr+8, addr+size)`: size word, bin links, tree fields) are disjoint from the bytes of every live
block.  (The `prev_foot` word `[addr, addr+8)` of the chunk after a live one does overlap the live
block's last bytes by design; the code writes it only when the predecessor is free.) -/
theorem metadata_outside_live {hs : Hist} (h : WF hs) {b : Block} (hb : b ∈ hs.live) {x : Ent}
    (hx : x ∈ hs.st.h.ents) :
    (x.addr + 16 ≤ b.ptr ∨ b.ptr + b.size ≤ x.addr + 8) ∧
    (isFree x = true → x.addr + x.size ≤ b.ptr ∨ b.ptr + b.size ≤ x.addr + 8) := by
  obtain ⟨e, he, hcin, hs1, h32, hp1, _, _⟩ := live_block h hb
  obtain ⟨hm, ha⟩ := findEnt_some he
  have sep := entsOk_sep h.parts.ents
  have hshape := h.parts.shape
  unfold shapeOk at hshape
  simp only [List.all_eq_true, Bool.or_eq_true, Bool.and_eq_true, decide_eq_true_eq] at hshape
  have hxs : 8 ≤ x.size := by
    rcases hshape x hx with h1 | h1
    · omega
    · omega
  rcases Nat.lt_trichotomy x.addr e.addr with hlt | heq | hgt
  · have := sep x hx e hm hlt
    exact ⟨Or.inl (by omega), fun _ => Or.inl (by omega)⟩
  · refine ⟨Or.inl (by omega), fun hf => ?_⟩
    -- same address: the same header, which is in use
    have hxe : x = e := by
      by_cases hne : x = e
      · exact hne
      · exfalso
        -- two different headers at one address contradict the strict ordering
        have key : ∀ (es : List Ent), entsOk es = true → ∀ u ∈ es, ∀ v ∈ es, u.addr = v.addr → u = v := by
          intro es
          induction es with
          | nil => intro _ u hu; cases hu
          | cons a rest ih =>
            intro hok u hu v hv huv
            have hh := entsOk_head_le hok
            have hpos : ∀ w ∈ a :: rest, 0 < w.size ∨ True := fun _ _ => Or.inr trivial
            cases hu with
            | head =>
              cases hv with
              | head => rfl
              | tail _ hv' =>
                have := hh v hv'
                have hapos : 0 < a.size := by
                  cases rest with
                  | nil => cases hv'
                  | cons r rs => simp only [entsOk, Bool.and_eq_true, decide_eq_true_eq] at hok; exact hok.1.2
                omega
            | tail _ hu' =>
              cases hv with
              | head =>
                have := hh u hu'
                have hapos : 0 < a.size := by
                  cases rest with
                  | nil => cases hu'
                  | cons r rs => simp only [entsOk, Bool.and_eq_true, decide_eq_true_eq] at hok; exact hok.1.2
                omega
              | tail _ hv' => exact ih (entsOk_tail hok) u hu' v hv' huv
        exact hne (key _ h.parts.ents x hx e hm heq)
    subst hxe
    simp [isFree, hcin] at hf
  · have := sep e hm x hx hgt
    exact ⟨Or.inr (by omega), fun _ => Or.inr (by omega)⟩

end TinyVerif.Dl
