/- Helper lemmas for C07: `match_up_to[_str]` compute the common-prefix length; one loop iteration of
`var_unix` / `var` decides "entry = key ++ '=' :: value". -/
import TinyVerif.Proofs.StartLemmas
import TinyVerif.Model.Env
namespace TinyVerif.Env
open TinyVerif.Start

/-- length of the longest common prefix -/
def lcpLen : Bytes → Bytes → Nat
  | a :: as, b :: bs => if a = b then lcpLen as bs + 1 else 0
  | _, _ => 0

theorem lcpLen_nil_right (a : Bytes) : lcpLen a [] = 0 := by cases a <;> rfl

theorem rdl_cons_succ (a : Nat) (s : Bytes) (i : Nat) : rdl (a :: s) (i + 1) = rdl s i := by
  simp [rdl]

theorem matchLoop_shift (a b : Nat) (s o : Bytes) : ∀ (f it : Nat),
    matchLoop (a :: s) (b :: o) f (it + 1) = (matchLoop s o f it).bind fun r => .ok (r + 1)
  | 0, _ => rfl
  | f + 1, it => by
    simp only [matchLoop, rdl_cons_succ]
    cases hs : rdl s it <;> simp only [R.bind_ok, R.bind_fault, R.bind_panic, R.bind_fuel]
    cases ho : rdl o it <;> simp only [R.bind_ok, R.bind_fault, R.bind_panic, R.bind_fuel]
    split
    · rfl
    · exact matchLoop_shift a b s o f (it + 1)

theorem matchLoop_eq : ∀ (k e : Bytes) (f : Nat), 0 ∉ k → k.length + 1 ≤ f →
    matchLoop (k ++ [0]) (e ++ [0]) f 0 = .ok (lcpLen k e)
  | [], e, f + 1, _, _ => by
    cases e <;> simp [matchLoop, rdl, lcpLen]
  | a :: k, [], f + 1, h0, _ => by
    have : a ≠ 0 := fun h => h0 (by simp [h])
    simp [matchLoop, rdl, lcpLen, this]
  | a :: k, b :: e, f + 1, h0, hf => by
    have ha : a ≠ 0 := fun h => h0 (by simp [h])
    have h0' : 0 ∉ k := fun h => h0 (by simp [h])
    by_cases hab : a = b
    · subst hab
      have ih := matchLoop_eq k e f h0' (by simp at hf; omega)
      have sh := matchLoop_shift a a (k ++ [0]) (e ++ [0]) f 0
      simp only [List.cons_append, matchLoop, rdl, List.getElem?_cons_zero, R.bind_ok, lcpLen, if_true]
      rw [if_neg (by simp [ha])]
      rw [sh, ih]; rfl
    · simp [matchLoop, rdl, lcpLen, hab]
  | _, _, 0, _, hf => by omega

theorem matchUpTo_eq (k e : Bytes) (h0 : 0 ∉ k) : matchUpTo (k ++ [0]) (e ++ [0]) = .ok (lcpLen k e) := by
  unfold matchUpTo
  exact matchLoop_eq k e _ h0 (by simp)

theorem matchStrLoop_shift (a b : Nat) (s o : Bytes) : ∀ (f it : Nat),
    matchStrLoop (a :: s) (b :: o) f (it + 1) = (matchStrLoop s o f it).bind fun r => .ok (r + 1)
  | 0, _ => rfl
  | f + 1, it => by
    simp only [matchStrLoop, rdl_cons_succ, List.length_cons, Nat.add_right_cancel_iff]
    split
    · rfl
    · cases hs : rdl s it <;> simp only [R.bind_ok, R.bind_fault, R.bind_panic, R.bind_fuel]
      cases ho : rdl o it <;> simp only [R.bind_ok, R.bind_fault, R.bind_panic, R.bind_fuel]
      split
      · rfl
      · exact matchStrLoop_shift a b s o f (it + 1)

theorem matchStrLoop_eq : ∀ (e k : Bytes) (f : Nat), 0 ∉ k → e.length + 1 ≤ f →
    matchStrLoop (e ++ [0]) k f 0 = .ok (lcpLen e k)
  | e, [], f + 1, _, _ => by simp [matchStrLoop, lcpLen_nil_right]
  | [], b :: k, f + 1, _, _ => by simp [matchStrLoop, rdl, lcpLen]
  | a :: e, b :: k, f + 1, h0, hf => by
    have hb : b ≠ 0 := fun h => h0 (by simp [h])
    have h0' : 0 ∉ k := fun h => h0 (by simp [h])
    by_cases hab : a = b
    · subst hab
      have ih := matchStrLoop_eq e k f h0' (by simp at hf; omega)
      have sh := matchStrLoop_shift a a (e ++ [0]) k f 0
      simp only [List.cons_append, matchStrLoop, rdl, List.getElem?_cons_zero, R.bind_ok, lcpLen, if_true]
      rw [if_neg (by simp), if_neg (by simp [hb])]
      rw [sh, ih]; rfl
    · simp [matchStrLoop, rdl, lcpLen, hab]
  | _, _, 0, _, hf => by omega

theorem matchUpToStr_eq (e k : Bytes) (h0 : 0 ∉ k) : matchUpToStr (e ++ [0]) k = .ok (lcpLen e k) := by
  unfold matchUpToStr
  exact matchStrLoop_eq e k _ h0 (by simp)

theorem lcpLen_comm : ∀ (a b : Bytes), lcpLen a b = lcpLen b a
  | [], b => by rw [lcpLen_nil_right]; cases b <;> rfl
  | _ :: _, [] => rfl
  | x :: a, y :: b => by
    simp only [lcpLen]
    by_cases h : x = y
    · subst h; simp [lcpLen_comm a b]
    · have : ¬ y = x := fun h' => h h'.symm
      simp [h, this]

theorem lcpLen_le : ∀ (a b : Bytes), lcpLen a b ≤ a.length
  | [], _ => by simp [lcpLen]
  | _ :: _, [] => by simp [lcpLen]
  | x :: a, y :: b => by
    simp only [lcpLen]; split
    · have := lcpLen_le a b; simp; omega
    · omega

/-- the common prefix is the whole key exactly when the key is a prefix of the entry -/
theorem lcpLen_eq_length : ∀ (k e : Bytes), lcpLen k e = k.length ↔ ∃ t, e = k ++ t
  | [], e => by simp [lcpLen]
  | x :: k, [] => by simp [lcpLen]
  | x :: k, y :: e => by
    simp only [lcpLen]
    by_cases h : x = y
    · subst h
      have ih := lcpLen_eq_length k e
      simp only [if_true, List.length_cons, Nat.add_right_cancel_iff, ih, List.cons_append, List.cons.injEq, true_and]
    · simp only [if_neg h, List.length_cons, List.cons_append, List.cons.injEq]
      constructor
      · intro h'; omega
      · rintro ⟨t, h1, _⟩; exact absurd h1.symm h

theorem nameOf_append : ∀ (key t : Bytes), EQ ∉ key → nameOf (key ++ EQ :: t) = key
  | [], t, _ => by simp [nameOf]
  | b :: key, t, hk => by
    have hb : b ≠ EQ := fun h => hk (by simp [h])
    have ih := nameOf_append key t (fun h => hk (by simp [h]))
    unfold nameOf at *
    simp only [List.cons_append, ne_eq, hb, not_false_eq_true, decide_true, List.takeWhile_cons_of_pos, List.cons.injEq, true_and]
    exact ih

theorem valueOf_eq : ∀ (key t : Bytes), EQ ∉ key → valueOf (key ++ EQ :: t) = t
  | [], t, _ => by simp [valueOf]
  | b :: key, t, hk => by
    have hb : b ≠ EQ := fun h => hk (by simp [h])
    have ih := valueOf_eq key t (fun h => hk (by simp [h]))
    unfold valueOf at *
    simp only [List.cons_append, ne_eq, hb, not_false_eq_true, decide_true, List.dropWhile_cons_of_pos]
    exact ih

theorem entry_split : ∀ (e : Bytes), EQ ∈ e → e = nameOf e ++ EQ :: valueOf e
  | [], h => by simp at h
  | b :: e, h => by
    by_cases hb : b = EQ
    · subst hb; simp [nameOf, valueOf]
    · have he : EQ ∈ e := by
        rcases List.mem_cons.1 h with h | h
        · exact absurd h.symm hb
        · exact h
      have ih := entry_split e he
      unfold nameOf valueOf at *
      simp only [ne_eq, hb, not_false_eq_true, decide_true, List.takeWhile_cons_of_pos, List.dropWhile_cons_of_pos, List.cons_append, List.cons.injEq, true_and]
      exact ih

/-- spec side: "has a '=' and the bytes before the first '=' are `key`" = "is `key ++ '=' :: value`" -/
theorem name_eq_iff (key e : Bytes) (hk : EQ ∉ key) :
    (EQ ∈ e ∧ nameOf e = key) ↔ ∃ t, e = key ++ EQ :: t := by
  constructor
  · rintro ⟨hin, hn⟩
    exact ⟨valueOf e, by rw [← hn]; exact entry_split e hin⟩
  · rintro ⟨t, rfl⟩
    exact ⟨by simp, nameOf_append key t hk⟩


theorem rdl_at_length (k t : Bytes) : rdl (k ++ t) k.length = rdl t 0 := by
  unfold rdl
  rw [List.getElem?_append_right (Nat.le_refl _), Nat.sub_self]

theorem drop_succ_length (k : Bytes) (b : Nat) (t : Bytes) : (k ++ b :: t).drop (k.length + 1) = t := by
  induction k with
  | nil => simp
  | cons x k ih => simp

/-- what one iteration of the (repaired) loops decides -/
def entrySpec (key e : Bytes) : Option Bytes :=
  if EQ ∈ e ∧ nameOf e = key then some (valueOf e) else none

theorem entry_core (key e : Bytes) (m : Nat) (hne : key ≠ []) (hq : EQ ∉ key)
    (hm : m = lcpLen key e) :
    (if m ≠ 0 ∧ m = key.length then
      (rdl (e ++ [0]) m).bind fun b => if b = EQ then R.ok (some (e.drop (m + 1))) else .ok none
     else R.ok none) = .ok (entrySpec key e) := by
  have hlen : key.length ≠ 0 := by cases key <;> simp_all
  unfold entrySpec
  by_cases hs : ∃ t, e = key ++ EQ :: t
  · obtain ⟨t, rfl⟩ := hs
    have hl : lcpLen key (key ++ EQ :: t) = key.length := (lcpLen_eq_length _ _).2 ⟨_, rfl⟩
    rw [if_pos ((name_eq_iff key _ hq).2 ⟨t, rfl⟩), valueOf_eq key t hq, hm, hl, if_pos ⟨hlen, rfl⟩]
    rw [List.append_assoc, rdl_at_length]
    simp [rdl]
  · rw [if_neg (fun h => hs ((name_eq_iff key e hq).1 h))]
    by_cases hl : lcpLen key e = key.length
    · obtain ⟨t, rfl⟩ := (lcpLen_eq_length _ _).1 hl
      rw [hm, hl, if_pos ⟨hlen, rfl⟩, List.append_assoc, rdl_at_length]
      cases t with
      | nil => simp [rdl]
      | cons b t =>
        have : b ≠ EQ := fun h => hs ⟨t, by rw [h]⟩
        simp [rdl, this]
    · rw [if_neg (by rw [hm]; exact fun h => hl h.2)]

theorem entryUnix_eq (key e : Bytes) (hne : key ≠ []) (h0 : 0 ∉ key) (hq : EQ ∉ key) :
    entryUnix key e = .ok (entrySpec key e) := by
  unfold entryUnix
  rw [matchUpTo_eq key e h0, R.bind_ok]
  have := entry_core key e (lcpLen key e) hne hq rfl
  simpa using this

theorem entryStr_eq (key e : Bytes) (hne : key ≠ []) (h0 : 0 ∉ key) (hq : EQ ∉ key) :
    entryStr key e = .ok (entrySpec key e) := by
  unfold entryStr
  rw [matchUpToStr_eq e key h0, R.bind_ok, lcpLen_comm]
  exact entry_core key e (lcpLen key e) hne hq rfl

end TinyVerif.Env
