import TinyVerif.Proofs.DlIndSpec
/-!
# Assembly of the inductiveness proof: entry points, `Hist.step`, `Hist.run`

(tag `as_`)
-/
namespace TinyVerif.Dl

/-! ## 0. states that `SInv` / `User` cannot tell apart -/

/-- `s'` agrees with `s` on everything `SInv` and `User` look at (they ignore the ghost fields, the OS
queue, `maxfp`, `trim_check`, `release_checks`) -/
def as_Same (s' s : St) : Prop :=
  SameHeap s'.h s.h ∧ s'.segs = s.segs ∧ s'.footprint = s.footprint ∧ s'.least_addr = s.least_addr

theorem as_Same.refl (s : St) : as_Same s s := ⟨⟨rfl, rfl, rfl, rfl, rfl, rfl, rfl⟩, rfl, rfl, rfl⟩

theorem as_sinv_same {s s' : St} (hi : SInv s) (h : as_Same s' s) : SInv s' := by
  obtain ⟨hh, hsegs, hfp, hla⟩ := h
  have hents : s'.h.ents = s.h.ents := hh.1
  refine ⟨hi.wfs.of_same hh hsegs hfp hla, ?_, ?_, ?_, ?_, ?_⟩
  rotate_left 3
  · intro g hg e he hb
    rw [hsegs] at hg
    rw [hents] at he
    exact hi.head g hg e he hb
  · intro g hg hne
    rw [hsegs] at hg
    exact hi.recin g hg hne
  · intro g hg hne
    rw [hsegs] at hg
    rw [hents]
    exact hi.recs g hg hne
  · intro pre x y post hes h8 ha
    rw [hents] at hes
    rw [hsegs]
    exact hi.fence pre x y post hes h8 ha
  · intro g hg hne e he hin
    rw [hsegs] at hg ⊢
    rw [hents] at he
    exact hi.tail g hg hne e he hin

theorem as_user_same {s s' : St} (hents : s'.h.ents = s.h.ents) (hsegs : s'.segs = s.segs) (a z : Nat) :
    User s' a z ↔ User s a z := by
  unfold User
  rw [hents, hsegs]

theorem as_sinv_tag {s : St} (hi : SInv s) (t : String) : SInv (s.tag t) := as_sinv_same hi (as_Same.refl s)

theorem as_sinv_start {hs : Hist} (hi : SInv hs.st) (os : List OsDir) : SInv (hs.start os) :=
  as_sinv_same hi (as_Same.refl hs.st)

theorem as_isRecord_addr (segs : List Seg) {e e' : Ent} (h : e.addr = e'.addr) : isRecord segs e = isRecord segs e' := by
  unfold isRecord
  rw [h]

/-- a user chunk is 16-aligned -/
theorem as_user_aligned {s : St} (hi : SInv s) {a z : Nat} (hu : User s a z) : a % 16 = 0 ∧ z % 16 = 0 ∧ 16 ≤ z := by
  obtain ⟨e, he, _, hz, h8, _⟩ := hu
  obtain ⟨hm, ha⟩ := findEnt_some he
  have := shapeOk_mem hi.wfs.shape hm
  subst hz; subst ha
  omega

/-! ## 1. algebra of the deltas -/

theorem as_sameUsers_refl (s : St) : SameUsers s s := fun _ _ => Iff.rfl

theorem as_sameUsers_trans {a b c : St} (h1 : SameUsers a b) (h2 : SameUsers b c) : SameUsers a c :=
  fun x z => (h2 x z).trans (h1 x z)

theorem as_alloc_weaken {s s' : St} {nb nb' mem : Nat} (h : Alloc s s' nb mem) (hle : nb' ≤ nb) : Alloc s s' nb' mem := by
  obtain ⟨h16, hmod, hnot, sz, hsz, hiff⟩ := h
  exact ⟨h16, hmod, hnot, sz, by omega, hiff⟩

theorem as_alloc_same {s s1 s2 : St} {nb mem : Nat} (h : Alloc s s1 nb mem) (h2 : SameUsers s1 s2) :
    Alloc s s2 nb mem := by
  obtain ⟨h16, hmod, hnot, sz, hsz, hiff⟩ := h
  exact ⟨h16, hmod, hnot, sz, hsz, fun a z => (h2 a z).trans (hiff a z)⟩

theorem as_freed_same {s s1 s2 : St} {mem : Nat} (h : Freed s s1 mem) (h2 : SameUsers s1 s2) : Freed s s2 mem :=
  fun a z => (h2 a z).trans (h a z)

/-- the new chunk of an `Alloc` is a user chunk afterwards, and the old user chunks stay -/
theorem as_alloc_new {s s' : St} {nb mem : Nat} (h : Alloc s s' nb mem) : ∃ z, nb ≤ z ∧ User s' (mem - 16) z := by
  obtain ⟨_, _, _, sz, hsz, hiff⟩ := h
  exact ⟨sz, hsz, (hiff _ _).2 (Or.inr ⟨rfl, rfl⟩)⟩

theorem as_alloc_old {s s' : St} {nb mem : Nat} (h : Alloc s s' nb mem) {a z : Nat} (hu : User s a z) : User s' a z := by
  obtain ⟨_, _, _, sz, hsz, hiff⟩ := h
  exact (hiff _ _).2 (Or.inl hu)

/-- `Alloc` of a chunk, then `Moved` of that chunk (memalign) -/
theorem as_alloc_moved {s s1 s2 : St} {nb1 nb mem mem' : Nat} (h : Alloc s s1 nb1 mem) (m : Moved s1 s2 mem mem' nb) :
    Alloc s s2 nb mem' := by
  obtain ⟨_, _, hnot, sz1, _, hiff1⟩ := h
  obtain ⟨h16', hmod', hnot', sz, hsz, hiff2⟩ := m
  refine ⟨h16', hmod', ?_, sz, hsz, ?_⟩
  · intro z hu
    by_cases hmm : mem' = mem
    · subst hmm; exact hnot z hu
    · exact hnot' hmm z ((hiff1 _ _).2 (Or.inl hu))
  · intro a z
    rw [hiff2 a z, hiff1 a z]
    constructor
    · rintro (⟨hu | ⟨ha, _⟩, hne⟩ | h)
      · exact Or.inl hu
      · exact absurd ha hne
      · exact Or.inr h
    · rintro (hu | h)
      · exact Or.inl ⟨Or.inl hu, fun ha => hnot z (ha ▸ hu)⟩
      · exact Or.inr h

/-- `Alloc` of a new chunk, then `Freed` of an old one (moving realloc) -/
theorem as_alloc_freed {s s1 s2 : St} {nb mem mem' : Nat} (h : Alloc s s1 nb mem') (f : Freed s1 s2 mem)
    (hu : ∃ z, User s (mem - 16) z) : Moved s s2 mem mem' nb := by
  obtain ⟨h16, hmod, hnot, sz, hsz, hiff1⟩ := h
  refine ⟨h16, hmod, fun _ => hnot, sz, hsz, ?_⟩
  intro a z
  rw [f a z, hiff1 a z]
  constructor
  · rintro ⟨hu | h, hne⟩
    · exact Or.inl ⟨hu, hne⟩
    · exact Or.inr h
  · rintro (⟨hu, hne⟩ | ⟨ha, hz⟩)
    · exact ⟨Or.inl hu, hne⟩
    · refine ⟨Or.inr ⟨ha, hz⟩, ?_⟩
      intro hc
      obtain ⟨z0, hu0⟩ := hu
      rw [← hc, ha] at hu0
      exact hnot z0 hu0

/-- a `Resized` chunk is a `Moved` one that stayed where it was -/
theorem as_resized_moved {s s' : St} {mem nb : Nat} (h : Resized s s' (mem - 16) nb) (h16 : 16 ≤ mem)
    (hmod : mem % 16 = 0) : Moved s s' mem mem nb := by
  obtain ⟨sz, hsz, hiff⟩ := h
  refine ⟨h16, hmod, fun h => absurd rfl h, sz, hsz, ?_⟩
  intro a z
  rw [hiff a z]
  constructor
  · rintro (⟨h1, h2⟩ | h)
    · exact Or.inl ⟨h2, h1⟩
    · exact Or.inr h
  · rintro (⟨h1, h2⟩ | h)
    · exact Or.inl ⟨h2, h1⟩
    · exact Or.inr h

/-! ## 2. the entry points

### deviation from `DlIndSpec.lean`
`sys_alloc_Spec`, `try_realloc_chunk_Spec` and `memalign_fix_Spec` ask for `NbOk nb`, which contains
`nb < 2 ^ 63`.  The entry-point interfaces (`inner_malloc_Spec`, `malloc_Spec`, `realloc_Spec`) carry no bound on
the request, and the model only rejects `size ≥ MAX_REQUEST = 2^64 - 65639`; so for
`2^63 ≤ nbOf size < MAX_REQUEST + 33` the callee specs cannot be used and the unprimed entry-point specs
are not derivable from them.  The primed versions below add exactly the missing fact as a hypothesis:
the padded size of the request passed to `inner_malloc` is below `2^63` (`as_BigOk`; implied by
`size + align + 128 ≤ 2^63`, `as_bigOk_of_le`, in particular by Rust's `Layout` invariant
`size ≤ isize::MAX - (align - 1)` up to the 128 bytes of padding). -/

/-- the padded size of the request `malloc size align` passes to `inner_malloc` fits in 63 bits -/
def as_BigOk (size align : Nat) : Prop := nbOf (reqOf size align) < 2 ^ 63

def inner_malloc_Spec' : Prop :=
  ∀ {s s' : St} (_ : SInv s) {size mem : Nat}, nbOf size < 2 ^ 63 → OsOk s (mapSize size) →
    inner_malloc s size = .ok (s', mem) →
    SInv s' ∧ (mem ≠ 0 → Alloc s s' (nbOf size) mem) ∧ (mem = 0 → SameUsers s s')

def malloc_Spec' : Prop :=
  ∀ {s s' : St} (_ : SInv s) {size k mem : Nat}, k ≤ 32 → as_BigOk size (2 ^ k) →
    OsOk s (mapSize (reqOf size (2 ^ k))) → malloc s size (2 ^ k) = .ok (s', mem) →
    SInv s' ∧ (mem ≠ 0 → mem % 2 ^ k = 0 ∧ Alloc s s' (request2size size) mem) ∧ (mem = 0 → SameUsers s s')

def realloc_Spec' : Prop :=
  ∀ {s s' : St} (_ : SInv s) {ptr osz k ns mem z : Nat} {c : Option Copy}, 16 ≤ ptr → User s (ptr - 16) z →
    k ≤ 32 → ptr % 2 ^ k = 0 → as_BigOk ns (2 ^ k) → OsOk s (mapSize (reqOf ns (2 ^ k))) →
    realloc s ptr osz (2 ^ k) ns = .ok (s', mem, c) →
    SInv s' ∧ (mem = 0 → SameUsers s s') ∧
    (mem ≠ 0 → mem % 2 ^ k = 0 ∧ Moved s s' ptr mem (request2size ns))

/-- `.needSys` is only answered for requests below `MAX_REQUEST` -/
theorem as_needSys_lt {h : Heap} {size n : Nat} (hh : malloc_nosys h size = .ok (.needSys n)) : size < MAX_REQUEST := by
  by_cases hs : size ≤ MAX_SMALL_REQUEST
  · rw [MAX_SMALL_REQUEST_eq] at hs; rw [MAX_REQUEST_eq]; omega
  · by_cases hlt : size < MAX_REQUEST
    · exact hlt
    · exfalso
      unfold malloc_nosys at hh
      dsimp only at hh
      rw [if_neg hs, if_pos (by omega)] at hh
      msimp at hh
      cases hh

theorem as_nbOk {size : Nat} (hlt : size < MAX_REQUEST) (hbig : nbOf size < 2 ^ 63) : NbOk (nbOf size) := by
  have h24 := lt_max_request_no_overflow size hlt
  rw [nbOf_eq] at hbig ⊢
  exact ⟨request2size_aligned size h24, request2size_ge_min size h24, hbig⟩

theorem as_inner_malloc_spec (hmn : malloc_nosys_Spec) (hsa : sys_alloc_Spec) : inner_malloc_Spec' := by
  intro s s' hi size mem hbig hos h
  unfold inner_malloc at h
  msimp at h
  obtain ⟨r, hr, h⟩ := h
  split at h
  · msimp at h
    simp only [Prod.mk.injEq] at h
    obtain ⟨h1, h2⟩ := h
    subst h1; subst h2
    obtain ⟨hi', ha⟩ := hmn hi hr
    exact ⟨hi', fun _ => ha, fun h0 => absurd h0 (by have := ha.1; omega)⟩
  · msimp at h
    simp only [Prod.mk.injEq] at h
    obtain ⟨h1, h2⟩ := h
    subst h1; subst h2
    exact ⟨hi, fun h => absurd rfl h, fun _ => as_sameUsers_refl s⟩
  · obtain ⟨hn, _, _⟩ := malloc_nosys_needSys hr
    subst hn
    exact hsa hi (as_nbOk (as_needSys_lt hr) hbig) hos h

theorem as_free_spec (hfh : free_heap_Spec) (hst : sys_trim_Spec) (hru : release_unused_segments_Spec) : free_Spec := by
  intro s s' hi mem h16 hu h
  unfold free at h
  msimp at h
  obtain ⟨⟨h1, t⟩, hfree, h⟩ := h
  obtain ⟨hi1, hfr, _⟩ := hfh hi h16 hu hfree
  dsimp only at h
  split at h
  · msimp at h
    subst h
    exact ⟨hi1, hfr⟩
  · split at h
    · msimp at h
      obtain ⟨⟨s2, b⟩, htrim, h⟩ := h
      dsimp only at h
      subst h
      obtain ⟨hi2, hsu⟩ := hst hi1 htrim
      exact ⟨hi2, as_freed_same hfr hsu⟩
    · msimp at h
      subst h
      exact ⟨hi1, hfr⟩
  · msimp at h
    obtain ⟨_, _, h⟩ := h
    split at h
    · msimp at h
      obtain ⟨⟨s2, b⟩, hrel, h⟩ := h
      dsimp only at h
      subst h
      have hi1' : SInv ({ { s with h := h1 } with release_checks := s.release_checks - 1 }.tag "release-check") :=
        as_sinv_same hi1 (as_Same.refl _)
      obtain ⟨hi2, hsu⟩ := hru hi1' hrel
      exact ⟨hi2, as_freed_same hfr hsu⟩
    · msimp at h
      subst h
      exact ⟨as_sinv_same hi1 (as_Same.refl _), hfr⟩

theorem as_pow_le16 {k : Nat} (h : 2 ^ k ≤ 16) : k ≤ 4 := by
  by_cases h5 : k ≤ 4
  · exact h5
  · exfalso
    have : 2 ^ 5 ≤ 2 ^ k := Nat.pow_le_pow_right (by decide) (by omega)
    omega

theorem as_pow_gt16 {k : Nat} (h : ¬ 2 ^ k ≤ 16) : 5 ≤ k ∧ 32 ≤ 2 ^ k := by
  by_cases h5 : 5 ≤ k
  · exact ⟨h5, show 2 ^ 5 ≤ 2 ^ k from Nat.pow_le_pow_right (by decide) h5⟩
  · exfalso
    have : 2 ^ k ≤ 2 ^ 4 := Nat.pow_le_pow_right (by decide) (by omega)
    omega

/-- a 16-aligned address is aligned for every smaller power of two -/
theorem as_mod_pow_of_16 {k m : Nat} (hk : k ≤ 4) (hm : m % 16 = 0) : m % 2 ^ k = 0 := by
  have hd : 2 ^ k ∣ 2 ^ 4 := Nat.pow_dvd_pow 2 hk
  exact Nat.mod_eq_zero_of_dvd (Nat.dvd_trans hd (Nat.dvd_of_mod_eq_zero hm))

theorem as_osOk_same {s s' : St} {len : Nat} (h : OsOk s len) (hq : s'.osq = s.osq) (hsegs : s'.segs = s.segs) :
    OsOk s' len := by
  intro tbase q hq'
  rw [hq] at hq'
  have := h tbase q hq'
  unfold OsFresh at this ⊢
  rw [hsegs]
  exact this

theorem as_malloc_spec (him : inner_malloc_Spec') (hmf : memalign_fix_Spec) : malloc_Spec' := by
  intro s s' hi size k mem hk hbig hos h
  unfold as_BigOk at hbig
  unfold malloc at h
  split at h
  · rename_i hal
    rw [MALLOC_ALIGNMENT_eq] at hal
    have hreq : reqOf size (2 ^ k) = size := by unfold reqOf; rw [MALLOC_ALIGNMENT_eq, if_pos hal]
    rw [hreq] at hbig hos
    obtain ⟨hi', ha, hz⟩ := him hi hbig hos h
    refine ⟨hi', fun hne => ?_, hz⟩
    have ha := ha hne
    rw [nbOf_eq] at ha
    exact ⟨as_mod_pow_of_16 (as_pow_le16 hal) ha.2.1, ha⟩
  · rename_i hal
    rw [MALLOC_ALIGNMENT_eq] at hal
    obtain ⟨hk5, h32⟩ := as_pow_gt16 hal
    have hreq : reqOf size (2 ^ k) = request2size size + 2 ^ k + 32 - 8 := by
      unfold reqOf memalignReq; rw [MALLOC_ALIGNMENT_eq, if_neg hal, MIN_CHUNK_SIZE_eq, CHUNK_OVERHEAD_eq]
    rw [hreq] at hbig hos
    unfold memalign at h
    rw [if_neg (by rw [MIN_CHUNK_SIZE_eq]; omega)] at h
    unfold memalign_body at h
    rw [MIN_CHUNK_SIZE_eq, CHUNK_OVERHEAD_eq] at h
    msimp at h
    obtain ⟨_, hmax, h⟩ := h
    split at h
    · msimp at h
      simp only [Prod.mk.injEq] at h
      obtain ⟨h1, h2⟩ := h
      subst h1; subst h2
      exact ⟨hi, fun h => absurd rfl h, fun _ => as_sameUsers_refl s⟩
    · rename_i hlt
      msimp at h
      obtain ⟨⟨s1, mem0⟩, him0, h⟩ := h
      dsimp only at h
      obtain ⟨hi1, ha1, hz1⟩ := him (as_sinv_tag hi "memalign") hbig (as_osOk_same hos rfl rfl) him0
      split at h
      · rename_i h0
        msimp at h
        simp only [Prod.mk.injEq] at h
        obtain ⟨h1, h2⟩ := h
        subst h1; subst h2
        exact ⟨hi1, fun h => absurd rfl h, fun _ => hz1 h0⟩
      · rename_i h0
        msimp at h
        obtain ⟨⟨h2, mem2⟩, hfix, h⟩ := h
        simp only [Prod.mk.injEq] at h
        obtain ⟨e1, e2⟩ := h
        subst e1; subst e2
        have ha1 : Alloc s s1 _ mem0 := ha1 h0
        obtain ⟨z, hz, hu⟩ := as_alloc_new ha1
        have hreqlt := inner_malloc_lt_max him0 h0
        have hreq24 := lt_max_request_no_overflow _ hreqlt
        have hge := request2size_ge _ hreq24
        rw [nbOf_eq] at hz hbig
        have hszlt : size < MAX_REQUEST := by
          rw [MAX_REQUEST_eq] at hlt hmax ⊢
          simp only [decide_eq_false_iff_not, Nat.not_lt, ge_iff_le, Nat.not_le] at hlt hmax
          omega
        have hs24 := lt_max_request_no_overflow size hszlt
        have hnb : NbOk (request2size size) := by
          refine ⟨request2size_aligned size hs24, request2size_ge_min size hs24, ?_⟩
          omega
        have hzz : request2size size + 2 ^ k + 24 ≤ z := by
          omega
        obtain ⟨hi2, hmod, _, _, hmv⟩ := hmf hi1 ha1.1 hu hnb hk5 hk hzz hfix
        exact ⟨hi2, fun _ => ⟨hmod, as_alloc_moved ha1 hmv⟩, fun h => absurd h (by have := hmv.1; omega)⟩

theorem as_inner_realloc (htr : try_realloc_chunk_Spec) (him : inner_malloc_Spec') (hfs : free_Spec)
    {s s' : St} (hi : SInv s) {ptr ns mem z : Nat} {c : Option Copy} (h16 : 16 ≤ ptr) (hu : User s (ptr - 16) z)
    (hbig : nbOf ns < 2 ^ 63) (hos : OsOk s (mapSize ns)) (h : inner_realloc s ptr ns = .ok (s', mem, c)) :
    SInv s' ∧ (mem = 0 → SameUsers s s') ∧ (mem ≠ 0 → Moved s s' ptr mem (request2size ns)) := by
  unfold inner_realloc at h
  split at h
  · msimp at h
    simp only [Prod.mk.injEq] at h
    obtain ⟨h1, h2, _⟩ := h
    subst h1; subst h2
    exact ⟨hi, fun _ => as_sameUsers_refl s, fun h => absurd rfl h⟩
  · rename_i hlt
    have hlt : ns < MAX_REQUEST := by omega
    dsimp only at h
    msimp at h
    obtain ⟨_, _, r, hr, h⟩ := h
    rw [MEM_OFFSET_eq] at hr h
    split at h
    · rename_i h'
      msimp at h
      simp only [Prod.mk.injEq] at h
      obtain ⟨h1, h2, _⟩ := h
      subst h1; subst h2
      have hnb : NbOk (request2size ns) := by rw [← nbOf_eq]; exact as_nbOk hlt hbig
      obtain ⟨hi', hrs⟩ := htr hi hu hnb hr
      have hal := (as_user_aligned hi hu).1
      exact ⟨hi', fun h0 => by omega, fun _ => as_resized_moved hrs h16 (by omega)⟩
    · msimp at h
      obtain ⟨⟨s1, p1⟩, him0, h⟩ := h
      dsimp only at h
      obtain ⟨hi1, ha1, hz1⟩ := him (as_sinv_tag hi "realloc-move") hbig (as_osOk_same hos rfl rfl) him0
      split at h
      · rename_i hp1
        msimp at h
        obtain ⟨e, _, _, _, _, _, s2, hf, h⟩ := h
        simp only [Prod.mk.injEq] at h
        obtain ⟨e1, e2, _⟩ := h
        subst e1; subst e2
        have ha1 : Alloc s s1 _ p1 := ha1 hp1
        rw [nbOf_eq] at ha1
        obtain ⟨hi2, hfr⟩ := hfs hi1 h16 ⟨z, as_alloc_old ha1 hu⟩ hf
        exact ⟨hi2, fun h0 => absurd h0 hp1, fun _ => as_alloc_freed ha1 hfr ⟨z, hu⟩⟩
      · rename_i hp1
        msimp at h
        simp only [Prod.mk.injEq] at h
        obtain ⟨e1, e2, _⟩ := h
        subst e1; subst e2
        exact ⟨hi1, fun _ => hz1 (by omega), fun h => absurd rfl h⟩

theorem as_realloc_spec (htr : try_realloc_chunk_Spec) (him : inner_malloc_Spec') (hfs : free_Spec)
    (hms : malloc_Spec') : realloc_Spec' := by
  intro s s' hi ptr osz k ns mem z c h16 hu hk hmodp hbig hos h
  have hal16 := (as_user_aligned hi hu).1
  unfold realloc at h
  split at h
  · rename_i hal
    rw [MALLOC_ALIGNMENT_eq] at hal
    have hreq : reqOf ns (2 ^ k) = ns := by unfold reqOf; rw [MALLOC_ALIGNMENT_eq, if_pos hal]
    unfold as_BigOk at hbig
    rw [hreq] at hbig hos
    obtain ⟨hi', hz, hmv⟩ := as_inner_realloc htr him hfs hi h16 hu hbig hos h
    refine ⟨hi', hz, fun hne => ⟨?_, hmv hne⟩⟩
    exact as_mod_pow_of_16 (as_pow_le16 hal) (hmv hne).2.1
  · msimp at h
    obtain ⟨⟨s1, p1⟩, hmal, h⟩ := h
    dsimp only at h
    obtain ⟨hi1, ha1, hz1⟩ := hms (as_sinv_tag hi "realloc-overaligned") hk hbig (as_osOk_same hos rfl rfl) hmal
    split at h
    · rename_i hp1
      msimp at h
      obtain ⟨s2, hf, h⟩ := h
      simp only [Prod.mk.injEq] at h
      obtain ⟨e1, e2, _⟩ := h
      subst e1; subst e2
      obtain ⟨hmod, ha1⟩ := ha1 hp1
      have ha1 : Alloc s s1 _ p1 := ha1
      obtain ⟨hi2, hfr⟩ := hfs hi1 h16 ⟨z, as_alloc_old ha1 hu⟩ hf
      exact ⟨hi2, fun h0 => absurd h0 hp1, fun _ => ⟨hmod, as_alloc_freed ha1 hfr ⟨z, hu⟩⟩⟩
    · rename_i hp1
      msimp at h
      simp only [Prod.mk.injEq] at h
      obtain ⟨e1, e2, _⟩ := h
      subst e1; subst e2
      exact ⟨hi1, fun _ => hz1 (by omega), fun h => absurd rfl h⟩

/-- `calloc` = `malloc` + a read of the header just written -/
theorem as_calloc_malloc {s s' : St} {size al mem : Nat} {zd : Bool} (h : calloc s size al = .ok (s', mem, zd)) :
    malloc s size al = .ok (s', mem) := by
  unfold calloc at h
  msimp at h
  obtain ⟨⟨s1, p1⟩, hmal, h⟩ := h
  dsimp only at h
  split at h
  · msimp at h
    mlast h
    simp only [Prod.mk.injEq] at h
    obtain ⟨e1, e2, _⟩ := h
    subst e1; subst e2
    exact hmal
  · rename_i hp
    msimp at h
    simp only [Prod.mk.injEq] at h
    obtain ⟨e1, e2, _⟩ := h
    subst e1; subst e2
    have : p1 = 0 := by omega
    subst this
    exact hmal

/-! ## 3. `liveOk` = "the live blocks are the user chunks" -/

/-- what `liveOk` says, in terms of `User` -/
structure as_LiveOn (s : St) (live : List Block) : Prop where
  nodup : (live.map (·.ptr)).Nodup
  blocks : ∀ b ∈ live, 16 ≤ b.ptr ∧ 0 < b.align ∧ b.ptr % b.align = 0 ∧
    ∃ z, User s (b.ptr - 16) z ∧ b.size + 8 ≤ z ∧ 32 ≤ z
  cover : ∀ a z, User s a z → ∃ b ∈ live, b.ptr = a + 16

theorem as_liveOk_iff {hs : Hist} (hok : entsOk hs.st.h.ents = true) :
    liveOk hs = true ↔ as_LiveOn hs.st hs.live := by
  unfold liveOk
  simp only [Bool.and_eq_true, List.all_eq_true, Bool.or_eq_true, Bool.not_eq_true', decide_eq_true_eq,
    List.any_eq_true, nodupB_iff_nodup]
  constructor
  · rintro ⟨⟨h1, h2⟩, h3⟩
    refine ⟨h1, ?_, ?_⟩
    · intro b hb
      obtain ⟨hb1, hb2⟩ := h2 b hb
      unfold liveChunkOk at hb1
      split at hb1
      · rename_i e he
        simp only [Bool.and_eq_true, decide_eq_true_eq] at hb1
        obtain ⟨⟨⟨p1, p2⟩, p3⟩, ⟨p4, p5⟩, p6⟩ := hb1
        refine ⟨p1, p2, p3, e.size, ⟨e, he, p4, rfl, by omega, ?_⟩, p5, p6⟩
        rw [← hb2]
        exact as_isRecord_addr _ (findEnt_some he).2
      · simp at hb1
    · rintro a z ⟨e, he, hc, hz, h8, hrec⟩
      obtain ⟨hm, ha⟩ := findEnt_some he
      rcases h3 e hm with ((h | h) | h) | ⟨b, hb, hbp⟩
      · rw [hc] at h; cases h
      · omega
      · rw [hrec] at h; cases h
      · exact ⟨b, hb, by omega⟩
  · rintro ⟨h1, h2, h3⟩
    refine ⟨⟨h1, ?_⟩, ?_⟩
    · intro b hb
      obtain ⟨p1, p2, p3, z, ⟨e, he, hc, hz, h8, hrec⟩, p5, p6⟩ := h2 b hb
      constructor
      · unfold liveChunkOk
        rw [he]
        simp only [Bool.and_eq_true, decide_eq_true_eq]
        exact ⟨⟨⟨p1, p2⟩, p3⟩, ⟨hc, by omega⟩, by omega⟩
      · rw [← hrec]
        exact as_isRecord_addr _ (findEnt_some he).2.symm
    · intro e he
      cases hc : e.cin with
      | false => exact Or.inl (Or.inl (Or.inl rfl))
      | true =>
        by_cases h8 : e.size = 8
        · exact Or.inl (Or.inl (Or.inr h8))
        · cases hrec : isRecord hs.st.segs e with
          | true => exact Or.inl (Or.inr rfl)
          | false =>
            obtain ⟨b, hb, hbp⟩ := h3 e.addr e.size ⟨e, entsOk_find e he hok, hc, rfl, h8, hrec⟩
            exact Or.inr ⟨b, hb, hbp⟩

theorem as_liveOn_same {s s' : St} {live : List Block} (h : as_LiveOn s live) (hsu : SameUsers s s') :
    as_LiveOn s' live := by
  refine ⟨h.nodup, ?_, ?_⟩
  · intro b hb
    obtain ⟨p1, p2, p3, z, hu, p5, p6⟩ := h.blocks b hb
    exact ⟨p1, p2, p3, z, (hsu _ _).2 hu, p5, p6⟩
  · intro a z hu
    exact h.cover a z ((hsu _ _).1 hu)

theorem as_liveOn_alloc {s s' : St} {live : List Block} (h : as_LiveOn s live) {nb mem : Nat} (ha : Alloc s s' nb mem)
    {id size align : Nat} (hsz : size + 8 ≤ nb) (h32 : 32 ≤ nb) (hal : 0 < align) (hmod : mem % align = 0) :
    as_LiveOn s' ({ id := id, ptr := mem, size := size, align := align } :: live) := by
  obtain ⟨h16, _, hnot, sz, hsz', hiff⟩ := ha
  refine ⟨?_, ?_, ?_⟩
  · simp only [List.map_cons, List.nodup_cons]
    refine ⟨?_, h.nodup⟩
    intro hm
    obtain ⟨b, hb, hbp⟩ := List.mem_map.1 hm
    obtain ⟨_, _, _, z, hu, _⟩ := h.blocks b hb
    rw [hbp] at hu
    exact hnot z hu
  · intro b hb
    rcases List.mem_cons.1 hb with rfl | hb
    · exact ⟨h16, hal, hmod, sz, (hiff _ _).2 (Or.inr ⟨rfl, rfl⟩), by simp only; omega, by omega⟩
    · obtain ⟨p1, p2, p3, z, hu, p5, p6⟩ := h.blocks b hb
      exact ⟨p1, p2, p3, z, (hiff _ _).2 (Or.inl hu), p5, p6⟩
  · intro a z hu
    rcases (hiff a z).1 hu with hu | ⟨ha, _⟩
    · obtain ⟨b, hb, hbp⟩ := h.cover a z hu
      exact ⟨b, List.mem_cons_of_mem _ hb, hbp⟩
    · exact ⟨_, List.mem_cons_self, by simp only; omega⟩

/-! ### the history-level bookkeeping: ids -/

/-- block ids are unique (`Hist.step` rejects an allocation under an id in use) -/
def as_UniqIds (live : List Block) : Prop := (live.map (·.id)).Nodup

/-- every recorded alignment is a power of two `≤ 2^32` (blocks are only created by `malloc` / `calloc` steps,
for which `OpOk` demands it; `realloc` keeps the alignment) -/
def as_AlignOk (live : List Block) : Prop := ∀ b ∈ live, ∃ k, k ≤ 32 ∧ b.align = 2 ^ k

theorem as_nodup_map_inj {f : Block → Nat} : ∀ {l : List Block}, (l.map f).Nodup →
    ∀ a ∈ l, ∀ b ∈ l, f a = f b → a = b := by
  intro l
  induction l with
  | nil => intro _ a ha; cases ha
  | cons x xs ih =>
    intro hn a ha b hb hab
    simp only [List.map_cons, List.nodup_cons] at hn
    rcases List.mem_cons.1 ha with ha' | ha' <;> rcases List.mem_cons.1 hb with hb' | hb'
    · rw [ha', hb']
    · subst ha'
      exact absurd (List.mem_map.2 ⟨b, hb', hab.symm⟩) hn.1
    · subst hb'
      exact absurd (List.mem_map.2 ⟨a, ha', hab⟩) hn.1
    · exact ih hn.2 a ha' b hb' hab

theorem as_findBlock_some {live : List Block} {id : Nat} {b : Block} (h : findBlock live id = some b) :
    b ∈ live ∧ b.id = id := by
  unfold findBlock at h
  exact ⟨List.mem_of_find?_eq_some h, by simpa using List.find?_some h⟩

theorem as_findBlock_none {live : List Block} {id : Nat} (h : (findBlock live id).isSome = false) :
    ∀ b ∈ live, b.id ≠ id := by
  unfold findBlock at h
  intro b hb
  have := List.find?_eq_none.1 (Option.isSome_eq_false_iff.1 h |> Option.isNone_iff_eq_none.1) b hb
  simpa using this

theorem as_mem_filter {live : List Block} {id : Nat} {b : Block} :
    b ∈ live.filter (fun x => x.id ≠ id) ↔ b ∈ live ∧ b.id ≠ id := by
  simp [List.mem_filter]

/-- with unique ids and distinct pointers, dropping the blocks named `id` drops exactly the block at `b0.ptr` -/
theorem as_filter_facts {live : List Block} (hn : (live.map (·.ptr)).Nodup) (hu : as_UniqIds live) {id : Nat} {b0 : Block}
    (hb : findBlock live id = some b0) :
    (∀ b ∈ live.filter (fun x => x.id ≠ id), b ∈ live ∧ b.ptr ≠ b0.ptr) ∧
    (∀ b ∈ live, b.ptr ≠ b0.ptr → b ∈ live.filter (fun x => x.id ≠ id)) := by
  obtain ⟨hb0, hid0⟩ := as_findBlock_some hb
  constructor
  · intro b hbf
    obtain ⟨hbl, hne⟩ := as_mem_filter.1 hbf
    refine ⟨hbl, fun hp => hne ?_⟩
    rw [as_nodup_map_inj hn b hbl b0 hb0 hp]
    exact hid0
  · intro b hbl hp
    refine as_mem_filter.2 ⟨hbl, fun hi => hp ?_⟩
    rw [as_nodup_map_inj hu b hbl b0 hb0 (by rw [hi, hid0])]

theorem as_liveOn_freed {s s' : St} {live : List Block} (h : as_LiveOn s live) (hu : as_UniqIds live) {id : Nat}
    {b0 : Block} (hb : findBlock live id = some b0) (hf : Freed s s' b0.ptr) :
    as_LiveOn s' (live.filter (fun x => x.id ≠ id)) := by
  obtain ⟨hin, hout⟩ := as_filter_facts h.nodup hu hb
  obtain ⟨hb0, _⟩ := as_findBlock_some hb
  have h160 := (h.blocks b0 hb0).1
  refine ⟨?_, ?_, ?_⟩
  · exact List.Pairwise.sublist (List.Sublist.map _ List.filter_sublist) h.nodup
  · intro b hbf
    obtain ⟨hbl, hp⟩ := hin b hbf
    obtain ⟨p1, p2, p3, z, hu', p5, p6⟩ := h.blocks b hbl
    exact ⟨p1, p2, p3, z, (hf _ _).2 ⟨hu', by omega⟩, p5, p6⟩
  · intro a z hu'
    obtain ⟨hu', hne⟩ := (hf a z).1 hu'
    obtain ⟨b, hbl, hbp⟩ := h.cover a z hu'
    exact ⟨b, hout b hbl (by omega), hbp⟩

theorem as_liveOn_moved {s s' : St} {live : List Block} (h : as_LiveOn s live) (hu : as_UniqIds live) {id : Nat}
    {b0 : Block} (hb : findBlock live id = some b0) {mem' nb ns : Nat} (hm : Moved s s' b0.ptr mem' nb)
    (hsz : ns + 8 ≤ nb) (h32 : 32 ≤ nb) (hmod : mem' % b0.align = 0) :
    as_LiveOn s' ({ b0 with ptr := mem', size := ns } :: live.filter (fun x => x.id ≠ id)) := by
  obtain ⟨hin, hout⟩ := as_filter_facts h.nodup hu hb
  obtain ⟨hb0, _⟩ := as_findBlock_some hb
  obtain ⟨h160, hal0, _⟩ := h.blocks b0 hb0
  obtain ⟨h16, _, hnot, sz, hsz', hiff⟩ := hm
  refine ⟨?_, ?_, ?_⟩
  · simp only [List.map_cons, List.nodup_cons]
    refine ⟨?_, List.Pairwise.sublist (List.Sublist.map _ List.filter_sublist) h.nodup⟩
    intro hmem
    obtain ⟨b, hbf, hbp⟩ := List.mem_map.1 hmem
    obtain ⟨hbl, hp⟩ := hin b hbf
    obtain ⟨_, _, _, z, hu', _⟩ := h.blocks b hbl
    rw [hbp] at hu' hp
    exact hnot hp z hu'
  · intro b hbf
    rcases List.mem_cons.1 hbf with rfl | hbf
    · exact ⟨h16, hal0, hmod, sz, (hiff _ _).2 (Or.inr ⟨rfl, rfl⟩), by simp only; omega, by omega⟩
    · obtain ⟨hbl, hp⟩ := hin b hbf
      obtain ⟨p1, p2, p3, z, hu', p5, p6⟩ := h.blocks b hbl
      exact ⟨p1, p2, p3, z, (hiff _ _).2 (Or.inl ⟨hu', by omega⟩), p5, p6⟩
  · intro a z hu'
    rcases (hiff a z).1 hu' with ⟨hu', hne⟩ | ⟨ha, _⟩
    · obtain ⟨b, hbl, hbp⟩ := h.cover a z hu'
      exact ⟨b, List.mem_cons_of_mem _ (hout b hbl (by omega)), hbp⟩
    · exact ⟨_, List.mem_cons_self, by simp only; omega⟩

/-! ## 4. the step theorem -/

/-- a non-null `malloc` was asked for less than `MAX_REQUEST` bytes -/
theorem as_malloc_lt_max {s s' : St} {size al mem : Nat} (h : malloc s size al = .ok (s', mem)) (hne : mem ≠ 0) :
    size < MAX_REQUEST := by
  unfold malloc at h
  split at h
  · exact inner_malloc_lt_max h hne
  · unfold memalign at h
    generalize (if al < MIN_CHUNK_SIZE then MIN_CHUNK_SIZE else al) = x at h
    unfold memalign_body at h
    msimp at h
    obtain ⟨_, _, h⟩ := h
    split at h
    · msimp at h
      simp only [Prod.mk.injEq] at h
      exact absurd h.2.symm hne
    · rename_i hlt
      omega

theorem as_realloc_lt_max {s s' : St} {ptr osz al ns mem : Nat} {c : Option Copy}
    (h : realloc s ptr osz al ns = .ok (s', mem, c)) (hne : mem ≠ 0) : ns < MAX_REQUEST := by
  unfold realloc at h
  split at h
  · unfold inner_realloc at h
    split at h
    · msimp at h
      simp only [Prod.mk.injEq] at h
      exact absurd h.2.1.symm hne
    · omega
  · msimp at h
    obtain ⟨⟨s1, p1⟩, hmal, h⟩ := h
    dsimp only at h
    split at h
    · rename_i hp1
      exact as_malloc_lt_max hmal hp1
    · msimp at h
      simp only [Prod.mk.injEq] at h
      exact absurd h.2.1.symm hne

/-- a plain numeric bound that implies `as_BigOk` -/
theorem as_bigOk_of_le {size k : Nat} (hk : k ≤ 32) (h : size + 2 ^ k + 128 ≤ 2 ^ 63) : as_BigOk size (2 ^ k) := by
  have hp : 2 ^ k ≤ 2 ^ 32 := Nat.pow_le_pow_right (by decide) hk
  have hpos : 0 < 2 ^ k := Nat.two_pow_pos k
  unfold as_BigOk reqOf memalignReq
  rw [nbOf_eq, MALLOC_ALIGNMENT_eq, MIN_CHUNK_SIZE_eq, CHUNK_OVERHEAD_eq]
  split
  · have := request2size_lt size (by omega)
    omega
  · have h1 := request2size_lt size (by omega)
    have h2 := request2size_lt (request2size size + 2 ^ k + 32 - 8) (by omega)
    omega

/-- the invariant of histories: `Inv`, unique block ids, recorded alignments are powers of two -/
def Inv2 (hs : Hist) : Prop := Inv hs ∧ as_UniqIds hs.live ∧ as_AlignOk hs.live

theorem Inv2.inv {hs : Hist} (h : Inv2 hs) : Inv hs := h.1
theorem Inv2.wf {hs : Hist} (h : Inv2 hs) : WF hs := h.1.wf

/-- what the caller of one operation must guarantee: a power-of-two alignment `≤ 2^32`, a request whose padded
size stays below `2^63` (`as_BigOk`, e.g. `size + align + 128 ≤ 2^63`: `as_bigOk_of_le`), and the mmap
contract `OsOk` for the mapping the operation may be served.  (No `0 < size`, no `size < MAX_REQUEST`:
a zero-size block is fine for `liveOk`, an oversized request returns null.)  For `realloc` the alignment is the
recorded one of the block, which `Inv2` knows to be a power of two. -/
def OpOk (hs : Hist) (op : Op) (os : List OsDir) : Prop :=
  match op with
  | .malloc _ size align => ∃ k, k ≤ 32 ∧ align = 2 ^ k ∧ as_BigOk size align ∧
      OsOk (hs.start os) (mapSize (reqOf size align))
  | .calloc _ size align => ∃ k, k ≤ 32 ∧ align = 2 ^ k ∧ as_BigOk size align ∧
      OsOk (hs.start os) (mapSize (reqOf size align))
  | .realloc id ns => ∀ b, findBlock hs.live id = some b → as_BigOk ns b.align ∧
      OsOk (hs.start os) (mapSize (reqOf ns b.align))
  | .free _ => True

theorem as_liveOn_start {hs : Hist} (h : Inv hs) (os : List OsDir) : as_LiveOn (hs.start os) hs.live :=
  as_liveOn_same ((as_liveOk_iff h.1.wfs.ents).1 h.2) (fun _ _ => Iff.rfl)

/-- the `malloc` / `calloc` step, given the post-condition of `malloc` -/
theorem as_step_alloc (hm : malloc_Spec') {hs : Hist} (hi : Inv2 hs) {os : List OsDir} {id size k : Nat}
    (hid : (findBlock hs.live id).isSome = false) (hk : k ≤ 32) (hbig : as_BigOk size (2 ^ k))
    (hos : OsOk (hs.start os) (mapSize (reqOf size (2 ^ k)))) {s1 : St} {p : Nat}
    (hmal : malloc (hs.start os) size (2 ^ k) = .ok (s1, p)) :
    Inv2 { st := s1, live := if p ≠ 0 then { id := id, ptr := p, size := size, align := 2 ^ k } :: hs.live else hs.live } := by
  obtain ⟨hinv, huq, hao⟩ := hi
  obtain ⟨hi1, ha, hz⟩ := hm (as_sinv_start hinv.1 os) hk hbig hos hmal
  have hl := as_liveOn_start hinv os
  by_cases hp : p = 0
  · rw [if_neg (by omega)]
    exact ⟨⟨hi1, (as_liveOk_iff hi1.wfs.ents).2 (as_liveOn_same hl (hz hp))⟩, huq, hao⟩
  · rw [if_pos hp]
    obtain ⟨hmod, hal⟩ := ha hp
    have h24 := lt_max_request_no_overflow size (as_malloc_lt_max hmal hp)
    have hl' := as_liveOn_alloc hl hal (id := id) (request2size_ge size h24) (request2size_ge_min size h24)
      (Nat.two_pow_pos k) hmod
    refine ⟨⟨hi1, (as_liveOk_iff hi1.wfs.ents).2 hl'⟩, ?_, ?_⟩
    · unfold as_UniqIds
      simp only [List.map_cons, List.nodup_cons]
      refine ⟨?_, huq⟩
      intro hmem
      obtain ⟨b, hb, hbi⟩ := List.mem_map.1 hmem
      exact as_findBlock_none hid b hb hbi
    · intro b hb
      rcases List.mem_cons.1 hb with rfl | hb
      · exact ⟨k, hk, rfl⟩
      · exact hao b hb

theorem inv_step_of_specs (hm : malloc_Spec') (hf : free_Spec) (hr : realloc_Spec') :
    ∀ {hs hs' : Hist} {op : Op} {os : List OsDir} {out : Out},
      Inv2 hs → OpOk hs op os → hs.step op os = .ok (hs', out) → Inv2 hs' := by
  intro hs hs' op os out hi hop h
  unfold Hist.step at h
  dsimp only at h
  split at h
  · -- malloc
    obtain ⟨k, hk, hal, hbig, hos⟩ := hop
    subst hal
    msimp at h
    obtain ⟨_, hid, ⟨s1, p⟩, hmal, _, _, h⟩ := h
    simp only [Prod.mk.injEq] at h
    obtain ⟨h1, _⟩ := h
    subst h1
    exact as_step_alloc hm hi hid hk hbig hos hmal
  · -- calloc
    obtain ⟨k, hk, hal, hbig, hos⟩ := hop
    subst hal
    msimp at h
    obtain ⟨_, hid, ⟨s1, p, z⟩, hcal, _, _, h⟩ := h
    simp only [Prod.mk.injEq] at h
    obtain ⟨h1, _⟩ := h
    subst h1
    exact as_step_alloc hm hi hid hk hbig hos (as_calloc_malloc hcal)
  · -- realloc
    split at h
    · msimp at h
    · rename_i b hb
      msimp at h
      obtain ⟨⟨s1, p, c⟩, hre, _, _, h⟩ := h
      simp only [Prod.mk.injEq] at h
      obtain ⟨h1, _⟩ := h
      subst h1
      obtain ⟨hinv, huq, hao⟩ := hi
      obtain ⟨hb0, hid0⟩ := as_findBlock_some hb
      obtain ⟨k, hk, hal⟩ := hao b hb0
      obtain ⟨hbig, hos⟩ := hop b hb
      rw [hal] at hbig hos hre
      have hl := as_liveOn_start hinv os
      obtain ⟨h16, _, hmodp, z, hu, _, _⟩ := hl.blocks b hb0
      rw [hal] at hmodp
      obtain ⟨hi1, hz, hmv⟩ := hr (as_sinv_start hinv.1 os) h16 hu hk hmodp hbig hos hre
      by_cases hp : p = 0
      · rw [if_neg (by omega)]
        exact ⟨⟨hi1, (as_liveOk_iff hi1.wfs.ents).2 (as_liveOn_same hl (hz hp))⟩, huq, hao⟩
      · rw [if_pos hp]
        obtain ⟨hmod, hmv⟩ := hmv hp
        have h24 := lt_max_request_no_overflow _ (as_realloc_lt_max hre hp)
        have hl' := as_liveOn_moved hl huq hb hmv (request2size_ge _ h24) (request2size_ge_min _ h24)
          (by rw [hal]; exact hmod)
        refine ⟨⟨hi1, (as_liveOk_iff hi1.wfs.ents).2 hl'⟩, ?_, ?_⟩
        · unfold as_UniqIds
          simp only [List.map_cons, List.nodup_cons]
          refine ⟨?_, List.Pairwise.sublist (List.Sublist.map _ List.filter_sublist) huq⟩
          intro hmem
          obtain ⟨b', hb', hbi⟩ := List.mem_map.1 hmem
          exact (as_mem_filter.1 hb').2 (by rw [hbi]; exact hid0)
        · intro b' hb'
          rcases List.mem_cons.1 hb' with rfl | hb'
          · exact ⟨k, hk, hal⟩
          · exact hao b' (as_mem_filter.1 hb').1
  · -- free
    split at h
    · msimp at h
    · rename_i b hb
      msimp at h
      obtain ⟨s1, hfree, _, _, h⟩ := h
      simp only [Prod.mk.injEq] at h
      obtain ⟨h1, _⟩ := h
      subst h1
      obtain ⟨hinv, huq, hao⟩ := hi
      have hl := as_liveOn_start hinv os
      obtain ⟨hb0, _⟩ := as_findBlock_some hb
      obtain ⟨h16, _, _, z, hu, _, _⟩ := hl.blocks b hb0
      obtain ⟨hi1, hfr⟩ := hf (as_sinv_start hinv.1 os) h16 ⟨z, hu⟩ hfree
      refine ⟨⟨hi1, (as_liveOk_iff hi1.wfs.ents).2 (as_liveOn_freed hl huq hb hfr)⟩, ?_, ?_⟩
      · exact List.Pairwise.sublist (List.Sublist.map _ List.filter_sublist) huq
      · intro b' hb'
        exact hao b' (as_mem_filter.1 hb').1

/-! ## 5. whole histories -/

theorem as_sinv_init : SInv Dl.init := by
  refine ⟨((wf_iff_wfs Hist.init).1 wf_init).1, ?_, ?_, ?_, ?_, ?_⟩
  · intro g hg; cases hg
  · intro pre x y post hes
    have : (pre ++ x :: y :: post).length = 0 := by rw [← hes]; rfl
    simp at this
  · intro g hg; cases hg
  · intro g hg; cases hg
  · intro g hg; cases hg

theorem inv2_init : Inv2 Hist.init :=
  ⟨⟨as_sinv_init, by decide⟩, List.nodup_nil, fun b hb => by cases hb⟩

/-- every operation of the history satisfies `OpOk` in the state it is applied to -/
def RunOk : Hist → List (Op × List OsDir) → Prop
  | _, [] => True
  | hs, (op, os) :: rest => OpOk hs op os ∧ ∀ hs1 out, hs.step op os = .ok (hs1, out) → RunOk hs1 rest

theorem inv_run_from (hm : malloc_Spec') (hf : free_Spec) (hr : realloc_Spec') (ops : List (Op × List OsDir)) :
    ∀ {hs hs' : Hist} {evs : List OsEv}, Inv2 hs → RunOk hs ops → hs.run ops = .ok (hs', evs) → Inv2 hs' := by
  induction ops with
  | nil =>
    intro hs hs' evs hi _ h
    unfold Hist.run at h
    msimp at h
    simp only [Prod.mk.injEq] at h
    obtain ⟨h1, _⟩ := h; subst h1
    exact hi
  | cons x rest ih =>
    intro hs hs' evs hi hok h
    obtain ⟨op, os⟩ := x
    obtain ⟨hop, hrest⟩ := hok
    unfold Hist.run at h
    msimp at h
    obtain ⟨⟨hs1, o1⟩, h1, ⟨hs2, e2⟩, h2, h⟩ := h
    simp only [Prod.mk.injEq] at h
    obtain ⟨e1, _⟩ := h; subst e1
    exact ih (inv_step_of_specs hm hf hr hi hop h1) (hrest hs1 o1 h1) h2

/-- **the run-level corollary**: the invariant holds initially and after every history all of whose operations
satisfy `OpOk` when they are applied -/
theorem inv_run_of_specs (hm : malloc_Spec') (hf : free_Spec) (hr : realloc_Spec') :
    Inv2 Hist.init ∧
    ∀ {ops : List (Op × List OsDir)} {hs' : Hist} {evs : List OsEv}, RunOk Hist.init ops →
      Hist.init.run ops = .ok (hs', evs) → Inv2 hs' :=
  ⟨inv2_init, fun hok h => inv_run_from hm hf hr _ inv2_init hok h⟩

/-- … in particular `WF` (the executable checker `wfb`) holds in every such state -/
theorem wf_run_of_specs (hm : malloc_Spec') (hf : free_Spec) (hr : realloc_Spec')
    {ops : List (Op × List OsDir)} {hs' : Hist} {evs : List OsEv} (hok : RunOk Hist.init ops)
    (h : Hist.init.run ops = .ok (hs', evs)) : WF hs' :=
  ((inv_run_of_specs hm hf hr).2 hok h).wf

/-! ### the same from the interface exactly as stated in `DlIndSpec.lean`, and from the leaf specs -/

theorem as_inner_malloc_spec_of (h : inner_malloc_Spec) : inner_malloc_Spec' := by
  intro s s' hi size mem _ hos hm
  exact h hi hos hm

theorem as_malloc_spec_of (h : malloc_Spec) : malloc_Spec' := by
  intro s s' hi size k mem hk _ hos hm
  exact h hi hk hos hm

theorem as_realloc_spec_of (h : realloc_Spec) : realloc_Spec' := by
  intro s s' hi ptr osz k ns mem z c h16 hu hk hmod _ hos hm
  exact h hi h16 hu hk hmod hos hm

/-- the step theorem with the hypotheses exactly as in the interface file -/
theorem inv_step_of_specs_orig (hm : malloc_Spec) (hf : free_Spec) (hr : realloc_Spec) :
    ∀ {hs hs' : Hist} {op : Op} {os : List OsDir} {out : Out},
      Inv2 hs → OpOk hs op os → hs.step op os = .ok (hs', out) → Inv2 hs' :=
  inv_step_of_specs (as_malloc_spec_of hm) hf (as_realloc_spec_of hr)

/-- the entry-point specs from the seven specs of the functions below them -/
theorem as_entry_specs (h1 : malloc_nosys_Spec) (h2 : sys_alloc_Spec) (h3 : free_heap_Spec) (h4 : sys_trim_Spec)
    (h5 : release_unused_segments_Spec) (h6 : try_realloc_chunk_Spec) (h7 : memalign_fix_Spec) :
    malloc_Spec' ∧ free_Spec ∧ realloc_Spec' := by
  have him : inner_malloc_Spec' := as_inner_malloc_spec h1 h2
  have hf : free_Spec := as_free_spec h3 h4 h5
  have hm : malloc_Spec' := as_malloc_spec him h7
  exact ⟨hm, hf, as_realloc_spec h6 him hf hm⟩

/-- **the assembly**: `Inv2` is preserved by every `Hist.step` (under `OpOk`), given the interface theorems of
`malloc_nosys`, `sys_alloc`, `free_heap`, `sys_trim`, `release_unused_segments`, `try_realloc_chunk`,
`memalign_fix` -/
theorem inv_step_of_leaf_specs (h1 : malloc_nosys_Spec) (h2 : sys_alloc_Spec) (h3 : free_heap_Spec)
    (h4 : sys_trim_Spec) (h5 : release_unused_segments_Spec) (h6 : try_realloc_chunk_Spec) (h7 : memalign_fix_Spec)
    {hs hs' : Hist} {op : Op} {os : List OsDir} {out : Out}
    (hi : Inv2 hs) (hop : OpOk hs op os) (h : hs.step op os = .ok (hs', out)) : Inv2 hs' := by
  obtain ⟨hm, hf, hr⟩ := as_entry_specs h1 h2 h3 h4 h5 h6 h7
  exact inv_step_of_specs hm hf hr hi hop h

/-! ## 6. non-vacuity: the hypotheses of the theorems above on concrete states (kernel-evaluated)

`SInv` contains the non-executable conjuncts `RecsOk`, `FenceOk`, `TailOk`; `as_inv2B` is an executable
sufficient check for `Inv2`. -/

def as_recsB (s : St) : Bool :=
  s.segs.all fun g => decide (g.recAt = 0) || (decide (16 ≤ g.recAt) &&
    match findEnt s.h.ents (g.recAt - 16) with
    | some e => e.cin
    | none => false)

theorem as_recsB_ok {s : St} (h : as_recsB s = true) : RecsOk s := by
  intro g hg hne
  unfold as_recsB at h
  simp only [List.all_eq_true, Bool.or_eq_true, Bool.and_eq_true, decide_eq_true_eq] at h
  rcases h g hg with h0 | ⟨h16, hm⟩
  · exact absurd h0 hne
  · refine ⟨h16, ?_⟩
    split at hm
    · rename_i e he
      exact ⟨e, he, hm⟩
    · cases hm

def as_fenceB (segs : List Seg) : List Ent → Bool
  | x :: y :: rest =>
    (!(decide (y.size = 8) && decide (y.addr = x.addr + x.size)) || decide (x.size = 8) || isRecord segs x) &&
      as_fenceB segs (y :: rest)
  | _ => true

theorem as_fenceB_cons2 (segs : List Seg) (x y : Ent) (rest : List Ent) :
    as_fenceB segs (x :: y :: rest) =
      ((!(decide (y.size = 8) && decide (y.addr = x.addr + x.size)) || decide (x.size = 8) || isRecord segs x) &&
        as_fenceB segs (y :: rest)) := rfl

theorem as_fenceB_ok {segs : List Seg} : ∀ (pre : List Ent) {es : List Ent}, as_fenceB segs es = true →
    ∀ x y post, es = pre ++ x :: y :: post → y.size = 8 → y.addr = x.addr + x.size →
      x.size = 8 ∨ isRecord segs x = true := by
  intro pre
  induction pre with
  | nil =>
    intro es h x y post hes h8 ha
    subst hes
    rw [List.nil_append, as_fenceB_cons2] at h
    simp only [Bool.and_eq_true, Bool.or_eq_true, Bool.not_eq_true',
      Bool.and_eq_false_iff, decide_eq_true_eq, decide_eq_false_iff_not] at h
    rcases h.1 with (h1 | h1) | h1
    · rcases h1 with h1 | h1
      · exact absurd h8 h1
      · exact absurd ha h1
    · exact Or.inl h1
    · exact Or.inr h1
  | cons p pre ih =>
    intro es h x y post hes h8 ha
    subst hes
    cases pre with
    | nil =>
      rw [List.cons_append, List.nil_append, as_fenceB_cons2, Bool.and_eq_true] at h
      exact ih (es := x :: y :: post) h.2 x y post rfl h8 ha
    | cons q pre' =>
      rw [List.cons_append, List.cons_append, as_fenceB_cons2, Bool.and_eq_true] at h
      exact ih (es := q :: (pre' ++ x :: y :: post)) h.2 x y post rfl h8 ha

def as_tailB (s : St) : Bool :=
  s.segs.all fun g => decide (g.recAt = 0) || s.h.ents.all fun e =>
    !inSeg g e || decide (e.size = 8) || isRecord s.segs e || decide (e.addr + e.size + 80 ≤ g.base + g.size)

theorem as_tailB_ok {s : St} (h : as_tailB s = true) : TailOk s := by
  intro g hg hne e he hin
  unfold as_tailB at h
  simp only [List.all_eq_true, Bool.or_eq_true, decide_eq_true_eq, Bool.not_eq_true'] at h
  rcases h g hg with h0 | h1
  · exact absurd h0 hne
  · rcases h1 e he with ((h2 | h2) | h2) | h2
    · rw [hin] at h2; cases h2
    · exact Or.inl h2
    · exact Or.inr (Or.inl h2)
    · exact Or.inr (Or.inr h2)

def as_alignB (live : List Block) : Bool := live.all fun b => (List.range 33).any fun k => decide (b.align = 2 ^ k)

theorem as_alignB_ok {live : List Block} (h : as_alignB live = true) : as_AlignOk live := by
  intro b hb
  unfold as_alignB at h
  simp only [List.all_eq_true, List.any_eq_true, List.mem_range, decide_eq_true_eq] at h
  obtain ⟨k, hk, hal⟩ := h b hb
  exact ⟨k, by omega, hal⟩

/-- executable sufficient check for `Inv2` -/
def as_headB (s : St) : Bool :=
  s.segs.all fun g => s.h.ents.all fun e => !(decide (e.addr = g.base)) || !(decide (e.size = 8))

theorem as_headB_ok {s : St} (h : as_headB s = true) : HeadOk s := by
  intro g hg e he hb h8
  unfold as_headB at h
  simp only [List.all_eq_true, Bool.or_eq_true, Bool.not_eq_true', decide_eq_false_iff_not] at h
  rcases h g hg e he with h | h
  · exact h hb
  · exact h h8

def as_recInB (s : St) : Bool :=
  s.segs.all fun g => decide (g.recAt = 0) || (decide (g.base + 16 ≤ g.recAt) && decide (g.recAt < g.base + g.size))

theorem as_recInB_ok {s : St} (h : as_recInB s = true) : RecIn s := by
  intro g hg hne
  unfold as_recInB at h
  simp only [List.all_eq_true, Bool.or_eq_true, Bool.and_eq_true, decide_eq_true_eq] at h
  rcases h g hg with h | h
  · exact absurd h hne
  · exact h

def as_inv2B (hs : Hist) : Bool :=
  wfb hs && as_recsB hs.st && as_fenceB hs.st.segs hs.st.h.ents && as_tailB hs.st && as_headB hs.st && as_recInB hs.st &&
    nodupB (hs.live.map (·.id)) && as_alignB hs.live

theorem as_inv2B_ok {hs : Hist} (h : as_inv2B hs = true) : Inv2 hs := by
  unfold as_inv2B at h
  simp only [Bool.and_eq_true] at h
  obtain ⟨⟨⟨⟨⟨⟨⟨h1, h2⟩, h3⟩, h4⟩, h4'⟩, h4''⟩, h5⟩, h6⟩ := h
  obtain ⟨w, hl⟩ := (wf_iff_wfs hs).1 h1
  exact ⟨⟨⟨w, as_recsB_ok h2, fun pre x y post => as_fenceB_ok pre h3 x y post, as_tailB_ok h4, as_headB_ok h4',
    as_recInB_ok h4''⟩, hl⟩,
    (nodupB_iff_nodup _).1 h5, as_alignB_ok h6⟩

theorem as_ok_of_matchB {α : Type} {x : M α} {p : α → Bool}
    (h : (match x with | .ok v => p v | .error _ => false) = true) : ∃ v, x = .ok v ∧ p v = true := by
  cases x with
  | ok v => exact ⟨v, rfl, h⟩
  | error e => cases h

/-- three small blocks, a large one that forces a second (non-adjacent) segment — so the old segment carries a
pushed record and fenceposts —, the middle small block freed again (it goes into a small bin) -/
def as_demoOps : List (Op × List OsDir) :=
  [(.malloc 1 100 8, [.m (some 1048576)]), (.malloc 2 100 8, []), (.malloc 3 100 8, []),
   (.malloc 4 70000 8, [.m (some 4194304)]), (.free 2, [])]

def as_demo : Hist := match Hist.init.run as_demoOps with
  | .ok (hs, _) => hs
  | .error _ => Hist.init

set_option maxRecDepth 40000 in
/-- `Inv2` holds on a state with two segments, a segment record, fenceposts, a binned chunk and three live blocks -/
theorem as_demo_inv2 : Inv2 as_demo ∧ as_demo.st.segs.length = 2 ∧ as_demo.live.length = 3 :=
  ⟨as_inv2B_ok (by decide), by decide, by decide⟩

theorem as_demo_segs : as_demo.st.segs =
    [{ base := 4194304, size := 131072, recAt := 0 }, { base := 1048576, size := 65536, recAt := 1114048 }] := by
  decide

/-- the mmap contract for a mapping of `len` bytes served at `tbase` in the demo state -/
theorem as_demo_osOk {tbase len : Nat} (os : List OsDir) (h16 : tbase % 4096 = 0) (hpos : 0 < tbase) (hlen : tbase + len ≤ 2 ^ 64)
    (hd : tbase + len ≤ 1048576 ∨ (1114112 ≤ tbase ∧ tbase + len ≤ 4194304) ∨ 4325376 ≤ tbase) :
    OsOk (as_demo.start (.m (some tbase) :: os)) len := by
  intro t q hq
  have : t = tbase := by
    injection hq with h1 _
    injection h1 with h1
    injection h1 with h1
    exact h1.symm
  subst this
  refine ⟨⟨by omega, hpos, hlen, ?_⟩, h16⟩
  intro g hg
  have hg : g ∈ as_demo.st.segs := hg
  rw [as_demo_segs] at hg
  simp only [List.mem_cons, List.not_mem_nil, or_false] at hg
  rcases hg with rfl | rfl
  · simp only; omega
  · simp only; omega

set_option maxRecDepth 40000 in
/-- hypotheses of `inv_step_of_specs`, a `malloc` served from the small bin without any OS call (and the
conclusion, checked independently by evaluation) -/
example : ∃ hs' out, Inv2 as_demo ∧ OpOk as_demo (.malloc 7 100 8) [] ∧
    as_demo.step (.malloc 7 100 8) [] = .ok (hs', out) ∧ out.ptr ≠ 0 ∧ Inv2 hs' := by
  obtain ⟨v, hv, hp⟩ := as_ok_of_matchB (x := as_demo.step (.malloc 7 100 8) [])
    (p := fun v => decide (v.2.ptr ≠ 0) && as_inv2B v.1) (by decide)
  simp only [Bool.and_eq_true, decide_eq_true_eq] at hp
  refine ⟨v.1, v.2, as_demo_inv2.1, ⟨3, by decide, by decide, by unfold as_BigOk; decide, ?_⟩, hv, hp.1, as_inv2B_ok hp.2⟩
  intro tbase q hq
  cases hq

set_option maxRecDepth 40000 in
/-- … an over-aligned `calloc` (memalign) for which the OS serves a fresh mapping below the heap … -/
example : ∃ hs' out, OpOk as_demo (.calloc 9 70000 4096) [.m (some 524288)] ∧
    as_demo.step (.calloc 9 70000 4096) [.m (some 524288)] = .ok (hs', out) ∧ out.ptr ≠ 0 ∧ Inv2 hs' := by
  obtain ⟨v, hv, hp⟩ := as_ok_of_matchB (x := as_demo.step (.calloc 9 70000 4096) [.m (some 524288)])
    (p := fun v => decide (v.2.ptr ≠ 0) && as_inv2B v.1) (by decide)
  simp only [Bool.and_eq_true, decide_eq_true_eq] at hp
  refine ⟨v.1, v.2, ⟨12, by decide, by decide, by unfold as_BigOk; decide, ?_⟩, hv, hp.1, as_inv2B_ok hp.2⟩
  have hlen : mapSize (reqOf 70000 4096) = 131072 := by decide
  rw [hlen]
  exact as_demo_osOk [] (by decide) (by decide) (by decide) (Or.inl (by decide))

set_option maxRecDepth 40000 in
/-- … a moving `realloc` into a new segment (the old top segment gets a record and fenceposts, the old block is
freed) … -/
example : ∃ hs' out, OpOk as_demo (.realloc 4 200000) [.m (some 8388608)] ∧
    as_demo.step (.realloc 4 200000) [.m (some 8388608)] = .ok (hs', out) ∧ out.ptr ≠ 0 ∧ out.copy ≠ none ∧
    Inv2 hs' := by
  obtain ⟨v, hv, hp⟩ := as_ok_of_matchB (x := as_demo.step (.realloc 4 200000) [.m (some 8388608)])
    (p := fun v => decide (v.2.ptr ≠ 0) && decide (v.2.copy ≠ none) && as_inv2B v.1) (by decide)
  simp only [Bool.and_eq_true, decide_eq_true_eq] at hp
  refine ⟨v.1, v.2, ?_, hv, hp.1.1, hp.1.2, as_inv2B_ok hp.2⟩
  intro b hb
  have hfb : findBlock as_demo.live 4 = some { id := 4, ptr := 4194320, size := 70000, align := 8 } := by decide
  rw [hfb] at hb
  injection hb with hb
  subst hb
  refine ⟨by unfold as_BigOk; decide, ?_⟩
  have hlen : mapSize (reqOf 200000 8) = 262144 := by decide
  simp only
  rw [hlen]
  exact as_demo_osOk [] (by decide) (by decide) (by decide) (Or.inr (Or.inr (by decide)))

set_option maxRecDepth 40000 in
/-- … and a `free` -/
example : ∃ hs' out, OpOk as_demo (.free 1) [] ∧ as_demo.step (.free 1) [] = .ok (hs', out) ∧ Inv2 hs' := by
  obtain ⟨v, hv, hp⟩ := as_ok_of_matchB (x := as_demo.step (.free 1) []) (p := fun v => as_inv2B v.1) (by decide)
  exact ⟨v.1, v.2, trivial, hv, as_inv2B_ok hp⟩

set_option maxRecDepth 40000 in
/-- hypotheses of `inv_run_of_specs`: `RunOk` of a short history from the initial state -/
example : ∃ hs' evs, RunOk Hist.init [(.malloc 1 100 8, [.m (some 1048576)]), (.free 1, [])] ∧
    Hist.init.run [(.malloc 1 100 8, [.m (some 1048576)]), (.free 1, [])] = .ok (hs', evs) ∧ hs'.live = [] := by
  obtain ⟨v, hv, hp⟩ := as_ok_of_matchB
    (x := Hist.init.run [(.malloc 1 100 8, [.m (some 1048576)]), (.free 1, [])])
    (p := fun v => decide (v.1.live = [])) (by decide)
  simp only [decide_eq_true_eq] at hp
  refine ⟨v.1, v.2, ⟨⟨3, by decide, by decide, by unfold as_BigOk; decide, ?_⟩, fun hs1 out _ => ⟨trivial, fun _ _ _ => trivial⟩⟩,
    hv, hp⟩
  intro tbase q hq
  have : tbase = 1048576 := by
    injection hq with h1 _
    injection h1 with h1
    injection h1 with h1
    exact h1.symm
  subst this
  exact ⟨⟨by decide, by decide, by decide, fun g hg => by cases hg⟩, by decide⟩

end TinyVerif.Dl
