/-
Helper lemmas for C09 (Model/Wrap.lean): linear characterisations of the `as` casts, so that the
property proofs can hand everything to `omega`, and the retry-loop unrolling lemma.
-/
import TinyVerif.Model.Wrap
import TinyVerif.Spec.C09
namespace TinyVerif.Wrap

/-- `r as i64` for a 64-bit register, as a linear case split -/
theorem castTo_i64_spec (r : Nat) (h : r < TWO64) :
    ((r : Int) < 9223372036854775808 ∧ castTo .i64 r = (r : Int)) ∨
    (9223372036854775808 ≤ (r : Int) ∧ castTo .i64 r = (r : Int) - 18446744073709551616) := by
  simp only [castTo, TWO64, TWO63] at *
  split <;> omega

/-- `r as i32`: the low 32 bits, sign-interpreted -/
theorem castTo_i32_spec (r : Nat) :
    ((r % 4294967296 : Nat) < 2147483648 ∧ castTo .i32 r = ((r % 4294967296 : Nat) : Int)) ∨
    (2147483648 ≤ (r % 4294967296 : Nat) ∧ castTo .i32 r = ((r % 4294967296 : Nat) : Int) - 4294967296) := by
  simp only [castTo, TWO32, TWO31] at *
  split <;> omega

theorem castTo_u32_spec (r : Nat) : castTo .u32 r = ((r % 4294967296 : Nat) : Int) := by
  simp only [castTo, TWO32]

theorem castTo_u64_spec (r : Nat) (h : r < TWO64) : castTo .u64 r = (r : Int) := by
  simp only [castTo, TWO64] at *
  omega

/-- `is_syscall_error` under the standard idioms is the threshold test `r ≥ 2^64 − 4095` -/
theorem isErr_std (r : Nat) : isSyscallError stdCfg r = decide (18446744073709547521 ≤ r) := by
  simp only [isSyscallError, stdCfg, if_true, TWO64]
  by_cases h : 18446744073709547521 ≤ r
  · rw [decide_eq_true h]; exact decide_eq_true (by omega)
  · rw [decide_eq_false h]; exact decide_eq_false (by omega)

theorem retryLoop_skip (c : Cfg) (t : Ty) (v : Int) (k : Skel) (kr : Nat → Nat) :
    ∀ (n fuel i : Nat), (∀ j, j < n → castTo t (kr (i + j)) = v) →
      retryLoop c t v k kr (fuel + n) i = retryLoop c t v k kr fuel (i + n) := by
  intro n
  induction n with
  | zero => intro fuel i _; rfl
  | succ n ih =>
    intro fuel i hp
    have h0 : castTo t (kr i) = v := by simpa using hp 0 (Nat.succ_pos n)
    show retryLoop c t v k kr ((fuel + n) + 1) i = _
    rw [retryLoop, if_pos h0, ih fuel (i + 1) (fun j hj => by
      have := hp (j + 1) (Nat.succ_lt_succ hj)
      rwa [show i + (j + 1) = i + 1 + j by omega] at this)]
    congr 1
    omega

/-- the loop issues exactly the calls whose result matched, plus the decisive one -/
theorem retry_exact (c : Cfg) (t : Ty) (v : Int) (k : Skel) (kr : Nat → Nat) (n : Nat) (hn : n < FUEL)
    (hp : ∀ i, i < n → castTo t (kr i) = v) (hl : castTo t (kr n) ≠ v) :
    retryLoop c t v k kr FUEL 0 = (step c k (kr n), n + 1) := by
  obtain ⟨m, hm⟩ : ∃ m, FUEL = (m + 1) + n := ⟨FUEL - n - 1, by omega⟩
  rw [hm, retryLoop_skip c t v k kr n (m + 1) 0 (fun j hj => by simpa using hp j hj)]
  rw [retryLoop, if_neg (by simpa using hl)]
  simp

theorem step_bail (p : Proj) (r : Nat) (h : r < TWO64) : step stdCfg (.bail p) r = decodeStd p r := by
  have h32 := castTo_i32_spec r
  simp only [step, isErr_std, decodeStd, decide_eq_true_eq]
  simp only [evalCode, stdCfg, TWO64] at *
  generalize castTo .i32 r = b at *
  repeat' split
  all_goals (try simp only [Outcome.err.injEq])
  all_goals (first | rfl | omega)

theorem step_coerce (r : Nat) (h : r < TWO64) : step stdCfg .coerceFd r = decodeStd (.cast .i32) r := by
  have h32 := castTo_i32_spec r
  simp only [step, isErr_std, decodeStd, decide_eq_true_eq]
  simp only [evalCode, stdCfg, projPay, TWO64] at *
  generalize castTo .i32 r = b at *
  repeat' split
  all_goals (try simp only [Outcome.err.injEq])
  all_goals (first | rfl | omega)

theorem negEbusy_i64 (r : Nat) (h : r < TWO64) : castTo .i64 r = -16 ↔ r = NEG_EBUSY := by
  have h64 := castTo_i64_spec r h
  simp only [TWO64, NEG_EBUSY] at *
  generalize castTo .i64 r = b at *; omega

theorem negEbusy_u64 (r : Nat) (h : r < TWO64) : castTo .u64 r = 18446744073709551600 ↔ r = NEG_EBUSY := by
  rw [castTo_u64_spec r h]; simp only [NEG_EBUSY]; omega

theorem retry_sound (t : Ty) (v : Int) (k : Skel) (p : Proj)
    (htv : (t = .i64 ∧ v = -16) ∨ (t = .u64 ∧ v = 18446744073709551600))
    (hk : ∀ r, r < TWO64 → step stdCfg k r = decodeStd p r)
    (kr : Nat → Nat) (n : Nat) (hb : ∀ i, kr i < TWO64) (hn : n < FUEL)
    (hp : ∀ i, i < n → kr i = NEG_EBUSY) (hl : kr n ≠ NEG_EBUSY) :
    retryLoop stdCfg t v k kr FUEL 0 = (decodeStd p (kr n), n + 1) := by
  have key : ∀ r, r < TWO64 → (castTo t r = v ↔ r = NEG_EBUSY) := by
    intro r hr
    rcases htv with ⟨rfl, rfl⟩ | ⟨rfl, rfl⟩
    · exact negEbusy_i64 r hr
    · exact negEbusy_u64 r hr
  rw [retry_exact stdCfg t v k kr n hn (fun i hi => (key _ (hb i)).mpr (hp i hi))
        (fun h => hl ((key _ (hb n)).mp h)), hk _ (hb n)]

end TinyVerif.Wrap
