import TinyVerif.Proofs.DlIndBase
/-!
# `WF` alone is not inductive: kernel-checked counterexamples to `wf_step`

`wf_step : WF hs → hs.step op os = .ok (hs', out) → OsContract … → WF hs'` quantifies over all `WF`
states, reachable or not.  `WF` (`Model/DlmallocWF.lean`) lacks two facts that hold in every reachable
state and that the allocator relies on:

1. `RecsOk` — a pushed segment record (`Seg.recAt ≠ 0`) lies in the payload of an *in-use* header.
   `cexState` satisfies `WF` although the `recAt` of its second segment points into a binned free
   chunk (the real record chunk is passed off as a live block, which satisfies `liveOk`).  An ordinary
   `malloc` (no OS call, so every `OsContract` holds vacuously) hands out that chunk and ends in a state
   violating `liveOk` (the new block "is a record").
2. `FenceOk` — the header before a fencepost is a fencepost or a record chunk, never a user chunk.
   `cexState2` satisfies `WF` with the record chunk passed off as a live block; `free` of it clears
   PINUSE of the first fencepost and ends in a state violating `shapeOk`.

Consequence: the invariant to prove inductive is `WF hs ∧ RecsOk hs.st ∧ FenceOk hs.st` (both are
defined in `Proofs/DlIndBase.lean` §7; `liveOk_alloc` uses `RecsOk` exactly where it is needed).
Both are checked by the kernel (`decide`).
-/
namespace TinyVerif.Dl

/-- three small blocks, a large one that forces a second (non-adjacent) segment, the middle small
block freed again (it goes into a small bin) -/
def cexOps : List (Op × List OsDir) :=
  [(.malloc 1 100 8, [.m (some 1048576)]), (.malloc 2 100 8, []), (.malloc 3 100 8, []),
   (.malloc 4 70000 8, [.m (some 4194304)]), (.free 2, [])]

def cexReached : Hist := match Hist.init.run cexOps with
  | .ok (hs, _) => hs
  | .error _ => Hist.init

/-- the reachable state with the record pointer of the old segment redirected into the free chunk at
`1048688` (payload `1048704`), and the real record chunk (`1114032`) passed off as a live block -/
def cexState : Hist :=
  { st := { cexReached.st with
      segs := [{ base := 4194304, size := 131072, recAt := 0 }, { base := 1048576, size := 65536, recAt := 1048704 }] },
    live := { id := 9, ptr := 1114048, size := 32, align := 8 } :: cexReached.live }

theorem cex_ok_of_matchB {α : Type} {x : M α} {p : α → Bool}
    (h : (match x with | .ok v => p v | .error _ => false) = true) : ∃ v, x = .ok v ∧ p v = true := by
  cases x with
  | ok v => exact ⟨v, rfl, h⟩
  | error e => cases h

set_option maxRecDepth 40000 in
/-- `cexState` is well-formed, one `malloc` later it is not -/
theorem wf_step_counterexample :
    WF cexState ∧ ¬ RecsOk cexState.st ∧
    ∃ hs' out, cexState.step (.malloc 7 100 8) [] = .ok (hs', out) ∧ out.ptr = 1048704 ∧ ¬ WF hs' := by
  refine ⟨by unfold WF; decide, ?_, ?_⟩
  · intro h
    have := h { base := 1048576, size := 65536, recAt := 1048704 } (by decide) (by decide)
    obtain ⟨_, e, he, hc⟩ := this
    have h2 : findEnt cexState.st.h.ents (1048704 - 16) = some { addr := 1048688, size := 112, cin := false, pin := true, pfoot := 0 } := by
      decide
    rw [h2] at he
    injection he with he
    subst he
    cases hc
  · obtain ⟨v, hv, hp⟩ := cex_ok_of_matchB (x := cexState.step (.malloc 7 100 8) [])
      (p := fun v => decide (v.2.ptr = 1048704) && !wfb v.1) (by decide)
    simp only [Bool.and_eq_true, decide_eq_true_eq, Bool.not_eq_true'] at hp
    exact ⟨v.1, v.2, hv, hp.1, by unfold WF; rw [hp.2]; decide⟩

/-- second gap: nothing in `WF` says that the header before a fencepost is the segment-record chunk.
Here the record chunk (`1114032`, followed by the three fenceposts) is passed off as a live block and
the record pointer is dropped; freeing the "block" merges it with the free chunk before it and clears
PINUSE of the first fencepost, which `shapeOk` rejects -/
def cexState2 : Hist :=
  { st := { cexReached.st with
      segs := [{ base := 4194304, size := 131072, recAt := 0 }, { base := 1048576, size := 65536, recAt := 0 }] },
    live := { id := 9, ptr := 1114048, size := 32, align := 8 } :: cexReached.live }

set_option maxRecDepth 40000 in
theorem wf_step_counterexample_free :
    WF cexState2 ∧ ¬ FenceOk cexState2.st ∧
    ∃ hs' out, cexState2.step (.free 9) [] = .ok (hs', out) ∧ ¬ WF hs' := by
  refine ⟨by unfold WF; decide, ?_, ?_⟩
  · intro h
    have := h
      [{ addr := 1048576, size := 112, cin := true, pin := true, pfoot := 0 },
       { addr := 1048688, size := 112, cin := false, pin := true, pfoot := 0 },
       { addr := 1048800, size := 112, cin := true, pin := false, pfoot := 112 },
       { addr := 1048912, size := 65120, cin := false, pin := true, pfoot := 0 }]
      { addr := 1114032, size := 48, cin := true, pin := false, pfoot := 65120 }
      { addr := 1114080, size := 8, cin := true, pin := true, pfoot := 0 }
      [{ addr := 1114088, size := 8, cin := true, pin := true, pfoot := 0 },
       { addr := 1114096, size := 8, cin := true, pin := true, pfoot := 0 },
       { addr := 4194304, size := 70016, cin := true, pin := true, pfoot := 0 },
       { addr := 4264320, size := 60976, cin := false, pin := true, pfoot := 0 },
       { addr := 4325296, size := 80, cin := false, pin := false, pfoot := 0 }]
      (by decide) rfl rfl
    revert this
    decide
  · obtain ⟨v, hv, hp⟩ := cex_ok_of_matchB (x := cexState2.step (.free 9) [])
      (p := fun v => !wfb v.1) (by decide)
    simp only [Bool.not_eq_true'] at hp
    exact ⟨v.1, v.2, hv, by unfold WF; rw [hp]; decide⟩

end TinyVerif.Dl
