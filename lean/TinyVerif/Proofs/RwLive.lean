import TinyVerif.Proofs.RwWakeW
set_option maxRecDepth 4000
set_option linter.unusedSimpArgs false
set_option linter.unusedVariables false
set_option linter.unusedSectionVars false
namespace TinyVerif.RwLock

/-!
# RwLock liveness support (C02, liveness clause)

Part 1: a new inductive invariant `LInv` ("a waiting bit on an unlocked word is always somebody's job"):

* `pg`  — a thread between its `call` and its unlocking `fetch_sub` / `tryfail` has its transaction at the head of
          its program (so `acquired → hold` can always run);
* `wf`  — `read_contended` only tries to set READERS_WAITING on a word that is not read-lockable, not at the reader
          maximum and does not carry the bit; `write_contended` only tries to set WRITERS_WAITING on a locked word;
* `ra`  — the `debug_assert!` of `read_unlock`: a read-locked word carries READERS_WAITING only together with
          WRITERS_WAITING;
* `bc`  — whenever the count field of `state` is 0 and a waiting bit is set, some thread *covers* the bit: it is
          inside `wake_writer_or_readers` at a program point whose pending CAS / wake matches the current word, or it
          is a writer inside `write()` (which takes the lock whatever the waiting bits are and runs the wake path
          when it unlocks).  With `strict = true` only writers that cannot go to sleep any more count (everything
          before the final `writer_notify` re-check); that version is inductive for the restricted relation `stepW`
          (the re-read of `state` in the hand-shake observes the current value) and is what excludes deadlock.

Part 2: possibility-form liveness by *honest* schedules (`runH`: loads observe current values, no spurious weak-CAS
failure): release of all holders (`release_all_holders`), clearing of the waiting bits through the wake path
(`clear_bits`, induction on the number of threads inside `write()`), acquisition by a thread anywhere inside
`read()` / `write()` (`acquireR_when_clear`, `acquireW_when_unlocked`); `can_acquire_read` / `can_acquire_write`.

Part 3: `parked_implies_enabled` (from `RInv`, `RQ2`, `WQ`, `LInv true`) and `enabled_can_step`.
-/

/-! ## program-counter classes -/

/-- inside a blocking `read()` call (parked in the kernel included) -/
def inRead : Pc → Bool
  | .rLoad | .rFastCas _ | .rSpin _ | .rCas _ | .rSetWait _ | .rWaitLoad _ | .rWaitSys _ | .rParked _ => true
  | _ => false

/-- inside a blocking `write()` call (parked in the kernel included) -/
def inWrite : Pc → Bool
  | .wFastCas | .wSpin _ _ | .wCas _ _ | .wSetWait _ _ | .wSeqLoad | .wStateLoad _ | .wWaitLoad _ | .wWaitSys _
  | .wParked _ => true
  | _ => false

/-- pcs at which the current transaction is still the head of the thread's program -/
def needsProg : Pc → Bool
  | .idle | .kCasA _ | .kCasB _ | .kNotify _ | .kWakeW _ | .kCasC | .kWakeR | .panicked => false
  | _ => true

/-- thread at `pc` covers the waiting bits of the unlocked word `x` -/
def cov (strict : Bool) (x : Nat) : Pc → Bool
  | .kCasA _ => x == WW || x == RW + WW
  | .kCasB _ => x == RW + WW
  | .kNotify true | .kWakeW true | .kCasC => x == RW
  | .wFastCas | .wSpin _ _ | .wCas _ _ | .wSetWait _ _ | .wSeqLoad | .wStateLoad _ => true
  | .wWaitLoad _ | .wWaitSys _ | .wParked _ => !strict
  | _ => false

def PWf : Pc → Prop
  | .wSetWait st _ => isUnlocked st = false
  | .rSetWait st => isReadLockable st = false ∧ reachedMax st = false ∧ hasRW st = false
  | _ => True

/-- `read_unlock`'s debug assertion as a property of the word -/
def RA (x : Nat) : Prop := cnt x ≠ 0 → cnt x ≠ WRITE_LOCKED → hasRW x = true → hasWW x = true

structure LInv (b : Bool) (s : St) : Prop where
  wf : ∀ i, PWf (s.ths i).pc
  pg : ∀ i, needsProg (s.ths i).pc = true → (s.ths i).prog ≠ []
  ra : RA s.state
  bc : cnt s.state = 0 → s.state ≠ 0 → ∃ j, cov b s.state (s.ths j).pc = true

theorem init_linv (b : Bool) (progs : List (List Txn)) : LInv b (init progs) := by
  refine ⟨?_, ?_, ?_, ?_⟩
  · intro i; simp [init, PWf]
  · intro i h; simp [init, needsProg] at h
  · intro h; simp [init, cnt] at h
  · intro _ h; simp [init] at h

/-! ## facts about continuations -/

theorem pwf_rNext (v : Nat) : PWf (rNext v) := by
  unfold rNext
  split
  · simp [PWf]
  · split
    · simp [PWf]
    · split
      · rename_i h1 h2 h3
        simp only [PWf]
        refine ⟨by simpa using h1, by simpa using h2, by simpa using h3⟩
      · simp [PWf]

theorem pwf_wNext (v : Nat) (o : Bool) : PWf (wNext v o) := by
  unfold wNext
  split
  · simp [PWf]
  · split
    · rename_i h1 h2; simp only [PWf]; simpa using h1
    · simp [PWf]

theorem pwf_wakeEntry (v : Nat) : PWf (wakeEntry v) := by
  unfold wakeEntry; repeat' split
  all_goals simp [PWf]

theorem pwf_wakeAfterA (v : Nat) : PWf (wakeAfterA v) := by
  unfold wakeAfterA; repeat' split
  all_goals simp [PWf]

theorem np_wakeEntry (v : Nat) : needsProg (wakeEntry v) = false := by
  unfold wakeEntry; repeat' split
  all_goals simp [needsProg]

theorem np_wakeAfterA (v : Nat) : needsProg (wakeAfterA v) = false := by
  unfold wakeAfterA; repeat' split
  all_goals simp [needsProg]

theorem cov_wNext (b : Bool) (x v : Nat) (o : Bool) : cov b x (wNext v o) = true := by
  unfold wNext; repeat' split
  all_goals simp [cov]

theorem cov_rNext (b : Bool) (x v : Nat) : cov b x (rNext v) = false := by
  unfold rNext; repeat' split
  all_goals simp [cov]

theorem cov_woken (b : Bool) (c : Cfg) (x : Nat) (p : Pc) (h : cov b x p = true) : cov b x (wokenPc c p) = true := by
  cases p <;> simp_all [wokenPc, cov]

theorem pwf_woken (c : Cfg) (p : Pc) (h : PWf p) : PWf (wokenPc c p) := by
  cases p <;> simp_all [wokenPc, PWf]

theorem np_woken (c : Cfg) (p : Pc) : needsProg (wokenPc c p) = needsProg p := by
  cases p <;> simp [wokenPc, needsProg]

theorem inRead_woken (c : Cfg) (p : Pc) : inRead (wokenPc c p) = inRead p := by
  cases p <;> simp [wokenPc, inRead]

theorem inWrite_woken (c : Cfg) (p : Pc) : inWrite (wokenPc c p) = inWrite p := by
  cases p <;> simp [wokenPc, inWrite]

/-! ## arithmetic on the lock word -/

theorem word_cases (x : Nat) (hlt : x < TWO32) (h0 : cnt x = 0) (hne : x ≠ 0) :
    x = RW ∨ x = WW ∨ x = RW + WW := by
  simp only [cnt, RW, WW, TWO32] at *; omega

theorem cov_wakeEntry (b : Bool) (x : Nat) (hlt : x < TWO32) (h0 : cnt x = 0) (hne : x ≠ 0) :
    cov b x (wakeEntry x) = true := by
  have e1 : wakeEntry RW = .kCasC := by decide
  have e2 : wakeEntry WW = .kCasA WW := by decide
  have e3 : wakeEntry (RW + WW) = .kCasB (RW + WW) := by decide
  rcases word_cases x hlt h0 hne with h | h | h <;> subst h
  · rw [e1]; simp [cov]
  · rw [e2]; simp [cov]
  · rw [e3]; simp [cov]

theorem cnt_orRW (x : Nat) : cnt (orRW x) = cnt x := by
  unfold orRW; split
  · rfl
  · simp only [cnt, RW]; omega

theorem cnt_orWW (x : Nat) : cnt (orWW x) = cnt x := by
  unfold orWW; split
  · rfl
  · simp only [cnt, RW, WW]; omega

theorem cnt_orWL (x : Nat) (o : Bool) (h : cnt x = 0) : cnt (orWL x o) = WRITE_LOCKED := by
  unfold orWL
  simp only [h, Nat.sub_zero]
  cases o
  · simp only [Bool.false_eq_true, if_false]; simp only [cnt, RW, WRITE_LOCKED] at *; omega
  · simp only [if_true]; rw [cnt_orWW]; simp only [cnt, RW, WRITE_LOCKED] at *; omega

theorem hasRW_add_one (x : Nat) (h : x % 1073741824 < 1073741822) : hasRW (x + 1) = hasRW x := by
  simp only [hasRW, RW]
  have : (x + 1) / 1073741824 = x / 1073741824 := by omega
  rw [this]

theorem ra_of_wl (x : Nat) (h : cnt x = WRITE_LOCKED) : RA x := fun _ h2 _ => absurd h h2
theorem ra_of_zero (x : Nat) (h : cnt x = 0) : RA x := fun h1 _ _ => absurd h h1

theorem ra_add_one (x : Nat) (h : isReadLockable x = true) : RA (x + 1) := by
  obtain ⟨h1, h2, h3⟩ := (readLockable_iff x).mp h
  intro _ _ hrw
  rw [hasRW_add_one x h1] at hrw
  simp only [hasRW, RW, beq_iff_eq] at hrw
  exact absurd hrw h2

theorem ra_orWW (x : Nat) : RA (orWW x) := fun _ _ _ => hasWW_orWW x

theorem ra_orRW (x : Nat) (hlt : x < TWO32) (h1 : isReadLockable x = false) (h2 : reachedMax x = false)
    (h3 : hasRW x = false) : RA (orRW x) := by
  intro c0 cw _
  rw [cnt_orRW] at c0 cw
  rw [hasWW_orRW x (by simpa [TWO32] using hlt)]
  cases hw : hasWW x with
  | true => rfl
  | false =>
    exfalso
    have : isReadLockable x = true := by
      unfold isReadLockable
      simp only [h3, hw, Bool.not_false, Bool.and_true, decide_eq_true_eq]
      simp only [reachedMax, cnt, RW, MAX_READERS, WRITE_LOCKED, beq_eq_false_iff_ne, ne_eq] at *
      omega
    rw [this] at h1; cases h1

theorem ra_sub_one (x : Nat) (hlt : x < TWO32) (h : RA x) (h1 : 1 ≤ cnt x) (hw : cnt x ≠ WRITE_LOCKED) :
    RA (wsub x 1) := by
  have hc : 1 ≤ x % 1073741824 := by simpa [cnt, RW] using h1
  have hl : x < 4294967296 := by simpa [TWO32] using hlt
  intro c0 cw hrw
  rw [hasRW_sub_one x hc hl] at hrw
  rw [hasWW_sub_one x hc hl]
  exact h (by omega) hw hrw

theorem wsub_lt (a b : Nat) : wsub a b < TWO32 := by
  unfold wsub; exact Nat.mod_lt _ (by decide)

/-! ## generic preservation -/

theorem linv_upd (b : Bool) (c : Cfg) (s s' : St) (i : Nat) (h : LInv b s)
    (hoth : ∀ j, j ≠ i → (s'.ths j).prog = (s.ths j).prog ∧
      ((s'.ths j).pc = (s.ths j).pc ∨ (s'.ths j).pc = wokenPc c (s.ths j).pc))
    (hwf : PWf (s'.ths i).pc) (hpg : needsProg (s'.ths i).pc = true → (s'.ths i).prog ≠ [])
    (hra : RA s'.state)
    (hbc : cnt s'.state = 0 → s'.state ≠ 0 →
        cov b s'.state (s'.ths i).pc = true ∨
        (cnt s.state = 0 ∧ s.state ≠ 0 ∧ (∀ pc, cov b s.state pc = true → cov b s'.state pc = true) ∧
          (cov b s.state (s.ths i).pc = true → ∃ k, cov b s'.state (s'.ths k).pc = true))) : LInv b s' := by
  refine ⟨?_, ?_, hra, ?_⟩
  · intro j
    by_cases hj : j = i
    · subst hj; exact hwf
    · rcases (hoth j hj).2 with e | e <;> rw [e]
      · exact h.wf j
      · exact pwf_woken c _ (h.wf j)
  · intro j
    by_cases hj : j = i
    · subst hj; exact hpg
    · rw [(hoth j hj).1]
      rcases (hoth j hj).2 with e | e <;> rw [e]
      · exact h.pg j
      · rw [np_woken]; exact h.pg j
  · intro h0 hne
    rcases hbc h0 hne with h1 | ⟨c0, cne, hmono, hself⟩
    · exact ⟨i, h1⟩
    · obtain ⟨j, hj⟩ := h.bc c0 cne
      by_cases hji : j = i
      · subst hji; exact hself hj
      · refine ⟨j, ?_⟩
        rcases (hoth j hji).2 with e | e <;> rw [e]
        · exact hmono _ hj
        · exact cov_woken b c _ _ (hmono _ hj)

/-- pc-only move of thread `i` (word unchanged) -/
theorem linv_setpc (b : Bool) (c : Cfg) (s : St) (i : Nat) (pc' : Pc) (h : LInv b s)
    (hwf : PWf pc') (hpg : needsProg pc' = true → needsProg (s.ths i).pc = true)
    (hcov : cnt s.state = 0 → s.state ≠ 0 → cov b s.state (s.ths i).pc = true → cov b s.state pc' = true) :
    LInv b (setPc s i pc') := by
  refine linv_upd b c s _ i h ?_ ?_ ?_ h.ra ?_
  · intro j hj; simp [setPc, setTh_ths, hj]
  · simpa [setPc] using hwf
  · intro hh; simp only [setPc, setTh_ths_same] at hh ⊢; exact h.pg i (hpg hh)
  · intro h0 hne
    simp only [setPc, setTh_state] at h0 hne
    right
    refine ⟨h0, hne, fun _ hp => by simpa [setPc] using hp, ?_⟩
    intro hc; exact ⟨i, by simpa [setPc] using hcov h0 hne hc⟩

/-- RMW on the word by thread `i`, program unchanged -/
theorem linv_rmw (b : Bool) (c : Cfg) (s : St) (i : Nat) (acq rel : Bool) (new : Nat) (pc' : Pc) (h : LInv b s)
    (hwf : PWf pc') (hpg : needsProg pc' = true → needsProg (s.ths i).pc = true) (hra : RA new)
    (hbc : cnt new = 0 → new ≠ 0 → cov b new pc' = true ∨
        (cnt s.state = 0 ∧ s.state ≠ 0 ∧ (∀ pc, cov b s.state pc = true → cov b new pc = true) ∧
          cov b s.state (s.ths i).pc = false)) :
    LInv b (rmwState s i acq rel new pc') := by
  refine linv_upd b c s _ i h ?_ ?_ ?_ ?_ ?_
  · intro j hj; simp [rmwState, setTh_ths, hj]
  · simpa [rmwState] using hwf
  · intro hh; simp only [rmwState, setTh_ths_same] at hh ⊢; exact h.pg i (hpg hh)
  · simpa [rmwState] using hra
  · intro h0 hne
    simp only [rmwState, setTh_state] at h0 hne
    rcases hbc h0 hne with h1 | ⟨c0, cne, hmono, hself⟩
    · left; simpa [rmwState] using h1
    · right
      refine ⟨c0, cne, fun p hp => by simpa [rmwState] using hmono p hp, ?_⟩
      intro hc; rw [hself] at hc; cases hc

/-! ## per-pc preservation -/


/-- thread `i` gets a new record (word unchanged) -/
theorem linv_setth (b : Bool) (c : Cfg) (s : St) (i : Nat) (t' : Th) (h : LInv b s)
    (hwf : PWf t'.pc) (hpg : needsProg t'.pc = true → t'.prog ≠ [])
    (hcov : cnt s.state = 0 → s.state ≠ 0 → cov b s.state (s.ths i).pc = true → cov b s.state t'.pc = true) :
    LInv b (setTh s i t') := by
  refine linv_upd b c s _ i h ?_ ?_ ?_ h.ra ?_
  · intro j hj; simp [setTh_ths, hj]
  · simpa using hwf
  · simpa using hpg
  · intro h0 hne
    simp only [setTh_state] at h0 hne
    right
    refine ⟨h0, hne, fun _ hp => by simpa using hp, ?_⟩
    intro hc; exact ⟨i, by simpa using hcov h0 hne hc⟩

theorem linv_setpc' (b : Bool) (c : Cfg) (s : St) (i : Nat) (pc' : Pc) (h : LInv b s)
    (hwf : PWf pc') (hpg : needsProg pc' = true → (s.ths i).prog ≠ [])
    (hcov : cnt s.state = 0 → s.state ≠ 0 → cov b s.state (s.ths i).pc = true → cov b s.state pc' = true) :
    LInv b (setPc s i pc') :=
  linv_setth b c s i _ h hwf hpg hcov

theorem linv_raced (b : Bool) (s : St) (r : Bool) (h : LInv b s) : LInv b { s with raced := r } :=
  ⟨h.wf, h.pg, h.ra, h.bc⟩
theorem linv_notify (b : Bool) (s : St) (x : Nat) (h : LInv b s) : LInv b { s with notify := x } :=
  ⟨h.wf, h.pg, h.ra, h.bc⟩

macro "pwf_tac" : tactic => `(tactic|
  first
  | exact pwf_rNext _
  | exact pwf_wNext _ _
  | exact pwf_wakeEntry _
  | exact pwf_wakeAfterA _
  | (simp [PWf]; done)
  | (split <;> first
      | exact pwf_rNext _
      | exact pwf_wNext _ _
      | (simp [PWf]; done))
  | ((repeat' split) <;> (simp [PWf]; done)))

/-- pc-only step from a pc that needs its program and covers nothing -/
theorem linv_quiet (b : Bool) (c : Cfg) (s : St) (i : Nat) (hl : LInv b s) (pc' : Pc)
    (hnp : needsProg (s.ths i).pc = true) (hnc : ∀ x, cov b x (s.ths i).pc = false)
    (hwf : PWf pc') : LInv b (setPc s i pc') :=
  linv_setpc' b c s i pc' hl hwf (fun _ => hl.pg i hnp) (by intro _ _ hh; rw [hnc] at hh; cases hh)

/-- pc-only step of a writer inside `write()` to an early (covering) writer pc -/
theorem linv_wmove (b : Bool) (c : Cfg) (s : St) (i : Nat) (hl : LInv b s) (pc' : Pc)
    (hnp : needsProg (s.ths i).pc = true) (hcv : ∀ x, cov b x pc' = true)
    (hwf : PWf pc') : LInv b (setPc s i pc') :=
  linv_setpc' b c s i pc' hl hwf (fun _ => hl.pg i hnp) (fun _ _ _ => hcv _)

variable (b : Bool) (c : Cfg) (s s' : St) (i : Nat) (e : Ev) (hi : i < s.n) (hinv : RInv s) (hl : LInv b s)

include hl in
theorem li_idle (hpc : (s.ths i).pc = .idle) (h : step_idle c s i (s.ths i) e = some s') : LInv b s' := by
  unfold step_idle at h
  split at h
  · rename_i k
    split at h
    · rename_i tx rest heq
      split at h
      · simp at h
      · cases h
        refine linv_setpc' b c s i _ hl (by cases k <;> simp [PWf]) (by intro _; rw [heq]; simp) ?_
        intro _ _ hh; rw [hpc] at hh; simp [cov] at hh
    · simp at h
  · simp at h

include hl in
theorem li_rLoad (hpc : (s.ths i).pc = .rLoad) (h : step_rLoad c s i (s.ths i) e = some s') : LInv b s' := by
  unfold step_rLoad at h
  split at h
  · cases h
    exact linv_quiet b c s i hl _ (by rw [hpc]; rfl) (by intro x; rw [hpc]; rfl) (by pwf_tac)
  · simp at h

theorem cnt_add_one_ne (x : Nat) (h : isReadLockable x = true) : cnt (x + 1) ≠ 0 := by
  obtain ⟨h1, _, _⟩ := (readLockable_iff x).mp h
  simp only [cnt, RW]; omega

include hinv hl in
theorem li_rFastCas (st : Nat) (hpc : (s.ths i).pc = .rFastCas st) (h : step_rFastCas c s i (s.ths i) st e = some s') : LInv b s' := by
  have hnp : needsProg (s.ths i).pc = true := by rw [hpc]; rfl
  have hnc : ∀ x, cov b x (s.ths i).pc = false := by intro x; rw [hpc]; rfl
  unfold step_rFastCas at h
  split at h
  · rename_i exp new r
    split at h
    · simp at h
    · rename_i hcond
      simp only [not_or, Decidable.not_not, Bool.not_eq_true', Bool.not_eq_false', Bool.not_eq_false] at hcond
      obtain ⟨he, hn, hcc⟩ := hcond
      have hwf := hinv.pcwf i; rw [hpc] at hwf; simp only [PcWf] at hwf
      cases r with
      | ok =>
        simp only [] at h; cases h
        simp only [casConsistent, beq_iff_eq] at hcc
        subst he hn
        refine linv_rmw b c s i _ _ _ _ hl (by simp [PWf]) (fun _ => hnp) (ra_add_one _ hwf) ?_
        intro h0; exact absurd h0 (cnt_add_one_ne _ hwf)
      | fail o => simp only [] at h; cases h; exact linv_quiet b c s i hl _ hnp hnc (by pwf_tac)
      | spur o => simp only [] at h; cases h; exact linv_quiet b c s i hl _ hnp hnc (by pwf_tac)
  · simp at h

include hl in
theorem li_rSpin (n : Nat) (hpc : (s.ths i).pc = .rSpin n) (h : step_rSpin c s i (s.ths i) n e = some s') : LInv b s' := by
  unfold step_rSpin at h
  split at h
  · cases h
    exact linv_quiet b c s i hl _ (by rw [hpc]; rfl) (by intro x; rw [hpc]; rfl) (by pwf_tac)
  · simp at h

include hinv hl in
theorem li_rCas (st : Nat) (hpc : (s.ths i).pc = .rCas st) (h : step_rCas c s i (s.ths i) st e = some s') : LInv b s' := by
  have hnp : needsProg (s.ths i).pc = true := by rw [hpc]; rfl
  have hnc : ∀ x, cov b x (s.ths i).pc = false := by intro x; rw [hpc]; rfl
  unfold step_rCas at h
  split at h
  · rename_i exp new r
    split at h
    · simp at h
    · rename_i hcond
      simp only [not_or, Decidable.not_not, Bool.not_eq_true', Bool.not_eq_false', Bool.not_eq_false] at hcond
      obtain ⟨he, hn, hcc⟩ := hcond
      have hwf := hinv.pcwf i; rw [hpc] at hwf; simp only [PcWf] at hwf
      cases r with
      | ok =>
        simp only [] at h; cases h
        simp only [casConsistent, beq_iff_eq] at hcc
        subst he hn
        refine linv_rmw b c s i _ _ _ _ hl (by simp [PWf]) (fun _ => hnp) (ra_add_one _ hwf) ?_
        intro h0; exact absurd h0 (cnt_add_one_ne _ hwf)
      | fail o => simp only [] at h; cases h; exact linv_quiet b c s i hl _ hnp hnc (by pwf_tac)
      | spur o => simp only [] at h; cases h; exact linv_quiet b c s i hl _ hnp hnc (by pwf_tac)
  · simp at h

theorem cov_WW_mono (b : Bool) (pc : Pc) (h : cov b WW pc = true) : cov b (RW + WW) pc = true := by
  cases pc with
  | kNotify fb => cases fb <;> simp_all [cov, WW, RW]
  | kWakeW fb => cases fb <;> simp_all [cov, WW, RW]
  | _ => simp_all [cov, WW, RW]

include hinv hl in
theorem li_rSetWait (st : Nat) (hpc : (s.ths i).pc = .rSetWait st) (h : step_rSetWait c s i (s.ths i) st e = some s') : LInv b s' := by
  have hnp : needsProg (s.ths i).pc = true := by rw [hpc]; rfl
  have hnc : ∀ x, cov b x (s.ths i).pc = false := by intro x; rw [hpc]; rfl
  have hlt := hinv.lt32
  unfold step_rSetWait at h
  split at h
  · rename_i exp new r
    split at h
    · simp at h
    · rename_i hcond
      simp only [not_or, Decidable.not_not, Bool.not_eq_true', Bool.not_eq_false', Bool.not_eq_false] at hcond
      obtain ⟨he, hn, hcc⟩ := hcond
      have hwf := hl.wf i; rw [hpc] at hwf; simp only [PWf] at hwf
      obtain ⟨w1, w2, w3⟩ := hwf
      cases r with
      | ok =>
        simp only [] at h; cases h
        simp only [casConsistent, beq_iff_eq] at hcc
        subst he hn
        rw [← hcc] at w1 w2 w3 ⊢
        refine linv_rmw b c s i _ _ _ _ hl (by simp [PWf]) (fun _ => hnp) (ra_orRW _ hlt w1 w2 w3) ?_
        intro h0 hne
        right
        rw [cnt_orRW] at h0
        -- the word is unlocked, carries no RW and is not lockable: it is exactly WW
        have hx : s.state = WW := by
          have hne0 : s.state ≠ 0 := by
            intro hz; rw [hz] at w1; revert w1; decide
          rcases word_cases _ hlt h0 hne0 with hh | hh | hh
          · rw [hh] at w3; exact absurd w3 (by decide)
          · exact hh
          · rw [hh] at w3; exact absurd w3 (by decide)
        refine ⟨h0, by rw [hx]; decide, ?_, hnc _⟩
        intro pc hp
        rw [hx] at hp ⊢
        have : orRW WW = RW + WW := by decide
        rw [this]; exact cov_WW_mono b pc hp
      | fail o => simp only [] at h; cases h; exact linv_quiet b c s i hl _ hnp hnc (by pwf_tac)
      | spur o => simp only [] at h; cases h; exact linv_quiet b c s i hl _ hnp hnc (by pwf_tac)
  · simp at h

include hl in
theorem li_rWaitLoad (ex : Nat) (hpc : (s.ths i).pc = .rWaitLoad ex) (h : step_rWaitLoad c s i (s.ths i) ex e = some s') : LInv b s' := by
  unfold step_rWaitLoad at h
  split at h
  · cases h
    exact linv_quiet b c s i hl _ (by rw [hpc]; rfl) (by intro x; rw [hpc]; rfl) (by pwf_tac)
  · simp at h

include hl in
theorem li_rWaitSys (ex : Nat) (hpc : (s.ths i).pc = .rWaitSys ex) (h : step_rWaitSys c s i (s.ths i) ex e = some s') : LInv b s' := by
  have hnp : needsProg (s.ths i).pc = true := by rw [hpc]; rfl
  have hnc : ∀ x, cov b x (s.ths i).pc = false := by intro x; rw [hpc]; rfl
  unfold step_rWaitSys at h
  split at h
  · split at h
    · simp at h
    · split at h
      · split at h
        · cases h; exact linv_quiet b c s i hl _ hnp hnc (by pwf_tac)
        · simp at h
      · split at h
        · simp at h
        · cases h; exact linv_quiet b c s i hl _ hnp hnc (by pwf_tac)
  · simp at h

include hl in
theorem li_rParked (ex : Nat) (hpc : (s.ths i).pc = .rParked ex) (h : step_rParked c s i (s.ths i) ex e = some s') : LInv b s' := by
  unfold step_rParked at h
  split at h
  · cases h
    exact linv_quiet b c s i hl _ (by rw [hpc]; rfl) (by intro x; rw [hpc]; rfl) (by pwf_tac)
  · simp at h

include hl in
theorem li_tLoad (w : Bool) (hpc : (s.ths i).pc = .tLoad w) (h : step_tLoad c s i (s.ths i) w e = some s') : LInv b s' := by
  unfold step_tLoad at h
  split at h
  · cases h
    exact linv_quiet b c s i hl _ (by rw [hpc]; rfl) (by intro x; rw [hpc]; rfl) (by pwf_tac)
  · simp at h

theorem cnt_add_WL (x : Nat) (h : isUnlocked x = true) : cnt (x + WRITE_LOCKED) = WRITE_LOCKED := by
  have := (unlocked_iff x).mp h
  simp only [cnt, RW, WRITE_LOCKED]; omega

theorem wl_ne_zero : WRITE_LOCKED ≠ 0 := by decide

include hinv hl in
theorem li_tCas (w : Bool) (st : Nat) (hpc : (s.ths i).pc = .tCas w st) (h : step_tCas c s i (s.ths i) w st e = some s') : LInv b s' := by
  have hnp : needsProg (s.ths i).pc = true := by rw [hpc]; rfl
  have hnc : ∀ x, cov b x (s.ths i).pc = false := by intro x; rw [hpc]; rfl
  have hwf := hinv.pcwf i; rw [hpc] at hwf; simp only [PcWf] at hwf
  unfold step_tCas at h
  cases w with
  | false =>
    simp only [Bool.false_eq_true, if_false, if_true] at h hwf
    split at h
    · rename_i exp new r
      split at h
      · simp at h
      · rename_i hcond
        simp only [not_or, Decidable.not_not, Bool.not_eq_true', Bool.not_eq_false', Bool.not_eq_false] at hcond
        obtain ⟨he, hn, hcc⟩ := hcond
        cases r with
        | ok =>
          simp only [] at h; cases h
          subst he hn
          refine linv_rmw b c s i _ _ _ _ hl (by simp [PWf]) (fun _ => hnp) (ra_add_one _ hwf) ?_
          intro h0; exact absurd h0 (cnt_add_one_ne _ hwf)
        | fail o => simp only [] at h; cases h; exact linv_quiet b c s i hl _ hnp hnc (by pwf_tac)
        | spur o => simp only [] at h; cases h; exact linv_quiet b c s i hl _ hnp hnc (by pwf_tac)
    · simp at h
  | true =>
    simp only [Bool.false_eq_true, if_false, if_true] at h hwf
    split at h
    · rename_i exp new r
      split at h
      · simp at h
      · rename_i hcond
        simp only [not_or, Decidable.not_not, Bool.not_eq_true', Bool.not_eq_false', Bool.not_eq_false] at hcond
        obtain ⟨he, hn, hcc⟩ := hcond
        cases r with
        | ok =>
          simp only [] at h; cases h
          subst he hn
          have hcw := cnt_add_WL _ hwf
          refine linv_rmw b c s i _ _ _ _ hl (by simp [PWf]) (fun _ => hnp) (ra_of_wl _ hcw) ?_
          intro h0; rw [hcw] at h0; exact absurd h0 wl_ne_zero
        | fail o => simp only [] at h; cases h; exact linv_quiet b c s i hl _ hnp hnc (by pwf_tac)
        | spur o => simp only [] at h; cases h; exact linv_quiet b c s i hl _ hnp hnc (by pwf_tac)
    · simp at h

include hl in
theorem li_tryFailed (hpc : (s.ths i).pc = .tryFailed) (h : step_tryFailed c s i (s.ths i) e = some s') : LInv b s' := by
  unfold step_tryFailed at h
  split at h
  · cases h
    refine linv_setth b c s i _ hl (by simp [PWf]) (by simp [needsProg]) ?_
    intro _ _ hh; rw [hpc] at hh; simp [cov] at hh
  · simp at h

include hinv hl in
theorem li_wFastCas (hpc : (s.ths i).pc = .wFastCas) (h : step_wFastCas c s i (s.ths i) e = some s') : LInv b s' := by
  have hnp : needsProg (s.ths i).pc = true := by rw [hpc]; rfl
  unfold step_wFastCas at h
  split at h
  · rename_i exp new r
    split at h
    · simp at h
    · rename_i hcond
      simp only [not_or, Decidable.not_not, Bool.not_eq_true', Bool.not_eq_false', Bool.not_eq_false] at hcond
      obtain ⟨he, hn, hcc⟩ := hcond
      cases r with
      | ok =>
        simp only [] at h; cases h
        subst he hn
        refine linv_rmw b c s i _ _ _ _ hl (by simp [PWf]) (fun _ => hnp) (ra_of_wl _ (by decide)) ?_
        intro h0; exact absurd h0 (by decide)
      | fail o => simp only [] at h; cases h; exact linv_wmove b c s i hl _ hnp (by intro x; rfl) (by pwf_tac)
      | spur o => simp only [] at h; cases h; exact linv_wmove b c s i hl _ hnp (by intro x; rfl) (by pwf_tac)
  · simp at h

include hl in
theorem li_wSpin (n : Nat) (oww : Bool) (hpc : (s.ths i).pc = .wSpin n oww) (h : step_wSpin c s i (s.ths i) n oww e = some s') : LInv b s' := by
  have hnp : needsProg (s.ths i).pc = true := by rw [hpc]; rfl
  unfold step_wSpin at h
  split at h
  · cases h
    refine linv_wmove b c s i hl _ hnp ?_ (by pwf_tac)
    intro x; split
    · exact cov_wNext b x _ _
    · rfl
  · simp at h

include hinv hl in
theorem li_wCas (st : Nat) (oww : Bool) (hpc : (s.ths i).pc = .wCas st oww) (h : step_wCas c s i (s.ths i) st oww e = some s') : LInv b s' := by
  have hnp : needsProg (s.ths i).pc = true := by rw [hpc]; rfl
  unfold step_wCas at h
  split at h
  · rename_i exp new r
    split at h
    · simp at h
    · rename_i hcond
      simp only [not_or, Decidable.not_not, Bool.not_eq_true', Bool.not_eq_false', Bool.not_eq_false] at hcond
      obtain ⟨he, hn, hcc⟩ := hcond
      have hwf := hinv.pcwf i; rw [hpc] at hwf; simp only [PcWf] at hwf
      have hc0 : cnt st = 0 := by simpa [isUnlocked] using hwf
      cases r with
      | ok =>
        simp only [] at h; cases h
        subst he hn
        refine linv_rmw b c s i _ _ _ _ hl (by simp [PWf]) (fun _ => hnp) (ra_of_wl _ (cnt_orWL _ _ hc0)) ?_
        intro h0; rw [cnt_orWL _ _ hc0] at h0; exact absurd h0 wl_ne_zero
      | fail o => simp only [] at h; cases h; exact linv_wmove b c s i hl _ hnp (fun x => cov_wNext b x _ _) (by pwf_tac)
      | spur o => simp only [] at h; cases h; exact linv_wmove b c s i hl _ hnp (fun x => cov_wNext b x _ _) (by pwf_tac)
  · simp at h

include hinv hl in
theorem li_wSetWait (st : Nat) (oww : Bool) (hpc : (s.ths i).pc = .wSetWait st oww) (h : step_wSetWait c s i (s.ths i) st oww e = some s') : LInv b s' := by
  have hnp : needsProg (s.ths i).pc = true := by rw [hpc]; rfl
  unfold step_wSetWait at h
  split at h
  · rename_i exp new r
    split at h
    · simp at h
    · rename_i hcond
      simp only [not_or, Decidable.not_not, Bool.not_eq_true', Bool.not_eq_false', Bool.not_eq_false] at hcond
      obtain ⟨he, hn, hcc⟩ := hcond
      have hwf := hl.wf i; rw [hpc] at hwf; simp only [PWf] at hwf
      cases r with
      | ok =>
        simp only [] at h; cases h
        subst he hn
        refine linv_rmw b c s i _ _ _ _ hl (by simp [PWf]) (fun _ => hnp) (ra_orWW _) ?_
        intro h0 hne; left; rfl
      | fail o => simp only [] at h; cases h; exact linv_wmove b c s i hl _ hnp (fun x => cov_wNext b x _ _) (by pwf_tac)
      | spur o => simp only [] at h; cases h; exact linv_wmove b c s i hl _ hnp (fun x => cov_wNext b x _ _) (by pwf_tac)
  · simp at h

include hl in
theorem li_wSeqLoad (hpc : (s.ths i).pc = .wSeqLoad) (h : step_wSeqLoad c s i (s.ths i) e = some s') : LInv b s' := by
  unfold step_wSeqLoad at h
  split at h
  · cases h
    exact linv_wmove b c s i hl _ (by rw [hpc]; rfl) (by intro x; rfl) (by pwf_tac)
  · simp at h

include hl in
theorem li_wStateLoad (seq : Nat) (hcur : b = true → ∀ v, e = .load 0 v → v = s.state)
    (hpc : (s.ths i).pc = .wStateLoad seq) (h : step_wStateLoad c s i (s.ths i) seq e = some s') : LInv b s' := by
  have hnp : needsProg (s.ths i).pc = true := by rw [hpc]; rfl
  unfold step_wStateLoad at h
  split at h
  · rename_i v
    cases h
    refine linv_setpc' b c s i _ hl (by pwf_tac) (fun _ => hl.pg i hnp) ?_
    intro h0 hne _
    split
    · exact cov_wNext b _ _ _
    · rename_i hcond
      cases b with
      | false => rfl
      | true =>
        exfalso
        have := hcur rfl v rfl
        subst this
        apply hcond; left
        simp [isUnlocked, h0]
  · simp at h

include hl in
theorem li_wWaitLoad (seq : Nat) (hpc : (s.ths i).pc = .wWaitLoad seq) (h : step_wWaitLoad c s i (s.ths i) seq e = some s') : LInv b s' := by
  have hnp : needsProg (s.ths i).pc = true := by rw [hpc]; rfl
  unfold step_wWaitLoad at h
  split at h
  · cases h
    refine linv_setpc' b c s i _ hl (by pwf_tac) (fun _ => hl.pg i hnp) ?_
    intro _ _ hh; rw [hpc] at hh
    split
    · rfl
    · exact hh
  · simp at h

include hl in
theorem li_wWaitSys (seq : Nat) (hpc : (s.ths i).pc = .wWaitSys seq) (h : step_wWaitSys c s i (s.ths i) seq e = some s') : LInv b s' := by
  have hnp : needsProg (s.ths i).pc = true := by rw [hpc]; rfl
  unfold step_wWaitSys at h
  split at h
  · split at h
    · simp at h
    · split at h
      · split at h
        · cases h
          refine linv_setpc' b c s i _ hl (by pwf_tac) (fun _ => hl.pg i hnp) ?_
          intro _ _ hh; rw [hpc] at hh; exact hh
        · simp at h
      · split at h
        · simp at h
        · cases h; exact linv_wmove b c s i hl _ hnp (by intro x; rfl) (by pwf_tac)
  · simp at h

include hl in
theorem li_wParked (seq : Nat) (hpc : (s.ths i).pc = .wParked seq) (h : step_wParked c s i (s.ths i) seq e = some s') : LInv b s' := by
  have hnp : needsProg (s.ths i).pc = true := by rw [hpc]; rfl
  unfold step_wParked at h
  split at h
  · cases h
    refine linv_setpc' b c s i _ hl (by pwf_tac) (fun _ => hl.pg i hnp) ?_
    intro _ _ hh; rw [hpc] at hh
    split
    · exact hh
    · rfl
  · simp at h

include hl in
theorem li_acquired (w : Bool) (hpc : (s.ths i).pc = .acquired w) (h : step_acquired c s i (s.ths i) w e = some s') : LInv b s' := by
  unfold step_acquired at h
  split at h
  · split at h
    · cases h; exact linv_quiet b c s i hl _ (by rw [hpc]; rfl) (by intro x; rw [hpc]; rfl) (by pwf_tac)
    · simp at h
  · simp at h

include hl in
theorem li_hold (w : Bool) (k : Nat) (hpc : (s.ths i).pc = .hold w k) (h : step_hold c s i (s.ths i) w k e = some s') : LInv b s' := by
  unfold step_hold at h
  split at h
  · cases h
    exact linv_quiet b c _ i (linv_raced b s _ hl) _ (by simp [hpc, needsProg]) (by intro x; simp [hpc, cov]) (by pwf_tac)
  · cases h; exact linv_quiet b c s i hl _ (by rw [hpc]; rfl) (by intro x; rw [hpc]; rfl) (by pwf_tac)
  · simp at h

theorem unlockR_facts (x0 : Nat) (hlt : x0 < TWO32) (hra : RA x0) (h1 : 1 ≤ cnt x0) (hw : cnt x0 ≠ WRITE_LOCKED) :
    RA (wsub x0 1) ∧ (cnt (wsub x0 1) = 0 → wsub x0 1 ≠ 0 → (isUnlocked (wsub x0 1) && hasWW (wsub x0 1)) = true) := by
  refine ⟨ra_sub_one x0 hlt hra h1 hw, ?_⟩
  intro h0 hne
  have hu : isUnlocked (wsub x0 1) = true := by simp [isUnlocked, h0]
  rw [hu, Bool.true_and]
  have hs : x0 = wsub x0 1 + 1 := by
    unfold wsub; simp only [cnt, RW, TWO32] at *; omega
  rcases word_cases _ (wsub_lt _ _) h0 hne with hh | hh | hh
  · exfalso
    rw [hh] at hs
    rw [hs] at hra
    exact absurd (hra (by decide) (by decide) (by decide)) (by decide)
  · rw [hh]; decide
  · rw [hh]; decide

theorem unlockW_facts (x0 : Nat) (hlt : x0 < TWO32) (hw : cnt x0 = WRITE_LOCKED) :
    RA (wsub x0 WRITE_LOCKED) ∧ cnt (wsub x0 WRITE_LOCKED) = 0 ∧
    (wsub x0 WRITE_LOCKED ≠ 0 → (hasWW (wsub x0 WRITE_LOCKED) || hasRW (wsub x0 WRITE_LOCKED)) = true) := by
  have h0 : cnt (wsub x0 WRITE_LOCKED) = 0 := by
    unfold wsub; simp only [cnt, RW, WRITE_LOCKED, TWO32] at *; omega
  refine ⟨ra_of_zero _ h0, h0, ?_⟩
  intro hne
  rcases word_cases _ (wsub_lt _ _) h0 hne with hh | hh | hh <;> rw [hh] <;> decide

include hinv hl in
theorem li_unlock (w : Bool) (hpc : (s.ths i).pc = .unlock w) (h : step_unlock c s i (s.ths i) w e = some s') : LInv b s' := by
  have hlt := hinv.lt32
  unfold step_unlock at h
  split at h
  · rename_i v old
    cases w with
    | false =>
      simp only [Bool.false_eq_true, if_false] at h
      split at h
      · simp at h
      · rename_i hcond
        simp only [not_or, Decidable.not_not] at hcond
        obtain ⟨ho, hv⟩ := hcond
        cases h
        subst ho hv
        have hR : holdsR (s.ths i) = true := by simp [holdsR, hpc]
        have hnow : ∀ j, holdsW (s.ths j) = false := by
          intro j
          cases hj : holdsW (s.ths j) with
          | false => rfl
          | true =>
            have h0 := hinv.noRW ⟨j, hj⟩
            have := nR_zero_no_reader s hinv h0 i
            rw [hR] at this; cases this
        have hnwl : cnt s.state ≠ WRITE_LOCKED := by
          intro hh; obtain ⟨j, hj⟩ := hinv.wl.mp hh; rw [hnow j] at hj; cases hj
        have hcntR := hinv.cntR hnwl
        have hge1 : 1 ≤ cnt s.state := by
          have : nR s ≠ 0 := by
            intro h0; have := nR_zero_no_reader s hinv h0 i; rw [hR] at this; cases this
          omega
        obtain ⟨f1, f2⟩ := unlockR_facts s.state hlt hl.ra hge1 hnwl
        have hxlt := wsub_lt s.state 1
        generalize hx : wsub s.state 1 = x at *
        refine linv_upd b c s _ i hl ?_ ?_ ?_ ?_ ?_
        · intro j hj; simp [rmwState, setTh_ths, hj]
        · simp only [rmwState, setTh_ths_same]
          split
          · exact pwf_wakeEntry _
          · simp [PWf]
        · intro hh
          simp only [rmwState, setTh_ths_same] at hh
          split at hh
          · rw [np_wakeEntry] at hh; cases hh
          · simp [needsProg] at hh
        · simpa [rmwState] using f1
        · intro h0 hne
          simp only [rmwState, setTh_state] at h0 hne
          left
          simp only [rmwState, setTh_ths_same, setTh_state]
          rw [if_pos (f2 h0 hne)]
          exact cov_wakeEntry b x hxlt h0 hne
    | true =>
      simp only [if_true] at h
      split at h
      · simp at h
      · rename_i hcond
        simp only [not_or, Decidable.not_not] at hcond
        obtain ⟨ho, hv⟩ := hcond
        cases h
        subst ho hv
        have hWi : holdsW (s.ths i) = true := by simp [holdsW, hpc]
        have hwl : cnt s.state = WRITE_LOCKED := hinv.wl.mpr ⟨i, hWi⟩
        obtain ⟨f1, f0, f2⟩ := unlockW_facts s.state hlt hwl
        have hxlt := wsub_lt s.state WRITE_LOCKED
        generalize hx : wsub s.state WRITE_LOCKED = x at *
        refine linv_upd b c s _ i hl ?_ ?_ ?_ ?_ ?_
        · intro j hj; simp [rmwState, setTh_ths, hj]
        · simp only [rmwState, setTh_ths_same]
          split
          · exact pwf_wakeEntry _
          · simp [PWf]
        · intro hh
          simp only [rmwState, setTh_ths_same] at hh
          split at hh
          · rw [np_wakeEntry] at hh; cases hh
          · simp [needsProg] at hh
        · simpa [rmwState] using f1
        · intro h0 hne
          simp only [rmwState, setTh_state] at h0 hne
          left
          simp only [rmwState, setTh_ths_same, setTh_state]
          rw [if_pos (f2 hne)]
          exact cov_wakeEntry b x hxlt h0 hne
  · simp at h

theorem wakeAfterA_RWWW : wakeAfterA (RW + WW) = .kCasB (RW + WW) := by decide

include hinv hl in
theorem li_kCasA (st : Nat) (hpc : (s.ths i).pc = .kCasA st) (h : step_kCasA c s i (s.ths i) st e = some s') : LInv b s' := by
  unfold step_kCasA at h
  split at h
  · rename_i exp new r
    split at h
    · simp at h
    · rename_i hcond
      simp only [not_or, Decidable.not_not, Bool.not_eq_true', Bool.not_eq_false', Bool.not_eq_false] at hcond
      obtain ⟨he, hn, hcc⟩ := hcond
      have hwf := hinv.pcwf i; rw [hpc] at hwf; simp only [PcWf] at hwf
      cases r with
      | ok =>
        simp only [] at h; cases h
        subst hn
        refine linv_rmw b c s i _ _ _ _ hl (by simp [PWf]) (by simp [needsProg]) (ra_of_zero _ (by decide)) ?_
        intro _ hne; exact absurd rfl hne
      | fail o =>
        simp only [] at h; cases h
        refine linv_setpc' b c s i _ hl (pwf_wakeAfterA _) (by intro hh; rw [np_wakeAfterA] at hh; cases hh) ?_
        intro h0 hne hh
        rw [hpc] at hh
        simp only [casConsistent, Bool.and_eq_true, beq_iff_eq, bne_iff_ne, ne_eq] at hcc
        obtain ⟨ho, hne2⟩ := hcc
        subst he ho hwf
        simp only [cov, Bool.or_eq_true, beq_iff_eq] at hh
        rcases hh with hh | hh
        · exact absurd hh hne2
        · simp only [resOld]
          rw [hh, wakeAfterA_RWWW]; simp [cov]
      | spur o => simp [casConsistent] at hcc
  · simp at h

include hinv hl in
theorem li_kCasB (st : Nat) (hpc : (s.ths i).pc = .kCasB st) (h : step_kCasB c s i (s.ths i) st e = some s') : LInv b s' := by
  unfold step_kCasB at h
  split at h
  · rename_i exp new r
    split at h
    · simp at h
    · rename_i hcond
      simp only [not_or, Decidable.not_not, Bool.not_eq_true', Bool.not_eq_false', Bool.not_eq_false] at hcond
      obtain ⟨he, hn, hcc⟩ := hcond
      have hwf := hinv.pcwf i; rw [hpc] at hwf; simp only [PcWf] at hwf
      cases r with
      | ok =>
        simp only [] at h; cases h
        subst hn
        refine linv_rmw b c s i _ _ _ _ hl (by simp [PWf]) (by simp [needsProg]) (ra_of_zero _ (by decide)) ?_
        intro _ _; left; simp [cov]
      | fail o =>
        simp only [] at h; cases h
        refine linv_setpc' b c s i _ hl (by simp [PWf]) (by simp [needsProg]) ?_
        intro h0 hne hh
        rw [hpc] at hh
        simp only [casConsistent, Bool.and_eq_true, beq_iff_eq, bne_iff_ne, ne_eq] at hcc
        simp only [cov, beq_iff_eq] at hh
        subst he hwf
        exact absurd hh hcc.2
      | spur o => simp [casConsistent] at hcc
  · simp at h

include hinv hl in
theorem li_kCasC (hpc : (s.ths i).pc = .kCasC) (h : step_kCasC c s i (s.ths i) e = some s') : LInv b s' := by
  unfold step_kCasC at h
  split at h
  · rename_i exp new r
    split at h
    · simp at h
    · rename_i hcond
      simp only [not_or, Decidable.not_not, Bool.not_eq_true', Bool.not_eq_false', Bool.not_eq_false] at hcond
      obtain ⟨he, hn, hcc⟩ := hcond
      cases r with
      | ok =>
        simp only [] at h; cases h
        subst hn
        refine linv_rmw b c s i _ _ _ _ hl (by simp [PWf]) (by simp [needsProg]) (ra_of_zero _ (by decide)) ?_
        intro _ hne; exact absurd rfl hne
      | fail o =>
        simp only [] at h; cases h
        refine linv_setpc' b c s i _ hl (by simp [PWf]) (by simp [needsProg]) ?_
        intro h0 hne hh
        rw [hpc] at hh
        simp only [casConsistent, Bool.and_eq_true, beq_iff_eq, bne_iff_ne, ne_eq] at hcc
        simp only [cov, beq_iff_eq] at hh
        subst he
        exact absurd hh hcc.2
      | spur o => simp [casConsistent] at hcc
  · simp at h

include hl in
theorem li_kNotify (fb : Bool) (hpc : (s.ths i).pc = .kNotify fb) (h : step_kNotify c s i (s.ths i) fb e = some s') : LInv b s' := by
  unfold step_kNotify at h
  split at h
  · split at h
    · simp at h
    · cases h
      refine linv_setpc' b c _ i _ (linv_notify b s _ hl) (by simp [PWf]) (by simp [needsProg]) ?_
      intro _ _ hh
      simp only [hpc] at hh
      cases fb <;> simp_all [cov]
  · simp at h

theorem wakeAll_prog (c : Cfg) (s : St) (l : List Nat) (k : Nat) : ((wakeAll c s l).ths k).prog = (s.ths k).prog := by
  induction l generalizing s with
  | nil => rfl
  | cons j rest ih =>
    simp only [wakeAll]
    rw [ih]
    unfold wakeOne
    by_cases hk : k = j
    · subst hk; simp
    · simp [setTh_ths, hk]

include hi hinv hl in
theorem li_kWakeW (fb : Bool) (hpc : (s.ths i).pc = .kWakeW fb) (h : step_kWakeW c s i (s.ths i) fb e = some s') : LInv b s' := by
  unfold step_kWakeW at h
  split at h
  · rename_i num woken
    split at h
    · simp at h
    · simp only [] at h
      split at h
      · split at h
        · cases h
          refine linv_setpc' b c s i _ hl (by split <;> simp [PWf]) (by split <;> simp [needsProg]) ?_
          intro _ _ hh
          simp only [hpc] at hh
          cases fb <;> simp_all [cov]
        · simp at h
      · rename_i j
        split at h
        · rename_i hmem
          cases h
          have hjm : j ∈ parkedList s 1 := by simpa using hmem
          obtain ⟨hjn, hjp⟩ := (parkedList_mem s 1 j).mp hjm
          rw [parkedOn1_eq] at hjp
          have hji : j ≠ i := by
            intro hh; subst hh; rw [hpc] at hjp; simp [wparked] at hjp
          refine linv_upd b c s _ i hl ?_ ?_ ?_ ?_ ?_
          · intro k hk
            simp only [setPc, setTh_ths, hk, if_false]
            exact ⟨wakeAll_prog c s [j] k, wakeAll_pc c s [j] k⟩
          · simp [setPc, PWf]
          · simp [setPc, needsProg]
          · simpa [setPc, wakeAll_state] using hl.ra
          · intro h0 hne
            simp only [setPc, setTh_state, wakeAll_state] at h0 hne
            right
            refine ⟨h0, hne, ?_, ?_⟩
            · intro pc hp; simpa [setPc, wakeAll_state] using hp
            · intro _
              refine ⟨j, ?_⟩
              simp only [setPc, setTh_ths, hji, if_false, wakeAll, wakeOne, setTh_ths_same]
              cases hq : (s.ths j).pc <;> simp [hq, wparked] at hjp
              simp [wokenPc, cov]
        · simp at h
      · simp at h
  · simp at h

include hl in
theorem li_kWakeR (hpc : (s.ths i).pc = .kWakeR) (h : step_kWakeR c s i (s.ths i) e = some s') : LInv b s' := by
  unfold step_kWakeR at h
  split at h
  · rename_i num woken
    split at h
    · simp at h
    · simp only [] at h
      split at h
      · simp at h
      · cases h
        refine linv_upd b c s _ i hl ?_ ?_ ?_ ?_ ?_
        · intro k hk
          simp only [setPc, setTh_ths, hk, if_false]
          exact ⟨wakeAll_prog c s woken k, wakeAll_pc c s woken k⟩
        · simp [setPc, PWf]
        · simp [setPc, needsProg]
        · simpa [setPc, wakeAll_state] using hl.ra
        · intro h0 hne
          simp only [setPc, setTh_state, wakeAll_state] at h0 hne
          right
          refine ⟨h0, hne, ?_, ?_⟩
          · intro pc hp; simpa [setPc, wakeAll_state] using hp
          · intro hh; rw [hpc] at hh; simp [cov] at hh
  · simp at h

/-- **every step preserves `LInv`**; in strict mode the re-read of `state` in the writer hand-shake must observe the
current value (which `stepW` guarantees) -/
theorem step_linv (b : Bool) (c : Cfg) (s s' : St) (i : Nat) (e : Ev) (h : step c s i e = some s') (hinv : RInv s)
    (hl : LInv b s)
    (hcur : b = true → ∀ q v, (s.ths i).pc = .wStateLoad q → e = .load 0 v → v = s.state) : LInv b s' := by
  unfold step at h
  split at h
  · simp at h
  · rename_i hi
    have hi : i < s.n := by omega
    simp only [] at h
    cases hpc : (s.ths i).pc <;> simp only [hpc] at h
    case idle => exact li_idle b c s s' i e hl hpc h
    case rLoad => exact li_rLoad b c s s' i e hl hpc h
    case rFastCas st => exact li_rFastCas b c s s' i e hinv hl st hpc h
    case rSpin n => exact li_rSpin b c s s' i e hl n hpc h
    case rCas st => exact li_rCas b c s s' i e hinv hl st hpc h
    case rSetWait st => exact li_rSetWait b c s s' i e hinv hl st hpc h
    case rWaitLoad ex => exact li_rWaitLoad b c s s' i e hl ex hpc h
    case rWaitSys ex => exact li_rWaitSys b c s s' i e hl ex hpc h
    case rParked ex => exact li_rParked b c s s' i e hl ex hpc h
    case tLoad w => exact li_tLoad b c s s' i e hl w hpc h
    case tCas w st => exact li_tCas b c s s' i e hinv hl w st hpc h
    case tryFailed => exact li_tryFailed b c s s' i e hl hpc h
    case wFastCas => exact li_wFastCas b c s s' i e hinv hl hpc h
    case wSpin n oww => exact li_wSpin b c s s' i e hl n oww hpc h
    case wCas st oww => exact li_wCas b c s s' i e hinv hl st oww hpc h
    case wSetWait st oww => exact li_wSetWait b c s s' i e hinv hl st oww hpc h
    case wSeqLoad => exact li_wSeqLoad b c s s' i e hl hpc h
    case wStateLoad seq => exact li_wStateLoad b c s s' i e hl seq (fun hb v hv => hcur hb seq v hpc hv) hpc h
    case wWaitLoad seq => exact li_wWaitLoad b c s s' i e hl seq hpc h
    case wWaitSys seq => exact li_wWaitSys b c s s' i e hl seq hpc h
    case wParked seq => exact li_wParked b c s s' i e hl seq hpc h
    case acquired w => exact li_acquired b c s s' i e hl w hpc h
    case hold w k => exact li_hold b c s s' i e hl w k hpc h
    case unlock w => exact li_unlock b c s s' i e hinv hl w hpc h
    case kCasA st => exact li_kCasA b c s s' i e hinv hl st hpc h
    case kCasB st => exact li_kCasB b c s s' i e hinv hl st hpc h
    case kNotify fb => exact li_kNotify b c s s' i e hl fb hpc h
    case kWakeW fb => exact li_kWakeW b c s s' i e hi hinv hl fb hpc h
    case kCasC => exact li_kCasC b c s s' i e hinv hl hpc h
    case kWakeR => exact li_kWakeR b c s s' i e hl hpc h
    case panicked => simp at h

theorem stepW_linv (c : Cfg) (s s' : St) (i : Nat) (e : Ev) (h : stepW c s i e = some s') (hinv : RInv s)
    (hl : LInv true s) : LInv true s' := by
  refine step_linv true c s s' i e (stepW_step c s s' i e h) hinv hl ?_
  intro _ q v hpc hv
  subst hv
  unfold stepW at h
  simp only [hpc] at h
  split at h
  · assumption
  · simp at h


/-! ## Part 2: possibility-form liveness -/

/-- the event is *honest*: a load observes the current value of its location and a weak CAS does not fail
spuriously (sequentially consistent reading of the step); futex returns without a wake (`spur`) are allowed -/
def honest (s : St) : Ev → Bool
  | .load 0 v => v == s.state
  | .load 1 v => v == s.notify
  | .load _ _ => false
  | .cas _ _ _ _ (.spur _) => false
  | _ => true

def stepH (c : Cfg) (s : St) (i : Nat) (e : Ev) : Option St := if honest s e then step c s i e else none

def runH (c : Cfg) : St → List (Nat × Ev) → Option St
  | s, [] => some s
  | s, (i, e) :: rest =>
      match stepH c s i e with
      | some s' => runH c s' rest
      | none => none

theorem stepH_step (c : Cfg) (s s' : St) (i : Nat) (e : Ev) (h : stepH c s i e = some s') : step c s i e = some s' := by
  unfold stepH at h; split at h
  · exact h
  · simp at h

theorem runH_run (c : Cfg) (s s' : St) (evs : List (Nat × Ev)) (h : runH c s evs = some s') : run c s evs = some s' := by
  induction evs generalizing s with
  | nil => simpa [runH, run] using h
  | cons x rest ih =>
    obtain ⟨i, e⟩ := x
    simp only [runH] at h
    split at h
    · rename_i s1 h1
      simp only [run, stepH_step c s s1 i e h1]
      exact ih s1 h
    · simp at h

theorem runH_append (c : Cfg) (s : St) (a b : List (Nat × Ev)) :
    runH c s (a ++ b) = (runH c s a).bind (fun s' => runH c s' b) := by
  induction a generalizing s with
  | nil => rfl
  | cons x rest ih =>
    obtain ⟨i, e⟩ := x
    simp only [List.cons_append, runH]
    cases h : stepH c s i e with
    | none => rfl
    | some s1 => simp [ih]

/-- the invariants available in every reachable state -/
structure AllInv (s : St) : Prop where
  r : RInv s
  l : LInv false s

theorem runH_allinv (c : Cfg) (hc : c.Good) (s s' : St) (evs : List (Nat × Ev)) (h : runH c s evs = some s')
    (hi : AllInv s) : AllInv s' := by
  induction evs generalizing s with
  | nil => simp [runH] at h; subst h; exact hi
  | cons x rest ih =>
    obtain ⟨i, e⟩ := x
    simp only [runH] at h
    split at h
    · rename_i s1 h1
      have hs := stepH_step c s s1 i e h1
      exact ih s1 h ⟨step_inv c hc s s1 i e hs hi.r, step_linv false c s s1 i e hs hi.r hi.l (by intro hb; cases hb)⟩
    · simp at h

/-- frame: the thread is inside `read()` / `write()` exactly as before (a wake may have moved it from the kernel
back to its spin loop) -/
def Fr (a b : Th) : Prop := inRead b.pc = inRead a.pc ∧ inWrite b.pc = inWrite a.pc

theorem Fr.refl (a : Th) : Fr a a := ⟨rfl, rfl⟩
theorem Fr.trans {a b d : Th} (h1 : Fr a b) (h2 : Fr b d) : Fr a d := ⟨h2.1.trans h1.1, h2.2.trans h1.2⟩

/-- `s'` is reached from `s` by honest steps of thread `u` alone; every other thread keeps its place (up to wakes) -/
def Drv (c : Cfg) (s s' : St) (u : Nat) : Prop :=
  ∃ evs : List (Nat × Ev), runH c s evs = some s' ∧ s'.n = s.n ∧ ∀ k, k ≠ u → Fr (s.ths k) (s'.ths k)

theorem Drv.refl (c : Cfg) (s : St) (u : Nat) : Drv c s s u := ⟨[], rfl, rfl, fun _ _ => Fr.refl _⟩

theorem Drv.trans {c : Cfg} {s s1 s2 : St} {u : Nat} (h1 : Drv c s s1 u) (h2 : Drv c s1 s2 u) : Drv c s s2 u := by
  obtain ⟨e1, r1, n1, o1⟩ := h1
  obtain ⟨e2, r2, n2, o2⟩ := h2
  refine ⟨e1 ++ e2, ?_, by rw [n2, n1], fun k hk => (o1 k hk).trans (o2 k hk)⟩
  rw [runH_append, r1]; exact r2

theorem Drv.one {c : Cfg} {s s' : St} {u : Nat} (e : Ev) (h : step c s u e = some s') (hh : honest s e = true)
    (hn : s'.n = s.n) (ho : ∀ k, k ≠ u → Fr (s.ths k) (s'.ths k)) : Drv c s s' u :=
  ⟨[(u, e)], by simp [runH, stepH, hh, h], hn, ho⟩

theorem Drv.inv {c : Cfg} (hc : c.Good) {s s' : St} {u : Nat} (h : Drv c s s' u) (hi : AllInv s) : AllInv s' := by
  obtain ⟨evs, r, _, _⟩ := h
  exact runH_allinv c hc s s' evs r hi

/-- one honest step of `u` that only rewrites `u`'s record and the memory fields -/
theorem Drv.local {c : Cfg} {s s' : St} {u : Nat} (e : Ev) (h : step c s u e = some s') (hh : honest s e = true)
    (hn : s'.n = s.n) (ho : ∀ k, k ≠ u → s'.ths k = s.ths k) : Drv c s s' u :=
  Drv.one e h hh hn (fun k hk => by rw [ho k hk]; exact Fr.refl _)

theorem rNext_zero : rNext 0 = .rCas 0 := by decide

section readers
variable (c : Cfg)

theorem acqR_cas0 (s : St) (t : Nat) (ht : t < s.n) (h0 : s.state = 0) (hpc : (s.ths t).pc = .rCas 0) :
    ∃ s', Drv c s s' t ∧ holdsR (s'.ths t) = true := by
  have hn : ¬ t ≥ s.n := by omega
  refine ⟨rmwState s t c.readAcq false 1 (.acquired false),
    Drv.local (.cas 0 true 0 1 .ok) ?_ (by simp [honest]) (by simp [rmwState])
      (by intro k hk; simp [rmwState, setTh_ths, hk]), by simp [rmwState, holdsR]⟩
  simp [step, hn, hpc, step_rCas, casConsistent, h0]

/-- continue after a pc-only step of `t` -/
theorem drv_setpc_then {P : St → Prop} (s : St) (t : Nat) (pc' : Pc) (e : Ev)
    (h : step c s t e = some (setPc s t pc')) (hh : honest s e = true)
    (hnext : ∃ s', Drv c (setPc s t pc') s' t ∧ P s') : ∃ s', Drv c s s' t ∧ P s' := by
  obtain ⟨s', d, p⟩ := hnext
  exact ⟨s', (Drv.local e h hh rfl (by intro k hk; simp [setPc, setTh_ths, hk])).trans d, p⟩

theorem acqR_cas (s : St) (t : Nat) (ht : t < s.n) (h0 : s.state = 0) (st : Nat) (hpc : (s.ths t).pc = .rCas st) :
    ∃ s', Drv c s s' t ∧ holdsR (s'.ths t) = true := by
  have hn : ¬ t ≥ s.n := by omega
  by_cases hst : st = 0
  · subst hst; exact acqR_cas0 c s t ht h0 hpc
  · refine drv_setpc_then c s t (.rCas 0) (.cas 0 true st (st + 1) (.fail 0)) ?_ (by simp [honest]) ?_
    · simp [step, hn, hpc, step_rCas, casConsistent, h0, resOld, rNext_zero]; omega
    · exact acqR_cas0 c _ t (by simpa [setPc] using ht) (by simpa [setPc] using h0) (by simp [setPc])

theorem acqR_spin (s : St) (t : Nat) (ht : t < s.n) (h0 : s.state = 0) (n : Nat) (hpc : (s.ths t).pc = .rSpin n) :
    ∃ s', Drv c s s' t ∧ holdsR (s'.ths t) = true := by
  have hn : ¬ t ≥ s.n := by omega
  refine drv_setpc_then c s t (.rCas 0) (.load 0 0) ?_ (by simp [honest, h0]) ?_
  · have : spinStopR 0 = true := by decide
    simp [step, hn, hpc, step_rSpin, this, rNext_zero]
  · exact acqR_cas0 c _ t (by simpa [setPc] using ht) (by simpa [setPc] using h0) (by simp [setPc])


theorem acqR_fast (s : St) (t : Nat) (ht : t < s.n) (h0 : s.state = 0) (st : Nat) (hpc : (s.ths t).pc = .rFastCas st) :
    ∃ s', Drv c s s' t ∧ holdsR (s'.ths t) = true := by
  have hn : ¬ t ≥ s.n := by omega
  by_cases hst : st = 0
  · subst hst
    refine ⟨rmwState s t c.readAcq false 1 (.acquired false),
      Drv.local (.cas 0 true 0 1 .ok) ?_ (by simp [honest]) (by simp [rmwState])
        (by intro k hk; simp [rmwState, setTh_ths, hk]), by simp [rmwState, holdsR]⟩
    simp [step, hn, hpc, step_rFastCas, casConsistent, h0]
  · refine drv_setpc_then c s t (.rSpin c.spinMax) (.cas 0 true st (st + 1) (.fail 0)) ?_ (by simp [honest]) ?_
    · simp [step, hn, hpc, step_rFastCas, casConsistent, h0]; omega
    · exact acqR_spin c _ t (by simpa [setPc] using ht) (by simpa [setPc] using h0) c.spinMax (by simp [setPc])

theorem acqR_load (s : St) (t : Nat) (ht : t < s.n) (h0 : s.state = 0) (hpc : (s.ths t).pc = .rLoad) :
    ∃ s', Drv c s s' t ∧ holdsR (s'.ths t) = true := by
  have hn : ¬ t ≥ s.n := by omega
  refine drv_setpc_then c s t (.rFastCas 0) (.load 0 0) ?_ (by simp [honest, h0]) ?_
  · have : isReadLockable 0 = true := by decide
    simp [step, hn, hpc, step_rLoad, this]
  · exact acqR_fast c _ t (by simpa [setPc] using ht) (by simpa [setPc] using h0) 0 (by simp [setPc])

theorem acqR_setWait (s : St) (t : Nat) (ht : t < s.n) (h0 : s.state = 0) (st : Nat) (hpc : (s.ths t).pc = .rSetWait st)
    (hwf : PWf (s.ths t).pc) : ∃ s', Drv c s s' t ∧ holdsR (s'.ths t) = true := by
  have hn : ¬ t ≥ s.n := by omega
  have hst : st ≠ 0 := by
    intro hh; subst hh; rw [hpc] at hwf; simp only [PWf] at hwf
    exact absurd hwf.1 (by decide)
  refine drv_setpc_then c s t (.rCas 0) (.cas 0 false st (orRW st) (.fail 0)) ?_ (by simp [honest]) ?_
  · simp [step, hn, hpc, step_rSetWait, casConsistent, h0, resOld, rNext_zero]; omega
  · exact acqR_cas0 c _ t (by simpa [setPc] using ht) (by simpa [setPc] using h0) (by simp [setPc])

theorem acqR_parked (s : St) (t : Nat) (ht : t < s.n) (h0 : s.state = 0) (ex : Nat) (hpc : (s.ths t).pc = .rParked ex) :
    ∃ s', Drv c s s' t ∧ holdsR (s'.ths t) = true := by
  have hn : ¬ t ≥ s.n := by omega
  refine drv_setpc_then c s t (.rSpin c.spinMax) (.spur false) ?_ (by simp [honest]) ?_
  · simp [step, hn, hpc, step_rParked]
  · exact acqR_spin c _ t (by simpa [setPc] using ht) (by simpa [setPc] using h0) c.spinMax (by simp [setPc])

theorem acqR_waitSys (s : St) (t : Nat) (ht : t < s.n) (h0 : s.state = 0) (ex : Nat) (hpc : (s.ths t).pc = .rWaitSys ex) :
    ∃ s', Drv c s s' t ∧ holdsR (s'.ths t) = true := by
  have hn : ¬ t ≥ s.n := by omega
  by_cases hex : ex = 0
  · subst hex
    refine drv_setpc_then c s t (.rParked 0) (.fwait 0 0 true) ?_ (by simp [honest]) ?_
    · simp [step, hn, hpc, step_rWaitSys, h0]
    · exact acqR_parked c _ t (by simpa [setPc] using ht) (by simpa [setPc] using h0) 0 (by simp [setPc])
  · refine drv_setpc_then c s t (.rSpin c.spinMax) (.fwait 0 ex false) ?_ (by simp [honest]) ?_
    · simp [step, hn, hpc, step_rWaitSys, h0]; omega
    · exact acqR_spin c _ t (by simpa [setPc] using ht) (by simpa [setPc] using h0) c.spinMax (by simp [setPc])

theorem acqR_waitLoad (s : St) (t : Nat) (ht : t < s.n) (h0 : s.state = 0) (ex : Nat) (hpc : (s.ths t).pc = .rWaitLoad ex) :
    ∃ s', Drv c s s' t ∧ holdsR (s'.ths t) = true := by
  have hn : ¬ t ≥ s.n := by omega
  by_cases hex : ex = 0
  · subst hex
    refine drv_setpc_then c s t (.rWaitSys 0) (.load 0 0) ?_ (by simp [honest, h0]) ?_
    · simp [step, hn, hpc, step_rWaitLoad]
    · exact acqR_waitSys c _ t (by simpa [setPc] using ht) (by simpa [setPc] using h0) 0 (by simp [setPc])
  · refine drv_setpc_then c s t (.rSpin c.spinMax) (.load 0 0) ?_ (by simp [honest, h0]) ?_
    · have hex' : ¬ 0 = ex := fun h => hex h.symm
      simp [step, hn, hpc, step_rWaitLoad, hex']
    · exact acqR_spin c _ t (by simpa [setPc] using ht) (by simpa [setPc] using h0) c.spinMax (by simp [setPc])

/-- **with the word 0, a thread anywhere inside `read()` can be driven (alone) to hold a read guard** -/
theorem acquireR_when_clear (s : St) (t : Nat) (ht : t < s.n) (h0 : s.state = 0) (hwf : PWf (s.ths t).pc)
    (hin : inRead (s.ths t).pc = true) : ∃ s', Drv c s s' t ∧ holdsR (s'.ths t) = true := by
  cases hpc : (s.ths t).pc <;> simp [inRead, hpc] at hin
  case rLoad => exact acqR_load c s t ht h0 hpc
  case rFastCas st => exact acqR_fast c s t ht h0 st hpc
  case rSpin n => exact acqR_spin c s t ht h0 n hpc
  case rCas st => exact acqR_cas c s t ht h0 st hpc
  case rSetWait st => exact acqR_setWait c s t ht h0 st hpc hwf
  case rWaitLoad ex => exact acqR_waitLoad c s t ht h0 ex hpc
  case rWaitSys ex => exact acqR_waitSys c s t ht h0 ex hpc
  case rParked ex => exact acqR_parked c s t ht h0 ex hpc

end readers

section writers
variable (c : Cfg)

theorem wNext_unlocked (x : Nat) (o : Bool) (h : cnt x = 0) : wNext x o = .wCas x o := by
  unfold wNext; simp [isUnlocked, h]

theorem acqW_casx (s : St) (t : Nat) (ht : t < s.n) (oww : Bool) (hpc : (s.ths t).pc = .wCas s.state oww) :
    ∃ s', Drv c s s' t ∧ holdsW (s'.ths t) = true := by
  have hn : ¬ t ≥ s.n := by omega
  refine ⟨rmwState s t c.writeAcq false (orWL s.state oww) (.acquired true),
    Drv.local (.cas 0 true s.state (orWL s.state oww) .ok) ?_ (by simp [honest]) (by simp [rmwState])
      (by intro k hk; simp [rmwState, setTh_ths, hk]), by simp [rmwState, holdsW]⟩
  simp [step, hn, hpc, step_wCas, casConsistent]

theorem acqW_cas (s : St) (t : Nat) (ht : t < s.n) (h0 : cnt s.state = 0) (st : Nat) (oww : Bool)
    (hpc : (s.ths t).pc = .wCas st oww) : ∃ s', Drv c s s' t ∧ holdsW (s'.ths t) = true := by
  have hn : ¬ t ≥ s.n := by omega
  by_cases hst : st = s.state
  · subst hst; exact acqW_casx c s t ht oww hpc
  · refine drv_setpc_then c s t (.wCas s.state oww) (.cas 0 true st (orWL st oww) (.fail s.state)) ?_ (by simp [honest]) ?_
    · simp [step, hn, hpc, step_wCas, casConsistent, resOld, wNext_unlocked _ _ h0]
      exact fun hh => hst hh.symm
    · exact acqW_casx c _ t (by simpa [setPc] using ht) oww (by simp [setPc])

theorem acqW_spin (s : St) (t : Nat) (ht : t < s.n) (h0 : cnt s.state = 0) (n : Nat) (oww : Bool)
    (hpc : (s.ths t).pc = .wSpin n oww) : ∃ s', Drv c s s' t ∧ holdsW (s'.ths t) = true := by
  have hn : ¬ t ≥ s.n := by omega
  refine drv_setpc_then c s t (.wCas s.state oww) (.load 0 s.state) ?_ (by simp [honest]) ?_
  · have : spinStopW s.state = true := by simp [spinStopW, isUnlocked, h0]
    simp [step, hn, hpc, step_wSpin, this, wNext_unlocked _ _ h0]
  · exact acqW_casx c _ t (by simpa [setPc] using ht) oww (by simp [setPc])

theorem acqW_fast (s : St) (t : Nat) (ht : t < s.n) (h0 : cnt s.state = 0) (hpc : (s.ths t).pc = .wFastCas) :
    ∃ s', Drv c s s' t ∧ holdsW (s'.ths t) = true := by
  have hn : ¬ t ≥ s.n := by omega
  by_cases hst : s.state = 0
  · refine ⟨rmwState s t c.writeAcq false WRITE_LOCKED (.acquired true),
      Drv.local (.cas 0 true 0 WRITE_LOCKED .ok) ?_ (by simp [honest]) (by simp [rmwState])
        (by intro k hk; simp [rmwState, setTh_ths, hk]), by simp [rmwState, holdsW]⟩
    simp [step, hn, hpc, step_wFastCas, casConsistent, hst]
  · refine drv_setpc_then c s t (.wSpin c.spinMax false) (.cas 0 true 0 WRITE_LOCKED (.fail s.state)) ?_ (by simp [honest]) ?_
    · simp [step, hn, hpc, step_wFastCas, casConsistent, hst]
    · exact acqW_spin c _ t (by simpa [setPc] using ht) (by simpa [setPc] using h0) c.spinMax false (by simp [setPc])

theorem acqW_setWait (s : St) (t : Nat) (ht : t < s.n) (h0 : cnt s.state = 0) (st : Nat) (oww : Bool)
    (hpc : (s.ths t).pc = .wSetWait st oww) (hwf : PWf (s.ths t).pc) :
    ∃ s', Drv c s s' t ∧ holdsW (s'.ths t) = true := by
  have hn : ¬ t ≥ s.n := by omega
  have hst : s.state ≠ st := by
    intro hh; subst hh; rw [hpc] at hwf; simp only [PWf] at hwf
    simp [isUnlocked, h0] at hwf
  refine drv_setpc_then c s t (.wCas s.state oww) (.cas 0 false st (orWW st) (.fail s.state)) ?_ (by simp [honest]) ?_
  · simp [step, hn, hpc, step_wSetWait, casConsistent, resOld, wNext_unlocked _ _ h0, hst]
  · exact acqW_casx c _ t (by simpa [setPc] using ht) oww (by simp [setPc])

theorem acqW_stateLoad (s : St) (t : Nat) (ht : t < s.n) (h0 : cnt s.state = 0) (q : Nat)
    (hpc : (s.ths t).pc = .wStateLoad q) : ∃ s', Drv c s s' t ∧ holdsW (s'.ths t) = true := by
  have hn : ¬ t ≥ s.n := by omega
  refine drv_setpc_then c s t (.wCas s.state true) (.load 0 s.state) ?_ (by simp [honest]) ?_
  · have : isUnlocked s.state = true := by simp [isUnlocked, h0]
    simp [step, hn, hpc, step_wStateLoad, this, wNext_unlocked _ _ h0]
  · exact acqW_casx c _ t (by simpa [setPc] using ht) true (by simp [setPc])

theorem acqW_seqLoad (s : St) (t : Nat) (ht : t < s.n) (h0 : cnt s.state = 0)
    (hpc : (s.ths t).pc = .wSeqLoad) : ∃ s', Drv c s s' t ∧ holdsW (s'.ths t) = true := by
  have hn : ¬ t ≥ s.n := by omega
  refine drv_setpc_then c s t (.wStateLoad s.notify) (.load 1 s.notify) ?_ (by simp [honest]) ?_
  · simp [step, hn, hpc, step_wSeqLoad]
  · exact acqW_stateLoad c _ t (by simpa [setPc] using ht) (by simpa [setPc] using h0) s.notify (by simp [setPc])

theorem acqW_parked (s : St) (t : Nat) (ht : t < s.n) (h0 : cnt s.state = 0) (q : Nat)
    (hpc : (s.ths t).pc = .wParked q) : ∃ s', Drv c s s' t ∧ holdsW (s'.ths t) = true := by
  have hn : ¬ t ≥ s.n := by omega
  refine drv_setpc_then c s t (.wSpin c.spinMax true) (.spur false) ?_ (by simp [honest]) ?_
  · simp [step, hn, hpc, step_wParked]
  · exact acqW_spin c _ t (by simpa [setPc] using ht) (by simpa [setPc] using h0) c.spinMax true (by simp [setPc])

theorem acqW_waitSys (s : St) (t : Nat) (ht : t < s.n) (h0 : cnt s.state = 0) (q : Nat)
    (hpc : (s.ths t).pc = .wWaitSys q) : ∃ s', Drv c s s' t ∧ holdsW (s'.ths t) = true := by
  have hn : ¬ t ≥ s.n := by omega
  by_cases hq : s.notify = q
  · refine drv_setpc_then c s t (.wParked q) (.fwait 1 q true) ?_ (by simp [honest]) ?_
    · simp [step, hn, hpc, step_wWaitSys, hq]
    · exact acqW_parked c _ t (by simpa [setPc] using ht) (by simpa [setPc] using h0) q (by simp [setPc])
  · refine drv_setpc_then c s t (.wSpin c.spinMax true) (.fwait 1 q false) ?_ (by simp [honest]) ?_
    · simp [step, hn, hpc, step_wWaitSys, hq]
    · exact acqW_spin c _ t (by simpa [setPc] using ht) (by simpa [setPc] using h0) c.spinMax true (by simp [setPc])

theorem acqW_waitLoad (s : St) (t : Nat) (ht : t < s.n) (h0 : cnt s.state = 0) (q : Nat)
    (hpc : (s.ths t).pc = .wWaitLoad q) : ∃ s', Drv c s s' t ∧ holdsW (s'.ths t) = true := by
  have hn : ¬ t ≥ s.n := by omega
  by_cases hq : s.notify = q
  · refine drv_setpc_then c s t (.wWaitSys q) (.load 1 s.notify) ?_ (by simp [honest]) ?_
    · simp [step, hn, hpc, step_wWaitLoad, hq]
    · exact acqW_waitSys c _ t (by simpa [setPc] using ht) (by simpa [setPc] using h0) q (by simp [setPc])
  · refine drv_setpc_then c s t (.wSpin c.spinMax true) (.load 1 s.notify) ?_ (by simp [honest]) ?_
    · simp [step, hn, hpc, step_wWaitLoad, hq]
    · exact acqW_spin c _ t (by simpa [setPc] using ht) (by simpa [setPc] using h0) c.spinMax true (by simp [setPc])

/-- **with the count field 0 (whatever the waiting bits), a thread anywhere inside `write()` can be driven (alone)
to hold the write guard** -/
theorem acquireW_when_unlocked (s : St) (t : Nat) (ht : t < s.n) (h0 : cnt s.state = 0) (hwf : PWf (s.ths t).pc)
    (hin : inWrite (s.ths t).pc = true) : ∃ s', Drv c s s' t ∧ holdsW (s'.ths t) = true := by
  cases hpc : (s.ths t).pc <;> simp [inWrite, hpc] at hin
  case wFastCas => exact acqW_fast c s t ht h0 hpc
  case wSpin n oww => exact acqW_spin c s t ht h0 n oww hpc
  case wCas st oww => exact acqW_cas c s t ht h0 st oww hpc
  case wSetWait st oww => exact acqW_setWait c s t ht h0 st oww hpc hwf
  case wSeqLoad => exact acqW_seqLoad c s t ht h0 hpc
  case wStateLoad q => exact acqW_stateLoad c s t ht h0 q hpc
  case wWaitLoad q => exact acqW_waitLoad c s t ht h0 q hpc
  case wWaitSys q => exact acqW_waitSys c s t ht h0 q hpc
  case wParked q => exact acqW_parked c s t ht h0 q hpc

end writers

section release
variable (c : Cfg)

theorem out_wakeEntry (x : Nat) : inRead (wakeEntry x) = false ∧ inWrite (wakeEntry x) = false := by
  unfold wakeEntry; repeat' split
  all_goals simp [inRead, inWrite]

theorem out_ite_wake (g : Bool) (x : Nat) :
    inRead (if g = true then wakeEntry x else Pc.idle) = false ∧ inWrite (if g = true then wakeEntry x else Pc.idle) = false := by
  cases g
  · simp [inRead, inWrite]
  · simpa using out_wakeEntry x

/-- what a completed release leaves behind -/
def Released (s s' : St) (u : Nat) (w : Bool) : Prop :=
  s'.state = wsub s.state (if w then WRITE_LOCKED else 1) ∧ inRead (s'.ths u).pc = false ∧ inWrite (s'.ths u).pc = false

/-- the state after the unlocking `fetch_sub` of holder `u` -/
def unlockSt (c : Cfg) (s : St) (u : Nat) (w : Bool) : St :=
  let new := wsub s.state (if w then WRITE_LOCKED else 1)
  let s1 : St := { s with nrel := s.nrel + 1, lastWrel := if w then s.nrel + 1 else s.lastWrel }
  let go := if w then (hasWW new || hasRW new) else (isUnlocked new && hasWW new)
  rmwState (setTh s1 u { s.ths u with prog := popTxn (s.ths u) }) u false (if w then c.writeRel else c.readRel) new
    (if go then wakeEntry new else .idle)

theorem step_unlock_eq (s : St) (u : Nat) (w : Bool) :
    step_unlock c s u (s.ths u) w (.fsub 0 (if w then WRITE_LOCKED else 1) s.state) = some (unlockSt c s u w) := by
  cases w <;> simp [step_unlock, unlockSt]

theorem release_unlock (s : St) (u : Nat) (hu : u < s.n) (w : Bool) (hpc : (s.ths u).pc = .unlock w) :
    ∃ s', Drv c s s' u ∧ Released s s' u w := by
  have hn : ¬ u ≥ s.n := by omega
  have h1 : step c s u (.fsub 0 (if w then WRITE_LOCKED else 1) s.state) = some (unlockSt c s u w) := by
    simp only [step, hn, hpc, if_false]
    exact step_unlock_eq c s u w
  refine ⟨unlockSt c s u w, Drv.local _ h1 (by simp [honest]) (by simp [unlockSt, rmwState])
    (by intro k hk; simp [unlockSt, rmwState, setTh_ths, hk]), ?_⟩
  refine ⟨by simp [unlockSt, rmwState], ?_, ?_⟩
  · simp only [unlockSt, rmwState, setTh_ths_same]; exact (out_ite_wake _ _).1
  · simp only [unlockSt, rmwState, setTh_ths_same]; exact (out_ite_wake _ _).2

theorem released_of_setpc (s s' : St) (u : Nat) (w : Bool) (pc' : Pc) (h : Released (setPc s u pc') s' u w) :
    Released s s' u w := h

theorem release_hold (s : St) (u : Nat) (hu : u < s.n) (w : Bool) (k : Nat) (hpc : (s.ths u).pc = .hold w k) :
    ∃ s', Drv c s s' u ∧ Released s s' u w := by
  have hn : ¬ u ≥ s.n := by omega
  induction k generalizing s with
  | zero =>
    have h1 : step c s u .rel = some (setPc s u (.unlock w)) := by
      simp [step, hn, hpc, step_hold]
    obtain ⟨s2, d2, r2⟩ := release_unlock c (setPc s u (.unlock w)) u (by simpa [setPc] using hu) w (by simp [setPc])
    exact ⟨s2, (Drv.local .rel h1 (by simp [honest]) rfl (by intro j hj; simp [setPc, setTh_ths, hj])).trans d2, r2⟩
  | succ k ih =>
    let s0 : St := { s with raced := s.raced ||
        (if w then decide ((s.ths u).seen < s.nrel) else decide ((s.ths u).seen < s.lastWrel)) }
    have h1 : step c s u .data = some (setPc s0 u (.hold w k)) := by
      simp [step, hn, hpc, step_hold, s0]
    obtain ⟨s2, d2, r2⟩ := ih (setPc s0 u (.hold w k)) (by simpa [setPc, s0] using hu) (by simp [setPc])
      (by simpa [setPc, s0] using hn)
    exact ⟨s2, (Drv.local .data h1 (by simp [honest]) rfl (by intro j hj; simp [setPc, setTh_ths, hj, s0])).trans d2, r2⟩

theorem release_acquired (s : St) (u : Nat) (hu : u < s.n) (w : Bool) (hpc : (s.ths u).pc = .acquired w)
    (hpg : (s.ths u).prog ≠ []) : ∃ s', Drv c s s' u ∧ Released s s' u w := by
  have hn : ¬ u ≥ s.n := by omega
  cases hprog : (s.ths u).prog with
  | nil => exact absurd hprog hpg
  | cons tx rest =>
    have h1 : step c s u .acq = some (setPc s u (.hold w tx.acc)) := by
      simp [step, hn, hpc, step_acquired, hprog]
    obtain ⟨s2, d2, r2⟩ := release_hold c (setPc s u (.hold w tx.acc)) u (by simpa [setPc] using hu) w tx.acc (by simp [setPc])
    exact ⟨s2, (Drv.local .acq h1 (by simp [honest]) rfl (by intro j hj; simp [setPc, setTh_ths, hj])).trans d2, r2⟩

/-- a guard holder can run its critical section and its unlocking `fetch_sub` -/
theorem release_holder (s : St) (u : Nat) (hu : u < s.n) (hl : LInv false s) (w : Bool)
    (hh : (if w then holdsW (s.ths u) else holdsR (s.ths u)) = true) : ∃ s', Drv c s s' u ∧ Released s s' u w := by
  have hpg := hl.pg u
  cases hpc : (s.ths u).pc with
  | acquired w' =>
    have : w' = w := by cases w <;> cases w' <;> simp_all [holdsR, holdsW]
    subst this; exact release_acquired c s u hu _ hpc (hpg (by rw [hpc]; rfl))
  | hold w' k =>
    have : w' = w := by cases w <;> cases w' <;> simp_all [holdsR, holdsW]
    subst this; exact release_hold c s u hu _ k hpc
  | unlock w' =>
    have : w' = w := by cases w <;> cases w' <;> simp_all [holdsR, holdsW]
    subst this; exact release_unlock c s u hu _ hpc
  | _ => cases w <;> simp [holdsR, holdsW, hpc] at hh

end release

/-! ### counting the threads inside `write()` -/

def Wc (s : St) : Nat := (List.range s.n).countP (fun j => inWrite (s.ths j).pc)

theorem wc_drv {c : Cfg} {s s' : St} {u : Nat} (h : Drv c s s' u) (hu : u < s.n) :
    Wc s' + (if inWrite (s.ths u).pc then 1 else 0) = Wc s + (if inWrite (s'.ths u).pc then 1 else 0) := by
  obtain ⟨_, _, hn, ho⟩ := h
  unfold Wc
  rw [hn]
  exact countP_range_update (fun j => inWrite (s.ths j).pc) (fun j => inWrite (s'.ths j).pc) s.n u hu
    (fun j hj => (ho j hj).2)

theorem wc_pos (s : St) (j : Nat) (hj : j < s.n) (h : inWrite (s.ths j).pc = true) : 1 ≤ Wc s := by
  unfold Wc
  apply List.countP_pos_iff.mpr
  exact ⟨j, by simpa using hj, h⟩

/-! ### the wake path clears the waiting bits -/

section wake
variable (c : Cfg)

/-- outcome of running `j`'s wake path: the word is clear, or it is unlocked and a writer (just woken) is inside
`write()`; `j` itself is not inside `write()` -/
def WakeDone (s' : St) (j : Nat) : Prop :=
  inWrite (s'.ths j).pc = false ∧
  (s'.state = 0 ∨ (cnt s'.state = 0 ∧ ∃ j', j' < s'.n ∧ inWrite (s'.ths j').pc = true))

theorem wp_kCasC (s : St) (j : Nat) (hj : j < s.n) (hst : s.state = RW) (hpc : (s.ths j).pc = .kCasC) :
    ∃ s', Drv c s s' j ∧ WakeDone s' j := by
  have hn : ¬ j ≥ s.n := by omega
  refine ⟨rmwState s j false false 0 .kWakeR,
    Drv.local (.cas 0 false RW 0 .ok) ?_ (by simp [honest]) (by simp [rmwState])
      (by intro k hk; simp [rmwState, setTh_ths, hk]), by simp [rmwState, inWrite], Or.inl (by simp [rmwState])⟩
  simp [step, hn, hpc, step_kCasC, casConsistent, hst]

theorem fr_wakeAll (s : St) (l : List Nat) (k : Nat) : Fr (s.ths k) ((wakeAll c s l).ths k) := by
  rcases wakeAll_pc c s l k with h | h
  · exact ⟨by rw [h], by rw [h]⟩
  · exact ⟨by rw [h, inRead_woken], by rw [h, inWrite_woken]⟩

theorem wakeAll_n (s : St) (l : List Nat) : (wakeAll c s l).n = s.n := by
  induction l generalizing s with
  | nil => rfl
  | cons k rest ih => simp only [wakeAll]; rw [ih]; rfl

theorem wp_kWakeW (s : St) (j : Nat) (hj : j < s.n) (hst : s.state = RW) (hpc : (s.ths j).pc = .kWakeW true) :
    ∃ s', Drv c s s' j ∧ WakeDone s' j := by
  have hn : ¬ j ≥ s.n := by omega
  cases hpl : parkedList s 1 with
  | nil =>
    have h1 : step c s j (.fwake 1 1 []) = some (setPc s j .kCasC) := by
      simp [step, hn, hpc, step_kWakeW, hpl]
    obtain ⟨s2, d2, r2⟩ := wp_kCasC c (setPc s j .kCasC) j (by simpa [setPc] using hj) (by simpa [setPc] using hst) (by simp [setPc])
    exact ⟨s2, (Drv.local _ h1 (by simp [honest]) rfl (by intro k hk; simp [setPc, setTh_ths, hk])).trans d2, r2⟩
  | cons j' rest =>
    have hmem : j' ∈ parkedList s 1 := by rw [hpl]; simp
    obtain ⟨hjn, hjp⟩ := (parkedList_mem s 1 j').mp hmem
    rw [parkedOn1_eq] at hjp
    have hji : j' ≠ j := by
      intro hh; subst hh; rw [hpc] at hjp; simp [wparked] at hjp
    have hjw : inWrite (s.ths j').pc = true := by
      cases hq : (s.ths j').pc <;> simp [hq, wparked] at hjp
      rfl
    have h1 : step c s j (.fwake 1 1 [j']) = some (setPc (wakeAll c s [j']) j .idle) := by
      simp [step, hn, hpc, step_kWakeW, hpl]
    refine ⟨setPc (wakeAll c s [j']) j .idle, Drv.one _ h1 (by simp [honest]) (by simp [setPc, wakeAll_n]) ?_, ?_, ?_⟩
    · intro k hk
      simp only [setPc, setTh_ths, hk, if_false]
      exact fr_wakeAll c s [j'] k
    · simp [setPc, inWrite]
    · right
      refine ⟨by simp [setPc, wakeAll_state, hst, cnt], j', by simpa [setPc, wakeAll_n] using hjn, ?_⟩
      simp only [setPc, setTh_ths, hji, if_false]
      rw [(fr_wakeAll c s [j'] j').2]; exact hjw

theorem wp_kNotify (s : St) (j : Nat) (hj : j < s.n) (hst : s.state = RW) (hpc : (s.ths j).pc = .kNotify true) :
    ∃ s', Drv c s s' j ∧ WakeDone s' j := by
  have hn : ¬ j ≥ s.n := by omega
  let s0 : St := { s with notify := wadd s.notify 1 }
  have h1 : step c s j (.fadd 1 1 s.notify) = some (setPc s0 j (.kWakeW true)) := by
    simp [step, hn, hpc, step_kNotify, s0]
  obtain ⟨s2, d2, r2⟩ := wp_kWakeW c (setPc s0 j (.kWakeW true)) j (by simpa [setPc, s0] using hj)
    (by simpa [setPc, s0] using hst) (by simp [setPc])
  exact ⟨s2, (Drv.local _ h1 (by simp [honest]) rfl (by intro k hk; simp [setPc, setTh_ths, hk, s0])).trans d2, r2⟩

theorem wp_kCasB (s : St) (j : Nat) (hj : j < s.n) (hst : s.state = RW + WW) (hpc : (s.ths j).pc = .kCasB (RW + WW)) :
    ∃ s', Drv c s s' j ∧ WakeDone s' j := by
  have hn : ¬ j ≥ s.n := by omega
  have h1 : step c s j (.cas 0 false (RW + WW) RW .ok) = some (rmwState s j false false RW (.kNotify true)) := by
    simp [step, hn, hpc, step_kCasB, casConsistent, hst]
  obtain ⟨s2, d2, r2⟩ := wp_kNotify c (rmwState s j false false RW (.kNotify true)) j (by simpa [rmwState] using hj)
    (by simp [rmwState]) (by simp [rmwState])
  exact ⟨s2, (Drv.local _ h1 (by simp [honest]) (by simp [rmwState])
    (by intro k hk; simp [rmwState, setTh_ths, hk])).trans d2, r2⟩

theorem wp_kCasA (s : St) (j : Nat) (hj : j < s.n) (hst : s.state = WW ∨ s.state = RW + WW)
    (hpc : (s.ths j).pc = .kCasA WW) : ∃ s', Drv c s s' j ∧ WakeDone s' j := by
  have hn : ¬ j ≥ s.n := by omega
  rcases hst with hst | hst
  · refine ⟨rmwState s j false false 0 (.kNotify false),
      Drv.local (.cas 0 false WW 0 .ok) ?_ (by simp [honest]) (by simp [rmwState])
        (by intro k hk; simp [rmwState, setTh_ths, hk]), by simp [rmwState, inWrite], Or.inl (by simp [rmwState])⟩
    simp [step, hn, hpc, step_kCasA, casConsistent, hst]
  · have h1 : step c s j (.cas 0 false WW 0 (.fail (RW + WW))) = some (setPc s j (.kCasB (RW + WW))) := by
      simp [step, hn, hpc, step_kCasA, casConsistent, hst, resOld]
      rw [wakeAfterA_RWWW]
    obtain ⟨s2, d2, r2⟩ := wp_kCasB c (setPc s j (.kCasB (RW + WW))) j (by simpa [setPc] using hj)
      (by simpa [setPc] using hst) (by simp [setPc])
    exact ⟨s2, (Drv.local _ h1 (by simp [honest]) rfl (by intro k hk; simp [setPc, setTh_ths, hk])).trans d2, r2⟩

/-- a thread on the wake path whose pending operation matches the (unlocked, bits set) word can complete it -/
theorem wake_progress (s : St) (j : Nat) (hj : j < s.n) (hr : RInv s)
    (hcov : cov false s.state (s.ths j).pc = true) (hnw : inWrite (s.ths j).pc = false) :
    ∃ s', Drv c s s' j ∧ WakeDone s' j := by
  have hwf := hr.pcwf j
  cases hpc : (s.ths j).pc <;> simp [cov, inWrite, hpc] at hcov hnw
  case kCasA st =>
    rw [hpc] at hwf; simp only [PcWf] at hwf; subst hwf
    exact wp_kCasA c s j hj hcov hpc
  case kCasB st =>
    rw [hpc] at hwf; simp only [PcWf] at hwf; subst hwf
    exact wp_kCasB c s j hj hcov hpc
  case kNotify fb =>
    cases fb <;> simp [cov] at hcov
    exact wp_kNotify c s j hj hcov hpc
  case kWakeW fb =>
    cases fb <;> simp [cov] at hcov
    exact wp_kWakeW c s j hj hcov hpc
  case kCasC => exact wp_kCasC c s j hj hcov hpc

end wake

/-! ### assembling the schedule -/

section main
variable (c : Cfg) (hc : c.Good)

/-- `s'` is reached from `s` by honest steps and thread `t` is still inside the same call -/
def Go (c : Cfg) (s s' : St) (t : Nat) : Prop :=
  ∃ evs : List (Nat × Ev), runH c s evs = some s' ∧ s'.n = s.n ∧ Fr (s.ths t) (s'.ths t)

theorem Go.refl (c : Cfg) (s : St) (t : Nat) : Go c s s t := ⟨[], rfl, rfl, Fr.refl _⟩

theorem Go.trans {c : Cfg} {s s1 s2 : St} {t : Nat} (h1 : Go c s s1 t) (h2 : Go c s1 s2 t) : Go c s s2 t := by
  obtain ⟨e1, r1, n1, o1⟩ := h1
  obtain ⟨e2, r2, n2, o2⟩ := h2
  refine ⟨e1 ++ e2, ?_, by rw [n2, n1], o1.trans o2⟩
  rw [runH_append, r1]; exact r2

theorem Drv.go {c : Cfg} {s s' : St} {u t : Nat} (h : Drv c s s' u) (htu : t ≠ u) : Go c s s' t := by
  obtain ⟨evs, r, n, o⟩ := h
  exact ⟨evs, r, n, o t htu⟩

theorem Drv.go_self {c : Cfg} {s s' : St} {t : Nat} (h : Drv c s s' t) (hf : Fr (s.ths t) (s'.ths t)) : Go c s s' t := by
  obtain ⟨evs, r, n, o⟩ := h
  exact ⟨evs, r, n, hf⟩

include hc in
theorem Go.inv {s s' : St} {t : Nat} (h : Go c s s' t) (hi : AllInv s) : AllInv s' := by
  obtain ⟨evs, r, _, _⟩ := h
  exact runH_allinv c hc s s' evs r hi

theorem Drv.n_eq {c : Cfg} {s s' : St} {u : Nat} (h : Drv c s s' u) : s'.n = s.n := by
  obtain ⟨_, _, n, _⟩ := h; exact n

theorem cov_inRead (b : Bool) (x : Nat) (pc : Pc) (h : inRead pc = true) : cov b x pc = false := by
  cases pc <;> simp_all [inRead, cov]

theorem inRead_not_inWrite (pc : Pc) (h : inRead pc = true) : inWrite pc = false := by
  cases pc <;> simp_all [inRead, inWrite]

theorem inAcq_not_holds (t : Th) (h : inRead t.pc = true ∨ inWrite t.pc = true) : holdsR t = false ∧ holdsW t = false := by
  unfold holdsR holdsW
  cases hp : t.pc <;> simp_all [inRead, inWrite]

theorem cov_lt (b : Bool) (s : St) (hr : RInv s) (j : Nat) (h : cov b s.state (s.ths j).pc = true) : j < s.n := by
  by_cases hj : j < s.n
  · exact hj
  · have := hr.outside j (by omega); rw [this] at h; simp [cov] at h

include hc in
/-- a writer inside `write()` takes the unlocked word, runs its critical section and unlocks -/
theorem writer_round (s : St) (j : Nat) (hj : j < s.n) (hi : AllInv s) (h0 : cnt s.state = 0)
    (hin : inWrite (s.ths j).pc = true) :
    ∃ s', Drv c s s' j ∧ cnt s'.state = 0 ∧ inWrite (s'.ths j).pc = false := by
  obtain ⟨s1, d1, hw⟩ := acquireW_when_unlocked c s j hj h0 (hi.l.wf j) hin
  have hi1 := d1.inv hc hi
  have hj1 : j < s1.n := by rw [d1.n_eq]; exact hj
  obtain ⟨s2, d2, r2⟩ := release_holder c s1 j hj1 hi1.l true (by simpa using hw)
  have hwl : cnt s1.state = WRITE_LOCKED := hi1.r.wl.mpr ⟨j, hw⟩
  obtain ⟨_, f0, _⟩ := unlockW_facts s1.state hi1.r.lt32 hwl
  refine ⟨s2, d1.trans d2, ?_, r2.2.2⟩
  rw [r2.1]; simpa using f0

include hc in
theorem clear_step (t : Nat) (s : St) (hi : AllInv s) (ht : t < s.n) (hin : inRead (s.ths t).pc = true)
    (h0 : cnt s.state = 0) (hz : s.state ≠ 0) :
    ∃ s1, Go c s s1 t ∧ (s1.state = 0 ∨ (cnt s1.state = 0 ∧ Wc s1 < Wc s)) := by
  obtain ⟨j, hjc⟩ := hi.l.bc h0 hz
  have hj : j < s.n := cov_lt false s hi.r j hjc
  have htj : t ≠ j := by
    intro hh; subst hh; rw [cov_inRead _ _ _ hin] at hjc; cases hjc
  cases hjw : inWrite (s.ths j).pc with
  | true =>
    obtain ⟨s1, d1, c1, w1⟩ := writer_round c hc s j hj hi h0 hjw
    have := wc_drv d1 hj
    rw [hjw, w1] at this
    exact ⟨s1, d1.go htj, Or.inr ⟨c1, by simp at this; omega⟩⟩
  | false =>
    obtain ⟨s1, d1, w1, hcase⟩ := wake_progress c s j hj hi.r hjc hjw
    have hwc := wc_drv d1 hj
    rw [hjw, w1] at hwc
    have g1 := d1.go htj
    rcases hcase with hz1 | ⟨c1, j', hj', hjw'⟩
    · exact ⟨s1, g1, Or.inl hz1⟩
    · have hi1 := d1.inv hc hi
      obtain ⟨s2, d2, c2, w2⟩ := writer_round c hc s1 j' hj' hi1 c1 hjw'
      have hwc2 := wc_drv d2 hj'
      rw [hjw', w2] at hwc2
      have htj' : t ≠ j' := by
        intro hh; subst hh
        obtain ⟨_, _, _, fr⟩ := g1
        have : inRead (s1.ths t).pc = true := by rw [fr.1]; exact hin
        rw [inRead_not_inWrite _ this] at hjw'; cases hjw'
      exact ⟨s2, g1.trans (d2.go htj'), Or.inr ⟨c2, by simp at hwc hwc2; omega⟩⟩

include hc in
/-- **from an unlocked word, the waiting bits can be cleared** by the threads whose job that is: a thread inside
`wake_writer_or_readers` finishes its pending CAS / wake; a writer inside `write()` (woken by that wake, or resuming
through a futex return) takes the lock, releases it and runs the wake path in turn -/
theorem clear_bits (t : Nat) : ∀ (k : Nat) (s : St), AllInv s → t < s.n → inRead (s.ths t).pc = true → Wc s ≤ k →
    cnt s.state = 0 → ∃ s', Go c s s' t ∧ s'.state = 0 := by
  intro k
  induction k with
  | zero =>
    intro s hi ht hin hk h0
    by_cases hz : s.state = 0
    · exact ⟨s, Go.refl c s t, hz⟩
    · obtain ⟨s1, g1, h1 | ⟨_, h1⟩⟩ := clear_step c hc t s hi ht hin h0 hz
      · exact ⟨s1, g1, h1⟩
      · omega
  | succ k ih =>
    intro s hi ht hin hk h0
    by_cases hz : s.state = 0
    · exact ⟨s, Go.refl c s t, hz⟩
    · obtain ⟨s1, g1, h1 | ⟨c1, h1⟩⟩ := clear_step c hc t s hi ht hin h0 hz
      · exact ⟨s1, g1, h1⟩
      · have hi1 := g1.inv c hc hi
        obtain ⟨_, _, n1, fr1⟩ := id g1
        obtain ⟨s2, g2, h2⟩ := ih s1 hi1 (by rw [n1]; exact ht) (by rw [fr1.1]; exact hin) (by omega) c1
        exact ⟨s2, g1.trans g2, h2⟩

theorem cnt_sub_one (x : Nat) (hlt : x < TWO32) (h1 : 1 ≤ cnt x) : cnt (wsub x 1) + 1 = cnt x := by
  unfold wsub; simp only [cnt, RW, TWO32] at *; omega

include hc in
theorem release_readers (t : Nat) : ∀ (m : Nat) (s : St), AllInv s → t < s.n →
    (inRead (s.ths t).pc = true ∨ inWrite (s.ths t).pc = true) → cnt s.state ≠ WRITE_LOCKED → cnt s.state ≤ m →
    ∃ s', Go c s s' t ∧ cnt s'.state = 0 := by
  intro m
  induction m with
  | zero => intro s _ _ _ _ hm; exact ⟨s, Go.refl c s t, by omega⟩
  | succ m ih =>
    intro s hi ht hin hnw hm
    by_cases h0 : cnt s.state = 0
    · exact ⟨s, Go.refl c s t, h0⟩
    · have hcr := hi.r.cntR hnw
      -- some thread holds a read guard
      have hex : ∃ u, u < s.n ∧ holdsR (s.ths u) = true := by
        apply Classical.byContradiction
        intro hno
        have : nR s = 0 := by
          unfold nR
          rw [countP_range_zero_iff]
          intro j hj
          cases hh : holdsR (s.ths j) with
          | false => rfl
          | true => exact absurd ⟨j, hj, hh⟩ hno
        omega
      obtain ⟨u, hu, hur⟩ := hex
      have htu : t ≠ u := by
        intro hh; subst hh; rw [(inAcq_not_holds _ hin).1] at hur; cases hur
      obtain ⟨s1, d1, r1⟩ := release_holder c s u hu hi.l false (by simpa using hur)
      have g1 := d1.go htu
      have hi1 := d1.inv hc hi
      have hc1 := cnt_sub_one s.state hi.r.lt32 (by omega)
      have hs1 : s1.state = wsub s.state 1 := by simpa using r1.1
      obtain ⟨_, _, n1, fr1⟩ := id g1
      have hne1 : cnt (wsub s.state 1) ≠ WRITE_LOCKED := by
        simp only [cnt, RW, WRITE_LOCKED] at hc1 hnw ⊢; omega
      obtain ⟨s2, g2, h2⟩ := ih s1 hi1 (by rw [n1]; exact ht) (by rw [fr1.1, fr1.2]; exact hin)
        (by rw [hs1]; exact hne1) (by rw [hs1]; omega)
      exact ⟨s2, g1.trans g2, h2⟩

include hc in
/-- **every guard holder can release**: after the holders' critical sections and unlocking `fetch_sub`s the count
field is 0 (no guard is held) -/
theorem release_all_holders (t : Nat) (s : St) (hi : AllInv s) (ht : t < s.n)
    (hin : inRead (s.ths t).pc = true ∨ inWrite (s.ths t).pc = true) :
    ∃ s', Go c s s' t ∧ cnt s'.state = 0 := by
  by_cases hw : cnt s.state = WRITE_LOCKED
  · obtain ⟨u, huw⟩ := hi.r.wl.mp hw
    have hu := holdsW_lt s hi.r u huw
    have htu : t ≠ u := by
      intro hh; subst hh; rw [(inAcq_not_holds _ hin).2] at huw; cases huw
    obtain ⟨s1, d1, r1⟩ := release_holder c s u hu hi.l true (by simpa using huw)
    obtain ⟨_, f0, _⟩ := unlockW_facts s.state hi.r.lt32 hw
    exact ⟨s1, d1.go htu, by rw [r1.1]; simpa using f0⟩
  · exact release_readers c hc t (cnt s.state) s hi ht hin hw (Nat.le_refl _)

include hc in
theorem can_acquire_write (s : St) (hi : AllInv s) (t : Nat) (ht : t < s.n) (hin : inWrite (s.ths t).pc = true) :
    ∃ evs s', runH c s evs = some s' ∧ holdsW (s'.ths t) = true := by
  obtain ⟨s1, g1, c1⟩ := release_all_holders c hc t s hi ht (Or.inr hin)
  have hi1 := g1.inv c hc hi
  obtain ⟨e1, r1, n1, fr1⟩ := g1
  obtain ⟨s2, ⟨e2, r2, _, _⟩, hw⟩ := acquireW_when_unlocked c s1 t (by rw [n1]; exact ht) c1 (hi1.l.wf t)
    (by rw [fr1.2]; exact hin)
  exact ⟨e1 ++ e2, s2, by rw [runH_append, r1]; exact r2, hw⟩

include hc in
theorem can_acquire_read (s : St) (hi : AllInv s) (t : Nat) (ht : t < s.n) (hin : inRead (s.ths t).pc = true) :
    ∃ evs s', runH c s evs = some s' ∧ holdsR (s'.ths t) = true := by
  obtain ⟨s1, g1, c1⟩ := release_all_holders c hc t s hi ht (Or.inl hin)
  have hi1 := g1.inv c hc hi
  obtain ⟨_, _, n1, fr1⟩ := id g1
  obtain ⟨s2, g2, z2⟩ := clear_bits c hc t (Wc s1) s1 hi1 (by rw [n1]; exact ht) (by rw [fr1.1]; exact hin)
    (Nat.le_refl _) c1
  have hi2 := g2.inv c hc hi1
  obtain ⟨e12, r12, n2, fr2⟩ := g1.trans g2
  obtain ⟨s3, ⟨e3, r3, _, _⟩, hr⟩ := acquireR_when_clear c s2 t (by rw [n2]; exact ht) z2 (hi2.l.wf t)
    (by rw [fr2.1]; exact hin)
  exact ⟨e12 ++ e3, s3, by rw [runH_append, r12]; exact r3, hr⟩

end main


/-! ## Part 3: no deadlock (for the restricted relation in which both wake-up invariants hold) -/

/-- neither idle, nor parked in the kernel, nor panicked -/
def awake : Pc → Bool
  | .idle | .rParked _ | .wParked _ | .panicked => false
  | _ => true

theorem enabled_of_awake (t : Th) (h : awake t.pc = true) : enabled t = true := by
  unfold enabled isParked parkedOn finished
  cases hp : t.pc <;> simp_all [awake]

theorem awake_of_cov (x : Nat) (pc : Pc) (h : cov true x pc = true) : awake pc = true := by
  cases pc <;> simp_all [cov, awake]

theorem awake_of_isR (pc : Pc) (h : pc.isR = true) : awake pc = true := by
  cases pc <;> simp_all [Pc.isR, awake]
theorem awake_of_isW (pc : Pc) (h : pc.isW = true) : awake pc = true := by
  cases pc <;> simp_all [Pc.isW, awake]
theorem awake_of_pendW (pc : Pc) (h : pendW pc = true) : awake pc = true := by
  cases pc <;> simp_all [pendW, awake]
theorem awake_of_owing (pc : Pc) (h : owing pc = true) : awake pc = true := by
  cases pc <;> simp_all [owing, awake]

theorem lt_of_awake (s : St) (hr : RInv s) (j : Nat) (h : awake (s.ths j).pc = true) : j < s.n := by
  by_cases hj : j < s.n
  · exact hj
  · have := hr.outside j (by omega); rw [this] at h; simp [awake] at h

/-- **whenever a thread is parked, some thread is enabled** (given the safety invariant, both wake-up invariants and
the strict cover invariant) -/
theorem parked_implies_enabled (s : St) (hr : RInv s) (hq : RQ2 s) (hw : WQ s) (hl : LInv true s)
    (hp : ∃ t, isParked (s.ths t) = true) : ∃ j, j < s.n ∧ enabled (s.ths j) = true := by
  -- it suffices to find an awake thread
  suffices h : ∃ j, awake (s.ths j).pc = true by
    obtain ⟨j, hj⟩ := h
    exact ⟨j, lt_of_awake s hr j hj, enabled_of_awake _ hj⟩
  apply Classical.byContradiction
  intro hno
  have hna : ∀ j, awake (s.ths j).pc = false := by
    intro j
    cases h : awake (s.ths j).pc with
    | false => rfl
    | true => exact absurd ⟨j, h⟩ hno
  -- nobody holds a guard, so the count field is 0
  have hnW : ∀ j, holdsW (s.ths j) = false := by
    intro j
    cases h : holdsW (s.ths j) with
    | false => rfl
    | true => rw [holdsW_eq] at h; have := awake_of_isW _ h; rw [hna j] at this; cases this
  have hnR : ∀ j, holdsR (s.ths j) = false := by
    intro j
    cases h : holdsR (s.ths j) with
    | false => rfl
    | true => rw [holdsR_eq] at h; have := awake_of_isR _ h; rw [hna j] at this; cases this
  have hnwl : cnt s.state ≠ WRITE_LOCKED := by
    intro h; obtain ⟨j, hj⟩ := hr.wl.mp h; rw [hnW j] at hj; cases hj
  have h0 : cnt s.state = 0 := by
    rw [hr.cntR hnwl]
    unfold nR
    rw [countP_range_zero_iff]
    intro j _; exact hnR j
  -- a parked thread keeps a waiting bit alive
  have hne : s.state ≠ 0 := by
    obtain ⟨t, ht⟩ := hp
    unfold isParked at ht
    rw [Bool.or_eq_true] at ht
    intro hz
    rcases ht with ht | ht
    · rcases hq.rq ⟨t, ht⟩ with hb | ⟨j, hj⟩
      · rw [hz] at hb; exact absurd hb (by decide)
      · have := hna j; rw [hj] at this; simp [awake] at this
    · rw [parkedOn1_eq] at ht
      rcases hw.park ⟨t, ht⟩ with hb | ⟨j, hj⟩ | ⟨j, hj⟩
      · rw [hz] at hb; exact absurd hb (by decide)
      · have := awake_of_pendW _ hj; rw [hna j] at this; cases this
      · have := awake_of_owing _ hj; rw [hna j] at this; cases this
  obtain ⟨j, hj⟩ := hl.bc h0 hne
  have := awake_of_cov _ _ hj
  rw [hna j] at this; cases this

/-- an enabled thread has a step (its next atomic operation / futex call is always defined) -/
theorem enabled_can_step (c : Cfg) (s : St) (hl : LInv false s) (j : Nat) (hj : j < s.n) (he : enabled (s.ths j) = true) :
    ∃ e s', step c s j e = some s' := by
  have hn : ¬ j ≥ s.n := by omega
  have hpg := hl.pg j
  cases hpc : (s.ths j).pc
  case idle =>
    have : (s.ths j).prog ≠ [] := by
      intro h; simp [enabled, finished, hpc, h] at he
    cases hprog : (s.ths j).prog with
    | nil => exact absurd hprog this
    | cons tx rest => exact ⟨.call tx.kind, _, by simp [step, hn, hpc, step_idle, hprog]; rfl⟩
  case rLoad => exact ⟨.load 0 s.state, _, by simp [step, hn, hpc, step_rLoad]; rfl⟩
  case rFastCas st =>
    by_cases h : s.state = st
    · exact ⟨.cas 0 true st (st + 1) .ok, _, by simp [step, hn, hpc, step_rFastCas, casConsistent, h]; rfl⟩
    · exact ⟨.cas 0 true st (st + 1) (.fail s.state), _, by simp [step, hn, hpc, step_rFastCas, casConsistent, h]; rfl⟩
  case rSpin n => exact ⟨.load 0 s.state, _, by simp [step, hn, hpc, step_rSpin]; rfl⟩
  case rCas st =>
    by_cases h : s.state = st
    · exact ⟨.cas 0 true st (st + 1) .ok, _, by simp [step, hn, hpc, step_rCas, casConsistent, h]; rfl⟩
    · exact ⟨.cas 0 true st (st + 1) (.fail s.state), _, by simp [step, hn, hpc, step_rCas, casConsistent, h]; rfl⟩
  case rSetWait st =>
    by_cases h : s.state = st
    · exact ⟨.cas 0 false st (orRW st) .ok, _, by simp [step, hn, hpc, step_rSetWait, casConsistent, h]; rfl⟩
    · exact ⟨.cas 0 false st (orRW st) (.fail s.state), _, by simp [step, hn, hpc, step_rSetWait, casConsistent, h]; rfl⟩
  case rWaitLoad ex => exact ⟨.load 0 s.state, _, by simp [step, hn, hpc, step_rWaitLoad]; rfl⟩
  case rWaitSys ex =>
    by_cases h : s.state = ex
    · exact ⟨.fwait 0 ex true, _, by simp [step, hn, hpc, step_rWaitSys, h]; rfl⟩
    · exact ⟨.fwait 0 ex false, _, by simp [step, hn, hpc, step_rWaitSys, h]; rfl⟩
  case rParked ex => simp [enabled, isParked, parkedOn, hpc] at he
  case tLoad w => exact ⟨.load 0 s.state, _, by simp [step, hn, hpc, step_tLoad]; rfl⟩
  case tCas w st =>
    by_cases h : s.state = st
    · exact ⟨.cas 0 true st (if w then st + WRITE_LOCKED else st + 1) .ok, _, by simp [step, hn, hpc, step_tCas, casConsistent, h]; rfl⟩
    · exact ⟨.cas 0 true st (if w then st + WRITE_LOCKED else st + 1) (.fail s.state), _,
        by simp [step, hn, hpc, step_tCas, casConsistent, h]; rfl⟩
  case tryFailed => exact ⟨.tryfail, _, by simp [step, hn, hpc, step_tryFailed]; rfl⟩
  case wFastCas =>
    by_cases h : s.state = 0
    · exact ⟨.cas 0 true 0 WRITE_LOCKED .ok, _, by simp [step, hn, hpc, step_wFastCas, casConsistent, h]; rfl⟩
    · exact ⟨.cas 0 true 0 WRITE_LOCKED (.fail s.state), _, by simp [step, hn, hpc, step_wFastCas, casConsistent, h]; rfl⟩
  case wSpin n oww => exact ⟨.load 0 s.state, _, by simp [step, hn, hpc, step_wSpin]; rfl⟩
  case wCas st oww =>
    by_cases h : s.state = st
    · exact ⟨.cas 0 true st (orWL st oww) .ok, _, by simp [step, hn, hpc, step_wCas, casConsistent, h]; rfl⟩
    · exact ⟨.cas 0 true st (orWL st oww) (.fail s.state), _, by simp [step, hn, hpc, step_wCas, casConsistent, h]; rfl⟩
  case wSetWait st oww =>
    by_cases h : s.state = st
    · exact ⟨.cas 0 false st (orWW st) .ok, _, by simp [step, hn, hpc, step_wSetWait, casConsistent, h]; rfl⟩
    · exact ⟨.cas 0 false st (orWW st) (.fail s.state), _, by simp [step, hn, hpc, step_wSetWait, casConsistent, h]; rfl⟩
  case wSeqLoad => exact ⟨.load 1 s.notify, _, by simp [step, hn, hpc, step_wSeqLoad]; rfl⟩
  case wStateLoad q => exact ⟨.load 0 s.state, _, by simp [step, hn, hpc, step_wStateLoad]; rfl⟩
  case wWaitLoad q => exact ⟨.load 1 s.notify, _, by simp [step, hn, hpc, step_wWaitLoad]; rfl⟩
  case wWaitSys q =>
    by_cases h : s.notify = q
    · exact ⟨.fwait 1 q true, _, by simp [step, hn, hpc, step_wWaitSys, h]; rfl⟩
    · exact ⟨.fwait 1 q false, _, by simp [step, hn, hpc, step_wWaitSys, h]; rfl⟩
  case wParked q => simp [enabled, isParked, parkedOn, hpc] at he
  case acquired w =>
    have := hpg (by rw [hpc]; rfl)
    cases hprog : (s.ths j).prog with
    | nil => exact absurd hprog this
    | cons tx rest => exact ⟨.acq, _, by simp [step, hn, hpc, step_acquired, hprog]; rfl⟩
  case hold w k =>
    cases k with
    | zero => exact ⟨.rel, _, by simp [step, hn, hpc, step_hold]; rfl⟩
    | succ k => exact ⟨.data, _, by simp [step, hn, hpc, step_hold]; rfl⟩
  case unlock w =>
    exact ⟨.fsub 0 (if w then WRITE_LOCKED else 1) s.state, _, by simp [step, hn, hpc, step_unlock]; rfl⟩
  case kCasA st =>
    by_cases h : s.state = st
    · exact ⟨.cas 0 false st 0 .ok, _, by simp [step, hn, hpc, step_kCasA, casConsistent, h]; rfl⟩
    · exact ⟨.cas 0 false st 0 (.fail s.state), _, by simp [step, hn, hpc, step_kCasA, casConsistent, h]; rfl⟩
  case kCasB st =>
    by_cases h : s.state = st
    · exact ⟨.cas 0 false st RW .ok, _, by simp [step, hn, hpc, step_kCasB, casConsistent, h]; rfl⟩
    · exact ⟨.cas 0 false st RW (.fail s.state), _, by simp [step, hn, hpc, step_kCasB, casConsistent, h]; rfl⟩
  case kNotify fb => exact ⟨.fadd 1 1 s.notify, _, by simp [step, hn, hpc, step_kNotify]; rfl⟩
  case kWakeW fb =>
    cases hpl : parkedList s 1 with
    | nil => exact ⟨.fwake 1 1 [], _, by simp [step, hn, hpc, step_kWakeW, hpl]; rfl⟩
    | cons j' rest => exact ⟨.fwake 1 1 [j'], _, by simp [step, hn, hpc, step_kWakeW, hpl]; rfl⟩
  case kCasC =>
    by_cases h : s.state = RW
    · exact ⟨.cas 0 false RW 0 .ok, _, by simp [step, hn, hpc, step_kCasC, casConsistent, h]; rfl⟩
    · exact ⟨.cas 0 false RW 0 (.fail s.state), _, by simp [step, hn, hpc, step_kCasC, casConsistent, h]; rfl⟩
  case kWakeR =>
    refine ⟨.fwake 0 2147483647 (parkedList s 0), setPc (wakeAll c s (parkedList s 0)) j .idle, ?_⟩
    simp [step, hn, hpc, step_kWakeR]
  case panicked => simp [enabled, hpc] at he

end TinyVerif.RwLock
