/-
C17: the invariant tying the concrete ring state (u32 counters, entry arrays) to the ghost lists,
and its preservation by every application and kernel step of the *current* code (`Code.fixed`).
-/
import TinyVerif.Proofs.RingLemmas
namespace TinyVerif.Ring

/-- `inq` = published but not yet consumed submissions, `unpub` = filled but not yet published,
`cinq` = posted but not yet reaped completions, `hold` = reaped but not yet released (`release_pending`).
`c`/`cc` are the initial counter values. -/
structure Inv (k kc c cc : Nat) (s : St) (inq unpub cinq hold : List Ent) : Prop where
  hk : k ≤ 30
  hkc : kc ≤ 30
  sqE : s.sqEntries = 2 ^ k
  sqM : s.sqMask = 2 ^ k - 1
  cqE : s.cqEntries = 2 ^ kc
  cqM : s.cqMask = 2 ^ kc - 1
  flushed_eq : s.flushed = s.consumed ++ inq
  filled_eq : s.filled = s.flushed ++ unpub
  cap : inq.length + unpub.length ≤ 2 ^ k
  tail_eq : s.tail = (c + s.filled.length) % W
  head_eq : s.head = (c + s.flushed.length) % W
  ktail_eq : s.sqKTail = (c + s.flushed.length) % W
  khead_eq : s.sqKHead = (c + s.consumed.length) % W
  sqGood : Good k (sqShift s) s.sqMem (c + s.consumed.length) (inq ++ unpub)
  posted_eq : s.posted = s.reaped ++ cinq
  /-- `hold`: the reaped entries whose slot is not yet released to the kernel (none, or the last one) -/
  hold_suffix : hold <:+ s.reaped
  hold_len : hold.length = if s.relPending then 1 else 0
  ccap : hold.length + cinq.length ≤ 2 ^ kc
  cktail_eq : s.cqKTail = (cc + s.posted.length) % W
  /-- the kernel-visible head lags behind what was reaped by the held entry -/
  ckhead_eq : s.cqKHead = (cc + (s.reaped.length - hold.length)) % W
  /-- the completion entry array holds the held entry and the unreaped ones -/
  cqGood : Good kc (cqShift s) s.cqMem (cc + (s.reaped.length - hold.length)) (hold ++ cinq)

theorem sqShift_le (s : St) : sqShift s ≤ 1 := by unfold sqShift; omega
theorem cqShift_le (s : St) : cqShift s ≤ 1 := by unfold cqShift; omega

theorem inv_init (flags k kc c cc : Nat) (hk : k ≤ 30) (hkc : kc ≤ 30) (hc : c < W) (hcc : cc < W) :
    Inv k kc c cc (init flags k kc c cc) [] [] [] [] := by
  constructor <;> simp [init, Good, Nat.mod_eq_of_lt hc, Nat.mod_eq_of_lt hcc, hk, hkc]

section
variable {k kc c cc : Nat} {s : St} {inq unpub cinq hold : List Ent}

theorem Inv.filled_len (h : Inv k kc c cc s inq unpub cinq hold) :
    s.filled.length = s.consumed.length + inq.length + unpub.length := by
  rw [h.filled_eq, h.flushed_eq]; simp [List.length_append, Nat.add_assoc]

theorem Inv.flushed_len (h : Inv k kc c cc s inq unpub cinq hold) :
    s.flushed.length = s.consumed.length + inq.length := by
  rw [h.flushed_eq]; simp [List.length_append]

theorem Inv.posted_len (h : Inv k kc c cc s inq unpub cinq hold) :
    s.posted.length = s.reaped.length + cinq.length := by
  rw [h.posted_eq]; simp [List.length_append]

/-! ### numeric facts about the wrapped counters -/

theorem cap_test (c C n E : Nat) (hE : E ≤ 1073741824) (hn : n ≤ E) :
    (W + ((c + (C + n)) % W + 1) % W - (c + C) % W) % W ≤ E ↔ n < E := by
  simp only [W]; omega

theorem count_eq (c C n : Nat) (hn : n ≤ 1073741824) :
    (W + (c + (C + n)) % W - (c + C) % W) % W = n := by
  simp only [W]; omega

theorem eq_test (c C n : Nat) (hn : n ≤ 1073741824) :
    (c + (C + n)) % W = (c + C) % W ↔ n = 0 := by
  simp only [W]; omega

theorem succ_mod (c n : Nat) : ((c + n) % W + 1) % W = (c + (n + 1)) % W := by
  simp only [W]; omega

/-! ### unfolding lemmas for `step` (by `rfl`; `unfold`/`simp [step]` would normalise the
discriminants, which is needlessly expensive with the 2^32 literal around) -/

theorem step_get (cd : Code) (s : St) (v : Nat) : step cd s (.get v) =
    match getNextSqeSlot cd s with
    | .panic s1 => (s1, .panic)
    | .ok s1 none => (s1, .noSlot)
    | .ok s1 (some i) =>
      ({ s1 with sqMem := upd s1.sqMem i v, filled := s1.filled ++ [⟨i, v⟩] }, .slot i) := rfl

theorem step_flush (cd : Code) (s : St) : step cd s .flush =
    match flushSubmissionQueue cd s with
    | .panic s1 => (s1, .panic)
    | .ok s1 n => (s1, .flushed n) := rfl

theorem step_reap (cd : Code) (s : St) : step cd s .reap =
    match getNextCqe cd s with
    | .panic s1 => (s1, .panic)
    | .ok s1 none => (s1, .noCqe)
    | .ok s1 (some i) => ({ s1 with reaped := s1.reaped ++ [⟨i, s1.cqMem i⟩] }, .cqe (s1.cqMem i)) := rfl

theorem step_consume (cd : Code) (s : St) (n : Nat) :
    step cd s (.consume n) = ((kConsume n s).1, .consumed (kConsume n s).2) := rfl

theorem step_post (cd : Code) (s : St) (vs : List Nat) :
    step cd s (.post vs) = ((kPost vs s).1, .posted (kPost vs s).2) := rfl

/-! ### application: get_next_sqe_slot (+ fill) -/

theorem getNextSqeSlot_fixed (h : Inv k kc c cc s inq unpub cinq hold) :
    getNextSqeSlot .fixed s =
      if inq.length + unpub.length < 2 ^ k then
        .ok { s with tail := (c + (s.filled.length + 1)) % W }
          (some (slotOf k (sqShift s) (c + s.filled.length)))
      else .ok s none := by
  have hE := two_pow_le_30 h.hk
  have hcap := h.cap
  have ht := cap_test c s.consumed.length (inq.length + unpub.length) (2 ^ k) hE hcap
  have hidx := index_eq k (sqShift s) (c + s.filled.length) h.hk (sqShift_le s)
  unfold getNextSqeSlot addU32 subU32
  simp only [h.tail_eq, h.khead_eq, h.sqE, h.sqM, hidx, succ_mod]
  rw [h.filled_len, Nat.add_assoc s.consumed.length] at *
  by_cases hlt : inq.length + unpub.length < 2 ^ k
  · rw [if_pos hlt, if_pos]
    rw [← succ_mod]; exact ht.mpr hlt
  · rw [if_neg hlt, if_neg]
    rw [← succ_mod]; exact fun hx => hlt (ht.mp hx)

theorem inv_get (h : Inv k kc c cc s inq unpub cinq hold) (v : Nat) :
    (inq.length + unpub.length < 2 ^ k →
      (step .fixed s (.get v)).2 = .slot (slotOf k (sqShift s) (c + s.filled.length)) ∧
      Inv k kc c cc (step .fixed s (.get v)).1 inq
        (unpub ++ [⟨slotOf k (sqShift s) (c + s.filled.length), v⟩]) cinq hold) ∧
    (¬ inq.length + unpub.length < 2 ^ k → step .fixed s (.get v) = (s, .noSlot)) := by
  constructor
  · intro hlt
    rw [step_get, getNextSqeSlot_fixed h, if_pos hlt]
    refine ⟨rfl, ?_⟩
    have hpush := good_push k (sqShift s) s.sqMem v (inq ++ unpub) (c + s.consumed.length) h.sqGood
      (by simp only [List.length_append]; exact hlt)
    have e1 : c + s.consumed.length + (inq ++ unpub).length = c + s.filled.length := by
      rw [h.filled_len]; simp only [List.length_append]; omega
    rw [e1] at hpush
    exact {
      hk := h.hk, hkc := h.hkc, sqE := h.sqE, sqM := h.sqM, cqE := h.cqE, cqM := h.cqM
      flushed_eq := h.flushed_eq
      filled_eq := by simp only [h.filled_eq, List.append_assoc]
      cap := by simp only [List.length_append, List.length_cons, List.length_nil]; omega
      tail_eq := by simp only [List.length_append, List.length_cons, List.length_nil]
      head_eq := h.head_eq
      ktail_eq := h.ktail_eq
      khead_eq := h.khead_eq
      sqGood := by
        simp only [← List.append_assoc]
        exact hpush
      posted_eq := h.posted_eq
      hold_suffix := h.hold_suffix
      hold_len := h.hold_len
      ccap := h.ccap
      cktail_eq := h.cktail_eq
      ckhead_eq := h.ckhead_eq
      cqGood := h.cqGood }
  · intro hge
    rw [step_get, getNextSqeSlot_fixed h, if_neg hge]

/-! ### application: flush_submission_queue -/

theorem flush_fixed (h : Inv k kc c cc s inq unpub cinq hold) :
    flushSubmissionQueue .fixed s =
      .ok (if s.head ≠ s.tail then { s with head := s.tail, sqKTail := s.tail, flushed := s.filled } else s)
        (inq.length + unpub.length) := by
  have hE := two_pow_le_30 h.hk
  have hcap := h.cap
  have hcnt := count_eq c s.consumed.length (inq.length + unpub.length) (by omega)
  rw [← Nat.add_assoc s.consumed.length, ← h.filled_len, ← h.tail_eq, ← h.khead_eq] at hcnt
  unfold flushSubmissionQueue subU32
  by_cases hne : s.head ≠ s.tail
  · simp only [if_pos hne, hcnt]
  · simp only [if_neg hne, hcnt]

theorem inv_flush (h : Inv k kc c cc s inq unpub cinq hold) :
    (step .fixed s .flush).2 = .flushed (inq.length + unpub.length) ∧
    ∃ inq' unpub', Inv k kc c cc (step .fixed s .flush).1 inq' unpub' cinq hold ∧
      (step .fixed s .flush).1.filled = s.filled ∧ (step .fixed s .flush).1.consumed = s.consumed := by
  rw [step_flush, flush_fixed h]
  refine ⟨rfl, ?_⟩
  by_cases hne : s.head ≠ s.tail
  · rw [if_pos hne]
    refine ⟨inq ++ unpub, [], ?_, rfl, rfl⟩
    exact {
      hk := h.hk, hkc := h.hkc, sqE := h.sqE, sqM := h.sqM, cqE := h.cqE, cqM := h.cqM
      flushed_eq := by simp only [h.filled_eq, h.flushed_eq, List.append_assoc]
      filled_eq := by simp only [List.append_nil]
      cap := by have := h.cap; simp only [List.length_append, List.length_nil]; omega
      tail_eq := h.tail_eq
      head_eq := h.tail_eq
      ktail_eq := h.tail_eq
      khead_eq := h.khead_eq
      sqGood := by simp only [List.append_nil]; exact h.sqGood
      posted_eq := h.posted_eq
      hold_suffix := h.hold_suffix
      hold_len := h.hold_len
      ccap := h.ccap
      cktail_eq := h.cktail_eq
      ckhead_eq := h.ckhead_eq
      cqGood := h.cqGood }
  · rw [if_neg hne]
    exact ⟨inq, unpub, h, rfl, rfl⟩

/-! ### application: get_next_cqe (+ read of the returned entry) -/

theorem Inv.hold_le (h : Inv k kc c cc s inq unpub cinq hold) : hold.length ≤ s.reaped.length :=
  h.hold_suffix.length_le

/-- the first statement of `get_next_cqe`: `if release_pending { release_pending = false; advance(1) }` -/
def relStep (s : St) : St :=
  if s.relPending then { s with relPending := false, cqKHead := (s.cqKHead + 1) % W } else s

theorem getNextCqe_fixed (s : St) : getNextCqe .fixed s =
    if ((relStep s).cqKTail == (relStep s).cqKHead) = true then .ok (relStep s) none
    else .ok { relStep s with relPending := true }
      (some (index (relStep s).cqKHead (relStep s).cqMask (cqShift (relStep s)))) := rfl

theorem relStep_frame (s : St) :
    (relStep s).reaped = s.reaped ∧ (relStep s).posted = s.posted ∧ (relStep s).consumed = s.consumed ∧
    (relStep s).flags = s.flags ∧ (relStep s).cqMem = s.cqMem ∧ (relStep s).filled = s.filled ∧
    (relStep s).flushed = s.flushed := by
  unfold relStep
  split <;> simp

/-- releasing the held entry: nothing is held any more, the visible head has caught up -/
theorem inv_rel (h : Inv k kc c cc s inq unpub cinq hold) : Inv k kc c cc (relStep s) inq unpub cinq [] := by
  have hl := h.hold_len
  have hle := h.hold_le
  unfold relStep
  by_cases hp : s.relPending = true
  · rw [if_pos hp]
    rw [if_pos hp] at hl
    have hg := h.cqGood
    match hold, hl, hle, hg, h.ccap with
    | [x], _, hle, hg, hcc =>
      simp only [List.length_cons, List.length_nil, List.cons_append, List.nil_append] at hle hg hcc
      obtain ⟨_, _, g3⟩ := hg
      exact {
        hk := h.hk, hkc := h.hkc, sqE := h.sqE, sqM := h.sqM, cqE := h.cqE, cqM := h.cqM
        flushed_eq := h.flushed_eq
        filled_eq := h.filled_eq
        cap := h.cap
        tail_eq := h.tail_eq
        head_eq := h.head_eq
        ktail_eq := h.ktail_eq
        khead_eq := h.khead_eq
        sqGood := h.sqGood
        posted_eq := h.posted_eq
        hold_suffix := List.nil_suffix
        hold_len := rfl
        ccap := by simp only [List.length_nil]; omega
        cktail_eq := h.cktail_eq
        ckhead_eq := by
          show (s.cqKHead + 1) % W = _
          rw [h.ckhead_eq, succ_mod]
          simp only [List.length_cons, List.length_nil]
          congr 1; omega
        cqGood := by
          simp only [List.length_nil, List.nil_append]
          have e : cc + (s.reaped.length - 0) = cc + (s.reaped.length - 1) + 1 := by omega
          rw [e]; exact g3 }
  · rw [if_neg hp]
    rw [if_neg hp] at hl
    have : hold = [] := List.eq_nil_of_length_eq_zero hl
    subst this
    exact h

theorem reap_fixed_nil (h : Inv k kc c cc s inq unpub cinq hold) (hnil : cinq = []) :
    getNextCqe .fixed s = .ok (relStep s) none := by
  have h0 := inv_rel h
  have heq := eq_test cc (relStep s).reaped.length cinq.length (by simp [hnil])
  have hpl := h0.posted_len
  have hk := h0.ckhead_eq
  simp only [List.length_nil, Nat.sub_zero] at hk
  rw [← hpl, ← h0.cktail_eq, ← hk] at heq
  have : (relStep s).cqKTail = (relStep s).cqKHead := heq.mpr (by simp [hnil])
  rw [getNextCqe_fixed, if_pos (by simpa using this)]

theorem reap_fixed_cons (h : Inv k kc c cc s inq unpub cinq hold) (e : Ent) (rest : List Ent)
    (hc : cinq = e :: rest) :
    getNextCqe .fixed s = .ok { relStep s with relPending := true } (some e.slot) ∧
    s.cqMem e.slot = e.val := by
  have h0 := inv_rel h
  have hE := two_pow_le_30 h.hkc
  have hcap := h0.ccap
  simp only [List.length_nil, Nat.zero_add] at hcap
  have heq := eq_test cc (relStep s).reaped.length cinq.length (by omega)
  have hk := h0.ckhead_eq
  simp only [List.length_nil, Nat.sub_zero] at hk
  rw [← h0.posted_len, ← h0.cktail_eq, ← hk] at heq
  have hne : ¬ (relStep s).cqKTail = (relStep s).cqKHead := by
    intro hx; have := heq.mp hx; simp [hc] at this
  have hidx := index_eq kc (cqShift (relStep s)) (cc + (relStep s).reaped.length) h0.hkc (cqShift_le _)
  rw [← hk, ← h0.cqM] at hidx
  have hg := h0.cqGood
  simp only [List.length_nil, Nat.sub_zero, List.nil_append] at hg
  rw [hc] at hg
  obtain ⟨g1, g2, _⟩ := hg
  rw [(relStep_frame s).2.2.2.2.1] at g2
  refine ⟨?_, g2⟩
  rw [getNextCqe_fixed, if_neg (by simpa using hne), hidx, ← g1]

theorem inv_reap (h : Inv k kc c cc s inq unpub cinq hold) :
    (cinq = [] → (step .fixed s .reap).2 = .noCqe ∧ (step .fixed s .reap).1.reaped = s.reaped ∧
      (step .fixed s .reap).1.cqMem = s.cqMem ∧
      Inv k kc c cc (step .fixed s .reap).1 inq unpub [] []) ∧
    (∀ e rest, cinq = e :: rest →
      (step .fixed s .reap).2 = .cqe e.val ∧
      (step .fixed s .reap).1.reaped = s.reaped ++ [e] ∧
      (step .fixed s .reap).1.cqMem = s.cqMem ∧
      Inv k kc c cc (step .fixed s .reap).1 inq unpub rest [e]) := by
  have h0 := inv_rel h
  have fr := relStep_frame s
  constructor
  · intro hnil
    rw [step_reap, reap_fixed_nil h hnil]
    refine ⟨rfl, fr.1, fr.2.2.2.2.1, ?_⟩
    rw [hnil] at h0
    exact h0
  · intro e rest hc
    obtain ⟨hr, hm⟩ := reap_fixed_cons h e rest hc
    have hg := h0.cqGood
    simp only [List.length_nil, Nat.sub_zero, List.nil_append] at hg
    have hcap := h0.ccap
    simp only [List.length_nil, Nat.zero_add] at hcap
    have hk := h0.ckhead_eq
    simp only [List.length_nil, Nat.sub_zero] at hk
    have hm' : (relStep s).cqMem e.slot = e.val := by rw [fr.2.2.2.2.1]; exact hm
    rw [step_reap, hr]
    refine ⟨by simp only [hm'], by simp only [hm', fr.1], fr.2.2.2.2.1, ?_⟩
    simp only [hm']
    exact {
      hk := h0.hk, hkc := h0.hkc, sqE := h0.sqE, sqM := h0.sqM, cqE := h0.cqE, cqM := h0.cqM
      flushed_eq := h0.flushed_eq
      filled_eq := h0.filled_eq
      cap := h0.cap
      tail_eq := h0.tail_eq
      head_eq := h0.head_eq
      ktail_eq := h0.ktail_eq
      khead_eq := h0.khead_eq
      sqGood := h0.sqGood
      posted_eq := by
        show (relStep s).posted = ((relStep s).reaped ++ [e]) ++ rest
        rw [h0.posted_eq, hc, List.append_assoc, List.singleton_append]
      hold_suffix := List.suffix_append _ _
      hold_len := rfl
      ccap := by rw [hc] at hcap; simp only [List.length_cons, List.length_nil] at hcap ⊢; omega
      cktail_eq := h0.cktail_eq
      ckhead_eq := by
        show (relStep s).cqKHead = _
        rw [hk]
        simp only [List.length_append, List.length_cons, List.length_nil]
        congr 1 <;> omega
      cqGood := by
        show Good kc (cqShift (relStep s)) (relStep s).cqMem _ _
        simp only [List.length_append, List.length_cons, List.length_nil, List.singleton_append]
        have e1 : cc + ((relStep s).reaped.length + 1 - (0 + 1)) = cc + (relStep s).reaped.length := by omega
        rw [e1, ← hc]; exact hg }

/-! ### kernel: consume -/

theorem inv_consume1 (h : Inv k kc c cc s inq unpub cinq hold) :
    (inq = [] → kConsume1 s = (s, none)) ∧
    (∀ e rest, inq = e :: rest →
      (kConsume1 s).2 = some e ∧ (kConsume1 s).1.consumed = s.consumed ++ [e] ∧
      (kConsume1 s).1.filled = s.filled ∧ (kConsume1 s).1.flushed = s.flushed ∧
      Inv k kc c cc (kConsume1 s).1 rest unpub cinq hold) := by
  have hE := two_pow_le_30 h.hk
  have hcap := h.cap
  have heq := eq_test c s.consumed.length inq.length (by omega)
  rw [← h.flushed_len, ← h.ktail_eq, ← h.khead_eq] at heq
  constructor
  · intro hnil
    have : s.sqKHead = s.sqKTail := (heq.mpr (by simp [hnil])).symm
    unfold kConsume1
    rw [if_pos this]
  · intro e rest hc
    have hne : ¬ s.sqKHead = s.sqKTail := by
      intro hx; have := heq.mp hx.symm; simp [hc] at this
    have hidx := index_eq k (sqShift s) (c + s.consumed.length) h.hk (sqShift_le s)
    rw [← h.khead_eq, ← h.sqM] at hidx
    have hg := h.sqGood
    rw [hc] at hg
    obtain ⟨g1, g2, g3⟩ := hg
    have he : (⟨index s.sqKHead s.sqMask (sqShift s), s.sqMem (index s.sqKHead s.sqMask (sqShift s))⟩ : Ent) = e := by
      rw [hidx, ← g1, g2]
    unfold kConsume1
    rw [if_neg hne]
    simp only [he]
    refine ⟨trivial, trivial, trivial, trivial, ?_⟩
    exact {
      hk := h.hk, hkc := h.hkc, sqE := h.sqE, sqM := h.sqM, cqE := h.cqE, cqM := h.cqM
      flushed_eq := by simp only [h.flushed_eq, hc, List.append_assoc, List.singleton_append]
      filled_eq := h.filled_eq
      cap := by rw [hc] at hcap; simp only [List.length_cons] at hcap; omega
      tail_eq := h.tail_eq
      head_eq := h.head_eq
      ktail_eq := h.ktail_eq
      khead_eq := by
        simp only [List.length_append, List.length_cons, List.length_nil]
        rw [h.khead_eq, succ_mod]
      sqGood := by
        simp only [List.length_append, List.length_cons, List.length_nil]
        rw [← Nat.add_assoc]; exact g3
      posted_eq := h.posted_eq
      hold_suffix := h.hold_suffix
      hold_len := h.hold_len
      ccap := h.ccap
      cktail_eq := h.cktail_eq
      ckhead_eq := h.ckhead_eq
      cqGood := h.cqGood }

theorem inv_consume (n : Nat) : ∀ {s : St} {inq : List Ent}, Inv k kc c cc s inq unpub cinq hold →
    ∃ inq', Inv k kc c cc (kConsume n s).1 inq' unpub cinq hold ∧
      (kConsume n s).1.consumed = s.consumed ++ (kConsume n s).2 ∧
      (kConsume n s).1.filled = s.filled ∧ (kConsume n s).1.flushed = s.flushed := by
  induction n with
  | zero => intro s inq h; exact ⟨inq, h, by simp [kConsume], rfl, rfl⟩
  | succ n ih =>
    intro s inq h
    obtain ⟨h0, h1⟩ := inv_consume1 h
    cases hq : inq with
    | nil =>
      have := h0 hq
      simp only [kConsume, this]
      refine ⟨inq, h, ?_⟩
      simp
    | cons e rest =>
      obtain ⟨a1, a2, a3, a4, a5⟩ := h1 e rest hq
      obtain ⟨inq', b1, b2, b3, b4⟩ := ih a5
      have hk1 : kConsume1 s = ((kConsume1 s).1, some e) := by rw [← a1]
      refine ⟨inq', ?_⟩
      unfold kConsume
      rw [hk1]
      simp only
      refine ⟨b1, ?_, by rw [b3, a3], by rw [b4, a4]⟩
      rw [b2, a2, List.append_assoc, List.singleton_append]

/-! ### kernel: post -/

theorem inv_post1 (h : Inv k kc c cc s inq unpub cinq hold) (v : Nat) :
    (¬ hold.length + cinq.length < 2 ^ kc → kPost1 s v = (s, false)) ∧
    (hold.length + cinq.length < 2 ^ kc →
      (kPost1 s v).2 = true ∧
      Inv k kc c cc (kPost1 s v).1 inq unpub
        (cinq ++ [⟨slotOf kc (cqShift s) (cc + s.posted.length), v⟩]) hold) := by
  have hE := two_pow_le_30 h.hkc
  have hcap := h.ccap
  have hle := h.hold_le
  have hpl : s.posted.length = (s.reaped.length - hold.length) + (hold.length + cinq.length) := by
    rw [h.posted_len]; omega
  have hcnt := count_eq cc (s.reaped.length - hold.length) (hold.length + cinq.length) (by omega)
  rw [← hpl, ← h.cktail_eq, ← h.ckhead_eq] at hcnt
  constructor
  · intro hge
    have hc : ¬ (W + s.cqKTail - s.cqKHead) % W < s.cqEntries := by rw [hcnt, h.cqE]; exact hge
    unfold kPost1
    rw [if_neg hc]
  · intro hlt
    have hc : (W + s.cqKTail - s.cqKHead) % W < s.cqEntries := by rw [hcnt, h.cqE]; exact hlt
    have hidx := index_eq kc (cqShift s) (cc + s.posted.length) h.hkc (cqShift_le s)
    rw [← h.cktail_eq, ← h.cqM] at hidx
    have hpush := good_push kc (cqShift s) s.cqMem v (hold ++ cinq) (cc + (s.reaped.length - hold.length)) h.cqGood
      (by simp only [List.length_append]; exact hlt)
    have e1 : cc + (s.reaped.length - hold.length) + (hold ++ cinq).length = cc + s.posted.length := by
      simp only [List.length_append]; omega
    rw [e1] at hpush
    unfold kPost1
    rw [if_pos hc]
    simp only [hidx]
    refine ⟨trivial, ?_⟩
    exact {
      hk := h.hk, hkc := h.hkc, sqE := h.sqE, sqM := h.sqM, cqE := h.cqE, cqM := h.cqM
      flushed_eq := h.flushed_eq
      filled_eq := h.filled_eq
      cap := h.cap
      tail_eq := h.tail_eq
      head_eq := h.head_eq
      ktail_eq := h.ktail_eq
      khead_eq := h.khead_eq
      sqGood := h.sqGood
      posted_eq := by simp only [h.posted_eq, List.append_assoc]
      hold_suffix := h.hold_suffix
      hold_len := h.hold_len
      ccap := by simp only [List.length_append, List.length_cons, List.length_nil]; omega
      cktail_eq := by
        simp only [List.length_append, List.length_cons, List.length_nil]
        rw [h.cktail_eq, succ_mod]
      ckhead_eq := h.ckhead_eq
      cqGood := by rw [← List.append_assoc]; exact hpush }

theorem kPost_cons (v : Nat) (vs : List Nat) (s : St) : kPost (v :: vs) s =
    match kPost1 s v with
    | (s1, false) => (s1, 0)
    | (s1, true) => ((kPost vs s1).1, (kPost vs s1).2 + 1) := rfl

theorem kPost1_reaped (s : St) (v : Nat) : (kPost1 s v).1.reaped = s.reaped := by
  unfold kPost1; split <;> rfl

theorem inv_post (vs : List Nat) : ∀ {s : St} {cinq : List Ent}, Inv k kc c cc s inq unpub cinq hold →
    ∃ cinq', Inv k kc c cc (kPost vs s).1 inq unpub cinq' hold ∧ (kPost vs s).1.reaped = s.reaped := by
  induction vs with
  | nil => intro s cinq h; exact ⟨cinq, h, rfl⟩
  | cons v vs ih =>
    intro s cinq h
    obtain ⟨h0, h1⟩ := inv_post1 h v
    by_cases hlt : hold.length + cinq.length < 2 ^ kc
    · obtain ⟨a1, a2⟩ := h1 hlt
      obtain ⟨cinq', b, b2⟩ := ih a2
      have hk1 : kPost1 s v = ((kPost1 s v).1, true) := by rw [← a1]
      refine ⟨cinq', ?_⟩
      rw [kPost_cons, hk1]
      exact ⟨b, by rw [b2, kPost1_reaped]⟩
    · have := h0 hlt
      rw [kPost_cons, this]
      exact ⟨cinq, h, rfl⟩

/-! ### every step and every run preserves the invariant; no step of the current code panics -/

theorem step_reread (cd : Code) (s : St) : (step cd s .reread).1 = s := by
  show (match s.reaped.getLast? with | none => (s, Out.noCqe) | some e => (s, Out.cqe (s.cqMem e.slot))).1 = s
  cases s.reaped.getLast? <;> rfl

theorem kConsume1_reaped (s : St) : (kConsume1 s).1.reaped = s.reaped := by
  unfold kConsume1; split <;> rfl

theorem kConsume_reaped (n : Nat) : ∀ (s : St), (kConsume n s).1.reaped = s.reaped := by
  induction n with
  | zero => intro s; rfl
  | succ n ih =>
    intro s
    have h1 := kConsume1_reaped s
    unfold kConsume
    split
    · rename_i s1 he; rw [he] at h1; exact h1
    · rename_i s1 e he; rw [he] at h1
      simp only at h1 ⊢
      rw [ih s1, h1]

/-- a step other than `get_next_cqe` keeps what is held (and what was reaped) -/
theorem inv_step_hold (h : Inv k kc c cc s inq unpub cinq hold) (op : Op) (hop : op ≠ .reap) :
    ∃ inq' unpub' cinq', Inv k kc c cc (step .fixed s op).1 inq' unpub' cinq' hold ∧
      (step .fixed s op).1.reaped = s.reaped := by
  cases op with
  | get v =>
    obtain ⟨h1, h2⟩ := inv_get h v
    by_cases hlt : inq.length + unpub.length < 2 ^ k
    · refine ⟨_, _, _, (h1 hlt).2, ?_⟩
      rw [step_get, getNextSqeSlot_fixed h, if_pos hlt]
    · rw [h2 hlt]; exact ⟨_, _, _, h, rfl⟩
  | flush =>
    obtain ⟨_, inq', unpub', hi, _, _⟩ := inv_flush h
    refine ⟨_, _, _, hi, ?_⟩
    rw [step_flush, flush_fixed h]
    by_cases hne : s.head ≠ s.tail
    · rw [if_pos hne]
    · rw [if_neg hne]
  | reap => exact absurd rfl hop
  | reread => rw [step_reread]; exact ⟨_, _, _, h, rfl⟩
  | consume n =>
    obtain ⟨inq', hi, _⟩ := inv_consume n h
    rw [step_consume]; exact ⟨_, _, _, hi, kConsume_reaped n s⟩
  | post vs =>
    obtain ⟨cinq', hi, hr⟩ := inv_post vs h
    rw [step_post]; exact ⟨_, _, _, hi, hr⟩

theorem inv_step (h : Inv k kc c cc s inq unpub cinq hold) (op : Op) :
    ∃ inq' unpub' cinq' hold', Inv k kc c cc (step .fixed s op).1 inq' unpub' cinq' hold' := by
  by_cases hop : op = .reap
  · subst hop
    obtain ⟨h1, h2⟩ := inv_reap h
    cases hc : cinq with
    | nil => exact ⟨_, _, _, _, (h1 hc).2.2.2⟩
    | cons e rest => exact ⟨_, _, _, _, (h2 e rest hc).2.2.2⟩
  · obtain ⟨_, _, _, hi, _⟩ := inv_step_hold h op hop
    exact ⟨_, _, _, _, hi⟩

theorem inv_run (ops : List Op) : ∀ {s : St} {inq unpub cinq hold : List Ent},
    Inv k kc c cc s inq unpub cinq hold →
    ∃ inq' unpub' cinq' hold', Inv k kc c cc (run .fixed s ops).1 inq' unpub' cinq' hold' := by
  induction ops with
  | nil => intro s inq unpub cinq hold h; exact ⟨_, _, _, _, h⟩
  | cons op ops ih =>
    intro s inq unpub cinq hold h
    obtain ⟨_, _, _, _, h1⟩ := inv_step h op
    exact ih h1

/-- below call granularity: as long as `get_next_cqe` is not called again, whatever else happens (any kernel
step, any other ring method) the held entry keeps its slot and its content -/
theorem inv_run_hold (ops : List Op) (hops : ∀ op ∈ ops, op ≠ .reap) :
    ∀ {s : St} {inq unpub cinq : List Ent}, Inv k kc c cc s inq unpub cinq hold →
    ∃ inq' unpub' cinq', Inv k kc c cc (run .fixed s ops).1 inq' unpub' cinq' hold ∧
      (run .fixed s ops).1.reaped = s.reaped := by
  induction ops with
  | nil => intro s inq unpub cinq h; exact ⟨_, _, _, h, rfl⟩
  | cons op ops ih =>
    intro s inq unpub cinq h
    obtain ⟨_, _, _, h1, hr⟩ := inv_step_hold h op (hops op List.mem_cons_self)
    obtain ⟨_, _, _, h2, hr2⟩ := ih (fun o ho => hops o (List.mem_cons_of_mem _ ho)) h1
    exact ⟨_, _, _, h2, by show (run .fixed (step .fixed s op).1 ops).1.reaped = _; rw [hr2, hr]⟩

/-- the held entry's content is in its slot -/
theorem Inv.held_content (h : Inv k kc c cc s inq unpub cinq hold) (e : Ent) (he : e ∈ hold) :
    s.cqMem e.slot = e.val := by
  have hl := h.hold_len
  have hg := h.cqGood
  match hold, hl, hg, he with
  | [x], _, hg, he =>
    simp only [List.cons_append, List.nil_append] at hg
    have : e = x := by simpa using he
    subst this
    exact hg.2.1
  | [], _, _, he => cases he
  | _ :: _ :: _, hl, _, _ => split at hl <;> simp at hl

theorem getNextSqeSlot_fixed_ok (s : St) : ∃ s1 r, getNextSqeSlot .fixed s = .ok s1 r := by
  unfold getNextSqeSlot addU32 subU32
  simp only
  split
  · exact ⟨_, _, rfl⟩
  · exact ⟨_, _, rfl⟩

theorem flush_fixed_ok (s : St) : ∃ s1 r, flushSubmissionQueue .fixed s = .ok s1 r := by
  unfold flushSubmissionQueue subU32
  exact ⟨_, _, rfl⟩

theorem getNextCqe_ok (cd : Code) (s : St) : ∃ s1 r, getNextCqe cd s = .ok s1 r := by
  cases cd with
  | fixed =>
    rw [getNextCqe_fixed]
    split
    · exact ⟨_, _, rfl⟩
    · exact ⟨_, _, rfl⟩
  | eagerRelease =>
    show ∃ s1 r, getNextCqeEager .eagerRelease s = .ok s1 r
    unfold getNextCqeEager
    simp only
    split
    · exact ⟨_, _, rfl⟩
    · exact ⟨_, _, rfl⟩
  | orig r =>
    show ∃ s1 r', getNextCqeEager (.orig r) s = .ok s1 r'
    unfold getNextCqeEager
    simp only
    split
    · exact ⟨_, _, rfl⟩
    · exact ⟨_, _, rfl⟩

theorem step_fixed_no_panic (s : St) (op : Op) : (step .fixed s op).2 ≠ .panic := by
  cases op with
  | get v =>
    obtain ⟨s1, r, hr⟩ := getNextSqeSlot_fixed_ok s
    rw [step_get, hr]
    cases r <;> simp
  | flush =>
    obtain ⟨s1, r, hr⟩ := flush_fixed_ok s
    rw [step_flush, hr]
    simp
  | reap =>
    obtain ⟨s1, r, hr⟩ := getNextCqe_ok .fixed s
    rw [step_reap, hr]
    cases r <;> simp
  | reread =>
    show (match s.reaped.getLast? with | none => (s, Out.noCqe) | some e => (s, Out.cqe (s.cqMem e.slot))).2 ≠ .panic
    cases s.reaped.getLast? <;> simp
  | consume n => rw [step_consume]; simp
  | post vs => rw [step_post]; simp

end
end TinyVerif.Ring
