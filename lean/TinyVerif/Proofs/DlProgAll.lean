import TinyVerif.Proofs.DlProgStep
import TinyVerif.Proofs.DlProgMalloc
import TinyVerif.Proofs.DlProgFree
import TinyVerif.Proofs.DlProgRealloc
import TinyVerif.Proofs.DlProgSys
/-!
# The progress proof, assembled

Every leaf progress theorem of `Proofs/DlProgSpec.lean` discharged by the file that proves it, the entry-point
progress theorems of `Proofs/DlProgStep.lean` instantiated with them, and the closed step / run theorems.

    Inv3 hs := Inv2 hs ∧ RcOk hs.st ∧ FpOk hs.st

* `step_progress` — from `Inv3`, an operation the caller is entitled to make (`OpOk`, `ValidOp`) has no error outcome
  other than the `os-desync:*` ones (the list of OS answers handed to `step` does not match the system calls made):
  no `debug_assert!` of the port fails, no subtraction underflows, no header is read before it is written, no dead
  direct-mmap branch is taken, every chunk is found in the bin it should be in.
* `inv3_step` — `Inv3` is preserved by every successful step.
* `run_progress` — from `Hist.init`, a history whose operations are `OpOk` / `ValidOp` when they are applied either
  ends `.ok` in a state satisfying `Inv3` or stops with a desync error.
-/
namespace TinyVerif.Dl

/-! ## the leaf progress theorems -/

theorem all_malloc_nosys_prog : malloc_nosys_Prog := mp_malloc_nosys_prog
theorem all_dispose_chunk_prog : dispose_chunk_Prog := fp_dispose_chunk_prog
theorem all_free_heap_prog : free_heap_Prog := fp_free_heap_prog
theorem all_split_inuse_prog : split_inuse_Prog := rp_split_inuse_prog
theorem all_try_realloc_chunk_prog : try_realloc_chunk_Prog := rp_try_realloc_chunk_prog all_dispose_chunk_prog
theorem all_memalign_fix_prog : memalign_fix_Prog := rp_memalign_fix_prog all_dispose_chunk_prog
theorem all_sys_alloc_prog : sys_alloc_Prog := sp_sys_alloc_prog
theorem all_release_unused_segments_prog : release_unused_segments_Prog := sp_release_unused_segments_prog
theorem all_sys_trim_prog : sys_trim_Prog := sp_sys_trim_prog

/-! ## the entry points -/

theorem all_inner_malloc_prog : inner_malloc_Prog := ap_inner_malloc_prog all_malloc_nosys_prog all_sys_alloc_prog
theorem all_free_prog : free_Prog :=
  ap_free_prog all_free_heap_prog all_sys_trim_prog all_release_unused_segments_prog
theorem all_malloc_prog : malloc_Prog := ap_malloc_prog all_inner_malloc_prog all_memalign_fix_prog
theorem all_realloc_prog : realloc_Prog :=
  ap_realloc_prog all_try_realloc_chunk_prog all_inner_malloc_prog all_free_prog all_malloc_prog

theorem all_calloc_prog {s : St} (hi : SInv s) {size k : Nat} (hk : k ≤ 32)
    (hbig : nbOf (reqOf size (2 ^ k)) < 2 ^ 63) (hos : OsOk s (mapSize (reqOf size (2 ^ k)))) :
    Prog (calloc s size (2 ^ k)) :=
  ap_calloc_prog all_malloc_prog hi hk hbig hos

/-! ## the closed theorems -/

/-- **progress of one step** -/
theorem step_progress {hs : Hist} {op : Op} {os : List OsDir} (hi : Inv2 hs) (hrc : RcOk hs.st) (hfp : FpOk hs.st)
    (hop : OpOk hs op os) (hv : ValidOp hs op) : ∀ e, hs.step op os = .error e → StepErr e :=
  step_progress_of_entry_progs all_malloc_prog all_free_prog all_realloc_prog hi hrc hfp hop hv

/-- the same as a dichotomy: the step runs, or it stops with a desync error -/
theorem step_ok_or_desync {hs : Hist} {op : Op} {os : List OsDir} (hi : Inv3 hs) (hop : OpOk hs op os)
    (hv : ValidOp hs op) : (∃ hs' out, hs.step op os = .ok (hs', out)) ∨ (∃ e, hs.step op os = .error e ∧ StepErr e) := by
  cases h : hs.step op os with
  | ok v => exact Or.inl ⟨v.1, v.2, rfl⟩
  | error e => exact Or.inr ⟨e, rfl, step_progress hi.1 hi.2.1 hi.2.2 hop hv e h⟩

/-- **the invariant of the progress theorem is preserved by every successful step** -/
theorem inv3_step {hs hs' : Hist} {op : Op} {os : List OsDir} {out : Out}
    (hi : Inv2 hs ∧ RcOk hs.st ∧ FpOk hs.st) (hop : OpOk hs op os) (h : hs.step op os = .ok (hs', out)) :
    Inv2 hs' ∧ RcOk hs'.st ∧ FpOk hs'.st :=
  ap_inv3_step hi hop h

/-- **progress of a history** from the initial state -/
theorem run_progress {ops : List (Op × List OsDir)} (hok : RunOk2 Hist.init ops) :
    (∃ hs' evs, Hist.init.run ops = .ok (hs', evs) ∧ Inv2 hs' ∧ RcOk hs'.st ∧ FpOk hs'.st) ∨
    (∃ e, Hist.init.run ops = .error e ∧ StepErr e) := by
  cases h : Hist.init.run ops with
  | ok v => exact Or.inl ⟨v.1, v.2, rfl, ap_run_inv ops inv3_init hok h⟩
  | error e =>
    exact Or.inr ⟨e, rfl, run_progress_from all_malloc_prog all_free_prog all_realloc_prog ops inv3_init hok e h⟩

/-- … and of every prefix of it -/
theorem run_progress_prefix {a b : List (Op × List OsDir)} (hok : RunOk2 Hist.init (a ++ b)) :
    (∃ hs' evs, Hist.init.run a = .ok (hs', evs) ∧ Inv2 hs' ∧ RcOk hs'.st ∧ FpOk hs'.st) ∨
    (∃ e, Hist.init.run a = .error e ∧ StepErr e) :=
  run_progress hok.prefix

/-! ## non-vacuity (kernel-evaluated) -/

set_option maxRecDepth 40000 in
/-- `Inv3` on the demo state of `Proofs/DlIndStep.lean` (two segments, a segment record, fenceposts, a binned chunk,
three live blocks, the countdown running, footprint = sum of the segment sizes) -/
theorem all_demo_inv3 : Inv3 as_demo ∧ as_demo.st.footprint = 196608 :=
  ⟨⟨as_demo_inv2.1, ap_demo_rcOk.1, by unfold FpOk; decide⟩, by decide⟩

set_option maxRecDepth 40000 in
/-- the hypotheses of `step_progress` hold for a moving `realloc` that is handed no OS answer; the theorem then says
how the step can stop, and evaluation confirms it -/
example : ∃ e, as_demo.step (.realloc 4 200000) [] = .error e ∧ StepErr e ∧ e = "os-desync:mmap" := by
  have hop : OpOk as_demo (.realloc 4 200000) [] := by
    intro b hb
    have hfb : findBlock as_demo.live 4 = some { id := 4, ptr := 4194320, size := 70000, align := 8 } := by decide
    rw [hfb] at hb
    injection hb with hb
    subst hb
    exact ⟨by unfold as_BigOk; decide, fun tbase q hq => by cases hq⟩
  have hv : ValidOp as_demo (.realloc 4 200000) := by unfold ValidOp; decide
  obtain ⟨e, he, hp⟩ := ap_err_of_matchB (x := as_demo.step (.realloc 4 200000) [])
    (p := fun e => decide (e = "os-desync:mmap")) (by decide)
  simp only [decide_eq_true_eq] at hp
  exact ⟨e, he, step_progress all_demo_inv3.1.1 all_demo_inv3.1.2.1 all_demo_inv3.1.2.2 hop hv e he, hp⟩

set_option maxRecDepth 40000 in
/-- the hypotheses of `inv3_step` for a `free` that merges into `top` (`sys_trim` is considered) -/
example : ∃ hs' out, OpOk as_demo (.free 4) [] ∧ ValidOp as_demo (.free 4) ∧
    as_demo.step (.free 4) [] = .ok (hs', out) ∧ Inv3 hs' := by
  obtain ⟨v, hv, _⟩ := as_ok_of_matchB (x := as_demo.step (.free 4) []) (p := fun _ => true) (by decide)
  exact ⟨v.1, v.2, trivial, by unfold ValidOp; decide, hv, inv3_step all_demo_inv3.1 (op := .free 4) trivial hv⟩

set_option maxRecDepth 40000 in
/-- the hypothesis of `run_progress` on a short history, which runs to the end -/
example : RunOk2 Hist.init [(.malloc 1 100 8, [.m (some 1048576)]), (.free 1, [])] ∧
    ∃ hs' evs, Hist.init.run [(.malloc 1 100 8, [.m (some 1048576)]), (.free 1, [])] = .ok (hs', evs) ∧ Inv3 hs' := by
  have hok : RunOk2 Hist.init [(.malloc 1 100 8, [.m (some 1048576)]), (.free 1, [])] := by
    refine ⟨⟨3, by decide, by decide, by unfold as_BigOk; decide, ?_⟩, by unfold ValidOp; decide, ?_⟩
    · intro tbase q hq
      have : tbase = 1048576 := by
        injection hq with h1 _
        injection h1 with h1
        injection h1 with h1
        exact h1.symm
      subst this
      exact ⟨⟨by decide, by decide, by decide, fun g hg => by cases hg⟩, by decide⟩
    · intro hs1 out hst
      obtain ⟨v, hv, hp⟩ := as_ok_of_matchB (x := Hist.init.step (.malloc 1 100 8) [.m (some 1048576)])
        (p := fun v => (findBlock v.1.live 1).isSome) (by decide)
      rw [hv] at hst
      injection hst with hst
      subst hst
      exact ⟨trivial, hp, fun _ _ _ => trivial⟩
  refine ⟨hok, ?_⟩
  rcases run_progress hok with ⟨hs', evs, h, hi⟩ | ⟨e, he, _⟩
  · exact ⟨hs', evs, h, hi⟩
  · exfalso
    obtain ⟨v, hv, _⟩ := as_ok_of_matchB
      (x := Hist.init.run [(.malloc 1 100 8, [.m (some 1048576)]), (.free 1, [])]) (p := fun _ => true) (by decide)
    rw [hv] at he
    cases he

end TinyVerif.Dl
