/- Shared line-protocol plumbing for the per-property drivers.  Import-free. -/
namespace TinyVerif.Drv

def words (line : String) : List String :=
  (line.trimAscii.toString.splitOn " ").filter (· ≠ "")

partial def loop {σ : Type} (h : IO.FS.Stream) (out : IO.FS.Stream) (step : σ → String → σ × String) (s : σ) : IO Unit := do
  let line ← h.getLine
  if line.isEmpty then
    out.flush
    return ()
  let (s', o) := step s line
  out.putStrLn o
  loop h out step s'

def run {σ : Type} (step : σ → String → σ × String) (init : σ) : IO Unit := do
  let i ← IO.getStdin
  let o ← IO.getStdout
  loop i o step init

def hexDigit (c : Char) : Option Nat :=
  if '0' ≤ c ∧ c ≤ '9' then some (c.toNat - '0'.toNat)
  else if 'a' ≤ c ∧ c ≤ 'f' then some (c.toNat - 'a'.toNat + 10)
  else if 'A' ≤ c ∧ c ≤ 'F' then some (c.toNat - 'A'.toNat + 10)
  else none

/-- decode a hex string ("-" = empty) into bytes -/
def unhex (s : String) : Option (List Nat) :=
  if s == "-" then some [] else
  let rec go : List Char → List Nat → Option (List Nat)
    | [], acc => some acc.reverse
    | [_], _ => none
    | a :: b :: rest, acc =>
      match hexDigit a, hexDigit b with
      | some x, some y => go rest ((x * 16 + y) :: acc)
      | _, _ => none
  go s.toList []

def hexNib (n : Nat) : Char :=
  if n < 10 then Char.ofNat (n + '0'.toNat) else Char.ofNat (n - 10 + 'a'.toNat)

def hex (bs : List Nat) : String :=
  if bs.isEmpty then "-" else
  String.ofList (bs.foldr (fun b acc => hexNib (b / 16 % 16) :: hexNib (b % 16) :: acc) [])

end TinyVerif.Drv
