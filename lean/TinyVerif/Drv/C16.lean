import TinyVerif.Model.SockWrap
import TinyVerif.Model.SockAddr
import TinyVerif.Model.Cmsg
import TinyVerif.Drv.Common
open TinyVerif

namespace C16Drv
open TinyVerif.SockWrap

def parseResp : List String → Option (List R)
  | [] => some []
  | t :: rest => do
    let r ← parseResp rest
    match t.toList with
    | 'k' :: ds => let n ← (String.ofList ds).toNat?; pure (.ok n :: r)
    | 'e' :: ds => let n ← (String.ofList ds).toNat?; pure (.err n :: r)
    | _ => none

def parseTimeout (s : String) : Option (Option (Nat × Nat)) :=
  if s == "none" then some none else
  match s.splitOn "." with
  | [a, b] => do
    let a ← a.toNat?; let b ← b.toNat?
    -- a Duration's sub-second part is < 10^9 and its seconds are a u64
    if b < 1000000000 ∧ a < 18446744073709551616 then pure (some (a, b)) else none
  | _ => none

/-- kind → (configuration, syscall name, takes a timeout, is a try-variant) -/
def kindInfo : String → Option (Cfg × String × Bool × Bool)
  | "uread" => some (readCfg, "read", false, false)
  | "tread" => some (readCfg, "read", false, false)
  | "treadto" => some (readCfg, "read", true, false)
  | "uwrite" => some (writeCfg, "write", false, false)
  | "twrite" => some (writeCfg, "write", false, false)
  | "uaccept" => some (acceptCfg, "accept4", false, false)
  | "uacceptto" => some (acceptCfg, "accept4", true, false)
  | "taccept" => some (acceptCfg, "accept4", false, false)
  | "tacceptto" => some (acceptCfg, "accept4", true, false)
  | "uconnect" => some (unixConnectCfg, "connect", false, false)
  | "tconnect" => some (tcpConnectCfg, "connect", false, false)
  | "tconnectto" => some (tcpConnectCfg, "connect", true, false)
  | "tipblock" => some (tcpConnectCfg, "connect", false, false)
  | "utryaccept" => some (acceptCfg, "accept4", false, true)
  | "ttryaccept" => some (acceptCfg, "accept4", false, true)
  | "utryconnect" => some (unixConnectCfg, "connect", false, true)
  | "ttryconnect" => some (tcpConnectCfg, "connect", false, true)
  | "tiptry" => some (tcpConnectCfg, "connect", false, true)
  | _ => none

def showTs : TS → String
  | none => "inf"
  | some (s, n) => s!"{s}.{n}"

def showTrace (opName : String) (tr : Trace) : String :=
  if tr.isEmpty then "-" else
  ",".intercalate (tr.map fun (c, _) => match c with
    | .op => opName
    | .ppoll ts ev => s!"ppoll:{showTs ts}:{ev}")

def showOut : Out → String
  | .ok v => s!"ok {v}"
  | .timeout => "timeout"
  | .os e => s!"os {e}"
  | .badTimeout => "badto"
  | .exhausted => "exhausted"

def showTry : TryOut → String
  | .some v => s!"some {v}"
  | .wouldBlock => "wouldblock"
  | .os e => s!"os {e}"
  | .exhausted => "exhausted"

def wrapLine (kind to : String) (rest : List String) : String :=
  match kindInfo kind, parseTimeout to, parseResp rest with
  | some (cfg, nm, timed, isTry), some t, some script =>
    if !timed && t.isSome then "bad-op" else
    if timed && t.isNone then "bad-op" else
    -- connect's wrappers return Ok(()) / a stream: the count of the op is not part of the result
    let unit := nm == "connect"
    if isTry then
      let (o, tr) := tryRun cfg script
      let o := match o with | .some v => .some (if unit then 0 else v) | o => o
      s!"{showTry o} | {showTrace nm tr}"
    else
      let (o, tr) := run cfg t script
      let o := match o with | .ok v => .ok (if unit then 0 else v) | o => o
      s!"{showOut o} | {showTrace nm tr}"
  | _, _, _ => "bad-op"

/-! stream system: `sys <cap> <want> <hexdata> <steps…>`; steps `w:<env>`, `r<chunk>:<env>`, `c`; env `s<m>` / `f<e>` -/

def parseEnv (s : String) : Option Env :=
  match s.toList with
  | 's' :: ds => (String.ofList ds).toNat?.map .succeed
  | 'f' :: ds => (String.ofList ds).toNat?.map .fail
  | _ => none

def parseStep (s : String) : Option Step :=
  if s == "c" then some .close else
  match s.splitOn ":" with
  | ["w", e] => (parseEnv e).map .w
  | [r, e] =>
    match r.toList with
    | 'r' :: ds => do let c ← (String.ofList ds).toNat?; let e ← parseEnv e; pure (.r c e)
    | _ => none
  | _ => none

def showW : WSt → String
  | .run .first => "run-first" | .run .polling => "run-polling" | .run .retry => "run-retry"
  | .done .ok => "ok" | .done .writeZero => "writezero" | .done .timeout => "timeout" | .done (.os e) => s!"os{e}"
def showR : RSt → String
  | .idle => "idle" | .run .first _ => "run-first" | .run .polling _ => "run-polling" | .run .retry _ => "run-retry"
  | .done .full => "full" | .done .eof => "eof" | .done .timeout => "timeout" | .done (.os e) => s!"os{e}"

end C16Drv

namespace C16Addr
open TinyVerif.SockAddr

def parseIp (s : String) : Option (List Nat) :=
  let ps := s.splitOn "."
  if ps.length != 4 then none else
  ps.foldr (fun p acc => do let a ← acc; let n ← p.toNat?; if n < 256 then pure (n :: a) else none) (some [])

def showIp (bs : List Nat) : String := ".".intercalate (bs.map toString)

end C16Addr

namespace C16Cmsg
open TinyVerif.Cmsg

def parseFds (s : String) : Option (List Nat) :=
  if s == "-" then some [] else
  (s.splitOn ",").foldr (fun p acc => do let a ← acc; let n ← p.toNat?; pure (n :: a)) (some [])

def showMsgs (ms : List (List Nat)) : String :=
  if ms.isEmpty then "ok" else
  "ok " ++ " ".intercalate (ms.map fun fds => s!"{fds.length}:" ++ ",".intercalate (fds.map fun f =>
    -- descriptors are i32 in memory
    if f < 2147483648 then toString f else "-" ++ toString (4294967296 - f)))

def inBounds (ctl : Nat) (reads : List (Nat × Nat)) : Bool := reads.all fun (o, l) => o + l ≤ ctl

def showIter (ctl : Nat) (r : IterOut) : String :=
  match r.bad with
  | some .fault => "signal 11"
  | some .panic => "panic"
  | some .abort => "signal 6"
  | some .fuel => "fuel"
  | none => if inBounds ctl r.reads then showMsgs r.msgs else "oob " ++ showMsgs r.msgs

/-- the specification walk, printed: `off:len:level:type` per well-formed header, then why it stopped -/
def showWalk (w : List (Nat × Hdr) × Stop) : String :=
  let hs := if w.1.isEmpty then "-" else ",".intercalate (w.1.map fun (o, h) => s!"{o}:{h.len}:{h.level}:{h.typ}")
  let st := match w.2 with
    | .done => "done"
    | .malformed o h => s!"malformed@{o}:{h.len}:{h.level}:{h.typ}"
    | .unmapped => "unmapped"
    | .fuel => "fuel"
  s!"{hs} {st}"

end C16Cmsg

open C16Drv C16Addr C16Cmsg in
def step (_ : Unit) (line : String) : Unit × String :=
  let out :=
    match Drv.words line with
    | "wrap" :: kind :: to :: rest => wrapLine kind to rest
    | "sys" :: cap :: want :: dat :: steps =>
      match cap.toNat?, want.toNat?, Drv.unhex dat, steps.mapM parseStep with
      | some cap, some want, some dat, some steps =>
        let s := SockWrap.exec (SockWrap.Sys.init dat cap want) steps
        s!"w={showW s.w} r={showR s.r} pos={s.pos} q={Drv.hex s.q} rcvd={Drv.hex s.rcvd}"
      | _, _, _, _ => "bad-op"
    | ["inet", ip, port] =>
      match parseIp ip, port.toNat? with
      | some ip, some port =>
        if port ≥ 65536 then "bad-op" else
        let a := SockAddr.inetNew ip port
        let (ip', port') := SockAddr.ipv4Addr a
        s!"img {Drv.hex (SockAddr.inetImage a)} rt {showIp ip'} {port'}"
      | _, _ => "bad-op"
    | ["unix", p] =>
      match Drv.unhex p with
      | some p =>
        if p.any (· == 0) then "bad-op" else
        match SockAddr.tryFromUnix (p ++ [0]) with
        | .ok path n => s!"ok {Drv.hex (SockAddr.unixImage path)} {n}"
        | .eightBit => "err eightbit"
        | .tooLong => "err toolong"
        | .panic => "panic"
      | none => "bad-op"
    | ["csend", variant, fds] =>
      match parseFds fds with
      | some fds =>
        if fds.any (· ≥ 2147483648) || !(variant == "0" || variant == "1" || variant == "2") then "bad-op" else
        let (raw, spc) := Cmsg.createSend fds
        s!"ctl {spc} {Drv.hex raw}"
      | none => "bad-op"
    | ["cmsgiter", place, ctl, img] =>
      match ctl.toNat?, Drv.unhex img with
      | some ctl, some img =>
        if place == "guard" then
          if img.length < ctl then "bad-op" else
          -- nothing is mapped after the buffer, except the < 8 bytes of slack up to the next 8-byte boundary
          showIter ctl (Cmsg.iterate true Cmsg.NOMINAL_BASE (img.take (Cmsg.cmsgAlign ctl)) ctl)
        else if place == "tail" then showIter ctl (Cmsg.iterate true Cmsg.NOMINAL_BASE img ctl)
        else "bad-op"
      | _, _ => "bad-op"
    | ["cmsgraw", ctl, img] =>
      -- the memory is exactly `img` (a multiple of 8 bytes, nothing mapped after it), the control buffer its first `ctl` bytes
      match ctl.toNat?, Drv.unhex img with
      | some ctl, some img =>
        if img.length < ctl || img.length % 8 != 0 || img.isEmpty then "bad-op" else
        showIter ctl (Cmsg.iterate true Cmsg.NOMINAL_BASE img ctl)
      | _, _ => "bad-op"
    | ["cmsgraworig", ctl, img] =>
      -- the iterator before commit 8263fff (driver only: the code it describes is no longer in /repo)
      match ctl.toNat?, Drv.unhex img with
      | some ctl, some img =>
        if img.length < ctl || img.length % 8 != 0 || img.isEmpty then "bad-op" else
        showIter ctl (Cmsg.iterate false Cmsg.NOMINAL_BASE img ctl)
      | _, _ => "bad-op"
    | ["cmsgwf", ctl, img] =>
      match ctl.toNat?, Drv.unhex img with
      | some ctl, some img =>
        if img.length < ctl then "bad-op" else
        let wu := Cmsg.wfPrefix Cmsg.uNext img ctl
        let wk := Cmsg.wfPrefix Cmsg.kNext img ctl
        s!"u {showWalk wu} k {showWalk wk} rights " ++ showMsgs (Cmsg.rightsOf img wu.1)
      | _, _ => "bad-op"
    | ["cmsgold", fa, la, ctl, img] =>
      match fa.toNat?, la.toNat?, ctl.toNat?, Drv.unhex img with
      | some fa, some la, some ctl, some img => showIter ctl (Cmsg.iterateOld fa la img ctl)
      | _, _, _, _ => "bad-op"
    | "kfill" :: len :: nfds =>
      match len.toNat?, nfds.mapM (·.toNat?) with
      | some len, some nfds =>
        -- descriptor numbers are the environment's; the shape (how many arrive) is what is compared
        let msgs := nfds.map fun n => (List.range n).map (· + 100)
        let g := List.replicate (len + 64) 170
        let (mem, ctl) := Cmsg.kernelFill msgs len g
        let r := Cmsg.iterate true Cmsg.NOMINAL_BASE (mem.take (Cmsg.cmsgAlign len)) ctl
        let shape := fun (ms : List (List Nat)) => if ms.isEmpty then "-" else ",".intercalate (ms.map (toString ·.length))
        match r.bad with
        | some .fault => "signal 11"
        | some _ => "panic"
        | none => s!"ctl={ctl} msgs={shape r.msgs} fit={shape (Cmsg.delivered msgs len)} ids=ok" ++ (if inBounds ctl r.reads then "" else " oob")
      | _, _ => "bad-op"
    | _ => "bad-op"
  ((), out)

def main : IO Unit := Drv.run step ()
