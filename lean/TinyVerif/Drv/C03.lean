import TinyVerif.Model.Dlmalloc
import TinyVerif.Model.DlmallocWF2
import TinyVerif.Model.DlPureEval
import TinyVerif.Drv.Common
/-! Line-protocol driver for C03 / C04: runs `Model/Dlmalloc.lean` on the op lines of harness/c03
(replay form: OS answers given as `M<off>|M-`, `R+|R-`, `U+|U-` after a `|`) and prints the same
answer line: result, OS calls, summary words, full layout (or its FNV-1a hash). -/
open TinyVerif TinyVerif.Dl

structure DState where
  hist : Hist
  full : Bool
  cov : Bool
  poisoned : Bool
  wf : Bool

def showPtr (a : Nat) : String := if a = 0 then "-" else toString a

def hexDigits : Nat → Nat → List Char → List Char
  | 0, _, acc => acc
  | fuel + 1, n, acc =>
    let acc := Drv.hexNib (n % 16) :: acc
    if n / 16 = 0 then acc else hexDigits fuel (n / 16) acc

def hexNat (n : Nat) : String := String.ofList (hexDigits 32 n [])

def showEv : OsEv → String
  | .mmap len (some a) => s!"M{len}@{a}"
  | .mmap len none => s!"M{len}@-"
  | .mremap a o n ok => s!"R{a}:{o}:{n}:" ++ (if ok then "+" else "-")
  | .munmap a l ok => s!"U{a}:{l}:" ++ (if ok then "+" else "-")

def b01 (b : Bool) : String := if b then "1" else "0"

def showEnt (e : Ent) : String :=
  s!"{e.addr}:{e.size}:{b01 e.cin}{b01 e.pin}" ++ (if !e.pin && e.cin then s!":{e.pfoot}" else "")

def showTree : Tree → String
  | .nil => "."
  | .node a s ring l r =>
    s!"({a}:{s}" ++ String.join (ring.map fun x => s!"~{x}") ++ "," ++ showTree l ++ "," ++ showTree r ++ ")"

def enumFrom {α : Type} : Nat → List α → List (Nat × α)
  | _, [] => []
  | i, x :: xs => (i, x) :: enumFrom (i + 1) xs

def layout (s : St) : String :=
  let segs := ",".intercalate (s.segs.map fun g => s!"{g.base}+{g.size}")
  let chunks := "/".intercalate (s.segs.map fun g =>
    ",".intercalate ((s.h.ents.filter fun e => g.base ≤ e.addr && e.addr < g.base + g.size).map showEnt))
  let bins := ";".intercalate (((enumFrom 0 s.h.sbins).filter fun p => !p.2.isEmpty).map fun p =>
    s!"{p.1}:" ++ ",".intercalate (p.2.map toString))
  let trees := ";".intercalate (((enumFrom 0 s.h.tbins).filter fun p => p.2 != Tree.nil).map fun p =>
    s!"{p.1}:" ++ showTree p.2)
  s!"S={segs} C={chunks} B={bins} T={trees}"

def summary (s : St) : String :=
  let h := s.h
  let tf := if h.top = 0 then "0" else
    match findEnt h.ents (h.top + h.topsize) with
    | some e => toString (e.size + (if e.cin then 2 else 0) + (if e.pin then 1 else 0))
    | none => "?"
  s!"dv={showPtr h.dv}:{h.dvsize} top={showPtr h.top}:{h.topsize} tf={tf} fp={s.footprint} mfp={s.maxfp} tc={s.trim_check} rc={s.release_checks} la={showPtr s.least_addr} sm={hexNat (smallmap h)} tm={hexNat (treemap h)}"

def fnv (s : String) : UInt64 :=
  s.toUTF8.foldl (fun h b => (h ^^^ b.toUInt64) * 0x100000001b3) 0xcbf29ce484222325

def hex16 (x : UInt64) : String :=
  let s := hexNat x.toNat
  String.ofList (List.replicate (16 - s.length) '0') ++ s

def decNat (t : String) : Option Nat :=
  if t.isEmpty || t.length > 20 || !(t.all Char.isDigit) then none else t.toNat?

def parseDir (t : String) : Option OsDir :=
  match t.toList with
  | ['M', '-'] => some (.m none)
  | 'M' :: rest => (decNat (String.ofList rest)).map fun n => .m (some n)
  | ['R', '+'] => some (.r true)
  | ['R', '-'] => some (.r false)
  | ['U', '+'] => some (.u true)
  | ['U', '-'] => some (.u false)
  | _ => none

def parseDirs : List String → Option (List OsDir)
  | [] => some []
  | t :: ts => do let d ← parseDir t; let r ← parseDirs ts; pure (d :: r)

def splitBar : List String → List String → List String × Option (List String)
  | [], acc => (acc.reverse, none)
  | "|" :: rest, acc => (acc.reverse, some rest)
  | t :: rest, acc => splitBar rest (t :: acc)

def isPow2 (n : Nat) : Bool := n ≠ 0 && (n &&& (n - 1)) = 0

def I64MAX : Nat := 9223372036854775807

def parseOp (hs : Hist) (w : List String) : Option Op :=
  match w with
  | [k, id, size, align] =>
    match decNat id, decNat size, decNat align with
    | some id, some size, some align =>
      if (k = "m" || k = "c") && (findBlock hs.live id).isNone && size ≠ 0 && size ≤ I64MAX && isPow2 align
          && align ≤ 1048576 && id < 18446744073709551616 then
        some (if k = "m" then .malloc id size align else .calloc id size align)
      else none
    | _, _, _ => none
  | ["r", id, size] =>
    match decNat id, decNat size with
    | some id, some size =>
      if (findBlock hs.live id).isSome && size ≠ 0 && size ≤ I64MAX then some (.realloc id size) else none
    | _, _ => none
  | ["f", id] =>
    match decNat id with
    | some id => if (findBlock hs.live id).isSome then some (.free id) else none
    | none => none
  | _ => none

def runOp (d : DState) (w : List String) : DState × String :=
  let (opw, osw) := splitBar w []
  match parseOp d.hist opw, parseDirs (osw.getD []) with
  | some op, some dirs =>
    if d.poisoned then (d, "poisoned") else
    match d.hist.step op dirs with
    | .error e => ({ d with poisoned := true }, "model-error " ++ e)
    | .ok (hs, out) =>
      match (if d.wf then invFirstFailure hs else none) with
      | some part => ({ d with poisoned := true }, "model-error wf:" ++ part)
      | none =>
      let res := match op with
        | .free _ => "p=ok"
        | _ => "p=" ++ showPtr out.ptr
      let ev := if hs.st.evs.isEmpty then "-" else ";".intercalate (hs.st.evs.map showEv)
      let line :=
        if d.cov then
          let kind := match op with
            | .malloc _ _ a => if a ≤ MALLOC_ALIGNMENT then "malloc" else "memalign"
            | .calloc _ _ a => if a ≤ MALLOC_ALIGNMENT then "calloc" else "calloc-memalign"
            | .realloc .. => "realloc"
            | .free _ => "free"
          s!"{kind} br=" ++ ",".intercalate hs.st.h.tr ++ (if out.ptr = 0 then ",null" else "")
            ++ " os=" ++ ev
        else
          let lay := layout hs.st
          s!"{res} chk=ok os={ev} {summary hs.st} " ++ (if d.full then lay else "H=" ++ hex16 (fnv lay))
      ({ d with hist := hs }, line)
  | _, _ => (d, "bad-op")

def step' (d : DState) (line : String) : DState × String :=
  match Drv.words line with
  | ["reset"] => ({ d with hist := Hist.init, poisoned := false }, "ok")
  | ["dump", "full"] => ({ d with full := true }, "ok")
  | ["dump", "hash"] => ({ d with full := false }, "ok")
  | ["cov", "1"] => ({ d with cov := true }, "ok")
  | ["cov", "0"] => ({ d with cov := false }, "ok")
  | ["wf", "1"] => ({ d with wf := true }, "ok")
  | ["wf", "0"] => ({ d with wf := false }, "ok")
  | ["verify", k] => (d, if (decNat k).isSome then "ok" else "bad-op")
  | "pure" :: rest => (d, (evalPure rest).getD "bad-op")
  | w => match w with
    | k :: _ => if k = "m" || k = "c" || k = "r" || k = "f" then runOp d w else (d, "bad-op")
    | [] => (d, "bad-op")

def main : IO Unit := Drv.run step' { hist := Hist.init, full := true, cov := false, poisoned := false, wf := false }
