import TinyVerif.Model.Start
import TinyVerif.Model.Env
import TinyVerif.Drv.Common
open TinyVerif TinyVerif.Start TinyVerif.Env

/-- driver state: the environment block the `var` / `varu` lines refer to -/
structure St where
  env : List Bytes := []
  /-- the image the `it` lines refer to: memory after `resolve`, the pointers it returned, string fuel -/
  img : Option (Mem × Env × Nat) := none

def arrMem (base : Nat) (a : Array Nat) : Mem :=
  fun x => if x < base then none else a[x - base]?

/-- several images; the first that covers the address answers -/
def segMem (segs : List (Nat × Array Nat)) : Mem :=
  fun x => segs.findSome? fun (b, a) => if b ≤ x ∧ x < b + a.size then a[x - b]? else none

def hexList (l : List Bytes) : String :=
  if l.isEmpty then "." else ",".intercalate (l.map Drv.hex)

def showR {α : Type} (f : α → String) : R α → String
  | .ok a => f a
  | .fault => "fault"
  | .panic => "panic"
  | .fuel => "fuel"

def showVar : VarRes → String
  | .missing => "missing"
  | .found v => s!"ok {Drv.hex v}"
  | .notUnicode => "notunicode"

def showItem : StrItem → String
  | .ok s => "ok:" ++ Drv.hex s
  | .err => "err"

def showAux (a : AuxValues) : String :=
  s!"{a.at_base},{a.at_gid},{a.at_uid},{a.at_phdr},{a.at_phent},{a.at_phnum},{a.at_random},{a.at_secure},{a.at_sysinfo_ehdr},{a.at_execfn}"

/-- what a program started on memory `m` with stack pointer `sp` observes -/
def observe (m : Mem) (sp dynv fuel : Nat) : String :=
  match resolve m sp dynv fuel with
  | .ok (e, aux, m') =>
    let it := argsOs e
    let os := collectOs m' e fuel fuel it
    let ar := collectArgs m' e fuel fuel it
    let ev := envWalk m' fuel fuel e.envp
    s!"ok argc={e.argc} len={it.len} args_os={showR hexList os} args={showR (fun l => if l.isEmpty then "." else ",".intercalate (l.map showItem)) ar} env={showR hexList ev} aux={showAux aux}"
  | .fault => "fault"
  | .panic => "panic"
  | .fuel => "fuel"

/-- the start-up state the last `stack` / `build` line produced (none when `resolve` did not succeed) -/
def imageOf (m : Mem) (sp dynv fuel : Nat) : Option (Mem × Env × Nat) :=
  match resolve m sp dynv fuel with
  | .ok (e, _, m') => some (m', e, fuel)
  | _ => none

/-- `n`, `N:<k>`, `s:<k>`, `t:<k>` (k > 0), `l`, `h`, `c`, `L`, `f`; every count a `usize` -/
def parseOp (t : String) : Option ItOp :=
  match t.splitOn ":" with
  | ["n"] => some .next
  | ["l"] => some .len
  | ["h"] => some .sizeHint
  | ["c"] => some .count
  | ["L"] => some .last
  | ["f"] => some .fold
  | ["N", k] => k.toNat?.bind fun k => if k < W64 then some (.nth k) else none
  | ["s", k] => k.toNat?.bind fun k => if k < W64 then some (.skip k) else none
  | ["t", k] => k.toNat?.bind fun k => if 0 < k ∧ k < W64 then some (.stepBy k) else none
  | _ => none

/-- `count` / `last` / `fold` take the iterator by value: nothing may follow them -/
def parseOps : List String → Option (List ItOp)
  | [] => some []
  | t :: rest => do
    let op ← parseOp t
    if (op = .count ∨ op = .last ∨ op = .fold) ∧ !rest.isEmpty then none
    let r ← parseOps rest
    pure (op :: r)

def opTag : ItOp → String
  | .next => "n" | .nth _ => "N" | .skip _ => "s" | .stepBy _ => "t" | .len => "l" | .sizeHint => "h"
  | .count => "c" | .last => "L" | .fold => "f"

def showOut {α : Type} (f : α → String) : ItOut α → String
  | .item none => "None"
  | .item (some a) => "S:" ++ f a
  | .items l => "[" ++ ",".intercalate (l.map f) ++ "]"
  | .num n => toString n
  | .hint lo hi => s!"{lo}," ++ (match hi with | none => "none" | some h => toString h)

def showOuts {α : Type} (f : α → String) : List ItOp → List (ItOut α) → List String
  | op :: ops, o :: outs => (opTag op ++ "=" ++ showOut f o) :: showOuts f ops outs
  | _, _ => []

def unhexAll : List String → Option (List Bytes)
  | [] => some []
  | h :: t => do let b ← Drv.unhex h; let r ← unhexAll t; pure (b :: r)

/-- `a <hex>* e <hex>* x (<k> <v>)*` -/
def parseAux : List String → Option (List (Nat × Nat))
  | [] => some []
  | k :: v :: t => do let k ← k.toNat?; let v ← v.toNat?; let r ← parseAux t; pure ((k, v) :: r)
  | _ => none

def splitAt (tok : String) (l : List String) : List String × List String :=
  (l.takeWhile (· ≠ tok), (l.dropWhile (· ≠ tok)).drop 1)

structure RelocIn where
  segs : List (Nat × Array Nat) := []
  queries : List Nat := []

def parseReloc : List String → RelocIn → Option RelocIn
  | [], r => some { r with segs := r.segs.reverse, queries := r.queries.reverse }
  | "seg" :: a :: h :: t, r => do
      let a ← a.toNat?; let b ← Drv.unhex h
      parseReloc t { r with segs := (a, b.toArray) :: r.segs }
  | "zero" :: a :: n :: t, r => do
      let a ← a.toNat?; let n ← n.toNat?
      parseReloc t { r with segs := (a, Array.replicate n 0) :: r.segs }
  | "w" :: a :: v :: t, r => do
      let a ← a.toNat?; let v ← v.toNat?
      parseReloc t { r with segs := (a, (le 8 v).toArray) :: r.segs }
  | "q" :: a :: t, r => do
      let a ← a.toNat?
      parseReloc t { r with queries := a :: r.queries }
  | _, _ => none

def showWords (m : Mem) (qs : List Nat) : String :=
  " ".intercalate (qs.map fun a => showR toString (rd64 m a))

/-- `(w <off> <val> | wb <off> <val>)* (q <off>)*` over a zeroed buffer placed at `base` -/
def parseSyn (base size : Nat) : List String → Array Nat → List Nat → Option (Array Nat × List Nat)
  | [], a, qs => some (a, qs.reverse)
  | "w" :: off :: v :: t, a, qs => do
      let off ← off.toNat?; let v ← v.toNat?
      if off + 8 > size ∨ v ≥ W64 then none else
      parseSyn base size t ((List.range 8).foldl (fun a k => a.setIfInBounds (off + k) (v / 256 ^ k % 256)) a) qs
  | "wb" :: off :: v :: t, a, qs => do
      let off ← off.toNat?; let v ← v.toNat?
      if off + 8 > size ∨ v ≥ W64 then none else
      let v := (v + base) % W64
      parseSyn base size t ((List.range 8).foldl (fun a k => a.setIfInBounds (off + k) (v / 256 ^ k % 256)) a) qs
  | "q" :: off :: t, a, qs => do
      let off ← off.toNat?
      if off + 8 > size then none else parseSyn base size t a (off :: qs)
  | _, _, _ => none

def constsLine : String :=
  s!"consts AT_PHDR={AT_PHDR} AT_PHENT={AT_PHENT} AT_PHNUM={AT_PHNUM} AT_BASE={AT_BASE} AT_UID={AT_UID} AT_GID={AT_GID} AT_SECURE={AT_SECURE} AT_RANDOM={AT_RANDOM} AT_EXECFN={AT_EXECFN} AT_SYSINFO_EHDR={AT_SYSINFO_EHDR} PT_DYNAMIC={PT_DYNAMIC} DT_RELA={DT_RELA} DT_RELASZ={DT_RELASZ} DT_REL={DT_REL} DT_RELSZ={DT_RELSZ} REL_RELATIVE={R_RELATIVE} SZ_REL={SZ_REL} SZ_RELA={SZ_RELA} SZ_PHDR=56"

def step (s : St) (line : String) : St × String :=
  match Drv.words line with
  | ["consts"] => (s, constsLine)
  | ["stack", sp, h] =>
    match sp.toNat?, Drv.unhex h with
    | some sp, some img =>
      let a := img.toArray
      ({ s with img := imageOf (arrMem sp a) sp 0 (a.size + 1) }, observe (arrMem sp a) sp 0 (a.size + 1))
    | _, _ => (s, "bad-op")
  | "build" :: sp :: rest =>
    -- the spec-side image: `build <sp> a <hex>* e <hex>* x (<k> <v>)*`
    match sp.toNat?, rest with
    | some sp, "a" :: rest =>
      let (as, rest) := splitAt "e" rest
      let (es, xs) := splitAt "x" rest
      match unhexAll as, unhexAll es, parseAux xs with
      | some argv, some env, some aux =>
        let a := (buildStack sp argv env aux).toArray
        ({ s with img := imageOf (arrMem sp a) sp 0 (a.size + 1) }, observe (arrMem sp a) sp 0 (a.size + 1))
      | _, _, _ => (s, "bad-op")
    | _, _ => (s, "bad-op")
  | "it" :: kind :: toks =>
    -- a script of calls on ONE fresh `args_os()` / `args()` iterator over the last `stack` / `build` image
    match s.img, parseOps toks with
    | some (m, e, fuel), some ops =>
      if ops.isEmpty then (s, "bad-op") else
      let k := e.argc + 2
      if kind = "os" then
        (s, showR (fun outs => " ".intercalate ("it" :: showOuts Drv.hex ops outs)) (runOps (ArgsOs.next m e fuel) k ops (argsOs e)))
      else if kind = "args" then
        (s, showR (fun outs => " ".intercalate ("it" :: showOuts showItem ops outs)) (runOps (Args.next m e fuel) k ops (argsOs e)))
      else (s, "bad-op")
    | _, _ => (s, "bad-op")
  | "legacy-it" :: kind :: toks =>
    -- the same script through the bodies of `len` / `size_hint` before the `fix:` commit d3e06ee (history witness)
    match s.img, parseOps toks with
    | some (m, e, fuel), some ops =>
      if ops.isEmpty then (s, "bad-op") else
      let k := e.argc + 2
      if kind = "os" then
        (s, showR (fun outs => " ".intercalate ("it" :: showOuts Drv.hex ops outs)) (Legacy.runOps (ArgsOs.next m e fuel) k ops (argsOs e)))
      else if kind = "args" then
        (s, showR (fun outs => " ".intercalate ("it" :: showOuts showItem ops outs)) (Legacy.runOps (Args.next m e fuel) k ops (argsOs e)))
      else (s, "bad-op")
    | _, _ => (s, "bad-op")
  | "env" :: hs =>
    match unhexAll hs with
    | some env => ({ s with env := env }, "ok")
    | none => (s, "bad-op")
  | ["var", k] =>
    match Drv.unhex k with
    | some key => (s, showR showVar (var key s.env))
    | none => (s, "bad-op")
  | ["varu", k] =>
    match Drv.unhex k with
    | some key => (s, showR showVar (varUnix key s.env))
    | none => (s, "bad-op")
  | ["legacy-var", k] =>
    match Drv.unhex k with
    | some key => (s, showR showVar (Legacy.var key s.env))
    | none => (s, "bad-op")
  | ["legacy-varu", k] =>
    match Drv.unhex k with
    | some key => (s, showR showVar (Legacy.varUnix key s.env))
    | none => (s, "bad-op")
  | ["utf8", h] =>
    match Drv.unhex h with
    | some b => (s, if utf8Valid b then "ok" else "err")
    | none => (s, "bad-op")
  | "reloc" :: dynv :: base :: phdr :: phent :: phnum :: rest =>
    match dynv.toNat?, base.toNat?, phdr.toNat?, phent.toNat?, phnum.toNat?, parseReloc rest {} with
    | some dynv, some base, some phdr, some phent, some phnum, some r =>
      let m := segMem r.segs
      let aux : AuxValues := { AuxValues.zeroed with at_base := base, at_phdr := phdr, at_phent := phent, at_phnum := phnum }
      let fuel := (r.segs.foldl (fun acc sg => acc + sg.2.size) 0) + 1
      (s, showR (fun m' => "ok " ++ showWords m' r.queries) (relocateSymbols m dynv aux fuel))
    | _, _, _, _, _, _ => (s, "bad-op")
  | "auxv" :: rest =>
    match parseAux rest with
    | some aux =>
      let a := (leWords (auxFlat aux ++ [0, 0])).toArray
      (s, showR showAux (fromAuxv (arrMem 4096 a) 4096 (aux.length + 1)))
    | none => (s, "bad-op")
  | "relocsyn" :: size :: phoff :: phent :: phnum :: dynoff :: rest =>
    match size.toNat?, phoff.toNat?, phent.toNat?, phnum.toNat?, dynoff.toNat? with
    | some size, some phoff, some phent, some phnum, some dynoff =>
      let base := 65536
      if size > 16777216 ∨ size % 8 ≠ 0 then (s, "bad-op") else
      match parseSyn base size rest (Array.replicate size 0) [] with
      | some (a, qs) =>
        let aux : AuxValues := { AuxValues.zeroed with at_phdr := base + phoff, at_phent := phent, at_phnum := phnum }
        (s, showR (fun m' => "ok" ++ String.join (qs.map fun q =>
              " " ++ showR (fun v => toString ((v + W64 - base) % W64)) (rd64 m' (base + q))))
            (relocateSymbols (arrMem base a) (base + dynoff) aux (size + 1)))
      | none => (s, "bad-op")
    | _, _, _, _, _ => (s, "bad-op")
  | _ => (s, "bad-op")

def main : IO Unit := Drv.run step {}
