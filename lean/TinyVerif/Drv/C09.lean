import TinyVerif.Model.Wrap
import TinyVerif.Gen.Wrappers
import TinyVerif.Drv.Common
open TinyVerif TinyVerif.Wrap

/-- a 64-bit register: decimal, or `-n` meaning `(−n) as u64` -/
def parseReg (s : String) : Option Nat :=
  if s.startsWith "-" then
    match (s.drop 1).toNat? with
    | some n => if 0 < n ∧ n ≤ TWO64 then some (TWO64 - n) else (if n = 0 then some 0 else none)
    | none => none
  else
    match s.toNat? with
    | some n => if n < TWO64 then some n else none
    | none => none

def parseRegs : List String → Option (List Nat)
  | [] => some []
  | s :: rest => do let v ← parseReg s; let vs ← parseRegs rest; pure (v :: vs)

def lookup (name : String) : Option Wrapper := Gen.wrappers.find? (fun w => w.name == name)

def runOn (w : Wrapper) (vals : List Nat) : String :=
  let (o, n) := run Gen.cfg w.skel (fun i => (vals[i]?).getD 0)
  s!"{showOutcome o} {n}"

def step (_ : Unit) (line : String) : Unit × String :=
  match Drv.words line with
  | ["list"] => ((), toString ((Gen.wrappers.filter (fun w => w.skel != .noRet)).length))
  | ["const", "ebusy"] => ((), toString Gen.cfg.ebusy)
  | ["iserr", v] =>
    match parseReg v with
    | some r => ((), if isSyscallError Gen.cfg r then "1" else "0")
    | none => ((), "bad-op")
  | "call" :: name :: variant :: [v] =>
    match lookup name, variant.toNat?, parseReg v with
    | some w, some _, some r => ((), runOn w (List.replicate 8 r))
    | _, _, _ => ((), "bad-op")
  | "seq" :: name :: variant :: v :: vs =>
    match lookup name, variant.toNat?, parseRegs (v :: vs) with
    | some w, some _, some rs => ((), runOn w rs)
    | _, _, _ => ((), "bad-op")
  | _ => ((), "bad-op")

def main : IO Unit := Drv.run step ()
