import TinyVerif.Model.RwLock
import TinyVerif.Drv.Common
open TinyVerif TinyVerif.RwLock

def parseTxn (w : String) : Option Txn :=
  match w.toList with
  | 't' :: 'r' :: r => (String.ofList r).toNat?.map (fun k => ⟨.tryRead, k⟩)
  | 't' :: 'w' :: r => (String.ofList r).toNat?.map (fun k => ⟨.tryWrite, k⟩)
  | 'r' :: r => (String.ofList r).toNat?.map (fun k => ⟨.read, k⟩)
  | 'w' :: r => (String.ofList r).toNat?.map (fun k => ⟨.write, k⟩)
  | _ => none

def splitTok (sep : String) (ws : List String) : List (List String) :=
  let rec go : List String → List String → List (List String) → List (List String)
    | [], cur, acc => (cur.reverse :: acc).reverse
    | w :: rest, cur, acc => if w == sep then go rest [] (cur.reverse :: acc) else go rest (w :: cur) acc
  go ws [] []

def stripPrefix? (s pre : String) : Option String :=
  if s.startsWith pre then some (s.drop pre.length).toString else none

def locOf (op pre : String) : Option Nat := (stripPrefix? op pre).bind (·.toNat?)

def parseRes (r : String) : Option CasRes :=
  match stripPrefix? r "ok", stripPrefix? r "fail", stripPrefix? r "spur" with
  | some _, _, _ => some .ok
  | _, some v, _ => v.toNat?.map .fail
  | _, _, some v => v.toNat?.map .spur
  | _, _, _ => none

def parseEv (ws : List String) : Option (Nat × Ev) :=
  match ws with
  | [tid, op, a, b, r] => do
    let i ← tid.toNat?
    if op == "call-read" then pure (i, .call .read)
    else if op == "call-write" then pure (i, .call .write)
    else if op == "call-tryread" then pure (i, .call .tryRead)
    else if op == "call-trywrite" then pure (i, .call .tryWrite)
    else if op == "acq" then pure (i, .acq)
    else if op == "rel" then pure (i, .rel)
    else if op == "tryfail" then pure (i, .tryfail)
    else if op == "data" then pure (i, .data)
    else if op == "spur" then pure (i, .spur (r == "eintr"))
    else if op.startsWith "casw" then do
      let l ← locOf op "casw"
      match b.splitOn ">" with
      | [x, y] => do let x ← x.toNat?; let y ← y.toNat?; let rr ← parseRes r; pure (i, .cas l true x y rr)
      | _ => none
    else if op.startsWith "cas" then do
      let l ← locOf op "cas"
      match b.splitOn ">" with
      | [x, y] => do let x ← x.toNat?; let y ← y.toNat?; let rr ← parseRes r; pure (i, .cas l false x y rr)
      | _ => none
    else if op.startsWith "load" then do let l ← locOf op "load"; let v ← r.toNat?; pure (i, .load l v)
    else if op.startsWith "fsub" then do let l ← locOf op "fsub"; let v ← b.toNat?; let o ← r.toNat?; pure (i, .fsub l v o)
    else if op.startsWith "fadd" then do let l ← locOf op "fadd"; let v ← b.toNat?; let o ← r.toNat?; pure (i, .fadd l v o)
    else if op.startsWith "fwait" then do
      let l ← locOf op "fwait"; let v ← b.toNat?
      if r == "park" then pure (i, .fwait l v true) else if r == "eagain" then pure (i, .fwait l v false) else none
    else if op.startsWith "fwake" then do
      let l ← locOf op "fwake"; let n ← a.toNat?
      let ws ← if b == "-" then some [] else (b.splitOn ",").mapM (·.toNat?)
      pure (i, .fwake l n ws)
    else none
  | _ => none

def bit (s : String) : Option Bool := if s == "1" then some true else if s == "0" then some false else none

def allStuck (s : St) : Bool :=
  (List.range s.n).all (fun i => !(enabled (s.ths i))) && (List.range s.n).any (fun i => isParked (s.ths i))

def replay (c : Cfg) : St → Nat → List (List String) → String
  | s, _, [] =>
      let fin := (List.range s.n).all (fun i => finished (s.ths i))
      s!"accept final={s.state} raced={s.raced} finished={fin}"
  | s, k, ev :: rest =>
      match ev with
      | ["-", "deadlock", _, _, _] =>
          if allStuck s then s!"accept-deadlock at={k} final={s.state}" else s!"reject {k} model-not-deadlocked"
      | _ =>
      match parseEv ev with
      | none => s!"reject {k} unparsable-event {ev}"
      | some (i, e) =>
        let strictOk := match e with
          | .load 0 v => v == s.state
          | .load 1 v => v == s.notify
          | _ => true
        if !strictOk then s!"reject {k} load-not-latest {ev} model-state={s.state} notify={s.notify}" else
        match step c s i e with
        | none => s!"reject {k} model-thread-would-not-do {ev} model-state={s.state} pc={repr (s.ths i).pc}"
        | some s' => replay c s' (k + 1) rest

def stepLine (_ : Unit) (line : String) : Unit × String :=
  let ws := Drv.words line
  match ws with
  | "rw" :: a :: b :: c :: d :: sp :: ":" :: rest =>
    match bit a, bit b, bit c, bit d, sp.toNat? with
    | some a, some b, some c, some d, some sp =>
      let cfg : Cfg := ⟨a, b, c, d, sp⟩
      match splitTok "::" rest with
      | [progToks, evToks] =>
        match (splitTok "|" progToks).mapM (fun ws => ws.mapM parseTxn) with
        | none => ((), "bad-op")
        | some progs =>
          let evs := (splitTok ";" evToks).filter (· ≠ [])
          ((), replay cfg (init progs) 0 evs)
      | _ => ((), "bad-op")
    | _, _, _, _, _ => ((), "bad-op")
  | _ => ((), "bad-op")

def main : IO Unit := Drv.run stepLine ()
