import TinyVerif.Model.RwLock
import TinyVerif.Drv.Common
open TinyVerif TinyVerif.RwLock

def parseTxn (w : String) : Option Txn :=
  match w.toList with
  | 't' :: 'r' :: r => (String.ofList r).toNat?.map (fun k => ⟨.tryRead, k⟩)
  | 't' :: 'w' :: r => (String.ofList r).toNat?.map (fun k => ⟨.tryWrite, k⟩)
  | 'r' :: r => (String.ofList r).toNat?.map (fun k => ⟨.read, k⟩)
  | 'w' :: r => (String.ofList r).toNat?.map (fun k => ⟨.write, k⟩)
  | _ => none

def splitTok (sep : String) (ws : List String) : List (List String) :=
  let rec go : List String → List String → List (List String) → List (List String)
    | [], cur, acc => (cur.reverse :: acc).reverse
    | w :: rest, cur, acc => if w == sep then go rest [] (cur.reverse :: acc) else go rest (w :: cur) acc
  go ws [] []

def stripPrefix? (s pre : String) : Option String :=
  if s.startsWith pre then some (s.drop pre.length).toString else none

def locOf (op pre : String) : Option Nat := (stripPrefix? op pre).bind (·.toNat?)

def parseRes (r : String) : Option CasRes :=
  match stripPrefix? r "ok", stripPrefix? r "fail", stripPrefix? r "spur" with
  | some _, _, _ => some .ok
  | _, some v, _ => v.toNat?.map .fail
  | _, _, some v => v.toNat?.map .spur
  | _, _, _ => none

def acqOf (o : String) : Option Bool :=
  if o == "acq" || o == "acqrel" || o == "sc" then some true
  else if o == "rlx" || o == "rel" then some false else none
def relOf (o : String) : Option Bool :=
  if o == "rel" || o == "acqrel" || o == "sc" then some true
  else if o == "rlx" || o == "acq" then some false else none

/-- configuration update of a CAS on location `l` with orderings `succ/fail`: `step` consults `readAcq` /
`writeAcq` only for a CAS on `state` that creates a guard, and then it is this event's own success ordering -/
def casUpd (l : Nat) (a : String) : Option (Cfg → Cfg) := do
  let so ← (a.splitOn "/").head?
  let acq ← acqOf so
  pure (fun c => if l == 0 then { c with readAcq := acq, writeAcq := acq } else c)

/-- parse one trace event into (tid, event, configuration update): RMW events carry the ordering the running
code passed; the update makes `step` judge exactly this event with that ordering -/
def parseEv (ws : List String) : Option (Nat × Ev × (Cfg → Cfg)) :=
  match ws with
  | [tid, op, a, b, r] => do
    let i ← tid.toNat?
    if op == "call-read" then pure (i, .call .read, id)
    else if op == "call-write" then pure (i, .call .write, id)
    else if op == "call-tryread" then pure (i, .call .tryRead, id)
    else if op == "call-trywrite" then pure (i, .call .tryWrite, id)
    else if op == "acq" then pure (i, .acq, id)
    else if op == "rel" then pure (i, .rel, id)
    else if op == "tryfail" then pure (i, .tryfail, id)
    else if op == "data" then pure (i, .data, id)
    else if op == "spur" then pure (i, .spur (r == "eintr"), id)
    else if op.startsWith "casw" then do
      let l ← locOf op "casw"
      let upd ← casUpd l a
      match b.splitOn ">" with
      | [x, y] => do let x ← x.toNat?; let y ← y.toNat?; let rr ← parseRes r; pure (i, .cas l true x y rr, upd)
      | _ => none
    else if op.startsWith "cas" then do
      let l ← locOf op "cas"
      let upd ← casUpd l a
      match b.splitOn ">" with
      | [x, y] => do let x ← x.toNat?; let y ← y.toNat?; let rr ← parseRes r; pure (i, .cas l false x y rr, upd)
      | _ => none
    else if op.startsWith "load" then do let l ← locOf op "load"; let v ← r.toNat?; pure (i, .load l v, id)
    else if op.startsWith "fsub" then do
      let l ← locOf op "fsub"; let v ← b.toNat?; let o ← r.toNat?
      let rel ← relOf a
      pure (i, .fsub l v o, fun c => if l == 0 then { c with readRel := rel, writeRel := rel } else c)
    else if op.startsWith "fadd" then do let l ← locOf op "fadd"; let v ← b.toNat?; let o ← r.toNat?; pure (i, .fadd l v o, id)
    else if op.startsWith "fwait" then do
      let l ← locOf op "fwait"; let v ← b.toNat?
      if r == "park" then pure (i, .fwait l v true, id) else if r == "eagain" then pure (i, .fwait l v false, id) else none
    else if op.startsWith "fwake" then do
      let l ← locOf op "fwake"; let n ← a.toNat?
      let ws ← if b == "-" then some [] else (b.splitOn ",").mapM (·.toNat?)
      pure (i, .fwake l n ws, id)
    else none
  | _ => none

def allStuck (s : St) : Bool :=
  (List.range s.n).all (fun i => !(enabled (s.ths i))) && (List.range s.n).any (fun i => isParked (s.ths i))

def replay (c : Cfg) : St → Nat → List (List String) → String
  | s, _, [] =>
      let fin := (List.range s.n).all (fun i => finished (s.ths i))
      s!"accept final={s.state} raced={s.raced} finished={fin}"
  | s, k, ev :: rest =>
      match ev with
      | ["-", "deadlock", _, _, _] =>
          if allStuck s then s!"accept-deadlock at={k} final={s.state}" else s!"reject {k} model-not-deadlocked"
      | _ =>
      match parseEv ev with
      | none => s!"reject {k} unparsable-event {ev}"
      | some (i, e, upd) =>
        let strictOk := match e with
          | .load 0 v => v == s.state
          | .load 1 v => v == s.notify
          | _ => true
        if !strictOk then s!"reject {k} load-not-latest {ev} model-state={s.state} notify={s.notify}" else
        match step (upd c) s i e with
        | none => s!"reject {k} model-thread-would-not-do {ev} model-state={s.state} pc={repr (s.ths i).pc}"
        | some s' => replay c s' (k + 1) rest

/-- `rw <spin budget> : prog | prog … :: event ; event …`  (orderings come with the events) -/
def stepLine (_ : Unit) (line : String) : Unit × String :=
  let ws := Drv.words line
  match ws with
  | "rw" :: sp :: ":" :: rest =>
    match sp.toNat? with
    | some sp =>
      let cfg : Cfg := ⟨true, true, true, true, sp⟩
      match splitTok "::" rest with
      | [progToks, evToks] =>
        match (splitTok "|" progToks).mapM (fun ws => ws.mapM parseTxn) with
        | none => ((), "bad-op")
        | some progs =>
          let evs := (splitTok ";" evToks).filter (· ≠ [])
          ((), replay cfg (init progs) 0 evs)
      | _ => ((), "bad-op")
    | none => ((), "bad-op")
  | _ => ((), "bad-op")

def main : IO Unit := Drv.run stepLine ()
