import TinyVerif.Model.Thread
import TinyVerif.Drv.Common
open TinyVerif TinyVerif.Thread

/-
drv_c05 — line protocol (C05 and C06 share it):
  layout <vSize> <vAlign>
      -> `layout <size> <align> <valueOffset> futex=<o> sz=<o> al=<o>` | `layout-panic`
  thr <checkClone> <mmapCleanup> <initWord> <joinExpect> <dropExpect> <setTidRet> <setTidPanic> <loadSync> <spurious> <dropValH> <dropValT> <recheck> : <inst> <event> ; ...
      replays an observed history (events of all instances in observation order) on the model:
      -> `accept n=<events> joins=<inst>:<some v|none>,.. complete=<b> bad=<b> raced=<b> heap=<live blocks> maps=<live mappings> leaked=<panicked closures> dpanics=<n> frees=<inst>:<tsm>/<tls>/<stack>/<box>,..`
      -> `reject <k> inst=<i> ev=<event> h=<pc> t=<pc> ...` when the model's party would not take that step there
  thrn <the 12 parameters> <hTidDrop> <hTidDealloc> : <i> own=<j> ; ... ; <inst> <event> ; ...
      the same for a nested family (Model/Thread Part 3, `stepN`): `<i> own=<j>` = the handle side of instance i is executed by
      the thread of instance j (which must be inside its closure for every handle-side event of i); the two extra parameters say
      whether Drop for JoinHandle / Tsm::dealloc issue set_tid_address(0) on the executing thread; a reject names the owner
  events: hAllocTsm hBox hMmap=<0|1> hAllocTls hClone=<0|1> hUndoTls hUndoStack hUndoBox hUndoTsm hJoin hDrop
          hLoad=<v> hFwait=<park 0|1> hEintr hSpur hReadSlot hFreeTsm hCas=<0|1>
          tRet=<v> tPanic tWrite tPanicRead tCas=<0|1> tSetTid tDropVal tDropPanic tFreeTsm tFreeTls tFreeBox tMunmap tExit kExit
      (`leaked` counts the threads that panicked — closure or destructor of the unread result; `dpanics` those of the second kind)
-/

def bit (s : String) : Option Bool := if s == "1" then some true else if s == "0" then some false else none

def parseEv (w : String) : Option Ev :=
  match w.splitOn "=" with
  | [n] =>
    if n == "hAllocTsm" then some .hAllocTsm else if n == "hBox" then some .hBox
    else if n == "hAllocTls" then some .hAllocTls
    else if n == "hUndoTls" then some .hUndoTls else if n == "hUndoStack" then some .hUndoStack
    else if n == "hUndoBox" then some .hUndoBox else if n == "hUndoTsm" then some .hUndoTsm
    else if n == "hJoin" then some .hJoin else if n == "hDrop" then some .hDrop
    else if n == "hEintr" then some .hEintr else if n == "hSpur" then some .hSpur
    else if n == "hReadSlot" then some .hReadSlot else if n == "hFreeTsm" then some .hFreeTsm
    else if n == "tPanic" then some .tPanic else if n == "tWrite" then some .tWrite
    else if n == "tPanicRead" then some .tPanicRead else if n == "tSetTid" then some .tSetTid
    else if n == "tFreeTsm" then some .tFreeTsm else if n == "tFreeTls" then some .tFreeTls
    else if n == "tFreeBox" then some .tFreeBox else if n == "tMunmap" then some .tMunmap
    else if n == "tExit" then some .tExit else if n == "kExit" then some .kExit
    else if n == "tDropVal" then some .tDropVal else if n == "tDropPanic" then some .tDropPanic
    else none
  | [n, a] =>
    if n == "hMmap" then (bit a).map .hMmap
    else if n == "hClone" then (bit a).map .hClone
    else if n == "hLoad" then a.toNat?.map .hLoad
    else if n == "hFwait" then (bit a).map .hFwait
    else if n == "hCas" then (bit a).map .hCas
    else if n == "tRet" then a.toNat?.map .tRet
    else if n == "tCas" then (bit a).map .tCas
    else none
  | _ => none

def splitTok (sep : String) (ws : List String) : List (List String) :=
  let rec go : List String → List String → List (List String) → List (List String)
    | [], cur, acc => (cur.reverse :: acc).reverse
    | w :: rest, cur, acc => if w == sep then go rest [] (cur.reverse :: acc) else go rest (w :: cur) acc
  go ws [] []

def showOpt : Option Nat → String
  | none => "none"
  | some v => s!"some {v}"

def insertId (i : Nat) (l : List Nat) : List Nat := if l.contains i then l else l ++ [i]

def summary (s : St) (ids : List Nat) (n : Nat) : String :=
  let xs := ids.map (fun i => (i, s.inst i))
  let joins := xs.filterMap (fun (i, x) => x.joinRes.map (fun r => s!"{i}:{showOpt r}"))
  let cmp := xs.all (fun (_, x) => complete x)
  let bad := xs.any (fun (_, x) => x.bad)
  let raced := xs.any (fun (_, x) => x.raced)
  let heap := xs.foldl (fun a (_, x) => a + liveHeap x) 0
  let maps := xs.foldl (fun a (_, x) => a + liveMaps x) 0
  let leaked := xs.foldl (fun a (_, x) => a + b2n (spawnedOk x.h && x.panicked)) 0
  let dps := xs.foldl (fun a (_, x) => a + b2n x.dpanic) 0
  let frees := xs.map (fun (i, x) => s!"{i}:{x.tsmFrees}/{x.tlsFrees}/{x.stackFrees}/{x.boxFrees}")
  s!"accept n={n} joins={",".intercalate joins} complete={cmp} bad={bad} raced={raced} heap={heap} maps={maps} leaked={leaked} dpanics={dps} frees={",".intercalate frees}"

def replay (c : Cfg) : St → Nat → List Nat → List (List String) → String
  | s, k, ids, [] => summary s ids k
  | s, k, ids, ev :: rest =>
    match ev with
    | [is, es] =>
      match is.toNat?, parseEv es with
      | some i, some e =>
        match step c s i e with
        | some s' => replay c s' (k + 1) (insertId i ids) rest
        | none =>
          let x := s.inst i
          s!"reject {k} inst={i} ev={es} h={reprStr x.h} t={reprStr x.t} flag={x.flag} word={x.word} kdone={x.kdone} ctid={x.ctid}"
      | _, _ => s!"bad-op event {k}"
    | _ => s!"bad-op event {k}"

/-- nested families: `<i> own=<j>` declares that the handle side of instance i is executed by the thread of instance j -/
def ownerOf (m : List (Nat × Nat)) (i : Nat) : Option Nat := (m.find? (fun p => p.1 == i)).map (·.2)

def replayN (c : Cfg) (hd hf : Bool) : List (Nat × Nat) → St → Nat → List Nat → List (List String) → String
  | _, s, k, ids, [] => summary s ids k
  | m, s, k, ids, ev :: rest =>
    match ev with
    | [is, es] =>
      match is.toNat?, es.splitOn "=" with
      | some i, ["own", js] =>
        match js.toNat? with
        | some j => replayN c hd hf ((i, j) :: m) s k ids rest
        | none => s!"bad-op event {k}"
      | some i, _ =>
        match parseEv es with
        | some e =>
          match stepN c ⟨ownerOf m, hd, hf⟩ s i e with
          | some s' => replayN c hd hf m s' (k + 1) (insertId i ids) rest
          | none =>
            let x := s.inst i
            let o := match ownerOf m i with
              | none => "main"
              | some j => s!"{j}(t={reprStr (s.inst j).t})"
            s!"reject {k} inst={i} ev={es} h={reprStr x.h} t={reprStr x.t} flag={x.flag} word={x.word} kdone={x.kdone} ctid={x.ctid} owner={o}"
        | none => s!"bad-op event {k}"
      | _, _ => s!"bad-op event {k}"
    | _ => s!"bad-op event {k}"

def stepLine (_ : Unit) (line : String) : Unit × String :=
  match Drv.words line with
  | ["layout", a, b] =>
    match a.toNat?, b.toNat? with
    | some sz, some al =>
      match layoutTsm sz al, valueOffset al, futexOffset, selfSzOffset, selfAlignOffset with
      | some L, some v, some f, some o1, some o2 => ((), s!"layout {L.size} {L.align} {v} futex={f} sz={o1} al={o2}")
      | _, _, _, _, _ => ((), "layout-panic")
    | _, _ => ((), "bad-op")
  | "thr" :: a1 :: a2 :: a3 :: a4 :: a5 :: a6 :: a7 :: a8 :: a9 :: a10 :: a11 :: a12 :: ":" :: rest =>
    match bit a1, bit a2, a3.toNat?, a4.toNat?, a5.toNat?, bit a6, bit a7, bit a8, bit a9, bit a10, bit a11, bit a12 with
    | some b1, some b2, some n3, some n4, some n5, some b6, some b7, some b8, some b9, some b10, some b11, some b12 =>
      let c : Cfg := ⟨b1, b2, n3, n4, n5, b6, b7, b10, b11, b12, b8, b9⟩
      let evs := (splitTok ";" rest).filter (· ≠ [])
      ((), replay c St.init 0 [] evs)
    | _, _, _, _, _, _, _, _, _, _, _, _ => ((), "bad-op")
  | "thrn" :: a1 :: a2 :: a3 :: a4 :: a5 :: a6 :: a7 :: a8 :: a9 :: a10 :: a11 :: a12 :: t1 :: t2 :: ":" :: rest =>
    match bit a1, bit a2, a3.toNat?, a4.toNat?, a5.toNat?, bit a6, bit a7, bit a8, bit a9, bit a10, bit a11, bit a12, bit t1, bit t2 with
    | some b1, some b2, some n3, some n4, some n5, some b6, some b7, some b8, some b9, some b10, some b11, some b12, some hd, some hf =>
      let c : Cfg := ⟨b1, b2, n3, n4, n5, b6, b7, b10, b11, b12, b8, b9⟩
      let evs := (splitTok ";" rest).filter (· ≠ [])
      ((), replayN c hd hf [] St.init 0 [] evs)
    | _, _, _, _, _, _, _, _, _, _, _, _, _, _ => ((), "bad-op")
  | _ => ((), "bad-op")

def main : IO Unit := Drv.run stepLine ()
