import TinyVerif.Model.MemFns
import TinyVerif.Drv.Common
open TinyVerif TinyVerif.MemFns

/-
Line protocol (one case per line, every case self-contained):
  cpy|mov|fwd|bwd <size> <seed> <dest_off> <src_off> <n> [setup]…
  set             <size> <seed> <dest_off> <c>       <n> [setup]…
  cmp|bcm         <size> <seed> <s1_off>   <s2_off>  <n> [setup]…
The arena has `size` bytes at a 4096-aligned base, filled with `pattern seed`, then set up, in the order given, by
  @off=val        poke one byte
  ~to:from:len    arena[to..to+len) := arena[from..from+len) (done by the harness itself, memmove semantics)
  !k              page k of the arena, [4096k, 4096k+4096), is INACCESSIBLE (PROT_NONE) while the function under
                  test runs; no operand may contain a byte of it.  Any load or store there is a fault.
Output: `h=<hash of the whole arena afterwards> ret=<returned pointer - base>` / `… val=<i32>`, then, only when it
happened: ` bad=…`, ` oob=…`, ` rdout=<loads outside the source operand(s)>`, ` wrout=<stores outside the
destination>`, ` fault=rd@<off>|wr@<off>` (first access to an inaccessible page).
-/

def ARENA_BASE : Nat := 65536
def MAX_SIZE : Nat := 4194304
def PAGE : Nat := 4096

/-! Arena plumbing, fast versions for the driver (machine words instead of `Nat`s).  They compute what the model's
`mkArena` / `hashArena` define; every line of every stream compares the result with the harness's own hash. -/

/-- `hashArena`, with `x mod (2^55 - 55)` computed as `(x >>> 55) * 55 + (x &&& (2^55 - 1))` and one conditional
subtraction (`2^55 ≡ 55`): for `h < P`, `x = h * 256 + b < 2^63`, the folded value is `< 2^55 + 14080 < 2 P` -/
def fastHash (d : Array UInt8) : Nat :=
  let p : UInt64 := 36028797018963913
  (d.foldr (fun b (h : UInt64) =>
    let x := h * 256 + b.toUInt64
    let y := (x >>> 55) * 55 + (x &&& 36028797018963967)
    if y ≥ p then y - p else y) 0).toNat

/-- the content of `mkArena`: byte `i` is `pattern seed i` -/
def fastData (size seed : Nat) : Array UInt8 := Id.run do
  let mut a : Array UInt8 := Array.mkEmpty size
  let s : UInt64 := (seed * 13 + 3).toUInt64 % 256
  let mut j : UInt64 := 0
  for _ in [0:size] do
    a := a.push ((j * 7 + s) % 256).toUInt8
    j := if j == 250 then 0 else j + 1
  return a

/-- pattern-filled arenas already built, by (size, seed): most cases of a stream share a handful -/
abbrev Cache := List ((Nat × Nat) × Array UInt8)

def arenaFor (c : Cache) (size seed : Nat) : Cache × Mem :=
  match c.find? (fun e => e.1 == (size, seed)) with
  | some e => (c, { base := 65536, data := e.2, oob := [], bad := 0, rlog := [], wlog := [] })
  | none =>
    let d := fastData size seed
    let c' := if size ≤ 131072 then ((size, seed), d) :: c.take 15 else c
    (c', { base := 65536, data := d, oob := [], bad := 0, rlog := [], wlog := [] })

inductive Setup where
  | poke (o : Nat) (v : UInt8)
  | copy (to frm len : Nat)
  | hole (k : Nat)

def parseSetup (size : Nat) (t : String) : Option Setup :=
  match t.toList with
  | '@' :: rest =>
    match (String.ofList rest).splitOn "=" with
    | [o, v] =>
      match o.toNat?, v.toNat? with
      | some o, some v => if o < size ∧ v < 256 then some (.poke o (UInt8.ofNat v)) else none
      | _, _ => none
    | _ => none
  | '~' :: rest =>
    match (String.ofList rest).splitOn ":" with
    | [a, b, c] =>
      match a.toNat?, b.toNat?, c.toNat? with
      | some a, some b, some c => if a + c ≤ size ∧ b + c ≤ size then some (.copy a b c) else none
      | _, _, _ => none
    | _ => none
  | '!' :: rest =>
    match (String.ofList rest).toNat? with
    | some k => if PAGE * (k + 1) ≤ size then some (.hole k) else none
    | none => none
  | _ => none

def parseSetups (size : Nat) : List String → Option (List Setup)
  | [] => some []
  | t :: ts => do
    let p ← parseSetup size t
    let r ← parseSetups size ts
    pure (p :: r)

def writeBytes (m : Mem) (a : Nat) : List UInt8 → Mem
  | [] => m
  | v :: r => writeBytes (m.wr a v) (a + 1) r

def applySetups (m : Mem) : List Setup → Mem
  | [] => m
  | .poke o v :: r => applySetups (m.wr (m.base + o) v) r
  | .copy to frm len :: r =>
    let bytes := (List.range len).map (fun i => m.rd (m.base + frm + i))
    applySetups (writeBytes m (m.base + to) bytes) r
  | .hole _ :: r => applySetups m r

def holesOf : List Setup → List Nat
  | [] => []
  | .hole k :: r => k :: holesOf r
  | _ :: r => holesOf r

/-- `[a, a+n)` (arena offsets) contains no byte of a hole -/
def clearOf (holes : List Nat) (a n : Nat) : Bool :=
  holes.all (fun k => n == 0 || a + n ≤ PAGE * k || PAGE * (k + 1) ≤ a)

def inHole (holes : List Nat) (base x : Nat) : Bool :=
  holes.any (fun k => base + PAGE * k ≤ x && x < base + PAGE * (k + 1))

/-- the first (oldest) access to an inaccessible page, looking at loads and stores separately; the logs are newest
first.  (Which of a load and a store came first is not recorded; a load is reported if there is one.) -/
def firstFault (holes : List Nat) (m : Mem) : String :=
  if holes.isEmpty then "" else
  match (m.rlog.reverse.find? (inHole holes m.base)), (m.wlog.reverse.find? (inHole holes m.base)) with
  | some x, _ => s!" fault=rd@{x - m.base}"
  | none, some x => s!" fault=wr@{x - m.base}"
  | none, none => ""

def countOutside (log : List Nat) (ranges : List (Nat × Nat)) : Nat :=
  log.foldl (fun c x => if ranges.any (fun r => r.1 ≤ x && x < r.1 + r.2) then c else c + 1) 0

/-- `rd`: the ranges loads may touch, `wr`: the range stores may touch -/
def tail (holes : List Nat) (m : Mem) (rd wr : List (Nat × Nat)) : String :=
  let ro := countOutside m.rlog rd
  let wo := countOutside m.wlog wr
  (if m.bad ≠ 0 then s!" bad={m.bad}" else "") ++ (if m.oob.isEmpty then "" else s!" oob={m.oob.length}") ++
  (if ro ≠ 0 then s!" rdout={ro}" else "") ++ (if wo ≠ 0 then s!" wrout={wo}" else "") ++ firstFault holes m

def showW (holes : List Nat) (m : Mem) (ret : Option Nat) (rd wr : List (Nat × Nat)) : String :=
  let r := match ret with | some a => toString (a - m.base) | none => "-"
  s!"h={fastHash m.data} ret={r}" ++ tail holes m rd wr

def showC (holes : List Nat) (r : Mem × Option Int) (rd : List (Nat × Nat)) : String :=
  match r.2 with
  | some v => s!"h={fastHash r.1.data} val={v}" ++ tail holes r.1 rd []
  | none => s!"h={fastHash r.1.data} val=0 bad=2" ++ tail holes r.1 rd []

def step (c : Cache) (line : String) : Cache × String :=
  match Drv.words line with
  | op :: size :: seed :: a :: b :: n :: setups =>
    match size.toNat?, seed.toNat?, a.toNat?, b.toInt?, n.toNat? with
    | some size, some seed, some a, some b, some n =>
      if size > MAX_SIZE ∨ a + n > size then (c, "bad-op") else
      match parseSetups size setups with
      | none => (c, "bad-op")
      | some st =>
        let holes := holesOf st
        if !clearOf holes a n then (c, "bad-op") else
        let (c, m0) := arenaFor c size seed
        let m := (applySetups m0 st).clearLogs
        let base := ARENA_BASE
        if op == "set" then
          if b < -2147483648 ∨ b > 2147483647 then (c, "bad-op") else
          let (m', r) := memset m (base + a) b n
          (c, showW holes m' (some r) [] [(base + a, n)])
        else if b < 0 ∨ b.toNat + n > size then (c, "bad-op") else
        let b := b.toNat
        if !clearOf holes b n then (c, "bad-op") else
        let rd := [(base + b, n)]
        let wr := [(base + a, n)]
        match op with
        | "cpy" => let (m', r) := memcpy m (base + a) (base + b) n; (c, showW holes m' (some r) rd wr)
        | "mov" => let (m', r) := memmove m (base + a) (base + b) n; (c, showW holes m' (some r) rd wr)
        | "fwd" => (c, showW holes (copyForward m (base + a) (base + b) n) none rd wr)
        | "bwd" => (c, showW holes (copyBackward m (base + a) (base + b) n) none rd wr)
        | "cmp" => (c, showC holes (memcmp m (base + a) (base + b) n) [(base + a, n), (base + b, n)])
        | "bcm" => (c, showC holes (bcmp m (base + a) (base + b) n) [(base + a, n), (base + b, n)])
        | _ => (c, "bad-op")
    | _, _, _, _, _ => (c, "bad-op")
  | _ => (c, "bad-op")

def main : IO Unit := Drv.run step []
