import TinyVerif.Model.MemFns
import TinyVerif.Drv.Common
open TinyVerif TinyVerif.MemFns

/-
Line protocol (one case per line, every case self-contained):
  cpy|mov|fwd|bwd <size> <seed> <dest_off> <src_off> <n> [@off=val]…
  set             <size> <seed> <dest_off> <c>       <n> [@off=val]…
  cmp|bcm         <size> <seed> <s1_off>   <s2_off>  <n> [@off=val]…
The arena has `size` bytes at a 4096-aligned base, filled with `pattern seed`, then poked.
Output: `h=<hash of the whole arena afterwards> ret=<returned pointer - base>` / `… val=<i32>`.
-/

def ARENA_BASE : Nat := 65536
def MAX_SIZE : Nat := 4194304

def parsePoke (size : Nat) (t : String) : Option (Nat × UInt8) :=
  match t.toList with
  | '@' :: rest =>
    match (String.ofList rest).splitOn "=" with
    | [o, v] =>
      match o.toNat?, v.toNat? with
      | some o, some v => if o < size ∧ v < 256 then some (o, UInt8.ofNat v) else none
      | _, _ => none
    | _ => none
  | _ => none

def parsePokes (size : Nat) : List String → Option (List (Nat × UInt8))
  | [] => some []
  | t :: ts => do
    let p ← parsePoke size t
    let r ← parsePokes size ts
    pure (p :: r)

def applyPokes (m : Mem) : List (Nat × UInt8) → Mem
  | [] => m
  | (o, v) :: r => applyPokes (m.wr (m.base + o) v) r

def tail (m : Mem) : String :=
  (if m.bad ≠ 0 then s!" bad={m.bad}" else "") ++ (if m.oob.isEmpty then "" else s!" oob={m.oob.length}")

def showW (m : Mem) (ret : Option Nat) : String :=
  let r := match ret with | some a => toString (a - m.base) | none => "-"
  s!"h={hashArena m} ret={r}" ++ tail m

def step (_ : Unit) (line : String) : Unit × String :=
  match Drv.words line with
  | op :: size :: seed :: a :: b :: n :: pokes =>
    match size.toNat?, seed.toNat?, a.toNat?, b.toInt?, n.toNat? with
    | some size, some seed, some a, some b, some n =>
      if size > MAX_SIZE ∨ a + n > size then ((), "bad-op") else
      match parsePokes size pokes with
      | none => ((), "bad-op")
      | some pk =>
        let m := applyPokes (mkArena ARENA_BASE size seed) pk
        let base := ARENA_BASE
        if op == "set" then
          if b < -2147483648 ∨ b > 2147483647 then ((), "bad-op") else
          let (m', r) := memset m (base + a) b n
          ((), showW m' (some r))
        else if b < 0 ∨ b.toNat + n > size then ((), "bad-op") else
        let b := b.toNat
        match op with
        | "cpy" => let (m', r) := memcpy m (base + a) (base + b) n; ((), showW m' (some r))
        | "mov" => let (m', r) := memmove m (base + a) (base + b) n; ((), showW m' (some r))
        | "fwd" => ((), showW (copyForward m (base + a) (base + b) n) none)
        | "bwd" => ((), showW (copyBackward m (base + a) (base + b) n) none)
        | "cmp" =>
          match memcmp m (base + a) (base + b) n with
          | some v => ((), s!"h={hashArena m} val={v}")
          | none => ((), s!"h={hashArena m} val=0 bad=2")
        | "bcm" =>
          match bcmp m (base + a) (base + b) n with
          | some v => ((), s!"h={hashArena m} val={v}")
          | none => ((), s!"h={hashArena m} val=0 bad=2")
        | _ => ((), "bad-op")
    | _, _, _, _, _ => ((), "bad-op")
  | _ => ((), "bad-op")

def main : IO Unit := Drv.run step ()
