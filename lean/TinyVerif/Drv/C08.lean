import TinyVerif.Model.MemFns
import TinyVerif.Drv.Common
open TinyVerif TinyVerif.MemFns

/-
Line protocol (one case per line, every case self-contained):
  cpy|mov|fwd|bwd <size> <seed> <dest_off> <src_off> <n> [setup]…
  set             <size> <seed> <dest_off> <c>       <n> [setup]…
  cmp|bcm         <size> <seed> <s1_off>   <s2_off>  <n> [setup]…
The arena has `size` bytes at a 4096-aligned base, filled with `pattern seed`, then set up, in the order given, by
  @off=val        poke one byte
  ~to:from:len    arena[to..to+len) := arena[from..from+len) (done by the harness itself, memmove semantics)
  !k              page k of the arena, [4096k, 4096k+4096), is INACCESSIBLE (PROT_NONE) while the function under
                  test runs; no operand may contain a byte of it.  Any load or store there is a fault.
Output: `h=<hash of the whole arena afterwards> ret=<returned pointer - base>` / `… val=<i32>`, then, only when it
happened: ` bad=…`, ` oob=…`, ` rdout=<loads outside the source operand(s)>`, ` wrout=<stores outside the
destination>`, ` fault=rd@<off>|wr@<off>` (first access to an inaccessible page).
-/

def ARENA_BASE : Nat := 65536
def MAX_SIZE : Nat := 4194304
def PAGE : Nat := 4096

inductive Setup where
  | poke (o : Nat) (v : UInt8)
  | copy (to frm len : Nat)
  | hole (k : Nat)

def parseSetup (size : Nat) (t : String) : Option Setup :=
  match t.toList with
  | '@' :: rest =>
    match (String.ofList rest).splitOn "=" with
    | [o, v] =>
      match o.toNat?, v.toNat? with
      | some o, some v => if o < size ∧ v < 256 then some (.poke o (UInt8.ofNat v)) else none
      | _, _ => none
    | _ => none
  | '~' :: rest =>
    match (String.ofList rest).splitOn ":" with
    | [a, b, c] =>
      match a.toNat?, b.toNat?, c.toNat? with
      | some a, some b, some c => if a + c ≤ size ∧ b + c ≤ size then some (.copy a b c) else none
      | _, _, _ => none
    | _ => none
  | '!' :: rest =>
    match (String.ofList rest).toNat? with
    | some k => if PAGE * (k + 1) ≤ size then some (.hole k) else none
    | none => none
  | _ => none

def parseSetups (size : Nat) : List String → Option (List Setup)
  | [] => some []
  | t :: ts => do
    let p ← parseSetup size t
    let r ← parseSetups size ts
    pure (p :: r)

def writeBytes (m : Mem) (a : Nat) : List UInt8 → Mem
  | [] => m
  | v :: r => writeBytes (m.wr a v) (a + 1) r

def applySetups (m : Mem) : List Setup → Mem
  | [] => m
  | .poke o v :: r => applySetups (m.wr (m.base + o) v) r
  | .copy to frm len :: r =>
    let bytes := (List.range len).map (fun i => m.rd (m.base + frm + i))
    applySetups (writeBytes m (m.base + to) bytes) r
  | .hole _ :: r => applySetups m r

def holesOf : List Setup → List Nat
  | [] => []
  | .hole k :: r => k :: holesOf r
  | _ :: r => holesOf r

/-- `[a, a+n)` (arena offsets) contains no byte of a hole -/
def clearOf (holes : List Nat) (a n : Nat) : Bool :=
  holes.all (fun k => n == 0 || a + n ≤ PAGE * k || PAGE * (k + 1) ≤ a)

def inHole (holes : List Nat) (base x : Nat) : Bool :=
  holes.any (fun k => base + PAGE * k ≤ x && x < base + PAGE * (k + 1))

/-- the first (oldest) access to an inaccessible page, looking at loads and stores separately; the logs are newest
first.  (Which of a load and a store came first is not recorded; a load is reported if there is one.) -/
def firstFault (holes : List Nat) (m : Mem) : String :=
  if holes.isEmpty then "" else
  match (m.rlog.reverse.find? (inHole holes m.base)), (m.wlog.reverse.find? (inHole holes m.base)) with
  | some x, _ => s!" fault=rd@{x - m.base}"
  | none, some x => s!" fault=wr@{x - m.base}"
  | none, none => ""

def countOutside (log : List Nat) (ranges : List (Nat × Nat)) : Nat :=
  log.foldl (fun c x => if ranges.any (fun r => r.1 ≤ x && x < r.1 + r.2) then c else c + 1) 0

/-- `rd`: the ranges loads may touch, `wr`: the range stores may touch -/
def tail (holes : List Nat) (m : Mem) (rd wr : List (Nat × Nat)) : String :=
  let ro := countOutside m.rlog rd
  let wo := countOutside m.wlog wr
  (if m.bad ≠ 0 then s!" bad={m.bad}" else "") ++ (if m.oob.isEmpty then "" else s!" oob={m.oob.length}") ++
  (if ro ≠ 0 then s!" rdout={ro}" else "") ++ (if wo ≠ 0 then s!" wrout={wo}" else "") ++ firstFault holes m

def showW (holes : List Nat) (m : Mem) (ret : Option Nat) (rd wr : List (Nat × Nat)) : String :=
  let r := match ret with | some a => toString (a - m.base) | none => "-"
  s!"h={hashArena m} ret={r}" ++ tail holes m rd wr

def showC (holes : List Nat) (r : Mem × Option Int) (rd : List (Nat × Nat)) : String :=
  match r.2 with
  | some v => s!"h={hashArena r.1} val={v}" ++ tail holes r.1 rd []
  | none => s!"h={hashArena r.1} val=0 bad=2" ++ tail holes r.1 rd []

def step (_ : Unit) (line : String) : Unit × String :=
  match Drv.words line with
  | op :: size :: seed :: a :: b :: n :: setups =>
    match size.toNat?, seed.toNat?, a.toNat?, b.toInt?, n.toNat? with
    | some size, some seed, some a, some b, some n =>
      if size > MAX_SIZE ∨ a + n > size then ((), "bad-op") else
      match parseSetups size setups with
      | none => ((), "bad-op")
      | some st =>
        let holes := holesOf st
        if !clearOf holes a n then ((), "bad-op") else
        let m := (applySetups (mkArena ARENA_BASE size seed) st).clearLogs
        let base := ARENA_BASE
        if op == "set" then
          if b < -2147483648 ∨ b > 2147483647 then ((), "bad-op") else
          let (m', r) := memset m (base + a) b n
          ((), showW holes m' (some r) [] [(base + a, n)])
        else if b < 0 ∨ b.toNat + n > size then ((), "bad-op") else
        let b := b.toNat
        if !clearOf holes b n then ((), "bad-op") else
        let rd := [(base + b, n)]
        let wr := [(base + a, n)]
        match op with
        | "cpy" => let (m', r) := memcpy m (base + a) (base + b) n; ((), showW holes m' (some r) rd wr)
        | "mov" => let (m', r) := memmove m (base + a) (base + b) n; ((), showW holes m' (some r) rd wr)
        | "fwd" => ((), showW holes (copyForward m (base + a) (base + b) n) none rd wr)
        | "bwd" => ((), showW holes (copyBackward m (base + a) (base + b) n) none rd wr)
        | "cmp" => ((), showC holes (memcmp m (base + a) (base + b) n) [(base + a, n), (base + b, n)])
        | "bcm" => ((), showC holes (bcmp m (base + a) (base + b) n) [(base + a, n), (base + b, n)])
        | _ => ((), "bad-op")
    | _, _, _, _, _ => ((), "bad-op")
  | _ => ((), "bad-op")

def main : IO Unit := Drv.run step ()
