import TinyVerif.Model.Ring
import TinyVerif.Drv.Common
open TinyVerif TinyVerif.Ring

/-- split a token list at ":" separators -/
def splitOps : List String → List String → List (List String) → List (List String)
  | [], cur, acc => (cur.reverse :: acc).reverse
  | ":" :: rest, cur, acc => splitOps rest [] (cur.reverse :: acc)
  | t :: rest, cur, acc => splitOps rest (t :: cur) acc

def parseNats : List String → Option (List Nat)
  | [] => some []
  | t :: ts => do let n ← t.toNat?; let r ← parseNats ts; pure (n :: r)

def parseOp : List String → Option Op
  | ["g", v] => do let v ← v.toNat?; if v < 18446744073709551616 then pure (.get v) else none
  | ["f"] => some .flush
  | ["r"] => some .reap
  | ["h"] => some .reread
  | ["k", n] => do let n ← n.toNat?; if n < W then pure (.consume n) else none
  | "p" :: vs => do
      let vs ← parseNats vs
      if vs.all (· < 18446744073709551616) then pure (.post vs) else none
  | _ => none

def parseOps : List (List String) → Option (List Op)
  | [] => some []
  | o :: os => do let a ← parseOp o; let r ← parseOps os; pure (a :: r)

def showOut : Out → String
  | .slot i => s!"s{i}"
  | .noSlot => "sn"
  | .flushed n => s!"f{n}"
  | .cqe v => s!"c{v}"
  | .noCqe => "cn"
  | .consumed [] => "k:-"
  | .consumed es => "k:" ++ ",".intercalate (es.map fun e => s!"{e.slot}={e.val}")
  | .posted n => s!"p{n}"
  | .panic => "panic"

def runCase (cd : Code) (toks : List String) : String :=
  match splitOps toks [] [] with
  | ["ring", fl, sqk, cqk, c, cc] :: ops =>
    match fl.toNat?, sqk.toNat?, cqk.toNat?, c.toNat?, cc.toNat?, parseOps ops with
    | some fl, some sqk, some cqk, some c, some cc, some ops =>
      if fl % 2 = 0 ∧ fl / 4 % 256 = 0 ∧ fl / 4096 = 0 ∧ sqk ≤ 10 ∧ cqk ≤ 10 ∧ c < W ∧ cc < W then
        let outs := (run cd (init fl sqk cqk c cc) ops).2
        if outs.isEmpty then "ok" else " ".intercalate (outs.map showOut)
      else "bad-op"
    | _, _, _, _, _, _ => "bad-op"
  | _ => "bad-op"

/-- `mode debug|release` is accepted for symmetry with the harness (the current code has no
build-dependent arithmetic); `code orig-debug|orig-release|eager-release|fixed` selects the modelled version. -/
def step' (cd : Code) (line : String) : Code × String :=
  match Drv.words line with
  | ["mode", "debug"] => (cd, "ok")
  | ["mode", "release"] => (cd, "ok")
  | ["code", "fixed"] => (.fixed, "ok")
  | ["code", "orig-debug"] => (.orig false, "ok")
  | ["code", "orig-release"] => (.orig true, "ok")
  | ["code", "eager-release"] => (.eagerRelease, "ok")
  | ["wake", w] => (cd, match w.toNat? with
      | some w => if w < 4294967296 then (if needsWakeup w then "w1" else "w0") else "bad-op"
      | none => "bad-op")
  | toks => (cd, runCase cd toks)

def main : IO Unit := Drv.run step' Code.fixed
