import TinyVerif.Model.Io
import TinyVerif.Drv.Common
open TinyVerif TinyVerif.Io

/-! C15 line-protocol driver.  One op per line (concrete scripts, see harness/c15/src/main.rs):

  rte  <init-hex> <cap> <scribble 0|1> <caps c1,c2,..|-> <reader tokens..>
  rts  <init-hex> <cap> <scribble 0|1> <caps> <reader tokens..>
  rex  <orig-hex> <reader tokens..>
  wall <data-hex> <writer tokens..>
  wfmt <variant 0|1> <items s<hex>|f ..> / <writer tokens..>

  reader tokens: d<hex> D<hex> (data; D = known to exceed what is offered) z (eof) i (EINTR) e<errno> u
  writer tokens: a<k> A<k> (accept k; A = known to exceed what is offered) i e<errno> u

Output: `<result> buf=|sink=<hex> used=<n>`; with `--detail` additionally ` # log=.. caps=.. cap=.. unsound=..`. -/

def natOf (cs : List Char) : Option Nat := (String.ofList cs).toNat?

def parseR (tok : String) : Option RResp :=
  match tok.toList with
  | ['z'] => some .eof
  | ['i'] => some .eintr
  | ['u'] => some .uerr
  | 'e' :: cs => (natOf cs).map .err
  | 'd' :: cs => if cs.isEmpty then none else (Drv.unhex (String.ofList cs)).bind fun bs => if bs.isEmpty then none else some (.data bs)
  | 'D' :: cs => if cs.isEmpty then none else (Drv.unhex (String.ofList cs)).bind fun bs => if bs.isEmpty then none else some (.data bs)
  | _ => none

def parseW (tok : String) : Option WResp :=
  match tok.toList with
  | ['i'] => some .eintr
  | ['u'] => some .uerr
  | 'e' :: cs => (natOf cs).map .err
  | 'a' :: cs => (natOf cs).map .accept
  | 'A' :: cs => (natOf cs).map .accept
  | _ => none

def parseAll {α : Type} (f : String → Option α) : List String → Option (List α)
  | [] => some []
  | t :: ts => do let a ← f t; let r ← parseAll f ts; pure (a :: r)

def parseCaps (s : String) : Option (List Nat) :=
  if s == "-" then some [] else parseAll (fun (w : String) => w.toNat?) (s.splitOn ",")

def parseItem (tok : String) : Option FmtItem :=
  match tok.toList with
  | ['f'] => some .fail
  | 's' :: cs => if cs.isEmpty then none else (Drv.unhex (String.ofList cs)).map .str
  | _ => none

def showErr : IoErr → String
  | .os e => s!"err os {e}"
  | .user => "err user"
  | _ => "err uncat"

def showResN : Res Nat → String
  | .ok n => s!"ok {n}"
  | .err e => showErr e
  | .panic _ => "panic"

def showResU : Res Unit → String
  | .ok _ => "ok"
  | .err e => showErr e
  | .panic _ => "panic"

def commaNat (l : List Nat) : String :=
  if l.isEmpty then "-" else ",".intercalate (l.map toString)

def showCall (scribble : Bool) (c : Call) : String :=
  (if c.probe then "p" else "m") ++ toString c.offered ++ "/" ++ toString (if scribble then c.carry else 0)

def showOut (detail scribble : Bool) (o : Out) : String :=
  let base := s!"{showResN o.res} buf={Drv.hex o.buf} used={o.used}"
  if detail then
    let lg := if o.log.isEmpty then "-" else ",".intercalate (o.log.map (showCall scribble))
    base ++ s!" # log={lg} caps={commaNat o.grown} cap={o.cap} uninit={if o.unsound then 1 else 0}"
  else base

def splitSlash : List String → List String × Option (List String)
  | [] => ([], none)
  | "/" :: rest => ([], some rest)
  | w :: rest => let (a, b) := splitSlash rest; (w :: a, b)

def tailLog (detail : Bool) (log : List Nat) : String :=
  if detail then s!" # log={commaNat log}" else ""

def runRte (detail str : Bool) : List String → String
  | init :: cap :: scr :: caps :: toks =>
    match Drv.unhex init, cap.toNat?, scr.toNat?, parseCaps caps, parseAll parseR toks with
    | some init, some cap, some scr, some caps, some script =>
      if cap < init.length || scr > 1 then "bad-op" else
      let o := if str then readToString utf8Valid init cap caps script else readToEnd init cap caps script
      showOut detail (scr == 1) o
    | _, _, _, _, _ => "bad-op"
  | _ => "bad-op"

def runRex (detail : Bool) : List String → String
  | orig :: toks =>
    match Drv.unhex orig, parseAll parseR toks with
    | some orig, some script =>
      let o := readExact orig.length script
      s!"{showResU o.res} buf={Drv.hex (o.written ++ orig.drop o.written.length)} used={o.used}" ++ tailLog detail o.log
    | _, _ => "bad-op"
  | _ => "bad-op"

def runWall (detail : Bool) : List String → String
  | data :: toks =>
    match Drv.unhex data, parseAll parseW toks with
    | some data, some script =>
      let o := writeAll data script
      s!"{showResU o.res} sink={Drv.hex o.sink} used={o.used}" ++ tailLog detail o.log
    | _, _ => "bad-op"
  | _ => "bad-op"

def runWfmt (detail : Bool) : List String → String
  | v :: rest =>
    match v.toNat?, splitSlash rest with
    | some v, (items, some wt) =>
      match parseAll parseItem items, parseAll parseW wt with
      | some items, some script =>
        if v > 3 then "bad-op" else
        if v ≥ 2 ∧ !items.isEmpty then "bad-op" else
        let lit2 : List Nat := "done\n".toUTF8.toList.map (·.toNat)
        let lit3 : List Nat := "literal text without arguments 0123456789 abcdefghijklmnopqrstuvwxyz".toUTF8.toList.map (·.toNat)
        let items := if v == 1 then .str [0x5b] :: (items ++ [.str [0x5d]])
          else if v == 2 then [.str lit2] else if v == 3 then [.str lit3] else items
        let o := writeFmt items script
        s!"{showResU o.res} sink={Drv.hex o.sink} used={o.used}" ++ tailLog detail o.log
      | _, _ => "bad-op"
    | _, _ => "bad-op"
  | _ => "bad-op"

def step (detail : Bool) (_ : Unit) (line : String) : Unit × String :=
  let out : String :=
    match Drv.words line with
    | "rte" :: rest => runRte detail false rest
    | "rts" :: rest => runRte detail true rest
    | "rex" :: rest => runRex detail rest
    | "wall" :: rest => runWall detail rest
    | "wfmt" :: rest => runWfmt detail rest
    | _ => "bad-op"
  ((), out)

def main (args : List String) : IO Unit := Drv.run (step (args.contains "--detail")) ()
