import TinyVerif.Model.Io
import TinyVerif.Drv.Common
open TinyVerif TinyVerif.Io

/-! C15 line-protocol driver.  One op per line (concrete scripts, see harness/c15/src/main.rs):

  rte  <init-hex> <cap> <scribble 0|1> <caps c1,c2,..|-> <reader tokens..>
  rts  <init-hex> <cap> <scribble 0|1> <caps> <reader tokens..>
  rex  <orig-hex> <reader tokens..>
  wall <data-hex> <writer tokens..>
  wfmt <variant 0|1> <items s<hex>|f ..> / <writer tokens..>
  prt  <kind p|P|e|E|d> <tpl> [h<hex>] <items s<hex>|g<len>.<seed>|f|n<int> ..> [, ..] / <kernel tokens a<k> o i e<errno>>

  reader tokens: d<hex> D<hex> (data; D = known to exceed what is offered) z (eof) i (EINTR) e<errno> u
  writer tokens: a<k> A<k> (accept k; A = known to exceed what is offered) i e<errno> u

Output: `<result> buf=|sink=<hex> used=<n>`; with `--detail` additionally ` # log=.. caps=.. cap=.. unsound=..`. -/

def natOf (cs : List Char) : Option Nat := (String.ofList cs).toNat?

def parseR (tok : String) : Option RResp :=
  match tok.toList with
  | ['z'] => some .eof
  | ['i'] => some .eintr
  | ['u'] => some .uerr
  | 'e' :: cs => (natOf cs).map .err
  | 'd' :: cs => if cs.isEmpty then none else (Drv.unhex (String.ofList cs)).bind fun bs => if bs.isEmpty then none else some (.data bs)
  | 'D' :: cs => if cs.isEmpty then none else (Drv.unhex (String.ofList cs)).bind fun bs => if bs.isEmpty then none else some (.data bs)
  | _ => none

def parseW (tok : String) : Option WResp :=
  match tok.toList with
  | ['i'] => some .eintr
  | ['u'] => some .uerr
  | 'e' :: cs => (natOf cs).map .err
  | 'a' :: cs => (natOf cs).map .accept
  | 'A' :: cs => (natOf cs).map .accept
  | _ => none

def parseAll {α : Type} (f : String → Option α) : List String → Option (List α)
  | [] => some []
  | t :: ts => do let a ← f t; let r ← parseAll f ts; pure (a :: r)

def parseCaps (s : String) : Option (List Nat) :=
  if s == "-" then some [] else parseAll (fun (w : String) => w.toNat?) (s.splitOn ",")

def parseItem (tok : String) : Option FmtItem :=
  match tok.toList with
  | ['f'] => some .fail
  | 's' :: cs => if cs.isEmpty then none else (Drv.unhex (String.ofList cs)).map .str
  | _ => none

def showErr : IoErr → String
  | .os e => s!"err os {e}"
  | .user => "err user"
  | _ => "err uncat"

def showResN : Res Nat → String
  | .ok n => s!"ok {n}"
  | .err e => showErr e
  | .panic _ => "panic"

def showResU : Res Unit → String
  | .ok _ => "ok"
  | .err e => showErr e
  | .panic _ => "panic"

def commaNat (l : List Nat) : String :=
  if l.isEmpty then "-" else ",".intercalate (l.map toString)

def showCall (scribble : Bool) (c : Call) : String :=
  (if c.probe then "p" else "m") ++ toString c.offered ++ "/" ++ toString (if scribble then c.carry else 0)

def showOut (detail scribble : Bool) (o : Out) : String :=
  let base := s!"{showResN o.res} buf={Drv.hex o.buf} used={o.used}"
  if detail then
    let lg := if o.log.isEmpty then "-" else ",".intercalate (o.log.map (showCall scribble))
    base ++ s!" # log={lg} caps={commaNat o.grown} cap={o.cap} uninit={if o.unsound then 1 else 0}"
  else base

def splitSlash : List String → List String × Option (List String)
  | [] => ([], none)
  | "/" :: rest => ([], some rest)
  | w :: rest => let (a, b) := splitSlash rest; (w :: a, b)

def tailLog (detail : Bool) (log : List Nat) : String :=
  if detail then s!" # log={commaNat log}" else ""

def runRte (detail str : Bool) : List String → String
  | init :: cap :: scr :: caps :: toks =>
    match Drv.unhex init, cap.toNat?, scr.toNat?, parseCaps caps, parseAll parseR toks with
    | some init, some cap, some scr, some caps, some script =>
      if cap < init.length || scr > 1 then "bad-op" else
      let o := if str then readToString utf8Valid init cap caps script else readToEnd init cap caps script
      showOut detail (scr == 1) o
    | _, _, _, _, _ => "bad-op"
  | _ => "bad-op"

def runRex (detail : Bool) : List String → String
  | orig :: toks =>
    match Drv.unhex orig, parseAll parseR toks with
    | some orig, some script =>
      let o := readExact orig.length script
      s!"{showResU o.res} buf={Drv.hex (o.written ++ orig.drop o.written.length)} used={o.used}" ++ tailLog detail o.log
    | _, _ => "bad-op"
  | _ => "bad-op"

def runWall (detail : Bool) : List String → String
  | data :: toks =>
    match Drv.unhex data, parseAll parseW toks with
    | some data, some script =>
      let o := writeAll data script
      s!"{showResU o.res} sink={Drv.hex o.sink} used={o.used}" ++ tailLog detail o.log
    | _, _ => "bad-op"
  | _ => "bad-op"

def runWfmt (detail : Bool) : List String → String
  | v :: rest =>
    match v.toNat?, splitSlash rest with
    | some v, (items, some wt) =>
      match parseAll parseItem items, parseAll parseW wt with
      | some items, some script =>
        if v > 3 then "bad-op" else
        if v ≥ 2 ∧ !items.isEmpty then "bad-op" else
        let lit2 : List Nat := "done\n".toUTF8.toList.map (·.toNat)
        let lit3 : List Nat := "literal text without arguments 0123456789 abcdefghijklmnopqrstuvwxyz".toUTF8.toList.map (·.toNat)
        let items := if v == 1 then .str [0x5b] :: (items ++ [.str [0x5d]])
          else if v == 2 then [.str lit2] else if v == 3 then [.str lit3] else items
        let o := writeFmt items script
        s!"{showResU o.res} sink={Drv.hex o.sink} used={o.used}" ++ tailLog detail o.log
      | _, _ => "bad-op"
    | _, _ => "bad-op"
  | _ => "bad-op"

/-! ### the print macros (unix/print.rs) -/

def parseK (tok : String) : Option WResp :=
  match tok.toList with
  | ['i'] => some .eintr
  | ['o'] => some (.accept 0)
  | 'e' :: cs => (natOf cs).map .err
  | 'a' :: cs => (natOf cs).map .accept
  | 'A' :: cs => (natOf cs).map .accept
  | _ => none

def strBytes (s : String) : List Nat := s.toUTF8.toList.map (·.toNat)

/-- one macro argument as written on the line: optional dbg! header, the `write_str` items, an optional integer -/
structure PArg where
  hdr : Option (List Nat) := none
  items : List FmtItem := []
  num : Option Int := none

def parsePItem (a : PArg) (tok : String) : Option PArg :=
  match tok.toList with
  | ['f'] => some { a with items := a.items ++ [.fail] }
  | 's' :: cs => if cs.isEmpty then none else (Drv.unhex (String.ofList cs)).map fun bs => { a with items := a.items ++ [.str bs] }
  | 'h' :: cs => if cs.isEmpty || a.hdr.isSome || !a.items.isEmpty then none else (Drv.unhex (String.ofList cs)).map fun bs => { a with hdr := some bs }
  | 'g' :: cs =>
    match (String.ofList cs).splitOn "." with
    | [l, sd] =>
      match l.toNat?, sd.toNat? with
      | some l, some sd => if l > 200000 then none else some { a with items := a.items ++ [.str (genBytes l sd)] }
      | _, _ => none
    | _ => none
  | 'n' :: cs => if a.num.isSome then none else (String.ofList cs).toInt?.map fun n => { a with num := some n }
  | _ => none

def parsePArgs : List String → PArg → Option (List PArg)
  | [], cur => some [cur]
  | "," :: rest, cur => (parsePArgs rest {}).map (cur :: ·)
  | t :: rest, cur => (parsePItem cur t).bind (parsePArgs rest)

/-- `Display for i64` without flags: an optional `-` then the digits, one `write_str` each -/
def intPieces (n : Int) : List FmtItem :=
  if n < 0 then [.str (strBytes "-"), .str (strBytes (toString n.natAbs))] else [.str (strBytes (toString n.natAbs))]

/-- the `write_str` pieces `fmt::write` issues for a template: literal segments interleaved with the arguments' items -/
def tplPieces (tpl : String) (args : List PArg) : Option (List FmtItem) :=
  let plain (a : PArg) : Bool := a.hdr.isNone && a.num.isNone
  match tpl, args with
  | "a", [a] => if plain a then some a.items else none
  | "b", [a, b] => if plain a && plain b then
      some ([.str (strBytes "id=")] ++ a.items ++ [.str (strBytes " payload=")] ++ b.items ++ [.str (strBytes " end")]) else none
  | "c", [a, b] => if plain a && plain b then
      some ([.str (cycBytes 255)] ++ a.items ++ [.str (cycBytes 256)] ++ b.items ++ [.str (cycBytes 257)]) else none
  | "d", [a, b] => if plain a && plain b then
      some ([.str (strBytes "x")] ++ a.items ++ [.str (cycBytes 4096)] ++ b.items) else none
  | "l", [a] => if plain a && a.items.isEmpty then some [.str (cycBytes 300)] else none
  | "s", [a] => if plain a && a.items.isEmpty then some [.str (strBytes "done")] else none
  | "g", [a] =>
    match a.hdr, a.num, a.items with
    | none, some n, [.str bs] => some ([.str (strBytes "n=")] ++ intPieces n ++ [.str (strBytes " s="), .str bs])
    | _, _, _ => none
  | _, _ => none

/-- the sequence of macro expansions (newline?, pieces) a `prt` line stands for, and the descriptor -/
def prtPlan (kind tpl : String) (args : List PArg) : Option (List (Bool × List FmtItem)) :=
  let empty1 : Bool := match args with
    | [a] => a.hdr.isNone && a.num.isNone && a.items.isEmpty
    | _ => false
  match kind with
  | "d" =>
    match tpl, args with
    | "n", [a] => match a.hdr, a.num, a.items with
      | some h, none, [] => some [(true, [.str h])]
      | _, _, _ => none
    | "a", [a] => match a.hdr, a.num with
      | some h, none => some [(true, .str h :: a.items)]
      | _, _ => none
    | "b", [a, b] => match a.hdr, a.num, b.hdr, b.num with
      | some h, none, some h2, none => some [(true, .str h :: a.items), (true, .str h2 :: b.items)]
      | _, _, _, _ => none
    | _, _ => none
  | _ =>
    let ln := kind == "P" || kind == "E"
    if !(kind == "p" || kind == "P" || kind == "e" || kind == "E") then none else
    if tpl == "n" then
      if !empty1 then none else
      -- `println!()` is the newline alone; `print!("")` is one `write_str("")`
      some [(ln, if ln then [] else [.str []])]
    else (tplPieces tpl args).map fun ps => [(ln, ps)]

def runPrt (detail : Bool) : List String → String
  | kind :: tpl :: rest =>
    match splitSlash rest with
    | (items, some kt) =>
      match parsePArgs items {}, parseAll parseK kt with
      | some args, some script =>
        match prtPlan kind tpl args with
        | some plan =>
          let o := printSeq plan script
          let fd := if o.log.isEmpty then "-" else if kind == "p" || kind == "P" then "1" else "2"
          s!"done sink={Drv.hex o.sink} used={o.used} fd={fd}" ++ tailLog detail o.log
        | none => "bad-op"
      | _, _ => "bad-op"
    | _ => "bad-op"
  | _ => "bad-op"

def step (detail : Bool) (_ : Unit) (line : String) : Unit × String :=
  let out : String :=
    match Drv.words line with
    | "rte" :: rest => runRte detail false rest
    | "rts" :: rest => runRte detail true rest
    | "rex" :: rest => runRex detail rest
    | "wall" :: rest => runWall detail rest
    | "wfmt" :: rest => runWfmt detail rest
    | "prt" :: rest => runPrt detail rest
    | _ => "bad-op"
  ((), out)

def main (args : List String) : IO Unit := Drv.run (step (args.contains "--detail")) ()
