import TinyVerif.Model.FdScript
import TinyVerif.Drv.Common
open TinyVerif TinyVerif.FdScript

/-- `v<n>` / `e<n>` -/
def parseAns (t : String) : Option Ans :=
  match t.toList with
  | 'v' :: r => (String.ofList r).toNat?.map Ans.ok
  | 'e' :: r => (String.ofList r).toNat?.map Ans.err
  | _ => none

def parseAnsList (s : String) : Option (List Ans) :=
  if s == "." then some [] else (s.splitOn ",").mapM parseAns

def parseBits (s : String) : Option (List Bool) :=
  if s == "." then some [] else
  s.toList.mapM (fun c => if c == '1' then some true else if c == '0' then some false else none)

def field (pre : String) (t : String) : Option String :=
  if t.startsWith pre then some ((t.drop pre.length).toString) else none

def showOut : Outcome → String
  | .ret true _ => "ok"
  | .ret false _ => "err"
  | .exits => "exits"
  | .execs => "execs"
  | .starved => "starved"
  | .fuel => "fuel"
  | .stuck => "stuck"

def render (f : Final) : String :=
  let v := verdict f
  let tr := f.cfg.trace.reverse
  let trs := if tr.isEmpty then "-" else ",".intercalate tr
  s!"out={showOut f.out} trace={trs} handed={v.handed} leaked={v.leaked.length} dangling={v.dangling.length} foreign={v.foreign.length} dbl={v.dbl.length} unused={f.cfg.ans.length}"

def parseNums (s : String) : Option (List Nat) :=
  if s == "-" then some [] else (s.splitOn ",").mapM (fun t => t.toNat?)

def insertSorted (n : Nat) : List Nat → List Nat
  | [] => [n]
  | a :: r => if n ≤ a then n :: a :: r else a :: insertSorted n r

def sortNums (l : List Nat) : List Nat := l.foldr insertSorted []

def showNums (l : List Nat) : String :=
  if l.isEmpty then "-" else ",".intercalate (l.map toString)

/-- the number-level view: the numbers the creations received, in order, and the table afterwards -/
def renderK (r : Final × KTab) : String :=
  s!"{render r.1} nums={showNums r.2.nums.reverse} fin={showNums (sortNums r.2.tab)}"

def step (_ : Unit) (line : String) : Unit × String :=
  match Drv.words line with
  | ["K", tbl, name, a, s, t, own] =>
    -- caller's view against a kernel table: `t=` the foreign numbers open at entry, `own=` the numbers of the
    -- slots the operation is given
    let table := if tbl == "cur" then some (Ops.cur ++ Ops.knownBad) else if tbl == "old" then some Ops.old else none
    match table, field "a=" a, field "s=" s, field "t=" t, field "own=" own with
    | some table, some a, some s, some t, some own =>
      match Ops.find table name, parseAnsList a, parseBits s, parseNums t, parseNums own with
      | some (owned, script), some ans, some steps, some tab, some ownN =>
        if ownN.length != owned.length then ((), "bad-op")
        else ((), renderK (execK tab (owned.zip ownN) script 100000 ⟨ans, steps, none⟩))
      | _, _, _, _, _ => ((), "bad-op")
    | _, _, _, _, _ => ((), "bad-op")
  | [tbl, name, a, s, ca, cs] =>
    let table := if tbl == "cur" then some (Ops.cur ++ Ops.knownBad) else if tbl == "old" then some Ops.old else none
    match table, field "a=" a, field "s=" s, field "ca=" ca, field "cs=" cs with
    | some table, some a, some s, some ca, some cs =>
      match Ops.find table name, parseAnsList a, parseBits s with
      | some (owned, script), some ans, some steps =>
        if ca == "-" then
          ((), render (exec owned script 100000 ⟨ans, steps, none⟩))
        else
          match parseAnsList ca, parseBits cs with
          | some cans, some csteps => ((), render (exec owned script 100000 ⟨ans, steps, some (cans, csteps)⟩))
          | _, _ => ((), "bad-op")
      | _, _, _ => ((), "bad-op")
    | _, _, _, _, _ => ((), "bad-op")
  | _ => ((), "bad-op")

def main : IO Unit := Drv.run step ()
