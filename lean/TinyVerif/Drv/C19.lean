import TinyVerif.Model.Time
import TinyVerif.Gen.TimePure
import TinyVerif.Drv.Common
open TinyVerif TinyVerif.Time

def showTS : R TS → String
  | .val t => s!"some {t.sec} {t.nsec}"
  | .none => "none"
  | .panic => "panic"

def showDur : R Dur → String
  | .val d => s!"some {d.secs} {d.nanos}"
  | .none => "none"
  | .panic => "panic"

def parseResp : List String → Option (List SleepResp)
  | [] => some []
  | "done" :: e :: rest => do let e ← e.toNat?; let r ← parseResp rest; pure (.done e :: r)
  | "eintr" :: s :: k :: rest => do let s ← s.toNat?; let k ← k.toNat?; let r ← parseResp rest; pure (.eintr s k :: r)
  | "err" :: c :: rest => do let c ← c.toNat?; let r ← parseResp rest; pure (.err c :: r)
  | _ => none

structure St where
  release : Bool := false
  /-- evaluate the definitions generated from the Rust text (Gen/TimePure.lean) instead of the hand-written model -/
  gen : Bool := false
  /-- number of lines read so far (the harness selects the public entry point by line number mod 12) -/
  n : Nat := 0

/-- one arithmetic operation on the model -/
def runModel (release : Bool) (op : String) (a b c d : Int) : String :=
  match op with
  | "add" => showTS (checkedAddDur release ⟨a, b⟩ ⟨c, d⟩)
  | "sub" => showTS (checkedSubDur release ⟨a, b⟩ ⟨c, d⟩)
  | "diff" => showDur (subTsCheckedDur release ⟨a, b⟩ ⟨c, d⟩)
  | "diffu" => showDur (subTsDur release ⟨a, b⟩ ⟨c, d⟩)
  | "cmp" => (match cmpTS ⟨a, b⟩ ⟨c, d⟩ with | .lt => "lt" | .eq => "eq" | .gt => "gt")
  | _ => "bad-op"

/-- the same operation on the generated definitions, through the public entry point the harness uses for this
line (`v` = line number mod 12; the private kernels have no stable name, so variant 2 of add/sub — the kernel
called directly by the harness — is evaluated through `Instant`'s operator) -/
def runGen (release : Bool) (v : Nat) (op : String) (a b c d : Int) : String :=
  match op with
  | "add" => showTS (if v % 3 == 1 then TimeGen.SystemTime_add release ⟨a, b⟩ ⟨c, d⟩ else TimeGen.Instant_add release ⟨a, b⟩ ⟨c, d⟩)
  | "sub" => showTS (if v % 3 == 1 then TimeGen.SystemTime_sub_Duration release ⟨a, b⟩ ⟨c, d⟩
                     else TimeGen.Instant_sub_Duration release ⟨a, b⟩ ⟨c, d⟩)
  | "diff" => showDur (match v % 4 with
      | 0 => TimeGen.Instant_sub release ⟨a, b⟩ ⟨c, d⟩
      | 1 => TimeGen.SystemTime_sub release ⟨a, b⟩ ⟨c, d⟩
      | 2 => TimeGen.Instant_duration_since release ⟨a, b⟩ ⟨c, d⟩
      | _ => TimeGen.SystemTime_duration_since release ⟨a, b⟩ ⟨c, d⟩)
  | "diffu" => showDur (if c == 0 && d == 0 && v % 2 == 0 then TimeGen.SystemTime_duration_since_unix_time release ⟨a, b⟩
                        else TimeGen.MonotonicInstant_elapsed release ⟨a, b⟩ ⟨c, d⟩)
  | "cmp" => (match cmpTS ⟨a, b⟩ ⟨c, d⟩ with | .lt => "lt" | .eq => "eq" | .gt => "gt")
  | _ => "bad-op"

def step (s : St) (line : String) : St × String :=
  let s := { s with n := s.n + 1 }
  match Drv.words line with
  | ["mode", "release"] => ({ s with release := true, gen := false }, "ok")
  | ["mode", "debug"] => ({ s with release := false, gen := false }, "ok")
  | ["mode", "gen-release"] => ({ s with release := true, gen := true }, "ok")
  | ["mode", "gen-debug"] => ({ s with release := false, gen := true }, "ok")
  | "sleep" :: req :: rest =>
    match req.toNat?, parseResp rest with
    | some req, some script =>
      let (r, slept, calls) := sleepLoop script req 0 0
      let rs := match r with | some true => "ok" | some false => "err" | none => "looping"
      (s, s!"{rs} {slept} {calls}")
    | _, _ => (s, "bad-op")
  | ["d2ts", a, b] =>
    match a.toInt?, b.toInt? with
    | some a, some b =>
      if 0 ≤ a ∧ a ≤ U64_MAX ∧ 0 ≤ b ∧ b < NANOS then
        (s, showTS (if s.gen then TimeGen.TimeSpec_try_from s.release ⟨a, b⟩ else durToTS ⟨a, b⟩))
      else (s, "bad-op")
    | _, _ => (s, "bad-op")
  | [op, a, b, c, d] =>
    match a.toInt?, b.toInt?, c.toInt?, d.toInt? with
    | some a, some b, some c, some d =>
      (s, if s.gen then runGen s.release (s.n % 12) op a b c d else runModel s.release op a b c d)
    | _, _, _, _ => (s, "bad-op")
  | _ => (s, "bad-op")

def main : IO Unit := Drv.run step {}
