import TinyVerif.Model.Time
import TinyVerif.Drv.Common
open TinyVerif TinyVerif.Time

def showTS : R TS → String
  | .val t => s!"some {t.sec} {t.nsec}"
  | .none => "none"
  | .panic => "panic"

def showDur : R Dur → String
  | .val d => s!"some {d.secs} {d.nanos}"
  | .none => "none"
  | .panic => "panic"

def parseResp : List String → Option (List SleepResp)
  | [] => some []
  | "done" :: e :: rest => do let e ← e.toNat?; let r ← parseResp rest; pure (.done e :: r)
  | "eintr" :: s :: k :: rest => do let s ← s.toNat?; let k ← k.toNat?; let r ← parseResp rest; pure (.eintr s k :: r)
  | "err" :: c :: rest => do let c ← c.toNat?; let r ← parseResp rest; pure (.err c :: r)
  | _ => none

def step (release : Bool) (line : String) : Bool × String :=
  match Drv.words line with
  | ["mode", "release"] => (true, "ok")
  | ["mode", "debug"] => (false, "ok")
  | "sleep" :: req :: rest =>
    match req.toNat?, parseResp rest with
    | some req, some script =>
      let (r, slept, calls) := sleepLoop script req 0 0
      let rs := match r with | some true => "ok" | some false => "err" | none => "looping"
      (release, s!"{rs} {slept} {calls}")
    | _, _ => (release, "bad-op")
  | [op, a, b, c, d] =>
    match a.toInt?, b.toInt?, c.toInt?, d.toInt? with
    | some a, some b, some c, some d =>
      let out := match op with
        | "add" => showTS (checkedAddDur release ⟨a, b⟩ ⟨c, d⟩)
        | "sub" => showTS (checkedSubDur release ⟨a, b⟩ ⟨c, d⟩)
        | "diff" => showDur (subTsCheckedDur release ⟨a, b⟩ ⟨c, d⟩)
        | "diffu" => showDur (subTsDur release ⟨a, b⟩ ⟨c, d⟩)
        | "cmp" => (match cmpTS ⟨a, b⟩ ⟨c, d⟩ with | .lt => "lt" | .eq => "eq" | .gt => "gt")
        | _ => "bad-op"
      (release, out)
    | _, _, _, _ => (release, "bad-op")
  | _ => (release, "bad-op")

def main : IO Unit := Drv.run step false
