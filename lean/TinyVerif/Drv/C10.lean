import TinyVerif.Model.UnixStr
import TinyVerif.Drv.Common
import TinyVerif.Model.Io
open TinyVerif TinyVerif.UnixStr

def showErr : ErrKind → String
  | .interior => "interior"
  | .noterm => "noterm"

def showTail {α : Type} (f : α → String) : R α → String
  | .ok a => f a
  | .err e => "err " ++ showErr e
  | .panic => "panic"
  | .oob => "oob"
  | .fuel => "fuel"

def showBytes (tag : String) (r : R (List Nat)) : String :=
  showTail (fun u => s!"{tag} {Drv.hex u} {u.length}") r

def showOptBytes (r : R (Option (List Nat))) : String :=
  showTail (fun o => match o with | some u => s!"some {Drv.hex u} {u.length}" | none => "none") r

def showOptNat (r : R (Option Nat)) : String :=
  showTail (fun o => match o with | some n => s!"some {n}" | none => "none") r

def isAscii (l : List Nat) : Bool := l.all (· < 128)

/-- methods take a `&UnixStr` obtained from the safe borrowed constructor -/
def withSelf (a : List Nat) (f : List Nat → String) : String :=
  match tryFromBorrowed a with
  | .ok s => f s
  | _ => "reject"

def unary (op : String) (a : List Nat) : String :=
  match op with
  | "ustr_bytes" => showBytes "ok" (tryFromBorrowed a)
  | "ustr_str" => if isAscii a then showBytes "ok" (tryFromBorrowed a) else "bad-op"
  | "ustring_bytes" => showBytes "ok" (tryFromOwned a)
  | "ustring_vec" => showBytes "ok" (tryFromOwned a)
  | "ustring_vec_cap" => showBytes "ok" (tryFromOwned a)
  | "ustring_string_cap" => if isAscii a then showBytes "ok" (tryFromOwned a) else "bad-op"
  | "ustring_str" => if isAscii a then showBytes "ok" (tryFromOwned a) else "bad-op"
  | "ustring_string" => if isAscii a then showBytes "ok" (tryFromOwned a) else "bad-op"
  | "ustring_fromstr" => if isAscii a then showBytes "ok" (tryFromOwned a) else "bad-op"
  | "const" => if isAscii a then showBytes "ok" (fromStrChecked a) else "bad-op"
  | "lit" => showBytes "ok" (unixLit a)
  | "format" => if isAscii a then showBytes "ok" (fromFormat a) else "bad-op"
  | "dname" => showBytes "ok" (fileUnixName a)
  | "parent" => withSelf a fun s => showOptBytes (parentPath s)
  | "file_name" => withSelf a fun s => showOptBytes (pathFileName s)
  | "own" => withSelf a fun s => showBytes "ok" (.ok s)
  | _ => "bad-op"

def binary (op : String) (a b : List Nat) : String :=
  match op with
  | "join_fmt" => withSelf a fun s => if isAscii b then showBytes "ok" (pathJoinFmt s b) else "bad-op"
  | "find_buf" => withSelf a fun s => showOptNat (findBuf s b)
  | "match_str" => withSelf a fun s => if TinyVerif.Io.utf8Valid b then showTail (fun n => s!"val {n}") (matchUpToStr s b) else "bad-op"
  | "find_alias" => withSelf a fun s =>
      let off := b.foldl (fun acc x => acc * 256 + x) 0
      if off ≥ a.length then "bad-op" else withSelf (a.drop off) fun e => showOptNat (find s e)
  | "ends_with_alias" => withSelf a fun s =>
      let off := b.foldl (fun acc x => acc * 256 + x) 0
      if off ≥ a.length then "bad-op" else withSelf (a.drop off) fun e => showTail (fun v => if v then "true" else "false") (endsWith s e)
  | "match_alias" => withSelf a fun s =>
      let off := b.foldl (fun acc x => acc * 256 + x) 0
      if off ≥ a.length then "bad-op" else withSelf (a.drop off) fun e => showTail (fun n => s!"val {n}") (matchUpTo s e)
  | "join" => withSelf a fun s => withSelf b fun e => showBytes "ok" (pathJoin s e)
  | "find" => withSelf a fun s => withSelf b fun e => showOptNat (find s e)
  | "ends_with" => withSelf a fun s => withSelf b fun e => showTail (fun v => if v then "true" else "false") (endsWith s e)
  | "match" => withSelf a fun s => withSelf b fun e => showTail (fun n => s!"val {n}") (matchUpTo s e)
  | _ => "bad-op"

/-- the `form` word of a `formats` / `join_fmts` line -/
def shapeOf : String → Option FmtShape
  | "l" => some .lit
  | "la" => some .litArg
  | "al" => some .argLit
  | "lal" => some .litArgLit
  | "a" => some .arg
  | "ala" => some .argLitArg
  | "laa" => some .litArgArg
  | "aal" => some .argArgLit
  | _ => none

/-- what the harness accepts: ASCII pieces, unused run-time arguments empty, no literal in shape `a`.
(Whether the literal is one of those COMPILED INTO the harness is the harness's table, not the
model's business: the check only generates table literals and compares the tables.) -/
def fmtOk (sh : FmtShape) (lit x y : List Nat) : Bool :=
  isAscii lit && isAscii x && isAscii y &&
    (sh.arity ≥ 2 || y.isEmpty) && (sh.arity ≥ 1 || x.isEmpty) && (sh != .arg || lit.isEmpty)

/-- `formats <lit> <form> <x> <y>`: `UnixString::from_format` on a shaped `Arguments` -/
def formats (lit : List Nat) (form : String) (x y : List Nat) : String :=
  match shapeOf form with
  | some sh => if fmtOk sh lit x y then showBytes "ok" (fromFormatArgs sh lit x y) else "bad-op"
  | none => "bad-op"

/-- `join_fmts <a> <lit> <form> <x> <y>`: `path_join_fmt` on a shaped `Arguments` -/
def joinFmts (a lit : List Nat) (form : String) (x y : List Nat) : String :=
  match shapeOf form with
  | some sh =>
    if fmtOk sh lit x y then withSelf a fun s => showBytes "ok" (pathJoinFmtArgs s sh lit x y) else "bad-op"
  | none => "bad-op"

def fmtLine : List String → String
  | ["formats", lit, form, x, y] =>
    match Drv.unhex lit, Drv.unhex x, Drv.unhex y with
    | some lit, some x, some y => formats lit form x y
    | _, _, _ => "bad-op"
  | ["join_fmts", a, lit, form, x, y] =>
    match Drv.unhex a, Drv.unhex lit, Drv.unhex x, Drv.unhex y with
    | some a, some lit, some x, some y => joinFmts a lit form x y
    | _, _, _, _ => "bad-op"
  | _ => "bad-op"

/-- `at <n> op a [b]`: the harness places the operands at start alignments / between surrounding bytes
encoded by `n < 1024`.  The model has no addresses — an operand *is* its byte list — so the answer it
gives is the one for the plain case: that the real code's result does not depend on where its
operands live is exactly what these lines check. -/
def placement (n : String) : Bool :=
  n.length ≥ 1 && n.length ≤ 4 && n.toList.all Char.isDigit &&
    (n.toList.foldl (fun acc c => acc * 10 + (c.toNat - '0'.toNat)) 0) < 1024

def step (u : Unit) (line : String) : Unit × String :=
  match Drv.words line with
  | ["mode", _] => (u, "ok")
  | "formats" :: _ | "join_fmts" :: _ => (u, fmtLine (Drv.words line))
  | "at" :: n :: "formats" :: rest =>
    if placement n then (u, fmtLine ("formats" :: rest)) else (u, "bad-op")
  | "at" :: n :: "join_fmts" :: rest =>
    if placement n then (u, fmtLine ("join_fmts" :: rest)) else (u, "bad-op")
  | ["at", n, op, a] =>
    match placement n, Drv.unhex a with
    | true, some a => (u, unary op a)
    | _, _ => (u, "bad-op")
  | ["at", n, op, a, b] =>
    match placement n, Drv.unhex a, Drv.unhex b with
    | true, some a, some b => (u, binary op a b)
    | _, _, _ => (u, "bad-op")
  | [op, a] =>
    match Drv.unhex a with
    | some a => (u, unary op a)
    | none => (u, "bad-op")
  | [op, a, b] =>
    match Drv.unhex a, Drv.unhex b with
    | some a, some b => (u, binary op a b)
    | _, _ => (u, "bad-op")
  | _ => (u, "bad-op")

def main : IO Unit := Drv.run step ()
