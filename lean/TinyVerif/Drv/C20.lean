/- C20 driver: `<shape> <hex-arg>*` → the model's report for that generated shape, in the harness's canonical form. -/
import TinyVerif.Model.Cli
import TinyVerif.Gen.CliShapes
import TinyVerif.Drv.Common
open TinyVerif TinyVerif.Cli

def str (b : Bytes) : String := String.ofList (b.map Char.ofNat)

def dumpAtom : Atom → String
  | .bytes b => "S" ++ Drv.hex b
  | .int n => "I" ++ toString n

def dumpAcc : Acc → String
  | .single none => "N"
  | .single (some a) => dumpAtom a
  | .many l => "[" ++ ";".intercalate (l.map dumpAtom) ++ "]"
  | .flag b => if b then "T" else "F"

mutual
def dumpValue : Value → String
  | .mk accs sv => "{" ++ ",".intercalate (accs.map dumpAcc) ++ "|" ++ dumpSub sv ++ "}"
def dumpSub : SubVal → String
  | .none => "_"
  | .unit n => str n
  | .args n v => str n ++ dumpValue v
end

def pathStr (p : List Bytes) : String :=
  if p.isEmpty then "/" else String.join (p.map (fun n => "/" ++ str n))

def unhexAll : List String → Option (List Bytes)
  | [] => some []
  | w :: ws => do
    let b ← Drv.unhex w
    let r ← unhexAll ws
    pure (b :: r)

def step (_ : Unit) (line : String) : Unit × String :=
  match Drv.words line with
  | [] => ((), "bad-op")
  | sid :: ws =>
    match Gen.shapes.lookup sid, unhexAll ws with
    | some sh, some args =>
      if args.any (fun a => a.any (· == 0)) then ((), "bad-op") else
      let nonAscii := args.any (fun a => a.any (· ≥ 128))
      let out := match report dbgAscii sh args with
        | .ok v => "ok " ++ dumpValue v
        | .panic => "panic"
        | .err help kind cause =>
          -- the `{:?}` text of a non-ASCII argument is not modelled: canonicalise (same rule in the harness)
          let unrec := match kind with | .unrecognized _ => true | _ => false
          if nonAscii && (unrec || cause == M_OVERFLOW) then s!"err {pathStr help} U"
          else s!"err {pathStr help} {Drv.hex cause}"
      ((), out)
    | _, _ => ((), "bad-op")

def main : IO Unit := Drv.run step ()
