import TinyVerif.Gen.SqeCtors
import TinyVerif.Model.UringAbi
import TinyVerif.Model.UringRes
import TinyVerif.Drv.Common
open TinyVerif TinyVerif.Sqe

def parseInts : List String → Option (List Int)
  | [] => some []
  | t :: ts => do let n ← t.toInt?; let r ← parseInts ts; pure (n :: r)

def findCtor (n : String) : List Ctor → Option Ctor
  | [] => none
  | c :: cs => if c.name = n then some c else findCtor n cs

def nth (l : List Int) (i : Nat) : Int := match l[i]? with | some v => v | none => 0

def validList : List (String × Kind) → List Int → Bool
  | [], [] => true
  | (_, k) :: ks, v :: vs => decide (k.lo ≤ v ∧ v ≤ k.hi) && validList ks vs
  | _, _ => false

/-- the harness fabricates references from pointer operands: non-null and 8-aligned -/
def ptrOk (c : Ctor) (vals : List Int) : Bool :=
  (c.operands.zip vals).all fun ((nm, k), v) =>
    !(k == .ptr && (nm == "path" || nm == "old_path" || nm == "new_path" || nm == "ts")) || (v != 0 && v % 8 == 0)

def image (c : Ctor) (vals : List Int) : String :=
  "img " ++ String.join ((encode c (nth vals)).map fun b => String.ofList [Drv.hexNib (b / 16 % 16), Drv.hexNib (b % 16)])

def showEv : UringRes.Ev → String
  | .S => "S" | .M i l o => s!"M{i}:{l}:{o}" | .ME l o => s!"ME:{l}:{o}" | .bar => "|"
  | .U i l => s!"U{i}:{l}" | .C => "C"

def step' (_ : Unit) (line : String) : Unit × String :=
  match Drv.words line with
  | "sqe" :: "new_connect_unix" :: rest =>
    -- operands on the line: socket, path length, user_data, sqe_flags; the SocketArgUnix is built by the
    -- harness: addr_len = path length + NUL + sizeof(sa_family_t), pointer canonicalised to 0xA11CE0
    match parseInts rest, findCtor "new_connect_unix" ctors with
    | some [s, plen, ud, fl], some c =>
      if 1 ≤ plen ∧ plen ≤ 100 then
        let named : List (String × Int) := [("socket", s), ("user_data", ud), ("sqe_flags", fl),
          ("sockaddr.addr_len", plen + 3), ("sockaddr.addr@ptr", 10558688), ("sockaddr.addr_len@ptr", 205520777296651)]
        let vals := c.operands.map fun (nm, _) => match lookup named nm with | some v => v | none => 0
        if validList c.operands vals then ((), image c vals ++ s!" direct-addrlen {plen + 3}") else ((), "bad-op")
      else ((), "bad-op")
    | _, _ => ((), "bad-op")
  | "sqe" :: name :: rest =>
    match parseInts rest, findCtor name ctors with
    | some vals, some c =>
      if name ≠ "new_sendmsg" ∧ validList c.operands vals ∧ ptrOk c vals then ((), image c vals) else ((), "bad-op")
    | _, _ => ((), "bad-op")
  | ["teardown", e, f, s, fail, sqe, cqe, arr, cqes] =>
    match e.toNat?, f.toNat?, s.toNat?, sqe.toNat?, cqe.toNat?, arr.toNat?, cqes.toNat? with
    | some _, some f, some s, some sqe, some cqe, some arr, some cqes =>
      let fl : Option (Option Nat) := if fail == "-" then some none else fail.toNat?.map some
      match fl with
      | some fl =>
        let r := UringRes.script .fixed f ⟨sqe, cqe, arr, cqes, s != 0⟩ fl
        ((), (if r.1 then "ok " else "err ") ++ " ".intercalate (r.2.map showEv))
      | none => ((), "bad-op")
    | _, _, _, _, _, _, _ => ((), "bad-op")
  | _ => ((), "bad-op")

def main : IO Unit := Drv.run step' ()
