import TinyVerif.Gen.SqeCtors
import TinyVerif.Model.UringAbi
import TinyVerif.Model.UringRes
import TinyVerif.Model.Ring
import TinyVerif.Drv.Common
open TinyVerif TinyVerif.Sqe

def parseInts : List String → Option (List Int)
  | [] => some []
  | t :: ts => do let n ← t.toInt?; let r ← parseInts ts; pure (n :: r)

def findCtor (n : String) : List Ctor → Option Ctor
  | [] => none
  | c :: cs => if c.name = n then some c else findCtor n cs

def nth (l : List Int) (i : Nat) : Int := match l[i]? with | some v => v | none => 0

def validList : List (String × Kind) → List Int → Bool
  | [], [] => true
  | (_, k) :: ks, v :: vs => decide (k.lo ≤ v ∧ v ≤ k.hi) && validList ks vs
  | _, _ => false

/-- the harness fabricates references from pointer operands: non-null and 8-aligned -/
def ptrOk (c : Ctor) (vals : List Int) : Bool :=
  (c.operands.zip vals).all fun ((nm, k), v) =>
    !(k == .ptr && (nm == "path" || nm == "old_path" || nm == "new_path" || nm == "ts")) || (v != 0 && v % 8 == 0)

def image (c : Ctor) (vals : List Int) : String :=
  "img " ++ String.join ((encode c (nth vals)).map fun b => String.ofList [Drv.hexNib (b / 16 % 16), Drv.hexNib (b % 16)])

/-- what ABI + intent (Model/UringAbi.lean) prescribe for one field, as a `Src` over the constructor's operands -/
def roleSrc (ops : List (String × Kind)) (intent : List (String × Want)) : Role → Option Src
  | .unused => some (.const 0)
  | .operand nm _ => (lookup intent nm).bind (wantSrc ops)

def findOp (op : String) : List AbiRow → Option AbiRow
  | [] => none
  | r :: rs => if r.op = op then some r else findOp op rs

/-- the constructor ABI + intent prescribe: built from the operand NAMES and kinds of the table row only, none of
its field sources (`sqe-intent` lines: the spec image the real constructors' bytes are judged against) -/
def intendedCtor (c : Ctor) : Option Ctor := do
  let (op, intent) ← lookup intents c.name
  let row ← findOp op abi
  let i ← indexOf c.operands "sqe_flags"
  let j ← indexOf c.operands "user_data"
  let fd ← roleSrc c.operands intent row.fd
  let off ← roleSrc c.operands intent row.off
  let addr ← roleSrc c.operands intent row.addr
  let len ← roleSrc c.operands intent row.len
  let opflags ← roleSrc c.operands intent row.opflags
  let bufIndex ← roleSrc c.operands intent row.bufIndex
  let fileIndex ← roleSrc c.operands intent row.fileIndex
  pure { name := c.name, operands := c.operands, opcode := .const row.opcode, flags := .arg i, ioprio := .const 0,
         fd, off, addr, len, opflags, opflagsBytes := 4, userData := .arg j, bufIndex, personality := .const 0, fileIndex }

def showEv : UringRes.Ev → String
  | .S => "S" | .M i l o => s!"M{i}:{l}:{o}" | .ME l o => s!"ME:{l}:{o}" | .bar => "|"
  | .U i l => s!"U{i}:{l}" | .C => "C"

/-! ### `kring`: the kernel contract composed with the ring model (Model/Ring.lean, `krun` with `nopKern`)

`kring <flags> <sqk> <cqk> <c> <cc> : <op> : <op> ...` — ops: `g <ud> <sqe-flags> <len>` get+fill, `f` flush,
`r` reap, `w` wake-if-needed, `k <n>` consume one batch, `x <i>` complete the i-th in-flight request,
`o <n>` flush the overflow list, `i` SQ thread goes idle; `rb` = `get_next_cqe()` returns (reference held, not read),
`rr` = read through the held reference (run with `krun2`). -/

def splitOps : List String → List String → List (List String) → List (List String)
  | [], cur, acc => (cur.reverse :: acc).reverse
  | ":" :: rest, cur, acc => splitOps rest [] (cur.reverse :: acc)
  | t :: rest, cur, acc => splitOps rest (t :: cur) acc

def parseKOp : List String → Option Ring.KOp2
  | ["g", ud, fl, len] => do
      let ud ← ud.toNat?; let fl ← fl.toNat?; let len ← len.toNat?
      if ud < Ring.U64 ∧ fl < 256 ∧ len < Ring.W then pure (.k (.get (Ring.sqeWord ud fl len))) else none
  | ["f"] => some (.k .flush)
  | ["r"] => some (.k .reap)
  | ["w"] => some (.k .wake)
  | ["k", n] => do let n ← n.toNat?; if n < Ring.W then pure (.k (.consume n)) else none
  | ["x", i] => do let i ← i.toNat?; if i < Ring.W then pure (.k (.complete i)) else none
  | ["o", n] => do let n ← n.toNat?; if n < Ring.W then pure (.k (.flushOvf n)) else none
  | ["i"] => some (.k .idle)
  | ["rb"] => some .reapBegin
  | ["rr"] => some .reapRead
  | _ => none

def parseKOps : List (List String) → Option (List Ring.KOp2)
  | [] => some []
  | o :: os => do let a ← parseKOp o; let r ← parseKOps os; pure (a :: r)

def showReq (r : Ring.Req) : String :=
  let v := r.ent.val
  let dep := match r.dep with | none => "-" | some m => toString m
  s!"{r.seq}@{r.ent.slot}={v % Ring.U64}/{v / Ring.U64 % 256}/{v / Ring.U64 / 256 % Ring.W}/{dep}"

def showKOut : Ring.KOut → String
  | .app (.slot i) => s!"s{i}"
  | .app .noSlot => "sn"
  | .app (.flushed n) => s!"f{n}"
  | .app (.cqe v) => s!"c{Ring.cqeUd v}:{Ring.cqeRes v}"
  | .app .noCqe => "cn"
  | .app .panic => "panic"
  | .app (.consumed _) => "bad-out"
  | .app (.posted _) => "bad-out"
  | .consumed [] => "k:-"
  | .consumed rs => "k:" ++ ",".intercalate (rs.map showReq)
  | .noReq => "xn"
  | .notReady => "xw"
  | .completed q w d => s!"x{q}={Ring.cqeUd w}:{Ring.cqeRes w}:" ++ (if d then "d" else "o")
  | .flushedOvf n => s!"o{n}"
  | .wake b => if b then "w1" else "w0"
  | .idle => "i"
  | .held i => s!"h{i}"
  | .borrowed => "bw"

def runKring (cd : Ring.Code) (toks : List String) : String :=
  match splitOps toks [] [] with
  | ["kring", fl, sqk, cqk, c, cc] :: ops =>
    match fl.toNat?, sqk.toNat?, cqk.toNat?, c.toNat?, cc.toNat?, parseKOps ops with
    | some fl, some sqk, some cqk, some c, some cc, some ops =>
      if fl % 2 = 0 ∧ fl / 4 % 256 = 0 ∧ fl / 4096 = 0 ∧ sqk ≤ 10 ∧ cqk ≤ 10 ∧ c < Ring.W ∧ cc < Ring.W then
        let outs := (Ring.krun2 Ring.nopKern cd (Ring.kinit2 fl sqk cqk c cc) ops).2
        if outs.isEmpty then "ok" else " ".intercalate (outs.map showKOut)
      else "bad-op"
    | _, _, _, _, _, _ => "bad-op"
  | _ => "bad-op"

/-- `code fixed|eager-release` selects the modelled version of `get_next_cqe` for the `kring` lines (state of the
driver; every other line is stateless) -/
def step' (cd : Ring.Code) (line : String) : Ring.Code × String :=
  match Drv.words line with
  | ["code", "fixed"] => (.fixed, "ok")
  | ["code", "eager-release"] => (.eagerRelease, "ok")
  | "kring" :: rest => (cd, runKring cd ("kring" :: rest))
  | "sqe-intent" :: "new_connect_unix" :: rest =>
    match parseInts rest, (findCtor "new_connect_unix" ctors).bind intendedCtor with
    | some [s, plen, ud, fl], some c =>
      if 1 ≤ plen ∧ plen ≤ 100 then
        let named : List (String × Int) := [("socket", s), ("user_data", ud), ("sqe_flags", fl),
          ("sockaddr.addr_len", plen + 3), ("sockaddr.addr@ptr", 10558688), ("sockaddr.addr_len@ptr", 205520777296651)]
        let vals := c.operands.map fun (nm, _) => match lookup named nm with | some v => v | none => 0
        if validList c.operands vals then (cd, image c vals) else (cd, "bad-op")
      else (cd, "bad-op")
    | _, _ => (cd, "no-intent")
  | "sqe-intent" :: name :: rest =>
    match parseInts rest, findCtor name ctors with
    | some vals, some c0 =>
      match intendedCtor c0 with
      | some c => if validList c.operands vals ∧ ptrOk c vals then (cd, image c vals) else (cd, "bad-op")
      | none => (cd, "no-intent")
    | _, _ => (cd, "bad-op")
  | "sqe" :: "new_connect_unix" :: rest =>
    -- operands on the line: socket, path length, user_data, sqe_flags; the SocketArgUnix is built by the
    -- harness: addr_len = path length + NUL + sizeof(sa_family_t), pointer canonicalised to 0xA11CE0
    match parseInts rest, findCtor "new_connect_unix" ctors with
    | some [s, plen, ud, fl], some c =>
      if 1 ≤ plen ∧ plen ≤ 100 then
        let named : List (String × Int) := [("socket", s), ("user_data", ud), ("sqe_flags", fl),
          ("sockaddr.addr_len", plen + 3), ("sockaddr.addr@ptr", 10558688), ("sockaddr.addr_len@ptr", 205520777296651)]
        let vals := c.operands.map fun (nm, _) => match lookup named nm with | some v => v | none => 0
        if validList c.operands vals then (cd, image c vals ++ s!" direct-addrlen {plen + 3}") else (cd, "bad-op")
      else (cd, "bad-op")
    | _, _ => (cd, "bad-op")
  | "sqe" :: name :: rest =>
    match parseInts rest, findCtor name ctors with
    | some vals, some c =>
      if name ≠ "new_sendmsg" ∧ validList c.operands vals ∧ ptrOk c vals then (cd, image c vals) else (cd, "bad-op")
    | _, _ => (cd, "bad-op")
  | ["teardown", e, f, s, fail, sqe, cqe, arr, cqes] =>
    match e.toNat?, f.toNat?, s.toNat?, sqe.toNat?, cqe.toNat?, arr.toNat?, cqes.toNat? with
    | some _, some f, some s, some sqe, some cqe, some arr, some cqes =>
      let fl : Option (Option Nat) := if fail == "-" then some none else fail.toNat?.map some
      match fl with
      | some fl =>
        let r := UringRes.script .fixed f ⟨sqe, cqe, arr, cqes, s != 0⟩ fl
        (cd, (if r.1 then "ok " else "err ") ++ " ".intercalate (r.2.map showEv))
      | none => (cd, "bad-op")
    | _, _, _, _, _, _, _ => (cd, "bad-op")
  | _ => (cd, "bad-op")

def main : IO Unit := Drv.run step' Ring.Code.fixed
