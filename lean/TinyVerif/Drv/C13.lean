import TinyVerif.Model.Spawn
import TinyVerif.Model.SpawnEnv
import TinyVerif.Model.SpawnIds
import TinyVerif.Drv.Common
open TinyVerif TinyVerif.Spawn

def fld (pre : String) (t : String) : Option String :=
  if t.startsWith pre then some ((t.drop pre.length).toString) else none

def optNat (s : String) : Option (Option Nat) :=
  if s == "-" then some none else s.toNat?.map some

def bit (s : String) : Option Bool := if s == "1" then some true else if s == "0" then some false else none

def parseStreams (s : String) : Option (List Nat) :=
  if s == "-" then some [] else s.toList.mapM (fun c => if c == '0' then some 0 else if c == '1' then some 1 else if c == '2' then some 2 else none)

def parseCF (s : String) : Option CFault :=
  if s == "-" then some none else
  match s.splitOn ":" with
  | [k, e] =>
    match k.toNat? with
    | some k => if e == "n" then some (some (k, none)) else e.toNat?.map (fun e => some (k, some e))
    | none => none
  | _ => none

def showStep : CStep → String
  | .dup2 i => s!"dup2.{i}"
  | .chdir => "chdir" | .setuid => "setuid" | .setgid => "setgid" | .setpgid => "setpgid"
  | .closure i => s!"closure.{i}"
  | .execve => "execve"

def showParent : ParentEnd → String
  | .ok => "parent=ok reaped=-"
  | .err (some e) r => s!"parent=err:{e} reaped={if r then 1 else 0}"
  | .err none r => s!"parent=err:nocode reaped={if r then 1 else 0}"
  | .noChild (some e) => s!"parent=err:{e} reaped=nochild"
  | .noChild none => "parent=err:nocode reaped=nochild"

def showChild : Option ChildEnd → String
  | none => "none"
  | some .execd => "execd"
  | some (.reported e) => s!"reported:{e}"
  | some (.returned _) => "returned"

def parseList (s : String) : Option (List Nat) := (s.splitOn ".").mapM (·.toNat?)

def parseOp (t : String) : Option Op :=
  match t.toList with
  | 'a' :: r => (String.ofList r).toNat?.map Op.arg
  | 'e' :: r => (String.ofList r).toNat?.map Op.env
  | 'A' :: r => if r.isEmpty then some (.args []) else (parseList (String.ofList r)).map Op.args
  | 'E' :: r => if r.isEmpty then some (.envs []) else (parseList (String.ofList r)).map Op.envs
  | _ => none

def showList (l : List Nat) : String := if l.isEmpty then "." else ".".intercalate (l.map toString)

/-! respawn: `respawn fixed=<b> start=<b> <stage> / <stage> / ...`, a stage = builder-call tokens followed by the five
    fault fields of that round's spawn -/

def parseStdio (s : String) : Option Stdio :=
  if s == "I" then some .inherit else if s == "n" then some .null else if s == "p" then some .makePipe
  else if s == "r" then some .rawFd else none

def parseBOp (t : String) : Option BOp :=
  if t == "cwd" then some .cwd else if t == "uid" then some .uid else if t == "gid" then some .gid
  else if t == "pg" then some .pgroup else if t == "cl" then some .preExec
  else match fld "si=" t, fld "so=" t, fld "se=" t with
    | some c, _, _ => (parseStdio c).map BOp.stdin
    | _, some c, _ => (parseStdio c).map BOp.stdout
    | _, _, some c => (parseStdio c).map BOp.stderr
    | _, _, _ => (parseOp t).map BOp.cmd

def parseStage (ws : List String) : Option Stage :=
  if ws.length < 5 then none else
  match ws.drop (ws.length - 5) with
  | [before, eintr, readerr, waiterr, cf] =>
    match (ws.take (ws.length - 5)).mapM parseBOp, fld "before=" before >>= optNat, fld "eintr=" eintr >>= String.toNat?,
        fld "readerr=" readerr >>= optNat, fld "waiterr=" waiterr >>= optNat, fld "cf=" cf >>= parseCF with
    | some ops, some before, some eintr, some readerr, some waiterr, some cf => some ⟨ops, ⟨before, eintr, readerr, waiterr⟩, cf⟩
    | _, _, _, _, _, _ => none
  | _ => none

def splitStages (ws : List String) : List (List String) :=
  ws.foldr (fun w acc => if w == "/" then [] :: acc else match acc with
    | [] => [[w]]
    | h :: t => (w :: h) :: t) [[]]

def showStdio : Stdio → String
  | .inherit => "i" | .null => "n" | .makePipe => "p" | .rawFd => "r"

def showImage : Option Image → String
  | none => "io=- argv=- envp=- set=-"
  | some i =>
    let envp := match i.envp with
      | none => "inherit"
      | some p => showList p
    let b := fun (x : Bool) => if x then "1" else "0"
    s!"io={"".intercalate (i.stdio.map showStdio)} argv={showList i.argv} envp={envp} set={b i.cwd}{b i.uid}{b i.gid}{b i.pgroup}.{i.closures}"

def showPipes : Option (List Bool) → String
  | none => "-"
  | some l => "".intercalate (l.map fun x => if x then "1" else "0")

def showSpawned (o : Spawned) : String :=
  s!"{showParent o.run.parent} child={showChild o.run.child} returners={(returners o.run).length} {showImage o.image} pipes={showPipes o.pipes} ncl={o.closuresCalled}"

/-! envseq: `envseq start=<b> penv=<n> <tok>* S (<tok>* S)*` — builder calls on ONE Command, `S` = spawn (no fault);
    tokens: e<i> / E<i.j..> (E = empty iterator) / a<i> / A<i.j..> / cwd / si= so= se= ; the caller's environment is
    the strings 1000..1000+n-1.  Answer: the environment of every image, ` / `-separated (`.` = empty). -/

def splitSpawns (ws : List String) : Option (List (List String)) :=
  let r := ws.foldl (fun (acc : List (List String) × List String) w =>
    if w == "S" then (acc.1 ++ [acc.2], []) else (acc.1, acc.2 ++ [w])) ([], [])
  if r.2.isEmpty && !r.1.isEmpty then some r.1 else none

def showEnvRound : Option (List Nat) → String
  | none => "noimage"
  | some l => showList l

/-! ids: `ids u=<r.e.s> g=<r.e.s> sg=<a.b..|-> uid=<n|-> gid=<n|-> pg=<-|0|anchor|bogus>` — the caller's identity state
    and what Command::uid/gid/pgroup were given; the forked child is pid 1000 born into group 900, the session also has
    group 950 (`anchor`), 999 does not exist (`bogus`).  Answer: what the image runs as, or the errno spawn returns. -/

def parseTriple (s : String) : Option Ids :=
  match parseList s with
  | some [r, e, x] => some ⟨r, e, x⟩
  | _ => none

def showIds (i : Ids) : String := s!"{i.r}.{i.e}.{i.s}.{i.e}"

def idsCtx : PCtx := ⟨1000, 900, [950]⟩

def step (_ : Unit) (line : String) : Unit × String :=
  match Drv.words line with
  | ["spawn", fx, s, cwd, uid, gid, pg, cl, before, eintr, readerr, waiterr, cf] =>
    match fld "fixed=" fx >>= bit, fld "s=" s >>= parseStreams, fld "cwd=" cwd >>= bit, fld "uid=" uid >>= bit, fld "gid=" gid >>= bit,
        fld "pg=" pg >>= bit, fld "cl=" cl >>= String.toNat?, fld "before=" before >>= optNat, fld "eintr=" eintr >>= String.toNat?,
        fld "readerr=" readerr >>= optNat, fld "waiterr=" waiterr >>= optNat, fld "cf=" cf >>= parseCF with
    | some fixed, some st, some cwd, some uid, some gid, some pg, some cl, some before, some eintr, some readerr, some waiterr, some cf =>
      let c : Config := ⟨st, cwd, uid, gid, pg, cl⟩
      let r := spawn fixed c ⟨before, eintr, readerr, waiterr⟩ cf
      let steps := ",".intercalate ((childSteps c).map showStep)
      let ncl := match r.child with
        | none => 0
        | some _ => closuresRun (childSteps c) cf
      ((), s!"{showParent r.parent} child={showChild r.child} returners={(returners r).length} reads={reads ⟨before, eintr, readerr, waiterr⟩} steps={steps} ncl={ncl}")
    | _, _, _, _, _, _, _, _, _, _, _, _ => ((), "bad-op")
  | "builder" :: fx :: st :: ops =>
    match fld "fixed=" fx >>= bit, fld "start=" st >>= bit, ops.mapM parseOp with
    | some fixed, some start, some ops =>
      match applyAll fixed start (new start 0) ops with
      | none => ((), "panic")
      | some c =>
        let e := match c.env with
          | .inherit => "inherit"
          | .none => "none"
          | .provided v p => s!"provided:{showList v}/{showList p}"
        ((), s!"args={showList c.args} argv={showList c.argv} env={e}")
    | _, _, _ => ((), "bad-op")
  | "respawn" :: fx :: st :: rest =>
    match fld "fixed=" fx >>= bit, fld "start=" st >>= bit, (splitStages rest).mapM parseStage with
    | some fixed, some start, some stages =>
      if stages.isEmpty then ((), "bad-op") else
      match runStages fixed start (newB start 0) stages with
      | none => ((), "panic")
      | some outs => ((), " / ".intercalate (outs.map showSpawned))
    | _, _, _ => ((), "bad-op")
  | ["ids", u, g, sg, uid, gid, pg] =>
    let pgq : Option (Option Nat) := match fld "pg=" pg with
      | some "-" => some none
      | some "0" => some (some 0)
      | some "anchor" => some (some 950)
      | some "bogus" => some (some 999)
      | _ => none
    let sgq : Option (List Nat) := match fld "sg=" sg with
      | some "-" => some []
      | some l => parseList l
      | none => none
    match fld "u=" u >>= parseTriple, fld "g=" g >>= parseTriple, sgq, fld "uid=" uid >>= optNat, fld "gid=" gid >>= optNat, pgq with
    | some u, some g, some sg, some uid, some gid, some pg =>
      let q : IdReq := ⟨uid, gid, pg⟩
      let r := idSteps idsCtx ⟨u, g, sg⟩ q
      -- the errno is the one the protocol model hands the caller
      let cfg : Config := ⟨[1], false, uid.isSome, gid.isSome, pg.isSome, 0⟩
      let run := spawn true cfg PFault.none (idFault cfg r)
      match r, run.parent with
      | .ok ch, .ok =>
        let pgs := if ch.pgid == 1000 then "own" else if ch.pgid == 900 then "caller" else if ch.pgid == 950 then "anchor" else "other"
        ((), s!"res=ok uid={showIds ch.cred.uid} gid={showIds ch.cred.gid} groups={showList ch.cred.groups} pgid={pgs}")
      | .error _, .err (some e) true => ((), s!"res=err:{e}")
      | _, _ => ((), "model-inconsistent")
    | _, _, _, _, _, _ => ((), "bad-op")
  | ["freeenv", st, pe, md] =>
    -- the no-alloc front end `process::spawn(.., env: &Environment, ..)`: the environment is passed directly
    match fld "start=" st >>= bit, fld "penv=" pe >>= String.toNat?, fld "mode=" md with
    | some start, some n, some md =>
      let penv := (List.range n).map (· + 1000)
      if md == "none" then ((), showList (childEnv penv .none))
      else if md == "inherit" && start then ((), showList (childEnv penv .inherit))
      else ((), "bad-op")
    | _, _, _ => ((), "bad-op")
  | "envseq" :: st :: pe :: rest =>
    match fld "start=" st >>= bit, fld "penv=" pe >>= String.toNat?, splitSpawns rest with
    | some start, some n, some segs =>
      match segs.mapM (fun seg => seg.mapM parseBOp) with
      | some opss =>
        match envRounds start ((List.range n).map (· + 1000)) (newB start 0) opss with
        | none => ((), "panic")
        | some outs => ((), " / ".intercalate (outs.map showEnvRound))
      | none => ((), "bad-op")
    | _, _, _ => ((), "bad-op")
  | _ => ((), "bad-op")

def main : IO Unit := Drv.run step ()
