import TinyVerif.Model.Spawn
import TinyVerif.Drv.Common
open TinyVerif TinyVerif.Spawn

def fld (pre : String) (t : String) : Option String :=
  if t.startsWith pre then some ((t.drop pre.length).toString) else none

def optNat (s : String) : Option (Option Nat) :=
  if s == "-" then some none else s.toNat?.map some

def bit (s : String) : Option Bool := if s == "1" then some true else if s == "0" then some false else none

def parseStreams (s : String) : Option (List Nat) :=
  if s == "-" then some [] else s.toList.mapM (fun c => if c == '0' then some 0 else if c == '1' then some 1 else if c == '2' then some 2 else none)

def parseCF (s : String) : Option CFault :=
  if s == "-" then some none else
  match s.splitOn ":" with
  | [k, e] =>
    match k.toNat? with
    | some k => if e == "n" then some (some (k, none)) else e.toNat?.map (fun e => some (k, some e))
    | none => none
  | _ => none

def showStep : CStep → String
  | .dup2 i => s!"dup2.{i}"
  | .chdir => "chdir" | .setuid => "setuid" | .setgid => "setgid" | .setpgid => "setpgid"
  | .closure i => s!"closure.{i}"
  | .execve => "execve"

def showParent : ParentEnd → String
  | .ok => "parent=ok reaped=-"
  | .err (some e) r => s!"parent=err:{e} reaped={if r then 1 else 0}"
  | .err none r => s!"parent=err:nocode reaped={if r then 1 else 0}"
  | .noChild (some e) => s!"parent=err:{e} reaped=nochild"
  | .noChild none => "parent=err:nocode reaped=nochild"

def showChild : Option ChildEnd → String
  | none => "none"
  | some .execd => "execd"
  | some (.reported e) => s!"reported:{e}"
  | some (.returned _) => "returned"

def parseList (s : String) : Option (List Nat) := (s.splitOn ".").mapM (·.toNat?)

def parseOp (t : String) : Option Op :=
  match t.toList with
  | 'a' :: r => (String.ofList r).toNat?.map Op.arg
  | 'e' :: r => (String.ofList r).toNat?.map Op.env
  | 'A' :: r => if r.isEmpty then some (.args []) else (parseList (String.ofList r)).map Op.args
  | 'E' :: r => if r.isEmpty then some (.envs []) else (parseList (String.ofList r)).map Op.envs
  | _ => none

def showList (l : List Nat) : String := if l.isEmpty then "." else ".".intercalate (l.map toString)

def step (_ : Unit) (line : String) : Unit × String :=
  match Drv.words line with
  | ["spawn", fx, s, cwd, uid, gid, pg, cl, before, eintr, readerr, waiterr, cf] =>
    match fld "fixed=" fx >>= bit, fld "s=" s >>= parseStreams, fld "cwd=" cwd >>= bit, fld "uid=" uid >>= bit, fld "gid=" gid >>= bit,
        fld "pg=" pg >>= bit, fld "cl=" cl >>= String.toNat?, fld "before=" before >>= optNat, fld "eintr=" eintr >>= String.toNat?,
        fld "readerr=" readerr >>= optNat, fld "waiterr=" waiterr >>= optNat, fld "cf=" cf >>= parseCF with
    | some fixed, some st, some cwd, some uid, some gid, some pg, some cl, some before, some eintr, some readerr, some waiterr, some cf =>
      let c : Config := ⟨st, cwd, uid, gid, pg, cl⟩
      let r := spawn fixed c ⟨before, eintr, readerr, waiterr⟩ cf
      let steps := ",".intercalate ((childSteps c).map showStep)
      ((), s!"{showParent r.parent} child={showChild r.child} returners={(returners r).length} reads={reads ⟨before, eintr, readerr, waiterr⟩} steps={steps}")
    | _, _, _, _, _, _, _, _, _, _, _, _ => ((), "bad-op")
  | "builder" :: fx :: st :: ops =>
    match fld "fixed=" fx >>= bit, fld "start=" st >>= bit, ops.mapM parseOp with
    | some fixed, some start, some ops =>
      match applyAll fixed start (new start 0) ops with
      | none => ((), "panic")
      | some c =>
        let e := match c.env with
          | .inherit => "inherit"
          | .none => "none"
          | .provided v p => s!"provided:{showList v}/{showList p}"
        ((), s!"args={showList c.args} argv={showList c.argv} env={e}")
    | _, _, _ => ((), "bad-op")
  | _ => ((), "bad-op")

def main : IO Unit := Drv.run step ()
