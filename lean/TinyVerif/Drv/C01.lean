import TinyVerif.Model.Mutex
import TinyVerif.Drv.Common
open TinyVerif TinyVerif.Mutex

/-- `l<k>` / `t<k>` / `d0` (`{:?}` of the mutex: the library's own try_lock + guard drop = `t0`) -/
def parseTxn (w : String) : Option Txn :=
  match w.toList with
  | 'l' :: r => (String.ofList r).toNat?.map (fun k => ⟨false, k⟩)
  | 't' :: r => (String.ofList r).toNat?.map (fun k => ⟨true, k⟩)
  | ['d', '0'] => some ⟨true, 0⟩
  | _ => none

def parseProg (ws : List String) : Option (List Txn) := ws.mapM parseTxn

/-- split a token list on a separator token -/
def splitTok (sep : String) (ws : List String) : List (List String) :=
  let rec go : List String → List String → List (List String) → List (List String)
    | [], cur, acc => (cur.reverse :: acc).reverse
    | w :: rest, cur, acc => if w == sep then go rest [] (cur.reverse :: acc) else go rest (w :: cur) acc
  go ws [] []

def stripPrefix? (s pre : String) : Option String :=
  if s.startsWith pre then some (s.drop pre.length).toString else none

/-- does the ordering (as the shim prints it) include acquire / release?  `none` = not an ordering -/
def acqOf (o : String) : Option Bool :=
  if o == "acq" || o == "acqrel" || o == "sc" then some true
  else if o == "rlx" || o == "rel" then some false else none
def relOf (o : String) : Option Bool :=
  if o == "rel" || o == "acqrel" || o == "sc" then some true
  else if o == "rlx" || o == "acq" then some false else none

/-- parse one 5-token trace event into (tid, event, configuration update).  An RMW event carries the memory
ordering the running code passed to it; the update sets the ordering bit(s) `step` will consult for exactly this
event to that ordering, so visibility (`raced`) is judged with the code's own orderings, call site by call site,
without any table of positions. -/
def parseEv (ws : List String) : Option (Nat × Ev × (Cfg → Cfg)) :=
  match ws with
  | [tid, op, a, b, r] => do
    let i ← tid.toNat?
    if op == "call-lock" then pure (i, .callLock, id)
    else if op == "call-try" then pure (i, .callTry, id)
    else if op == "acq" then pure (i, .acq, id)
    else if op == "rel" then pure (i, .rel, id)
    else if op == "tryfail" then pure (i, .tryfail, id)
    else if op == "data" then pure (i, .data, id)
    else if op == "spur" then pure (i, .spur (r == "eintr"), id)
    -- a weak CAS that did not fail spuriously is the same event as a strong one
    else if op == "cas0" || op == "casw0" then
      if b != "0>1" then none else do
      let so ← (a.splitOn "/").head?
      let acq ← acqOf so
      let upd : Cfg → Cfg := fun c => { c with lockAcq := acq, tryAcq := acq, cas2Acq := acq }
      match stripPrefix? r "ok", stripPrefix? r "fail" with
      | some v, _ => do let v ← v.toNat?; pure (i, .cas true v, upd)
      | _, some v => do let v ← v.toNat?; pure (i, .cas false v, upd)
      | _, _ => none
    else if op == "load0" then do let v ← r.toNat?; pure (i, .load v, id)
    else if op == "swap0" then do
      let n ← b.toNat?; let o ← r.toNat?
      let acq ← acqOf a; let rel ← relOf a
      -- a swap to a locked state is judged as an acquisition, a swap to 0 as the release
      let upd : Cfg → Cfg := fun c => if n == 0 then { c with unlockRel := rel } else { c with swap2Acq := acq }
      pure (i, .swap n o, upd)
    else if op == "fwait0" then do
      let v ← b.toNat?
      if r == "park" then pure (i, .fwait v true, id) else if r == "eagain" then pure (i, .fwait v false, id) else none
    else if op == "fwake0" then do
      let n ← a.toNat?
      if b == "-" then pure (i, .fwake n none, id) else do let j ← b.toNat?; pure (i, .fwake n (some j), id)
    else none
  | _ => none

def allStuck (s : St) : Bool :=
  (List.range s.n).all (fun i => !(enabled (s.ths i))) && (List.range s.n).any (fun i => isParked (s.ths i))

/-- replay; strict = a load must have observed the latest value (the implementation run is sequentially consistent) -/
def replay (c : Cfg) : St → Nat → List (List String) → List Nat → String
  | s, _, [], acqs =>
      let fin := (List.range s.n).all (fun i => finished (s.ths i))
      s!"accept final={s.wval} raced={s.raced} finished={fin} acq={acqs.reverse}"
  | s, k, ev :: rest, acqs =>
      match ev with
      | ["-", "deadlock", _, _, _] =>
          if allStuck s then s!"accept-deadlock at={k} final={s.wval} acq={acqs.reverse}" else s!"reject {k} model-not-deadlocked"
      | _ =>
      match parseEv ev with
      | none => s!"reject {k} unparsable-event {ev}"
      | some (i, e, upd) =>
        let strictOk := match e with
          | .load v => v == s.wval
          | _ => true
        if !strictOk then s!"reject {k} load-not-latest {ev} model-wval={s.wval}" else
        match step (upd c) s i e with
        | none => s!"reject {k} model-thread-would-not-do {ev} model-wval={s.wval}"
        | some s' => replay c s' (k + 1) rest (if e == .acq then i :: acqs else acqs)

/-- `mutex <spin budget> : prog | prog … :: event ; event …`  (orderings come with the events) -/
def stepLine (_ : Unit) (line : String) : Unit × String :=
  let ws := Drv.words line
  match ws with
  | "mutex" :: sp :: ":" :: rest =>
    match sp.toNat? with
    | some sp =>
      let cfg : Cfg := ⟨true, true, true, true, true, sp⟩
      match splitTok "::" rest with
      | [progToks, evToks] =>
        match (splitTok "|" progToks).mapM parseProg with
        | none => ((), "bad-op")
        | some progs =>
          let evs := (splitTok ";" evToks).filter (· ≠ [])
          ((), replay cfg (init progs) 0 evs [])
      | _ => ((), "bad-op")
    | none => ((), "bad-op")
  | _ => ((), "bad-op")

def main : IO Unit := Drv.run stepLine ()
