import TinyVerif.Model.Mutex
import TinyVerif.Drv.Common
open TinyVerif TinyVerif.Mutex

/-- `l<k>` / `t<k>` / `d0` (`{:?}` of the mutex: the library's own try_lock + guard drop = `t0`) -/
def parseTxn (w : String) : Option Txn :=
  match w.toList with
  | 'l' :: r => (String.ofList r).toNat?.map (fun k => ⟨false, k⟩)
  | 't' :: r => (String.ofList r).toNat?.map (fun k => ⟨true, k⟩)
  | ['d', '0'] => some ⟨true, 0⟩
  | _ => none

def parseProg (ws : List String) : Option (List Txn) := ws.mapM parseTxn

/-- split a token list on a separator token -/
def splitTok (sep : String) (ws : List String) : List (List String) :=
  let rec go : List String → List String → List (List String) → List (List String)
    | [], cur, acc => (cur.reverse :: acc).reverse
    | w :: rest, cur, acc => if w == sep then go rest [] (cur.reverse :: acc) else go rest (w :: cur) acc
  go ws [] []

def stripPrefix? (s pre : String) : Option String :=
  if s.startsWith pre then some (s.drop pre.length).toString else none

/-- parse one 5-token trace event into (tid, event, observedLoadValue?) -/
def parseEv (ws : List String) : Option (Nat × Ev) :=
  match ws with
  | [tid, op, a, b, r] => do
    let i ← tid.toNat?
    if op == "call-lock" then pure (i, .callLock)
    else if op == "call-try" then pure (i, .callTry)
    else if op == "acq" then pure (i, .acq)
    else if op == "rel" then pure (i, .rel)
    else if op == "tryfail" then pure (i, .tryfail)
    else if op == "data" then pure (i, .data)
    else if op == "spur" then pure (i, .spur (r == "eintr"))
    else if op == "cas0" then
      if b != "0>1" then none else
      match stripPrefix? r "ok", stripPrefix? r "fail" with
      | some v, _ => do let v ← v.toNat?; pure (i, .cas true v)
      | _, some v => do let v ← v.toNat?; pure (i, .cas false v)
      | _, _ => none
    else if op == "load0" then do let v ← r.toNat?; pure (i, .load v)
    else if op == "swap0" then do let n ← b.toNat?; let o ← r.toNat?; pure (i, .swap n o)
    else if op == "fwait0" then do
      let v ← b.toNat?
      if r == "park" then pure (i, .fwait v true) else if r == "eagain" then pure (i, .fwait v false) else none
    else if op == "fwake0" then do
      let n ← a.toNat?
      if b == "-" then pure (i, .fwake n none) else do let j ← b.toNat?; pure (i, .fwake n (some j))
    else none
  | _ => none

def bit (s : String) : Option Bool := if s == "1" then some true else if s == "0" then some false else none

def allStuck (s : St) : Bool :=
  (List.range s.n).all (fun i => !(enabled (s.ths i))) && (List.range s.n).any (fun i => isParked (s.ths i))

/-- replay; strict = a load must have observed the latest value (the implementation run is sequentially consistent) -/
def replay (c : Cfg) : St → Nat → List (List String) → List Nat → String
  | s, _, [], acqs =>
      let fin := (List.range s.n).all (fun i => finished (s.ths i))
      s!"accept final={s.wval} raced={s.raced} finished={fin} acq={acqs.reverse}"
  | s, k, ev :: rest, acqs =>
      match ev with
      | ["-", "deadlock", _, _, _] =>
          if allStuck s then s!"accept-deadlock at={k} final={s.wval} acq={acqs.reverse}" else s!"reject {k} model-not-deadlocked"
      | _ =>
      match parseEv ev with
      | none => s!"reject {k} unparsable-event {ev}"
      | some (i, e) =>
        let strictOk := match e with
          | .load v => v == s.wval
          | _ => true
        if !strictOk then s!"reject {k} load-not-latest {ev} model-wval={s.wval}" else
        match step c s i e with
        | none => s!"reject {k} model-thread-would-not-do {ev} model-wval={s.wval}"
        | some s' => replay c s' (k + 1) rest (if e == .acq then i :: acqs else acqs)

def stepLine (_ : Unit) (line : String) : Unit × String :=
  let ws := Drv.words line
  match ws with
  | "mutex" :: a :: b :: c :: d :: e :: sp :: ":" :: rest =>
    match bit a, bit b, bit c, bit d, bit e, sp.toNat? with
    | some a, some b, some c, some d, some e, some sp =>
      let cfg : Cfg := ⟨a, b, c, d, e, sp⟩
      match splitTok "::" rest with
      | [progToks, evToks] =>
        match (splitTok "|" progToks).mapM parseProg with
        | none => ((), "bad-op")
        | some progs =>
          let evs := (splitTok ";" evToks).filter (· ≠ [])
          ((), replay cfg (init progs) 0 evs [])
      | _ => ((), "bad-op")
    | _, _, _, _, _, _ => ((), "bad-op")
  | _ => ((), "bad-op")

def main : IO Unit := Drv.run stepLine ()
