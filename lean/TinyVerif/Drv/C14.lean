import TinyVerif.Model.Fs
import TinyVerif.Drv.Common
open TinyVerif TinyVerif.Fs

/-! Line-protocol driver for C14 (protocol: header of /verif/harness/c14/src/main.rs). -/

def ltBytes : List Nat → List Nat → Bool
  | [], [] => false
  | [], _ :: _ => true
  | _ :: _, [] => false
  | a :: r, b :: s => if a < b then true else if b < a then false else ltBytes r s

def leBytes (a b : List Nat) : Bool := !ltBytes b a

partial def dumpNode (name : Name) : Node → List String
  | .dir es =>
    let sorted := es.mergeSort (fun a b => leBytes a.1 b.1)
    ["D" ++ Drv.hex name] ++ (sorted.map (fun e => dumpNode e.1 e.2)).flatten ++ ["U"]
  | .file b => ["F" ++ Drv.hex name ++ ":" ++ Drv.hex b]
  | .symlink t => ["L" ++ Drv.hex name ++ ":" ++ Drv.hex t]
  | .fifo => ["P" ++ Drv.hex name]
  | .special .sock => ["S" ++ Drv.hex name]
  | .special .chr => ["C" ++ Drv.hex name]
  | .special .blk => ["B" ++ Drv.hex name]

def dumpSandbox (st : FS) : String :=
  match getAt st.root st.cwd with
  | some (.dir es) =>
    let sorted := es.mergeSort (fun a b => leBytes a.1 b.1)
    let toks := (sorted.map (fun e => dumpNode e.1 e.2)).flatten
    if toks.isEmpty then "-" else " ".intercalate toks
  | _ => "sandbox-gone"

def validName (n : Name) : Bool :=
  n.length ≥ 1 && n.length ≤ 255 && !n.contains 47 && !n.contains 0 && !isDots n

def splitColon (s : String) : Option (List Nat × List Nat) :=
  match s.splitOn ":" with
  | [a, b] => do let a ← Drv.unhex a; let b ← Drv.unhex b; pure (a, b)
  | _ => none

/-- parse preorder tokens; stack of (name, entries-so-far reversed) -/
partial def parseTree (toks : List String) (stack : List (Name × List (Name × Node))) : Option (List (Name × Node)) :=
  match toks, stack with
  | [], [(_, es)] => some es.reverse
  | [], _ => none
  | t :: rest, (pn, es) :: up =>
    let tag := t.take 1 |>.toString
    let body := t.drop 1 |>.toString
    if tag == "U" && body == "" then
      match up with
      | (gn, ges) :: up' => parseTree rest ((gn, (pn, .dir es.reverse) :: ges) :: up')
      | [] => none
    else if tag == "D" then
      match Drv.unhex body with
      | some n => if validName n then parseTree rest ((n, []) :: (pn, es) :: up) else none
      | none => none
    else if tag == "F" then
      match splitColon body with
      | some (n, c) => if validName n then parseTree rest ((pn, (n, .file c) :: es) :: up) else none
      | none => none
    else if tag == "L" then
      match splitColon body with
      | some (n, c) => if validName n then parseTree rest ((pn, (n, .symlink c) :: es) :: up) else none
      | none => none
    else if tag == "P" || tag == "S" || tag == "C" || tag == "B" then
      let node : Node := if tag == "P" then .fifo else if tag == "S" then .special .sock
        else if tag == "C" then .special .chr else .special .blk
      match Drv.unhex body with
      | some n => if validName n then parseTree rest ((pn, (n, node) :: es) :: up) else none
      | none => none
    else none
  | _ :: _, [] => none

def spine : List Name → Node → Node
  | [], n => n
  | c :: r, n => .dir [(c, spine r n)]

def showE : E → String
  | .os n => toString n
  | .nocode => "nocode"
  | .panic => "panic"
  | .unmodelled => "unmodelled"

def showRes : Out Unit → String
  | .ok () => "ok"
  | .error .unmodelled => "unmodelled"
  | .error .panic => "panic"
  | .error e => "err " ++ showE e

def parseScript (s : Option String) : Option (List Nat) :=
  match s with
  | none => some []
  | some s =>
    if s.startsWith "s" then
      let body := (s.drop 1).toString
      if body == "" then some [] else (body.splitOn ",").mapM (fun x => x.toNat?)
    else none

def parseRecs (s : String) : Option (List Rec) :=
  (s.splitOn ",").mapM (fun x =>
    match x.splitOn ":" with
    | [t, n] =>
      if t.startsWith "t" then do
        let t ← (t.drop 1).toString.toNat?
        let n ← Drv.unhex n
        pure (⟨0, 0, t, n⟩ : Rec)
      else none
    | _ => none)

def showRec (t : Nat) (n : Name) : String := "t" ++ toString t ++ ":" ++ Drv.hex n

def commaOr (xs : List String) : String := if xs.isEmpty then "-" else ",".intercalate xs

def showItemErr : E → String
  | .os n => "-" ++ toString n
  | e => showE e

/-- drain the ReadDir mirror up to its first `None` / `Err` / panic, recording the getdents64 return values it sees:
(how it ended, calls, yields, state afterwards) -/
partial def drain (s : ReadDir) (calls : List String) (ys : List (Nat × Name)) :
    String × List String × List (Nat × Name) × ReadDir :=
  let willCall := s.readSize == s.offset && !s.eod
  let (s', it) := s.next
  match it with
  | .done => ("ok", if willCall then calls ++ ["0"] else calls, ys, s')
  | .err e => ("err " ++ showE e, if willCall then calls ++ [showItemErr e] else calls, ys, s')
  | .panic => ("panic", calls, ys, s')
  | .entry t n =>
    let calls' := if willCall then calls ++ [toString s'.readSize] else calls
    drain s' calls' (ys ++ [(t, n)])

def sameRecSet (a b : List Rec) : Bool :=
  let key (r : Rec) := r.dtype :: r.name
  let sa := (a.map key).mergeSort leBytes
  let sb := (b.map key).mergeSort leBytes
  sa == sb

def showYields (recs : List Rec) (calls : List String) (ys : List (Nat × Name)) : String :=
  s!"recs={commaOr (recs.map (fun r => showRec r.dtype r.name))} reclens={commaOr (recs.map (fun r => toString (reclen r)))} calls={commaOr calls} yields={commaOr (ys.map (fun y => showRec y.1 y.2))} rel={if ys.isEmpty then "-" else String.join (ys.map (fun y => if isRelRef y.2 then "1" else "0"))}"

/-- open the directory the way `Directory::open` does and hand its records to `k` -/
def withDir (exact : Bool) (st : FS) (p : Bytes) (recs : List Rec) (k : Unit → String) : String :=
  match openat st p (O_CLOEXEC ||| O_RDONLY) with
  | (_, .error .unmodelled) => "unmodelled"
  | (_, .error e) => "err " ++ showE e
  | (st0, .ok h) =>
    match getAt st0.root h.loc with
    | some (.dir es) => if !sameRecSet (dirRecsOn exact es) recs then "model-dir-mismatch" else k ()
    | some _ => "err 20"
    | none => "unmodelled"

/-- the kernel's own split of the stream -/
def opReaddir (exact : Bool) (st : FS) (p : Bytes) (recs : List Rec) : String :=
  withDir exact st p recs fun _ =>
    let (res, calls, ys, _) := drain (ReadDir.new (kernelDents 512 recs.length recs)) [] []
    if res != "ok" then res else "ok " ++ showYields recs calls ys

/-- split script `g<item>,<item>,…`: `<n>` = the next n records in one answer, `z` = the answer 0, `e<errno>` -/
def parseSplit (s : String) (recs : List Rec) : Option (List Dents) :=
  if !s.startsWith "g" then none
  else
    let body := (s.drop 1).toString
    if body == "" then some []
    else
      let rec go : List String → List Rec → Option (List Dents)
        | [], _ => some []
        | x :: xs, left =>
          if x == "z" then (go xs left).map (Dents.eod :: ·)
          else if x.startsWith "e" then
            match (x.drop 1).toString.toNat? with
            | some e => if e ≥ 1 ∧ e ≤ 4095 then (go xs left).map (Dents.err e :: ·) else none
            | none => none
          else match x.toNat? with
            | some n => (go xs (left.drop n)).map (Dents.recs (left.take n) :: ·)
            | none => none
      go (body.splitOn ",") recs

def showItem : Item → String
  | .done => "d"
  | .err e => "e" ++ showE e
  | .panic => "p"
  | .entry _ _ => "y"

/-- the iterator over a scripted split; after its first `None`/`Err` three more `next` calls -/
def opReaddirSplit (exact : Bool) (st : FS) (p : Bytes) (recs : List Rec) (answers : List Dents) : String :=
  withDir exact st p recs fun _ =>
    let (res, calls, ys, s') := drain (ReadDir.new answers) [] []
    if res == "panic" then res
    else
      let fin := if res == "ok" then "done" else res.replace " " ":"
      "ok " ++ showYields recs calls ys ++ " end=" ++ fin ++ " more=" ++ ",".intercalate ((s'.run 3).map showItem)

def parseOpts (s : String) : Option Opts :=
  match s.toList.map (fun c => c == '1') with
  | [r, w, a, t, c, n] => if s.toList.all (fun c => c == '0' || c == '1') then some ⟨r, w, a, t, c, n⟩ else none
  | _ => none

def withDump (st : FS) (res : String) : String := res ++ " | " ++ dumpSandbox st

/-- `exact` = the file system under the sandbox fills in `d_type` (false: `drv_c14 --dtype-unknown`) -/
def step (exact : Bool) (s : Option FS) (line : String) : Option FS × String :=
  match Drv.words line, s with
  | ["init", p], _ =>
    match Drv.unhex p with
    | some p =>
      if p.head? == some 47 then
        let cs := comps p
        (some ⟨spine cs (.dir []), cs⟩, "ok")
      else (s, "bad-op")
    | none => (s, "bad-op")
  | ["end"], _ => (none, "ok")
  | "tree" :: toks, some st =>
    match parseTree toks [([], [])] with
    | some es =>
      let st' : FS := { st with root := setAt st.root st.cwd (some (.dir es)) }
      (some st', withDump st' "ok")
    | none => (s, "bad-op")
  | "write" :: p :: d :: rest, some st =>
    match Drv.unhex p, Drv.unhex d, parseScript rest.head?, decide (rest.length ≤ 1) with
    | some p, some d, some sc, true =>
      let (st', r) := fsWrite st p d sc
      let res := match r with
        | .ok () => (match fsRead st' p with
          | .ok b => "ok read=" ++ Drv.hex b
          | .error .unmodelled => "unmodelled"
          | .error e => "ok readerr=" ++ showE e)
        | _ => showRes r
      (some st', withDump st' res)
    | _, _, _, _ => (s, "bad-op")
  | ["read", p], some st =>
    match Drv.unhex p with
    | some p =>
      let res := match fsRead st p with
        | .ok b => "ok " ++ Drv.hex b
        | .error .unmodelled => "unmodelled"
        | .error e => "err " ++ showE e
      (s, withDump st res)
    | none => (s, "bad-op")
  | ["meta", p], some st =>
    match Drv.unhex p with
    | some p =>
      let b01 (b : Bool) := if b then "1" else "0"
      let m := match fsMetadata st p with
        | .ok (d, f, l, len) => s!"ok dfl={b01 d}{b01 f}{b01 l} len={match len with | some n => toString n | none => "-"}"
        | .error .unmodelled => "unmodelled"
        | .error e => "err " ++ showE e
      let ex := match fsExists st p with
        | .ok b => b01 b
        | .error .unmodelled => "unmodelled"
        | .error e => "err:" ++ showE e
      (s, withDump st (if m == "unmodelled" || ex == "unmodelled" then "unmodelled" else m ++ " ex=" ++ ex))
    | none => (s, "bad-op")
  | "copy" :: a :: b :: rest, some st =>
    match Drv.unhex a, Drv.unhex b, parseScript rest.head?, decide (rest.length ≤ 1) with
    | some a, some b, some sc, true =>
      let (st', r) := copyFile st a b sc
      (some st', withDump st' (showRes r))
    | _, _, _, _ => (s, "bad-op")
  | "copyold" :: a :: b :: rest, some st =>
    match Drv.unhex a, Drv.unhex b, parseScript rest.head? with
    | some a, some b, some sc =>
      let (st', r) := copyFileOld st a b sc
      (some st', withDump st' (showRes r))
    | _, _, _ => (s, "bad-op")
  | ["mkdirall", p], some st =>
    match Drv.unhex p with
    | some p =>
      let (st', r) := createDirAll st p
      (some st', withDump st' (showRes r))
    | none => (s, "bad-op")
  | ["mkdirallold", p], some st =>
    match Drv.unhex p with
    | some p =>
      let (st', r) := createDirAllOld st p
      (some st', withDump st' (showRes r))
    | none => (s, "bad-op")
  | ["rmall", p], some st =>
    match Drv.unhex p with
    | some p =>
      let (st', r) := removeDirAllOn exact st p
      (some st', withDump st' (showRes r))
    | none => (s, "bad-op")
  | ["readdir", p, recs], some st =>
    match Drv.unhex p, parseRecs recs with
    | some p, some recs => (s, withDump st (opReaddir exact st p recs))
    | _, _ => (s, "bad-op")
  | ["readdirs", p, recs, split], some st =>
    match Drv.unhex p, parseRecs recs with
    | some p, some recs =>
      match parseSplit split recs with
      | some answers => (s, withDump st (opReaddirSplit exact st p recs answers))
      | none => (s, "bad-op")
    | _, _ => (s, "bad-op")
  | ["opts", bits], _ =>
    match parseOpts bits with
    | some o => (s, match openFlags o 0 with | some f => s!"flags {f}" | none => "badopts")
    | none => (s, "bad-op")
  | _, _ => (s, "bad-op")

def main (args : List String) : IO Unit := Drv.run (step (!args.contains "--dtype-unknown")) none
