/-
C09 — the property's own definitions (import-free apart from the model): the kernel's error range, the decode the
statement demands, which clause applies to which skeleton, and `Spec` (the property for one wrapper, for every
stream of kernel results).  Theorems are in Props/C09.lean, helper lemmas in Proofs/WrapLemmas.lean.
-/
import TinyVerif.Model.Wrap
namespace TinyVerif.Wrap

/-- `−EBUSY` as a 64-bit register -/
abbrev NEG_EBUSY : Nat := 18446744073709551600

/-- the register, read as `i64`, lies in the kernel's error range −4095..−1 -/
def InErrRange (r : Nat) : Prop := -4095 ≤ castTo .i64 r ∧ castTo .i64 r ≤ -1

instance (r : Nat) : Decidable (InErrRange r) := inferInstanceAs (Decidable (_ ∧ _))

/-- what the property demands of one decoded kernel result `r` for a wrapper whose success projection is `p` -/
def decodeStd (p : Proj) (r : Nat) : Outcome :=
  if TWO64 - 4095 ≤ r then .err ((TWO64 : Int) - (r : Int)) else .ok (projPay p r)

/-- which clause of the property applies, read off the skeleton -/
inductive Class where
  | once (p : Proj)        -- ordinary wrapper with a `Result`
  | retryEBUSY (p : Proj)  -- dup: re-issue while −EBUSY
  | errOnly                -- execve: returns only on failure (kernel contract)
  | noResult               -- no `Result` in the signature: outside the decode clause, still one call
  | unknown

def classOf : Skel → Class
  | .bail p => .once p
  | .coerceFd => .once (.cast .i32)
  | .retryIfEq _ _ (.bail p) => .retryEBUSY p
  | .retryIfEq _ _ .coerceFd => .retryEBUSY (.cast .i32)
  | .retryIfEq _ _ _ => .unknown
  | .errAlways _ => .errOnly
  | .retRaw _ => .noResult
  | .ignored => .noResult
  | .noRet => .noResult
  | .custom _ => .unknown

/-- **C09 for one wrapper**, for every stream `kr` of kernel results (each a 64-bit register) -/
def Spec (c : Cfg) (k : Skel) : Prop :=
  match classOf k with
  | .once p => ∀ kr : Nat → Nat, (∀ i, kr i < TWO64) → run c k kr = (decodeStd p (kr 0), 1)
  | .retryEBUSY p => ∀ (kr : Nat → Nat) (n : Nat), (∀ i, kr i < TWO64) → n < FUEL →
      (∀ i, i < n → kr i = NEG_EBUSY) → kr n ≠ NEG_EBUSY → run c k kr = (decodeStd p (kr n), n + 1)
  | .errOnly => ∀ kr : Nat → Nat, (∀ i, kr i < TWO64) →
      (run c k kr).2 = 1 ∧ (InErrRange (kr 0) → (run c k kr).1 = .err ((TWO64 : Int) - (kr 0 : Int)))
  | .noResult => ∀ kr : Nat → Nat, (run c k kr).2 = 1
  | .unknown => False

end TinyVerif.Wrap
