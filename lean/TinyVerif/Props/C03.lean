/-
C03 — Allocator: live blocks aligned, disjoint, intact; OOM gives null, heap stays usable.

Objects: `Model/Dlmalloc.lean` (address-explicit chunk-level model of
tiny-std/src/allocator/dlmalloc.rs, tied to the code by the layout-equality correspondence of
checks/c03.py), its pure helpers `Gen/DlmallocPure.lean` (regenerated from the Rust text on every
run), the well-formedness predicate `WF` (`Model/DlmallocWF.lean`: tiling of every segment,
boundary tags, no adjacent free chunks, free chunks = bins ⊎ {dv} ⊎ {top}, bins indexed by size,
tries following the size bits, live blocks ↔ in-use non-record non-fencepost chunks).

Quantifiers: every history of malloc / calloc / realloc / free over named blocks, every size and
alignment, every sequence of OS answers (any address, refusal at any position).

PROVED IN FULL (no well-formedness hypothesis):
  * pure index lemmas (§1)                      — about the regenerated definitions
  * `oom_null`                                   — a refused mmap ⇒ null result, allocator state and
                                                   live set exactly unchanged (so every later request
                                                   behaves as if the refused call had not happened)
  * `wf_step_refused`                            — `wf_step` for every operation during which the OS
                                                   refused memory
  * `free_never_asks_for_memory`, `realloc_copy` — glue facts of the entry points
  * `wf_init`
PROVED FROM `WF` OF THE STATE BEFORE THE CALL (genuine step theorems, all alignments, with or
without an OS call, under the mmap contract `OsContract` for the answer received):
  * `alloc_fresh_from_pre`, `calloc_fresh_from_pre`, `realloc_fresh_from_pre` (moving case) — the new block is carved from a chunk that was
    free and large enough (small bin / tree bin / dv / top) or from the mapping just served, and for
    over-aligned requests lies inside the chunk obtained for the padded request; so it overlaps no
    previously live block
PROVED FROM `WF` OF A STATE:
  * `wf_live_aligned_sized`, `wf_live_disjoint`, `wf_live_inside_segment`, `never_mmapped`,
    `metadata_outside_live_blocks`, `no_adjacent_free_chunks`, `free_chunks_accounted`,
    `inuse_chunks_accounted`
  * `alloc_ok_partial`, `calloc_ok_partial`, `realloc_ok_partial`, `free_ok_partial`: post-conditions
    of one operation given `WF` of the state it produced.
INDUCTIVENESS (round 3, `Props/C03Ind.lean`): `WF` alone is NOT inductive (kernel-checked counterexamples in
  `Proofs/DlIndCex.lean`); the strengthened invariant `Inv2` (WF + RecsOk + FenceOk + TailOk + HeadOk + RecIn +
  unique ids + power-of-two alignments) IS: `inv_step`, `wf_step`, `inv_reachable`, `wf_reachable`, and the FULL
  `alloc_ok`, `calloc_ok`, `realloc_ok`, `free_ok` from the invariant of the state BEFORE the call.
  User bytes are not modelled: "a block's bytes change only through its owner" is the static
  `metadata_outside_live_blocks` here plus the byte-pattern oracle of the harness on the real code.
-/
import TinyVerif.Proofs.DlPure
import TinyVerif.Proofs.DlWF
import TinyVerif.Proofs.DlFresh
namespace TinyVerif.Dl

/-! ## 1. pure_index_lemmas — about `Gen/DlmallocPure.lean` (re-checked against the Rust text on every run) -/

/-- small bins: the size class of an aligned small size is exact -/
theorem small_index_exact (s : Nat) (h8 : s % 8 = 0) (h : s < 256) :
    small_index2size (small_index s) = s ∧ small_index s < 32 ∧ is_small s = true :=
  ⟨small_index_roundtrip s h8 h, small_index_lt s h, (is_small_iff s).2 h⟩

example : small_index2size (small_index 248) = 248 ∧ small_index 248 < 32 ∧ is_small 248 = true :=
  small_index_exact 248 (by decide) (by decide)

/-- tree bins: every large size falls into exactly the bin whose size bracket contains it -/
theorem tree_index_exact (s : Nat) (h1 : 256 ≤ s) :
    compute_tree_index s < 32 ∧ is_small s = false ∧
    (s < 2 ^ 24 → min_size_for_tree_index (compute_tree_index s) ≤ s ∧
                   s < min_size_for_tree_index (compute_tree_index s + 1)) ∧
    (2 ^ 24 ≤ s → compute_tree_index s = 31) := by
  refine ⟨compute_tree_index_lt s, ?_, fun h2 => tree_index_bracket s h1 h2, compute_tree_index_big s⟩
  cases hs : is_small s with
  | false => rfl
  | true => have := (is_small_iff s).1 hs; omega

example : compute_tree_index 384 < 32 ∧ min_size_for_tree_index (compute_tree_index 384) ≤ 384 :=
  ⟨(tree_index_exact 384 (by decide)).1, ((tree_index_exact 384 (by decide)).2.2.1 (by decide)).1⟩

/-- request padding: monotone, leaves room for the header word, 16-aligned, at least
MIN_CHUNK_SIZE, and free of overflow for every request below MAX_REQUEST -/
theorem request2size_facts (r : Nat) (h : r < MAX_REQUEST) :
    32 ≤ request2size r ∧ r + 8 ≤ request2size r ∧ request2size r < r + 33 ∧ request2size r % 16 = 0 ∧
    request2size r + top_foot_size + MALLOC_ALIGNMENT + DEFAULT_GRANULARITY ≤ 2 ^ 64 ∧
    (∀ r', r' ≤ r → request2size r' ≤ request2size r) := by
  have h24 := lt_max_request_no_overflow r h
  exact ⟨request2size_ge_min r h24, request2size_ge r h24, request2size_lt r h24, request2size_aligned r h24,
    (request2size_lt_max r h).2, fun r' hr => request2size_mono r' r hr h24⟩

example : (100 : Nat) < MAX_REQUEST := by decide

/-- the bitmap tricks of the bin search: `left_bits (1 << i)` selects exactly the bins above `i`,
`least_bit` isolates the lowest set bit -/
theorem bitmap_tricks (i : Nat) (hi : i < 32) (x : Nat) (h0 : x ≠ 0) (hx : x < 2 ^ 32) :
    (∀ j, (left_bits (2 ^ i)).testBit j = (decide (i < j) && decide (j < 32))) ∧
    (∃ k, k < 32 ∧ least_bit x = 2 ^ k ∧ x.testBit k = true ∧ ∀ j < k, x.testBit j = false) ∧
    trailing_zeros32 (2 ^ i) = i :=
  ⟨fun j => left_bits_pow_testBit i j hi, least_bit_testBit x h0 hx, trailing_zeros32_pow i hi⟩

example : (5 : Nat) < 32 ∧ (40 : Nat) ≠ 0 ∧ (40 : Nat) < 2 ^ 32 := by decide

/-! ## 2. well-formedness: initial state, and what it gives for live blocks -/

theorem wf_initial : WF Hist.init := wf_init

/-- alignment and size: a live block is aligned as requested and lies inside the payload of an
in-use chunk whose header sits 16 bytes before it -/
theorem wf_live_aligned_sized (hs : Hist) (h : WF hs) (b : Block) (hb : b ∈ hs.live) :
    b.ptr % b.align = 0 ∧
    ∃ e ∈ hs.st.h.ents, e.addr + 16 = b.ptr ∧ e.cin = true ∧ b.ptr + b.size ≤ e.addr + e.size + 8 :=
  live_aligned_sized h hb

/-- disjointness: live blocks at different addresses do not overlap; different live blocks are at
different addresses -/
theorem wf_live_disjoint (hs : Hist) (h : WF hs) :
    (∀ b1 ∈ hs.live, ∀ b2 ∈ hs.live, b1.ptr ≠ b2.ptr →
      b1.ptr + b1.size ≤ b2.ptr ∨ b2.ptr + b2.size ≤ b1.ptr) ∧
    (∀ pre mid post b1 b2, hs.live = pre ++ b1 :: mid ++ b2 :: post → b1.ptr ≠ b2.ptr) :=
  ⟨fun _ h1 _ h2 hne => live_disjoint h h1 h2 hne, fun pre mid post b1 b2 hl => live_ptrs_distinct h pre mid post b1 b2 hl⟩

/-- bounds: a live block lies inside one segment obtained from the OS -/
theorem wf_live_inside_segment (hs : Hist) (h : WF hs) (b : Block) (hb : b ∈ hs.live) :
    ∃ g ∈ hs.st.segs, g.base + 16 ≤ b.ptr ∧ b.ptr + b.size ≤ g.base + g.size :=
  live_inside_segment h hb

/-- the direct-mmap path is dead: `Chunk::mmapped` is false for the chunk of every live block -/
theorem never_mmapped_live (hs : Hist) (h : WF hs) (b : Block) (hb : b ∈ hs.live) :
    ∃ e, findEnt hs.st.h.ents (b.ptr - 16) = some e ∧ e.mmapped = false :=
  never_mmapped h hb

/-- owner-only writes, static form: no header word and no part of a free chunk beyond its
prev_foot word lies inside a live block -/
theorem metadata_outside_live_blocks (hs : Hist) (h : WF hs) (b : Block) (hb : b ∈ hs.live) (x : Ent)
    (hx : x ∈ hs.st.h.ents) :
    (x.addr + 16 ≤ b.ptr ∨ b.ptr + b.size ≤ x.addr + 8) ∧
    (isFree x = true → x.addr + x.size ≤ b.ptr ∨ b.ptr + b.size ≤ x.addr + 8) :=
  metadata_outside_live h hb hx

/-- no two adjacent free chunks (full coalescing): inside a segment a free chunk other than `top` is
followed by an in-use chunk carrying its size as prev_foot -/
theorem no_adjacent_free_chunks (hs : Hist) (h : WF hs) (g : Seg) (hg : g ∈ hs.st.segs)
    (pre post : List Ent) (x y : Ent) (hsplit : segEnts hs.st.h.ents g = pre ++ x :: y :: post)
    (hf : isFree x = true) (hne : x.addr ≠ hs.st.h.top) : y.cin = true ∧ y.pfoot = x.size := by
  have ht := h.parts.tags
  simp only [List.all_eq_true] at ht
  have := ht g hg
  rw [hsplit] at this
  exact tagsOk_adjacent this hf hne

/-- free chunks = bins ⊎ {dv} ⊎ {top} -/
theorem free_chunks_accounted (hs : Hist) (h : WF hs) (e : Ent) (he : e ∈ hs.st.h.ents) (hf : isFree e = true) :
    e.addr = hs.st.h.top ∨ e.addr = hs.st.h.dv ∨ e.addr ∈ binned hs.st.h :=
  free_accounted h he hf

/-- in-use chunks = live blocks ⊎ segment records ⊎ fenceposts; with nothing live only the
segment trailers remain in use (quiescent heap) -/
theorem inuse_chunks_accounted (hs : Hist) (h : WF hs) (e : Ent) (he : e ∈ hs.st.h.ents) (hc : e.cin = true) :
    (e.size = 8 ∨ isRecord hs.st.segs e = true ∨ ∃ b ∈ hs.live, b.ptr = e.addr + 16) ∧
    (hs.live = [] → e.size = 8 ∨ isRecord hs.st.segs e = true) :=
  ⟨inuse_accounted h he hc, fun hq => quiescent_canonical h hq he hc⟩

/-! ## 3. one operation -/

/-- the post-condition of an allocation for a new block `nb`, relative to the blocks live before -/
def AllocPost (hs' : Hist) (old : List Block) (nb : Block) : Prop :=
  hs'.live = nb :: old ∧ nb.ptr % nb.align = 0 ∧
  (∃ g ∈ hs'.st.segs, g.base + 16 ≤ nb.ptr ∧ nb.ptr + nb.size ≤ g.base + g.size) ∧
  (∀ b ∈ old, b.ptr ≠ nb.ptr ∧ (nb.ptr + nb.size ≤ b.ptr ∨ b.ptr + b.size ≤ nb.ptr))

theorem allocPost_of_wf {hs' : Hist} {old : List Block} {nb : Block} (hwf : WF hs') (hl : hs'.live = nb :: old) :
    AllocPost hs' old nb := by
  have hmem : nb ∈ hs'.live := by rw [hl]; exact List.mem_cons_self
  refine ⟨hl, (live_aligned_sized hwf hmem).1, live_inside_segment hwf hmem, fun b hb => ?_⟩
  obtain ⟨pre, post, hsplit⟩ := List.append_of_mem hb
  have hne : nb.ptr ≠ b.ptr :=
    live_ptrs_distinct hwf [] pre post nb b (by rw [hl, hsplit]; simp)
  have hb' : b ∈ hs'.live := by rw [hl]; exact List.mem_cons_of_mem _ hb
  exact ⟨fun h => hne h.symm, live_disjoint hwf hmem hb' hne⟩

/-- **alloc_ok** (partial: `WF` of the produced state is a hypothesis): a non-null `malloc` result is
aligned as requested, designates `size` bytes inside one segment, was not live before and overlaps
no other live block; the live set grows by exactly this block -/
theorem alloc_ok_partial (hs hs' : Hist) (id size align : Nat) (os : List OsDir) (out : Out)
    (h : hs.step (.malloc id size align) os = .ok (hs', out)) (hp : out.ptr ≠ 0) (hwf : WF hs') :
    AllocPost hs' hs.live { id := id, ptr := out.ptr, size := size, align := align } := by
  have := (step_malloc_live h).2
  rw [if_pos hp] at this
  exact allocPost_of_wf hwf this

/-- **calloc_ok** (partial): as `alloc_ok`, and the `size` bytes are zeroed by the call -/
theorem calloc_ok_partial (hs hs' : Hist) (id size align : Nat) (os : List OsDir) (out : Out)
    (h : hs.step (.calloc id size align) os = .ok (hs', out)) (hp : out.ptr ≠ 0) (hwf : WF hs') :
    AllocPost hs' hs.live { id := id, ptr := out.ptr, size := size, align := align } ∧ out.zeroed = true := by
  have hl := (step_calloc_live h).2
  rw [if_pos hp] at hl
  refine ⟨allocPost_of_wf hwf hl, ?_⟩
  -- zeroing happens unless the chunk is a direct-mmap chunk, which it is not
  have hmem : ({ id := id, ptr := out.ptr, size := size, align := align } : Block) ∈ hs'.live := by
    rw [hl]; exact List.mem_cons_self
  obtain ⟨e, he, hc, _⟩ := live_block hwf hmem
  unfold Hist.step at h
  dsimp only at h
  msimp at h
  obtain ⟨_, _, ⟨s1, p, z⟩, hm, _, _, h⟩ := h
  simp only [Prod.mk.injEq] at h
  obtain ⟨h1, h2⟩ := h
  subst h1; subst h2
  obtain ⟨e', he', hz⟩ := calloc_zeroed hm hp
  rw [MEM_OFFSET_eq] at he'
  simp only at he
  rw [he] at he'
  injection he' with he'
  subst he'
  simp [hz, Ent.mmapped, hc]

/-- **realloc_ok** (partial): a successful reallocation yields a block of the new size with all the
properties of a fresh allocation relative to the *other* live blocks; it either stays at its address
without any copy, or exactly one copy from the old to the new block is made (never longer than the
new size; exactly `min old new` bytes on the over-aligned path) before the old block is freed -/
theorem realloc_ok_partial (hs hs' : Hist) (id newsize : Nat) (os : List OsDir) (out : Out)
    (h : hs.step (.realloc id newsize) os = .ok (hs', out)) (hp : out.ptr ≠ 0) (hwf : WF hs') :
    ∃ b, findBlock hs.live id = some b ∧
      AllocPost hs' (hs.live.filter fun x => x.id ≠ id) { b with ptr := out.ptr, size := newsize } ∧
      ((out.copy = none ∧ out.ptr = b.ptr) ∨
       ∃ len, out.copy = some { src := b.ptr, dst := out.ptr, len := len } ∧ len ≤ newsize ∧
         (b.align > MALLOC_ALIGNMENT → len = min b.size newsize)) := by
  obtain ⟨b, hb, hl⟩ := step_realloc_live h
  rw [if_pos hp] at hl
  refine ⟨b, hb, allocPost_of_wf hwf hl, ?_⟩
  unfold Hist.step at h
  dsimp only at h
  rw [hb] at h
  dsimp only at h
  msimp at h
  obtain ⟨⟨s1, p, c⟩, hm, _, _, h⟩ := h
  simp only [Prod.mk.injEq] at h
  obtain ⟨h1, h2⟩ := h
  subst h1; subst h2
  exact realloc_copy hm hp

/-- **free_ok**: `free` removes exactly the named block from the live set; (with `WF` of the produced
state every remaining block keeps all guarantees of §2) -/
theorem free_ok_partial (hs hs' : Hist) (id : Nat) (os : List OsDir) (out : Out)
    (h : hs.step (.free id) os = .ok (hs', out)) :
    ∃ b, findBlock hs.live id = some b ∧ hs'.live = hs.live.filter (fun x => x.id ≠ id) ∧
      (WF hs' → ∀ b1 ∈ hs'.live, ∀ b2 ∈ hs'.live, b1.ptr ≠ b2.ptr →
        b1.ptr + b1.size ≤ b2.ptr ∨ b2.ptr + b2.size ≤ b1.ptr) := by
  obtain ⟨b, hb, hl⟩ := step_free_live h
  exact ⟨b, hb, hl, fun hwf _ h1 _ h2 hne => live_disjoint hwf h1 h2 hne⟩

/-- the mmap contract for the answers one operation receives: if the first answer serves a mapping,
that mapping (of the size `sys_alloc` asks for) is 16-aligned, not null, inside the address space and
disjoint from every segment the allocator holds -/
def OsContract (hs : Hist) (os : List OsDir) (size align : Nat) : Prop :=
  ∀ tbase q, os = .m (some tbase) :: q → OsFresh hs.st tbase (mapSize (reqOf size align))

/-- **alloc_fresh** — a step theorem from `WF` of the state BEFORE the call, for every alignment
2^k and whether or not the OS is asked: the block returned by `malloc` is carved out of a chunk that
was free (taken from a small bin, a tree bin, `dv` or `top`, at least as large as the padded request),
or out of the mapping the OS just served (possibly starting in the old `top` it extends), and for an
over-aligned request lies inside the chunk obtained for the padded request — hence it overlaps no
block that was live. -/
theorem alloc_fresh_from_pre (hs hs' : Hist) (hwf : WF hs) (id size k : Nat) (os : List OsDir) (out : Out)
    (h : hs.step (.malloc id size (2 ^ k)) os = .ok (hs', out)) (hk : k ≤ 32)
    (hp : out.ptr ≠ 0) (hsz : 0 < size) (hmax : size < MAX_REQUEST) (hos : OsContract hs os size (2 ^ k)) :
    ∀ b ∈ hs.live, out.ptr + size ≤ b.ptr ∨ b.ptr + b.size ≤ out.ptr := by
  unfold Hist.step at h
  dsimp only at h
  msimp at h
  obtain ⟨_, _, ⟨s1, p⟩, hm, _, _, h⟩ := h
  simp only [Prod.mk.injEq] at h
  obtain ⟨h1, h2⟩ := h
  subst h1; subst h2
  exact malloc_fresh hwf (s := hs.start os) ⟨rfl, rfl, rfl, rfl, rfl, rfl, rfl⟩ rfl hk hm hp hsz hmax hos

/-- the same for `calloc` -/
theorem calloc_fresh_from_pre (hs hs' : Hist) (hwf : WF hs) (id size k : Nat) (os : List OsDir) (out : Out)
    (h : hs.step (.calloc id size (2 ^ k)) os = .ok (hs', out)) (hk : k ≤ 32)
    (hp : out.ptr ≠ 0) (hsz : 0 < size) (hmax : size < MAX_REQUEST) (hos : OsContract hs os size (2 ^ k)) :
    ∀ b ∈ hs.live, out.ptr + size ≤ b.ptr ∨ b.ptr + b.size ≤ out.ptr := by
  unfold Hist.step at h
  dsimp only at h
  msimp at h
  obtain ⟨_, _, ⟨s1, p, z⟩, hm, _, _, h⟩ := h
  simp only [Prod.mk.injEq] at h
  obtain ⟨h1, h2⟩ := h
  subst h1; subst h2
  unfold calloc at hm
  msimp at hm
  obtain ⟨⟨s2, p2⟩, hmal, hm⟩ := hm
  dsimp only at hm
  split at hm
  · rename_i hp2
    msimp at hm
    mlast hm
    simp only [Prod.mk.injEq] at hm
    obtain ⟨_, hpp, _⟩ := hm
    subst hpp
    exact malloc_fresh hwf (s := hs.start os) ⟨rfl, rfl, rfl, rfl, rfl, rfl, rfl⟩ rfl hk hmal hp2 hsz hmax hos
  · msimp at hm
    simp only [Prod.mk.injEq] at hm
    exact absurd hm.2.1.symm hp

/-- **realloc_fresh** — from `WF` of the state BEFORE the call: when a reallocation moves the block
(a copy is made), the new block overlaps no block that was live before the call — including the
old block, which is freed only after the copy -/
theorem realloc_fresh_from_pre (hs hs' : Hist) (hwf : WF hs) (id newsize k : Nat) (os : List OsDir) (out : Out) (b : Block)
    (hb : findBlock hs.live id = some b) (hal : b.align = 2 ^ k) (hk : k ≤ 32)
    (h : hs.step (.realloc id newsize) os = .ok (hs', out))
    (hp : out.ptr ≠ 0) (hmoved : out.copy ≠ none) (hsz : 0 < newsize) (hmax : newsize < MAX_REQUEST)
    (hos : OsContract hs os newsize (2 ^ k)) :
    ∀ b' ∈ hs.live, out.ptr + newsize ≤ b'.ptr ∨ b'.ptr + b'.size ≤ out.ptr := by
  unfold Hist.step at h
  dsimp only at h
  rw [hb] at h
  dsimp only at h
  msimp at h
  obtain ⟨⟨s1, p, c⟩, hm, _, _, h⟩ := h
  simp only [Prod.mk.injEq] at h
  obtain ⟨h1, h2⟩ := h
  subst h1; subst h2
  simp only at hp hmoved
  unfold realloc at hm
  rw [hal] at hm
  split at hm
  · rename_i hle
    -- ordinary alignment: try in place, else inner_malloc + copy + free
    unfold OsContract reqOf at hos
    rw [if_pos hle] at hos
    unfold inner_realloc at hm
    split at hm
    · msimp at hm
      simp only [Prod.mk.injEq] at hm
      exact absurd hm.2.1.symm hp
    · dsimp only at hm
      msimp at hm
      obtain ⟨_, _, r, hr, hm⟩ := hm
      split at hm
      · msimp at hm
        simp only [Prod.mk.injEq] at hm
        exact absurd hm.2.2.symm hmoved
      · msimp at hm
        obtain ⟨⟨s2, p2⟩, him, hm⟩ := hm
        dsimp only at hm
        split at hm
        · rename_i hp2
          msimp at hm
          obtain ⟨e, _, _, _, _, _, s3, hf, hm⟩ := hm
          simp only [Prod.mk.injEq] at hm
          obtain ⟨_, hpp, _⟩ := hm
          subst hpp
          exact (inner_malloc_fresh_all hwf (s := (hs.start os).tag "realloc-move") ⟨rfl, rfl, rfl, rfl, rfl, rfl, rfl⟩ rfl
            him hp2 hsz hmax hos).2.2
        · msimp at hm
          simp only [Prod.mk.injEq] at hm
          exact absurd hm.2.1.symm hp
  · -- over-aligned: malloc + copy + free
    msimp at hm
    obtain ⟨⟨s2, p2⟩, hmal, hm⟩ := hm
    dsimp only at hm
    split at hm
    · rename_i hp2
      msimp at hm
      obtain ⟨s3, hf, hm⟩ := hm
      simp only [Prod.mk.injEq] at hm
      obtain ⟨_, hpp, _⟩ := hm
      subst hpp
      exact malloc_fresh hwf (s := (hs.start os).tag "realloc-overaligned") ⟨rfl, rfl, rfl, rfl, rfl, rfl, rfl⟩ rfl hk
        hmal hp2 hsz hmax hos
    · msimp at hm
      simp only [Prod.mk.injEq] at hm
      exact absurd hm.2.1.symm hp

/-- **oom_null** (full): if the OS refused an mmap during an operation, the operation returned null,
the allocator's state is exactly what it was before the call and the set of live blocks is
unchanged — nothing is lost, and every later operation behaves as if the refused call had never
been made (in particular a later request that fits is served: `Props/C04.reuse_without_os`). -/
theorem oom_null (hs hs' : Hist) (op : Op) (os : List OsDir) (out : Out)
    (h : hs.step op os = .ok (hs', out)) (hr : refused hs'.st.evs = true) :
    out.ptr = 0 ∧ hs'.st.core = hs.st.core ∧ hs'.live = hs.live :=
  step_refusal h hr

/-- `WF` does not look at the ghost fields (branch tags, recorded OS calls) nor at the environment queue -/
theorem wfb_core (hs : Hist) : wfb hs = wfb { st := hs.st.core, live := hs.live } := rfl

theorem WF_of_core_eq {hs hs' : Hist} (hc : hs'.st.core = hs.st.core) (hl : hs'.live = hs.live) (h : WF hs) : WF hs' := by
  unfold WF at *
  rw [wfb_core] at h ⊢
  rw [hc, hl]
  exact h

/-- **wf_step, refusal case** (full): an operation during which the OS refused memory preserves `WF`
(it leaves the allocator exactly as it was) -/
theorem wf_step_refused (hs hs' : Hist) (op : Op) (os : List OsDir) (out : Out) (hwf : WF hs)
    (h : hs.step op os = .ok (hs', out)) (hr : refused hs'.st.evs = true) : WF hs' := by
  obtain ⟨_, hc, hl⟩ := step_refusal h hr
  exact WF_of_core_eq hc hl hwf

/-- `free` never asks the OS for memory, so it cannot be refused any -/
theorem free_never_asks_for_memory (hs hs' : Hist) (id : Nat) (os : List OsDir) (out : Out)
    (h : hs.step (.free id) os = .ok (hs', out)) : refused hs'.st.evs = false := by
  cases hr : refused hs'.st.evs with
  | false => rfl
  | true =>
    have := (step_refusal h hr).1
    unfold Hist.step at h
    dsimp only at h
    split at h
    · msimp at h
    · msimp at h
      obtain ⟨s1, hm, _, _, h⟩ := h
      simp only [Prod.mk.injEq] at h
      obtain ⟨_, ho⟩ := h; subst ho
      simp at this

/-! ## 4. non-vacuity: concrete histories evaluated by the kernel -/

theorem ok_of_matchB {α : Type} {x : M α} {p : α → Bool}
    (h : (match x with | .ok v => p v | .error _ => false) = true) : ∃ v, x = .ok v ∧ p v = true := by
  cases x with
  | ok v => exact ⟨v, rfl, h⟩
  | error e => cases h

/-- fresh heap: 100 bytes, then 300 zeroed bytes 64-aligned (memalign), a growing realloc, a free -/
def demoOps : List (Op × List OsDir) :=
  [(.malloc 1 100 8, [.m (some 1048576)]), (.calloc 2 300 64, []), (.realloc 1 5000, []), (.free 2, [])]

def demoState : Hist := match Hist.init.run demoOps with
  | .ok (hs, _) => hs
  | .error _ => Hist.init

set_option maxRecDepth 20000 in
/-- `WF` holds on a non-trivial state with two bins in use and one live block -/
example : WF demoState ∧ demoState.live.length = 1 ∧ demoState.st.h.ents.length = 4 ∧ treemap demoState.st.h ≠ 0 := by
  unfold WF; decide

set_option maxRecDepth 20000 in
/-- hypotheses of `alloc_ok_partial` / `calloc_ok_partial` / `realloc_ok_partial` / `free_ok_partial` -/
example : ∃ hs' out, demoState.step (.calloc 7 70000 4096) [.m (some 524288)] = .ok (hs', out) ∧
    out.ptr ≠ 0 ∧ WF hs' := by
  obtain ⟨v, hv, hp⟩ := ok_of_matchB (x := demoState.step (.calloc 7 70000 4096) [.m (some 524288)])
    (p := fun v => decide (v.2.ptr ≠ 0) && wfb v.1) (by decide)
  simp only [Bool.and_eq_true, decide_eq_true_eq] at hp
  exact ⟨v.1, v.2, hv, hp.1, hp.2⟩

set_option maxRecDepth 20000 in
example : ∃ hs' out, demoState.step (.realloc 1 100000) [.m (some 524288)] = .ok (hs', out) ∧
    out.ptr ≠ 0 ∧ WF hs' ∧ out.copy ≠ none := by
  obtain ⟨v, hv, hp⟩ := ok_of_matchB (x := demoState.step (.realloc 1 100000) [.m (some 524288)])
    (p := fun v => decide (v.2.ptr ≠ 0) && wfb v.1 && decide (v.2.copy ≠ none)) (by decide)
  simp only [Bool.and_eq_true, decide_eq_true_eq] at hp
  exact ⟨v.1, v.2, hv, hp.1.1, hp.1.2, hp.2⟩

set_option maxRecDepth 20000 in
/-- hypotheses of `realloc_fresh_from_pre`: block 1 (5000 bytes, align 8 = 2^3) grows to 100000 and moves
into a mapping the OS serves below the heap -/
example : ∃ hs' out b, findBlock demoState.live 1 = some b ∧ b.align = 2 ^ 3 ∧
    demoState.step (.realloc 1 100000) [.m (some 524288)] = .ok (hs', out) ∧ out.ptr ≠ 0 ∧ out.copy ≠ none ∧
    OsContract demoState [.m (some 524288)] 100000 (2 ^ 3) := by
  obtain ⟨v, hv, hp⟩ := ok_of_matchB (x := demoState.step (.realloc 1 100000) [.m (some 524288)])
    (p := fun v => decide (v.2.ptr ≠ 0) && decide (v.2.copy ≠ none)) (by decide)
  simp only [Bool.and_eq_true, decide_eq_true_eq] at hp
  refine ⟨v.1, v.2, { id := 1, ptr := 1049024, size := 5000, align := 8 }, by decide, by decide, hv, hp.1, hp.2, ?_⟩
  intro tbase q hq
  injection hq with h1 _
  injection h1 with h1
  injection h1 with h1
  subst h1
  refine ⟨by decide, by decide, by decide, ?_⟩
  intro g hg
  have : demoState.st.segs = [{ base := 1048576, size := 65536, recAt := 0 }] := by decide
  rw [this] at hg
  simp only [List.mem_singleton] at hg
  subst hg
  left
  decide

set_option maxRecDepth 20000 in
/-- hypotheses of `oom_null`: the same request with the OS refusing the mapping -/
example : ∃ hs' out, demoState.step (.malloc 7 70000 4096) [.m none] = .ok (hs', out) ∧
    refused hs'.st.evs = true := by
  obtain ⟨v, hv, hp⟩ := ok_of_matchB (x := demoState.step (.malloc 7 70000 4096) [.m none])
    (p := fun v => refused v.1.st.evs) (by decide)
  exact ⟨v.1, v.2, hv, hp⟩

set_option maxRecDepth 20000 in
/-- hypotheses of `alloc_fresh_from_pre`: a request served from a tree bin without any OS call … -/
example : ∃ hs' out, demoState.step (.malloc 9 200 (2 ^ 3)) [] = .ok (hs', out) ∧ out.ptr ≠ 0 ∧
    WF demoState ∧ OsContract demoState [] 200 (2 ^ 3) := by
  obtain ⟨v, hv, hp⟩ := ok_of_matchB (x := demoState.step (.malloc 9 200 (2 ^ 3)) [])
    (p := fun v => decide (v.2.ptr ≠ 0) && wfb demoState) (by decide)
  simp only [Bool.and_eq_true, decide_eq_true_eq] at hp
  exact ⟨v.1, v.2, hv, hp.1, hp.2, fun tbase q hq => by cases hq⟩

set_option maxRecDepth 20000 in
/-- … and an over-aligned one for which the OS serves a fresh mapping below the heap -/
example : ∃ hs' out, demoState.step (.calloc 9 70000 (2 ^ 12)) [.m (some 524288)] = .ok (hs', out) ∧ out.ptr ≠ 0 ∧
    OsContract demoState [.m (some 524288)] 70000 (2 ^ 12) := by
  obtain ⟨v, hv, hp⟩ := ok_of_matchB (x := demoState.step (.calloc 9 70000 (2 ^ 12)) [.m (some 524288)])
    (p := fun v => decide (v.2.ptr ≠ 0)) (by decide)
  simp only [decide_eq_true_eq] at hp
  refine ⟨v.1, v.2, hv, hp, ?_⟩
  intro tbase q hq
  injection hq with h1 _
  injection h1 with h1
  injection h1 with h1
  subst h1
  refine ⟨by decide, by decide, by decide, ?_⟩
  intro g hg
  have : demoState.st.segs = [{ base := 1048576, size := 65536, recAt := 0 }] := by decide
  rw [this] at hg
  simp only [List.mem_singleton] at hg
  subst hg
  left
  decide

set_option maxRecDepth 20000 in
example : ∃ hs' out, demoState.step (.free 1) [] = .ok (hs', out) ∧ WF hs' := by
  obtain ⟨v, hv, hp⟩ := ok_of_matchB (x := demoState.step (.free 1) [])
    (p := fun v => wfb v.1) (by decide)
  exact ⟨v.1, v.2, hv, hp⟩

end TinyVerif.Dl
