/-
C03 — Allocator: live blocks aligned, disjoint, intact; OOM gives null, heap stays usable.
(first stage: pure index lemmas over the regenerated definitions; the state theorems follow below)
-/
import TinyVerif.Proofs.DlPure
import TinyVerif.Model.Dlmalloc
namespace TinyVerif.Dl

/-! ## 1. pure_index_lemmas — about `Gen/DlmallocPure.lean`, i.e. re-checked against the Rust text on every run -/

/-- small bins: the size class of an aligned small size is exact -/
theorem small_index_exact (s : Nat) (h8 : s % 8 = 0) (h : s < 256) :
    small_index2size (small_index s) = s ∧ small_index s < 32 ∧ is_small s = true :=
  ⟨small_index_roundtrip s h8 h, small_index_lt s h, (is_small_iff s).2 h⟩

example : small_index2size (small_index 248) = 248 ∧ small_index 248 < 32 ∧ is_small 248 = true :=
  small_index_exact 248 (by decide) (by decide)

end TinyVerif.Dl
