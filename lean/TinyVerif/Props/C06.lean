/-
C06 — Threads: stack mapping, thread-local block and join state are released exactly once in every order of
thread completion, panic, join and handle drop; never while a party can still touch them; never leaked; after
any number of threads the ledger is back at its baseline, plus one closure per panicked thread.

Same model, invariant and ties as C05 (`Model/Thread.lean`, `Proofs/ThreadInv.lean`, `Proofs/ThreadStep*.lean`,
`Gen/ThreadSites.lean`, driver `drv_c05`).  Every theorem quantifies over all interleavings of the H/T/K steps
of any number of concurrently live thread instances (`Reachable`), i.e. over every ordering of
{returns, panics} × {joined, dropped before / while / after the thread finishes}.

About the CAS orderings (`gen_cas_orderings`): that exactly one side wins the flag is the atomicity of the RMW;
`AcqRel` on success is what the source has and what the model is pinned to.  In this protocol the memory the
loser frees is made safe to free by other edges: the H-side loser waits for the kernel's clear-tid wake (after
the thread's exit), the T-side loser frees after its own failed CAS and the winning handle never touches the
block again; neither needs the failure ordering (`Relaxed` in the source) to be stronger.
-/
import TinyVerif.Props.C05
set_option linter.unusedSimpArgs false
set_option linter.unusedVariables false
set_option maxRecDepth 4000
namespace TinyVerif.Thread
open TinyVerif.Gen.Thread

/-- all three flag CAS sites (`casOk`, `goodCas` in Props/C05, tie T): a strong compare_exchange on the hand-over flag
with operands (false, true) and a success ordering that is at least Acquire and at least Release — stated with
`isAcq` / `isRel`, so a stronger ordering (or any failure ordering) in the source is accepted -/
theorem gen_cas_orderings : (casOk dropSites && casOk spawnSites && casOk panicSites) = true := by decide

/-! ## release_exactly_once -/

/-- **release_exactly_once**: in every complete execution of a spawned instance — whichever way it went, including
a panic that starts *inside the epilogue* (the destructor of the unread result, `tDropPanic`) — the shared block,
the thread-local block and the stack mapping have each been released exactly once, and the closure box exactly once
unless the thread panicked (its closure, or the destructor of its unread result), then never (it stays allocated:
the exception the property grants) -/
theorem release_exactly_once (c : Cfg) (hc : c.Good) (s : St) (h : Reachable c s) (i : Nat)
    (hcmp : complete (s.inst i) = true) (hsp : spawnedOk (s.inst i).h = true) :
    (s.inst i).tsm = .freed ∧ (s.inst i).tsmFrees = 1 ∧
    (s.inst i).tls = .freed ∧ (s.inst i).tlsFrees = 1 ∧
    (s.inst i).stack = .freed ∧ (s.inst i).stackFrees = 1 ∧
    ((s.inst i).panicked = false → (s.inst i).box = .freed ∧ (s.inst i).boxFrees = 1) ∧
    ((s.inst i).panicked = true → (s.inst i).box = .live ∧ (s.inst i).boxFrees = 0) ∧
    -- the closure's return value has left the runtime's hands (taken by join, or dropped with the handle)
    (s.inst i).val ≠ .live := by
  have inv := reachable_inv c hc s h i
  have hnf : isFailed (s.inst i).h = false := by
    cases hh : (s.inst i).h <;> simp_all [spawnedOk, isFailed]
  simp only [complete, hnf, Bool.false_or, Bool.and_eq_true, beq_iff_eq] at hcmp
  obtain ⟨hfin, hdead, hk⟩ := hcmp
  have htsm : (s.inst i).tsm = .freed := by
    rw [inv.tsmEq]
    cases hh : (s.inst i).h <;> simp_all [hFinal, spawnedOk, tsmOf, hFreedTsm, tPastFlag]
    exact inv.wH.mpr hh
  have htls : (s.inst i).tls = .freed := by rw [inv.tlsEq]; simp [tlsOf, hsp, hdead, tFreedTls]
  have hst : (s.inst i).stack = .freed := by rw [inv.stackEq]; simp [stackOf, hsp, hdead, tFreedStack]
  refine ⟨htsm, by rw [inv.tsmC, htsm]; rfl, htls, by rw [inv.tlsC, htls]; rfl, hst, by rw [inv.stackC, hst]; rfl, ?_, ?_, ?_⟩
  · intro hp
    have hb : (s.inst i).box = .freed := by rw [inv.boxEq]; simp [boxOf, hsp, hdead, tFreedBox, hp]
    exact ⟨hb, by rw [inv.boxC, hb]; rfl⟩
  · intro hp
    have hb : (s.inst i).box = .live := by rw [inv.boxEq]; simp [boxOf, hsp, hdead, tFreedBox, hp]
    exact ⟨hb, by rw [inv.boxC, hb]; rfl⟩
  · rw [inv.valEq]
    cases hd : (s.inst i).dpanic
    · cases hp : (s.inst i).panicked
      · cases hh : (s.inst i).h <;> simp_all [hFinal, spawnedOk, valOf, hReadDone, tPastFlag, tDropped, tRan]
        exact inv.wH.mpr hh
      · simp [valOf, hp, hd]
    · have hp := (inv.dpI hd).1
      simp [valOf, hp, hd, hdead, tRan]

/-- no resource is ever released twice, in any reachable state (complete or not) -/
theorem never_released_twice (c : Cfg) (hc : c.Good) (s : St) (h : Reachable c s) (i : Nat) :
    (s.inst i).tsmFrees ≤ 1 ∧ (s.inst i).tlsFrees ≤ 1 ∧ (s.inst i).stackFrees ≤ 1 ∧ (s.inst i).boxFrees ≤ 1 := by
  have inv := reachable_inv c hc s h i
  refine ⟨?_, ?_, ?_, ?_⟩
  · rw [inv.tsmC]; unfold cnt; split <;> omega
  · rw [inv.tlsC]; unfold cnt; split <;> omega
  · rw [inv.stackC]; unfold cnt; split <;> omega
  · rw [inv.boxC]; unfold cnt; split <;> omega

/-! ## no_use_after_release -/

/-- **no_use_after_release**: no step of any party ever touches or releases a resource that is not live — no
use after free, no double free, no touch before allocation (every step records its touches in `bad`) -/
theorem no_use_after_release (c : Cfg) (hc : c.Good) (s : St) (h : Reachable c s) (i : Nat) :
    (s.inst i).bad = false :=
  (reachable_inv c hc s h i).nbad

/-- the kernel's clear-tid write never lands in a freed block: whenever the kernel's exit step is enabled with a
non-null clear-tid address, the block is live — the handle frees only after observing the 0 (`kdone`), and the
thread nulls the address before it frees the block itself -/
theorem kernel_clear_hits_live_block (c : Cfg) (hc : c.Good) (s : St) (h : Reachable c s) (i : Nat) (x' : Inst)
    (hs : stepI c (s.inst i) .kExit = some x') (hct : (s.inst i).ctid = true) : (s.inst i).tsm = .live := by
  have inv := reachable_inv c hc s h i
  have hb : x'.bad = false := (stepI_inv c hc _ _ _ hs inv).nbad
  simp only [stepI, hct, if_true] at hs
  split at hs
  · split at hs <;> (simp only [Option.some.injEq] at hs; subst hs; simp [touchTsm, notLive, inv.nbad] at hb; exact hb)
  · simp at hs

/-- a thread that lost the CAS has reset its clear-tid address before it frees the block -/
theorem loser_thread_nulls_tid_first (c : Cfg) (hc : c.Good) (s : St) (h : Reachable c s) (i : Nat)
    (ht : (s.inst i).t = .freeTsm) : (s.inst i).ctid = false ∧ (s.inst i).winner = some .H ∧ (s.inst i).h = .detached := by
  have inv := reachable_inv c hc s h i
  have hw := inv.lost (by rw [ht]; rfl)
  exact ⟨inv.ctidI (Or.inl ht), hw, inv.wH.mp hw⟩

/-- the handle frees the block only after the kernel has finished the thread's exit -/
theorem handle_frees_after_exit (c : Cfg) (hc : c.Good) (s : St) (h : Reachable c s) (i : Nat) (x' : Inst)
    (hs : stepI c (s.inst i) .hFreeTsm = some x') : (s.inst i).kdone = true ∧ (s.inst i).t = .dead := by
  have inv := reachable_inv c hc s h i
  simp only [stepI] at hs
  split at hs
  · rename_i hh; have := inv.aw (by rw [hh]; rfl); exact ⟨this.1, inv.kd this.1⟩
  · split at hs
    · rename_i hh; have := inv.aw (by rw [hh]; rfl); exact ⟨this.1, inv.kd this.1⟩
    · simp at hs

/-- H never touches the block after winning the drop CAS: a detached handle has no step left -/
theorem detached_handle_is_done (c : Cfg) (x : Inst) (e : Ev) (hh : x.h = .detached) (he : isHEv e = true) :
    stepI c x e = none := by
  cases e <;> simp_all [stepI, isHEv]

/-- T performs no stack access after its munmap step: the only step left is `exit`, which touches nothing -/
theorem no_stack_access_after_munmap (c : Cfg) (x x' : Inst) (e : Ev) (ht : x.t = .exit) (hte : isHEv e = false)
    (hne : e ≠ .kExit) (hs : stepI c x e = some x') : e = .tExit ∧ x'.bad = x.bad ∧ x'.stack = x.stack := by
  cases e <;> simp_all [stepI, isHEv]
  all_goals (subst hs; exact ⟨rfl, rfl⟩)

/-- the panic handler has copied what it needs out of the thread-local block before it frees it: after the
release of tls no step of T touches tls (its remaining steps — CAS, set_tid_address, freeing tsm, munmap, exit —
work from the copy) -/
theorem tls_not_touched_after_release (c : Cfg) (hc : c.Good) (s s' : St) (h : Reachable c s) (i : Nat) (e : Ev)
    (hfreed : (s.inst i).tls = .freed) (hs : step c s i e = some s') : (s'.inst i).tls = .freed ∧ (s'.inst i).bad = false := by
  have h' : Reachable c s' := by
    obtain ⟨evs, hr⟩ := h
    refine ⟨evs ++ [(i, e)], ?_⟩
    have : ∀ (s0 : St) (l : List (Nat × Ev)), run c s0 l = some s → run c s0 (l ++ [(i, e)]) = some s' := by
      intro s0 l
      induction l generalizing s0 with
      | nil => intro h0; simp [run] at h0; subst h0; simp [run, hs]
      | cons a rest ih =>
        intro h0
        obtain ⟨j, f⟩ := a
        simp only [run, List.cons_append] at h0 ⊢
        cases h1 : step c s0 j f with
        | none => simp [h1] at h0
        | some s1 => simp only [h1] at h0 ⊢; exact ih s1 h0
    exact this _ _ hr
  have inv' := reachable_inv c hc s' h' i
  have hcnt := (reachable_inv c hc s h i).tlsC
  refine ⟨?_, inv'.nbad⟩
  -- the release counter never decreases and is 1 already
  have hsi := step_self c s s' i e hs
  have hmono : (s.inst i).tlsFrees ≤ (s'.inst i).tlsFrees := by
    generalize s'.inst i = y at hsi
    cases e <;> simp only [stepI] at hsi <;> (repeat' split at hsi) <;>
      first
      | (simp at hsi; done)
      | (simp only [Option.some.injEq] at hsi; subst hsi;
         simp [touchTsm, touchTls, touchStack, touchBox, freeTsm, freeTls, freeStack, freeBox])
  have h1 : (s.inst i).tlsFrees = 1 := by rw [hcnt, hfreed]; rfl
  have h2 := inv'.tlsC
  unfold cnt at h2
  split at h2
  · assumption
  · omega

/-! ## exactly_one_freer -/

/-- **exactly_one_freer**: the flag is flipped by exactly one side, and the side that did *not* flip it is the
one that frees the shared block: a detached (winning) handle means the thread frees, a winning thread means the
handle frees (after join or after its lost drop), and never both -/
theorem exactly_one_freer (c : Cfg) (hc : c.Good) (s : St) (h : Reachable c s) (i : Nat) :
    -- one winner at most, recorded in the flag
    ((s.inst i).flag = true ↔ (s.inst i).winner ≠ none) ∧
    -- H won ⇒ H is detached for good and T is (or will be) the one that frees
    ((s.inst i).winner = some .H ↔ (s.inst i).h = .detached) ∧
    ((s.inst i).h = .detached → hFreedTsm (s.inst i).h = false) ∧
    -- T lost ⇒ H had won
    (tLost (s.inst i).t = true → (s.inst i).winner = some .H) ∧
    -- H on the path that frees after a lost CAS ⇒ T had won
    (hLostPath (s.inst i).h = true → (s.inst i).winner = some .T) ∧
    -- in a complete execution: who freed
    (complete (s.inst i) = true → spawnedOk (s.inst i).h = true →
       ((s.inst i).h = .detached ∧ (s.inst i).winner = some .H) ∨
       ((s.inst i).h = .dropped ∧ (s.inst i).winner = some .T) ∨
       ((s.inst i).h = .joined ∧ (s.inst i).winner = some .T)) := by
  have inv := reachable_inv c hc s h i
  refine ⟨?_, inv.wH, ?_, inv.lost, inv.dpath, ?_⟩
  · constructor
    · intro hf; rcases inv.flagT hf with h1 | h1 <;> simp [h1]
    · intro hw
      cases hf : (s.inst i).flag
      · exact absurd (inv.flagF hf) hw
      · rfl
  · intro hd; rw [hd]; rfl
  · intro hcmp hsp
    have hnf : isFailed (s.inst i).h = false := by
      cases hh : (s.inst i).h <;> simp_all [spawnedOk, isFailed]
    simp only [complete, hnf, Bool.false_or, Bool.and_eq_true, beq_iff_eq] at hcmp
    obtain ⟨hfin, hdead, hk⟩ := hcmp
    have hflag : (s.inst i).flag = true := inv.pastW (by rw [hdead]; rfl)
    cases hh : (s.inst i).h <;> simp_all [hFinal, spawnedOk]
    · -- joined: the winner is not H (H is not detached), and the flag is set
      rcases inv.flagT hflag with h1 | h1
      · have := inv.wH.mp h1; rw [hh] at this; cases this
      · exact h1
    · exact inv.wH.mpr hh
    · exact inv.dpath (by rw [hh]; rfl)

/-! ## baseline_restored -/

/-- what a finished instance leaves behind -/
def leaked (x : Inst) : Nat := b2n (spawnedOk x.h && x.panicked)

/-- the ledger of a complete instance: nothing live but, for a spawned thread that panicked, its closure -/
theorem baseline_pointwise (c : Cfg) (hc : c.Good) (s : St) (h : Reachable c s) (i : Nat)
    (hcmp : complete (s.inst i) = true) :
    (s.inst i).tsm ≠ .live ∧ (s.inst i).tls ≠ .live ∧ (s.inst i).stack ≠ .live ∧ (s.inst i).val ≠ .live ∧
    ((s.inst i).box = .live ↔ (spawnedOk (s.inst i).h = true ∧ (s.inst i).panicked = true)) := by
  have inv := reachable_inv c hc s h i
  cases hsp : spawnedOk (s.inst i).h
  · -- spawn failed: everything that had been set up is released again
    have hf : isFailed (s.inst i).h = true := by
      cases hh : (s.inst i).h <;> simp_all [complete, hFinal, spawnedOk, isFailed]
    have h1 : (s.inst i).tsm = .freed := by
      rw [inv.tsmEq]; cases hh : (s.inst i).h <;> simp_all [isFailed, tsmOf, hFreedTsm]
    have h2 : (s.inst i).tls ≠ .live := by
      rw [inv.tlsEq]; cases hh : (s.inst i).h <;> simp_all [isFailed, tlsOf, tlsH, spawnedOk] <;> split <;> simp
    have h3 : (s.inst i).stack ≠ .live := by
      rw [inv.stackEq]; cases hh : (s.inst i).h <;> simp_all [isFailed, stackOf, stackH, spawnedOk] <;> split <;> simp
    have h4 : (s.inst i).box = .freed := by
      rw [inv.boxEq]; cases hh : (s.inst i).h <;> simp_all [isFailed, boxOf, boxH, spawnedOk]
    have h5 : (s.inst i).val = .unalloc := by
      rw [inv.valEq]; have := inv.started.mpr hsp; simp [valOf, this, tRan]
    simp [h1, h2, h3, h4, h5]
  · obtain ⟨a1, _, a3, _, a5, _, a7, a8, a9⟩ := release_exactly_once c hc s h i hcmp hsp
    cases hp : (s.inst i).panicked
    · have := (a7 hp).1; simp [a1, a3, a5, this, a9]
    · have := (a8 hp).1; simp [a1, a3, a5, this, a9]

theorem complete_ledger (c : Cfg) (hc : c.Good) (s : St) (h : Reachable c s) (i : Nat)
    (hcmp : complete (s.inst i) = true) : liveHeap (s.inst i) = leaked (s.inst i) ∧ liveMaps (s.inst i) = 0 := by
  obtain ⟨h1, h2, h3, h0, h4⟩ := baseline_pointwise c hc s h i hcmp
  unfold liveHeap liveMaps leaked b2n
  cases e1 : (s.inst i).tsm <;> cases e2 : (s.inst i).tls <;> cases e3 : (s.inst i).stack <;> cases e4 : (s.inst i).box <;>
    cases e0 : (s.inst i).val <;> cases e5 : spawnedOk (s.inst i).h <;> cases e6 : (s.inst i).panicked <;> simp_all

theorem init_ledger : liveHeap Inst.init = 0 ∧ liveMaps Inst.init = 0 ∧ leaked Inst.init = 0 := by decide

/-- **baseline_restored**: once every instance among the first `n` is either untouched or complete — after any
number of threads, in any mixture of returns, panics, joins and drops, however they were interleaved — the number
of live heap blocks equals the number of panicked threads (their closures) and no stack mapping is left -/
theorem baseline_restored (c : Cfg) (hc : c.Good) (s : St) (h : Reachable c s) (n : Nat)
    (hall : ∀ i, i < n → complete (s.inst i) = true ∨ s.inst i = Inst.init) :
    sumTo (fun i => liveHeap (s.inst i)) n = sumTo (fun i => leaked (s.inst i)) n ∧
    sumTo (fun i => liveMaps (s.inst i)) n = 0 := by
  induction n with
  | zero => simp [sumTo]
  | succ k ih =>
    have ihk := ih (fun i hi => hall i (by omega))
    have hk : liveHeap (s.inst k) = leaked (s.inst k) ∧ liveMaps (s.inst k) = 0 := by
      rcases hall k (by omega) with h1 | h1
      · exact complete_ledger c hc s h k h1
      · rw [h1]; exact ⟨by decide, by decide⟩
    simp only [sumTo]
    omega

/-! ## the orderings of completion, panic, join and drop all occur (non-vacuity) -/

def spawnOkTrace (i : Nat) : List (Nat × Ev) :=
  [(i, .hAllocTsm), (i, .hBox), (i, .hMmap true), (i, .hAllocTls), (i, .hClone true)]

/-- handle dropped first (H wins), thread returns later and frees the block after nulling its tid address -/
def dropFirstTrace : List (Nat × Ev) :=
  spawnOkTrace 0 ++ [(0, .hDrop), (0, .hCas true), (0, .tRet 5), (0, .tWrite), (0, .tCas false), (0, .tSetTid), (0, .tDropVal),
    (0, .tFreeTsm), (0, .tFreeTls), (0, .tFreeBox), (0, .tMunmap), (0, .tExit), (0, .kExit)]

/-- the same order on the code before commit d26787e (no drop of the unread result) -/
def dropFirstTraceOld : List (Nat × Ev) :=
  spawnOkTrace 0 ++ [(0, .hDrop), (0, .hCas true), (0, .tRet 5), (0, .tWrite), (0, .tCas false), (0, .tSetTid),
    (0, .tFreeTsm), (0, .tFreeTls), (0, .tFreeBox), (0, .tMunmap), (0, .tExit), (0, .kExit)]

/-- handle dropped first, the closure returns, the destructor of the unread result panics on the thread: the panic
handler runs from the middle of the epilogue — tls read and freed, CAS lost again, clear-tid reset again, block freed -/
def dropPanicTrace : List (Nat × Ev) :=
  spawnOkTrace 0 ++ [(0, .hDrop), (0, .hCas true), (0, .tRet 5), (0, .tWrite), (0, .tCas false), (0, .tSetTid), (0, .tDropPanic),
    (0, .tPanicRead), (0, .tFreeTls), (0, .tCas false), (0, .tSetTid), (0, .tFreeTsm), (0, .tMunmap), (0, .tExit), (0, .kExit)]

/-- thread finishes first (T wins), handle dropped while the thread is still exiting: parks, woken by the kernel -/
def dropLateTrace : List (Nat × Ev) :=
  spawnOkTrace 0 ++ [(0, .tRet 5), (0, .tWrite), (0, .tCas true), (0, .hDrop), (0, .hCas false), (0, .hLoad 1), (0, .hFwait true),
    (0, .tFreeTls), (0, .tFreeBox), (0, .tMunmap), (0, .tExit), (0, .kExit), (0, .hLoad 0), (0, .hFreeTsm)]

/-- panicking thread, handle dropped after the thread is gone (fast path: the load already sees 0) -/
def panicDropAfterTrace : List (Nat × Ev) :=
  spawnOkTrace 0 ++ [(0, .tPanic), (0, .tPanicRead), (0, .tFreeTls), (0, .tCas true), (0, .tMunmap), (0, .tExit), (0, .kExit),
    (0, .hDrop), (0, .hCas false), (0, .hLoad 0), (0, .hFreeTsm)]

def summary (tr : List (Nat × Ev)) : Option (Bool × Bool × Nat × Nat × Option Party) :=
  (run genCfg St.init tr).map (fun s => (complete (s.inst 0), (s.inst 0).bad, liveHeap (s.inst 0), liveMaps (s.inst 0), (s.inst 0).winner))

example : summary dropFirstTrace = some (true, false, 0, 0, some .H) := by decide
example : summary dropLateTrace = some (true, false, 0, 0, some .T) := by decide
example : summary panicDropAfterTrace = some (true, false, 1, 0, some .T) := by decide
example : summary dropPanicTrace = some (true, false, 1, 0, some .H) := by decide

/-- spawn.rs before the repair: a handle dropped without join never dropped the thread's return value -/
def noDropCfg : Cfg := { genCfg with dropValH := false, dropValT := false }

/-- **dropped_handle_leaks_result_counterexample**: as the code was, with the handle dropped (whichever side wins the
flag) the value the closure returned is never dropped — its destructor does not run and whatever it owns stays
allocated, so the heap is not back at its baseline although nothing panicked -/
theorem dropped_handle_leaks_result_counterexample :
    ((run noDropCfg St.init dropLateTrace).map (fun s => (complete (s.inst 0), (s.inst 0).val, liveHeap (s.inst 0))) =
      some (true, .live, 1)) ∧
    ((run noDropCfg St.init dropFirstTraceOld).map (fun s => (complete (s.inst 0), (s.inst 0).val, liveHeap (s.inst 0))) =
      some (true, .live, 1)) := by decide

/-- the protections are needed: without `set_tid_address(0)` the kernel's clear-tid write lands in the block the
losing thread has already freed -/
theorem missing_set_tid_is_use_after_free :
    (run { genCfg with setTidRet := false } St.init
      (spawnOkTrace 0 ++ [(0, .hDrop), (0, .hCas true), (0, .tRet 5), (0, .tWrite), (0, .tCas false), (0, .tDropVal), (0, .tFreeTsm),
        (0, .tFreeTls), (0, .tFreeBox), (0, .tMunmap), (0, .tExit), (0, .kExit)])).map (fun s => (s.inst 0).bad) = some true := by
  decide

/-! ## a panic that starts inside the epilogue: the destructor of the unread result -/

/-- the only point of the thread's epilogue at which user code runs is `dropVal` (`drop_in_place` of the result nobody
joined).  **At that point the thread has released nothing yet**: block, thread-local block, stack and closure box
are live with release counters 0, the value is still there, the handle is detached for good and the clear-tid
address is already null.  This is what makes it safe for `on_panic` to start from there and do every release
itself — an epilogue that had released the thread-local block (or the block) *before* this point would see that
release repeated by the panic handler -/
theorem destructor_runs_before_any_release (c : Cfg) (hc : c.Good) (s : St) (h : Reachable c s) (i : Nat)
    (ht : (s.inst i).t = .dropVal) :
    (s.inst i).tsm = .live ∧ (s.inst i).tls = .live ∧ (s.inst i).stack = .live ∧ (s.inst i).box = .live ∧
    (s.inst i).val = .live ∧ (s.inst i).slot ≠ none ∧
    (s.inst i).tsmFrees = 0 ∧ (s.inst i).tlsFrees = 0 ∧ (s.inst i).stackFrees = 0 ∧ (s.inst i).boxFrees = 0 ∧
    (s.inst i).h = .detached ∧ (s.inst i).ctid = false ∧ (s.inst i).panicked = false := by
  have inv := reachable_inv c hc s h i
  have hw := inv.lost (by rw [ht]; rfl)
  have hdet := inv.wH.mp hw
  have hp : (s.inst i).panicked = false := by
    have := inv.pOK; rw [ht] at this; simpa [tOkP] using this
  have hdp : (s.inst i).dpanic = false := by
    cases hd : (s.inst i).dpanic
    · rfl
    · rw [(inv.dpI hd).1] at hp; cases hp
  have hslot : (s.inst i).slot ≠ none := by
    intro h0
    have := (inv.ret2 (by rw [ht]; rfl)).2.mpr h0
    rw [hp] at this; cases this.1
  have h1 : (s.inst i).tsm = .live := by rw [inv.tsmEq]; simp [tsmOf, hdet, hFreedTsm, ht, tPastFlag]
  have h2 : (s.inst i).tls = .live := by rw [inv.tlsEq]; simp [tlsOf, hdet, spawnedOk, ht, tFreedTls]
  have h3 : (s.inst i).stack = .live := by rw [inv.stackEq]; simp [stackOf, hdet, spawnedOk, ht, tFreedStack]
  have h4 : (s.inst i).box = .live := by rw [inv.boxEq]; simp [boxOf, hdet, spawnedOk, ht, tFreedBox]
  have h5 : (s.inst i).val = .live := by
    rw [inv.valEq]; simp [valOf, hp, hdp, ht, tRan, hdet, hReadDone, tDropped, tPastFlag]
  refine ⟨h1, h2, h3, h4, h5, hslot, by rw [inv.tsmC, h1]; rfl, by rw [inv.tlsC, h2]; rfl, by rw [inv.stackC, h3]; rfl,
    by rw [inv.boxC, h4]; rfl, hdet, inv.ctidI (Or.inr (Or.inl ht)), hp⟩

/-- the destructor-panic step is enabled exactly there, and it enters the panic handler with everything still live -/
theorem destructor_panic_enters_handler (c : Cfg) (hc : c.Good) (s : St) (h : Reachable c s) (i : Nat) (x' : Inst)
    (hs : stepI c (s.inst i) .tDropPanic = some x') :
    (s.inst i).t = .dropVal ∧ x'.t = .pRead ∧ x'.panicked = true ∧ x'.dpanic = true ∧ x'.bad = false ∧
    x'.tsm = .live ∧ x'.tls = .live ∧ x'.stack = .live ∧ x'.val = .freed := by
  have inv' := stepI_inv c hc _ _ _ hs (reachable_inv c hc s h i)
  have ht : (s.inst i).t = .dropVal := by
    simp only [stepI] at hs; split at hs
    · assumption
    · simp at hs
  obtain ⟨a1, a2, a3, _, a5, a6, _⟩ := destructor_runs_before_any_release c hc s h i ht
  simp only [stepI, ht, if_true, a6, if_false] at hs
  simp only [Option.some.injEq] at hs
  subst hs
  have hnb := (reachable_inv c hc s h i).nbad
  refine ⟨ht, ?_, ?_, ?_, ?_, ?_, ?_, ?_, ?_⟩ <;> simp [takeVal, a6, touchTsm, touchStack, a1, a2, a3, a5, notLive, hnb]

/-- **release_exactly_once under a panicking destructor**: every complete execution in which the destructor of the
unread result panicked on the thread has released block, thread-local block and stack exactly once each (all by the
panic handler), never touched anything released, ran the destructor once, and leaves exactly the closure box behind -/
theorem destructor_panic_release_exactly_once (c : Cfg) (hc : c.Good) (s : St) (h : Reachable c s) (i : Nat)
    (hcmp : complete (s.inst i) = true) (hdp : (s.inst i).dpanic = true) :
    (s.inst i).h = .detached ∧ (s.inst i).panicked = true ∧ (s.inst i).bad = false ∧
    (s.inst i).tsmFrees = 1 ∧ (s.inst i).tlsFrees = 1 ∧ (s.inst i).stackFrees = 1 ∧ (s.inst i).boxFrees = 0 ∧
    (s.inst i).val = .freed ∧ liveHeap (s.inst i) = 1 ∧ liveMaps (s.inst i) = 0 ∧
    -- the closure did return its value: the panic is not the closure's
    (∃ v, (s.inst i).ret = some (some v)) ∧ (s.inst i).joinRes = none := by
  have inv := reachable_inv c hc s h i
  obtain ⟨hp, hw, hpw, hran⟩ := inv.dpI hdp
  have hdet := inv.wH.mp hw
  have hsp : spawnedOk (s.inst i).h = true := by rw [hdet]; rfl
  obtain ⟨_, b2, _, b4, _, b6, _, b8, _⟩ := release_exactly_once c hc s h i hcmp hsp
  have hval : (s.inst i).val = .freed := by rw [inv.valEq]; simp [valOf, hp, hdp, hran]
  have hled := complete_ledger c hc s h i hcmp
  have hret := inv.ret2 hpw
  have hslot : (s.inst i).slot ≠ none := by
    intro h0; have := hret.2.mpr h0; rw [hdp] at this; cases this.2
  refine ⟨hdet, hp, inv.nbad, b2, b4, b6, (b8 hp).2, hval, ?_, hled.2, ?_, ?_⟩
  · rw [hled.1]; simp [leaked, hsp, hp, b2n]
  · cases hs : (s.inst i).slot with
    | none => exact absurd hs hslot
    | some v => exact ⟨v, by rw [hret.1, hs]⟩
  · rw [inv.joinI]; simp [hdet, hReadDone]

/-- non-vacuity: that execution exists (`dropPanicTrace`), and its ledger is the one the theorem states -/
example : (run genCfg St.init dropPanicTrace).map (fun s =>
    (complete (s.inst 0) && (s.inst 0).dpanic && !(s.inst 0).bad && (s.inst 0).val == .freed,
     (s.inst 0).tsmFrees, (s.inst 0).tlsFrees, (s.inst 0).stackFrees, (s.inst 0).boxFrees)) = some (true, 1, 1, 1, 0) := by decide

/-! ## nested families: spawned threads that spawn, join and drop threads themselves

`Model/Thread` Part 3 attributes the handle side of an instance to the thread that executes it (`Topo.owner`), and
lets a handle-side `set_tid_address` hit the executing thread.  For the source as it is (`Topo.Good`, re-derived by
`gen_topo_good`) every state of a nested family — any forest, any depth — is a state of the flat family
(`reachableN_reachable`), so the C06 theorems hold for it; the variants in which the reset sits in handle-side code
leak the join state of the spawner (`caller_settid_breaks_join`, Props/C05). -/

theorem release_exactly_once_nested (c : Cfg) (hc : c.Good) (tp : Topo) (htp : tp.Good) (s : St) (h : ReachableN c tp s) (i : Nat)
    (hcmp : complete (s.inst i) = true) (hsp : spawnedOk (s.inst i).h = true) :
    (s.inst i).tsm = .freed ∧ (s.inst i).tsmFrees = 1 ∧
    (s.inst i).tls = .freed ∧ (s.inst i).tlsFrees = 1 ∧
    (s.inst i).stack = .freed ∧ (s.inst i).stackFrees = 1 ∧
    ((s.inst i).panicked = false → (s.inst i).box = .freed ∧ (s.inst i).boxFrees = 1) ∧
    ((s.inst i).panicked = true → (s.inst i).box = .live ∧ (s.inst i).boxFrees = 0) ∧
    (s.inst i).val ≠ .live :=
  release_exactly_once c hc s (reachableN_reachable c tp htp s h) i hcmp hsp

theorem never_released_twice_nested (c : Cfg) (hc : c.Good) (tp : Topo) (htp : tp.Good) (s : St) (h : ReachableN c tp s) (i : Nat) :
    (s.inst i).tsmFrees ≤ 1 ∧ (s.inst i).tlsFrees ≤ 1 ∧ (s.inst i).stackFrees ≤ 1 ∧ (s.inst i).boxFrees ≤ 1 :=
  never_released_twice c hc s (reachableN_reachable c tp htp s h) i

theorem no_use_after_release_nested (c : Cfg) (hc : c.Good) (tp : Topo) (htp : tp.Good) (s : St) (h : ReachableN c tp s) (i : Nat) :
    (s.inst i).bad = false :=
  no_use_after_release c hc s (reachableN_reachable c tp htp s h) i

theorem baseline_restored_nested (c : Cfg) (hc : c.Good) (tp : Topo) (htp : tp.Good) (s : St) (h : ReachableN c tp s) (n : Nat)
    (hall : ∀ i, i < n → complete (s.inst i) = true ∨ s.inst i = Inst.init) :
    sumTo (fun i => liveHeap (s.inst i)) n = sumTo (fun i => leaked (s.inst i)) n ∧
    sumTo (fun i => liveMaps (s.inst i)) n = 0 :=
  baseline_restored c hc s (reachableN_reachable c tp htp s h) n hall

/-- the kernel's clear-tid write of a nested thread lands in a live block, and it does happen: a spawned thread that was
the handle side of others still has its clear-tid address when it exits with its handle alive (T won the hand-over) -/
theorem nested_exit_clears_own_word (c : Cfg) (hc : c.Good) (tp : Topo) (htp : tp.Good) (s : St) (h : ReachableN c tp s) (j : Nat)
    (hd : (s.inst j).t = .dead) (hw : (s.inst j).winner = some .T) : (s.inst j).ctid = true := by
  cases hcc : (s.inst j).ctid
  · have := (clear_tid_intact_nested c hc tp htp s h j (by rw [hd]; simp) hcc).1
    rw [hw] at this; cases this
  · rfl

/-- a three-level family runs to completion with a clean ledger: main → 0 → 1 → 2; 2 is dropped at once by 1 (frees its own
block), 1 is joined by 0, 0 panics after that and is joined by main (None); one closure (0's) is what remains -/
def threeLevelTopo : Topo := genTopo (fun i => if i = 1 then some 0 else if i = 2 then some 1 else none)
def threeLevelTrace : List (Nat × Ev) :=
  spawnOkTrace 0 ++ spawnOkTrace 1 ++ spawnOkTrace 2 ++
  [(2, .hDrop), (2, .hCas true), (2, .tRet 9), (2, .tWrite), (2, .tCas false), (2, .tSetTid), (2, .tDropVal), (2, .tFreeTsm),
   (2, .tFreeTls), (2, .tFreeBox), (2, .tMunmap), (2, .tExit), (2, .kExit),
   (1, .tRet 5), (1, .tWrite), (1, .tCas true), (1, .hJoin), (1, .hLoad 1), (1, .hFwait true),
   (1, .tFreeTls), (1, .tFreeBox), (1, .tMunmap), (1, .tExit), (1, .kExit), (1, .hLoad 0), (1, .hReadSlot), (1, .hFreeTsm),
   (0, .tPanic), (0, .tPanicRead), (0, .tFreeTls), (0, .tCas true), (0, .tMunmap), (0, .tExit), (0, .kExit),
   (0, .hJoin), (0, .hLoad 0), (0, .hReadSlot), (0, .hFreeTsm)]

example : (runN genCfg threeLevelTopo St.init threeLevelTrace).map (fun s =>
    (complete (s.inst 0) && complete (s.inst 1) && complete (s.inst 2), (s.inst 1).joinRes, (s.inst 0).joinRes,
     (s.inst 0).bad || (s.inst 1).bad || (s.inst 2).bad, liveHeap (s.inst 0) + liveHeap (s.inst 1) + liveHeap (s.inst 2))) =
    some (true, some (some 5), some none, false, 1) := by decide

/-! ## fixed-extent mappings

The ledger treats the stack mapping as one resource with one extent: `hMmap true` makes `stack` live, the thread's own
`munmap(addr, len)` — the very pair the mmap returned / was asked for — releases *all* of it.  That is the kernel's
behaviour only for mappings whose extent nothing but munmap / mremap changes: private anonymous memory at an address
the kernel chose.  It is not for `MAP_GROWSDOWN` (the kernel extends the area downwards on a fault just below it: the
part that grew is not covered by `munmap(addr, len)` and stays mapped for ever), for `MAP_HUGETLB` / `MAP_HUGE_*`
(length rounded up to the huge page size), for `MAP_FIXED` / `MAP_FIXED_NOREPLACE` (the address is the caller's, an
existing mapping may be replaced) or for shared / file mappings.  So the flag word of the stack mmap — re-extracted from
the source on every run (`Gen.Thread.stackMapFlags`), and compared with the flag word of every stack mmap the running
code issues — must lie inside the set below.  (That no mremap / brk ever touches a stack range, and that each stack is
unmapped with exactly its own (addr, len), is observed on every run by the probe's oracles.) -/

/-- MAP_PRIVATE, MAP_ANONYMOUS and the flags that change neither address choice nor extent:
MAP_LOCKED, MAP_NORESERVE, MAP_POPULATE, MAP_NONBLOCK, MAP_STACK (a no-op hint on Linux) -/
abbrev fixedExtentFlags : Nat := 0x2 ||| 0x20 ||| 0x2000 ||| 0x4000 ||| 0x8000 ||| 0x10000 ||| 0x20000

def fixedExtent (f : Nat) : Bool :=
  (f ||| fixedExtentFlags == fixedExtentFlags) && (f &&& 0x2 == 0x2) && (f &&& 0x20 == 0x20)

/-- **the stack is a fixed-extent mapping**: private, anonymous, kernel-chosen address, no flag under which the kernel
may change what `mmap(len)` mapped -/
theorem gen_stack_mapping_fixed_extent : fixedExtent Gen.Thread.stackMapFlags = true := by decide

example : fixedExtent 0x22 = true ∧ fixedExtent 0x20022 = true := by decide
/-- MAP_GROWSDOWN (0x100), MAP_HUGETLB (0x40000), MAP_FIXED (0x10), MAP_SHARED (0x1) are outside -/
example : fixedExtent 0x20122 = false ∧ fixedExtent 0x40022 = false ∧ fixedExtent 0x32 = false ∧ fixedExtent 0x21 = false := by decide

end TinyVerif.Thread
