import TinyVerif.Proofs.IoLemmas
import TinyVerif.Proofs.IoPrint
/-!
# C15 — Read/Write helpers are exact for any pattern of short transfers, EINTR, errors

Model: `Model/Io.lean` (mirror of tiny-std/src/io.rs + io/read_buf.rs, tied to the code by `checks/c15.py`).
Specification side (`Proofs/IoLemmas.lean`, independent of the loops): for a reader script,
`delivered` = concatenation of the data pieces before the first end-of-file / non-EINTR error,
`ending` = how it ends, `consumed` = number of responses up to and including that point,
`Conforming log script` = the reader never claimed more bytes than it was offered.

Every theorem quantifies over *all* scripts, initial contents, initial capacities `cap ≥ len` (exact fit
included) and all growth choices `caps` of the allocator.
-/
namespace TinyVerif.Io

theorem init_inv (init : List Nat) (cap : Nat) (caps : List Nat) (h : init.length ≤ cap) :
    Inv init.length false ⟨init, cap, 0, 0, caps, []⟩ :=
  ⟨h, Nat.le_refl _, Nat.le_refl _, Nat.zero_le _, by simp⟩

/-- **read_to_end_exact.** Unless the reader lied about a length (panic), the buffer is the initial content
followed by exactly the delivered bytes, the result is `Ok(appended count)` at the first end of file or the first
non-EINTR error (with everything delivered so far kept), and the reader is not called again afterwards. -/
theorem read_to_end_exact (init : List Nat) (cap : Nat) (caps : List Nat) (script : List RResp)
    (hcap : init.length ≤ cap) (hp : ∀ site, (readToEnd init cap caps script).res ≠ .panic site) :
    (readToEnd init cap caps script).buf = init ++ delivered script ∧
    (readToEnd init cap caps script).res =
      (match ending script with
       | none => .ok (delivered script).length
       | some e => .err e) ∧
    (readToEnd init cap caps script).used = consumed script := by
  have h := (rte_spec init.length cap script false _ (init_inv init cap caps hcap)).2.2 hp
  refine ⟨h.1, ?_, h.2.2⟩
  have := h.2.1
  simp only [expectRes] at this
  unfold readToEnd
  rw [this]
  cases ending script <;> simp

/-- **asserts unreachable for conforming readers**: a panic outcome (any `assert!`, slice index or subtraction
site of `ReadBuf` / the loop) implies that the reader claimed more bytes than the buffer it was offered. -/
theorem read_to_end_no_panic (init : List Nat) (cap : Nat) (caps : List Nat) (script : List RResp)
    (hcap : init.length ≤ cap) (hc : Conforming (readToEnd init cap caps script).log script) :
    ∀ site, (readToEnd init cap caps script).res ≠ .panic site := by
  intro site hx
  exact (rte_spec init.length cap script false _ (init_inv init cap caps hcap)).2.1 site hx hc

/-- **read_to_end_init_sound.** Whatever the reader does (even a lying one), every `assume_init(initialized)`,
`slice_assume_init_mut` and `set_len` is within the bytes that were really zeroed or written: the `initialized`
count carried into the next round never exceeds the initialised part of the spare capacity. -/
theorem read_to_end_init_sound (init : List Nat) (cap : Nat) (caps : List Nat) (script : List RResp)
    (hcap : init.length ≤ cap) : (readToEnd init cap caps script).unsound = false :=
  (rte_spec init.length cap script false _ (init_inv init cap caps hcap)).1

/-- the loop invariant behind the three theorems above is preserved by every step from every state
(main read and probe read alike), and every step is sound -/
theorem read_to_end_step_invariant (L C : Nat) (p : Bool) (s : St) (h : Inv L p s) (r : RResp) :
    StepOK L s r (step L C p s r) := step_ok C h r


/-- **read_to_string_exact** (`valid` = `str::from_utf8(..).is_ok()`, any decidable predicate): the UTF-8 check
looks at the appended bytes only; valid ⇒ exactly as `read_to_end`; invalid ⇒ `Err` (the reader's error if there
was one) and the String equal to its initial value. -/
theorem read_to_string_exact (valid : List Nat → Bool) (init : List Nat) (cap : Nat) (caps : List Nat)
    (script : List RResp) (hcap : init.length ≤ cap)
    (hp : ∀ site, (readToEnd init cap caps script).res ≠ .panic site) :
    (valid (delivered script) = true →
      (readToString valid init cap caps script).buf = init ++ delivered script ∧
      (readToString valid init cap caps script).res =
        (match ending script with
         | none => .ok (delivered script).length
         | some e => .err e)) ∧
    (valid (delivered script) = false →
      (readToString valid init cap caps script).buf = init ∧
      (readToString valid init cap caps script).res = .err ((ending script).getD .invalidUtf8)) := by
  obtain ⟨h1, h2, _⟩ := read_to_end_exact init cap caps script hcap hp
  unfold readToString
  cases he : ending script with
  | none =>
    rw [he] at h2
    simp only [h2, h1, List.length_append, List.drop_left, List.take_left]
    have : ¬ (init.length + (delivered script).length < init.length) := by omega
    simp only [this, if_false]
    constructor
    · intro hv; simp [hv, h1, h2]
    · intro hv; simp [hv]
  | some e =>
    rw [he] at h2
    simp only [h2, h1, List.length_append, List.drop_left, List.take_left]
    have : ¬ (init.length + (delivered script).length < init.length) := by omega
    simp only [this, if_false]
    constructor
    · intro hv; simp [hv, h1, h2]
    · intro hv; simp [hv]

/-- **read_exact_exact.** With `n` bytes to fill: what was stored is exactly what the consumed responses
delivered, never more than `n`; `Ok` exactly when all `n` arrived (and the reader is then not called again);
otherwise the reader's first non-EINTR error, or the "failed to fill whole buffer" error at end of file. -/
theorem read_exact_exact (n : Nat) (script : List RResp)
    (hp : ∀ site, (readExact n script).res ≠ .panic site) :
    (readExact n script).written = delivered (script.take (readExact n script).used) ∧
    (readExact n script).written.length ≤ n ∧
    ((readExact n script).written.length = n → (readExact n script).res = .ok ()) ∧
    ((readExact n script).written.length < n →
      (readExact n script).used = consumed script ∧
      (readExact n script).res = .err ((ending script).getD .unexpectedEof)) :=
  readExact_spec script n hp

/-- **write_all_exact.** The bytes the writer took are a prefix of the data in order, each once (`WSpec`):
all of them on `Ok`; on `Err e` strictly fewer, equal to the sum of the counts the writer accepted, and `e` is
the answer of the last call (the writer's own error, or the "wrote nothing" error for `Ok(0)`), every earlier
call having been a successful short write or EINTR. -/
theorem write_all_exact (data : List Nat) (script : List WResp)
    (hp : ∀ site, (writeAll data script).res ≠ .panic site) :
    WSpec data script (writeAll data script) := writeAll_spec script data hp


/-- **write_fmt_exact** (for formatting arguments that `fmt::write` turns into the `write_str` pieces `bss`):
the writer receives a prefix of the concatenation, in order, each byte once; all of it on `Ok`; strictly less on
`Err` (the error is the one `write_all` returned for the failing piece, see `write_all_exact`). -/
theorem write_fmt_exact (bss : List (List Nat)) (script : List WResp)
    (hp : ∀ site, (writeFmt (bss.map .str) script).res ≠ .panic site) :
    (writeFmt (bss.map .str) script).sink = bss.flatten.take (writeFmt (bss.map .str) script).sink.length ∧
    ((writeFmt (bss.map .str) script).res = .ok () → (writeFmt (bss.map .str) script).sink = bss.flatten) ∧
    (∀ e, (writeFmt (bss.map .str) script).res = .err e →
      (writeFmt (bss.map .str) script).sink.length < bss.flatten.length) :=
  writeFmt_spec bss script hp


/-! ## The print macros' own `fmt::Write` adapter (tiny-std/src/unix/print.rs)

`tryPrint` mirrors `try_print` (the loop over the `write` system call behind `__UnixWriter::write_str` and
`__write_newline`), `printFmt` what `fmt::write` does with it, `printMacro` one expansion of
`print!`/`eprint!` (`ln = false`) or `println!`/`eprintln!` (`ln = true`), `printSeq` several expansions in a row
(`dbg!(a, b)`).  The kernel's answers are the script; `pos`/`isZero`/`isErr` classify an answer as a positive count,
`0`, or an error (EINTR included — `try_print` does not retry, it reports `fmt::Error`).  `o.calls script` pairs every
consumed answer with the size of the buffer that call offered (the model's log); a call is `failing` when its
answer is an error or `0` although a non-empty buffer was offered (`badZero`; `0` for a zero-length write — an empty
piece, `print!("")` — is the normal answer and is not a failure).

The statements hold for EVERY script of answers.  Before the `fix:` commit e1fd457 they were false for one input
class, a `write` answering `0` to a non-empty buffer: `try_print` then returned `Ok`, the rest of the piece was
dropped and later pieces still written (`Legacy.tryPrint`, witness `print_zero_return_loses_bytes`). -/

/-- **try_print_exact.** For every piece and every script of kernel answers: the descriptor receives a prefix of the
piece, in order, each byte once; the function never panics; `Ok` means that the whole piece was delivered; it returns
`Err` exactly when the last answer it consumed was an error or `0` for a non-empty rest, every earlier answer having
been a positive (short) count, and it issues no `write` after that answer.  Unconsumed answers are left for the next
call. -/
theorem try_print_exact (data : List Nat) (script : List WResp) :
    PSpec data script (tryPrint data script) := tryPrint_spec script data

/-- the result of `try_print` is decided by the calls alone: `Ok` exactly when no call failed -/
theorem try_print_ok_iff (data : List Nat) (script : List WResp) :
    (tryPrint data script).res = .ok () ↔ ∀ c ∈ (tryPrint data script).calls script, failing c = false :=
  (tryPrint_spec script data).ok_iff

/-- **print_fmt_exact.** `fmt::write` into the `__UnixWriter`, for every sequence of `write_str` pieces and every
script: the descriptor receives a prefix of the concatenated pieces, in order, each byte once — all of it when the
result is `Ok`; the result is `Err` exactly when some call failed, and then that call is the first failing one and
the last `write` issued: neither the rest of its piece nor any later piece is written. -/
theorem print_fmt_exact (bss : List (List Nat)) (script : List WResp) :
    FSpec bss script (printFmt (bss.map .str) script) := printFmt_spec bss script

theorem print_fmt_ok_iff (bss : List (List Nat)) (script : List WResp) :
    (printFmt (bss.map .str) script).res = .ok () ↔
      ∀ c ∈ (printFmt (bss.map .str) script).calls script, failing c = false :=
  (printFmt_spec bss script).ok_iff

/-- **print_exact** (`print!`/`eprint!`).  For every script: what reaches the descriptor is a prefix of the rendered
message, in order, each byte once; and it is the whole message, unless a `write` failed or answered `0` for a
non-empty buffer — in which case `write_fmt` reports the error (the macro discards it), that call is the first such
call and the last call made: nothing is written after it. -/
theorem print_exact (bss : List (List Nat)) (script : List WResp) :
    (printMacro false (bss.map .str) script).sink =
      bss.flatten.take (printMacro false (bss.map .str) script).sink.length ∧
    ((printMacro false (bss.map .str) script).sink = bss.flatten ∨
      ((printMacro false (bss.map .str) script).res = .err .formatter ∧
       (printMacro false (bss.map .str) script).log.length = (printMacro false (bss.map .str) script).used ∧
       ∃ p c, (printMacro false (bss.map .str) script).calls script = p ++ [c] ∧ failing c = true ∧
         ∀ x ∈ p, failing x = false)) := by
  have s := printFmt_spec bss script
  have e : printMacro false (bss.map .str) script = printFmt (bss.map .str) script := by simp [printMacro]
  rw [e]
  refine ⟨s.pre, ?_⟩
  rcases s.noPanic with h | h
  · exact .inl (s.complete h)
  · exact .inr ⟨h, s.err _ h⟩

/-- **println_exact** (`println!`/`eprintln!` with arguments), the code as it is: the message part is what
`write_fmt` delivered (`print_fmt_exact`: a prefix of the message, complete unless a call failed), and
`__write_newline` is called WHATEVER `write_fmt` returned — exactly one more `write`, of one byte: the newline
follows the (possibly cut) message if the next answer is a positive count or the script is exhausted, and is lost if
that answer is an error or `0`. -/
theorem println_exact (bss : List (List Nat)) (script : List WResp) :
    FSpec bss script (printFmt (bss.map .str) script) ∧
    (printMacro true (bss.map .str) script).sink =
      (printFmt (bss.map .str) script).sink ++ nlPart (printFmt (bss.map .str) script).rest ∧
    (printMacro true (bss.map .str) script).log = (printFmt (bss.map .str) script).log ++ [1] ∧
    (printMacro true (bss.map .str) script).used =
      (printFmt (bss.map .str) script).used + min 1 (printFmt (bss.map .str) script).rest.length :=
  ⟨printFmt_spec bss script, printMacro_ln _ script⟩

/-- **print_macro_in_order.** One `print!`/`println!`/`eprint!`/`eprintln!`, every script: what reaches the
descriptor is a prefix of the rendered message followed by a prefix of the newline (for the `ln` forms) — never bytes
out of order, never a byte twice, never a hole inside the message. -/
theorem print_macro_in_order (ln : Bool) (bss : List (List Nat)) (script : List WResp) :
    ∃ n m, (printMacro ln (bss.map .str) script).sink = bss.flatten.take n ++ (nlOf ln).take m :=
  printMacro_form ln bss script

/-- **print_macro_complete.** If no call failed (no error, no `0` for a non-empty buffer; any pattern of short
writes, `0` answered to the zero-length writes of empty pieces), the descriptor receives exactly the rendered
message and the newline. -/
theorem print_macro_complete (ln : Bool) (bss : List (List Nat)) (script : List WResp)
    (h : ∀ c ∈ (printMacro ln (bss.map .str) script).calls script, failing c = false) :
    (printMacro ln (bss.map .str) script).sink = bss.flatten ++ nlOf ln :=
  printMacro_complete ln bss script h

/-- **print_macro_short_writes_exact.** Under a kernel that only ever takes fewer bytes than offered (any pattern of
positive counts, no error, no `0`), the descriptor receives exactly the rendered message and the newline, whatever
the lengths of the pieces. -/
theorem print_macro_short_writes_exact (ln : Bool) (bss : List (List Nat)) (script : List WResp)
    (h : ∀ r ∈ script.take (printMacro ln (bss.map .str) script).used, r.pos = true) :
    (printMacro ln (bss.map .str) script).sink = bss.flatten ++ nlOf ln :=
  printMacro_short_writes ln bss script h

/-- the same for a sequence of expansions on one descriptor (`dbg!(a, b)`), which continue on the rest of the script -/
theorem print_seq_complete (ms : List (Bool × List (List Nat))) (script : List WResp)
    (h : ∀ c ∈ (printSeq (seqItems ms) script).calls script, failing c = false) :
    (printSeq (seqItems ms) script).sink = seqRender ms :=
  printSeq_complete ms script h

theorem print_seq_short_writes_exact (ms : List (Bool × List (List Nat))) (script : List WResp)
    (h : ∀ r ∈ script.take (printSeq (seqItems ms) script).used, r.pos = true) :
    (printSeq (seqItems ms) script).sink = seqRender ms :=
  printSeq_short_writes ms script h

/-- **the defect repaired by e1fd457** (witness on the code before the fix, `Legacy`): a `write` returning `0` for a
non-empty buffer made `try_print` report `Ok`, drop the rest of that piece and carry on with the next piece —
"abc" "de" under the answers 1, 0 reached the descriptor as "ade" with result `Ok`.  The code as it is now stops
there: "a" reaches the descriptor, `write_fmt` reports the error, the third answer is left unconsumed. -/
theorem print_zero_return_loses_bytes :
    ((Legacy.printFmt [.str [0x61, 0x62, 0x63], .str [0x64, 0x65]] [.accept 1, .accept 0, .accept 2]).sink = [0x61, 0x64, 0x65] ∧
     (Legacy.printFmt [.str [0x61, 0x62, 0x63], .str [0x64, 0x65]] [.accept 1, .accept 0, .accept 2]).res = .ok ()) ∧
    ((printFmt [.str [0x61, 0x62, 0x63], .str [0x64, 0x65]] [.accept 1, .accept 0, .accept 2]).sink = [0x61] ∧
     (printFmt [.str [0x61, 0x62, 0x63], .str [0x64, 0x65]] [.accept 1, .accept 0, .accept 2]).res = .err .formatter ∧
     (printFmt [.str [0x61, 0x62, 0x63], .str [0x64, 0x65]] [.accept 1, .accept 0, .accept 2]).rest = [.accept 2]) := by
  decide

/-- the code before the fix does not satisfy `print_fmt_exact` / `print_macro_in_order`: its output on the witness
is not a prefix of the message (and not of the form prefix ++ newline prefix for `println!`) -/
theorem legacy_print_not_exact :
    ¬ FSpec [[0x61, 0x62, 0x63], [0x64, 0x65]] [.accept 1, .accept 0]
      (Legacy.printFmt ([[0x61, 0x62, 0x63], [0x64, 0x65]].map .str) [.accept 1, .accept 0]) ∧
    ¬ ∃ n m, (Legacy.printMacro true ([[0x61, 0x62, 0x63], [0x64, 0x65]].map .str) [.accept 1, .accept 0]).sink =
      ([[0x61, 0x62, 0x63], [0x64, 0x65]] : List (List Nat)).flatten.take n ++ (nlOf true).take m := by
  constructor
  · intro h
    have := h.pre
    revert this
    decide
  · have e : (Legacy.printMacro true ([[0x61, 0x62, 0x63], [0x64, 0x65]].map .str) [.accept 1, .accept 0]).sink =
        [0x61, 0x64, 0x65, 10] := by decide
    rw [e]
    rintro ⟨n, m, h⟩
    have h1 : ([[0x61, 0x62, 0x63], [0x64, 0x65]] : List (List Nat)).flatten = [0x61, 0x62, 0x63, 0x64, 0x65] := by decide
    rw [h1] at h
    match n, h with
    | 0, h => cases m <;> simp [nlOf, NL] at h
    | 1, h => cases m <;> simp [nlOf, NL] at h
    | n + 2, h => simp at h

/-- `filled ≤ initialized ≤ capacity` -/
def ReadBuf.WF (b : ReadBuf) : Prop := b.filled ≤ b.init ∧ b.init ≤ b.cap

/-- **readbuf_invariant.** Every `ReadBuf` method keeps `filled ≤ initialized ≤ capacity`; under it the
`assert!`s and slice indices of `initialize_unfilled(_to)` cannot fire when `n ≤ remaining()`, and `add_filled(n)`
fires its assert exactly when `n` exceeds the initialised-but-unfilled bytes (a reader claiming more than it was
offered). -/
theorem readbuf_invariant (b : ReadBuf) (h : b.WF) :
    (ReadBuf.uninit b.cap b.ginit).WF ∧
    (∀ n, b.filled + n ≤ b.cap → (b.assumeInit n).WF ∧ (b.assumeInit n).filled = b.filled ∧ (b.assumeInit n).cap = b.cap) ∧
    (b.remaining = .ok (b.cap - b.filled)) ∧
    (∀ n, n ≤ b.cap - b.filled → ∃ b', b.initializeUnfilledTo n = .ok b' ∧ b'.WF ∧ b'.filled = b.filled ∧
        b'.cap = b.cap ∧ b.filled + n ≤ b'.init) ∧
    (∀ n, n ≤ b.init - b.filled → ∃ b', b.addFilled n = .ok b' ∧ b'.WF ∧ b'.filled = b.filled + n) ∧
    (∀ n, b.init - b.filled < n → b.addFilled n = .panic .setFilledAssert) := by
  obtain ⟨h1, h2⟩ := h
  refine ⟨?_, ?_, ?_, ?_, ?_, ?_⟩
  · simp [ReadBuf.WF, ReadBuf.uninit]
  · intro n hn
    refine ⟨⟨?_, ?_⟩, rfl, rfl⟩ <;> simp only [ReadBuf.assumeInit] <;> omega
  · have : b.filled ≤ b.cap := by omega
    simp [ReadBuf.remaining, this]
  · intro n hn
    have hf : b.filled ≤ b.cap := by omega
    have h3 : ¬ (b.cap - b.filled < n) := by omega
    have h4 : ¬ (b.init < b.filled) := by omega
    have h5 : ¬ (b.cap < b.init) := by omega
    by_cases hx : n > b.init - b.filled
    · have h6 : ¬ (b.cap - b.init < n - (b.init - b.filled)) := by omega
      have h7 : ¬ (b.cap < max b.init (b.filled + n)) := by omega
      have h8 : ¬ (max b.init (b.filled + n) < b.filled + n) := by omega
      simp only [ReadBuf.initializeUnfilledTo, ReadBuf.remaining, hf, if_true, h3, h4, h5, h6, if_false, hx,
        ReadBuf.assumeInit, h7, h8]
      refine ⟨_, rfl, ?_, rfl, rfl, ?_⟩
      · simp only [ReadBuf.WF]; omega
      · simp only []; omega
    · have h8 : ¬ (b.init < b.filled + n) := by omega
      simp only [ReadBuf.initializeUnfilledTo, ReadBuf.remaining, hf, if_true, h3, h4, h5, if_false, hx, h8]
      refine ⟨_, rfl, ?_, rfl, rfl, ?_⟩
      · simp only [ReadBuf.WF]; omega
      · simp only []; omega
  · intro n hn
    have : b.filled + n ≤ b.init := by omega
    simp only [ReadBuf.addFilled, ReadBuf.setFilled, this, if_true]
    refine ⟨_, rfl, ?_, rfl⟩
    simp only [ReadBuf.WF]; omega
  · intro n hn
    have : ¬ (b.filled + n ≤ b.init) := by omega
    simp [ReadBuf.addFilled, ReadBuf.setFilled, this]

/-! ## non-vacuity: concrete scripts exercising every hypothesis set (evaluated by the kernel) -/

/-- exact-fit capacity 3: main read, probe read (32 offered), growth to 5 by `extend_from_slice`, immediate second
growth by `reserve(32)`, EINTR, a hard error after 4 delivered bytes; 0x0b is never asked for -/
example : (readToEnd [1, 2] 3 [] [.data [3], .data [4, 5], .eintr, .data [6], .err 5, .data [0x0b]]).buf = [1, 2, 3, 4, 5, 6] ∧
    (readToEnd [1, 2] 3 [] [.data [3], .data [4, 5], .eintr, .data [6], .err 5, .data [0x0b]]).res = .err (.os 5) ∧
    (readToEnd [1, 2] 3 [] [.data [3], .data [4, 5], .eintr, .data [6], .err 5, .data [0x0b]]).used = 5 ∧
    (readToEnd [1, 2] 3 [] [.data [3], .data [4, 5], .eintr, .data [6], .err 5, .data [0x0b]]).grown = [5, 37] := by
  decide
example : ∀ site, (readToEnd [1, 2] 3 [] [.data [3], .data [4, 5], .eintr, .data [6], .err 5, .data [0x0b]]).res ≠ .panic site := by
  have h : (readToEnd [1, 2] 3 [] [.data [3], .data [4, 5], .eintr, .data [6], .err 5, .data [0x0b]]).res = .err (.os 5) := by decide
  rw [h]; intro site hx; cases hx

/-- the hypotheses of `read_to_end_no_panic` hold for a real run, and fail for a lying reader -/
example : Conforming (readToEnd [] 0 [40] [.data [7, 8], .eof]).log [.data [7, 8], .eof] ∧
    (readToEnd [] 0 [40] [.data [7, 8], .eof]).res = .ok 2 := by
  have h : (readToEnd [] 0 [40] [.data [7, 8], .eof]).log = [⟨false, 40, 0⟩, ⟨false, 38, 38⟩] := by decide
  rw [h]
  exact ⟨by simp [Conforming], by decide⟩
example : (readToEnd [9] 2 [] [.data [7, 8]]).res = .panic .setFilledAssert ∧
    (readToEnd [9] 2 [] [.data [7, 8]]).unsound = false := by decide

/-- the carried-over `initialized` is really used (30 bytes carried into the second read) -/
example : (readToEnd [] 0 [] [.data [1, 2], .eof]).log = [⟨false, 32, 0⟩, ⟨false, 30, 30⟩] := by decide

/-- read_to_string: a 2-byte scalar split across two reads is accepted; a truncated one restores the String -/
example : (readToString utf8Valid [0x41] 4 [] [.data [0xc3], .data [0xa9], .eof]).buf = [0x41, 0xc3, 0xa9] ∧
    (readToString utf8Valid [0x41] 4 [] [.data [0xc3], .data [0xa9], .eof]).res = .ok 2 := by decide
example : (readToString utf8Valid [0x41] 4 [] [.data [0xc3], .eof]).buf = [0x41] ∧
    (readToString utf8Valid [0x41] 4 [] [.data [0xc3], .eof]).res = .err .invalidUtf8 := by decide

example : (readExact 4 [.data [1], .eintr, .data [2, 3], .eof]).res = .err .unexpectedEof ∧
    (readExact 4 [.data [1], .eintr, .data [2, 3], .eof]).written = [1, 2, 3] ∧
    (readExact 2 [.data [1], .data [2], .data [3]]).used = 2 := by decide

example : (writeAll [1, 2, 3, 4, 5] [.accept 2, .eintr, .accept 0]).res = .err .writeZero ∧
    (writeAll [1, 2, 3, 4, 5] [.accept 2, .eintr, .accept 0]).sink = [1, 2] ∧
    (writeAll [1, 2, 3] [.accept 1, .err 4, .accept 2, .err 9]).res = .ok () ∧
    (writeAll [1, 2, 3] [.accept 4]).res = .panic .writeAllSlice := by decide

example : (writeFmt [.str [0x5b], .str [1, 2], .str [], .str [0x5d]] [.accept 1, .accept 1, .err 28]).res = .err (.os 28) ∧
    (writeFmt [.str [0x5b], .str [1, 2], .str [], .str [0x5d]] [.accept 1, .accept 1, .err 28]).sink = [0x5b, 1] ∧
    (writeFmt [.str [1], .fail, .str [2]] []).res = .err .formatter := by decide

/-- print path: short writes over pieces of different lengths, then the newline; the hypothesis of
`print_macro_short_writes_exact` holds for this script (every consumed answer is a positive count) -/
example : (printMacro true [.str [1, 2, 3], .str [], .str [4, 5]] [.accept 2, .accept 5, .accept 0, .accept 1]).sink = [1, 2, 3, 4, 5, 10] ∧
    (printMacro true [.str [1, 2, 3], .str [4, 5]] [.accept 2, .accept 5, .accept 1]).used = 3 := by decide
example : ∀ r ∈ ([.accept 2, .accept 5, .accept 1] : List WResp).take
    (printMacro true ([[1, 2, 3], [4, 5]].map .str) [.accept 2, .accept 5, .accept 1]).used, r.pos = true := by decide

/-- the hypothesis of `print_macro_complete` / `print_seq_complete` (no failing call) holds for a script with short
writes and a `0` answered to the zero-length write of an empty piece — the whole message and the newline arrive —
and fails for an EINTR and for a `0` answered to a non-empty buffer -/
example : (∀ c ∈ (printMacro true ([[1, 2], [], [3, 4]].map .str) [.accept 1, .accept 1, .accept 0, .accept 1, .accept 1, .accept 1]).calls
      [.accept 1, .accept 1, .accept 0, .accept 1, .accept 1, .accept 1], failing c = false) ∧
    (printMacro true ([[1, 2], [], [3, 4]].map .str) [.accept 1, .accept 1, .accept 0, .accept 1, .accept 1, .accept 1]).sink = [1, 2, 3, 4, 10] ∧
    ¬ (∀ c ∈ (printMacro true ([[1, 2], [], [3, 4]].map .str) [.accept 1, .accept 1, .accept 0, .eintr, .accept 1]).calls
      [.accept 1, .accept 1, .accept 0, .eintr, .accept 1], failing c = false) ∧
    ¬ (∀ c ∈ (printMacro false ([[1, 2]].map .str) [.accept 0]).calls [.accept 0], failing c = false) := by decide

/-- the second alternative of `print_exact` is taken by real runs: `0` answered to the non-empty rest of a piece ends
the message there with `Err`, the failing call is the last one, the later piece is not written and its answer stays
unconsumed; `0` answered to an empty piece is `Ok` and the message goes on -/
example : (printMacro false ([[1, 2, 3], [4]].map .str) [.accept 1, .accept 0, .accept 1]).sink = [1] ∧
    (printMacro false ([[1, 2, 3], [4]].map .str) [.accept 1, .accept 0, .accept 1]).res = .err .formatter ∧
    (printMacro false ([[1, 2, 3], [4]].map .str) [.accept 1, .accept 0, .accept 1]).calls [.accept 1, .accept 0, .accept 1] =
      [(3, .accept 1), (2, .accept 0)] ∧
    (printMacro false ([[1, 2, 3], [4]].map .str) [.accept 1, .accept 0, .accept 1]).rest = [.accept 1] ∧
    (printMacro false ([[], [4]].map .str) [.accept 0, .accept 1]).sink = [4] ∧
    (printMacro false ([[], [4]].map .str) [.accept 0, .accept 1]).res = .ok () := by decide

/-- `println_exact` on real runs: after a message cut by a `0` (or an EINTR — not retried) the newline is still
written ("prefix, then newline"); it is lost when its own answer is `0` or an error;
`print!("")` issues one zero-length write; a failing `Display` impl stops the message without a write -/
example : (printMacro true [.str [1, 2, 3], .str [4]] [.accept 1, .accept 0, .accept 1]).sink = [1, 10] ∧
    (printMacro true [.str [1, 2, 3], .str [4]] [.accept 1, .accept 0, .accept 1]).log = [3, 2, 1] ∧
    (printMacro true [.str [1, 2, 3], .str [4]] [.accept 1, .eintr, .accept 1]).sink = [1, 10] ∧
    (printFmt [.str [1, 2, 3], .str [4]] [.accept 1, .eintr, .accept 1]).res = .err .formatter ∧
    (printMacro true [.str [1, 2, 3], .str [4]] [.accept 3, .accept 1, .accept 0]).sink = [1, 2, 3, 4] ∧
    (printMacro true [.str [1, 2, 3], .str [4]] [.accept 1, .accept 0, .err 5]).sink = [1] ∧
    (printMacro false [.str []] [.err 5]).used = 1 ∧
    (printMacro true [.str [1], .fail, .str [2]] []).sink = [1, 10] := by decide

/-- `dbg!(a, b)`: two `eprintln!` expansions sharing the script -/
example : (printSeq [(true, [.str [0x5b], .str [1]]), (true, [.str [0x5b], .str [2]])] [.accept 1, .accept 1, .accept 1, .accept 1]).sink =
    [0x5b, 1, 10, 0x5b, 2, 10] := by decide

example : (⟨10, 3, 5, 5, false⟩ : ReadBuf).WF := ⟨by decide, by decide⟩

end TinyVerif.Io
