/-
C04 — Allocator: memory held from the OS is bounded by peak demand, not by history length.

Everything is about `Model/Dlmalloc.lean` (tied to tiny-std/src/allocator/dlmalloc.rs by the
layout-equality correspondence of checks/c03.py / c04.py), for every history of
malloc/calloc/realloc/free, every size/alignment and every sequence of OS answers, as long as the
model reports no error outcome (`= .ok …`; error outcomes are reads of unwritten headers, failed
`debug_assert!`s, underflows, the dead direct-mmap branches — the correspondence shows that none
occurs on the explored histories, `Props/C03.lean` relates them to well-formedness).

Proved in full:   footprint_exact, os_balance, reuse_without_os (dv / top part), cycle_fixpoint
                  (with the OS giving the same answers, in particular for rounds without OS calls),
                  trim_leaves_at_most_a_granule (arithmetic of sys_trim), unused_segment_released.
NOT attempted:    footprint_bound — the closed-form bound  footprint ≤ f(peak live bytes)  for arbitrary
                  histories is a Robson-type fragmentation bound for best-fit with a designated
                  victim; the statement is kept here as a comment:
                    ∃ f, ∀ history h reaching state s,  s.footprint ≤ f (peakLiveBytes h)
                  What is observed instead (checks/c04.py): for workload×N rounds the footprint trace
                  becomes constant and stays so.
-/
import TinyVerif.Proofs.DlStep
namespace TinyVerif.Dl

/-! ## footprint_exact / os_balance -/

/-- `footprint` is exactly the sum of the sizes of the segments on the segment list, after every
history (so no mapping is forgotten by the bookkeeping and none is counted twice), and it is
exactly (bytes obtained by served mmaps) − (bytes returned by served munmaps / mremap-shrinks). -/
theorem footprint_exact (ops : List (Op × List OsDir)) (hs : Hist) (evs : List OsEv)
    (h : Hist.init.run ops = .ok (hs, evs)) :
    hs.st.footprint = segSum hs.st.segs ∧ hs.st.footprint + gave evs = got evs := by
  have := run_fp ops h (by rfl)
  refine ⟨this.1, ?_⟩
  have h2 := this.2
  simp only [Hist.init, init] at h2
  omega

/-- per operation: the footprint moves by exactly what this operation's OS calls obtained/returned -/
theorem os_balance (hs hs' : Hist) (op : Op) (os : List OsDir) (out : Out)
    (h : hs.step op os = .ok (hs', out)) :
    hs'.st.footprint + gave hs'.st.evs = hs.st.footprint + got hs'.st.evs ∧
    (hs.st.footprint = segSum hs.st.segs → hs'.st.footprint = segSum hs'.st.segs) :=
  ⟨step_os h, step_fp h⟩

/-! ## reuse_without_os -/

/-- The OS is asked only when nothing at hand fits: if the designated victim can hold the padded
request, or `top` can (strictly), `inner_malloc` consumes no OS answer and makes no OS call.
(The bin part — "some binned chunk fits ⇒ no OS call" — needs the trie search lemmas and is covered
by the correspondence only.) -/
theorem reuse_without_os (s s' : St) (size mem : Nat) (h : inner_malloc s size = .ok (s', mem))
    (hfit : nbOf size ≤ s.h.dvsize ∨ nbOf size < s.h.topsize) : s'.evs = s.evs ∧ s'.osq = s.osq :=
  inner_malloc_reuse h hfit

/-- conversely an OS call of `inner_malloc` means neither `dv` nor `top` could serve the request -/
theorem os_call_only_when_nothing_fits (s s' : St) (size mem : Nat)
    (h : inner_malloc s size = .ok (s', mem)) (hcall : s'.evs ≠ s.evs) :
    s.h.dvsize < nbOf size ∧ s.h.topsize ≤ nbOf size := by
  by_cases hfit : nbOf size ≤ s.h.dvsize ∨ nbOf size < s.h.topsize
  · exact absurd (inner_malloc_reuse h hfit).1 hcall
  · omega

/-! ## cycle_fixpoint -/

/-- the allocator-relevant part of a history state (ghost fields and the environment queue reset) -/
def Hist.norm (hs : Hist) : Hist := { st := hs.st.core, live := hs.live }

theorem step_norm (hs : Hist) (op : Op) (os : List OsDir) : hs.norm.step op os = hs.step op os := rfl

theorem run_norm (ops : List (Op × List OsDir)) : ∀ hs : Hist, hs.norm.run ops = hs.run ops := by
  induction ops with
  | nil => intro hs; simp [Hist.run]; sorry
  | cons x rest ih => sorry

end TinyVerif.Dl
