/-
C04 — Allocator: memory held from the OS is bounded by peak demand, not by history length.

Everything is about `Model/Dlmalloc.lean` (tied to tiny-std/src/allocator/dlmalloc.rs by the
layout-equality correspondence of checks/c03.py / c04.py), for every history of
malloc/calloc/realloc/free, every size/alignment and every sequence of OS answers, as long as the
model reports no error outcome (`= .ok …`; error outcomes are reads of unwritten headers, failed
`debug_assert!`s, underflows, the dead direct-mmap branches — the correspondence shows that none
occurs on the explored histories, `Props/C03.lean` relates them to well-formedness).

Proved in full:   footprint_exact, os_balance, reuse_without_os (dv / top part), cycle_fixpoint
                  (with the OS giving the same answers, in particular for rounds without OS calls),
                  trim_leaves_at_most_a_granule (arithmetic of sys_trim), unused_segment_released.
NOT attempted:    footprint_bound — the closed-form bound  footprint ≤ f(peak live bytes)  for arbitrary
                  histories is a Robson-type fragmentation bound for best-fit with a designated
                  victim; the statement is kept here as a comment:
                    ∃ f, ∀ history h reaching state s,  s.footprint ≤ f (peakLiveBytes h)
                  What is observed instead (checks/c04.py): for workload×N rounds the footprint trace
                  becomes constant and stays so.
-/
import TinyVerif.Proofs.DlStep
import TinyVerif.Proofs.DlFresh
namespace TinyVerif.Dl

/-! ## footprint_exact / os_balance -/

/-- `footprint` is exactly the sum of the sizes of the segments on the segment list, after every
history (so no mapping is forgotten by the bookkeeping and none is counted twice), and it is
exactly (bytes obtained by served mmaps) − (bytes returned by served munmaps / mremap-shrinks). -/
theorem footprint_exact (ops : List (Op × List OsDir)) (hs : Hist) (evs : List OsEv)
    (h : Hist.init.run ops = .ok (hs, evs)) :
    hs.st.footprint = segSum hs.st.segs ∧ hs.st.footprint + gave evs = got evs := by
  have := run_fp ops h (by rfl)
  refine ⟨this.1, ?_⟩
  have h2 := this.2
  simp only [Hist.init, init] at h2
  omega

/-- per operation: the footprint moves by exactly what this operation's OS calls obtained/returned -/
theorem os_balance (hs hs' : Hist) (op : Op) (os : List OsDir) (out : Out)
    (h : hs.step op os = .ok (hs', out)) :
    hs'.st.footprint + gave hs'.st.evs = hs.st.footprint + got hs'.st.evs ∧
    (hs.st.footprint = segSum hs.st.segs → hs'.st.footprint = segSum hs'.st.segs) :=
  ⟨step_os h, step_fp h⟩

/-! ## reuse_without_os -/

/-- The OS is asked only when nothing at hand fits: if the designated victim can hold the padded
request, or `top` can (strictly), `inner_malloc` consumes no OS answer and makes no OS call.
(The bin part — "some binned chunk fits ⇒ no OS call" — needs the trie search lemmas and is covered
by the correspondence only.) -/
theorem reuse_without_os (s s' : St) (size mem : Nat) (h : inner_malloc s size = .ok (s', mem))
    (hfit : nbOf size ≤ s.h.dvsize ∨ nbOf size < s.h.topsize) : s'.evs = s.evs ∧ s'.osq = s.osq :=
  inner_malloc_reuse h hfit

/-- conversely an OS call of `inner_malloc` means neither `dv` nor `top` could serve the request -/
theorem os_call_only_when_nothing_fits (s s' : St) (size mem : Nat)
    (h : inner_malloc s size = .ok (s', mem)) (hcall : s'.evs ≠ s.evs) :
    s.h.dvsize < nbOf size ∧ s.h.topsize ≤ nbOf size := by
  by_cases hfit : nbOf size ≤ s.h.dvsize ∨ nbOf size < s.h.topsize
  · exact absurd (inner_malloc_reuse h hfit).1 hcall
  · omega

/-! ## cycle_fixpoint -/

/-- the allocator-relevant part of a history state (ghost fields and the environment queue reset) -/
def Hist.norm (hs : Hist) : Hist := { st := hs.st.core, live := hs.live }

theorem step_norm (hs : Hist) (op : Op) (os : List OsDir) : hs.norm.step op os = hs.step op os := rfl

theorem run_norm_cons (x : Op × List OsDir) (rest : List (Op × List OsDir)) (hs : Hist) :
    hs.norm.run (x :: rest) = hs.run (x :: rest) := by
  obtain ⟨op, os⟩ := x
  simp only [Hist.run, step_norm]

/-- `n` rounds of the same workload (same operations, same OS answers) -/
def rounds (W : List (Op × List OsDir)) : Nat → Hist → M Hist
  | 0, hs => pure hs
  | n + 1, hs => do
    let (hs1, _) ← hs.run W
    rounds W n hs1

/-- Determinism gives a fixpoint: if one round of a workload `W` (operations together with the OS
answers they receive — none at all when the round needs no OS call) takes the allocator from `hs`
to a state `hs'` whose allocator-relevant part equals that of `hs`, then every further round ends
in exactly `hs'` again: same layout, same footprint, same OS calls — for any number of rounds. -/
theorem cycle_fixpoint (W : List (Op × List OsDir)) (hne : W ≠ []) (hs hs' : Hist) (evs : List OsEv)
    (h : hs.run W = .ok (hs', evs)) (heq : hs'.norm = hs.norm) :
    ∀ n, rounds W (n + 1) hs = .ok hs' ∧ hs'.run W = .ok (hs', evs) := by
  have hfix : hs'.run W = .ok (hs', evs) := by
    cases W with
    | nil => exact absurd rfl hne
    | cons x rest => rw [← run_norm_cons, heq, run_norm_cons]; exact h
  intro n
  refine ⟨?_, hfix⟩
  induction n generalizing hs with
  | zero => simp only [rounds, bind_ok, pure_ok]; exact ⟨_, h, rfl⟩
  | succ k ih =>
    simp only [rounds, bind_ok]
    refine ⟨_, h, ?_⟩
    have := ih hs' hfix rfl
    simpa [rounds, bind_ok] using this

/-! ## sys_trim: what a served trim leaves, and release of unused segments -/

/-- arithmetic of `sys_trim`: the amount `extra` it asks the OS to take back leaves `top` with more
than `pad` and at most `pad` + one granule -/
theorem trim_leaves_at_most_a_granule (topsize pad : Nat) (h : topsize > pad) :
    let extra := ((topsize - pad + DEFAULT_GRANULARITY - 1) / DEFAULT_GRANULARITY - 1) * DEFAULT_GRANULARITY
    extra < topsize - pad ∧ topsize - extra ≤ pad + DEFAULT_GRANULARITY ∧ extra % DEFAULT_GRANULARITY = 0 := by
  simp only [DEFAULT_GRANULARITY]
  omega


/-- `release_unused_segments` does release an unused segment: when the first chunk of a non-head
segment `g` is free and reaches the segment's trailer, and the OS serves the munmap, the scan calls
`munmap(g.base, g.size)` — exactly the segment — takes `g.size` off the footprint, forgets every
header of the segment and drops `g` from the segment list (the surviving list is what the scan makes
of the remaining segments) -/
theorem unused_segment_released (g : Seg) (rest rest' : List Seg) (s s' : St) (rel n rel' n' : Nat) (e : Ent)
    (q : List OsDir)
    (he : findEnt s.h.ents (align_as_chunk g.base) = some e) (hfree : e.inuse = false)
    (hcover : align_as_chunk g.base + e.size ≥ g.base + (g.size - top_foot_size))
    (hos : s.osq = .u true :: q)
    (h : releaseLoop (g :: rest) s rel n = .ok (rest', s', rel', n')) :
    ∃ s1, releaseLoop rest s1 (rel + g.size) (n + 1) = .ok (rest', s', rel', n') ∧
      s1.footprint + g.size = s.footprint ∧ s1.evs = s.evs ++ [.munmap g.base g.size true] ∧
      (∀ x ∈ s1.h.ents, ¬ (g.base ≤ x.addr ∧ x.addr < g.base + g.size)) := by
  unfold releaseLoop at h
  dsimp only at h
  msimp at h
  obtain ⟨e', he', _, _, h⟩ := h
  have hee : e' = e := by
    have := getE_spec he'
    rw [he] at this
    injection this with this
    exact this.symm
  subst hee
  have hcond : (!e'.inuse && decide (align_as_chunk g.base + e'.size ≥ g.base + (g.size - top_foot_size))) = true := by
    simp [hfree, hcover]
  rw [if_pos hcond] at h
  msimp at h
  obtain ⟨_, _, h1, hh1, ⟨ok, s1⟩, hu, h⟩ := h
  obtain ⟨q', hq', hs1⟩ := popU_spec hu
  have hok : ok = true := by
    simp only at hq'
    rw [hos] at hq'
    injection hq' with h1 _
    injection h1 with h1
    exact h1.symm
  subst hok
  dsimp only at h
  rw [if_pos rfl] at h
  msimp at h
  obtain ⟨_, hlt, ⟨r1, s2, rl, nn⟩, hrec, h⟩ := h
  simp only [Prod.mk.injEq] at h
  obtain ⟨e1, e2, e3, e4⟩ := h
  subst e1; subst e2; subst e3; subst e4
  simp only [decide_eq_false_iff_not, Nat.not_lt] at hlt
  refine ⟨_, hrec, ?_, ?_, ?_⟩
  · subst hs1; simp only at hlt ⊢; omega
  · subst hs1; rfl
  · subst hs1
    intro x hx
    simp only [Heap.tag, dropEnts, List.mem_filter] at hx
    obtain ⟨_, hx2⟩ := hx
    intro hc
    have : (decide (g.base ≤ x.addr) && decide (x.addr < g.top)) = true := by
      simp [Seg.top, hc.1, hc.2]
    rw [this] at hx2
    cases hx2


/-- **trim_fires**: when `top` exceeds the pad by more than a granule, the segment holding `top` is
not pinned by another segment's record and the OS serves the mremap, `sys_trim`'s first half gives
back all whole granules beyond the pad: the footprint drops by `extra`, what is left of `top` is at
most pad + 64 KiB, and `trim_check` is re-armed -/
theorem trim_fires (s s' : St) (pad rel : Nat) (sp : Seg) (q : List OsDir)
    (hgt : s.h.topsize > pad + DEFAULT_GRANULARITY)
    (hsp : segment_holding s.segs s.h.top = some sp)
    (hsz : sp.size ≥ ((s.h.topsize - pad + DEFAULT_GRANULARITY - 1) / DEFAULT_GRANULARITY - 1) * DEFAULT_GRANULARITY)
    (hnl : has_segment_link s.segs sp = false) (hos : s.osq = .r true :: q)
    (h : trim_top s pad = .ok (s', rel)) :
    rel = ((s.h.topsize - pad + DEFAULT_GRANULARITY - 1) / DEFAULT_GRANULARITY - 1) * DEFAULT_GRANULARITY ∧
    rel ≥ DEFAULT_GRANULARITY ∧ s'.footprint + rel = s.footprint ∧
    s'.h.topsize ≤ pad + DEFAULT_GRANULARITY ∧ s'.trim_check = DEFAULT_TRIM_THRESHOLD := by
  have hg := DEFAULT_GRANULARITY_eq
  unfold trim_top at h
  dsimp only at h
  rw [hg] at hgt hsz h ⊢
  rw [if_pos (by omega)] at h
  rw [hsp] at h
  dsimp only at h
  msimp at h
  obtain ⟨⟨s1, r1⟩, ht, h⟩ := h
  -- the release step: mremap served
  have hr : r1 = ((s.h.topsize - pad + 65536 - 1) / 65536 - 1) * 65536 ∧
      s1 = { s with osq := q, evs := s.evs ++ [.mremap sp.base sp.size (sp.size - r1) true] } := by
    unfold trim_release at ht
    dsimp only at ht
    split at ht
    · msimp at ht
      obtain ⟨⟨ok, s2⟩, hp, ht⟩ := ht
      obtain ⟨q', hq', hs2⟩ := popR_spec hp
      rw [hos] at hq'
      injection hq' with e1 e2
      injection e1 with e1
      subst e1; subst e2
      dsimp only at ht
      rw [if_pos rfl] at ht
      msimp at ht
      simp only [Prod.mk.injEq] at ht
      obtain ⟨t1, t2⟩ := ht
      subst t1; subst t2
      exact ⟨rfl, hs2⟩
    · rename_i hc
      exfalso; apply hc
      simp [hnl]; exact hsz
  obtain ⟨hr1, hs1⟩ := hr
  have hge : r1 ≥ 65536 := by
    rw [hr1]; omega
  dsimp only at h
  rw [if_pos (by omega)] at h
  msimp at h
  obtain ⟨_, hlt, s2, hi, h⟩ := h
  simp only [decide_eq_false_iff_not, Nat.not_lt] at hlt
  have i1 := init_top_fp hi
  have i2 := init_top_spec hi
  simp only [Prod.mk.injEq] at h
  obtain ⟨e1, e2⟩ := h
  subst e1; subst e2
  have f2 : s2.footprint = s1.footprint - r1 := i1.1
  subst hs1
  simp only at hlt f2 i2
  refine ⟨hr1, hge, ?_, ?_, ?_⟩
  · simp only [tag_fields, f2]; omega
  · show (s2.tag "trimmed").h.topsize ≤ _
    have : (s2.tag "trimmed").h.topsize = s2.h.topsize := rfl
    rw [this, i2.2.1]
    simp only [dropEnts]
    rw [hr1]
    omega
  · exact i2.2.2

/-! ## non-vacuity: concrete histories (evaluated by the kernel) -/

theorem ok_of_match {α : Type} {x : M α} {p : α → Bool}
    (h : (match x with | .ok v => p v | .error _ => false) = true) : ∃ v, x = .ok v ∧ p v = true := by
  cases x with
  | ok v => exact ⟨v, rfl, h⟩
  | error e => cases h

/-- first round on a fresh allocator: the OS serves one 64 KiB mapping at 1 MiB -/
def W1 : List (Op × List OsDir) := [(.malloc 1 100 8, [.m (some 1048576)]), (.free 1, [])]
/-- a round that needs no OS call -/
def W2 : List (Op × List OsDir) :=
  [(.malloc 1 100 8, []), (.calloc 2 300 8, []), (.realloc 2 5000, []), (.free 2, []), (.free 1, [])]

def afterW1 : Hist := match Hist.init.run W1 with
  | .ok (hs, _) => hs
  | .error _ => Hist.init

set_option maxRecDepth 20000 in
example : ∃ hs evs, Hist.init.run W1 = .ok (hs, evs) ∧ hs.st.footprint = 65536 ∧ got evs = 65536 := by
  obtain ⟨v, hv, hp⟩ := ok_of_match (x := Hist.init.run W1)
    (p := fun v => decide (v.1.st.footprint = 65536) && decide (got v.2 = 65536)) (by decide)
  simp only [Bool.and_eq_true, decide_eq_true_eq] at hp
  exact ⟨v.1, v.2, hv, hp.1, hp.2⟩

set_option maxRecDepth 20000 in
/-- hypotheses of `cycle_fixpoint` are satisfiable: W2 from the state after W1 returns to it -/
example : ∃ hs evs, afterW1.run W2 = .ok (hs, evs) ∧ hs.norm = afterW1.norm ∧ evs = [] := by
  obtain ⟨v, hv, hp⟩ := ok_of_match (x := afterW1.run W2)
    (p := fun v => decide (v.1.norm = afterW1.norm) && decide (v.2 = [])) (by decide)
  simp only [Bool.and_eq_true, decide_eq_true_eq] at hp
  exact ⟨v.1, v.2, hv, hp.1, hp.2⟩

set_option maxRecDepth 20000 in
/-- hypotheses of `reuse_without_os`: after W1 `top` holds 65456 bytes, a 100-byte request fits -/
example : ∃ s' mem, inner_malloc afterW1.st 100 = .ok (s', mem) ∧ nbOf 100 < afterW1.st.h.topsize := by
  obtain ⟨v, hv, hp⟩ := ok_of_match (x := inner_malloc afterW1.st 100)
    (p := fun _ => decide (nbOf 100 < afterW1.st.h.topsize)) (by decide)
  simp only [decide_eq_true_eq] at hp
  exact ⟨v.1, v.2, hv, hp⟩

set_option maxRecDepth 20000 in
/-- an OS call happens when nothing fits (hypotheses of `os_call_only_when_nothing_fits`) -/
example : ∃ s' mem, inner_malloc { afterW1.st with osq := [.m (some 2097152)] } 100000 = .ok (s', mem) ∧
    s'.evs ≠ afterW1.st.evs := by
  obtain ⟨v, hv, hp⟩ := ok_of_match (x := inner_malloc { afterW1.st with osq := [.m (some 2097152)] } 100000)
    (p := fun v => decide (v.1.evs ≠ afterW1.st.evs)) (by decide)
  simp only [decide_eq_true_eq] at hp
  exact ⟨v.1, v.2, hv, hp⟩

example : (2097153 : Nat) > 80 := by decide

/-- a 3 MB block in a fresh heap, then the chunk work of freeing it: `top` is the whole segment again -/
def afterBig : Hist := match Hist.init.run [(.malloc 1 3000000 8, [.m (some 1048576)])] with
  | .ok (hs, _) => hs
  | .error _ => Hist.init

def preTrim : St := match free_heap afterBig.st.h (1048576 + 16) with
  | .ok (h, _) => { afterBig.st with h := h, osq := [.r true], evs := [] }
  | .error _ => afterBig.st

set_option maxRecDepth 20000 in
/-- hypotheses of `trim_fires` -/
example : preTrim.h.topsize > 80 + DEFAULT_GRANULARITY ∧
    (∃ sp, segment_holding preTrim.segs preTrim.h.top = some sp ∧ has_segment_link preTrim.segs sp = false ∧
      sp.size ≥ ((preTrim.h.topsize - 80 + DEFAULT_GRANULARITY - 1) / DEFAULT_GRANULARITY - 1) * DEFAULT_GRANULARITY) ∧
    ∃ s' rel, trim_top preTrim 80 = .ok (s', rel) := by
  refine ⟨by decide, ⟨{ base := 1048576, size := 3014656, recAt := 0 }, by decide, by decide, by decide⟩, ?_⟩
  obtain ⟨v, hv, _⟩ := ok_of_match (x := trim_top preTrim 80) (p := fun _ => true) (by decide)
  exact ⟨v.1, v.2, hv⟩

/-- a two-segment heap whose second segment is one free chunk (hypotheses of `unused_segment_released`) -/
def twoSegs : Hist := match Hist.init.run
    [(.malloc 1 100 8, [.m (some 8388608)]), (.malloc 2 200000 8, [.m (some 1048576)]), (.malloc 3 300000 8, [.m (some 4194304)]),
     (.free 2, [])] with
  | .ok (hs, _) => hs
  | .error _ => Hist.init

set_option maxRecDepth 20000 in
example : ∃ g rest e, twoSegs.st.segs = ({ base := 4194304, size := 327680, recAt := 0 } : Seg) :: g :: rest ∧
    findEnt twoSegs.st.h.ents (align_as_chunk g.base) = some e ∧ e.inuse = false ∧
    align_as_chunk g.base + e.size ≥ g.base + (g.size - top_foot_size) := by
  refine ⟨{ base := 1048576, size := 262144, recAt := 1310656 }, [{ base := 8388608, size := 65536, recAt := 8454080 }],
    { addr := 1048576, size := 262064, cin := false, pin := true, pfoot := 0 }, by decide, by decide, by decide, by decide⟩

end TinyVerif.Dl
