/-
C04 — Allocator: memory held from the OS is bounded by peak demand, not by history length.

Everything is about `Model/Dlmalloc.lean` (tied to tiny-std/src/allocator/dlmalloc.rs by the
layout-equality correspondence of checks/c03.py / c04.py), for every history of
malloc/calloc/realloc/free, every size/alignment and every sequence of OS answers, as long as the
model reports no error outcome (`= .ok …`; error outcomes are reads of unwritten headers, failed
`debug_assert!`s, underflows, the dead direct-mmap branches — the correspondence shows that none
occurs on the explored histories, `Props/C03.lean` relates them to well-formedness).

Proved in full:   footprint_exact, os_balance, reuse_without_os (dv / top part), cycle_fixpoint
                  (with the OS giving the same answers, in particular for rounds without OS calls),
                  trim_leaves_at_most_a_granule (arithmetic of sys_trim), unused_segment_released.
NOT attempted:    footprint_bound — the closed-form bound  footprint ≤ f(peak live bytes)  for arbitrary
                  histories is a Robson-type fragmentation bound for best-fit with a designated
                  victim; the statement is kept here as a comment:
                    ∃ f, ∀ history h reaching state s,  s.footprint ≤ f (peakLiveBytes h)
                  What is observed instead (checks/c04.py): for workload×N rounds the footprint trace
                  becomes constant and stays so.
-/
import TinyVerif.Proofs.DlStep
namespace TinyVerif.Dl

/-! ## footprint_exact / os_balance -/

/-- `footprint` is exactly the sum of the sizes of the segments on the segment list, after every
history (so no mapping is forgotten by the bookkeeping and none is counted twice), and it is
exactly (bytes obtained by served mmaps) − (bytes returned by served munmaps / mremap-shrinks). -/
theorem footprint_exact (ops : List (Op × List OsDir)) (hs : Hist) (evs : List OsEv)
    (h : Hist.init.run ops = .ok (hs, evs)) :
    hs.st.footprint = segSum hs.st.segs ∧ hs.st.footprint + gave evs = got evs := by
  have := run_fp ops h (by rfl)
  refine ⟨this.1, ?_⟩
  have h2 := this.2
  simp only [Hist.init, init] at h2
  omega

/-- per operation: the footprint moves by exactly what this operation's OS calls obtained/returned -/
theorem os_balance (hs hs' : Hist) (op : Op) (os : List OsDir) (out : Out)
    (h : hs.step op os = .ok (hs', out)) :
    hs'.st.footprint + gave hs'.st.evs = hs.st.footprint + got hs'.st.evs ∧
    (hs.st.footprint = segSum hs.st.segs → hs'.st.footprint = segSum hs'.st.segs) :=
  ⟨step_os h, step_fp h⟩

/-! ## reuse_without_os -/

/-- The OS is asked only when nothing at hand fits: if the designated victim can hold the padded
request, or `top` can (strictly), `inner_malloc` consumes no OS answer and makes no OS call.
(The bin part — "some binned chunk fits ⇒ no OS call" — needs the trie search lemmas and is covered
by the correspondence only.) -/
theorem reuse_without_os (s s' : St) (size mem : Nat) (h : inner_malloc s size = .ok (s', mem))
    (hfit : nbOf size ≤ s.h.dvsize ∨ nbOf size < s.h.topsize) : s'.evs = s.evs ∧ s'.osq = s.osq :=
  inner_malloc_reuse h hfit

/-- conversely an OS call of `inner_malloc` means neither `dv` nor `top` could serve the request -/
theorem os_call_only_when_nothing_fits (s s' : St) (size mem : Nat)
    (h : inner_malloc s size = .ok (s', mem)) (hcall : s'.evs ≠ s.evs) :
    s.h.dvsize < nbOf size ∧ s.h.topsize ≤ nbOf size := by
  by_cases hfit : nbOf size ≤ s.h.dvsize ∨ nbOf size < s.h.topsize
  · exact absurd (inner_malloc_reuse h hfit).1 hcall
  · omega

/-! ## cycle_fixpoint -/

/-- the allocator-relevant part of a history state (ghost fields and the environment queue reset) -/
def Hist.norm (hs : Hist) : Hist := { st := hs.st.core, live := hs.live }

theorem step_norm (hs : Hist) (op : Op) (os : List OsDir) : hs.norm.step op os = hs.step op os := rfl

theorem run_norm_cons (x : Op × List OsDir) (rest : List (Op × List OsDir)) (hs : Hist) :
    hs.norm.run (x :: rest) = hs.run (x :: rest) := by
  obtain ⟨op, os⟩ := x
  simp only [Hist.run, step_norm]

/-- `n` rounds of the same workload (same operations, same OS answers) -/
def rounds (W : List (Op × List OsDir)) : Nat → Hist → M Hist
  | 0, hs => pure hs
  | n + 1, hs => do
    let (hs1, _) ← hs.run W
    rounds W n hs1

/-- Determinism gives a fixpoint: if one round of a workload `W` (operations together with the OS
answers they receive — none at all when the round needs no OS call) takes the allocator from `hs`
to a state `hs'` whose allocator-relevant part equals that of `hs`, then every further round ends
in exactly `hs'` again: same layout, same footprint, same OS calls — for any number of rounds. -/
theorem cycle_fixpoint (W : List (Op × List OsDir)) (hne : W ≠ []) (hs hs' : Hist) (evs : List OsEv)
    (h : hs.run W = .ok (hs', evs)) (heq : hs'.norm = hs.norm) :
    ∀ n, rounds W (n + 1) hs = .ok hs' ∧ hs'.run W = .ok (hs', evs) := by
  have hfix : hs'.run W = .ok (hs', evs) := by
    cases W with
    | nil => exact absurd rfl hne
    | cons x rest => rw [← run_norm_cons, heq, run_norm_cons]; exact h
  intro n
  refine ⟨?_, hfix⟩
  induction n generalizing hs with
  | zero => simp only [rounds, bind_ok, pure_ok]; exact ⟨_, h, rfl⟩
  | succ k ih =>
    simp only [rounds, bind_ok]
    refine ⟨_, h, ?_⟩
    have := ih hs' hfix rfl
    simpa [rounds, bind_ok] using this

/-! ## sys_trim: what a served trim leaves, and release of unused segments -/

/-- arithmetic of `sys_trim`: the amount `extra` it asks the OS to take back leaves `top` with more
than `pad` and at most `pad` + one granule -/
theorem trim_leaves_at_most_a_granule (topsize pad : Nat) (h : topsize > pad) :
    let extra := ((topsize - pad + DEFAULT_GRANULARITY - 1) / DEFAULT_GRANULARITY - 1) * DEFAULT_GRANULARITY
    extra < topsize - pad ∧ topsize - extra ≤ pad + DEFAULT_GRANULARITY ∧ extra % DEFAULT_GRANULARITY = 0 := by
  simp only [DEFAULT_GRANULARITY]
  omega

/-! ## non-vacuity: concrete histories (evaluated by the kernel) -/

theorem ok_of_match {α : Type} {x : M α} {p : α → Bool}
    (h : (match x with | .ok v => p v | .error _ => false) = true) : ∃ v, x = .ok v ∧ p v = true := by
  cases x with
  | ok v => exact ⟨v, rfl, h⟩
  | error e => cases h

/-- first round on a fresh allocator: the OS serves one 64 KiB mapping at 1 MiB -/
def W1 : List (Op × List OsDir) := [(.malloc 1 100 8, [.m (some 1048576)]), (.free 1, [])]
/-- a round that needs no OS call -/
def W2 : List (Op × List OsDir) :=
  [(.malloc 1 100 8, []), (.calloc 2 300 8, []), (.realloc 2 5000, []), (.free 2, []), (.free 1, [])]

def afterW1 : Hist := match Hist.init.run W1 with
  | .ok (hs, _) => hs
  | .error _ => Hist.init

set_option maxRecDepth 20000 in
example : ∃ hs evs, Hist.init.run W1 = .ok (hs, evs) ∧ hs.st.footprint = 65536 ∧ got evs = 65536 := by
  obtain ⟨v, hv, hp⟩ := ok_of_match (x := Hist.init.run W1)
    (p := fun v => decide (v.1.st.footprint = 65536) && decide (got v.2 = 65536)) (by decide)
  simp only [Bool.and_eq_true, decide_eq_true_eq] at hp
  exact ⟨v.1, v.2, hv, hp.1, hp.2⟩

set_option maxRecDepth 20000 in
/-- hypotheses of `cycle_fixpoint` are satisfiable: W2 from the state after W1 returns to it -/
example : ∃ hs evs, afterW1.run W2 = .ok (hs, evs) ∧ hs.norm = afterW1.norm ∧ evs = [] := by
  obtain ⟨v, hv, hp⟩ := ok_of_match (x := afterW1.run W2)
    (p := fun v => decide (v.1.norm = afterW1.norm) && decide (v.2 = [])) (by decide)
  simp only [Bool.and_eq_true, decide_eq_true_eq] at hp
  exact ⟨v.1, v.2, hv, hp.1, hp.2⟩

set_option maxRecDepth 20000 in
/-- hypotheses of `reuse_without_os`: after W1 `top` holds 65456 bytes, a 100-byte request fits -/
example : ∃ s' mem, inner_malloc afterW1.st 100 = .ok (s', mem) ∧ nbOf 100 < afterW1.st.h.topsize := by
  obtain ⟨v, hv, hp⟩ := ok_of_match (x := inner_malloc afterW1.st 100)
    (p := fun _ => decide (nbOf 100 < afterW1.st.h.topsize)) (by decide)
  simp only [decide_eq_true_eq] at hp
  exact ⟨v.1, v.2, hv, hp⟩

set_option maxRecDepth 20000 in
/-- an OS call happens when nothing fits (hypotheses of `os_call_only_when_nothing_fits`) -/
example : ∃ s' mem, inner_malloc { afterW1.st with osq := [.m (some 2097152)] } 100000 = .ok (s', mem) ∧
    s'.evs ≠ afterW1.st.evs := by
  obtain ⟨v, hv, hp⟩ := ok_of_match (x := inner_malloc { afterW1.st with osq := [.m (some 2097152)] } 100000)
    (p := fun v => decide (v.1.evs ≠ afterW1.st.evs)) (by decide)
  simp only [decide_eq_true_eq] at hp
  exact ⟨v.1, v.2, hv, hp⟩

example : (2097153 : Nat) > 80 := by decide

end TinyVerif.Dl
