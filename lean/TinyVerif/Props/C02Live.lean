/-
C02 — RwLock, the liveness clause: "every read()/write() call returns provided holders keep releasing, for any mix
of waiting readers and writers".

Model: `Model/RwLock.lean` (unchanged).  Lemmas: `Proofs/RwLive.lean`.

What is proved here

1. `rw_can_always_acquire` (possibility form, every `Reachable` state, every number of threads): a thread anywhere
   inside `read()` / `write()` — fast path, spinning, about to set its waiting bit, about to wait, or parked in the
   kernel — can be driven to hold the guard it asked for.  The witnessing schedule is *honest* (`runH`): every load
   in it observes the current value and no weak CAS fails spuriously; it consists of
     (a) the guard holders running their critical sections and unlocking `fetch_sub`s (`release_all_holders`),
     (b) for a reader: the waiting bits being cleared by the threads whose job that is (`clear_bits`): a thread
         inside `wake_writer_or_readers` completes its pending CAS / `wake_writer`; a writer inside `write()` takes
         the unlocked word, releases it and runs the wake path itself,
     (c) the thread's own steps (`acquireR_when_clear` / `acquireW_when_unlocked`).
   A parked thread resumes (i) through the `futex_wake(&writer_notify, 1)` of `wake_writer` when the schedule runs a
   wake path that finds it parked (writers in (b)), and otherwise (ii) — as in C01 — through a futex return the kernel
   is always allowed to make (`Ev.spur false`): that is how the thread `t` itself resumes when it is parked, and how a
   parked writer resumes in (b) when no wake path is pending.  Under `ReachableW` (ii) is never *needed* for (b)
   (`rw_no_deadlock_sc`), but the proof does not avoid it.

2. the new inductive invariant behind (b), for all executions (`rw_waiting_bits_covered`): a waiting bit on an
   unlocked word is always somebody's job — a thread inside `wake_writer_or_readers` whose pending operation matches
   the word, or a writer inside `write()`.  In particular the situation "reader finds the lock unlocked with
   WRITERS_WAITING / READERS_WAITING set and nobody left to clear the bit" (in which `is_read_lockable` would refuse
   the reader forever) is unreachable.  Also `read_unlock`'s `debug_assert!` (`rw_read_unlock_assert`).

3. `rw_no_deadlock_sc` / `rw_no_deadlock_sc_partial` (for `ReachableW`, the relation for which both wake-up invariants
   hold): whenever some thread is parked, some thread is enabled and has a step; hence no state in which every
   unfinished thread is parked.  Uses `RInv`, `RQ2.rq`, `WQ.park` and the strict version of the cover invariant
   (`LInv true`: only writers that cannot go back to sleep count), which is inductive for `stepW`.
   "Each thread holds at most one guard at a time" is built into the model (one pc per thread, `Txn` = one
   acquire..release bracket), so it is not a hypothesis.
-/
import TinyVerif.Props.C02
import TinyVerif.Proofs.RwLive
set_option linter.unusedSimpArgs false
set_option linter.unusedVariables false
namespace TinyVerif.RwLock

/-- thread record `t` is inside a blocking `read()` or `write()` call -/
def inAcquire (t : Th) : Bool := inRead t.pc || inWrite t.pc

/-! ## the invariants in every reachable state -/

theorem run_allinv (c : Cfg) (hc : c.Good) (s s' : St) (evs : List (Nat × Ev)) (h : run c s evs = some s')
    (hi : AllInv s) : AllInv s' := by
  induction evs generalizing s with
  | nil => simp [run] at h; subst h; exact hi
  | cons x rest ih =>
    obtain ⟨i, e⟩ := x
    simp only [run] at h
    split at h
    · rename_i s1 h1
      exact ih s1 h ⟨step_inv c hc s s1 i e h1 hi.r, step_linv false c s s1 i e h1 hi.r hi.l (by intro hb; cases hb)⟩
    · simp at h

theorem reachable_allinv (c : Cfg) (hc : c.Good) (s : St) (h : Reachable c s) : AllInv s := by
  obtain ⟨progs, evs, h⟩ := h
  exact run_allinv c hc _ s evs h ⟨init_inv progs, init_linv false progs⟩

theorem runW_linv (c : Cfg) (hc : c.Good) (s s' : St) (evs : List (Nat × Ev)) (h : runW c s evs = some s')
    (hinv : RInv s) (hl : LInv true s) : LInv true s' := by
  induction evs generalizing s with
  | nil => simp [runW] at h; subst h; exact hl
  | cons x rest ih =>
    obtain ⟨i, e⟩ := x
    simp only [runW] at h
    split at h
    · rename_i s1 h1
      exact ih s1 h (step_inv c hc s s1 i e (stepW_step c s s1 i e h1) hinv) (stepW_linv c s s1 i e h1 hinv hl)
    · simp at h

/-! ## 1. every read()/write() call can return once the holders release -/

/-- `read()`: honest-schedule form -/
theorem rw_read_can_always_acquire (c : Cfg) (hc : c.Good) (s : St) (h : Reachable c s) (t : Nat) (ht : t < s.n)
    (hin : inRead (s.ths t).pc = true) : ∃ evs s', runH c s evs = some s' ∧ holdsR (s'.ths t) = true :=
  can_acquire_read c hc s (reachable_allinv c hc s h) t ht hin

/-- `write()`: honest-schedule form -/
theorem rw_write_can_always_acquire (c : Cfg) (hc : c.Good) (s : St) (h : Reachable c s) (t : Nat) (ht : t < s.n)
    (hin : inWrite (s.ths t).pc = true) : ∃ evs s', runH c s evs = some s' ∧ holdsW (s'.ths t) = true :=
  can_acquire_write c hc s (reachable_allinv c hc s h) t ht hin

/-- **every `read()` / `write()` call can return provided the holders release** (liveness in possibility form): from
every reachable state, a thread anywhere inside a blocking `read()` (resp. `write()`) call can be driven to hold a
read (resp. the write) guard by a schedule in which only threads following their programs take steps: the guard
holders run to their unlocking `fetch_sub`; for a reader the waiting bits are then cleared by the wake path
(`wake_writer_or_readers` of a thread already inside it, or of a writer that takes and releases the lock); then the
thread itself proceeds.  Every load in the schedule observes the current value and no weak CAS fails spuriously
(`runH`).  Parked threads resume through the `futex_wake` of `wake_writer` where the schedule runs one that finds them,
and otherwise through a futex return the kernel is always allowed to make (`Ev.spur false`) — in particular the thread
`t` itself, when parked, resumes that way; that the *wake* also arrives is the content of the no-lost-wake-up
invariants and `rw_no_deadlock_sc`.  Under a fair scheduler this is what "every read()/write() returns provided
holders keep releasing" needs from the protocol; starvation by barging threads (and, for readers, by a stream of
writers, which this lock prefers) is not excluded. -/
theorem rw_can_always_acquire (c : Cfg) (hc : c.Good) (s : St) (h : Reachable c s) (t : Nat) (ht : t < s.n)
    (hin : inAcquire (s.ths t) = true) :
    ∃ evs s', run c s evs = some s' ∧
      (if inRead (s.ths t).pc then holdsR (s'.ths t) else holdsW (s'.ths t)) = true := by
  cases hr : inRead (s.ths t).pc with
  | true =>
    obtain ⟨evs, s', r, hh⟩ := rw_read_can_always_acquire c hc s h t ht hr
    exact ⟨evs, s', runH_run c s s' evs r, by simpa using hh⟩
  | false =>
    have hw : inWrite (s.ths t).pc = true := by simpa [inAcquire, hr] using hin
    obtain ⟨evs, s', r, hh⟩ := rw_write_can_always_acquire c hc s h t ht hw
    exact ⟨evs, s', runH_run c s s' evs r, by simpa using hh⟩

/-- the two building blocks, at property level: (a) all holders can release … -/
theorem rw_holders_can_release (c : Cfg) (hc : c.Good) (s : St) (h : Reachable c s) (t : Nat) (ht : t < s.n)
    (hin : inAcquire (s.ths t) = true) :
    ∃ evs s', run c s evs = some s' ∧ cnt s'.state = 0 ∧ inAcquire (s'.ths t) = true := by
  have hin' : inRead (s.ths t).pc = true ∨ inWrite (s.ths t).pc = true := by simpa [inAcquire] using hin
  obtain ⟨s', ⟨evs, r, _, fr⟩, h0⟩ := release_all_holders c hc t s (reachable_allinv c hc s h) ht hin'
  exact ⟨evs, s', runH_run c s s' evs r, h0, by unfold inAcquire; rw [fr.1, fr.2]; exact hin⟩

/-- … and (b) from an unlocked word the waiting bits can be cleared (so that `is_read_lockable` lets readers in) -/
theorem rw_waiting_bits_can_clear (c : Cfg) (hc : c.Good) (s : St) (h : Reachable c s) (t : Nat) (ht : t < s.n)
    (hin : inRead (s.ths t).pc = true) (h0 : cnt s.state = 0) :
    ∃ evs s', run c s evs = some s' ∧ s'.state = 0 ∧ inRead (s'.ths t).pc = true := by
  obtain ⟨s', ⟨evs, r, _, fr⟩, hz⟩ := clear_bits c hc t (Wc s) s (reachable_allinv c hc s h) ht hin (Nat.le_refl _) h0
  exact ⟨evs, s', runH_run c s s' evs r, hz, by rw [fr.1]; exact hin⟩

/-! ## 2. the invariant: a waiting bit on an unlocked word is always somebody's job -/

/-- in every reachable state with count field 0 and a waiting bit set, some live thread is inside
`wake_writer_or_readers` at a point whose pending CAS / wake matches the word, or is a writer inside `write()`.
(So a reader is never refused by `is_read_lockable` on an unlocked word with nobody left to clear the bits.) -/
theorem rw_waiting_bits_covered (c : Cfg) (hc : c.Good) (s : St) (h : Reachable c s)
    (h0 : cnt s.state = 0) (hb : hasRW s.state = true ∨ hasWW s.state = true) :
    ∃ j, j < s.n ∧ cov false s.state (s.ths j).pc = true := by
  have hi := reachable_allinv c hc s h
  have hne : s.state ≠ 0 := by
    intro hz; rw [hz] at hb; revert hb; decide
  obtain ⟨j, hj⟩ := hi.l.bc h0 hne
  exact ⟨j, cov_lt false s hi.r j hj, hj⟩

/-- `read_unlock`'s `debug_assert!(!has_readers_waiting(state) || has_writers_waiting(state))` holds -/
theorem rw_read_unlock_assert (c : Cfg) (hc : c.Good) (s : St) (h : Reachable c s) (i : Nat)
    (hpc : (s.ths i).pc = .unlock false) (hrw : hasRW (wsub s.state 1) = true) : hasWW (wsub s.state 1) = true := by
  have hi := reachable_allinv c hc s h
  have hR : holdsR (s.ths i) = true := by simp [holdsR, hpc]
  have hnow : ∀ j, holdsW (s.ths j) = false := by
    intro j
    cases hj : holdsW (s.ths j) with
    | false => rfl
    | true =>
      have h0 := hi.r.noRW ⟨j, hj⟩
      have := nR_zero_no_reader s hi.r h0 i
      rw [hR] at this; cases this
  have hnwl : cnt s.state ≠ WRITE_LOCKED := by
    intro hh; obtain ⟨j, hj⟩ := hi.r.wl.mp hh; rw [hnow j] at hj; cases hj
  have hge1 : 1 ≤ cnt s.state := by
    have : nR s ≠ 0 := by
      intro h0; have := nR_zero_no_reader s hi.r h0 i; rw [hR] at this; cases this
    have := hi.r.cntR hnwl
    omega
  have hlt := hi.r.lt32
  have hc1 : 1 ≤ s.state % 1073741824 := by simpa [cnt, RW] using hge1
  have hl : s.state < 4294967296 := by simpa [TWO32] using hlt
  rw [hasRW_sub_one s.state hc1 hl] at hrw
  rw [hasWW_sub_one s.state hc1 hl]
  exact hi.l.ra (by omega) hnwl hrw

/-! ## 3. no deadlock, for hand-shake loads that observe current values -/

theorem reachableW_linv (c : Cfg) (hc : c.Good) (s : St) (h : ReachableW c s) : LInv true s := by
  obtain ⟨progs, evs, h⟩ := h
  exact runW_linv c hc _ s evs h (init_inv progs) (init_linv true progs)

/-- **no deadlock** (`ReachableW`): whenever some thread is parked in the kernel (on `state` or on `writer_notify`),
some thread is enabled — it is neither parked nor finished nor panicked — and its next step is defined. -/
theorem rw_no_deadlock_sc (c : Cfg) (hc : c.Good) (s : St) (h : ReachableW c s)
    (hp : ∃ t, isParked (s.ths t) = true) :
    ∃ j, j < s.n ∧ enabled (s.ths j) = true ∧ ∃ e s', step c s j e = some s' := by
  have hl := reachableW_linv c hc s h
  have hi := reachable_allinv c hc s h.reachable
  obtain ⟨progs, evs, hr⟩ := h
  have hq := run_rq c hc _ s evs (runW_run c _ s evs hr) (init_inv progs) (init_rq2 progs)
  have hw := runW_wq c hc _ s evs hr (init_inv progs) (init_wq progs)
  obtain ⟨j, hj, he⟩ := parked_implies_enabled s hi.r hq hw hl hp
  exact ⟨j, hj, he, enabled_can_step c s hi.l j hj he⟩

/-- every unfinished thread is parked (and there is one) -/
def stuck (s : St) : Prop :=
  (∃ t, t < s.n ∧ finished (s.ths t) = false) ∧ ∀ t, t < s.n → finished (s.ths t) = true ∨ isParked (s.ths t) = true

/-- the requested corollary: no `ReachableW` state is stuck.  (No "one guard at a time" hypothesis is needed: the
model gives each thread one program counter, so a thread holds at most one guard by construction.) -/
theorem rw_no_deadlock_sc_partial (c : Cfg) (hc : c.Good) (s : St) (h : ReachableW c s) : ¬ stuck s := by
  rintro ⟨⟨t, ht, hf⟩, hall⟩
  have hpt : isParked (s.ths t) = true := by
    rcases hall t ht with h1 | h1
    · rw [h1] at hf; cases hf
    · exact h1
  obtain ⟨j, hj, he, _⟩ := rw_no_deadlock_sc c hc s h ⟨t, hpt⟩
  unfold enabled at he
  rcases hall j hj with h1 | h1 <;> simp [h1] at he

/-! ## non-vacuity -/

/-- a restricted (`runW`) execution ending with writer 0 holding the lock, writer 1 parked on `writer_notify` and
reader 2 parked on `state` (both waiting bits set) -/
def parkBothTrace : List (Nat × Ev) :=
  parkTrace ++
  [(2, .call .read), (2, .load 0 (WRITE_LOCKED + WW)), (2, .load 0 (WRITE_LOCKED + WW)),
   (2, .cas 0 false (WRITE_LOCKED + WW) (WRITE_LOCKED + WW + RW) .ok), (2, .load 0 (WRITE_LOCKED + WW + RW)),
   (2, .fwait 0 (WRITE_LOCKED + WW + RW) true)]

def liveCfg : Cfg := { genCfg with spinMax := 0 }
def liveProgs : List (List Txn) := [[⟨.write, 0⟩], [⟨.write, 0⟩], [⟨.read, 0⟩]]

theorem liveCfg_good : liveCfg.Good := by decide

/-- hypotheses of `rw_can_always_acquire` and of `rw_no_deadlock_sc` are met in that state: a parked writer and a
parked reader, both inside their acquisition, while a writer holds the lock -/
example : (runW liveCfg (init liveProgs) parkBothTrace).map
    (fun s => decide (1 < s.n) && decide (2 < s.n) &&
      isParked (s.ths 1) && inWrite (s.ths 1).pc && inAcquire (s.ths 1) &&
      isParked (s.ths 2) && inRead (s.ths 2).pc && inAcquire (s.ths 2) &&
      holdsW (s.ths 0) && hasRW s.state && hasWW s.state) = some true := by decide

/-- … and the same trace is honest (`runH`), so the state is also a starting point for honest schedules -/
example : (runH liveCfg (init liveProgs) parkBothTrace).map (fun s => isParked (s.ths 1) && isParked (s.ths 2))
    = some true := by decide

/-- the theorems apply to it -/
example : ∃ s, ReachableW liveCfg s ∧ (∃ t, isParked (s.ths t) = true) ∧
    ∃ j, j < s.n ∧ enabled (s.ths j) = true ∧ ∃ e s', step liveCfg s j e = some s' := by
  have hsome : (runW liveCfg (init liveProgs) parkBothTrace).isSome = true := by decide
  obtain ⟨s, hs⟩ := Option.isSome_iff_exists.mp hsome
  have hr : ReachableW liveCfg s := ⟨liveProgs, parkBothTrace, hs⟩
  have hp : isParked (s.ths 1) = true := by
    have : (runW liveCfg (init liveProgs) parkBothTrace).map (fun s => isParked (s.ths 1)) = some true := by decide
    rw [hs] at this; simpa using this
  exact ⟨s, hr, ⟨1, hp⟩, rw_no_deadlock_sc liveCfg liveCfg_good s hr ⟨1, hp⟩⟩

/-- an unlocked word with a waiting bit and its coverer: after the holder's `fetch_sub` the word is `RW + WW` and the
unlocking thread sits at the matching CAS of `wake_writer_or_readers` -/
example : (runW liveCfg (init liveProgs) (parkBothTrace ++ [(0, .rel), (0, .fsub 0 WRITE_LOCKED (WRITE_LOCKED + WW + RW))])).map
    (fun s => decide (cnt s.state = 0) && hasRW s.state && hasWW s.state && cov true s.state (s.ths 0).pc)
    = some true := by decide

/-- a complete honest schedule from that state to the parked reader holding a read guard: the holder unlocks, its
wake path hands over to the parked writer (`futex_wake`), the writer takes the lock, releases it, finds no parked
writer, wakes the readers; the reader takes the lock -/
def handoverTrace : List (Nat × Ev) :=
  [(0, .rel), (0, .fsub 0 WRITE_LOCKED (WRITE_LOCKED + WW + RW)),
   (0, .cas 0 false (RW + WW) RW .ok), (0, .fadd 1 1 0), (0, .fwake 1 1 [1]),
   (1, .load 0 RW), (1, .cas 0 true RW (RW + WRITE_LOCKED + WW) .ok), (1, .acq), (1, .rel),
   (1, .fsub 0 WRITE_LOCKED (RW + WRITE_LOCKED + WW)),
   (1, .cas 0 false (RW + WW) RW .ok), (1, .fadd 1 1 1), (1, .fwake 1 1 []), (1, .cas 0 false RW 0 .ok),
   (1, .fwake 0 2147483647 [2]),
   (2, .load 0 0), (2, .cas 0 true 0 1 .ok)]

example : (runH liveCfg (init liveProgs) (parkBothTrace ++ handoverTrace)).map
    (fun s => holdsR (s.ths 2) && decide (s.state = 1)) = some true := by decide

example : Reachable genCfg (init [[⟨.read, 1⟩]]) := ⟨[[⟨.read, 1⟩]], [], rfl⟩

end TinyVerif.RwLock
