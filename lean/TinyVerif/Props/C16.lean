/-
C16 — stream sockets deliver bytes intact; waits, timeouts, fd passing as specified.

Three models (tied to /repo by `bin/check C16`: sc-shim fully scripted kernel for the wrappers, byte images of the
real constructors, the real ControlMessageIterator over crafted / kernel-filled buffers against a guard page):
  1. Model/SockWrap.lean  — tiny-std/src/sock.rs wrappers + net.rs try-variants as a state machine over an abstract
                            kernel; write_all ‖ read-loop over a FIFO byte queue under an adversarial kernel/scheduler;
  2. Model/SockAddr.lean  — SocketAddressInet::new / ipv4_addr, SocketAddressUnix::try_from_unix;
  3. Model/Cmsg.lean      — cmsg_* macros, create_send, ControlMessageIterator (repaired macros, commit 1998249, and
                            the macros as they were, with the two unrelated stack addresses as inputs) on EVERY byte
                            content of the control buffer, against the kernel's CMSG_OK walk as specification.
What no theorem can carry — that the Linux kernel behaves like the FIFO queue / `kfill` models, real readiness and
real time — is observed by the check on real Unix / TCP sockets and reported separately.
-/
import TinyVerif.Proofs.SockWrapLemmas
import TinyVerif.Proofs.SockAddrLemmas
import TinyVerif.Proofs.CmsgLemmas
set_option linter.unusedSimpArgs false

namespace TinyVerif.C16
open TinyVerif

/-! ## 1. wrapper logic -/
section Wrap
open TinyVerif.SockWrap

/-- **one_effective_op**: in every run of a wrapper (any configuration, timeout, kernel script) the successful
underlying transfers are: exactly one, whose count is the value returned, when the wrapper returns `Ok`; none
otherwise.  Nothing is transferred twice, nothing transferred is dropped from the result. -/
theorem one_effective_op (cfg : Cfg) (timeout : Option (Nat × Nat)) (script : List R) :
    okOps (run cfg timeout script).2 = (match (run cfg timeout script).1 with | .ok v => [v] | _ => []) := by
  simp only [run]
  cases convTimeout timeout with
  | none => rfl
  | some ts =>
    have := okOps_runFrom cfg ts .first script
    simp only [expectOps] at this
    rw [this]
    cases (runFrom cfg ts .first script).1 <;> rfl

/-- at most two underlying ops are ever issued by one wrapper call (the first attempt and ONE retry) -/
theorem at_most_two_ops (cfg : Cfg) (timeout : Option (Nat × Nat)) (script : List R) :
    opCount (run cfg timeout script).2 ≤ 2 := by
  simp only [run]
  cases convTimeout timeout with
  | none => simp [opCount]
  | some ts => exact opCount_first cfg ts script

/-- **timeout_only_after_poll_zero**: `Err(Timeout)` is returned only directly after a ppoll — issued with the
caller's full timeout converted to a timespec and the configured event — answered 0. -/
theorem timeout_only_after_poll_zero (cfg : Cfg) (timeout : Option (Nat × Nat)) (script : List R)
    (h : (run cfg timeout script).1 = .timeout) :
    ∃ ts, convTimeout timeout = some ts ∧
      (run cfg timeout script).2.getLast? = some (.ppoll ts cfg.event, .ok 0) := by
  simp only [run] at h ⊢
  cases hc : convTimeout timeout with
  | none => rw [hc] at h; cases h
  | some ts =>
    rw [hc] at h
    exact ⟨ts, rfl, timeout_last cfg ts script h⟩

/-- the timespec is the caller's timeout, unchanged (`Some(d)` ↦ `{d.secs, d.nanos}`, `None` ↦ null) -/
theorem conv_timeout_exact (s n : Nat) (ts : TS) (h : convTimeout (some (s, n)) = some ts) : ts = some (s, n) := by
  simp only [convTimeout] at h
  split at h
  · cases h; rfl
  · cases h

/-- every ppoll of a run — also those after EINTR — carries the caller's FULL timeout -/
theorem all_polls_full_timeout (cfg : Cfg) (timeout : Option (Nat × Nat)) (script : List R) (ts : TS)
    (hc : convTimeout timeout = some ts) :
    ∀ c ∈ (run cfg timeout script).2, isPoll c.1 = true → c.1 = .ppoll ts cfg.event := by
  simp only [run, hc]
  exact polls_full cfg ts .first script

/-- **eintr_restarts**: an EINTR answer to ppoll changes nothing but the log: ppoll is issued again with the same
timespec and the run continues as if the interruption had not happened. -/
theorem eintr_restarts (cfg : Cfg) (ts : TS) (rest : List R) :
    runFrom cfg ts .polling (.err EINTR :: rest) =
      ((runFrom cfg ts .polling rest).1, (.ppoll ts cfg.event, .err EINTR) :: (runFrom cfg ts .polling rest).2) := by
  simp [runFrom, wstep, callOf]

/-- **try_never_polls**: a try-variant issues exactly one syscall, the op; never ppoll -/
theorem try_never_polls (cfg : Cfg) (script : List R) :
    (tryRun cfg script).2.length = 1 ∧ ∀ c ∈ (tryRun cfg script).2, isPoll c.1 = false := by
  cases script with
  | nil => simp [tryRun, isPoll]
  | cons r rest => cases r <;> simp [tryRun, isPoll]

/-- a try-variant reports would-block exactly on the blocking errno -/
theorem try_would_block_iff (cfg : Cfg) (r : R) (rest : List R) :
    (tryRun cfg (r :: rest)).1 = .wouldBlock ↔ r = .err cfg.blockErrno := by
  cases r with
  | ok v => simp [tryRun]
  | err e =>
    simp only [tryRun]
    by_cases h : e = cfg.blockErrno <;> simp [h]

/-- an op that succeeds at once is never followed by a poll -/
theorem ready_never_polls (cfg : Cfg) (ts : TS) (v : Nat) (rest : List R) :
    runFrom cfg ts .first (.ok v :: rest) = (.ok v, [(.op, .ok v)]) := by
  simp [runFrom, wstep, callOf]

/-- a Duration that does not fit a timespec is refused before any syscall -/
theorem bad_timeout_no_syscall (cfg : Cfg) (s n : Nat) (h : I64_MAX < s) (script : List R) :
    run cfg (some (s, n)) script = (.badTimeout, []) := by
  simp only [run, convTimeout]
  rw [if_neg (by omega)]

/-! ### write_all ‖ read-loop over the FIFO socket -/

/-- **stream_prefix**: under every schedule, every pattern of short counts, EAGAIN, spurious or missing readiness,
EINTR, timeouts and errors, and every socket capacity: what the reader has collected followed by what is still in
flight is exactly the prefix of the data the writer's `write_all` has got accepted — in order, nothing
duplicated, nothing skipped — and `write_all`'s own cursor equals the number of bytes the kernel accepted. -/
theorem stream_prefix (data : List Nat) (cap want : Nat) (steps : List Step) :
    let s := exec (Sys.init data cap want) steps
    s.rcvd ++ s.q = data.take s.pos ∧ s.pos ≤ data.length := by
  intro s
  have hi := exec_inv _ (init_inv data cap want) steps
  have hd : s.data = data := by
    show (exec (Sys.init data cap want) steps).data = data
    rw [exec_data]; rfl
  have h1 := hi.flow
  rw [← hi.rcvdEq, ← hi.posEq, hd] at h1
  have h2 := hi.sentLe
  rw [← hi.posEq, hd] at h2
  exact ⟨h1, h2⟩

/-- **stream_exact**: when `write_all` has returned `Ok` and the reader has seen end-of-file, the reader holds exactly
the bytes written: complete, in order, once. -/
theorem stream_exact (data : List Nat) (cap want : Nat) (steps : List Step)
    (hw : (exec (Sys.init data cap want) steps).w = .done .ok)
    (hr : (exec (Sys.init data cap want) steps).r = .done .eof) :
    (exec (Sys.init data cap want) steps).rcvd = data := by
  have hi := exec_inv _ (init_inv data cap want) steps
  have hd : (exec (Sys.init data cap want) steps).data = data := by rw [exec_data]; rfl
  have hp := stream_prefix data cap want steps
  simp only at hp
  have hq := (hi.rEof hr).1
  have hpos := hi.wOk hw
  rw [hd] at hpos
  rw [hq, List.append_nil, hpos, List.take_length] at hp
  exact hp.1

/-- the `read_exact` shape: a reader that wanted exactly `data.length` bytes and got its buffer full holds `data` -/
theorem stream_exact_full (data : List Nat) (cap : Nat) (steps : List Step)
    (hr : (exec (Sys.init data cap data.length) steps).r = .done .full) :
    (exec (Sys.init data cap data.length) steps).rcvd = data := by
  have hi := exec_inv _ (init_inv data cap data.length) steps
  have hp := stream_prefix data cap data.length steps
  simp only at hp
  have hfull := hi.rFull hr
  have hwant : (exec (Sys.init data cap data.length) steps).want = data.length := by
    have : ∀ (s : Sys) (st : List Step), (exec s st).want = s.want := by
      intro s st
      induction st generalizing s with
      | nil => rfl
      | cons x rest ih =>
        simp only [exec]; rw [ih]
        cases x with
        | w env =>
          cases hw : s.w with
          | done d => simp only [step, hw]
          | run p =>
            simp only [step, hw]
            have h1 : ∀ (s1 : Sys) (x : Sum Phase Out), (wFinish s1 x).want = s1.want := by
              intro s1 x
              cases x with
              | inl p => rfl
              | inr o =>
                cases o with
                | ok v => cases v <;> simp only [wFinish, wAfter] <;> (try split) <;> rfl
                | os e => simp only [wFinish, wAfter]; split <;> rfl
                | _ => rfl
            have h2 : (kWrite s p env).2.want = s.want := by
              cases p <;> cases env <;> simp only [kWrite, callOf] <;> (try split) <;> rfl
            rw [h1, h2]
        | r chunk env =>
          have h1 : ∀ (s1 : Sys) (len : Nat) (x : Sum Phase Out), (rFinish s1 len x).want = s1.want := by
            intro s1 len x
            cases x with
            | inl p => rfl
            | inr o =>
              cases o with
              | ok v => cases v <;> simp only [rFinish, rAfter] <;> (try split) <;> rfl
              | os e => simp only [rFinish, rAfter]; split <;> rfl
              | _ => rfl
          have h2 : ∀ p len, (kRead s p len env).2.want = s.want := by
            intro p len
            cases p <;> cases env <;> simp only [kRead, callOf] <;> (try split) <;> (try split) <;> rfl
          cases hr : s.r with
          | done d => simp only [step, hr]
          | idle => simp only [step, hr]; rw [h1, h2]
          | run p len => simp only [step, hr]; rw [h1, h2]
        | close =>
          cases hw : s.w with
          | done d => simp only [step, hw]
          | run p => simp only [step, hw]
    rw [this]; rfl
  rw [hwant] at hfull
  -- rcvd is a prefix of data of length ≥ data.length
  have hlen : ((exec (Sys.init data cap data.length) steps).rcvd ++ (exec (Sys.init data cap data.length) steps).q).length
      = (data.take (exec (Sys.init data cap data.length) steps).pos).length := by rw [hp.1]
  simp only [List.length_append, List.length_take] at hlen
  have hq : (exec (Sys.init data cap data.length) steps).q = [] := by
    apply List.eq_nil_of_length_eq_zero; omega
  have hpos : (exec (Sys.init data cap data.length) steps).pos = data.length := by rw [hq] at hlen; simp at hlen; omega
  have := hp.1
  rw [hq, List.append_nil, hpos, List.take_length] at this
  exact this

end Wrap

/-! ## 2. address encoding -/
section Addr
open TinyVerif.SockAddr

/-- **inet_roundtrip**: `ipv4_addr(new(ip, port)) = (ip, port)` -/
theorem inet_roundtrip (a b c d port : Nat) (ha : a < 256) (hb : b < 256) (hc : c < 256) (hd : d < 256)
    (hp : port < 65536) : ipv4Addr (inetNew [a, b, c, d] port) = ([a, b, c, d], port) := by
  simp only [ipv4Addr, inetNew, le4_unle a b c d ha hb hc hd, Prod.mk.injEq, true_and]
  have := swap16_swap16 port hp
  simp only [swap16] at this ⊢
  simp only [unle]
  omega

/-- **inet_image**: the 16 bytes handed to the kernel are `struct sockaddr_in` in network byte order:
family AF_INET (host order), port big-endian, address bytes in order, 8 zero bytes -/
theorem inet_image (a b c d port : Nat) (ha : a < 256) (hb : b < 256) (hc : c < 256) (hd : d < 256)
    (hp : port < 65536) :
    inetImage (inetNew [a, b, c, d] port) = [2, 0, port / 256, port % 256, a, b, c, d, 0, 0, 0, 0, 0, 0, 0, 0] := by
  have h1 : port / 256 % 256 = port / 256 := by omega
  have h2 : (port % 256 * 256 + port / 256) % 256 = port / 256 := by omega
  have h3 : (port % 256 * 256 + port / 256) / 256 % 256 = port % 256 := by omega
  simp only [inetImage, inetNew, le4_unle a b c d ha hb hc hd]
  simp only [le, swap16, AF_INET, List.replicate, List.cons_append, List.nil_append, h1, h2, h3]

/-- **unix_addr**: a 7-bit path of at most 107 bytes is copied exactly, zero padded to 108, `addr_len = 2 + len + 1` -/
theorem unix_addr (s rest : List Nat) (hs : SevenBit s) (hlen : s.length ≤ 107) :
    tryFromUnix (s ++ 0 :: rest) = .ok (s ++ List.replicate (SUN_PATH - s.length) 0) (2 + s.length + 1) := by
  have := unixLoop_ok s rest [] hs (by simpa using hlen)
  simp only [tryFromUnix, this, List.nil_append]
  congr 1; omega

/-- longer than 107 bytes ⇒ the documented error (whatever follows) -/
theorem unix_addr_too_long (s rest : List Nat) (hs : SevenBit s) (hlen : 108 ≤ s.length) :
    tryFromUnix (s ++ rest) = .tooLong :=
  unixLoop_tooLong s rest [] hs (by simp) (by simpa using hlen)

/-- a byte ≥ 128 within the first 108 ⇒ the documented error -/
theorem unix_addr_eight_bit (s rest : List Nat) (c : Nat) (hs : SevenBit s) (hc : 128 ≤ c) (hlen : s.length ≤ 107) :
    tryFromUnix (s ++ c :: rest) = .eightBit :=
  unixLoop_eightBit s rest [] c hs hc (by simpa using hlen)

/-- never an out-of-bounds write to the 108-byte buffer, never a read past the terminating NUL -/
theorem unix_addr_no_panic (path : List Nat) (h0 : 0 ∈ path) : tryFromUnix path ≠ .panic :=
  unixLoop_no_panic path [] h0 (by simp)

theorem unix_addr_size (path p : List Nat) (n : Nat) (h : tryFromUnix path = .ok p n) :
    p.length = 108 ∧ n ≤ 110 := unixLoop_len path [] p n h

end Addr

/-! ## 3. control messages -/
section Cm
open TinyVerif.Cmsg

/-- the three size macros, as arithmetic -/
theorem cmsg_sizes (n : Nat) :
    cmsgLen (4 * n) = 16 + 4 * n ∧ cmsgSpace (4 * n) = 16 + 4 * n + 4 * (n % 2) ∧
    cmsgSpace (4 * n) % 8 = 0 := by
  simp only [cmsgLen, cmsgSpace, cmsgAlign, HDR]
  refine ⟨trivial, ?_, ?_⟩ <;> omega

/-- **send_layout**: for every descriptor list, `create_send` builds header `(CMSG_LEN(4n), SOL_SOCKET, SCM_RIGHTS)` ++ the
descriptors ++ zero padding, `msg_controllen = CMSG_SPACE(4n)` (and the buffer has exactly that length) -/
theorem send_layout (fds : List Nat) :
    createSend fds =
      (encHdr (cmsgLen (4 * fds.length)) SOL_SOCKET SCM_RIGHTS ++ encFds fds ++
        List.replicate (cmsgSpace (4 * fds.length) - (16 + 4 * fds.length)) 0, cmsgSpace (4 * fds.length)) :=
  createSend_layout fds

theorem send_layout_length (fds : List Nat) : (createSend fds).1.length = (createSend fds).2 := by
  rw [send_layout]
  have h := (cmsg_sizes fds.length).2.1
  simp only [List.length_append, encHdr_length, encFds_length, List.length_replicate, HDR, FD]
  omega

/-- **send_image**: the exact byte image `create_send` hands to sendmsg for `n` descriptors — `cmsg_len = 16 + 4n` as 8
bytes little endian, `cmsg_level = SOL_SOCKET (1)`, `cmsg_type = SCM_RIGHTS (1)` as 4 bytes each, the descriptors as 4
bytes each, then `4·(n mod 2)` zero bytes up to the next multiple of 8; `msg_controllen` is the length of that image,
`CMSG_SPACE(4n) = 16 + 4n + 4·(n mod 2)`, a multiple of 8 -/
theorem send_image (fds : List Nat) :
    (createSend fds).1 = Cmsg.le 8 (16 + 4 * fds.length) ++ [1, 0, 0, 0] ++ [1, 0, 0, 0] ++ encFds fds ++
        List.replicate (4 * (fds.length % 2)) 0 ∧
    (createSend fds).2 = 16 + 4 * fds.length + 4 * (fds.length % 2) ∧
    (createSend fds).1.length = (createSend fds).2 ∧ (createSend fds).2 % 8 = 0 := by
  have hs := cmsg_sizes fds.length
  refine ⟨?_, ?_, send_layout_length fds, ?_⟩
  · rw [send_layout]
    have h1 : cmsgLen (4 * fds.length) = 16 + 4 * fds.length := hs.1
    have h2 : cmsgSpace (4 * fds.length) - (16 + 4 * fds.length) = 4 * (fds.length % 2) := by rw [hs.2.1]; omega
    rw [h1, h2]
    simp only [encHdr, Cmsg.le, SOL_SOCKET, SCM_RIGHTS, List.append_assoc]
  · rw [send_layout]; exact hs.2.1
  · rw [send_layout]; exact hs.2.2

/-- **send_wellformed**: what `create_send` builds is, for the KERNEL's parser (`CMSG_FIRSTHDR`/`CMSG_OK`/
`__cmsg_nxthdr` over `msg_controllen` bytes), exactly one well-formed header `(16 + 4n, SOL_SOCKET, SCM_RIGHTS)` at
offset 0 carrying exactly the descriptors given, followed by nothing -/
theorem send_wellformed (fds : List Nat) (hn : 16 + 4 * fds.length < 2 ^ 64) (hf : ∀ f ∈ fds, f < 2 ^ 32) :
    wfPrefix kNext (createSend fds).1 (createSend fds).2 = ([(0, ⟨16 + 4 * fds.length, SOL_SOCKET, SCM_RIGHTS⟩)], .done) ∧
    rightsOf (createSend fds).1 (wfPrefix kNext (createSend fds).1 (createSend fds).2).1 = [fds] := by
  have hw := createSend_walk kNext fds (by omega) (by
    have ha := align_ge (16 + 4 * fds.length)
    simp only [kNext, createSend_ctl, HDR]; rw [if_pos (by omega)])
  refine ⟨hw, ?_⟩
  rw [hw]; exact createSend_rights fds (fun f h => by have := hf f h; omega)

/-- **iter_exact** and **iter_in_bounds**, for ANY list of SCM_RIGHTS messages (any descriptor counts), ANY supplied
control length `len` (smaller than, equal to, larger than needed) and ANY previous buffer content / following
memory `g`: the iterator over what the kernel left returns exactly the descriptors that fit, hits neither a fault nor
an arithmetic panic, and every byte it reads lies inside `[0, msg_controllen)` (`fixed`: the code since / before 8263fff —
on kernel-filled buffers the repair changes nothing). -/
theorem iter_exact (fixed : Bool) (base : Nat) (msgs : List (List Nat)) (len : Nat) (g : List Nat) (hg : len ≤ g.length)
    (hlen : len < 2 ^ 63) (hbase : base + len < U64) (hfd : FdsOk msgs) :
    (iterate fixed base (kernelFill msgs len g).1 (kernelFill msgs len g).2).msgs = delivered msgs len ∧
    (iterate fixed base (kernelFill msgs len g).1 (kernelFill msgs len g).2).bad = none := by
  have hk : kernelFill msgs len g = kfill msgs len g := rfl
  rw [hk]
  obtain ⟨f1, f2, f3, f4⟩ := kfill_facts msgs len g hg
  simp only [iterate]
  by_cases h : (kfill msgs len g).2 < HDR
  · simp only [if_pos h]
    have h0 : (kfill msgs len g).2 = 0 := by simp only [HDR] at h; omega
    exact ⟨(f3 h0).symm, trivial⟩
  · simp only [if_neg h]
    have := iter_kfill fixed base msgs len g ((kfill msgs len g).2 + 1) 0 hg (by omega) (by omega) hfd
      (by simp only [HDR] at h; omega) (by omega)
    simp only [Nat.zero_add] at this
    exact ⟨this.1, this.2.1⟩

theorem iter_in_bounds (fixed : Bool) (base : Nat) (msgs : List (List Nat)) (len : Nat) (g : List Nat) (hg : len ≤ g.length)
    (hlen : len < 2 ^ 63) (hbase : base + len < U64) (hfd : FdsOk msgs) :
    ∀ x ∈ (iterate fixed base (kernelFill msgs len g).1 (kernelFill msgs len g).2).reads,
      x.1 + x.2 ≤ (kernelFill msgs len g).2 := by
  have hk : kernelFill msgs len g = kfill msgs len g := rfl
  rw [hk]
  simp only [iterate]
  by_cases h : (kfill msgs len g).2 < HDR
  · simp only [if_pos h]; intro x hx; simp at hx
  · simp only [if_neg h]
    have := iter_kfill fixed base msgs len g ((kfill msgs len g).2 + 1) 0 hg (by omega) (by omega) hfd
      (by simp only [HDR] at h; omega) (by omega)
    simp only [Nat.zero_add] at this
    intro x hx
    exact (this.2.2 x hx).2

/-- the kernel never reports more than it was given, so "inside msg_controllen" is "inside the supplied buffer" -/
theorem controllen_le_supplied (msgs : List (List Nat)) (len : Nat) (g : List Nat) (hg : len ≤ g.length) :
    (kernelFill msgs len g).2 ≤ len := (kfill_facts msgs len g hg).1

/-! ### the iterator on EVERY byte content of the control buffer

`mem` is the memory starting at `msg_control` (any bytes — in fact any naturals), of which the first `ctl =
msg_controllen` bytes are the control buffer; `base` is the address of `msg_control`.  The specification side is the
kernel's: `wfPrefix` walks the buffer while every header is `CMSG_OK` and reports why it stopped. -/

/-- the environment the theorems assume: the control buffer is mapped, `msg_controllen` is a sane `usize` and the
buffer does not wrap around the address space (true of every `&mut [u8]`) -/
structure CtlEnv (base : Nat) (mem : List Nat) (ctl : Nat) : Prop where
  mapped : ctl ≤ mem.length
  small : ctl < 2 ^ 63
  noWrap : base + ctl < U64

theorem walk_post (fixed : Bool) {base : Nat} {mem : List Nat} {ctl : Nat} (env : CtlEnv base mem ctl) (h16 : ¬ ctl < HDR) :
    WalkPost fixed base mem ctl 0 (wfPrefix uNext mem ctl) (iterate fixed base mem ctl) := by
  have := iter_walk fixed base mem ctl env.mapped env.small env.noWrap (ctl + 1) (ctl + 1) 0 (by simp only [HDR] at *; omega)
    (by omega) (by omega)
  rw [List.drop_zero] at this
  simp only [wfPrefix, iterate, if_neg h16]
  exact this

/-- **iter_terminates**: for every memory content (mapped or not), every `msg_controllen` and every address, the
iteration ends (each `cmsg_nxthdr!` that yields a header advances by at least 16 bytes towards `msg_controllen`) —
the code since the repair and before it -/
theorem iter_terminates (fixed : Bool) (base : Nat) (mem : List Nat) (ctl : Nat) :
    (iterate fixed base mem ctl).bad ≠ some .fuel := by
  simp only [iterate]
  split
  · simp
  · exact iterFrom_no_fuel fixed base ctl (ctl + 1) 0 mem (by omega)

/-- the walk always ends in `done` or at a malformed header -/
theorem walk_stop_cases {base : Nat} {mem : List Nat} {ctl : Nat} (env : CtlEnv base mem ctl) :
    (wfPrefix uNext mem ctl).2 = .done ∨ ∃ o h, (wfPrefix uNext mem ctl).2 = .malformed o h := by
  by_cases h16 : ctl < HDR
  · left; simp only [wfPrefix, if_pos h16]
  · have := walk_post true env h16
    cases hs : (wfPrefix uNext mem ctl).2 with
    | done => left; rfl
    | malformed o h => right; exact ⟨o, h, rfl⟩
    | unmapped => simp only [WalkPost, hs] at this
    | fuel => simp only [WalkPost, hs] at this

/-- **iter_full** — the FULL statement, for the code as repaired in commit 8263fff: for EVERY content of the memory
(header fields are whatever the bytes say: SCM_CREDENTIALS before or after rights, unknown levels and types, zero-length
payloads, a truncated last header, `cmsg_len` smaller than a header, larger than the rest of the buffer, up to 2^64 - 1),
every `msg_controllen ≤` buffer length and every address, the iterator
  * yields exactly the descriptor lists of the SOL_SOCKET/SCM_RIGHTS headers of the well-formed prefix (the headers met
    while every header is the kernel's `CMSG_OK`), in order,
  * never panics, aborts or faults (and terminates),
  * reads — itself and through the slices it hands out — only inside `[0, msg_controllen)`,
  * stops AT the first header that is not `CMSG_OK`: that header is read, nothing at or after its end is.
No case distinction on the tag of the malformed header or on the size of its `cmsg_len` any more. -/
theorem iter_full {base : Nat} {mem : List Nat} {ctl : Nat} (env : CtlEnv base mem ctl) :
    (iterate true base mem ctl).msgs = rightsOf mem (wfPrefix uNext mem ctl).1 ∧
    (iterate true base mem ctl).bad = none ∧
    (∀ x ∈ (iterate true base mem ctl).reads, x.1 + x.2 ≤ ctl) ∧
    (∀ o h, (wfPrefix uNext mem ctl).2 = .malformed o h →
      (o, 16) ∈ (iterate true base mem ctl).reads ∧ ∀ x ∈ (iterate true base mem ctl).reads, x.1 + x.2 ≤ o + 16) := by
  by_cases h16 : ctl < HDR
  · have e1 : iterate true base mem ctl = ⟨[], [], none⟩ := by simp only [iterate, if_pos h16]
    have e2 : wfPrefix uNext mem ctl = ([], .done) := by simp only [wfPrefix, if_pos h16]
    rw [e1, e2]
    refine ⟨rfl, rfl, ?_, ?_⟩
    · intro x hx; cases hx
    · intro o h hc; cases hc
  · have hw := walk_post true env h16
    cases hs : (wfPrefix uNext mem ctl).2 with
    | done =>
      simp only [WalkPost, hs] at hw
      obtain ⟨pre, hr, hin⟩ := hw
      rw [hr]
      exact ⟨rfl, rfl, fun x hx => (hin x hx).2, fun o h hc => by cases hc⟩
    | malformed o h =>
      simp only [WalkPost, hs] at hw
      obtain ⟨pre, hrr, hin, _, ho, hd, hnok⟩ := hw
      rw [lastStep_fixed base ctl o _ h hnok env.noWrap] at hrr
      rw [hrr]
      have hall : ∀ x ∈ pre ++ [(o, HDR)], x.1 + x.2 ≤ o + 16 := by
        intro x hx
        simp only [List.mem_append, List.mem_cons, List.not_mem_nil, or_false] at hx
        rcases hx with hx | rfl
        · have := hin x hx; omega
        · simp only [HDR]; omega
      refine ⟨by simp, rfl, ?_, ?_⟩
      · intro x hx
        have := hall x hx
        simp only [HDR] at ho; omega
      · intro o' h' hc
        cases hc
        exact ⟨by simp [HDR], hall⟩
    | unmapped => simp only [WalkPost, hs] at hw
    | fuel => simp only [WalkPost, hs] at hw

/-- **iter_wellformed** (both versions of the code): when every header the walk meets is `CMSG_OK`, exactly the
descriptor lists of the SCM_RIGHTS headers, no crash, every read inside `[0, msg_controllen)` -/
theorem iter_wellformed (fixed : Bool) {base : Nat} {mem : List Nat} {ctl : Nat} (env : CtlEnv base mem ctl)
    (hdone : (wfPrefix uNext mem ctl).2 = .done) :
    (iterate fixed base mem ctl).msgs = rightsOf mem (wfPrefix uNext mem ctl).1 ∧ (iterate fixed base mem ctl).bad = none ∧
    ∀ x ∈ (iterate fixed base mem ctl).reads, x.1 + x.2 ≤ ctl := by
  by_cases h16 : ctl < HDR
  · simp only [iterate, wfPrefix, if_pos h16, rightsOf]
    exact ⟨trivial, trivial, fun x hx => by cases hx⟩
  · have := walk_post fixed env h16
    simp only [WalkPost, hdone] at this
    obtain ⟨pre, hr, hin⟩ := this
    rw [hr]
    exact ⟨rfl, rfl, fun x hx => (hin x hx).2⟩

/-! ### the defect repaired in 8263fff: the iterator before the repair (`fixed := false`)

It had no `CMSG_OK` test.  What it did at the first malformed header depended on the header's tag and on `cmsg_len`. -/

/-- before the repair, a malformed header NOT tagged SOL_SOCKET/SCM_RIGHTS happened to end the iteration cleanly
(`cmsg_nxthdr!` returned null) — unless `cmsg_len ≥ 2^64 - 23` (`orig_foreign_len_overflow`) -/
theorem orig_stops_at_malformed_foreign {base : Nat} {mem : List Nat} {ctl : Nat} (env : CtlEnv base mem ctl)
    (o : Nat) (h : Hdr) (hstop : (wfPrefix uNext mem ctl).2 = .malformed o h) (hr : isRights h = false)
    (hsmall : h.len < 16 ∨ h.len + 24 ≤ U64) :
    (iterate false base mem ctl).msgs = rightsOf mem (wfPrefix uNext mem ctl).1 ∧ (iterate false base mem ctl).bad = none ∧
    (∀ x ∈ (iterate false base mem ctl).reads, x.1 + x.2 ≤ o + 16) ∧ o + 16 ≤ ctl := by
  by_cases h16 : ctl < HDR
  · simp only [wfPrefix, if_pos h16] at hstop; cases hstop
  · have := walk_post false env h16
    simp only [WalkPost, hstop] at this
    obtain ⟨pre, hrr, hin, _, ho, hd, hnok⟩ := this
    rw [lastStep_foreign base ctl o _ h hr hnok ho env.noWrap hsmall] at hrr
    rw [hrr]
    refine ⟨by simp, rfl, ?_, ho⟩
    intro x hx
    simp only [List.mem_append, List.mem_cons, List.not_mem_nil, or_false] at hx
    rcases hx with hx | rfl
    · have := hin x hx; omega
    · simp only [HDR]; omega

/-- before the repair: a foreign malformed header whose `cmsg_len ≥ 2^64 - 23` made `cmsg_nxthdr!`'s alignment
arithmetic overflow — a panic in a build with overflow checks -/
theorem orig_foreign_len_overflow {base : Nat} {mem : List Nat} {ctl : Nat} (env : CtlEnv base mem ctl)
    (o : Nat) (h : Hdr) (hstop : (wfPrefix uNext mem ctl).2 = .malformed o h) (hr : isRights h = false)
    (hbig : U64 ≤ h.len + 23) : (iterate false base mem ctl).bad = some .panic := by
  by_cases h16 : ctl < HDR
  · simp only [wfPrefix, if_pos h16] at hstop; cases hstop
  · have := walk_post false env h16
    simp only [WalkPost, hstop] at this
    obtain ⟨pre, hrr, _⟩ := this
    rw [lastStep_foreign_overflow base ctl o _ h hr hbig] at hrr
    rw [hrr]

/-- before the repair: the first malformed header tagged SOL_SOCKET/SCM_RIGHTS with `cmsg_len < 16` —
`cmsg + cmsg_len - data` underflowed: panic (debug build; in a release build the length wrapped to ~2^62 descriptors) -/
theorem orig_malformed_rights_short {base : Nat} {mem : List Nat} {ctl : Nat} (env : CtlEnv base mem ctl)
    (o : Nat) (h : Hdr) (hstop : (wfPrefix uNext mem ctl).2 = .malformed o h) (hr : isRights h = true)
    (hshort : h.len < 16) : (iterate false base mem ctl).bad = some .panic := by
  by_cases h16 : ctl < HDR
  · simp only [wfPrefix, if_pos h16] at hstop; cases hstop
  · have := walk_post false env h16
    simp only [WalkPost, hstop] at this
    obtain ⟨pre, hrr, _⟩ := this
    rw [lastStep_rights_short base ctl o _ h hr hshort] at hrr
    rw [hrr]

/-- before the repair: the first malformed header tagged SOL_SOCKET/SCM_RIGHTS with `cmsg_len` larger than what is
left of the buffer: a slice of `(cmsg_len - 16) / 4` descriptors starting at `o + 16` was handed out after the
descriptor lists of the well-formed prefix — as soon as `cmsg_len` exceeded the rest of the buffer by 4 it extended past
`msg_controllen` -/
theorem orig_malformed_rights_long {base : Nat} {mem : List Nat} {ctl : Nat} (env : CtlEnv base mem ctl)
    (o : Nat) (h : Hdr) (hstop : (wfPrefix uNext mem ctl).2 = .malformed o h) (hr : isRights h = true)
    (hlong : 16 ≤ h.len) (hb24 : 24 ≤ base) (hov : base + o + h.len < U64) (hsz : h.len < 2 ^ 63)
    (hmap : o + h.len ≤ mem.length) :
    (iterate false base mem ctl).msgs =
      rightsOf mem (wfPrefix uNext mem ctl).1 ++ [groups4 ((h.len - 16) / 4) (mem.drop (o + 16))] ∧
    (iterate false base mem ctl).bad = none ∧ (o + 16, 4 * ((h.len - 16) / 4)) ∈ (iterate false base mem ctl).reads ∧
    (ctl - o + 4 ≤ h.len → ctl < o + 16 + 4 * ((h.len - 16) / 4)) := by
  by_cases h16 : ctl < HDR
  · simp only [wfPrefix, if_pos h16] at hstop; cases hstop
  · have := walk_post false env h16
    simp only [WalkPost, hstop] at this
    obtain ⟨pre, hrr, hin, _, ho, hd, hnok⟩ := this
    rw [lastStep_rights_long base ctl o _ h hr hnok hlong ho env.noWrap hov (by omega)
      (by simp only [HDR, FD, ISIZE_MAX]; omega) (by simp only [List.length_drop, HDR, FD]; omega)] at hrr
    rw [hrr]
    refine ⟨by simp only [List.drop_drop, HDR, FD], rfl, by simp [HDR, FD], ?_⟩
    intro hx
    simp only [HDR] at ho
    omega

/-- same header, the bytes after the buffer not mapped (a guard page): the consumer of the slice faulted -/
theorem orig_malformed_rights_long_fault {base : Nat} {mem : List Nat} {ctl : Nat} (env : CtlEnv base mem ctl)
    (o : Nat) (h : Hdr) (hstop : (wfPrefix uNext mem ctl).2 = .malformed o h) (hr : isRights h = true)
    (hlong : 16 ≤ h.len) (hb24 : 24 ≤ base) (hov : base + o + h.len < U64) (hsz : h.len < 2 ^ 63)
    (hunmapped : mem.length < o + 16 + 4 * ((h.len - 16) / 4)) : (iterate false base mem ctl).bad = some .fault := by
  by_cases h16 : ctl < HDR
  · simp only [wfPrefix, if_pos h16] at hstop; cases hstop
  · have := walk_post false env h16
    simp only [WalkPost, hstop] at this
    obtain ⟨pre, hrr, hin, _, ho, hd, hnok⟩ := this
    have hm := env.mapped
    have ho' : o + 16 ≤ ctl := ho
    rw [lastStep_rights_long_fault base ctl o _ h hr hnok hlong ho env.noWrap hov (by omega)
      (by simp only [HDR, FD, ISIZE_MAX]; omega) (by simp only [List.length_drop, HDR, FD]; omega)] at hrr
    rw [hrr]

/-- before the repair, whatever its `cmsg_len`, a malformed SOL_SOCKET/SCM_RIGHTS header was never simply where the
iteration stopped: the run crashed, or one more item — built from the malformed header — was yielded -/
theorem orig_malformed_rights_never_clean {base : Nat} {mem : List Nat} {ctl : Nat} (env : CtlEnv base mem ctl)
    (o : Nat) (h : Hdr) (hstop : (wfPrefix uNext mem ctl).2 = .malformed o h) (hr : isRights h = true) :
    (iterate false base mem ctl).bad ≠ none ∨
    (iterate false base mem ctl).msgs.length = (rightsOf mem (wfPrefix uNext mem ctl).1).length + 1 := by
  by_cases h16 : ctl < HDR
  · simp only [wfPrefix, if_pos h16] at hstop; cases hstop
  · have := walk_post false env h16
    simp only [WalkPost, hstop] at this
    obtain ⟨pre, hrr, _⟩ := this
    rw [hrr]
    rcases lastStep_rights_never_clean base ctl o (mem.drop o) h hr with hb | hm
    · left; exact hb
    · right; simp only [List.length_append, hm]

/-- **witnesses of the repaired defect** — 16-byte buffers holding one header tagged SOL_SOCKET/SCM_RIGHTS: before the
repair `cmsg_len = 0` panicked; `cmsg_len = 24` handed out two descriptors read from the 8 bytes AFTER the buffer (5 and 6
here), or faulted when nothing was mapped there.  (Reproduced on the real code before 8263fff.) -/
theorem orig_hostile_witness_panic : (iterate false NOMINAL_BASE (encHdr 0 1 1) 16).bad = some .panic := by decide

theorem orig_hostile_witness_oob :
    iterate false NOMINAL_BASE (encHdr 24 1 1 ++ Cmsg.le 4 5 ++ Cmsg.le 4 6) 16 = ⟨[[5, 6]], [(0, 16), (16, 8)], none⟩ := by
  decide

theorem orig_hostile_witness_fault : (iterate false NOMINAL_BASE (encHdr 24 1 1) 16).bad = some .fault := by decide

/-- the full statement was false before the repair -/
theorem orig_full_statement_false :
    ¬ ∀ (mem : List Nat) (ctl : Nat), CtlEnv NOMINAL_BASE mem ctl →
        (iterate false NOMINAL_BASE mem ctl).bad = none ∧
        ∀ x ∈ (iterate false NOMINAL_BASE mem ctl).reads, x.1 + x.2 ≤ ctl := by
  intro hall
  have := (hall (encHdr 0 1 1) 16 ⟨by decide, by decide, by decide⟩).1
  rw [orig_hostile_witness_panic] at this
  cases this

/-- the repaired code on the same three memories: the header is read, nothing is yielded, nothing else is read -/
theorem fixed_hostile_witnesses :
    iterate true NOMINAL_BASE (encHdr 0 1 1) 16 = ⟨[], [(0, 16)], none⟩ ∧
    iterate true NOMINAL_BASE (encHdr 24 1 1 ++ Cmsg.le 4 5 ++ Cmsg.le 4 6) 16 = ⟨[], [(0, 16)], none⟩ ∧
    iterate true NOMINAL_BASE (encHdr 24 1 1) 16 = ⟨[], [(0, 16)], none⟩ ∧
    iterate true NOMINAL_BASE (encHdr 18446744073709551615 1 2 ++ List.replicate 16 0) 32 = ⟨[], [(0, 16)], none⟩ := by
  decide

/-- **trailing_slot**: the userland CMSG_NXTHDR the macros follow (musl: strictly more than a header must remain) never
visits a header that occupies exactly the last 16 bytes of the buffer, the kernel's `__cmsg_nxthdr` does.  Such a header,
if it is `CMSG_OK`, has `cmsg_len = 16` — no payload: the two walks carry exactly the same descriptors -/
theorem kernel_walk_same_descriptors {mem : List Nat} {ctl : Nat} (hmem : ctl ≤ mem.length) :
    (rightsOf mem (wfPrefix kNext mem ctl).1).flatten = (rightsOf mem (wfPrefix uNext mem ctl).1).flatten := by
  by_cases h16 : ctl < HDR
  · simp only [wfPrefix, if_pos h16]
  · have := walk_slot mem ctl hmem (ctl + 1) 0 (by simp only [HDR] at *; omega) (by omega)
    simp only [wfPrefix, if_neg h16]
    rcases this with h | ⟨_, _, h', hl, h⟩ | ⟨_, h, _⟩
    · rw [h]
    · rw [h, rightsOf_append]
      simp only [rightsOf]
      split
      · simp [hl, groups4]
      · simp
    · rw [h]

theorem trailing_slot_witness :
    (iterate true NOMINAL_BASE (encHdr 16 1 1 ++ encHdr 16 1 1) 32).msgs = [[]] ∧
    rightsOf (encHdr 16 1 1 ++ encHdr 16 1 1) (wfPrefix kNext (encHdr 16 1 1 ++ encHdr 16 1 1) 32).1 = [[], []] := by
  decide

/-- **send_iter_roundtrip**: the real iterator over the buffer `create_send` built yields exactly the descriptors -/
theorem send_iter_roundtrip (fixed : Bool) (base : Nat) (fds : List Nat) (hn : 16 + 4 * fds.length + 8 < 2 ^ 63)
    (hbase : base + 16 + 4 * fds.length + 8 < U64) (hf : ∀ f ∈ fds, f < 2 ^ 32) :
    (iterate fixed base (createSend fds).1 (createSend fds).2).msgs = [fds] ∧
    (iterate fixed base (createSend fds).1 (createSend fds).2).bad = none := by
  have hc := createSend_ctl fds
  have ha := align_lt (16 + 4 * fds.length)
  have hw := createSend_walk uNext fds (by omega) (by
    have ha := align_ge (16 + 4 * fds.length)
    simp only [uNext, createSend_ctl, HDR]; rw [if_pos (by omega)])
  have env : CtlEnv base (createSend fds).1 (createSend fds).2 :=
    ⟨by rw [send_layout_length]; exact Nat.le_refl _, by omega, by simp only [U64] at *; omega⟩
  have := iter_wellformed fixed env (by rw [hw])
  rw [hw] at this
  exact ⟨by rw [this.1]; exact createSend_rights fds (fun f h => by have := hf f h; omega), this.2.1⟩

/-- **cmsg_oob_witness** — the macros as they were before commit 1998249: with an exactly fitting 24-byte buffer
(one descriptor), the field and the local variable 256 bytes apart on the stack, and a stale header in the memory
that follows, the iterator reads bytes 24..44 — outside `msg_controllen = 24` — and reports a descriptor (99)
that was never sent.  (On the real code: SIGSEGV against a guard page, phantom `1:99` otherwise.) -/
def witnessMem : List Nat :=
  encHdr 20 1 1 ++ Cmsg.le 4 7 ++ [0, 0, 0, 0] ++ encHdr 20 1 1 ++ Cmsg.le 4 99 ++ List.replicate 36 0

theorem cmsg_oob_witness :
    (iterateOld 140737488347392 140737488347136 witnessMem 24).msgs = [[7], [99]] ∧
    (24, 16) ∈ (iterateOld 140737488347392 140737488347136 witnessMem 24).reads := by
  decide

/-- the repaired macros on the same memory: one message, nothing read past 24 -/
theorem cmsg_witness_fixed :
    (iterate true NOMINAL_BASE witnessMem 24).msgs = [[7]] ∧ (iterate true NOMINAL_BASE witnessMem 24).reads = [(0, 16), (16, 4)] ∧
    (iterate true NOMINAL_BASE witnessMem 24).bad = none := by
  decide

end Cm

/-! ## non-vacuity -/
section Examples
open TinyVerif.SockWrap TinyVerif.SockAddr TinyVerif.Cmsg

-- blocked, interrupted twice, ready, retried: one transfer of 5 bytes
example : run readCfg none [.err 11, .err 4, .err 4, .ok 1, .ok 5] =
    (.ok 5, [(.op, .err 11), (.ppoll none 1, .err 4), (.ppoll none 1, .err 4), (.ppoll none 1, .ok 1), (.op, .ok 5)]) := by decide
-- a timed read that times out after an interruption: both polls carry the full 3.5 s
example : run readCfg (some (3, 500000000)) [.err 11, .err 4, .ok 0] =
    (.timeout, [(.op, .err 11), (.ppoll (some (3, 500000000)) 1, .err 4), (.ppoll (some (3, 500000000)) 1, .ok 0)]) := by decide
-- the retried op's failure is returned as it is (also EAGAIN)
example : (run writeCfg none [.err 11, .ok 1, .err 11]).1 = .os 11 := by decide
example : (tryRun tcpConnectCfg [.err 115]).1 = .wouldBlock := by decide
-- a complete transfer of 5 bytes through a 2-byte socket with EAGAIN / poll / EINTR / short counts on both sides
example :
    let s := exec (Sys.init [1, 2, 3, 4, 5] 2 9)
      [.r 3 (.succeed 1), .w (.succeed 9), .w (.succeed 1), .w (.succeed 1), .r 3 (.fail 4), .r 3 (.succeed 1), .r 3 (.succeed 9),
       .w (.fail 4), .w (.succeed 5), .r 9 (.succeed 1), .r 1 (.succeed 1), .w (.succeed 9), .close, .r 9 (.succeed 9), .r 9 (.succeed 9)]
    s.w = .done .ok ∧ s.r = .done .eof ∧ s.rcvd = [1, 2, 3, 4, 5] := by decide
example : SevenBit [47, 116, 109, 112] := by intro c hc; simp at hc; omega
example : tryFromUnix [47, 120, 0] = .ok ([47, 120] ++ List.replicate 106 0) 5 := by decide
example : inetImage (inetNew [127, 0, 0, 1] 8080) = [2, 0, 31, 144, 127, 0, 0, 1, 0, 0, 0, 0, 0, 0, 0, 0] := by decide
-- three descriptors into a 27-byte buffer: two fit (16 + 8 = 24 ≤ 27 < 28)
example : (kernelFill [[5, 6, 7]] 27 (List.replicate 40 170)).2 = 24 ∧ delivered [[5, 6, 7]] 27 = [[5, 6]] := by decide
example : FdsOk [[5, 6, 7], [8]] := by intro fds h f hf; simp at h; rcases h with rfl | rfl <;> simp at hf <;> omega
example : (createSend [7, 8]).1 = encHdr 24 1 1 ++ Cmsg.le 4 7 ++ Cmsg.le 4 8 ∧ (createSend [7, 8]).2 = 24 := by decide

-- hostile / foreign control buffers.  SCM_CREDENTIALS (level 1, type 2, 12 bytes of payload, CMSG_SPACE 32) in front of two descriptors:
def credsThenRights : List Nat := encHdr 28 1 2 ++ List.replicate 12 77 ++ [0, 0, 0, 0] ++ encHdr 24 1 1 ++ Cmsg.le 4 5 ++ Cmsg.le 4 6
example : CtlEnv NOMINAL_BASE credsThenRights 56 := ⟨by decide, by decide, by decide⟩
example : wfPrefix uNext credsThenRights 56 = ([(0, ⟨28, 1, 2⟩), (32, ⟨24, 1, 1⟩)], .done) ∧
    (iterate true NOMINAL_BASE credsThenRights 56).msgs = [[5, 6]] ∧ (iterate false NOMINAL_BASE credsThenRights 56).msgs = [[5, 6]] := by decide
-- one descriptor, then a foreign header with cmsg_len = 5: the iterator stops at offset 24 having yielded [7]
def rightsThenShortForeign : List Nat := encHdr 20 1 1 ++ Cmsg.le 4 7 ++ [0, 0, 0, 0] ++ encHdr 5 1 2 ++ List.replicate 8 0
example : CtlEnv NOMINAL_BASE rightsThenShortForeign 48 := ⟨by decide, by decide, by decide⟩
example : (wfPrefix uNext rightsThenShortForeign 48).2 = .malformed 24 ⟨5, 1, 2⟩ ∧ isRights ⟨5, 1, 2⟩ = false ∧
    iterate true NOMINAL_BASE rightsThenShortForeign 48 = ⟨[[7]], [(0, 16), (16, 4), (24, 16)], none⟩ ∧
    iterate false NOMINAL_BASE rightsThenShortForeign 48 = ⟨[[7]], [(0, 16), (16, 4), (24, 16)], none⟩ := by decide
-- a foreign header whose cmsg_len is larger than the rest of the buffer (truncated last message): clean stop
example : (wfPrefix uNext (encHdr 4096 41 7 ++ List.replicate 16 0) 32).2 = .malformed 0 ⟨4096, 41, 7⟩ ∧
    iterate true NOMINAL_BASE (encHdr 4096 41 7 ++ List.replicate 16 0) 32 = ⟨[], [(0, 16)], none⟩ := by decide
-- cmsg_len = 2^64 - 1 in a foreign header: before the repair the alignment arithmetic overflowed
example : (wfPrefix uNext (encHdr 18446744073709551615 1 2 ++ List.replicate 16 0) 32).2 =
      .malformed 0 ⟨18446744073709551615, 1, 2⟩ ∧ isRights ⟨18446744073709551615, 1, 2⟩ = false ∧
    U64 ≤ 18446744073709551615 + 23 ∧
    (iterate false NOMINAL_BASE (encHdr 18446744073709551615 1 2 ++ List.replicate 16 0) 32).bad = some .panic := by decide
-- iter_full on a buffer whose walk ends at a malformed SCM_RIGHTS header (cmsg_len 4096) after a well-formed one
def rightsThenLongRights : List Nat := encHdr 20 1 1 ++ Cmsg.le 4 7 ++ [0, 0, 0, 0] ++ encHdr 4096 1 1 ++ Cmsg.le 4 8 ++ Cmsg.le 4 9
example : CtlEnv NOMINAL_BASE rightsThenLongRights 48 ∧ (wfPrefix uNext rightsThenLongRights 48).2 = .malformed 24 ⟨4096, 1, 1⟩ ∧
    iterate true NOMINAL_BASE rightsThenLongRights 48 = ⟨[[7]], [(0, 16), (16, 4), (24, 16)], none⟩ ∧
    (iterate false NOMINAL_BASE rightsThenLongRights 48).bad = some .fault :=
  ⟨⟨by decide, by decide, by decide⟩, by decide, by decide, by decide⟩
-- the hypotheses of the orig_malformed_rights theorems on the witnesses
example : CtlEnv NOMINAL_BASE (encHdr 0 1 1) 16 ∧ (wfPrefix uNext (encHdr 0 1 1) 16).2 = .malformed 0 ⟨0, 1, 1⟩ ∧
    isRights ⟨0, 1, 1⟩ = true := ⟨⟨by decide, by decide, by decide⟩, by decide, by decide⟩
example : CtlEnv NOMINAL_BASE (encHdr 24 1 1 ++ Cmsg.le 4 5 ++ Cmsg.le 4 6) 16 ∧
    (wfPrefix uNext (encHdr 24 1 1 ++ Cmsg.le 4 5 ++ Cmsg.le 4 6) 16).2 = .malformed 0 ⟨24, 1, 1⟩ ∧
    0 + 24 ≤ (encHdr 24 1 1 ++ Cmsg.le 4 5 ++ Cmsg.le 4 6).length ∧ 16 - 0 + 4 ≤ 24 :=
  ⟨⟨by decide, by decide, by decide⟩, by decide, by decide, by decide⟩
example : CtlEnv NOMINAL_BASE (encHdr 24 1 1) 16 ∧ (wfPrefix uNext (encHdr 24 1 1) 16).2 = .malformed 0 ⟨24, 1, 1⟩ ∧
    (encHdr 24 1 1).length < 0 + 16 + 4 * ((24 - 16) / 4) := ⟨⟨by decide, by decide, by decide⟩, by decide, by decide⟩
-- before the repair, a malformed rights header whose excess is below 4 bytes: an item was still built from it; now: nothing
example : iterate false NOMINAL_BASE (encHdr 23 1 1 ++ Cmsg.le 4 9 ++ [0, 0, 0, 0]) 20 = ⟨[[9]], [(0, 16), (16, 4)], none⟩ ∧
    (wfPrefix uNext (encHdr 23 1 1 ++ Cmsg.le 4 9 ++ [0, 0, 0, 0]) 20).2 = .malformed 0 ⟨23, 1, 1⟩ ∧
    iterate true NOMINAL_BASE (encHdr 23 1 1 ++ Cmsg.le 4 9 ++ [0, 0, 0, 0]) 20 = ⟨[], [(0, 16)], none⟩ := by decide
-- from_raw_parts' precondition check before the repair: 2^63 + 32
example : (iterate false NOMINAL_BASE (encHdr 9223372036854775840 1 1) 16).bad = some .abort ∧
    (iterate true NOMINAL_BASE (encHdr 9223372036854775840 1 1) 16).bad = none := by decide
-- the send side
example : wfPrefix kNext (createSend [7, 8, 9]).1 (createSend [7, 8, 9]).2 = ([(0, ⟨28, 1, 1⟩)], .done) ∧
    (createSend [7, 8, 9]).1 = [28, 0, 0, 0, 0, 0, 0, 0, 1, 0, 0, 0, 1, 0, 0, 0, 7, 0, 0, 0, 8, 0, 0, 0, 9, 0, 0, 0, 0, 0, 0, 0] ∧
    (iterate true NOMINAL_BASE (createSend [7, 8, 9]).1 (createSend [7, 8, 9]).2).msgs = [[7, 8, 9]] := by decide
example : NOMINAL_BASE + 16 + 4 * [7, 8, 9].length + 8 < U64 ∧ ∀ f ∈ [7, 8, 9], f < 2 ^ 32 := by decide

end Examples

end TinyVerif.C16
