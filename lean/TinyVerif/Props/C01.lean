/-
C01 — Mutex: mutual exclusion, visibility, no lost wake-up, try_lock — for every number of threads,
every program mix and every schedule (incl. wake choice, spurious futex returns, arbitrary/stale values
observed by relaxed loads).

The protocol model is `Model/Mutex.lean`; its inductive invariant is proved in `Proofs/MutexInv.lean`.
The model is tied to the code on every run of `bin/check C01`:
 * C: the real mutex.rs runs under a deterministic scheduler and every produced trace must be accepted by
   `step` (driver `drv_c01`); the driver replays each RMW with the memory ordering the running code actually
   passed, so `raced` is judged with the code's own orderings, whichever source line they come from;
 * T (static): `Gen/SyncSites.lean` is regenerated from mutex.rs / sync.rs / futex.rs.  Every RMW of the lock
   word carries a *role* (what it does to the word: `acquire` = writes a locked state, `release` = writes 0,
   `both` = cannot tell).  The obligations below are position-independent: *every* acquiring RMW is Acquire or
   stronger, *every* releasing RMW Release or stronger, no plain store touches the word (the memory model of
   `Model/Mutex.lean` relies on RMW-only writes), wait and wake use the same futex key kind.  Which function an
   operation stands in, and in which order the sites appear, is not part of any obligation: the operation
   sequence is pinned by C.
 * T (observed): `Gen/MutexObs.lean` is regenerated from the traces: the orderings of the RMWs that returned a
   guard / began a guard's drop, the spin budget, the futex operation words of the real rusl::futex.  The
   observed orderings must be good in any case; the static ones whenever the static table was understood
   (no `.unknown` ordering).  When it was not, the configuration rests on the observation alone (explored
   schedules only) and the check says so in its evidence.
-/
import TinyVerif.Model.Mutex
import TinyVerif.Proofs.MutexInv
import TinyVerif.Proofs.MutexLive
import TinyVerif.Gen.SyncSites
import TinyVerif.Gen.MutexObs
set_option linter.unusedSimpArgs false
set_option linter.unusedVariables false
namespace TinyVerif.Mutex
open TinyVerif.Gen.Sync

/-! ## tie T: position-independent obligations on the regenerated site table and on the observation -/

def isAcq : Ord → Bool
  | .acquire | .acqrel | .seqcst => true
  | _ => false
def isRel : Ord → Bool
  | .release | .acqrel | .seqcst => true
  | _ => false

def needsAcq (s : Site) : Bool := s.role == "acquire" || s.role == "both"
def needsRel (s : Site) : Bool := s.role == "release" || s.role == "both"
/-- success ordering of an RMW / ordering of a load (first ordering argument) -/
def succOrd (s : Site) : Ord := s.ords.getD 0 .unknown

/-- the static table was understood: every atomic operation has literal (or aliased) orderings -/
def staticUnderstood : Bool :=
  mutexSites.all (fun s => s.role == "wait" || s.role == "wake" || (!s.ords.isEmpty && s.ords.all (· != .unknown)))
/-- every RMW of mutex.rs that may take the lock is Acquire or stronger (and there is one) -/
def staticAcqOk : Bool := mutexSites.any needsAcq && mutexSites.all (fun s => !needsAcq s || isAcq (succOrd s))
/-- every RMW of mutex.rs that gives the lock up is Release or stronger (and there is one) -/
def staticRelOk : Bool := mutexSites.any needsRel && mutexSites.all (fun s => !needsRel s || isRel (succOrd s))
/-- the lock word is only ever written by RMWs (release sequences are never broken by a plain store) -/
def noStore : Bool := mutexSites.all (fun s => s.op != "store")

/-- every RMW that returned a guard on some explored schedule carried Acquire or stronger (and some did) -/
def obsAcqOk : Bool :=
  Gen.MutexObs.observed.any (fun r => r.2.1 == "acquire") &&
  Gen.MutexObs.observed.all (fun r => r.2.1 != "acquire" || isAcq r.2.2)
/-- every RMW that began a guard's drop carried Release or stronger (and some did) -/
def obsRelOk : Bool :=
  Gen.MutexObs.observed.any (fun r => r.2.1 == "release") &&
  Gen.MutexObs.observed.all (fun r => r.2.1 != "release" || isRel r.2.2)

/-- the waiter's futex key kind must match the wakers' (here and the kernel's clear-tid wake used by join: both
shared) — judged on the operation words the real rusl::futex issued, and on the source text when understood -/
def futexKeyOk : Bool :=
  Gen.MutexObs.futexWaitPrivate == Gen.MutexObs.futexWakePrivate &&
  (!futexKeyUnderstood || (futexWaitPrivate == Gen.MutexObs.futexWaitPrivate && futexWakePrivate == Gen.MutexObs.futexWakePrivate))

def genShapeOk : Bool := noStore && futexKeyOk

theorem gen_shape_ok : genShapeOk = true := by decide

/-- the configuration of the model: an ordering bit is set iff *all* RMWs of that kind are strong enough, in the
observation and (when understood) in the source -/
def genCfg : Cfg :=
  let a := obsAcqOk && (!staticUnderstood || staticAcqOk)
  let r := obsRelOk && (!staticUnderstood || staticRelOk)
  { tryAcq := a, lockAcq := a, cas2Acq := a, swap2Acq := a, unlockRel := r
    spinMax := Gen.MutexObs.spinBudget }

theorem gen_cfg_good : genCfg.Good := by decide

/-! ## reachability -/

def Reachable (c : Cfg) (s : St) : Prop := ∃ progs evs, run c (init progs) evs = some s

theorem run_inv (c : Cfg) (hc : c.Good) (s s' : St) (evs : List (Nat × Ev)) (h : run c s evs = some s')
    (hinv : MInv s) : MInv s' := by
  induction evs generalizing s with
  | nil => simp [run] at h; subst h; exact hinv
  | cons x rest ih =>
    obtain ⟨i, e⟩ := x
    simp only [run] at h
    split at h
    · rename_i s1 h1
      exact ih s1 h (step_inv c hc s s1 i e h1 hinv)
    · simp at h

theorem reachable_inv (c : Cfg) (hc : c.Good) (s : St) (h : Reachable c s) : MInv s := by
  obtain ⟨progs, evs, h⟩ := h
  exact run_inv c hc _ s evs h (init_inv progs)

/-! ## the property theorems (for every thread count, program mix and schedule) -/

/-- **mutual exclusion**: at most one thread is between obtaining a guard and its unlocking swap -/
theorem mutex_excl (c : Cfg) (hc : c.Good) (s : St) (h : Reachable c s) (i j : Nat)
    (hi : holds (s.ths i) = true) (hj : holds (s.ths j) = true) : i = j :=
  (reachable_inv c hc s h).uniq i j hi hj

/-- the lock word is non-zero exactly while somebody holds the lock -/
theorem mutex_word_iff_held (c : Cfg) (hc : c.Good) (s : St) (h : Reachable c s) :
    s.wval ≠ 0 ↔ ∃ i, holds (s.ths i) = true := by
  have inv := reachable_inv c hc s h
  constructor
  · exact inv.held
  · rintro ⟨i, hi⟩ h0
    have := inv.free h0 i
    simp [hi] at this

/-- **visibility**: no guarded access ever races — every access under a guard happens-after every earlier
access under any earlier guard (needs Acquire on every acquiring RMW and Release on the unlocking swap:
`c.Good`, re-checked against the source by `gen_cfg_good`) -/
theorem mutex_visibility (c : Cfg) (hc : c.Good) (s : St) (h : Reachable c s) : s.raced = false :=
  (reachable_inv c hc s h).nrace

/-- the holder's view covers every write made under the lock so far -/
theorem mutex_holder_sees_all (c : Cfg) (hc : c.Good) (s : St) (h : Reachable c s) (i : Nat)
    (hi : holds (s.ths i) = true) : (s.ths i).dv = s.dlatest :=
  (reachable_inv c hc s h).hdv i hi

/-- **no lost wake-up**: whenever a thread is parked in the kernel, the word is 2 (so the holder's unlock will
issue a wake), or a wake is already pending, or an awake contender exists that will restore 2 before it can park -/
theorem mutex_no_lost_wakeup (c : Cfg) (hc : c.Good) (s : St) (h : Reachable c s)
    (hp : ∃ i, isParked (s.ths i) = true) :
    s.wval = 2 ∨ (∃ i, wakePending (s.ths i) = true) ∨ (∃ i, contender (s.ths i) = true) :=
  (reachable_inv c hc s h).nolost hp

theorem enabled_of_holds (t : Th) (h : holds t = true) : enabled t = true := by
  unfold holds at h; unfold enabled isParked finished
  split at h <;> simp_all

theorem enabled_of_witness (t : Th) (h : witness t = true) : enabled t = true := by
  unfold witness contender wakePending at h; unfold enabled isParked finished
  cases hpc : t.pc <;> simp_all

/-- **no deadlock**: as long as some thread is parked, some thread can take a step of its own — the parked
threads are never all that is left (spurious futex returns are not needed for progress) -/
theorem mutex_no_deadlock (c : Cfg) (hc : c.Good) (s : St) (h : Reachable c s)
    (hp : ∃ i, isParked (s.ths i) = true) : ∃ j, enabled (s.ths j) = true := by
  have inv := reachable_inv c hc s h
  rcases inv.nolost hp with h2 | ⟨k, hk⟩ | ⟨k, hk⟩
  · obtain ⟨j, hj⟩ := inv.held (by omega)
    exact ⟨j, enabled_of_holds _ hj⟩
  · exact ⟨k, enabled_of_witness _ (by simp [witness, hk])⟩
  · exact ⟨k, enabled_of_witness _ (by simp [witness, hk])⟩

/-- a thread that is not enabled and not finished is parked (the only blocking point is the futex wait) -/
theorem blocked_only_in_futex (t : Th) (h1 : enabled t = false) (h2 : finished t = false) : isParked t = true := by
  unfold enabled at h1; simp_all

/-- **try_lock never blocks**: its only step is one CAS, after which it is returning (guard or None) -/
theorem try_lock_nonblocking (c : Cfg) (s s' : St) (i : Nat) (e : Ev)
    (hpc : (s.ths i).pc = .fastCas true) (h : step c s i e = some s') :
    (s'.ths i).pc = .acquired ∨ (s'.ths i).pc = .tryFailed := by
  unfold step at h
  by_cases hi : i ≥ s.n
  · simp [hi] at h
  · simp only [hi, if_false, hpc] at h
    cases e <;> try (simp at h; done)
    rename_i ok old
    simp only [] at h
    split at h
    · simp at h
    · split at h
      · split at h
        · cases h; left; simp [rmw]
        · simp at h
      · split at h
        · simp at h
        · cases h; right; simp

/-- **try_lock fails only if the mutex was held at that instant** (the CAS reads the latest value) -/
theorem try_lock_fails_only_if_held (c : Cfg) (hc : c.Good) (s s' : St) (i : Nat) (e : Ev) (hr : Reachable c s)
    (hpc : (s.ths i).pc = .fastCas true) (h : step c s i e = some s') (hf : (s'.ths i).pc = .tryFailed) :
    ∃ j, holds (s.ths j) = true := by
  have inv := reachable_inv c hc s hr
  have hne : s.wval ≠ 0 := by
    unfold step at h
    by_cases hi : i ≥ s.n
    · simp [hi] at h
    · simp only [hi, if_false, hpc] at h
      cases e <;> try (simp at h; done)
      rename_i ok old
      simp only [] at h
      split at h
      · simp at h
      · split at h
        · split at h
          · cases h; simp [rmw] at hf
          · simp at h
        · split at h
          · simp at h
          · assumption
  exact inv.held hne

/-- and it succeeds whenever the word is free at that instant -/
theorem try_lock_succeeds_if_free (c : Cfg) (s : St) (i : Nat) (hi : i < s.n)
    (hpc : (s.ths i).pc = .fastCas true) (h0 : s.wval = 0) :
    ∃ s', step c s i (.cas true 0) = some s' ∧ (s'.ths i).pc = .acquired := by
  refine ⟨rmw s i (s.ths i) c.tryAcq false 1 .acquired, ?_, by simp [rmw]⟩
  unfold step
  have : ¬ i ≥ s.n := by omega
  simp [this, hpc, h0]

theorem run_pinv (c : Cfg) (s s' : St) (evs : List (Nat × Ev)) (h : run c s evs = some s') (hp : PInv s) : PInv s' := by
  induction evs generalizing s with
  | nil => simp [run] at h; subst h; exact hp
  | cons x rest ih =>
    obtain ⟨i, e⟩ := x
    simp only [run] at h
    split at h
    · rename_i s1 h1
      exact ih s1 h (step_pinv c s s1 i e h1 hp)
    · simp at h

/-- **every `lock()` call can return once the holder releases** (liveness in possibility form): from every
reachable state, a thread anywhere inside a blocking `lock()` call — spinning, about to mark the word contended,
about to wait, or parked in the kernel — can be driven to hold the lock by a schedule in which only the current
holder (running to its unlocking swap) and then the thread itself take steps; no third party and no lucky wake is
needed (a parked thread resumes through a futex return the kernel is always allowed to make).  Under a fair
scheduler this is what "every lock() returns once holders keep releasing" needs from the protocol; starvation by
barging threads is inherent to this lock and is not excluded. -/
theorem mutex_can_always_acquire (c : Cfg) (hc : c.Good) (s : St) (h : Reachable c s) (t : Nat) (ht : t < s.n)
    (hl : inLock (s.ths t) = true) :
    ∃ evs s', run c s evs = some s' ∧ holds (s'.ths t) = true := by
  have inv := reachable_inv c hc s h
  have pinv : PInv s := by
    obtain ⟨progs, evs, hr⟩ := h
    exact run_pinv c _ s evs hr (init_pinv progs)
  by_cases h0 : s.wval = 0
  · obtain ⟨s', ⟨evs, _, hr, _, _⟩, hh⟩ := acquire_when_free c s t ht h0 hl
    exact ⟨evs, s', hr, hh⟩
  · obtain ⟨u, hu⟩ := inv.held h0
    have hun : u < s.n := by
      by_cases hlt : u < s.n
      · exact hlt
      · have := inv.outside u (by omega); simp [holds, this] at hu
    have hut : u ≠ t := by
      intro heq; subst heq
      unfold inLock at hl; unfold holds at hu
      cases hpc : (s.ths u).pc <;> simp_all
    obtain ⟨s1, ⟨e1, _, r1, n1, o1⟩, w1⟩ := release_holder c s u hun pinv hu
    have ht1 : t < s1.n := by rw [n1]; exact ht
    have hl1 : inLock (s1.ths t) = true := by rw [o1 t (Ne.symm hut)]; exact hl
    obtain ⟨s2, ⟨e2, _, r2, _, _⟩, hh⟩ := acquire_when_free c s1 t ht1 w1 hl1
    refine ⟨e1 ++ e2, s2, ?_, hh⟩
    rw [run_append, r1]; exact r2

/-! ## the orderings are necessary: with a relaxed unlock (or a relaxed acquire) the model exhibits a race.
These witnesses are what the check replays when `gen_cfg_good` breaks. -/

def badRel : Cfg := { genCfg with unlockRel := false }
def badAcq : Cfg := { genCfg with lockAcq := false }

def raceTrace : List (Nat × Ev) :=
  [(0, .callLock), (0, .cas true 0), (0, .acq), (0, .data), (0, .rel), (0, .swap 0 1),
   (1, .callLock), (1, .cas true 0), (1, .acq), (1, .data)]

def racedOf (c : Cfg) : Option Bool :=
  (run c (init [[⟨false, 1⟩], [⟨false, 1⟩]]) raceTrace).map (·.raced)

theorem relaxed_unlock_races : racedOf badRel = some true := by decide
theorem relaxed_acquire_races : racedOf badAcq = some true := by decide
theorem good_cfg_same_trace_no_race : racedOf genCfg = some false := by decide

/-! ## non-vacuity: reachable states with parked threads, contention and hand-over exist -/

def parkTrace : List (Nat × Ev) :=
  [(0, .callLock), (0, .cas true 0), (0, .acq),
   (1, .callLock), (1, .cas false 1), (1, .load 1)]

/-- a reachable state in which thread 1 is parked on the futex while thread 0 holds the lock and the word is 2 -/
def parkedState : Option (Nat × Bool × Bool) :=
  (run { genCfg with spinMax := 0 } (init [[⟨false, 0⟩], [⟨false, 0⟩]])
    (parkTrace ++ [(1, .swap 2 1), (1, .load 2), (1, .fwait 2 true)])).map
    (fun s => (s.wval, isParked (s.ths 1), holds (s.ths 0)))

example : parkedState = some (2, true, true) := by decide
-- `mutex_can_always_acquire` applies to that state: thread 1 is parked inside lock()
example : (run { genCfg with spinMax := 0 } (init [[⟨false, 0⟩], [⟨false, 0⟩]])
    (parkTrace ++ [(1, .swap 2 1), (1, .load 2), (1, .fwait 2 true)])).map (fun s => inLock (s.ths 1)) = some true := by decide
example : Reachable genCfg (init [[⟨false, 1⟩]]) := ⟨[[⟨false, 1⟩]], [], rfl⟩
example : genCfg.Good := gen_cfg_good

end TinyVerif.Mutex
