/-
C10 — every UnixStr/UnixString produced by a safe constructor, conversion or path operation is
NUL-terminated exactly once; unrepresentable inputs are rejected with an error, never a panic.

Theorems about `Model/UnixStr.lean` (tied to rusl/src/string/unix_str.rs by the correspondence run
of `bin/check C10`: raw `as_slice()` bytes of the real functions vs. these definitions), for byte
lists of ANY length.  `WFU l` = raw bytes non-empty, last byte NUL, no other NUL.
-/
import TinyVerif.Model.UnixStr
import TinyVerif.Model.UnixStrSpec
import TinyVerif.Proofs.UnixStrLemmas
set_option linter.unusedSimpArgs false
set_option linter.unusedVariables false
namespace TinyVerif.UnixStr

/-- an interior NUL: the first NUL is followed by at least one more byte -/
def InteriorNul (s : List Nat) : Prop := ∃ pre post, s = pre ++ 0 :: post ∧ 0 ∉ pre ∧ post ≠ []

/-- the definition of DESIGN C10, unfolded -/
theorem wfu_def (l : List Nat) : WFU l ↔ l ≠ [] ∧ l.getLast? = some 0 ∧ 0 ∉ l.dropLast := Iff.rfl

/-- equivalent form used in the proofs: content ++ [0] with NUL-free content -/
theorem wfu_iff_content (l : List Nat) : WFU l ↔ ∃ c, l = c ++ [0] ∧ 0 ∉ c := wfu_iff l

/-- the three input classes are exhaustive and mutually exclusive, so the next two theorems state
"ok exactly when …, err exactly when …" -/
theorem input_classes_exclusive (s : List Nat) :
    ¬ (0 ∉ s ∧ WFU s) ∧ ¬ (0 ∉ s ∧ InteriorNul s) ∧ ¬ (WFU s ∧ InteriorNul s) := by
  refine ⟨?_, ?_, ?_⟩
  · rintro ⟨h0, hw⟩
    obtain ⟨c, rfl, _⟩ := (wfu_iff s).1 hw
    simp at h0
  · rintro ⟨h0, pre, post, rfl, _, _⟩
    simp at h0
  · rintro ⟨hw, pre, post, hs, hpre, hpost⟩
    obtain ⟨c, rfl, hc⟩ := (wfu_iff s).1 hw
    -- 0 :: post is a suffix ending in [0]; post non-empty puts a NUL inside c
    rcases List.eq_nil_or_concat post with rfl | ⟨post', z, rfl⟩
    · exact hpost rfl
    · have h2 : c ++ [0] = (pre ++ 0 :: post') ++ [z] := by simpa using hs
      have h3 := List.append_inj' h2 (by simp)
      exact hc (by rw [h3.1]; simp)

/-- **borrowed constructors** (`UnixStr::try_from_bytes`, `try_from_str`): never panic (incl. the empty
input, where `len - 1` is never evaluated); `Ok` exactly for well-formed input, returned unchanged;
"not null terminated" exactly when there is no NUL; "out of place" exactly for an interior NUL. -/
theorem try_from_borrowed_sound (s : List Nat) :
    (0 ∉ s ∧ tryFromBorrowed s = .err .noterm) ∨
    (WFU s ∧ tryFromBorrowed s = .ok s) ∨
    (InteriorNul s ∧ tryFromBorrowed s = .err .interior) := by
  unfold tryFromBorrowed
  rcases scanNul_spec s.length s 0 (by simp) with ⟨h1, h2⟩ | ⟨h1, pre, h2, h3⟩ | ⟨h1, pre, post, h2, h3, h4⟩
  · left; exact ⟨h2, by rw [h1]⟩
  · right; left; exact ⟨(wfu_iff s).2 ⟨pre, h2, h3⟩, by rw [h1]⟩
  · right; right; exact ⟨⟨pre, post, h2, h3, h4⟩, by rw [h1]⟩

/-- **owned constructors** (`UnixString::try_from_bytes/_vec/_str/_string`, `FromStr`): never panic;
NUL-free input gets exactly one terminator appended (content = input), well-formed input is kept
(content = input without its trailing NUL), an interior NUL is the only error. -/
theorem try_from_owned_sound (s : List Nat) :
    (0 ∉ s ∧ tryFromOwned s = .ok (s ++ [0])) ∨
    (WFU s ∧ tryFromOwned s = .ok s) ∨
    (InteriorNul s ∧ tryFromOwned s = .err .interior) := by
  unfold tryFromOwned
  rcases scanNul_spec s.length s 0 (by simp) with ⟨h1, h2⟩ | ⟨h1, pre, h2, h3⟩ | ⟨h1, pre, post, h2, h3, h4⟩
  · left; exact ⟨h2, by rw [h1]⟩
  · right; left; exact ⟨(wfu_iff s).2 ⟨pre, h2, h3⟩, by rw [h1]⟩
  · right; right; exact ⟨⟨pre, post, h2, h3, h4⟩, by rw [h1]⟩

/-- every value an owned constructor returns is well-formed and carries the input's content -/
theorem try_from_owned_ok_wfu (s u : List Nat) (h : tryFromOwned s = .ok u) :
    WFU u ∧ (content u = s ∨ (u = s ∧ content u ++ [0] = s)) := by
  rcases try_from_owned_sound s with ⟨h0, h1⟩ | ⟨hw, h1⟩ | ⟨_, h1⟩
  · rw [h1] at h; cases h
    exact ⟨wfu_snoc h0, Or.inl (by simp)⟩
  · rw [h1] at h; cases h
    obtain ⟨c, rfl, hc⟩ := (wfu_iff s).1 hw
    exact ⟨hw, Or.inr ⟨rfl, by simp⟩⟩
  · rw [h1] at h; cases h

/-- every value a borrowed constructor returns is well-formed -/
theorem try_from_borrowed_ok_wfu (s u : List Nat) (h : tryFromBorrowed s = .ok u) : WFU u ∧ u = s := by
  rcases try_from_borrowed_sound s with ⟨_, h1⟩ | ⟨hw, h1⟩ | ⟨_, h1⟩
  · rw [h1] at h; cases h
  · rw [h1] at h; cases h; exact ⟨hw, rfl⟩
  · rw [h1] at h; cases h

/-- **position- and length-independence of the rejection**: a NUL at ANY index other than the last one —
whatever precedes it, however long the operand is, and whether or not a terminator is present as well
(`post` may end in NUL) — is the "out of place" error of both constructor families.  There is no
window of positions, and no operand length, for which an interior NUL is accepted. -/
theorem nul_anywhere_rejected (pre post : List Nat) (hpost : post ≠ []) :
    tryFromBorrowed (pre ++ 0 :: post) = .err .interior ∧ tryFromOwned (pre ++ 0 :: post) = .err .interior := by
  have h0 : ¬ (0 ∉ pre ++ 0 :: post) := by simp
  have hw : ¬ WFU (pre ++ 0 :: post) := by
    intro hw
    obtain ⟨c, hc', hc⟩ := (wfu_iff _).1 hw
    rcases List.eq_nil_or_concat post with rfl | ⟨post', z, rfl⟩
    · exact hpost rfl
    · have h2 : c ++ [0] = (pre ++ 0 :: post') ++ [z] := by simpa using hc'.symm
      have h3 := List.append_inj' h2 (by simp)
      exact hc (by rw [h3.1]; simp)
  constructor
  · rcases try_from_borrowed_sound (pre ++ 0 :: post) with ⟨h, _⟩ | ⟨h, _⟩ | ⟨_, h⟩
    · exact absurd h h0
    · exact absurd h hw
    · exact h
  · rcases try_from_owned_sound (pre ++ 0 :: post) with ⟨h, _⟩ | ⟨h, _⟩ | ⟨_, h⟩
    · exact absurd h h0
    · exact absurd h hw
    · exact h

/-- … and a well-formed string of any length is accepted unchanged (content of `n` arbitrary non-NUL bytes) -/
theorem long_content_accepted (c : List Nat) (hc : 0 ∉ c) :
    tryFromBorrowed (c ++ [0]) = .ok (c ++ [0]) ∧ tryFromOwned (c ++ [0]) = .ok (c ++ [0]) ∧
    tryFromOwned c = .ok (c ++ [0]) := by
  have hw := wfu_snoc hc
  have hx := input_classes_exclusive (c ++ [0])
  refine ⟨?_, ?_, ?_⟩
  · rcases try_from_borrowed_sound (c ++ [0]) with ⟨h, _⟩ | ⟨_, h⟩ | ⟨h, _⟩
    · exact absurd ⟨h, hw⟩ hx.1
    · exact h
    · exact absurd ⟨hw, h⟩ hx.2.2
  · rcases try_from_owned_sound (c ++ [0]) with ⟨h, _⟩ | ⟨_, h⟩ | ⟨h, _⟩
    · exact absurd ⟨h, hw⟩ hx.1
    · exact h
    · exact absurd ⟨hw, h⟩ hx.2.2
  · rcases try_from_owned_sound c with ⟨_, h⟩ | ⟨h, _⟩ | ⟨h, _⟩
    · exact h
    · exact absurd ⟨hc, h⟩ (input_classes_exclusive c).1
    · exact absurd ⟨hc, h⟩ (input_classes_exclusive c).2.1

/-- **const validator** behind `from_str_checked` / `unix_lit!`: accepts exactly the well-formed byte
strings; its only other outcome is the (compile-time) panic -/
theorem const_validate_iff (s : List Nat) :
    (constValidate s = .ok () ↔ WFU s) ∧ (constValidate s = .ok () ∨ constValidate s = .panic) := by
  rcases List.eq_nil_or_concat s with rfl | ⟨c, b, rfl⟩
  · refine ⟨⟨fun h => by simp [constValidate] at h, fun h => absurd rfl h.1⟩, Or.inr (by simp [constValidate])⟩
  · rw [List.concat_eq_append, constValidate_snoc]
    by_cases h : b = 0 ∧ 0 ∉ c
    · simp only [h, and_self, not_false_eq_true, if_true, true_iff, true_or, and_true]
      obtain ⟨rfl, hc⟩ := h
      exact wfu_snoc hc
    · simp only [h, if_false, reduceCtorEq, false_iff, or_true, and_true]
      intro hw
      obtain ⟨c', hc', h0⟩ := (wfu_iff _).1 hw
      have := List.append_inj' hc' (by simp)
      apply h
      refine ⟨by simpa using this.2, by rw [this.1]; exact h0⟩

/-- `unix_lit!(lit)` for a NUL-free literal is `lit ++ [0]` -/
theorem unix_lit_wf (c : List Nat) (hc : 0 ∉ c) : unixLit c = .ok (c ++ [0]) ∧ WFU (c ++ [0]) := by
  refine ⟨?_, wfu_snoc hc⟩
  have := ((const_validate_iff (c ++ [0])).1).2 (wfu_snoc hc)
  simp [unixLit, fromStrChecked, this]

/-- `from_format`: NUL-free payload ⇒ payload + one NUL; already terminated payload kept as is -/
theorem from_format_wf (p : List Nat) :
    (0 ∉ p → fromFormat p = .ok (p ++ [0]) ∧ WFU (p ++ [0])) ∧
    (WFU p → fromFormat p = .ok p) := by
  refine ⟨fun h => ⟨by simp [fromFormat, ensureNul_nulfree h], wfu_snoc h⟩, fun hw => ?_⟩
  obtain ⟨c, rfl, _⟩ := (wfu_iff p).1 hw
  simp [fromFormat, ensureNul_terminated]

/-- `path_join` of two UnixStr is a UnixStr -/
theorem path_join_wf (s e : List Nat) (hs : WFU s) (he : WFU e) : ∃ u, pathJoin s e = .ok u ∧ WFU u := by
  obtain ⟨cs, rfl, h1⟩ := (wfu_iff s).1 hs
  obtain ⟨ce, rfl, h2⟩ := (wfu_iff e).1 he
  exact ⟨_, pathJoin_eq cs ce, wfu_snoc (joinSpec_nulfree cs ce h1 h2)⟩

/-- `path_join_fmt` with a NUL-free formatted payload is a UnixStr -/
theorem path_join_fmt_wf (s p : List Nat) (hs : WFU s) (hp : 0 ∉ p) : ∃ u, pathJoinFmt s p = .ok u ∧ WFU u := by
  obtain ⟨cs, rfl, h1⟩ := (wfu_iff s).1 hs
  exact ⟨_, pathJoinFmt_eq cs p h1 hp, wfu_snoc (joinSpec_nulfree cs p h1 hp)⟩

/-- `from_format` for every `Arguments` shape (literal format string, literal around run-time
arguments, arguments only): NUL-free pieces ⇒ the rendered bytes + one NUL, a UnixStr -/
theorem from_format_args_wf (sh : FmtShape) (l x y : List Nat) (hl : 0 ∉ l) (hx : 0 ∉ x) (hy : 0 ∉ y) :
    fromFormatArgs sh l x y = .ok (render sh l x y ++ [0]) ∧ WFU (render sh l x y ++ [0]) := by
  have h : 0 ∉ render sh l x y := by cases sh <;> simp [render, hl, hx, hy]
  exact (from_format_wf _).1 h

/-- … and a literal that carries its own terminator (`format_args!("…\0")`, the documented use) is kept as is -/
theorem from_format_terminated_literal (c : List Nat) (hc : 0 ∉ c) :
    fromFormatArgs .lit (c ++ [0]) [] [] = .ok (c ++ [0]) :=
  (from_format_wf _).2 (wfu_snoc hc)

/-- `path_join_fmt` for every `Arguments` shape with NUL-free pieces is a UnixStr -/
theorem path_join_fmt_args_wf (s : List Nat) (sh : FmtShape) (l x y : List Nat) (hs : WFU s)
    (hl : 0 ∉ l) (hx : 0 ∉ x) (hy : 0 ∉ y) : ∃ u, pathJoinFmtArgs s sh l x y = .ok u ∧ WFU u := by
  have h : 0 ∉ render sh l x y := by cases sh <;> simp [render, hl, hx, hy]
  exact path_join_fmt_wf s _ hs h

/-- the shape of the `Arguments` is not an input of either entry point: equal renderings, equal results -/
theorem fmt_shape_independent (s : List Nat) (sh sh' : FmtShape) (l x y l' x' y' : List Nat)
    (h : render sh l x y = render sh' l' x' y') :
    fromFormatArgs sh l x y = fromFormatArgs sh' l' x' y' ∧
    pathJoinFmtArgs s sh l x y = pathJoinFmtArgs s sh' l' x' y' := by
  simp only [fromFormatArgs, pathJoinFmtArgs, h, and_self]

/-- `path_file_name` re-slices `[ind+1..]`, keeping the terminator -/
theorem file_name_wf (s : List Nat) (hs : WFU s) :
    ∃ o, pathFileName s = .ok o ∧ ∀ u, o = some u → WFU u := by
  obtain ⟨c, rfl, hc⟩ := (wfu_iff s).1 hs
  refine ⟨_, pathFileName_eq c, ?_⟩
  intro u hu
  unfold fileNameSpec at hu
  cases ha : afterLastSlash c with
  | none => simp [ha] at hu
  | some r =>
    obtain ⟨p, hp⟩ := afterLastSlash_some c r ha
    have hr : 0 ∉ r := fun e => hc (by rw [hp]; simp [e])
    rw [ha] at hu
    by_cases hre : r = []
    · simp [hre] at hu
    · simp only [hre, if_false, Option.map_some, Option.some.injEq] at hu
      rw [← hu]; exact wfu_snoc hr

/-- `parent_path` (after the fix) returns a UnixString — FALSE for the code before the fix, see
`parent_path_not_terminated_legacy` -/
theorem parent_path_wf (s : List Nat) (hs : WFU s) :
    ∃ o, parentPath s = .ok o ∧ ∀ u, o = some u → WFU u := by
  obtain ⟨c, rfl, hc⟩ := (wfu_iff s).1 hs
  refine ⟨_, parentPath_eq c, ?_⟩
  intro u hu
  unfold parentSpec at hu
  by_cases hl : c.length < 2
  · simp [hl] at hu
  · simp only [hl, if_false] at hu
    cases hb : beforeLastSlash c with
    | none => simp [hb] at hu
    | some p =>
      obtain ⟨r, hr, _⟩ := beforeLastSlash_some c p hb
      have hp : 0 ∉ p := fun e => hc (by rw [hr]; simp [e])
      rw [hb] at hu
      by_cases hd : p.getLast? = some 47
      · simp [hd] at hu
      · by_cases hpe : p = []
        · subst hpe
          simp at hu
          rw [← hu]; exact wfu_snoc (c := [47]) (by simp)
        · simp only [hd, if_false, hpe, Option.map_some, Option.some.injEq] at hu
          rw [← hu]; exact wfu_snoc hp

/-- the code before commit 9938ed5: the parent of `"a/b\0"` was the three raw bytes `a/b`… cut to
`"a/"` — ending in `'/'`, no terminator -/
theorem parent_path_not_terminated_legacy :
    Legacy.parentPath [97, 47, 98, 0] = .ok (some [97, 47]) ∧ ¬ WFU [97, 47] := by
  refine ⟨by decide, ?_⟩
  rintro ⟨_, h, _⟩
  simp at h

/-- `DirEntry::file_unix_name`: the name is the buffer up to and including its first NUL (hence
well-formed, and a prefix of the buffer: no byte outside `d_name` is exposed); the only other outcome
is the "not null terminated" error, exactly when the buffer has no NUL -/
theorem file_unix_name_wf (buf : List Nat) :
    (0 ∉ buf ∧ fileUnixName buf = .err .noterm) ∨
    (∃ u, fileUnixName buf = .ok u ∧ WFU u ∧ u <+: buf) := by
  rcases fileUnixName_spec buf with h | ⟨pre, post, h1, h2, h3⟩
  · exact Or.inl h
  · right
    refine ⟨pre ++ [0], h3, wfu_snoc h2, ?_⟩
    rw [h1]; exact ⟨post, by simp⟩

/-- no constructor, conversion or path operation panics, reads out of bounds or runs out of model
fuel on any input it can be given by safe code -/
theorem no_panic_all_ops (s e p : List Nat) (hs : WFU s) (he : WFU e) :
    (∃ v, tryFromBorrowed p = .ok v ∨ ∃ k, tryFromBorrowed p = .err k) ∧
    (∃ v, tryFromOwned p = .ok v ∨ ∃ k, tryFromOwned p = .err k) ∧
    (∃ v, fromFormat p = .ok v) ∧
    (fileUnixName p = .err .noterm ∨ ∃ v, fileUnixName p = .ok v) ∧
    (∃ v, pathJoin s e = .ok v) ∧
    (0 ∉ p → ∃ v, pathJoinFmt s p = .ok v) ∧
    (∃ v, pathFileName s = .ok v) ∧
    (∃ v, parentPath s = .ok v) := by
  refine ⟨?_, ?_, ⟨_, rfl⟩, ?_, ?_, ?_, ?_, ?_⟩
  · rcases try_from_borrowed_sound p with ⟨_, h⟩ | ⟨_, h⟩ | ⟨_, h⟩
    · exact ⟨[], Or.inr ⟨_, h⟩⟩
    · exact ⟨p, Or.inl h⟩
    · exact ⟨[], Or.inr ⟨_, h⟩⟩
  · rcases try_from_owned_sound p with ⟨_, h⟩ | ⟨_, h⟩ | ⟨_, h⟩
    · exact ⟨_, Or.inl h⟩
    · exact ⟨_, Or.inl h⟩
    · exact ⟨[], Or.inr ⟨_, h⟩⟩
  · rcases file_unix_name_wf p with ⟨_, h⟩ | ⟨u, h, _⟩
    · exact Or.inl h
    · exact Or.inr ⟨u, h⟩
  · obtain ⟨u, h, _⟩ := path_join_wf s e hs he; exact ⟨u, h⟩
  · intro hp; obtain ⟨u, h, _⟩ := path_join_fmt_wf s p hs hp; exact ⟨u, h⟩
  · obtain ⟨o, h, _⟩ := file_name_wf s hs; exact ⟨o, h⟩
  · obtain ⟨o, h, _⟩ := parent_path_wf s hs; exact ⟨o, h⟩

/-! ## non-vacuity: concrete non-trivial instances of every hypothesis set / outcome class -/

example : WFU [47, 97, 0] := wfu_snoc (c := [47, 97]) (by decide)
example : ¬ WFU [] := fun h => h.1 rfl
example : InteriorNul [97, 0, 98] := ⟨[97], [98], rfl, by decide, by decide⟩
example : tryFromBorrowed [] = .err .noterm := by decide
example : tryFromOwned [] = .ok [0] := by decide
example : tryFromBorrowed [97, 0, 0] = .err .interior := by decide
example : tryFromOwned [97, 0xff, 0] = .ok [97, 0xff, 0] := by decide
example : constValidate [97, 0, 98, 0] = .panic := by decide
example : constValidate [97, 98, 0] = .ok () := by decide
example : pathJoin [97, 47, 0] [47, 98, 0] = .ok [97, 47, 98, 0] := by decide
example : pathJoinFmt [97, 0] [98] = .ok [97, 47, 98, 0] := by decide
example : parentPath [47, 97, 0] = .ok (some [47, 0]) := by decide
example : parentPath [97, 47, 98, 0] = .ok (some [97, 0]) := by decide
example : pathFileName [97, 47, 98, 0] = .ok (some [98, 0]) := by decide
example : fileUnixName [97, 0, 98, 0xff] = .ok [97, 0] := by decide
/-- beyond the short range: a NUL at index 8 of an 18-byte terminated operand, and at index 300 of a 4097-byte one -/
example : tryFromBorrowed (List.replicate 8 97 ++ 0 :: (List.replicate 8 97 ++ [0])) = .err .interior :=
  (nul_anywhere_rejected _ _ (snoc_ne_nil _ _)).1
example : tryFromBorrowed (List.replicate 300 97 ++ 0 :: (List.replicate 3795 97 ++ [0])) = .err .interior :=
  (nul_anywhere_rejected _ _ (snoc_ne_nil _ _)).1
example : tryFromBorrowed (List.replicate 4096 97 ++ [0]) = .ok (List.replicate 4096 97 ++ [0]) :=
  (long_content_accepted _ (not_mem_replicate _ (by decide))).1
/-- an interior NUL coming out of a format argument passes through `from_format` (outside the property:
"for NUL-free inputs") — recorded, not hidden -/
example : fromFormat [97, 0, 98] = .ok [97, 0, 98, 0] := by decide
example : fromFormatArgs .lit [] [] [] = .ok [0] := by decide
example : fromFormatArgs .litArgArg [47] [97] [98] = .ok [47, 97, 98, 0] := by decide
example : fromFormatArgs .lit [97, 0] [] [] = .ok [97, 0] := by decide
example : pathJoinFmtArgs [0] .lit [97] [] [] = .ok [97, 0] := by decide

end TinyVerif.UnixStr
