import TinyVerif.Proofs.FsLemmas
/-!
# C14 — file-system post-conditions

Model: `TinyVerif/Model/Fs.lean` (kernel contract = assumption; byte-level mirrors of tiny-std/src/fs.rs).
Every theorem quantifies over every tree `st.root`, every working directory, every path byte string of the
modelled domain (relative/absolute, any number of components, repeated and trailing separators, any existing
prefix, any length: the 512-byte stack/heap split has both arms, PATH_MAX is part of `parsePath`), and every
environment script of short transfers.  `view root q` is what an observer sees at location `q`
(kind + content, directories without their children), so "`∀ q ≠ loc, view … q = view … q`" says that nothing
but the named location changed — symlink targets included.
-/
namespace TinyVerif.Fs.C14
open TinyVerif.Fs

/-! ## OpenOptions → open flags -/

/-- std's `OpenOptions::get_access_mode`/`get_creation_mode` (library/std/src/sys/fs/unix.rs), written as
boolean conditions instead of the match tables the code uses; `none` = EINVAL -/
def stdFlags (o : Opts) : Option Nat :=
  if !o.read && !o.write && !o.append then none
  else if !o.write && !o.append && (o.truncate || o.create || o.createNew) then none
  else if o.append && o.truncate && !o.createNew then none
  else
    let acc := if o.append then (if o.read then O_RDWR else O_WRONLY) ||| O_APPEND
               else if o.read && o.write then O_RDWR else if o.write then O_WRONLY else O_RDONLY
    let cre := if o.createNew then O_CREAT ||| O_EXCL
               else (if o.create then O_CREAT else 0) ||| (if o.truncate then O_TRUNC else 0)
    some (O_CLOEXEC ||| acc ||| cre)

/-- every one of the 64 `OpenOptions` combinations maps to std's flag set or to the documented error -/
theorem open_flags_table :
    ∀ r w a t c n : Bool, openFlags ⟨r, w, a, t, c, n⟩ 0 = stdFlags ⟨r, w, a, t, c, n⟩ := by decide

/-- `fs::write` opens with O_WRONLY|O_CREAT|O_TRUNC|O_CLOEXEC; the repaired `File::copy` destination likewise -/
theorem write_and_copy_flags :
    openFlags writeOpts 0 = some (O_CLOEXEC ||| O_WRONLY ||| O_CREAT ||| O_TRUNC) ∧
    openFlags ⟨false, true, false, true, true, false⟩ 0 = some (O_CLOEXEC ||| O_WRONLY ||| O_CREAT ||| O_TRUNC) := by decide

/-! ## write -/

/-- **write_post**: whenever `fs::write(p, data)` returns Ok — for every tree, path and pattern of short writes —
the path names a regular file holding exactly `data`, `fs::read(p)` returns `data`, and no other location changed. -/
theorem write_post (st st' : FS) (p data : Bytes) (script : List Nat)
    (h : fsWrite st p data script = (st', .ok ())) :
    ∃ loc, parsePath st p = .ok (loc, false) ∧
      getAt st'.root loc = some (.file data) ∧
      (∀ q, q ≠ loc → view st'.root q = view st.root q) ∧
      fsRead st' p = .ok data :=
  write_post' st st' p data script h

/-! ## copy -/

/-- **copy_post**: whenever `copy_file(src, dst)` returns Ok — for EVERY prior state of the destination (absent,
shorter, longer, equal) and every pattern of short `copy_file_range` counts — the destination holds exactly the
source's bytes, and no other location changed (the source included). -/
theorem copy_post (st st' : FS) (src dst : Bytes) (script : List Nat)
    (h : copyFile st src dst script = (st', .ok ())) :
    ∃ sloc dloc s, (∃ tr, parsePath st src = .ok (sloc, tr)) ∧ parsePath st dst = .ok (dloc, false) ∧
      getAt st.root sloc = some (.file s) ∧
      getAt st'.root dloc = some (.file s) ∧
      (∀ q, q ≠ dloc → view st'.root q = view st.root q) :=
  copy_post' st st' src dst script h

/-! ## remove_dir_all -/

/-- **remove_dir_all_post**: whenever `remove_dir_all(p)` returns Ok, `p` named a directory, nothing is left at or
below it, and every location that is not below it — symlink targets, siblings, ancestors — looks exactly as
before. -/
theorem remove_dir_all_post (st st' : FS) (p : Bytes) (h : removeDirAll st p = (st', .ok ())) :
    ∃ loc, (∃ tr, parsePath st p = .ok (loc, tr)) ∧ loc ≠ [] ∧
      (∃ es, getAt st.root loc = some (.dir es)) ∧
      (∀ q, loc <+: q → getAt st'.root q = none) ∧
      (∀ q, ¬ loc <+: q → view st'.root q = view st.root q) :=
  remove_dir_all_post' st st' p h

/-! ## create_dir_all -/

/-- **create_dir_all, existing content untouched** (full strength, for EVERY outcome — Ok, any error — every tree
and every path): every location that held something before holds exactly the same thing afterwards; the call can
only have added directories. -/
theorem create_dir_all_untouched (st : FS) (p : Bytes) :
    (createDirAll st p).1.cwd = st.cwd ∧
    ∀ q k, view st.root q = some k → view (createDirAll st p).1.root q = some k :=
  createDirAll_mono st p

/- Full statement of create_dir_all_post:
     createDirAll st p = (st', .ok ()) →
       ∃ loc tr, parsePath st p = .ok (loc, tr) ∧ (∀ l, l <+: loc → ∃ es, getAt st'.root l = some (.dir es)) ∧ untouched
   Proved below for every path that does not END in '/' (any number of repeated separators elsewhere, relative or
   absolute, any existing prefix, any length).  Missing: paths with a trailing separator when the last `mkdir`
   (the one on the path without its final '/') created the directory — needs `comps (xs ++ [47]) = comps xs` and an
   invariant of the upward loop; that class is covered by the correspondence streams (directed cases `m2/a/b//`,
   `d/`, random trailing separators) and by the model/implementation agreement, not by a theorem. -/

/-- **create_dir_all_post_partial** (paths not ending in a separator): on Ok the path and every one of its ancestors
is a directory, and everything that existed is unchanged. -/
theorem create_dir_all_post_partial (st st' : FS) (p : Bytes)
    (h : createDirAll st p = (st', .ok ())) (hl : p.getLast? ≠ some SLASH) :
    ∃ loc tr, parsePath st p = .ok (loc, tr) ∧
      (∀ l, l <+: loc → ∃ es, getAt st'.root l = some (.dir es)) ∧
      (∀ q k, view st.root q = some k → view st'.root q = some k) := by
  have hm := createDirAll_mono st p
  rw [h] at hm
  obtain ⟨loc, tr, es, hpp, hg⟩ := stat_dir st' p (createDirAll_isDir_noTrailing st st' p h hl)
  rw [parsePath_cwd st st' p hm.1] at hpp
  refine ⟨loc, tr, hpp, ?_, hm.2⟩
  intro l hpre
  obtain ⟨m, rfl⟩ := hpre
  cases m with
  | nil => exact ⟨es, by simpa using hg⟩
  | cons c m' => exact ancestors_are_dirs st'.root l (c :: m') _ (by simp) hg

/-! ## directory iteration -/

/- Full statement of readdir_exactly_once:
     (∀ r ∈ rs, 1 ≤ r.name.length ∧ r.name.length ≤ 255 ∧ ∀ b ∈ r.name, b ≠ 0) →
       readDirAll rs = .ok (rs.map fun r => (r.dtype, r.name))
   i.e. the iterator over the 512-byte buffer yields every record of a quiescent directory stream exactly once, in
   order, with its exact name and type, for any fan-out.  Proved: the per-record step for EVERY record and whatever
   bytes follow it in the buffer (`readdir_record_exact`: exact d_reclen — hence the next record is found exactly —
   exact type, exact name for every name of 0..255 non-NUL bytes), and complete runs with several refills for
   concrete streams by kernel evaluation (`readdir_three_refills`).  Missing: the induction over refills
   (`fill` returns a non-empty prefix `taken` with `bytes = taken.flatMap encode`; the invariant
   `buf.drop offset = pending.flatMap encode ++ junk`).  The correspondence compares yields, per-call byte counts and
   record lengths with the kernel's for fan-outs up to thousands and names of 1..255 bytes. -/

/-- **readdir_record_exact** (`readdir_exactly_once_partial`, per-record step): `Dirent::try_from_bytes` applied to a
buffer that starts with one `linux_dirent64` record returns exactly that record's length, type and name, whatever
follows (next records or stale bytes of an earlier refill). -/
theorem readdir_exactly_once_partial (r : Rec) (tail : Bytes)
    (hv : r.name.length ≤ 255) (hz : ∀ b ∈ r.name, b ≠ 0) :
    tryFromBytes (encode r ++ tail) = .some ⟨reclen r, r.dtype, r.name⟩ ∧
    20 + r.name.length ≤ reclen r ∧ reclen r ≤ 280 ∧ reclen r % 8 = 0 :=
  ⟨tryFromBytes_encode r tail hv hz, reclen_bounds r hv⟩

def demoStream : List Rec :=
  [⟨1, 1, 4, [46]⟩, ⟨2, 2, 4, [46, 46]⟩, ⟨3, 3, 8, List.replicate 255 97⟩, ⟨4, 4, 10, [98]⟩,
   ⟨5, 5, 1, List.replicate 200 99⟩, ⟨6, 6, 8, List.replicate 236 100⟩, ⟨7, 7, 4, List.replicate 100 101⟩,
   ⟨8, 8, 8, [102, 103]⟩, ⟨9, 9, 8, List.replicate 255 104⟩, ⟨10, 10, 8, List.replicate 254 105⟩]

def okList (o : Out (List (Nat × Name))) : Option (List (Nat × Name)) := Except.toOption o

/-- ten records (names of 1, 2, 100, 200, 236, 254, 255 bytes; all four types) need several refills of the
512-byte buffer; every one is yielded exactly once, in order, with its exact name and type -/
theorem readdir_three_refills :
    okList (readDirAll demoStream) = some (demoStream.map fun r => (r.dtype, r.name)) := by decide +kernel

/-! ## defects of the code before the `fix:` commits (model-level witnesses; replayed on the real code by checks/c14.py) -/

def demo : FS :=
  ⟨.dir [([100], .file [48, 49, 50, 51, 52, 53, 54, 55, 56, 57]), ([115], .file [97, 98, 99]), ([101], .dir [])], []⟩

def readAfter (r : FS × Out Unit) (p : Bytes) : Option Bytes :=
  Except.toOption <| match r with
    | (st, .ok ()) => fsRead st p
    | (_, .error e) => .error e

def viewAfter (r : FS × Out Unit) (q : List Name) : Option (Option Kind) :=
  match r with
  | (st, .ok ()) => some (view st.root q)
  | (_, .error _) => none

def errOf (r : FS × Out Unit) : Option E :=
  match r with
  | (_, .ok ()) => none
  | (_, .error e) => some e

/-- DESIGN §4 #14: `abc` copied over `0123456789` left `abc3456789` (no O_TRUNC) -/
theorem old_copy_keeps_tail :
    readAfter (copyFileOld demo [115] [100] []) [100] = some [97, 98, 99, 51, 52, 53, 54, 55, 56, 57] := by decide

/-- the repaired code on the same input -/
theorem copy_replaces_longer : readAfter (copyFile demo [115] [100] []) [100] = some [97, 98, 99] := by decide

/-- offsets passed by value: after a short first `copy_file_range` the second call faulted (EFAULT = 14) -/
theorem old_copy_short_count_efault : errOf (copyFileOld demo [100] [110] [4]) = some (.os 14) := by decide

theorem copy_short_count_ok :
    readAfter (copyFile demo [100] [110] [4, 1, 1]) [110] = some [48, 49, 50, 51, 52, 53, 54, 55, 56, 57] := by decide

/-- DESIGN §4 #15a: `create_dir_all("e/n")` with `e` existing returned Ok and created nothing -/
theorem old_create_dir_all_existing_prefix :
    viewAfter (createDirAllOld demo [101, 47, 110]) [[101], [110]] = some none := by decide

/-- DESIGN §4 #15b: `create_dir_all("n")` (no separator) returned Ok and created nothing -/
theorem old_create_dir_all_single :
    viewAfter (createDirAllOld demo [110]) [[110]] = some none := by decide

/-- a repeated separator made the upward phase trip over its own directory (EEXIST) -/
theorem old_create_dir_all_repeated_slash :
    errOf (createDirAllOld demo [120, 47, 97, 47, 47, 98]) = some (.os EEXIST) := by decide

/-- a path longer than 512 bytes panicked (empty heap slice) -/
theorem old_create_dir_all_long_panics (st : FS) (p : Bytes) (h : p.length > 512) :
    errOf (createDirAllOld st p) = some .panic := by
  have h0 : p.length ≠ 0 := by omega
  simp [createDirAllOld, h0, h, errOf]

theorem create_dir_all_existing_prefix :
    viewAfter (createDirAll demo [101, 47, 110]) [[101], [110]] = some (some .dir) := by decide

theorem create_dir_all_single : viewAfter (createDirAll demo [110]) [[110]] = some (some .dir) := by decide

theorem create_dir_all_repeated_slash :
    viewAfter (createDirAll demo [120, 47, 97, 47, 47, 98]) [[120], [97], [98]] = some (some .dir) := by decide

/-- a regular file in the way is reported, not taken for the directory -/
theorem create_dir_all_file_in_the_way : errOf (createDirAll demo [100]) = some (.os EEXIST) := by decide

/-! ## non-vacuity -/

example : errOf (createDirAll demo [101, 47, 47, 110, 47, 109]) = none ∧ ([101, 47, 47, 110, 47, 109] : Bytes).getLast? ≠ some SLASH := by decide
example : errOf (removeDirAll ⟨.dir [([118], .dir [([108], .symlink [46, 46, 47, 116]), ([100], .dir [([102], .file [1])])]), ([116], .file [7])], []⟩ [118, 47]) = none := by decide +kernel

example : errOf (fsWrite demo [101, 47, 47, 102] [1, 2, 3] [2]) = none := by decide
example : errOf (copyFile demo [115] [100] [1, 1]) = none := by decide

end TinyVerif.Fs.C14
