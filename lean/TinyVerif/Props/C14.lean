import TinyVerif.Proofs.FsLemmas
/-!
# C14 — file-system post-conditions

Model: `TinyVerif/Model/Fs.lean` (kernel contract = assumption; byte-level mirrors of tiny-std/src/fs.rs).
Every theorem quantifies over every tree `st.root`, every working directory, every path byte string of the
modelled domain (relative/absolute, any number of components, repeated and trailing separators, any existing
prefix, any length: the 512-byte stack/heap split has both arms, PATH_MAX is part of `parsePath`), and every
environment input: scripts of short `write` / `copy_file_range` counts, and the split of a directory's records
over successive `getdents64` answers.  `view root q` is what an observer sees at location `q`
(kind + content, directories without their children), so "`∀ q ≠ loc, view … q = view … q`" says that nothing
but the named location changed — symlink targets included.
-/
namespace TinyVerif.Fs.C14
open TinyVerif.Fs

/-! ## OpenOptions → open flags -/

/-- std's `OpenOptions::get_access_mode`/`get_creation_mode` (library/std/src/sys/fs/unix.rs), written as
boolean conditions instead of the match tables the code uses; `none` = EINVAL -/
def stdFlags (o : Opts) : Option Nat :=
  if !o.read && !o.write && !o.append then none
  else if !o.write && !o.append && (o.truncate || o.create || o.createNew) then none
  else if o.append && o.truncate && !o.createNew then none
  else
    let acc := if o.append then (if o.read then O_RDWR else O_WRONLY) ||| O_APPEND
               else if o.read && o.write then O_RDWR else if o.write then O_WRONLY else O_RDONLY
    let cre := if o.createNew then O_CREAT ||| O_EXCL
               else (if o.create then O_CREAT else 0) ||| (if o.truncate then O_TRUNC else 0)
    some (O_CLOEXEC ||| acc ||| cre)

/-- every one of the 64 `OpenOptions` combinations maps to std's flag set or to the documented error -/
theorem open_flags_table :
    ∀ r w a t c n : Bool, openFlags ⟨r, w, a, t, c, n⟩ 0 = stdFlags ⟨r, w, a, t, c, n⟩ := by decide

/-- `fs::write` opens with O_WRONLY|O_CREAT|O_TRUNC|O_CLOEXEC; the repaired `File::copy` destination likewise -/
theorem write_and_copy_flags :
    openFlags writeOpts 0 = some (O_CLOEXEC ||| O_WRONLY ||| O_CREAT ||| O_TRUNC) ∧
    openFlags ⟨false, true, false, true, true, false⟩ 0 = some (O_CLOEXEC ||| O_WRONLY ||| O_CREAT ||| O_TRUNC) := by decide

/-! ## write -/

/-- **write_post**: whenever `fs::write(p, data)` returns Ok — for every tree, path and pattern of short writes —
the path names a regular file holding exactly `data`, `fs::read(p)` returns `data`, and no other location changed. -/
theorem write_post (st st' : FS) (p data : Bytes) (script : List Nat)
    (h : fsWrite st p data script = (st', .ok ())) :
    ∃ loc, parsePath st p = .ok (loc, false) ∧
      getAt st'.root loc = some (.file data) ∧
      (∀ q, q ≠ loc → view st'.root q = view st.root q) ∧
      fsRead st' p = .ok data :=
  write_post' st st' p data script h

/-! ## copy -/

/-- **copy_post**: whenever `copy_file(src, dst)` returns Ok — for EVERY prior state of the destination (absent,
shorter, longer, equal) and every pattern of short `copy_file_range` counts — the destination holds exactly the
source's bytes, and no other location changed (the source included). -/
theorem copy_post (st st' : FS) (src dst : Bytes) (script : List Nat)
    (h : copyFile st src dst script = (st', .ok ())) :
    ∃ sloc dloc s, (∃ tr, parsePath st src = .ok (sloc, tr)) ∧ parsePath st dst = .ok (dloc, false) ∧
      getAt st.root sloc = some (.file s) ∧
      getAt st'.root dloc = some (.file s) ∧
      (∀ q, q ≠ dloc → view st'.root q = view st.root q) :=
  copy_post' st st' src dst script h

/-! ## remove_dir_all -/

/-- **remove_dir_all_post** (on a file system that fills in `d_type` and on one that reports DT_UNKNOWN alike): whenever
`remove_dir_all(p)` returns Ok, `p` named a directory, nothing is left at or
below it, and every location that is not below it — symlink targets, siblings, ancestors — looks exactly as
before. -/
theorem remove_dir_all_post (exact : Bool) (st st' : FS) (p : Bytes) (h : removeDirAllOn exact st p = (st', .ok ())) :
    ∃ loc, (∃ tr, parsePath st p = .ok (loc, tr)) ∧ loc ≠ [] ∧
      (∃ es, getAt st.root loc = some (.dir es)) ∧
      (∀ q, loc <+: q → getAt st'.root q = none) ∧
      (∀ q, ¬ loc <+: q → view st'.root q = view st.root q) :=
  remove_dir_all_post' exact st st' p h

/-! ## create_dir_all -/

/-- **create_dir_all, existing content untouched** (full strength, for EVERY outcome — Ok, any error — every tree
and every path): every location that held something before holds exactly the same thing afterwards; the call can
only have added directories. -/
theorem create_dir_all_untouched (st : FS) (p : Bytes) :
    (createDirAll st p).1.cwd = st.cwd ∧
    ∀ q k, view st.root q = some k → view (createDirAll st p).1.root q = some k :=
  createDirAll_mono st p

/-- **create_dir_all_post** (EVERY path: absolute, relative, repeated separators, any number of trailing separators,
any existing prefix, any length): on Ok the location the path names and every one of its ancestors is a directory,
everything that existed is unchanged, the path is in the modelled domain, and — whenever the path is one the kernel
accepts at all (shorter than PATH_MAX) — it resolves to exactly that location.
`hroot` (the root of the tree is a directory) is needed for the single path `/`, for which the code makes no system
call at all (`create_dir_all_root_needed`). -/
theorem create_dir_all_post (st st' : FS) (p : Bytes) (hroot : ∃ es, st.root = .dir es)
    (h : createDirAll st p = (st', .ok ())) :
    (∀ l, l <+: pathLoc st p → ∃ es, getAt st'.root l = some (.dir es)) ∧
    (∀ q k, view st.root q = some k → view st'.root q = some k) ∧
    (comps p).any isDots = false ∧
    (p.length < PATH_MAX → ∃ tr, parsePath st p = .ok (pathLoc st p, tr)) := by
  have hm := createDirAll_mono st p
  rw [h] at hm
  obtain ⟨⟨es, hg⟩, hdots, hpp⟩ := createDirAll_dirAt st st' p hroot h
  refine ⟨?_, hm.2, hdots, hpp⟩
  intro l hpre
  obtain ⟨m, hm'⟩ := hpre
  cases m with
  | nil =>
    have hl : l = pathLoc st p := by simpa using hm'
    exact ⟨es, by rw [hl]; exact hg⟩
  | cons c m' => exact ancestors_are_dirs st'.root l (c :: m') _ (by simp) (by rw [hm']; exact hg)

/-- paths not ending in a separator need no assumption on the root, and Ok implies the kernel accepts the path -/
theorem create_dir_all_post_no_trailing (st st' : FS) (p : Bytes)
    (h : createDirAll st p = (st', .ok ())) (hl : p.getLast? ≠ some SLASH) :
    ∃ loc tr, parsePath st p = .ok (loc, tr) ∧
      (∀ l, l <+: loc → ∃ es, getAt st'.root l = some (.dir es)) ∧
      (∀ q k, view st.root q = some k → view st'.root q = some k) := by
  have hm := createDirAll_mono st p
  rw [h] at hm
  obtain ⟨loc, tr, es, hpp, hg⟩ := stat_dir st' p (createDirAll_isDir_noTrailing st st' p h hl)
  rw [parsePath_cwd st st' p hm.1] at hpp
  refine ⟨loc, tr, hpp, ?_, hm.2⟩
  intro l hpre
  obtain ⟨m, rfl⟩ := hpre
  cases m with
  | nil => exact ⟨es, by simpa using hg⟩
  | cons c m' => exact ancestors_are_dirs st'.root l (c :: m') _ (by simp) hg

/-! ## directory iteration -/

/-- **readdir_exactly_once** — for EVERY directory content `rs` and EVERY way the kernel may split it over
successive `getdents64(fd, buf, 512)` calls (`chunks`: any partition of `rs` into non-empty runs of records that fit
the 512-byte buffer, followed by the answer 0; whatever the script holds after that is never asked for), the iterator
yields every entry exactly once, in order, with its exact type and name — names of 0..255 bytes, `.` and `..` like any
other entry — and then `None` for every one of the `k` further calls, for every `k`. -/
theorem readdir_exactly_once (rs : List Rec) (chunks : List (List Rec)) (tail : List Dents) (k : Nat)
    (hsplit : chunks.flatten = rs) (hok : ∀ c ∈ chunks, ChunkOk c) :
    (ReadDir.new (chunks.map Dents.recs ++ .eod :: tail)).run (rs.length + k) =
      rs.map entryOf ++ List.replicate k Item.done := by
  subst hsplit
  exact readdir_split' chunks tail k hok

/-- the same when the directory stream simply ends (script exhausted) -/
theorem readdir_exactly_once_exhausted (rs : List Rec) (chunks : List (List Rec)) (k : Nat)
    (hsplit : chunks.flatten = rs) (hok : ∀ c ∈ chunks, ChunkOk c) :
    (ReadDir.new (chunks.map Dents.recs)).run (rs.length + k) = rs.map entryOf ++ List.replicate k Item.done := by
  subst hsplit
  exact readdir_split_exhausted' chunks k hok

/-- an error answer (EINTR, EIO, …) at any point: `ReadDir::next` does NOT retry — the entries of the chunks received
so far, exactly once and in order, then that error once, then `None` forever -/
theorem readdir_error_answer (rs : List Rec) (chunks : List (List Rec)) (e : Nat) (tail : List Dents) (k : Nat)
    (hsplit : chunks.flatten = rs) (hok : ∀ c ∈ chunks, ChunkOk c) :
    (ReadDir.new (chunks.map Dents.recs ++ .err e :: tail)).run (rs.length + (k + 1)) =
      rs.map entryOf ++ Item.err (.os e) :: List.replicate k Item.done := by
  subst hsplit
  exact readdir_split_err' chunks e tail k hok

/-- every directory content has a legal split: the kernel's own (as many whole records as fit, each time); and over
it the drained iterator (`readDirAll`, what `remove_all` consumes) returns every record exactly once, in order -/
theorem readdir_kernel_split (rs : List Rec) (hok : ∀ r ∈ rs, RecOk r) :
    (∃ chunks : List (List Rec), kernelDents 512 rs.length rs = chunks.map Dents.recs ++ [.eod] ∧
      chunks.flatten = rs ∧ ∀ c ∈ chunks, ChunkOk c) ∧
    readDirAll rs = .ok (rs.map fun r => (r.dtype, r.name)) :=
  ⟨kernelDents_chunks rs.length rs (Nat.le_refl _) hok, readDirAll_exact rs hok⟩

/-- `DirEntry::is_relative_reference` singles out exactly `.` and `..` -/
theorem is_relative_reference_iff (n : Name) : isRelRef n = true ↔ n = [DOT] ∨ n = [DOT, DOT] := by
  simp [isRelRef]

/-- **readdir_record_exact** (the per-record step under the theorems above): `Dirent::try_from_bytes` applied to a
buffer that starts with one `linux_dirent64` record returns exactly that record's length, type and name, whatever
follows (next records or stale bytes of an earlier refill). -/
theorem readdir_record_exact (r : Rec) (tail : Bytes)
    (hv : r.name.length ≤ 255) (hz : ∀ b ∈ r.name, b ≠ 0) :
    tryFromBytes (encode r ++ tail) = .some ⟨reclen r, r.dtype, r.name⟩ ∧
    20 + r.name.length ≤ reclen r ∧ reclen r ≤ 280 ∧ reclen r % 8 = 0 :=
  ⟨tryFromBytes_encode r tail hv hz, reclen_bounds r hv⟩

def demoStream : List Rec :=
  [⟨1, 1, 4, [46]⟩, ⟨2, 2, 4, [46, 46]⟩, ⟨3, 3, 8, List.replicate 255 97⟩, ⟨4, 4, 10, [98]⟩,
   ⟨5, 5, 1, List.replicate 200 99⟩, ⟨6, 6, 8, List.replicate 236 100⟩, ⟨7, 7, 4, List.replicate 100 101⟩,
   ⟨8, 8, 8, [102, 103]⟩, ⟨9, 9, 8, List.replicate 255 104⟩, ⟨10, 10, 8, List.replicate 254 105⟩]

def okList (o : Out (List (Nat × Name))) : Option (List (Nat × Name)) := Except.toOption o

/-- ten records (names of 1, 2, 100, 200, 236, 254, 255 bytes; all four types) need several refills of the
512-byte buffer; every one is yielded exactly once, in order, with its exact name and type -/
theorem readdir_three_refills :
    okList (readDirAll demoStream) = some (demoStream.map fun r => (r.dtype, r.name)) := by decide +kernel

/-- three different legal splits of the same ten records (one record per call; the kernel's own; uneven) -/
def demoSplits : List (List (List Rec)) :=
  [demoStream.map (fun r => [r]),
   [demoStream.take 3, (demoStream.drop 3).take 2, (demoStream.drop 5).take 1, (demoStream.drop 6).take 2,
    (demoStream.drop 8).take 1, demoStream.drop 9],
   [demoStream.take 2, (demoStream.drop 2).take 1, (demoStream.drop 3).take 1, (demoStream.drop 4).take 1,
    (demoStream.drop 5).take 1, (demoStream.drop 6).take 3, demoStream.drop 9]]

/-! ## copy: the environment's short counts -/

/-- the script of `copyLoop` ranges over EVERY legal return value of `copy_file_range`: any `0 < w ≤ requested` is
produced by the script entry `w`, and no entry produces anything else (0 is returned only at the end of the source,
which `File::copy` never asks beyond: it requests `st_size - offset` bytes) -/
theorem copy_counts_cover (want : Nat) :
    (∀ w, 0 < w → w ≤ want → clamp w want = w) ∧ (∀ k, clamp k want ≤ want) ∧ (∀ k, 0 < want → 0 < clamp k want) :=
  ⟨fun w h1 h2 => by unfold clamp; split <;> omega, fun k => clamp_le k want, fun k h => clamp_pos k want h⟩

/-! ## defects of the code before the `fix:` commits (model-level witnesses; replayed on the real code by checks/c14.py) -/

def demo : FS :=
  ⟨.dir [([100], .file [48, 49, 50, 51, 52, 53, 54, 55, 56, 57]), ([115], .file [97, 98, 99]), ([101], .dir [])], []⟩

def readAfter (r : FS × Out Unit) (p : Bytes) : Option Bytes :=
  Except.toOption <| match r with
    | (st, .ok ()) => fsRead st p
    | (_, .error e) => .error e

def viewAfter (r : FS × Out Unit) (q : List Name) : Option (Option Kind) :=
  match r with
  | (st, .ok ()) => some (view st.root q)
  | (_, .error _) => none

def errOf (r : FS × Out Unit) : Option E :=
  match r with
  | (_, .ok ()) => none
  | (_, .error e) => some e

/-- DESIGN §4 #14: `abc` copied over `0123456789` left `abc3456789` (no O_TRUNC) -/
theorem old_copy_keeps_tail :
    readAfter (copyFileOld demo [115] [100] []) [100] = some [97, 98, 99, 51, 52, 53, 54, 55, 56, 57] := by decide

/-- the repaired code on the same input -/
theorem copy_replaces_longer : readAfter (copyFile demo [115] [100] []) [100] = some [97, 98, 99] := by decide

/-- offsets passed by value: after a short first `copy_file_range` the second call faulted (EFAULT = 14) -/
theorem old_copy_short_count_efault : errOf (copyFileOld demo [100] [110] [4]) = some (.os 14) := by decide

theorem copy_short_count_ok :
    readAfter (copyFile demo [100] [110] [4, 1, 1]) [110] = some [48, 49, 50, 51, 52, 53, 54, 55, 56, 57] := by decide

/-- DESIGN §4 #15a: `create_dir_all("e/n")` with `e` existing returned Ok and created nothing -/
theorem old_create_dir_all_existing_prefix :
    viewAfter (createDirAllOld demo [101, 47, 110]) [[101], [110]] = some none := by decide

/-- DESIGN §4 #15b: `create_dir_all("n")` (no separator) returned Ok and created nothing -/
theorem old_create_dir_all_single :
    viewAfter (createDirAllOld demo [110]) [[110]] = some none := by decide

/-- a repeated separator made the upward phase trip over its own directory (EEXIST) -/
theorem old_create_dir_all_repeated_slash :
    errOf (createDirAllOld demo [120, 47, 97, 47, 47, 98]) = some (.os EEXIST) := by decide

/-- a path longer than 512 bytes panicked (empty heap slice) -/
theorem old_create_dir_all_long_panics (st : FS) (p : Bytes) (h : p.length > 512) :
    errOf (createDirAllOld st p) = some .panic := by
  have h0 : p.length ≠ 0 := by omega
  simp [createDirAllOld, h0, h, errOf]

theorem create_dir_all_existing_prefix :
    viewAfter (createDirAll demo [101, 47, 110]) [[101], [110]] = some (some .dir) := by decide

theorem create_dir_all_single : viewAfter (createDirAll demo [110]) [[110]] = some (some .dir) := by decide

theorem create_dir_all_repeated_slash :
    viewAfter (createDirAll demo [120, 47, 97, 47, 47, 98]) [[120], [97], [98]] = some (some .dir) := by decide

/-- a regular file in the way is reported, not taken for the directory -/
theorem create_dir_all_file_in_the_way : errOf (createDirAll demo [100]) = some (.os EEXIST) := by decide

/-- THE EXCEPTION CLASS of "Ok ⇒ the path resolves": a path of exactly PATH_MAX = 4096 bytes that ends in a
separator.  The code only ever hands the kernel the path WITHOUT its last separator (4095 bytes: accepted), and when
that `mkdir` creates the directory it returns Ok without the final `stat` of the whole path — which the kernel (and
std::fs::create_dir_all) refuses with ENAMETOOLONG.  The directory named lexically does exist (first conjunct of
`create_dir_all_post`).  Witness: `a` followed by 4095 separators. -/
def pathMaxTrailing : Bytes := 97 :: List.replicate 4095 SLASH

def statErrAfter (r : FS × Out Unit) (p : Bytes) : Option E :=
  match r with
  | (st, .ok ()) => (match stat st p with | .error e => some e | .ok _ => none)
  | (_, .error _) => none

theorem create_dir_all_path_max_trailing :
    pathMaxTrailing.length = PATH_MAX ∧ errOf (createDirAll demo pathMaxTrailing) = none ∧
    viewAfter (createDirAll demo pathMaxTrailing) [[97]] = some (some .dir) ∧
    statErrAfter (createDirAll demo pathMaxTrailing) pathMaxTrailing = some (.os ENAMETOOLONG) := by decide +kernel

/-- one byte shorter, the same shape resolves -/
theorem create_dir_all_below_path_max_trailing :
    errOf (createDirAll demo (97 :: List.replicate 4094 SLASH)) = none ∧
    statErrAfter (createDirAll demo (97 :: List.replicate 4094 SLASH)) (97 :: List.replicate 4094 SLASH) = none := by
  decide +kernel

/-- `create_dir_all("/")` makes no system call and returns Ok: in a model state whose root is not a directory the
conclusion fails, hence `hroot` (a real root always is a directory) -/
theorem create_dir_all_root_needed :
    errOf (createDirAll ⟨.file [], []⟩ [SLASH]) = none ∧ view (createDirAll ⟨.file [], []⟩ [SLASH]).1.root [] = some (.file []) := by
  decide

/-! ## every kind of node (sockets, character and block devices next to files, directories, symlinks, fifos) -/

/-- `Metadata::is_dir / is_file / is_symlink` (masked comparison of `st_mode`) recognise exactly their own file type,
for EVERY kind of node -/
theorem metadata_predicates_exact (k : Kind) :
    (metaIsDir k.stMode = true ↔ k = .dir) ∧ (metaIsFile k.stMode = true ↔ ∃ b, k = .file b) ∧
    (metaIsSymlink k.stMode = true ↔ ∃ t, k = .symlink t) :=
  ⟨metaIsDir_stMode k, metaIsFile_stMode k, metaIsSymlink_stMode k⟩

/-- why the comparison must be masked-and-equal: the file-type field is an enumeration; an any-bit test against
S_IFDIR (`mode.contains(S_IFDIR)`) also fires for sockets (0o140000) and block devices (0o060000) -/
theorem is_dir_any_bit_test_wrong :
    (Kind.special .sock).stMode &&& S_IFDIR ≠ 0 ∧ (Kind.special .blk).stMode &&& S_IFDIR ≠ 0 ∧
    metaIsDir (Kind.special .sock).stMode = false ∧ metaIsDir (Kind.special .blk).stMode = false := by decide

/-- **metadata_post**: what `fs::metadata(p)` reports through `is_dir`/`is_file`/`is_symlink`/`len` is exactly the
kind of the node the path resolves to (symlinks are followed, so `is_symlink` is false), for every kind of node -/
theorem metadata_post (st : FS) (p : Bytes) (d f l : Bool) (len : Option Nat) (hp : p ≠ [])
    (h : fsMetadata st p = .ok (d, f, l, len)) :
    ∃ loc tr n, parsePath st p = .ok (loc, tr) ∧ getAt st.root loc = some n ∧
      (d = true ↔ ∃ es, n = .dir es) ∧ (f = true ↔ ∃ b, n = .file b) ∧ l = false ∧
      (∀ b, n = .file b → len = some b.length) := by
  unfold fsMetadata statE at h
  simp only [hp, if_false] at h
  cases hs : stat st p with
  | error e => rw [hs] at h; simp at h
  | ok k =>
    rw [hs] at h
    simp only [Except.ok.injEq, Prod.mk.injEq] at h
    obtain ⟨hd, hf, hl, hlen⟩ := h
    obtain ⟨loc, tr, n, hpp, hg, hk, hns⟩ := stat_ok st p k hs
    refine ⟨loc, tr, n, hpp, hg, ?_, ?_, ?_, ?_⟩
    · rw [← hd, metaIsDir_stMode, ← hk]; cases n <;> simp [Node.kind]
    · rw [← hf, metaIsFile_stMode, ← hk]; cases n <;> simp [Node.kind]
    · rw [← hl]
      cases hsl : metaIsSymlink k.stMode with
      | false => rfl
      | true =>
        obtain ⟨t, ht⟩ := (metaIsSymlink_stMode k).mp hsl
        rw [← hk] at ht
        cases n <;> simp [Node.kind] at ht
        exact absurd rfl (hns _)
    · intro b hb
      subst hb
      simp [Node.kind] at hk
      subst hk
      exact hlen.symm

/-- `fs::exists(p)` answers true only when the path resolves to a node -/
theorem exists_post (st : FS) (p : Bytes) (hp : p ≠ []) (h : fsExists st p = .ok true) :
    ∃ loc tr n, parsePath st p = .ok (loc, tr) ∧ getAt st.root loc = some n := by
  unfold fsExists statE at h
  simp only [hp, if_false] at h
  cases hs : stat st p with
  | ok k =>
    obtain ⟨loc, tr, n, hpp, hg, _, _⟩ := stat_ok st p k hs
    exact ⟨loc, tr, n, hpp, hg⟩
  | error e =>
    rw [hs] at h
    simp only at h
    split at h <;> simp at h

/-- FINDING (known_findings.d/C14.jsonl): `rusl::unistd::stat` always passes AT_EMPTY_PATH, so for the EMPTY path
`fs::metadata("")` is Ok and describes the working directory and `fs::exists("")` is `Ok(true)` — std::fs answers
ENOENT / false, and the doc comment of `exists` promises a false negative.  Hence `p ≠ []` in the two theorems above. -/
theorem metadata_empty_path_is_cwd :
    (match fsMetadata demo [] with | .ok r => some r | .error _ => none) = some (true, false, false, none) ∧
    (match fsExists demo [] with | .ok b => some b | .error _ => none) = some true ∧
    (match stat demo [] with | .ok _ => none | .error e => some e) = some (.os ENOENT) := by decide

def demoKinds : FS :=
  ⟨.dir [([115, 107], .special .sock), ([99], .special .chr), ([98], .special .blk), ([112], .fifo), ([102], .file [1]),
         ([100], .dir [([115], .special .sock), ([98], .special .blk), ([120], .dir [([99], .special .chr)])])], []⟩

/-- a socket, a block device, a character device, a fifo already at the path (with or without a trailing separator,
or as an intermediate component): `create_dir_all` reports it — `create_dir_all_post` (Ok ⇒ every prefix is a
DIRECTORY node) holds for trees with every kind of node, and these are the inputs on which an `is_dir` that is not a
masked comparison returns Ok -/
theorem create_dir_all_special_in_the_way :
    errOf (createDirAll demoKinds [115, 107]) = some (.os EEXIST) ∧ errOf (createDirAll demoKinds [98]) = some (.os EEXIST) ∧
    errOf (createDirAll demoKinds [99]) = some (.os EEXIST) ∧ errOf (createDirAll demoKinds [112]) = some (.os EEXIST) ∧
    errOf (createDirAll demoKinds [115, 107, 47]) = some (.os ENOTDIR) ∧
    errOf (createDirAll demoKinds [98, 47, 120]) = some (.os ENOTDIR) ∧
    errOf (createDirAll demoKinds [100, 47, 115]) = some (.os EEXIST) := by decide

/-- `remove_dir_all` over a tree holding sockets and device nodes: they are unlinked (never opened or descended into) -/
theorem remove_dir_all_with_specials :
    errOf (removeDirAll demoKinds [100]) = none ∧ viewAfter (removeDirAll demoKinds [100]) [[100]] = some none ∧
    viewAfter (removeDirAll demoKinds [100]) [[115, 107]] = some (some (.special .sock)) := by decide +kernel

/-! ## the file system under the tree: what `getdents64` reports as `d_type` (exact type, or DT_UNKNOWN) -/

/-- `d_type` of an entry on a file system that fills it in names the node's kind: never Unknown, Directory exactly for
directories, Symlink exactly for symlinks -/
theorem file_type_exact (n : Node) :
    fileType n.dtype ≠ .unknown ∧ (fileType n.dtype = .dir ↔ ∃ es, n = .dir es) ∧
    (fileType n.dtype = .lnk ↔ ∃ t, n = .symlink t) := by
  cases n with
  | special s => cases s <;> simp [Node.dtype] <;> decide
  | dir es => simp [Node.dtype]; decide
  | file b => simp [Node.dtype]; decide
  | symlink t => simp [Node.dtype]; decide
  | fifo => simp [Node.dtype]; decide

/-- **readdir_type_sound**: on BOTH kinds of file system the directory stream carries every entry with its exact NAME,
and a type that is the exact one or Unknown — never a wrong definite type.  Together with `readdir_exactly_once` (the
iterator yields the stream's records exactly once, in order, name and `d_type` untouched) and `fileType` (`file_type()`
maps DT_UNKNOWN to `FileType::Unknown` and consults nothing else) this is the statement for the iteration. -/
theorem readdir_type_sound (exact : Bool) (es : List (Name × Node)) :
    (dirRecsOn exact es).length = (dirRecs es).length ∧
    ∀ p ∈ (dirRecsOn exact es).zip (dirRecs es),
      p.1.name = p.2.name ∧ (fileType p.1.dtype = fileType p.2.dtype ∨ fileType p.1.dtype = .unknown) := by
  cases exact with
  | true =>
    refine ⟨by simp [dirRecsOn], ?_⟩
    intro p hp
    have := zip_map_left (fun r : Rec => r) (dirRecs es) p (by simpa [dirRecsOn] using hp)
    rw [this]; exact ⟨rfl, Or.inl rfl⟩
  | false =>
    refine ⟨by simp [dirRecsOn], ?_⟩
    intro p hp
    have := zip_map_left (fun r : Rec => { r with dtype := DT_UNKNOWN }) (dirRecs es) p (by simpa [dirRecsOn] using hp)
    rw [this]; exact ⟨rfl, Or.inr fileType_unknown⟩

/-- **remove_dir_all on a DT_UNKNOWN mount** (current code): it never succeeds — every entry is `FileType::Unknown`,
so `.`, the first entry, is handed to the plain `unlinkat`, which answers EISDIR — and the directory is left exactly as
it was.  The property speaks of a remove_dir_all that SUCCEEDS (`remove_dir_all_post`, proved for both kinds of mount);
failing is allowed, damaging is not: nothing was touched, inside or outside. -/
theorem remove_all_unknown_mount_fails (fuel : Nat) (es : List (Name × Node))
    (hn : ∀ e ∈ es, e.1.length ≤ 255 ∧ ∀ b ∈ e.1, b ≠ 0) :
    removeAllN false (fuel + 1) (.dir es) = (.dir es, .error (.os EISDIR)) :=
  removeAllN_unknown_fails fuel es hn

def demoLinks : FS :=
  ⟨.dir [([107], .dir [([112], .file [1])]),                                      -- k/p   (outside the tree)
         ([116], .dir [([108], .symlink [46, 46, 47, 107]), ([102], .file [2])])], []⟩   -- t/l -> ../k, t/f

/-- the same tree on the two kinds of mount: removed on one, EISDIR and untouched on the other; `k/p` untouched on both -/
theorem remove_dir_all_two_mounts :
    errOf (removeDirAllOn true demoLinks [116]) = none ∧ viewAfter (removeDirAllOn true demoLinks [116]) [[116]] = some none ∧
    viewAfter (removeDirAllOn true demoLinks [116]) [[107], [112]] = some (some (.file [1])) ∧
    errOf (removeDirAllOn false demoLinks [116]) = some (.os EISDIR) ∧
    view (removeDirAllOn false demoLinks [116]).1.root [[116], [108]] = some (.symlink [46, 46, 47, 107]) ∧
    view (removeDirAllOn false demoLinks [116]).1.root [[107], [112]] = some (.file [1]) := by decide +kernel

/-- a `file_type()` that answers DT_UNKNOWN with a stat that FOLLOWS symlinks (`statat(dir_fd, name)`; rusl has no
lstat): `follow name` = the node the name resolves to through links -/
def fileTypeStatFollow (follow : Name → Option Node) (t : Nat) (name : Name) : FType :=
  if t = DT_UNKNOWN then (match follow name with | some n => fileType n.dtype | none => .unknown) else fileType t

/-- WITNESS: such a fallback violates type soundness and link safety.  For `t/l -> ../k` on a DT_UNKNOWN mount it
reports Directory — a definite type that is wrong (the entry is a Symlink), and exactly the value on which
`Directory::remove_all` opens the name (following the link) and recurses: into `k`, outside the tree. -/
theorem stat_follow_fallback_unsound :
    let follow : Name → Option Node := fun n => if n = [108] then getAt demoLinks.root [[107]] else none
    fileTypeStatFollow follow DT_UNKNOWN [108] = .dir ∧
    fileType (Node.symlink [46, 46, 47, 107]).dtype = .lnk ∧ fileType DT_UNKNOWN = .unknown ∧
    ¬ (fileTypeStatFollow follow DT_UNKNOWN [108] = fileType (Node.symlink [46, 46, 47, 107]).dtype ∨
       fileTypeStatFollow follow DT_UNKNOWN [108] = .unknown) := by decide

/-! ## non-vacuity -/

example : errOf (createDirAll demo [101, 47, 47, 110, 47, 109]) = none ∧ ([101, 47, 47, 110, 47, 109] : Bytes).getLast? ≠ some SLASH := by decide
example : okList (fsMetadata demoKinds [115, 107] |>.map fun _ => []) = some [] ∧ errOf (createDirAll demoKinds [100, 47, 110, 47]) = none := by decide
example : (match fsExists demoKinds [98] with | .ok b => some b | .error _ => none) = some true := by decide
-- create_dir_all_post: `e//n/m//` (existing prefix, repeated and trailing separators), `/x/` absolute, and `//`
example : (∃ es, demo.root = .dir es) ∧ errOf (createDirAll demo [101, 47, 47, 110, 47, 109, 47, 47]) = none ∧
    viewAfter (createDirAll demo [101, 47, 47, 110, 47, 109, 47, 47]) [[101], [110], [109]] = some (some .dir) :=
  ⟨⟨_, rfl⟩, by decide, by decide⟩
example : errOf (createDirAll demo [47, 120, 47]) = none ∧ errOf (createDirAll demo [47, 47]) = none ∧
    errOf (createDirAll demo [47]) = none := by decide
-- a regular file with a trailing separator is reported (ENOTDIR from the final stat), not taken for a directory
example : errOf (createDirAll demo [100, 47]) = some (.os ENOTDIR) := by decide
-- readdir_exactly_once: every one of the three splits is a legal partition of the ten records (names up to 255 bytes)
example : ∀ chunks ∈ demoSplits, chunks.flatten = demoStream ∧ ∀ c ∈ chunks, ChunkOk c := by decide +kernel
example : ∀ r ∈ demoStream, RecOk r := by decide +kernel
-- readdir_error_answer: EINTR after the first two chunks of the second split
example : ((demoSplits.getD 1 []).take 2).flatten = demoStream.take 5 ∧ ∀ c ∈ (demoSplits.getD 1 []).take 2, ChunkOk c := by
  decide +kernel
example : errOf (removeDirAll ⟨.dir [([118], .dir [([108], .symlink [46, 46, 47, 116]), ([100], .dir [([102], .file [1])])]), ([116], .file [7])], []⟩ [118, 47]) = none := by decide +kernel

example : errOf (fsWrite demo [101, 47, 47, 102] [1, 2, 3] [2]) = none := by decide
example : errOf (copyFile demo [115] [100] [1, 1]) = none := by decide

end TinyVerif.Fs.C14
