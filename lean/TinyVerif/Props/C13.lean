/-
C13 — spawn returns only in the caller; the child runs exactly what was configured, or the caller gets Err.

Model: Model/Spawn.lean.  `fixed = true` is the code as it is now (after the `fix:` commits of this property),
`fixed = false` the code before: witnesses `child_dup2_fail_returns_twice`, `old_env_dropped_without_start`.
-/
import TinyVerif.Model.Spawn
import TinyVerif.Model.SpawnEnv
import TinyVerif.Model.SpawnIds
namespace TinyVerif.Spawn

/-! ## (i) builder -/

/-- the vectors handed to execve are the strings' pointers followed by NULL -/
def WF (c : Cmd) : Prop :=
  c.argv = c.args.map ptr ++ [0] ∧
  match c.env with
  | .provided vars envp => envp = vars.map ptr ++ [0]
  | _ => True

/-- variables held by the environment (none for Inherit / None) -/
def envVars : Env → List Nat
  | .provided v _ => v
  | _ => []

def isProvided : Env → Prop
  | .provided _ _ => True
  | _ => False

/-- states a build can be in: `Environment::Inherit` exists only with the `start` feature -/
def Reach (start : Bool) (c : Cmd) : Prop := start = true ∨ c.env ≠ .inherit

/-- `c'` is `c` after builder calls asking for `as` more arguments and `es` more variables -/
def Ext (c c' : Cmd) (as es : List Nat) : Prop :=
  c'.args = c.args ++ as ∧ envVars c'.env = envVars c.env ++ es ∧
    ((es ≠ [] ∧ isProvided c'.env) ∨ (es = [] ∧ c'.env = c.env))

theorem setAt_last (xs : List Ptr) (y v : Ptr) : setAt (xs ++ [y]) xs.length v = some (xs ++ [v]) := by
  induction xs with
  | nil => rfl
  | cons h t ih => simp [setAt, ih]

theorem arg_step (start : Bool) (c : Cmd) (a : Nat) (h : WF c) (hr : Reach start c) :
    ∃ c', arg c a = some c' ∧ WF c' ∧ Reach start c' ∧ Ext c c' [a] [] := by
  obtain ⟨h1, h2⟩ := h
  have := setAt_last (c.args.map ptr) 0 (ptr a)
  rw [List.length_map] at this
  refine ⟨{ c with args := c.args ++ [a], argv := (c.args.map ptr ++ [ptr a]) ++ [0] }, ?_, ?_, hr, ?_⟩
  · simp [arg, h1, this]
  · exact ⟨by simp, h2⟩
  · exact ⟨rfl, by simp, Or.inr ⟨rfl, rfl⟩⟩

theorem env_step (start : Bool) (c : Cmd) (e : Nat) (h : WF c) (hr : Reach start c) :
    ∃ c', env true start c e = some c' ∧ WF c' ∧ Reach start c' ∧ Ext c c' [] [e] := by
  obtain ⟨h1, h2⟩ := h
  cases hc : c.env with
  | inherit =>
    have hs : start = true := by
      cases hr with
      | inl h => exact h
      | inr h => exact absurd hc h
    subst hs
    refine ⟨{ c with env := .provided [e] [ptr e, 0] }, ?_, ⟨h1, rfl⟩, Or.inl rfl, ?_⟩
    · simp [env, envSwitch, hc, setAt]
    · exact ⟨by simp, by simp [envVars, hc], Or.inl ⟨by simp, trivial⟩⟩
  | none =>
    refine ⟨{ c with env := .provided [e] [ptr e, 0] }, ?_, ⟨h1, rfl⟩, ?_, ?_⟩
    · simp [env, envSwitch, hc, setAt]
    · cases hr with
      | inl h => exact Or.inl h
      | inr _ => exact Or.inr (by simp)
    · exact ⟨by simp, by simp [envVars, hc], Or.inl ⟨by simp, trivial⟩⟩
  | provided v p =>
    rw [hc] at h2
    simp only at h2
    have := setAt_last (v.map ptr) 0 (ptr e)
    rw [List.length_map] at this
    refine ⟨{ c with env := .provided (v ++ [e]) ((v.map ptr ++ [ptr e]) ++ [0]) }, ?_, ⟨h1, by simp⟩, ?_, ?_⟩
    · simp [env, envSwitch, hc, h2, this]
    · cases hr with
      | inl h => exact Or.inl h
      | inr _ => exact Or.inr (by simp)
    · exact ⟨by simp, by simp [envVars, hc], Or.inl ⟨by simp, trivial⟩⟩

theorem Ext.trans {a b c : Cmd} {as1 es1 as2 es2 : List Nat} (h1 : Ext a b as1 es1) (h2 : Ext b c as2 es2) :
    Ext a c (as1 ++ as2) (es1 ++ es2) := by
  obtain ⟨a1, e1, p1⟩ := h1
  obtain ⟨a2, e2, p2⟩ := h2
  refine ⟨by rw [a2, a1, List.append_assoc], by rw [e2, e1, List.append_assoc], ?_⟩
  cases p2 with
  | inl h => exact Or.inl ⟨by simp [h.1], h.2⟩
  | inr h =>
    cases p1 with
    | inl g => rw [h.2]; exact Or.inl ⟨by simp [g.1], g.2⟩
    | inr g => exact Or.inr ⟨by simp [h.1, g.1], by rw [h.2, g.2]⟩

theorem Ext.refl (c : Cmd) : Ext c c [] [] := ⟨by simp, by simp, Or.inr ⟨rfl, rfl⟩⟩

theorem argsL_step (start : Bool) : ∀ (l : List Nat) (c : Cmd), WF c → Reach start c →
    ∃ c', argsL c l = some c' ∧ WF c' ∧ Reach start c' ∧ Ext c c' l [] := by
  intro l
  induction l with
  | nil => intro c h hr; exact ⟨c, rfl, h, hr, Ext.refl c⟩
  | cons a r ih =>
    intro c h hr
    obtain ⟨c1, e1, w1, r1, x1⟩ := arg_step start c a h hr
    obtain ⟨c2, e2, w2, r2, x2⟩ := ih c1 w1 r1
    exact ⟨c2, by simp [argsL, e1, e2], w2, r2, by simpa using x1.trans x2⟩

theorem envsL_step (start : Bool) : ∀ (l : List Nat) (c : Cmd), WF c → Reach start c →
    ∃ c', envsL true start c l = some c' ∧ WF c' ∧ Reach start c' ∧ Ext c c' [] l := by
  intro l
  induction l with
  | nil => intro c h hr; exact ⟨c, rfl, h, hr, Ext.refl c⟩
  | cons a r ih =>
    intro c h hr
    obtain ⟨c1, e1, w1, r1, x1⟩ := env_step start c a h hr
    obtain ⟨c2, e2, w2, r2, x2⟩ := ih c1 w1 r1
    exact ⟨c2, by simp [envsL, e1, e2], w2, r2, by simpa using x1.trans x2⟩

theorem applyAll_inv (start : Bool) : ∀ (ops : List Op) (c : Cmd), WF c → Reach start c →
    ∃ c', applyAll true start c ops = some c' ∧ WF c' ∧ Reach start c' ∧ Ext c c' (wantedArgs ops) (wantedEnv ops) := by
  intro ops
  induction ops with
  | nil => intro c h hr; exact ⟨c, rfl, h, hr, Ext.refl c⟩
  | cons o r ih =>
    intro c h hr
    cases o with
    | arg a =>
      obtain ⟨c1, e1, w1, r1, x1⟩ := arg_step start c a h hr
      obtain ⟨c2, e2, w2, r2, x2⟩ := ih c1 w1 r1
      exact ⟨c2, by simp [applyAll, apply, e1, e2], w2, r2, by simpa [wantedArgs, wantedEnv] using x1.trans x2⟩
    | args l =>
      obtain ⟨c1, e1, w1, r1, x1⟩ := argsL_step start l c h hr
      obtain ⟨c2, e2, w2, r2, x2⟩ := ih c1 w1 r1
      exact ⟨c2, by simp [applyAll, apply, e1, e2], w2, r2, by simpa [wantedArgs, wantedEnv] using x1.trans x2⟩
    | env e =>
      obtain ⟨c1, e1, w1, r1, x1⟩ := env_step start c e h hr
      obtain ⟨c2, e2, w2, r2, x2⟩ := ih c1 w1 r1
      exact ⟨c2, by simp [applyAll, apply, e1, e2], w2, r2, by simpa [wantedArgs, wantedEnv] using x1.trans x2⟩
    | envs l =>
      obtain ⟨c1, e1, w1, r1, x1⟩ := envsL_step start l c h hr
      obtain ⟨c2, e2, w2, r2, x2⟩ := ih c1 w1 r1
      exact ⟨c2, by simp [applyAll, apply, e1, e2], w2, r2, by simpa [wantedArgs, wantedEnv] using x1.trans x2⟩

/-- After ANY sequence of builder calls on `Command::new(bin)` (either build): no indexing panic; `argv` is
    exactly the pointers of `bin` and of every requested argument, in order, then NULL; and if any variable was
    requested the environment is Provided with exactly the requested variables, in order, `envp` being their
    pointers then NULL; otherwise it is still the default (Inherit with `start`, None without). -/
theorem argv_envp_wellformed (start : Bool) (bin : Nat) (ops : List Op) :
    ∃ c, applyAll true start (new start bin) ops = some c ∧
      c.argv = (bin :: wantedArgs ops).map ptr ++ [0] ∧
      (wantedEnv ops ≠ [] → c.env = .provided (wantedEnv ops) ((wantedEnv ops).map ptr ++ [0])) ∧
      (wantedEnv ops = [] → c.env = (new start bin).env) := by
  have w0 : WF (new start bin) := ⟨rfl, by cases start <;> simp [new]⟩
  have r0 : Reach start (new start bin) := by cases start <;> simp [Reach, new]
  obtain ⟨c, e, w, _, x⟩ := applyAll_inv start ops _ w0 r0
  refine ⟨c, e, ?_, ?_, ?_⟩
  · rw [w.1, x.1]; simp [new]
  · intro hne
    obtain ⟨_, xe, xp⟩ := x
    have ev0 : envVars (new start bin).env = [] := by cases start <;> simp [new, envVars]
    rw [ev0, List.nil_append] at xe
    cases xp with
    | inl hp =>
      cases hc : c.env with
      | provided v p =>
        have := w.2
        rw [hc] at this xe
        simp only at this
        simp only [envVars] at xe
        rw [this, xe]
      | inherit => rw [hc] at hp; exact absurd hp.2 (by simp [isProvided])
      | none => rw [hc] at hp; exact absurd hp.2 (by simp [isProvided])
    | inr h => exact absurd h.1 hne
  · intro he
    cases x.2.2 with
    | inr h => exact h.2
    | inl h => exact absurd he h.1

/-- before the repair, without the `start` feature, `env()` dropped the variable: the default environment is
    None, the mode switch only fired for an environment that was NOT None -/
theorem old_env_dropped_without_start :
    (applyAll false false (new false 7) [.env 1, .env 2]).map (·.env) = some .none := by decide

/-! ## (ii) protocol -/

theorem childRun_fixed_not_returned (steps : List CStep) (cf : CFault) (e : Option Nat) :
    childRun true steps cf ≠ .returned e := by
  unfold childRun
  cases cf with
  | none => simp
  | some p =>
    obtain ⟨k, x⟩ := p
    simp only
    split
    · simp
    · simp only [Bool.or_true, if_true]
      cases x <;> simp

/-- For every configuration, every caller-side and every child-side fault: exactly one process comes back out
    of `spawn`, and it is the caller. -/
theorem spawn_single_return (c : Config) (pf : PFault) (cf : CFault) :
    returners (spawn true c pf cf) = [.caller] := by
  unfold spawn returners
  cases hb : pf.before with
  | some e => simp
  | none =>
    simp only
    cases hce : childRun true (childSteps c) cf with
    | returned e => exact absurd hce (childRun_fixed_not_returned _ _ _)
    | execd => rfl
    | reported e => rfl

/-- The code before the repair: dup2 of stdin fails with EBADF in the child ⇒ two processes return from spawn,
    and the caller is even told Ok (it sees EOF on the pipe when the stray copy finally exits). -/
theorem child_dup2_fail_returns_twice :
    let r := spawn false ⟨[0, 1, 2], false, false, false, false, 0⟩ PFault.none (some (0, some 9))
    returners r = [.caller, .child] ∧ r.parent = .ok := by decide

/-- ... and so did every other set-up step before execve: chdir, setuid, setgid, setpgid, a closure -/
theorem old_every_setup_step_returns_in_child (c : Config) (k : Nat) (e : Option Nat)
    (hk : k + 1 < (childSteps c).length) :
    returners (spawn false c PFault.none (some (k, e))) = [.caller, .child] := by
  have h1 : ¬ k ≥ (childSteps c).length := by omega
  have h2 : ¬ k + 1 = (childSteps c).length := by omega
  simp [spawn, returners, PFault.none, childRun, h1, h2]

/-- Ok means exec: the caller gets Ok exactly when no caller-side call failed and the child went through every
    configured step and execve succeeded — whatever fails in the child, with or without an errno. -/
theorem spawn_ok_means_exec (c : Config) (pf : PFault) (cf : CFault) :
    (spawn true c pf cf).parent = .ok ↔
      (pf.before = none ∧ pf.readErr = none ∧ (spawn true c pf cf).child = some .execd) := by
  unfold spawn
  cases hb : pf.before with
  | some e => simp [parentRun, hb]
  | none =>
    simp only
    cases hr : pf.readErr with
    | some e => cases hw : pf.waitErr <;> simp [parentRun, hb, hr, hw]
    | none =>
      cases hce : childRun true (childSteps c) cf with
      | execd => simp [parentRun, hb, hr, pipeOf]
      | reported e =>
        cases hw : pf.waitErr with
        | some w => simp [parentRun, hb, hr, hw, pipeOf]
        | none =>
          by_cases he : e = 0
          · simp [parentRun, hb, hr, hw, pipeOf, he]
          · simp [parentRun, hb, hr, hw, pipeOf, he]
      | returned e => exact absurd hce (childRun_fixed_not_returned _ _ _)

/-- Err carries the failing step's errno: whichever child-side step `k` (dup2, chdir, setuid, setgid, setpgid,
    closure, execve) fails with errno `e`, the caller gets `Err(e)`, has reaped the child, and the child exited
    after reporting — nobody is left running the caller's code. -/
theorem spawn_err_code (c : Config) (k e : Nat) (hk : k < (childSteps c).length) (he : 0 < e) :
    spawn true c PFault.none (some (k, some e)) = ⟨.err (some e) true, some (.reported e)⟩ := by
  have h1 : ¬ k ≥ (childSteps c).length := by omega
  have h2 : e ≠ 0 := by omega
  simp [spawn, PFault.none, childRun, h1, parentRun, pipeOf, h2]

/-- a step failing WITHOUT an errno (only a pre-exec closure can): the child reports code 0, the caller returns an
    error without a code and has reaped the child -/
theorem spawn_err_nocode (c : Config) (k : Nat) (hk : k < (childSteps c).length) :
    spawn true c PFault.none (some (k, none)) = ⟨.err none true, some (.reported 0)⟩ := by
  have h1 : ¬ k ≥ (childSteps c).length := by omega
  simp [spawn, PFault.none, childRun, h1, parentRun, pipeOf]

/-- a caller-side failure before the fork (stdio set-up, pipe2, fork) is returned with its errno; no child exists -/
theorem spawn_err_before_fork (c : Config) (pf : PFault) (cf : CFault) (e : Nat) (h : pf.before = some e) :
    spawn true c pf cf = ⟨.noChild (some e), none⟩ := by
  simp [spawn, h, parentRun]

/-- EINTR on the pipe read is invisible in the result -/
theorem spawn_eintr_transparent (c : Config) (pf : PFault) (cf : CFault) (n : Nat) :
    spawn true c { pf with eintr := n } cf = spawn true c pf cf := rfl

/-- repaired (was: the child exited silently and the caller reported Ok): a closure failing with an error that has
    no errno is an error for the caller -/
theorem closure_without_errno_is_error :
    spawn true ⟨[], false, false, false, false, 1⟩ PFault.none (some (0, none)) = ⟨.err none true, some (.reported 0)⟩ := by decide

/-- wait reports the reaped status once and caches it: after a successful wait, every later wait / try_wait
    returns the same status without another wait4 -/
theorem wait_status (p : Proc) (k k' : WaitAns) (s : Int) (h : (wait p k).2.1 = .ok s) :
    wait (wait p k).1 k' = ((wait p k).1, .ok s, 0) ∧ tryWait (wait p k).1 k' = ((wait p k).1, .ok (some s), 0) := by
  unfold wait at h ⊢
  cases hp : p.status with
  | some t =>
    simp only [hp] at h ⊢
    cases h
    simp [tryWait, hp]
  | none =>
    simp only [hp] at h ⊢
    cases k with
    | exited t => simp at h; subst h; simp [tryWait]
    | err e => simp at h
    | running => simp at h

/-- the first wait of a fresh handle performs exactly one wait4 and returns the kernel's status -/
theorem wait_first (pid : Nat) (s : Int) : wait ⟨pid, none⟩ (.exited s) = (⟨pid, some s⟩, .ok s, 1) := rfl

/-! ## (iii) the Command as a reusable builder -/

/-- `spawn(&mut self)` leaves the Command exactly as it found it — whatever the outcome (Ok, a caller-side
    failure before or after the fork, any child-side failure): streams, cwd, uid, gid, pgroup, closures, argv and
    environment are all still there for the next spawn. -/
theorem spawn_preserves_config (fixed : Bool) (b : Builder) (pf : PFault) (cf : CFault) :
    (spawnB fixed b pf cf).1 = b := rfl

/-- no RawFd stream.  The model has no descriptor table: a `Stdio::RawFd` is closed in the caller by the first
    spawn that gets past `setup_io` (known finding C12 `spawn_rawfd_late`), so a later spawn of the same Command
    refers to a descriptor that is gone; that class is excluded from the respawn theorems. -/
def NoRaw (b : Builder) : Prop := Stdio.rawFd ∉ stdioOf b

instance (b : Builder) : Decidable (NoRaw b) := by unfold NoRaw; exact inferInstance

theorem closuresRunUpTo_all : ∀ (l : List CStep) (k : Nat), l.length ≤ k → closuresRunUpTo l k = (l.map isClosure).sum := by
  intro l
  induction l with
  | nil => intro k _; rfl
  | cons s r ih =>
    intro k hk
    cases k with
    | zero => simp at hk
    | succ k =>
      simp only [closuresRunUpTo, List.map_cons, List.sum_cons]
      rw [ih k (by simpa using hk)]

theorem closureSteps_length : ∀ (n i : Nat), (closureSteps i n).length = n := by
  intro n
  induction n with
  | zero => intro i; rfl
  | succ n ih => intro i; simp [closureSteps, ih]

theorem closureSteps_sum : ∀ (n i : Nat), ((closureSteps i n).map isClosure).sum = n := by
  intro n
  induction n with
  | zero => intro i; rfl
  | succ n ih => intro i; simp [closureSteps, isClosure, ih]; omega

theorem dup2_sum (l : List Nat) : ((l.map CStep.dup2).map isClosure).sum = 0 := by
  induction l with
  | nil => rfl
  | cons a r ih => simpa [isClosure] using ih

/-- a child that meets no failure calls every registered closure, once -/
theorem closuresRun_clean (c : Config) : closuresRun (childSteps c) none = c.closures := by
  unfold closuresRun
  rw [closuresRunUpTo_all _ _ (Nat.le_refl _)]
  unfold childSteps
  simp only [List.map_append, List.sum_append, closureSteps_sum, dup2_sum]
  cases c.cwd <;> cases c.uid <;> cases c.gid <;> cases c.pgroup <;> simp [isClosure]

/-- one spawn that meets no failure: Ok, the child is the configured image with the configured streams, the
    caller is handed exactly the MakePipe ends, every closure ran -/
theorem spawnB_clean (b : Builder) :
    (spawnB true b PFault.none none).2 =
      ⟨⟨.ok, some .execd⟩, some (imageOf b), some (pipesOf b), b.closures⟩ := by
  have h : spawn true (configOf b) PFault.none none = ⟨.ok, some .execd⟩ := rfl
  simp only [spawnB, h]
  simp [closuresRun_clean, configOf]

/-- every round of interleaved builder calls and spawns on one Command is the spawn of the builder state the
    CALLS alone produce, under that round's own faults: no earlier spawn — successful or failed — has any
    influence on it -/
theorem respawn_round_depends_only_on_calls_and_own_faults (fixed start : Bool) :
    ∀ (stages : List Stage) (b : Builder), runStages fixed start b stages =
      (buildersOf fixed start b (stages.map (·.ops))).map fun bs =>
        List.zipWith (fun b s => (spawnB fixed b s.pf s.cf).2) bs stages := by
  intro stages
  induction stages with
  | nil => intro b; rfl
  | cons s r ih =>
    intro b
    simp only [runStages, buildersOf, List.map_cons]
    cases h : applyAllB fixed start b s.ops with
    | none => rfl
    | some b1 =>
      simp only [Option.bind_some, spawn_preserves_config, ih b1]
      cases buildersOf fixed start b1 (r.map (·.ops)) with
      | none => rfl
      | some bs => simp

/-- any number of spawns from one configuration, each under its own faults: every round behaves as a first
    spawn of that configuration would -/
theorem respawn_rounds (start : Bool) (b : Builder) (fs : List (PFault × CFault)) :
    runStages true start b (fs.map fun f => ⟨[], f.1, f.2⟩) = some (fs.map fun f => (spawnB true b f.1 f.2).2) := by
  induction fs with
  | nil => rfl
  | cons f r ih => simp [runStages, applyAllB, spawn_preserves_config, ih]

/-- n spawns from one configuration give n children with the same image and the same streams, and the caller
    is handed the same pipe ends each time -/
theorem respawn_same_child (start : Bool) (b : Builder) (_h : NoRaw b) (n : Nat) :
    runStages true start b (List.replicate n ⟨[], PFault.none, none⟩) =
      some (List.replicate n ⟨⟨.ok, some .execd⟩, some (imageOf b), some (pipesOf b), b.closures⟩) := by
  have := respawn_rounds start b (List.replicate n (PFault.none, none))
  simpa [spawnB_clean] using this

/-- a spawn that failed (anywhere, on either side of the fork) followed by one that meets no failure: the second
    is Ok and its child is the configured one -/
theorem respawn_after_failed_spawn (start : Bool) (b : Builder) (_h : NoRaw b) (pf : PFault) (cf : CFault) :
    runStages true start b [⟨[], pf, cf⟩, ⟨[], PFault.none, none⟩] =
      some [(spawnB true b pf cf).2, ⟨⟨.ok, some .execd⟩, some (imageOf b), some (pipesOf b), b.closures⟩] := by
  have := respawn_rounds start b [(pf, cf), (PFault.none, none)]
  simpa [spawnB_clean] using this

/-- builder calls between spawns: the arg/args/env/envs calls act on bin/args/argv/env exactly as `applyAll` -/
def cmdOps : List BOp → List Op
  | [] => []
  | .cmd o :: r => o :: cmdOps r
  | _ :: r => cmdOps r

theorem applyAllB_cmd (fixed start : Bool) : ∀ (ops : List BOp) (b : Builder),
    (applyAllB fixed start b ops).map (·.cmd) = applyAll fixed start b.cmd (cmdOps ops) := by
  intro ops
  induction ops with
  | nil => intro b; rfl
  | cons o r ih =>
    intro b
    cases o with
    | cmd o =>
      simp only [applyAllB, applyB, cmdOps, applyAll]
      cases apply fixed start b.cmd o with
      | none => rfl
      | some c => simpa using ih { b with cmd := c }
    | stdin s => simpa [applyAllB, applyB, cmdOps] using ih { b with stdin := some s }
    | stdout s => simpa [applyAllB, applyB, cmdOps] using ih { b with stdout := some s }
    | stderr s => simpa [applyAllB, applyB, cmdOps] using ih { b with stderr := some s }
    | cwd => simpa [applyAllB, applyB, cmdOps] using ih { b with cwd := true }
    | uid => simpa [applyAllB, applyB, cmdOps] using ih { b with uid := true }
    | gid => simpa [applyAllB, applyB, cmdOps] using ih { b with gid := true }
    | pgroup => simpa [applyAllB, applyB, cmdOps] using ih { b with pgroup := true }
    | preExec => simpa [applyAllB, applyB, cmdOps] using ih { b with closures := b.closures + 1 }

theorem applyAllB_append (fixed start : Bool) : ∀ (o1 o2 : List BOp) (b : Builder),
    applyAllB fixed start b (o1 ++ o2) = (applyAllB fixed start b o1).bind (applyAllB fixed start · o2) := by
  intro o1
  induction o1 with
  | nil => intro o2 b; rfl
  | cons o r ih =>
    intro o2 b
    simp only [List.cons_append, applyAllB]
    cases applyB fixed start b o with
    | none => rfl
    | some b1 => simpa using ih o2 b1

theorem cmdOps_append (o1 o2 : List BOp) : cmdOps (o1 ++ o2) = cmdOps o1 ++ cmdOps o2 := by
  induction o1 with
  | nil => rfl
  | cons o r ih => cases o <;> simp [cmdOps, ih]

theorem applyAllB_total (start : Bool) : ∀ (ops : List BOp) (b : Builder), WF b.cmd → Reach start b.cmd →
    ∃ b', applyAllB true start b ops = some b' ∧ WF b'.cmd ∧ Reach start b'.cmd := by
  intro ops b w r
  obtain ⟨c, e, w', r', _⟩ := applyAll_inv start (cmdOps ops) b.cmd w r
  have h := applyAllB_cmd true start ops b
  rw [e] at h
  cases hb : applyAllB true start b ops with
  | none => rw [hb] at h; simp at h
  | some b' =>
    rw [hb] at h
    simp at h
    exact ⟨b', rfl, h ▸ w', h ▸ r'⟩

/-- Builder calls and spawns interleaved in any way on `Command::new(bin)`: no builder call panics, and the
    Command a round spawns from is the one all builder calls made SO FAR produce (spawns in between leave no
    trace): its argv is the pointers of bin and of every argument requested so far, in order, then NULL, and
    its envp likewise (`argv_envp_wellformed` for the concatenated calls). -/
theorem respawn_interleaved (start : Bool) (bin : Nat) :
    ∀ (opss : List (List BOp)) (pre : List BOp) (b : Builder),
      applyAllB true start (newB start bin) pre = some b → WF b.cmd → Reach start b.cmd →
      ∃ bs, buildersOf true start b opss = some bs ∧ bs.length = opss.length ∧
        ∀ k (hk : k < bs.length),
          applyAllB true start (newB start bin) (pre ++ (opss.take (k + 1)).flatten) = some bs[k] := by
  intro opss
  induction opss with
  | nil => intro pre b _ _ _; exact ⟨[], rfl, rfl, by intro k hk; simp at hk⟩
  | cons ops r ih =>
    intro pre b hb w rc
    obtain ⟨b1, e1, w1, r1⟩ := applyAllB_total start ops b w rc
    have hpre : applyAllB true start (newB start bin) (pre ++ ops) = some b1 := by
      rw [applyAllB_append, hb]; simpa using e1
    obtain ⟨bs, e2, l2, g2⟩ := ih (pre ++ ops) b1 hpre w1 r1
    refine ⟨b1 :: bs, by simp [buildersOf, e1, e2], by simp [l2], ?_⟩
    intro k hk
    cases k with
    | zero => simpa using hpre
    | succ k =>
      have hk' : k < bs.length := by simpa using hk
      have := g2 k hk'
      simpa [List.append_assoc] using this

/-! ## (iv) the environment builder as a state machine: what the child receives

Model/SpawnEnv.lean: `childEnv penv e` = the strings execve copies for a Command whose environment is `e` when the
caller's own environment is `penv`; `specEnv` = what the sequence of builder calls asks for. -/

theorem deref_ptrs (l : List Nat) : deref (l.map ptr ++ [0]) = l := by
  induction l with
  | nil => rfl
  | cons a r ih => simp [deref, ptr, ih]

/-- `envs` over an iterator that yields nothing is the identity on the Command, in every environment mode and
    in either build (the seeded C13-m7 made it switch Inherit to an empty list) -/
theorem envs_nil_identity (fixed start : Bool) (c : Cmd) : apply fixed start c (.envs []) = some c := rfl

/-- `envs(it)` is `env(s)` for each item in turn, nothing else -/
theorem envs_eq_foldl_env (fixed start : Bool) : ∀ (l : List Nat) (c : Cmd),
    apply fixed start c (.envs l) = applyAll fixed start c (l.map .env) := by
  intro l
  induction l with
  | nil => intro c; rfl
  | cons e r ih =>
    intro c
    simp only [apply, envsL, List.map_cons, applyAll]
    cases env fixed start c e with
    | none => rfl
    | some c1 => simpa [apply] using ih c1

theorem applyAll_append (fixed start : Bool) : ∀ (o1 o2 : List Op) (c : Cmd),
    applyAll fixed start c (o1 ++ o2) = (applyAll fixed start c o1).bind (applyAll fixed start · o2) := by
  intro o1
  induction o1 with
  | nil => intro o2 c; rfl
  | cons o r ih =>
    intro o2 c
    simp only [List.cons_append, applyAll]
    cases apply fixed start c o with
    | none => rfl
    | some c1 => simpa using ih o2 c1

/-- one `envs` over a concatenation = two `envs` calls (any split point, an empty half included) -/
theorem envs_append (fixed start : Bool) (l1 l2 : List Nat) (c : Cmd) :
    apply fixed start c (.envs (l1 ++ l2)) = (apply fixed start c (.envs l1)).bind (apply fixed start · (.envs l2)) := by
  rw [envs_eq_foldl_env, List.map_append, applyAll_append, ← envs_eq_foldl_env]
  cases apply fixed start c (.envs l1) with
  | none => rfl
  | some c1 => simp [envs_eq_foldl_env]

/-- an empty `envs` may be inserted at (or removed from) any position of any call sequence without effect -/
theorem envs_nil_anywhere (fixed start : Bool) (o1 o2 : List Op) (c : Cmd) :
    applyAll fixed start c (o1 ++ .envs [] :: o2) = applyAll fixed start c (o1 ++ o2) := by
  rw [applyAll_append, applyAll_append]
  cases applyAll fixed start c o1 with
  | none => rfl
  | some c1 => simp [applyAll, envs_nil_identity]

/-- From ANY builder state (environment Inherit, None or Provided with any content; either build), after ANY
    sequence of arg/args/env/envs calls: no panic, and the child gets — if no variable was given — what it would
    have got before, otherwise the variables held before followed by the given ones, in order, duplicates kept -/
theorem builder_env_exact_from (start : Bool) (penv : List Nat) (ops : List Op) (c : Cmd) (w : WF c) (r : Reach start c) :
    ∃ c', applyAll true start c ops = some c' ∧ childEnv penv c'.env = specEnvFrom penv c.env (wantedEnv ops) := by
  obtain ⟨c', e, w', _, _, xe, xp⟩ := applyAll_inv start ops c w r
  refine ⟨c', e, ?_⟩
  cases xp with
  | inr h => simp [specEnvFrom, h.1, h.2]
  | inl h =>
    simp only [specEnvFrom, h.1, if_false]
    cases hc : c'.env with
    | provided v p =>
      have := w'.2
      rw [hc] at this xe
      simp only at this
      simp only [envVars] at xe
      simp only [childEnv, this, deref_ptrs]
      exact xe
    | inherit => rw [hc] at h; exact absurd h.2 (by simp [isProvided])
    | none => rw [hc] at h; exact absurd h.2 (by simp [isProvided])

/-- `Command::new(bin)` followed by ANY sequence of builder calls, either build, any caller environment: the
    child's environment is exactly `specEnv` of the variables given (entries, order, multiplicity) -/
theorem builder_env_exact (start : Bool) (bin : Nat) (penv : List Nat) (ops : List Op) :
    ∃ c, applyAll true start (new start bin) ops = some c ∧ childEnv penv c.env = specEnv start penv (wantedEnv ops) := by
  have w0 : WF (new start bin) := ⟨rfl, by cases start <;> simp [new]⟩
  have r0 : Reach start (new start bin) := by cases start <;> simp [Reach, new]
  obtain ⟨c, e, h⟩ := builder_env_exact_from start penv ops _ w0 r0
  refine ⟨c, e, ?_⟩
  rw [h]
  cases start <;> simp [specEnvFrom, specEnv, new, childEnv]

theorem imageEnv_imageOf (penv : List Nat) (b : Builder) : imageEnv penv (imageOf b) = childEnv penv b.cmd.env := by
  simp only [imageEnv, imageOf, envpOf]
  cases b.cmd.env <;> rfl

theorem envRounds_eq (start : Bool) (penv : List Nat) : ∀ (opss : List (List BOp)) (b : Builder),
    envRounds start penv b opss =
      (buildersOf true start b opss).map fun bs => bs.map fun b => some (childEnv penv b.cmd.env) := by
  intro opss
  induction opss with
  | nil => intro b; rfl
  | cons ops r ih =>
    intro b
    have ih' := ih
    simp only [envRounds] at ih' ⊢
    simp only [List.map_cons, runStages, buildersOf]
    cases applyAllB true start b ops with
    | none => rfl
    | some b1 =>
      simp only [Option.bind_some, spawn_preserves_config, spawnB_clean, Option.map_map]
      have := ih' b1
      cases hb : buildersOf true start b1 r with
      | none =>
        rw [hb] at this
        cases hr : runStages true start b1 (r.map fun ops => ⟨ops, PFault.none, Option.none⟩) with
        | none => rfl
        | some x => rw [hr] at this; simp at this
      | some bs =>
        rw [hb] at this
        cases hr : runStages true start b1 (r.map fun ops => ⟨ops, PFault.none, Option.none⟩) with
        | none => rw [hr] at this; simp at this
        | some x =>
          rw [hr] at this
          simp only [Option.map_some, Option.some.injEq] at this
          simp [Function.comp, this, imageEnv_imageOf]

/-- Builder calls (of any kind) and spawns interleaved in any way on `Command::new(bin)`: the image of EVERY
    spawn gets exactly `specEnv` of the variables given in all calls made so far -/
theorem respawn_env_exact (start : Bool) (bin : Nat) (penv : List Nat) (opss : List (List BOp)) :
    ∃ envs, envRounds start penv (newB start bin) opss = some envs ∧ envs.length = opss.length ∧
      ∀ k (hk : k < envs.length),
        envs[k] = some (specEnv start penv (wantedEnv (cmdOps (opss.take (k + 1)).flatten))) := by
  have w0 : WF (newB start bin).cmd := ⟨rfl, by cases start <;> simp [newB, new]⟩
  have r0 : Reach start (newB start bin).cmd := by cases start <;> simp [Reach, newB, new]
  obtain ⟨bs, e, l, g⟩ := respawn_interleaved start bin opss [] (newB start bin) rfl w0 r0
  refine ⟨bs.map fun b => some (childEnv penv b.cmd.env), by rw [envRounds_eq, e]; rfl, by simpa using l, ?_⟩
  intro k hk
  have hk' : k < bs.length := by simpa using hk
  have h1 := g k hk'
  simp only [List.nil_append] at h1
  have h2 := applyAllB_cmd true start (opss.take (k + 1)).flatten (newB start bin)
  rw [h1] at h2
  obtain ⟨c, ec, hc⟩ := builder_env_exact start bin penv (cmdOps (opss.take (k + 1)).flatten)
  have : (newB start bin).cmd = new start bin := rfl
  rw [this, ec] at h2
  simp only [Option.map_some, Option.some.injEq] at h2
  simp only [List.getElem_map, h2, hc]

/-- `env` does NOT extend the inherited environment (as `std::process::Command::env` would): with the `start`
    feature, the first variable given replaces the caller's whole environment.  For every non-empty caller
    environment and every call sequence that gives at least one variable the child's environment differs from
    "inherited ++ given". -/
theorem env_drops_inherited (bin : Nat) (penv : List Nat) (ops : List Op) (hp : penv ≠ []) (hg : wantedEnv ops ≠ []) :
    ∃ c, applyAll true true (new true bin) ops = some c ∧
      childEnv penv c.env = wantedEnv ops ∧ childEnv penv c.env ≠ extendSpecEnv true penv (wantedEnv ops) := by
  obtain ⟨c, e, h⟩ := builder_env_exact true bin penv ops
  have h' : childEnv penv c.env = wantedEnv ops := by rw [h]; simp [specEnv, hg]
  refine ⟨c, e, h', ?_⟩
  rw [h']
  intro heq
  have := congrArg List.length heq
  simp only [extendSpecEnv, if_true, List.length_append] at this
  have : penv.length = 0 := by omega
  exact hp (List.eq_nil_of_length_eq_zero this)

/-- concrete witness of the above: caller environment {100, 101}, one call `env(1)`: the child gets [1] -/
theorem env_replaces_inherited_witness :
    (applyAll true true (new true 7) [.env 1]).map (fun c => childEnv [100, 101] c.env) = some [1] ∧
      extendSpecEnv true [100, 101] (wantedEnv [.env 1]) = [100, 101, 1] := by decide

/-- the same string (a fortiori the same key) given twice is passed twice: nothing is overridden or merged -/
theorem env_duplicates_kept (start : Bool) (bin e : Nat) (penv : List Nat) :
    ∃ c, applyAll true start (new start bin) [.env e, .envs [e]] = some c ∧ childEnv penv c.env = [e, e] := by
  obtain ⟨c, ec, h⟩ := builder_env_exact start bin penv [.env e, .envs [e]]
  exact ⟨c, ec, by rw [h]; simp [specEnv, wantedEnv]⟩

/-- the theorems discriminate: an `envs` whose mode switch is hoisted in front of its loop (seeded C13-m7) is
    not the identity on an empty iterator and the child loses the inherited environment -/
theorem envsHoisted_violates_spec :
    envsHoisted true true (new true 7) [] ≠ some (new true 7) ∧
      (envsHoisted true true (new true 7) []).map (fun c => childEnv [100, 101] c.env) = some [] ∧
      specEnv true [100, 101] (wantedEnv [.envs []]) = [100, 101] := by decide

/-- ... and one that drops its last item does not deliver what was given -/
theorem envsSkipLast_violates_spec :
    (envsSkipLast true false (new false 7) [1, 2]).map (fun c => childEnv [] c.env) = some [1] ∧
      specEnv false [] (wantedEnv [.envs [1, 2]]) = [1, 2] := by decide

/-! ## (v) the caller's identity state and the identity of the image (Model/SpawnIds.lean) -/

theorem setIds_ok (cap : Bool) (i i' : Ids) (x : Nat) :
    setIds cap i x = .ok i' ↔
      (cap = true ∧ i' = ⟨x, x, x⟩) ∨ (cap = false ∧ (x = i.r ∨ x = i.s) ∧ i' = { i with e := x }) := by
  unfold setIds
  cases cap with
  | true => simp [eq_comm]
  | false =>
    by_cases h : x = i.r ∨ x = i.s
    · simp [h, eq_comm]
    · simp [h]

theorem setIds_err (cap : Bool) (i : Ids) (x e : Nat) :
    setIds cap i x = .error e ↔ cap = false ∧ x ≠ i.r ∧ x ≠ i.s ∧ e = EPERM := by
  unfold setIds
  cases cap with
  | true => simp
  | false =>
    by_cases h : x = i.r ∨ x = i.s
    · simp only [Bool.false_eq_true, if_false, h, if_true]
      constructor
      · intro h'; cases h'
      · intro ⟨_, h1, h2, _⟩; cases h with
        | inl h => exact absurd h h1
        | inr h => exact absurd h h2
    · simp only [Bool.false_eq_true, if_false, h]
      simp only [not_or] at h
      constructor
      · intro h'; cases h'; exact ⟨by simp, h.1, h.2, rfl⟩
      · intro ⟨_, _, _, he⟩; rw [he]

theorem optStep_ok {α : Type} (st : CStep) (o : Option Nat) (f : Nat → Except Nat α) (d a : α) :
    optStep st o f d = .ok a ↔ (o = none ∧ a = d) ∨ (∃ x, o = some x ∧ f x = .ok a) := by
  cases o with
  | none => simp [optStep, eq_comm]
  | some x =>
    simp only [optStep]
    cases hf : f x with
    | ok b =>
      constructor
      · intro h; cases h; exact Or.inr ⟨x, rfl, hf⟩
      · intro h
        cases h with
        | inl h => cases h.1
        | inr h => obtain ⟨y, hy, hy'⟩ := h; cases hy; rw [hf] at hy'; cases hy'; rfl
    | error e =>
      constructor
      · intro h; cases h
      · intro h
        cases h with
        | inl h => cases h.1
        | inr h => obtain ⟨y, hy, hy'⟩ := h; cases hy; rw [hf] at hy'; cases hy'

theorem optStep_err {α : Type} (st s' : CStep) (o : Option Nat) (f : Nat → Except Nat α) (d : α) (e : Nat) :
    optStep st o f d = .error (s', e) ↔ ∃ x, o = some x ∧ f x = .error e ∧ s' = st := by
  cases o with
  | none => simp [optStep]
  | some x =>
    simp only [optStep]
    cases hf : f x with
    | ok b =>
      constructor
      · intro h; cases h
      · intro ⟨y, hy, he, _⟩; cases hy; rw [hf] at he; cases he
    | error e' =>
      constructor
      · intro h; cases h; exact ⟨x, rfl, hf, rfl⟩
      · intro ⟨y, hy, he, hs⟩; cases hy; rw [hf] at he; cases he; rw [hs]

theorem setuid_ok (c c' : Cred) (u : Nat) :
    setuid c u = .ok c' ↔ ∃ i, setIds (capable c) c.uid u = .ok i ∧ c' = { c with uid := i } := by
  unfold setuid
  cases setIds (capable c) c.uid u with
  | ok i => simp [eq_comm]
  | error e => simp

theorem setgid_ok (c c' : Cred) (g : Nat) :
    setgid c g = .ok c' ↔ ∃ i, setIds (capable c) c.gid g = .ok i ∧ c' = { c with gid := i } := by
  unfold setgid
  cases setIds (capable c) c.gid g with
  | ok i => simp [eq_comm]
  | error e => simp

theorem setuid_err (c : Cred) (u e : Nat) : setuid c u = .error e ↔ setIds (capable c) c.uid u = .error e := by
  unfold setuid
  cases setIds (capable c) c.uid u <;> simp

theorem setgid_err (c : Cred) (g e : Nat) : setgid c g = .error e ↔ setIds (capable c) c.gid g = .error e := by
  unfold setgid
  cases setIds (capable c) c.gid g <;> simp

theorem setpgid_ok (p : PCtx) (pg g : Nat) :
    setpgid p pg = .ok g ↔ (pg = 0 ∧ g = p.self) ∨ (pg ≠ 0 ∧ (pg = p.callerPgid ∨ pg ∈ p.session) ∧ g = pg) := by
  unfold setpgid
  by_cases h0 : pg = 0
  · simp [h0, eq_comm]
  · by_cases h1 : pg = p.callerPgid ∨ pg ∈ p.session
    · simp [h0, h1, eq_comm]
    · simp [h0, h1]

theorem setpgid_err (p : PCtx) (pg e : Nat) :
    setpgid p pg = .error e ↔ pg ≠ 0 ∧ pg ≠ p.callerPgid ∧ pg ∉ p.session ∧ e = EPERM := by
  unfold setpgid
  by_cases h0 : pg = 0
  · simp [h0]
  · by_cases h1 : pg = p.callerPgid ∨ pg ∈ p.session
    · simp only [h0, if_false, h1, if_true]
      constructor
      · intro h; cases h
      · intro ⟨_, h2, h3, _⟩
        cases h1 with
        | inl h => exact absurd h h2
        | inr h => exact absurd h h3
    · simp only [h0, if_false, h1]
      simp only [not_or] at h1
      constructor
      · intro h; cases h; exact ⟨h0, h1.1, h1.2, rfl⟩
      · intro ⟨_, _, _, he⟩; rw [he]

/-- the three identity steps, one after the other (gid, uid, pgroup), then the exec -/
theorem idSteps_ok (p : PCtx) (c : Cred) (q : IdReq) (ch : ChildId) :
    idSteps p c q = .ok ch ↔ ∃ c1 c2 pg,
      optStep .setgid q.gid (setgid c) c = .ok c1 ∧ optStep .setuid q.uid (setuid c1) c1 = .ok c2 ∧
        optStep .setpgid q.pgroup (setpgid p) p.callerPgid = .ok pg ∧ ch = ⟨execCred c2, pg⟩ := by
  unfold idSteps
  cases h1 : optStep .setgid q.gid (setgid c) c with
  | error x => simp
  | ok c1 =>
    simp only
    cases h2 : optStep .setuid q.uid (setuid c1) c1 with
    | error x => simp [h2]
    | ok c2 =>
      simp only
      cases h3 : optStep .setpgid q.pgroup (setpgid p) p.callerPgid with
      | error x => simp
      | ok pg => simp [h2, eq_comm]

/-- the gid step leaves the uids (hence the privilege) and the supplementary groups alone -/
theorem gidStep_keeps (c c1 : Cred) (o : Option Nat) (h : optStep .setgid o (setgid c) c = .ok c1) :
    c1.uid = c.uid ∧ c1.groups = c.groups ∧ capable c1 = capable c := by
  rw [optStep_ok] at h
  cases h with
  | inl h => rw [h.2]; exact ⟨rfl, rfl, rfl⟩
  | inr h => obtain ⟨g, _, hs⟩ := h; obtain ⟨i, _, rfl⟩ := (setgid_ok c c1 g).1 hs; exact ⟨rfl, rfl, rfl⟩

/-- the uid step leaves the gids and the supplementary groups alone -/
theorem uidStep_keeps (c c1 : Cred) (o : Option Nat) (h : optStep .setuid o (setuid c) c = .ok c1) :
    c1.gid = c.gid ∧ c1.groups = c.groups := by
  rw [optStep_ok] at h
  cases h with
  | inl h => rw [h.2]; exact ⟨rfl, rfl⟩
  | inr h => obtain ⟨u, _, hs⟩ := h; obtain ⟨i, _, rfl⟩ := (setuid_ok c c1 u).1 hs; exact ⟨rfl, rfl⟩

/-- A PRIVILEGED caller (effective uid 0 — plain root, or a set-user-ID-root program / a daemon after
    setresuid(u, 0, 0), whatever its real and saved uid): if `spawn` is Ok the image runs with EXACTLY the requested
    uid in all three fields AND exactly the requested gid in all three fields, whenever requested (the gid step comes
    first, 925c7e5: it still has the privilege); ids that were not requested are the caller's (saved := effective at
    the exec); the supplementary groups are the caller's, untouched; the process group is the caller's, its own, or
    the requested one. -/
theorem spawn_ids_exact (p : PCtx) (c : Cred) (q : IdReq) (ch : ChildId)
    (h : idSteps p c q = .ok ch) (hc : capable c = true) :
    (∀ u, q.uid = some u → ch.cred.uid = ⟨u, u, u⟩) ∧
    (∀ g, q.gid = some g → ch.cred.gid = ⟨g, g, g⟩) ∧
    (q.uid = none → ch.cred.uid = ⟨c.uid.r, c.uid.e, c.uid.e⟩) ∧
    (q.gid = none → ch.cred.gid = ⟨c.gid.r, c.gid.e, c.gid.e⟩) ∧
    ch.cred.groups = c.groups ∧
    (q.pgroup = none → ch.pgid = p.callerPgid) ∧ (q.pgroup = some 0 → ch.pgid = p.self) ∧
    (∀ g, g ≠ 0 → q.pgroup = some g → ch.pgid = g) := by
  obtain ⟨c1, c2, pg, h1, h2, h3, rfl⟩ := (idSteps_ok p c q ch).1 h
  obtain ⟨ku, kg, kc⟩ := gidStep_keeps c c1 q.gid h1
  obtain ⟨k2g, k2s⟩ := uidStep_keeps c1 c2 q.uid h2
  have hc1 : capable c1 = true := by rw [kc]; exact hc
  rw [optStep_ok] at h1 h2 h3
  -- the gid step
  have hg : (q.gid = none ∧ c1 = c) ∨ (∃ g, q.gid = some g ∧ c1.gid = ⟨g, g, g⟩) := by
    cases h1 with
    | inl h => exact Or.inl h
    | inr h =>
      obtain ⟨g, hq, hs⟩ := h
      obtain ⟨i, hi, rfl⟩ := (setgid_ok c c1 g).1 hs
      rw [hc, setIds_ok] at hi
      cases hi with
      | inl hi => exact Or.inr ⟨g, hq, by rw [hi.2]⟩
      | inr hi => exact absurd hi.1 (by simp)
  -- the uid step
  have hu : (q.uid = none ∧ c2 = c1) ∨ (∃ u, q.uid = some u ∧ c2.uid = ⟨u, u, u⟩) := by
    cases h2 with
    | inl h => exact Or.inl h
    | inr h =>
      obtain ⟨u, hq, hs⟩ := h
      obtain ⟨i, hi, rfl⟩ := (setuid_ok c1 c2 u).1 hs
      rw [hc1, setIds_ok] at hi
      cases hi with
      | inl hi => exact Or.inr ⟨u, hq, by rw [hi.2]⟩
      | inr hi => exact absurd hi.1 (by simp)
  refine ⟨?_, ?_, ?_, ?_, ?_, ?_, ?_, ?_⟩
  · intro u hq
    cases hu with
    | inl h => rw [h.1] at hq; cases hq
    | inr h =>
      obtain ⟨u', hq', hv⟩ := h
      rw [hq'] at hq; cases hq
      simp [execCred, hv]
  · intro g hq
    cases hg with
    | inl h => rw [h.1] at hq; cases hq
    | inr h =>
      obtain ⟨g', hq', hv⟩ := h
      rw [hq'] at hq; cases hq
      simp [execCred, k2g, hv]
  · intro hq
    cases hu with
    | inl h => simp [execCred, h.2, ku]
    | inr h => obtain ⟨u, hq', _⟩ := h; rw [hq] at hq'; cases hq'
  · intro hq
    cases hg with
    | inl h => simp [execCred, k2g, h.2]
    | inr h => obtain ⟨g, hq', _⟩ := h; rw [hq] at hq'; cases hq'
  · simp [execCred, k2s, kg]
  · intro hq
    cases h3 with
    | inl h => exact h.2
    | inr h => obtain ⟨x, hq', _⟩ := h; rw [hq] at hq'; cases hq'
  · intro hq
    cases h3 with
    | inl h => rw [h.1] at hq; cases hq
    | inr h =>
      obtain ⟨x, hq', hs⟩ := h
      rw [hq] at hq'; cases hq'
      rw [setpgid_ok] at hs
      cases hs with
      | inl hs => exact hs.2
      | inr hs => exact absurd rfl hs.1
  · intro g hne hq
    cases h3 with
    | inl h => rw [h.1] at hq; cases hq
    | inr h =>
      obtain ⟨x, hq', hs⟩ := h
      rw [hq] at hq'; cases hq'
      rw [setpgid_ok] at hs
      cases hs with
      | inl hs => exact absurd hs.1 hne
      | inr hs => exact hs.2.2

/-- ANY caller, privileged or not: if `spawn` is Ok, the effective and the saved id of the image are the requested
    ones; the real id is too, except that an UNPRIVILEGED caller's setuid/setgid only moves the effective id (kernel
    rule): then the real id is still the caller's — see `unprivileged_setuid_keeps_real_uid`. -/
theorem spawn_ids_effective (p : PCtx) (c : Cred) (q : IdReq) (ch : ChildId) (h : idSteps p c q = .ok ch) :
    (∀ u, q.uid = some u → ch.cred.uid.e = u ∧ ch.cred.uid.s = u ∧
      (ch.cred.uid.r = u ∨ (capable c = false ∧ ch.cred.uid.r = c.uid.r))) ∧
    (∀ g, q.gid = some g → ch.cred.gid.e = g ∧ ch.cred.gid.s = g ∧
      (ch.cred.gid.r = g ∨ (capable c = false ∧ ch.cred.gid.r = c.gid.r))) := by
  obtain ⟨c1, c2, pg, h1, h2, _, rfl⟩ := (idSteps_ok p c q ch).1 h
  obtain ⟨ku, _, kc⟩ := gidStep_keeps c c1 q.gid h1
  obtain ⟨k2g, _⟩ := uidStep_keeps c1 c2 q.uid h2
  rw [optStep_ok] at h1 h2
  constructor
  · intro u hq
    cases h2 with
    | inl h => rw [h.1] at hq; cases hq
    | inr h =>
      obtain ⟨u', hq', hs⟩ := h
      rw [hq'] at hq; cases hq
      obtain ⟨i, hi, rfl⟩ := (setuid_ok c1 c2 u).1 hs
      rw [setIds_ok] at hi
      cases hi with
      | inl hi => simp [execCred, hi.2]
      | inr hi => rw [kc] at hi; simp [execCred, hi.2.2, hi.1, ku]
  · intro g hq
    cases h1 with
    | inl h => rw [h.1] at hq; cases hq
    | inr h =>
      obtain ⟨g', hq', hs⟩ := h
      rw [hq'] at hq; cases hq
      obtain ⟨i, hi, rfl⟩ := (setgid_ok c c1 g).1 hs
      rw [setIds_ok] at hi
      cases hi with
      | inl hi => simp [execCred, k2g, hi.2]
      | inr hi => simp [execCred, k2g, hi.2.2, hi.1]

theorem idSteps_err (p : PCtx) (c : Cred) (q : IdReq) (x : CStep × Nat) :
    idSteps p c q = .error x ↔
      optStep .setgid q.gid (setgid c) c = .error x ∨
      (∃ c1, optStep .setgid q.gid (setgid c) c = .ok c1 ∧ optStep .setuid q.uid (setuid c1) c1 = .error x) ∨
      (∃ c1 c2, optStep .setgid q.gid (setgid c) c = .ok c1 ∧ optStep .setuid q.uid (setuid c1) c1 = .ok c2 ∧
        optStep .setpgid q.pgroup (setpgid p) p.callerPgid = .error x) := by
  unfold idSteps
  cases h1 : optStep .setgid q.gid (setgid c) c with
  | error y => simp
  | ok c1 =>
    simp only
    cases h2 : optStep .setuid q.uid (setuid c1) c1 with
    | error y => simp [h2]
    | ok c2 =>
      simp only
      cases h3 : optStep .setpgid q.pgroup (setpgid p) p.callerPgid with
      | error y => simp [h2]
      | ok pg => simp [h2]

/-- If an identity step fails, it fails with EPERM, and exactly for the kernel's reason: the gid (uid) step when the
    caller is unprivileged and the id is neither its real nor its saved one — the privilege at the uid step is the
    caller's own, the gid step before it does not touch it; the pgroup step when the group does not exist in the
    session.  A privileged caller's uid and gid steps never fail. -/
theorem spawn_ids_err (p : PCtx) (c : Cred) (q : IdReq) (st : CStep) (e : Nat) (h : idSteps p c q = .error (st, e)) :
    e = EPERM ∧
    ((st = .setgid ∧ ∃ g, q.gid = some g ∧ capable c = false ∧ g ≠ c.gid.r ∧ g ≠ c.gid.s) ∨
     (st = .setuid ∧ ∃ u, q.uid = some u ∧ capable c = false ∧ u ≠ c.uid.r ∧ u ≠ c.uid.s) ∨
     (st = .setpgid ∧ ∃ g, q.pgroup = some g ∧ g ≠ 0 ∧ g ≠ p.callerPgid ∧ g ∉ p.session)) := by
  rw [idSteps_err] at h
  rcases h with h | ⟨c1, h1, h2⟩ | ⟨c1, c2, _, _, h3⟩
  · obtain ⟨g, hq, hs, rfl⟩ := (optStep_err _ _ _ _ _ _).1 h
    rw [setgid_err, setIds_err] at hs
    exact ⟨hs.2.2.2, Or.inl ⟨rfl, g, hq, hs.1, hs.2.1, hs.2.2.1⟩⟩
  · obtain ⟨u, hq, hs, rfl⟩ := (optStep_err _ _ _ _ _ _).1 h2
    obtain ⟨ku, _, kc⟩ := gidStep_keeps c c1 q.gid h1
    rw [setuid_err, setIds_err, kc, ku] at hs
    exact ⟨hs.2.2.2, Or.inr (Or.inl ⟨rfl, u, hq, hs.1, hs.2.1, hs.2.2.1⟩)⟩
  · obtain ⟨g, hq, hs, rfl⟩ := (optStep_err _ _ _ _ _ _).1 h3
    rw [setpgid_err] at hs
    exact ⟨hs.2.2.2, Or.inr (Or.inr ⟨rfl, g, hq, hs.1, hs.2.1, hs.2.2.1⟩)⟩

/-- a privileged caller: no uid or gid request is ever refused -/
theorem privileged_ids_never_refused (p : PCtx) (c : Cred) (q : IdReq) (st : CStep) (e : Nat)
    (hc : capable c = true) (h : idSteps p c q = .error (st, e)) : st = .setpgid := by
  obtain ⟨_, hst⟩ := spawn_ids_err p c q st e h
  rcases hst with ⟨_, _, _, hf, _⟩ | ⟨_, _, _, hf, _⟩ | ⟨hs, _⟩
  · rw [hc] at hf; cases hf
  · rw [hc] at hf; cases hf
  · exact hs

/-- Tie to the protocol (`spawn`): with the fault the identity steps themselves cause, the caller gets Ok and the
    image runs iff every identity step succeeded; otherwise Err with the failing step's errno (EPERM), the child
    reported it through the CLOEXEC pipe and exited, and was reaped — no image, nobody left. -/
theorem spawn_ids_result (p : PCtx) (c : Cred) (q : IdReq) (cfg : Config) (hm : cfgMatches cfg q) :
    spawn true cfg PFault.none (idFault cfg (idSteps p c q)) =
      match idSteps p c q with
      | .ok _ => ⟨.ok, some .execd⟩
      | .error (_, e) => ⟨.err (some e) true, some (.reported e)⟩ := by
  cases h : idSteps p c q with
  | ok ch => rfl
  | error x =>
    obtain ⟨st, e⟩ := x
    obtain ⟨he, hst⟩ := spawn_ids_err p c q st e h
    obtain ⟨m1, m2, m3⟩ := hm
    have hmem : st ∈ childSteps cfg := by
      rcases hst with ⟨rfl, g, hq, _⟩ | ⟨rfl, u, hq, _⟩ | ⟨rfl, g, hq, _⟩
      · rw [hq] at m2; simp [childSteps, m2]
      · rw [hq] at m1; simp [childSteps, m1]
      · rw [hq] at m3; simp [childSteps, m3]
    simp only [idFault]
    exact spawn_err_code cfg _ e (List.idxOf_lt_length_of_mem hmem) (by rw [he]; decide)

/-! the seeded class, the repaired order defect (Legacy) — witnesses on concrete states (A = 4242, B = 4343) -/

/-- SEEDED C13-m8: skipping the uid step "because the real uid already is the requested one" leaves a caller with
    (real, effective, saved) = (A, 0, 0) — every set-user-ID-root program — with a child that still has effective and
    saved uid 0; the code as written gives (A, A, A), which is what `spawn_ids_exact` demands. -/
theorem skip_setuid_when_real_equal_violates :
    let p : PCtx := ⟨1000, 900, [950]⟩
    let c : Cred := ⟨⟨4242, 0, 0⟩, ⟨0, 0, 0⟩, []⟩
    let q : IdReq := ⟨some 4242, none, none⟩
    (idSteps p c q).toOption.map (·.cred.uid) = some ⟨4242, 4242, 4242⟩ ∧
      (idStepsSkipUid p c q).toOption.map (·.cred.uid) = some ⟨4242, 0, 0⟩ := by decide

/-- the same "optimisation" on the gid step: (real, effective, saved) gid = (B, 0, 0), `.gid(B)` -/
theorem skip_setgid_when_real_equal_violates :
    let p : PCtx := ⟨1000, 900, [950]⟩
    let c : Cred := ⟨⟨0, 0, 0⟩, ⟨4343, 0, 0⟩, []⟩
    let q : IdReq := ⟨none, some 4343, none⟩
    (idSteps p c q).toOption.map (·.cred.gid) = some ⟨4343, 4343, 4343⟩ ∧
      (idStepsSkipGid p c q).toOption.map (·.cred.gid) = some ⟨4343, 0, 0⟩ := by decide

/-- THE CURRENT CODE (gid first, 925c7e5): a privileged caller's `.uid(u).gid(g)` — the ordinary "drop to user and
    group" of a root process — is delivered exactly, for every state, uid and gid -/
theorem gid_first_delivers (p : PCtx) (c : Cred) (u g : Nat) (hc : capable c = true) :
    idSteps p c ⟨some u, some g, none⟩ =
      .ok ⟨⟨⟨u, u, u⟩, ⟨g, g, g⟩, c.groups⟩, p.callerPgid⟩ := by
  have he : c.uid.e = 0 := by simpa [capable] using hc
  simp [idSteps, optStep, setuid, setgid, setIds, capable, he, execCred]

/-- REPAIRED DEFECT (925c7e5; found by this model).  Before, the uid step came first: a privileged caller asking for
    a uid other than 0 AND a gid that is not already its real or saved gid had given the privilege away before the
    gid step: `spawn` returned Err(EPERM), for every such state. -/
theorem legacy_root_uid_then_gid_fails (p : PCtx) (c : Cred) (u g : Nat) (pg : Option Nat)
    (hc : capable c = true) (hu : u ≠ 0) (h1 : g ≠ c.gid.r) (h2 : g ≠ c.gid.s) :
    Legacy.idSteps p c ⟨some u, some g, pg⟩ = .error (.setgid, EPERM) := by
  have he : c.uid.e = 0 := by simpa [capable] using hc
  simp [Legacy.idSteps, optStep, setuid, setgid, setIds, capable, he, hu, h1, h2]

/-- the same defect, silent form: root with SAVED gid B asking `.uid(A).gid(B)` got Ok, but the gid step ran
    unprivileged, only the effective gid moved — the image's REAL gid was still 0; the current code delivers B -/
theorem legacy_gid_after_uid_keeps_real_gid :
    (Legacy.idSteps ⟨1000, 900, [950]⟩ ⟨⟨0, 0, 0⟩, ⟨0, 0, 4343⟩, []⟩ ⟨some 4242, some 4343, none⟩).toOption.map (·.cred)
      = some ⟨⟨4242, 4242, 4242⟩, ⟨0, 4343, 4343⟩, []⟩ ∧
    (idSteps ⟨1000, 900, [950]⟩ ⟨⟨0, 0, 0⟩, ⟨0, 0, 4343⟩, []⟩ ⟨some 4242, some 4343, none⟩).toOption.map (·.cred)
      = some ⟨⟨4242, 4242, 4242⟩, ⟨4343, 4343, 4343⟩, []⟩ := by decide

/-- why `spawn_ids_exact` needs the privilege: (A, A, 0) asking `.uid(0)` is allowed (saved uid) and moves the
    effective uid only — Ok, real uid still A.  Kernel semantics of the promised step, not a defect of the code. -/
theorem unprivileged_setuid_keeps_real_uid :
    (idSteps ⟨1000, 900, [950]⟩ ⟨⟨4242, 4242, 0⟩, ⟨0, 0, 0⟩, []⟩ ⟨some 0, none, none⟩).toOption.map (·.cred.uid)
      = some ⟨4242, 0, 0⟩ := by decide

/-- DOCUMENTED FACT (Command has no groups API, no setgroups call): the supplementary groups survive a full drop of
    uid and gid -/
theorem groups_survive_drop :
    (idSteps ⟨1000, 900, [950]⟩ ⟨⟨0, 0, 0⟩, ⟨4242, 4242, 4242⟩, [0, 4343]⟩ ⟨some 4242, some 4242, some 0⟩).toOption
      = some ⟨⟨⟨4242, 4242, 4242⟩, ⟨4242, 4242, 4242⟩, [0, 4343]⟩, 1000⟩ := by decide

/-! ## non-vacuity -/

example : (childSteps ⟨[0, 2], true, true, false, true, 2⟩) =
    [.dup2 0, .dup2 2, .chdir, .setuid, .setpgid, .closure 0, .closure 1, .execve] := by decide
/-- a fault at the chdir of that configuration is reported; one past execve does not exist -/
example : spawn true ⟨[0, 2], true, true, false, true, 2⟩ PFault.none (some (2, some 13)) = ⟨.err (some 13) true, some (.reported 13)⟩ := by decide
example : spawn true ⟨[0, 2], true, true, false, true, 2⟩ PFault.none none = ⟨.ok, some .execd⟩ := by decide
example : spawn true ⟨[], false, false, false, false, 0⟩ ⟨none, 3, some 5, none⟩ none = ⟨.err none true, some .execd⟩ := by decide
/-- the builder theorem on a concrete call sequence (both builds) -/
example : (applyAll true false (new false 7) [.arg 1, .envs [4, 5], .args [2, 3], .env 6]) =
    some ⟨[7, 1, 2, 3], [8, 2, 3, 4, 0], .provided [4, 5, 6] [5, 6, 7, 0]⟩ := by decide
example : (applyAll true true (new true 7) [.arg 1]).map (·.env) = some .inherit := by decide


/-- respawn: one Command (stdin Null, stdout MakePipe, one closure) spawned three times; the second spawn's child
    fails at its second dup2 (EBADF); before the third an argument is added and stderr set to Null -/
example : runStages true false (newB false 7)
    [⟨[.stdin .null, .stdout .makePipe, .preExec], PFault.none, none⟩, ⟨[], PFault.none, some (1, some 9)⟩,
     ⟨[.cmd (.arg 1), .stderr .null], PFault.none, none⟩] =
    some [⟨⟨.ok, some .execd⟩, some ⟨[8, 0], some [0], [.null, .makePipe, .inherit], false, false, false, false, 1⟩, some [false, true, false], 1⟩,
          ⟨⟨.err (some 9) true, some (.reported 9)⟩, none, none, 0⟩,
          ⟨⟨.ok, some .execd⟩, some ⟨[8, 2, 0], some [0], [.null, .makePipe, .null], false, false, false, false, 1⟩, some [false, true, false], 1⟩] := by
  decide
/-- the hypothesis of the respawn theorems holds for a non-trivial Command -/
example : NoRaw ⟨new false 7, some .null, some .makePipe, none, true, false, false, true, 2⟩ := by decide
/-- and fails for a RawFd stream: that class is excluded, not silently covered -/
example : ¬ NoRaw ⟨new false 7, none, some .rawFd, none, false, false, false, false, 0⟩ := by decide
/-- a closure that fails has been called; the ones after it have not -/
example : closuresRun (childSteps ⟨[1], true, false, false, false, 3⟩) (some (3, some 5)) = 2 := by decide

/-! environment builder -/
example : (applyAll true true (new true 7) [.envs [], .arg 3, .envs []]).map (fun c => childEnv [100, 101] c.env) = some [100, 101] := by decide
example : (applyAll true false (new false 7) [.envs [], .arg 3, .envs []]).map (fun c => childEnv [100, 101] c.env) = some [] := by decide
example : (applyAll true true (new true 7) [.envs [], .env 1, .envs [], .envs [2, 1], .arg 9, .env 1]).map (fun c => childEnv [100, 101] c.env)
    = some [1, 2, 1, 1] := by decide
example : (applyAll true true (new true 7) [.envs [], .env 1, .envs [], .envs [2, 1], .arg 9, .env 1]).map (·.env)
    = some (.provided [1, 2, 1, 1] [2, 3, 2, 2, 0]) := by decide
example : specEnvFrom [100] (.provided [5] [6, 0]) [1, 2] = [5, 1, 2] := by decide
example : specEnvFrom [100] .inherit [] = [100] := by decide
example : envRounds true [100, 101] (newB true 7) [[.cmd (.envs [])], [.cwd], [.cmd (.env 4), .stdout .makePipe], [.cmd (.envs [])]]
    = some [some [100, 101], some [100, 101], some [4], some [4]] := by decide
example : deref [3, 1, 0, 9] = [2, 0] := by decide

/-! identity -/
example : Legacy.idSteps ⟨1000, 900, [950]⟩ ⟨⟨0, 0, 0⟩, ⟨0, 0, 0⟩, [7]⟩ ⟨some 4242, some 4343, some 950⟩ = .error (.setgid, EPERM) := by rfl
example : idSteps ⟨1000, 900, [950]⟩ ⟨⟨0, 0, 0⟩, ⟨0, 0, 0⟩, [7]⟩ ⟨some 4242, some 4343, some 950⟩
    = .ok ⟨⟨⟨4242, 4242, 4242⟩, ⟨4343, 4343, 4343⟩, [7]⟩, 950⟩ := by rfl
example : idSteps ⟨1000, 900, [950]⟩ ⟨⟨0, 0, 0⟩, ⟨0, 0, 0⟩, [7]⟩ ⟨none, some 4343, some 950⟩
    = .ok ⟨⟨⟨0, 0, 0⟩, ⟨4343, 4343, 4343⟩, [7]⟩, 950⟩ := by rfl
example : idSteps ⟨1000, 900, [950]⟩ ⟨⟨4242, 4343, 4242⟩, ⟨0, 0, 0⟩, []⟩ ⟨some 0, none, none⟩ = .error (.setuid, EPERM) := by rfl
example : idSteps ⟨1000, 900, [950]⟩ ⟨⟨0, 0, 0⟩, ⟨0, 0, 0⟩, []⟩ ⟨none, none, some 999⟩ = .error (.setpgid, EPERM) := by rfl
example : idSteps ⟨1000, 900, [950]⟩ ⟨⟨4242, 4343, 0⟩, ⟨0, 0, 0⟩, []⟩ ⟨none, none, some 0⟩
    = .ok ⟨⟨⟨4242, 4343, 4343⟩, ⟨0, 0, 0⟩, []⟩, 1000⟩ := by rfl
example : idFault ⟨[1], true, true, true, false, 0⟩ (.error (.setgid, EPERM)) = some (2, some 1) := by decide
example : idFault ⟨[1], true, true, true, false, 0⟩ (.error (.setuid, EPERM)) = some (3, some 1) := by decide
example : cfgMatches ⟨[1], true, true, true, false, 0⟩ ⟨some 1, some 2, none⟩ := ⟨rfl, rfl, rfl⟩

/-- a poll (`try_wait`) that finds the child still running leaves the handle exactly as it was — nothing is cached —
so a later `wait` still reaps the child and reports its real status -/
theorem try_wait_running_keeps_handle (p : Proc) (h : p.status = none) :
    tryWait p .running = (p, .ok none, 1) := by
  simp [tryWait, h]

theorem wait_after_running_poll (p : Proc) (h : p.status = none) (st : Int) :
    (wait (tryWait p .running).1 (.exited st)).2.1 = .ok st := by
  simp [tryWait, wait, h]

end TinyVerif.Spawn
