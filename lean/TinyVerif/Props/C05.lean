/-
C05 — Threads: the closure runs exactly once on a new thread; join awaits the thread's exit and returns its
value (None exactly on panic); a thread that cannot be created is an error, never a handle whose join hangs.

Model: `Model/Thread.lean` (three parties per thread instance — handle side H, thread side T, kernel K —
at the granularity of spawn.rs's atomic operations / heap calls / system calls, over a resource ledger).
The inductive invariant of one instance is `Proofs/ThreadInv.lean` + `Proofs/ThreadStep*.lean`; instances
are independent, so it lifts to the unbounded family `Nat → Inst` and, by induction over event lists, to
every interleaving of H/T/K steps of any number of concurrently live threads (`reachable_inv`).

Tie to the code, re-checked on every run of `bin/check C05`:
 * T: `Gen/ThreadSites.lean` is regenerated from spawn.rs by a *semantic* extractor (helper functions of the file
   inlined, operations recognised by what they do, every path through `spawn`, the thread's entry closure,
   `on_panic`, `join`, `drop` enumerated, branches tagged by what they decide).  `gen_params_from_paths` (by
   `decide`) re-derives every model parameter from those paths with position-independent predicates,
   `gen_shape_ok` checks the partial order between operations the model relies on and that every atomic site has
   at least the ordering the argument needs (`isAcq` / `isRel`, never an equality), `gen_cfg_good` that the
   parameters are the ones the proofs need.  Where the extractor does not understand the source it says so
   (`Op.unknown`, `…Static = false`): the parameter is then what the running code was observed to do and the
   evidence records that; `gen_cfg_good` is demanded all the same;
 * C: a no-libc probe runs the real code under `strace -f`; every observed history must be accepted by
   `stepI` (driver `drv_c05`), which also predicts each join result.

Environment: the kernel's CLONE_CHILD_CLEARTID write + FUTEX_WAKE at thread exit is the synchronisation between
the exited thread and whoever observes the 0 (a waiter woken by it, a FUTEX_WAIT refused with EAGAIN because of
it, the `Acquire` load of `wait_for_exit` that reads it); that the kernel's write is a release of everything the
thread did is an assumption, exercised by the probe.  Nothing else is assumed of the environment for the repaired
code: the theorems hold for `spurious = true` (a FUTEX_WAIT may return 0 without a wake on the word, which the
futex contract allows — e.g. the late wake of a previous thread whose block had the same address) and for
`loadSync = false`.  The code before commit 2967946 called `futex_wait_fast` once and relied on both:
`spurious_wake_breaks_join` and `relaxed_fast_path_needs_hw_ordering` are the model witnesses on that code, the
first one replayed on the implementation with `strace -e inject=futex:retval=0`.
-/
import TinyVerif.Model.Thread
import TinyVerif.Proofs.ThreadStep
import TinyVerif.Proofs.ThreadLayout
import TinyVerif.Gen.ThreadSites
set_option linter.unusedSimpArgs false
set_option linter.unusedVariables false
set_option maxRecDepth 4000
namespace TinyVerif.Thread
open TinyVerif.Gen.Thread

/-! frame facts of `takeVal` -/
@[simp] theorem takeVal_runs (x : Inst) : (takeVal x).runs = x.runs := by unfold takeVal; split <;> rfl
@[simp] theorem takeVal_t (x : Inst) : (takeVal x).t = x.t := by unfold takeVal; split <;> rfl
@[simp] theorem takeVal_kdone (x : Inst) : (takeVal x).kdone = x.kdone := by unfold takeVal; split <;> rfl
@[simp] theorem takeVal_word (x : Inst) : (takeVal x).word = x.word := by unfold takeVal; split <;> rfl
@[simp] theorem takeVal_tlsFrees (x : Inst) : (takeVal x).tlsFrees = x.tlsFrees := by unfold takeVal; split <;> rfl

/-! ## tie T

`Gen/ThreadSites.lean` lists, for `spawn` (handle side), the thread's entry closure, `on_panic`, `join` and
`Drop::drop`, every *path* through the function after the helper functions of the file have been inlined, as a
list of protocol operations with the decision each branch stands for (`cas_lost`/`cas_won`, `mmap_err`/`mmap_ok`,
`clone_neg`/`clone_nonneg`, `is_thread`/`is_main`), and the atomic / futex sites with their resolved location
(hand-over flag `sync`, exit word `futex`) and orderings.  Nothing below speaks about positions in the source,
about which helper performs an operation, or about the syntactic form of a branch or a loop.

The model's step sequence fixes a total order per party; what the proofs *rely on* is the partial order stated
here, everything else commutes (each release touches its own resource only — `undo_releases_commute`):

 * spawn: the block is allocated and its three members (flag `false`, word `UNFINISHED`, slot `None`) are written
   before it is published by `clone`; closure boxed, stack mapped, tls boxed before `clone`; `clone` before the
   handle; after a failed `clone` (a failed `mmap`) tls, stack, closure and block (closure and block) are each
   released exactly once, in any order, and an error — never a handle — is returned  [`checkClone`, `mmapCleanup`];
 * thread: call → store of the result → hand-over CAS; a thread that lost the CAS resets its clear-tid address,
   then drops the unread result, then frees the block  [`setTidRet`, `dropValT`]; the thread-local block is freed
   exactly once, after every piece of user code (the call, the drop of the result); the winner frees nothing shared.
   The drop of the result is user code that may panic: the model lets the panic handler start from that point
   (`tDropPanic`), and that the block and the thread-local block are released only *after* it is exactly what
   `dropValTOf` / `epilogueShape` demand of the source (Props/C06 `destructor_runs_before_any_release`);
 * panic handler: tls is copied out before it is freed, exactly once on every thread path; loser: CAS → clear-tid
   reset → free  [`setTidPanic`]; the stack-unmap + exit asm is last; on a thread path it never takes one of the
   library's (non-reentrant) print locks — the closure may have panicked inside an argument of `eprintln!` /
   `println!` / `dbg!`, holding it, and the handler would wait for itself for ever (the thread never exits, join hangs);
 * join: wait → read the slot → free the block, on every path; the handle's destructor is suppressed;
 * drop: CAS first; the loser waits, then drops the unread result, then frees  [`dropValH`]; the winner touches
   nothing;
 * the exit wait re-reads the word after every return of the futex wait and leaves only when it differs from the
   value waited on  [`recheck`].

Orderings are demanded as *at least* what the argument needs (`isAcq` / `isRel`), never as equalities.
A path with an operation the extractor did not understand (`Op.unknown`) makes its function "not understood":
the parameters that depend on it are then taken from the running code by the check (`…Static = false`, reported in
the evidence) and the order of its operations is checked on every observed history by the model replay (tie C)
alone; the obligations about sites and orderings, and `gen_cfg_good`, hold regardless. -/

abbrev Path := List Op

def has (a : Op) (p : Path) : Bool := p.contains a
def once (a : Op) (p : Path) : Bool := p.count a == 1
/-- both occur and the first `a` comes before the first `b` -/
def bef (a b : Op) (p : Path) : Bool := has a p && has b p && decide (p.idxOf a < p.idxOf b)
def understood (p : Path) : Bool := !has .unknown p
def noneOf (xs : List Op) (p : Path) : Bool := xs.all (fun x => !has x p)
def onceAfter (a : Op) (xs : List Op) (p : Path) : Bool := xs.all (fun x => once x p && bef a x p)
def lostP (ps : List Path) : List Path := ps.filter (has .cas_lost)
def wonP (ps : List Path) : List Path := ps.filter (has .cas_won)
def threadP (ps : List Path) : List Path := ps.filter (has .is_thread)

/-! the model's parameters as predicates over the path lists -/

def checkCloneOf (ps : List Path) : Bool :=
  let neg := ps.filter (has .clone_neg)
  let pos := ps.filter (has .clone_nonneg)
  !neg.isEmpty && !pos.isEmpty &&
  (ps.filter (has .clone)).all (fun p => understood p && once .clone p && (has .clone_neg p != has .clone_nonneg p)) &&
  neg.all (fun p => bef .clone .clone_neg p && onceAfter .clone_neg [.drop_tls, .munmap, .drop_closure, .tsm_dealloc] p &&
    has .ret_err p && !has .ok_handle p) &&
  pos.all (fun p => bef .clone_nonneg .ok_handle p && noneOf [.drop_tls, .munmap, .drop_closure, .tsm_dealloc, .ret_err] p)

def mmapCleanupOf (ps : List Path) : Bool :=
  let err := ps.filter (has .mmap_err)
  !err.isEmpty &&
  (ps.filter (has .mmap)).all (fun p => once .mmap p && (has .mmap_err p != has .mmap_ok p) && !has .try_return p) &&
  err.all (fun p => understood p && bef .mmap .mmap_err p && onceAfter .mmap_err [.drop_closure, .tsm_dealloc] p &&
    has .ret_err p && noneOf [.ok_handle, .clone, .tls_box, .munmap] p)

def setTidOf (ps : List Path) : Bool :=
  !(lostP ps).isEmpty &&
  (lostP ps).all (fun p => understood p && once .set_tid_0 p && bef .cas .set_tid_0 p && bef .set_tid_0 .tsm_dealloc p) &&
  (wonP ps).all (fun p => understood p && !has .set_tid_0 p)

def dropValTOf (ps : List Path) : Bool :=
  !(lostP ps).isEmpty &&
  (lostP ps).all (fun p => understood p && once .drop_value p && bef .cas .drop_value p && bef .drop_value .tsm_dealloc p)

def dropValHOf (ps : List Path) : Bool :=
  !(lostP ps).isEmpty &&
  (lostP ps).all (fun p => understood p && once .drop_value p && bef .cas .wait p && bef .wait .drop_value p &&
    bef .drop_value .tsm_dealloc p)

/-- one iteration of the exit wait: load; leave iff the word differs from V; else futex_wait(word, V) and again -/
def goodIter : List Path := [[.load, .word_eq, .futex_wait, .cont], [.load, .word_ne, .brk]]

def recheckOf (ls : List WaitLoop) (jd : List Path) : Bool :=
  !jd.any (has .futex_wait) && !ls.isEmpty &&
  ls.all (fun l => l.iter == goodIter && l.cmp.length == 1 && l.cmp == l.arg)

/-- every parameter the extractor decided from the source is the value of its predicate on the emitted paths -/
def genParamsFromPaths : Bool :=
  (!checkCloneStatic || Gen.Thread.checkClone == checkCloneOf spawnPaths) &&
  (!mmapCleanupStatic || Gen.Thread.mmapCleanup == mmapCleanupOf spawnPaths) &&
  (!setTidRetStatic || Gen.Thread.setTidRet == setTidOf epiloguePaths) &&
  (!dropValTStatic || Gen.Thread.dropValT == dropValTOf epiloguePaths) &&
  (!setTidPanicStatic || Gen.Thread.setTidPanic == setTidOf (threadP panicPaths)) &&
  (!dropValHStatic || Gen.Thread.dropValH == dropValHOf dropPaths) &&
  (!recheckStatic || Gen.Thread.recheck == recheckOf waitLoops (joinPaths ++ dropPaths))

theorem gen_params_from_paths : genParamsFromPaths = true := by decide

/-! the partial order between operations (for the functions whose every path is understood) -/

def spawnShape (ps : List Path) : Bool :=
  ps.any (has .clone) &&
  ps.all (fun p => once .tsm_alloc p && onceAfter .tsm_alloc [.init_flag_false, .init_word, .init_slot_none] p &&
    !has .tsm_alloc_zeroed p) &&
  (ps.filter (has .clone)).all (fun p =>
    [Op.tsm_alloc, .init_flag_false, .init_word, .init_slot_none, .box_closure, .mmap, .tls_box].all (fun x => once x p && bef x .clone p)) &&
  (ps.filter (has .ok_handle)).all (fun p => bef .clone .ok_handle p)

def epilogueShape (ps : List Path) : Bool :=
  !(lostP ps).isEmpty && !(wonP ps).isEmpty &&
  ps.all (fun p => once .call_func p && once .write_slot p && once .cas p && bef .call_func .write_slot p &&
    bef .write_slot .cas p && (has .cas_won p != has .cas_lost p) && once .tls_dealloc p && bef .call_func .tls_dealloc p &&
    noneOf [.wait, .futex_wait, .load] p) &&
  (lostP ps).all (fun p => once .tsm_dealloc p && bef .cas .tsm_dealloc p && (!has .drop_value p || bef .drop_value .tls_dealloc p)) &&
  (wonP ps).all (fun p => noneOf [.tsm_dealloc, .drop_value] p)

def panicShape (ps : List Path) : Bool :=
  let thr := threadP ps
  let main := ps.filter (has .is_main)
  !(lostP thr).isEmpty && !(wonP thr).isEmpty && !main.isEmpty &&
  -- on a spawned thread the handler takes none of the library's print locks (`print!`/`eprintln!`/`dbg!`..): they are not
  -- reentrant and the panic may have been raised inside an argument of such a macro, i.e. with the lock held by this thread
  thr.all (fun p => !has .print_lock p) &&
  thr.all (fun p => once .tls_read p && once .tls_dealloc p && bef .tls_read .tls_dealloc p && once .cas p &&
    (has .cas_won p != has .cas_lost p) && once .asm_unmap_exit p &&
    [Op.tls_dealloc, .cas, .set_tid_0, .tsm_dealloc].all (fun x => !has x p || bef x .asm_unmap_exit p)) &&
  (lostP thr).all (fun p => once .tsm_dealloc p && bef .cas .tsm_dealloc p) &&
  (wonP thr).all (fun p => !has .tsm_dealloc p) &&
  main.all (fun p => noneOf [.cas, .tsm_dealloc, .tls_dealloc, .set_tid_0, .asm_unmap_exit] p)

def joinShape (ps : List Path) : Bool :=
  !ps.isEmpty &&
  ps.all (fun p => once .wait p && once .read_slot p && once .tsm_dealloc p && bef .wait .read_slot p &&
    bef .read_slot .tsm_dealloc p && has .forget p && noneOf [.cas, .set_tid_0] p)

def dropShape (ps : List Path) : Bool :=
  !(lostP ps).isEmpty && !(wonP ps).isEmpty &&
  ps.all (fun p => once .cas p && (has .cas_won p != has .cas_lost p) && !has .set_tid_0 p) &&
  (lostP ps).all (fun p => once .wait p && once .tsm_dealloc p && bef .cas .wait p && bef .wait .tsm_dealloc p) &&
  (wonP ps).all (fun p => noneOf [.wait, .tsm_dealloc, .drop_value, .futex_wait] p)

/-- `f ps` is demanded when the extractor understood every path of the function (otherwise: model replay only) -/
def whenUnderstood (ps : List Path) (f : List Path → Bool) : Bool := !ps.all understood || f ps

def isAcq : Gen.Thread.Ord → Bool
  | .acquire | .acqrel | .seqcst => true
  | _ => false
def isRel : Gen.Thread.Ord → Bool
  | .release | .acqrel | .seqcst => true
  | _ => false

/-- the hand-over RMW on the flag: a strong compare_exchange(false, true) — or a swap(true) / fetch_or(true), which
decide the same thing by the previous value — whose (success) ordering is at least Acquire and at least Release;
any failure ordering.  `compare_exchange_weak` is not accepted: it may fail spuriously, and then both sides lose. -/
def goodCas (s : Site) : Bool :=
  ((s.op == "compare_exchange" && s.vals == ["false", "true"]) || ((s.op == "swap" || s.op == "fetch_or") && s.vals == ["true"])) &&
  s.loc == "sync" && isAcq (s.ords.getD 0 .relaxed) && isRel (s.ords.getD 0 .relaxed)

/-- a site of the exit wait: a load of the exit word that is at least Acquire, or the futex wait on that word -/
def goodWaitSite (s : Site) : Bool :=
  s.loc == "futex" && ((s.op == "load" && isAcq (s.ords.getD 0 .relaxed)) || s.op == "futex_wait_fast")

/-- exactly one hand-over CAS, and every other atomic operation of the function belongs to the exit wait -/
def casOk (l : List Site) : Bool := (l.filter goodCas).length == 1 && l.all (fun s => goodCas s || goodWaitSite s)

def genShapeOk : Bool :=
  -- sites, whatever the control structure: drop / thread / panic handler do exactly one good CAS; join does none
  -- and touches nothing but the exit word; spawn's handle side does no atomic operation at all
  casOk dropSites && casOk spawnSites && spawnSites.length == 1 && casOk panicSites && panicSites.length == 1 &&
  joinSites.all goodWaitSite && joinSites.any (fun s => s.op == "load") && hspawnSites.isEmpty &&
  -- the partial orders
  whenUnderstood spawnPaths spawnShape && whenUnderstood epiloguePaths epilogueShape &&
  whenUnderstood panicPaths panicShape && whenUnderstood joinPaths joinShape && whenUnderstood dropPaths dropShape &&
  -- x86-64 trampoline: clone (56), then in the child munmap (11) and exit (60)
  cloneAsmSyscalls == [56, 11, 60] &&
  -- join / drop wait with the same (shared) key kind the kernel's clear-tid wake uses
  futexWaitPrivate == false

theorem gen_shape_ok : genShapeOk = true := by decide

/-- the model's parameters as derived from the current source; the environment may wake waiters spuriously and
gives no ordering to relaxed loads -/
def genCfg : Cfg :=
  { checkClone := Gen.Thread.checkClone, mmapCleanup := Gen.Thread.mmapCleanup, initWord := Gen.Thread.initWord,
    joinExpect := Gen.Thread.joinExpect, dropExpect := Gen.Thread.dropExpect, setTidRet := Gen.Thread.setTidRet,
    setTidPanic := Gen.Thread.setTidPanic, recheck := Gen.Thread.recheck, loadSync := false, spurious := true,
    dropValH := Gen.Thread.dropValH, dropValT := Gen.Thread.dropValT }

theorem gen_cfg_good : genCfg.Good := by decide

/-- the four releases of spawn's error path touch one resource each: as functions on the ledger they commute, so
the order in which the source performs them is immaterial (the check replays them in the model's order) -/
theorem undo_releases_commute (x : Inst) :
    freeTls (freeStack x) = freeStack (freeTls x) ∧ freeTls (freeBox x) = freeBox (freeTls x) ∧
    freeStack (freeBox x) = freeBox (freeStack x) ∧
    freeTsm (touchTsm (freeTls x)) = freeTls (freeTsm (touchTsm x)) ∧
    freeTsm (touchTsm (freeStack x)) = freeStack (freeTsm (touchTsm x)) ∧
    freeTsm (touchTsm (freeBox x)) = freeBox (freeTsm (touchTsm x)) := by
  refine ⟨?_, ?_, ?_, ?_, ?_, ?_⟩ <;>
    simp only [freeTls, freeStack, freeBox, freeTsm, touchTsm, Bool.or_assoc] <;>
    (congr 1; cases x.bad <;> cases notLive x.tls <;> cases notLive x.stack <;> cases notLive x.box <;> cases notLive x.tsm <;> rfl)

/-! ## reachability: every interleaving, any number of threads -/

def Reachable (c : Cfg) (s : St) : Prop := ∃ evs, run c St.init evs = some s

theorem reachable_inv (c : Cfg) (hc : c.Good) (s : St) (h : Reachable c s) : SInv s := by
  obtain ⟨evs, h⟩ := h
  exact run_sinv c hc _ s evs h init_sinv

/-! ## closure_runs_once -/

def isRunEv : Ev → Bool
  | .tRet _ | .tPanic => true
  | _ => false

/-- the closure body is entered only by T's own step from `start_fn`, which exists only after a successful clone -/
theorem closure_entered_only_on_T (c : Cfg) (x x' : Inst) (e : Ev) (h : stepI c x e = some x')
    (hne : x'.runs ≠ x.runs) : isRunEv e = true ∧ x.t = .run ∧ x'.runs = x.runs + 1 := by
  cases e <;> simp only [stepI] at h <;> (repeat' split at h) <;>
    first
    | (simp at h; done)
    | (simp only [Option.some.injEq] at h; subst h;
       simp_all [isRunEv, touchTsm, touchTls, touchStack, touchBox, freeTsm, freeTls, freeStack, freeBox])

/-- **closure_runs_once**: in every reachable state of every instance the closure body has been entered at most
once; exactly once as soon as the thread is past `start_fn`'s call (in particular in every complete execution of a
spawned instance); never if spawn failed -/
theorem closure_runs_once (c : Cfg) (hc : c.Good) (s : St) (h : Reachable c s) (i : Nat) :
    (s.inst i).runs ≤ 1 ∧
    (complete (s.inst i) = true → spawnedOk (s.inst i).h = true → (s.inst i).runs = 1) ∧
    (spawnedOk (s.inst i).h = false → (s.inst i).runs = 0) := by
  have inv := reachable_inv c hc s h i
  have hr := inv.runsI
  refine ⟨by rw [hr]; unfold b2n; split <;> omega, ?_, ?_⟩
  · intro hcmp hsp
    have hnf : isFailed (s.inst i).h = false := by
      cases hh : (s.inst i).h <;> simp_all [spawnedOk, isFailed]
    simp only [complete, hnf, Bool.false_or, Bool.and_eq_true, beq_iff_eq] at hcmp
    rw [hr, hcmp.2.1]; rfl
  · intro hsp
    have : (s.inst i).t = .notStarted := inv.started.mpr hsp
    rw [hr, this]; rfl

/-! ## join_returns_value -/

/-- **join_returns_value**: whenever `join` has returned `r`, the thread has issued its exit, the kernel has
cleared and woken the futex word, H has synchronised with that (so the slot read happens-after the slot write:
no race), and `r` is the closure's outcome — `some v` iff it returned `v`, `none` iff it panicked (`panicked` = the
thread entered the panic handler; for a joined thread that can only be the closure's panic: the destructor of a
result runs on the thread only when the handle was dropped, `dpanic`) -/
theorem join_returns_value (c : Cfg) (hc : c.Good) (s : St) (h : Reachable c s) (i : Nat) (r : Option Nat)
    (hj : (s.inst i).joinRes = some r) :
    (s.inst i).t = .dead ∧ (s.inst i).kdone = true ∧ (s.inst i).hsees = true ∧ (s.inst i).raced = false ∧
    (s.inst i).ret = some r ∧ (∀ v, r = some v ↔ (s.inst i).ret = some (some v)) ∧
    (r = none ↔ (s.inst i).panicked = true) ∧ (s.inst i).runs = 1 := by
  have inv := reachable_inv c hc s h i
  have hrd : hReadDone (s.inst i).h = true := by
    have := inv.joinI
    by_cases hh : hReadDone (s.inst i).h = true
    · exact hh
    · simp [hh] at this; simp [this] at hj
  have hslot : r = (s.inst i).slot := by
    have := inv.joinI; simp [hrd] at this; rw [this] at hj; simpa using hj.symm
  have haw := inv.aw (hRead_after _ hrd)
  have hdead := inv.kd haw.1
  have hpw : tPastWrite (s.inst i).t = true := by rw [hdead]; rfl
  have hret := inv.ret2 hpw
  refine ⟨hdead, haw.1, haw.2, inv.nrace, by rw [hret.1, hslot], ?_, ?_, ?_⟩
  · intro v; rw [hret.1, hslot]; simp
  · -- a destructor panic happens only on a thread whose handle was dropped: never on a joined one
    have hdp : (s.inst i).dpanic = false := by
      cases hd : (s.inst i).dpanic
      · rfl
      · have hw := (inv.dpI hd).2.1
        have hdet := inv.wH.mp hw
        rw [hdet] at hrd; cases hrd
    rw [hslot, ← hret.2, hdp]; simp
  · rw [inv.runsI, hdead]; rfl

/-- join's read of the slot is enabled only once the kernel has finished the thread's exit -/
theorem join_reads_only_after_exit (c : Cfg) (hc : c.Good) (s : St) (h : Reachable c s) (i : Nat) (x' : Inst)
    (hs : stepI c (s.inst i) .hReadSlot = some x') :
    (s.inst i).t = .dead ∧ (s.inst i).kdone = true ∧ (s.inst i).hsees = true := by
  have inv := reachable_inv c hc s h i
  simp only [stepI] at hs
  split at hs
  · rename_i hh
    have haw := inv.aw (by rw [hh]; rfl)
    exact ⟨inv.kd haw.1, haw.1, haw.2⟩
  · simp at hs

/-- a T or K event that is enabled for program counter `t` (T is never blocked) -/
def nextTK (x : Inst) : Ev :=
  match x.t with
  | .notStarted => .kExit
  | .run => .tRet 0
  | .write _ => .tWrite
  | .pRead => .tPanicRead
  | .cas => .tCas (!x.flag)
  | .setTid => .tSetTid
  | .dropVal => .tDropVal
  | .freeTsm => .tFreeTsm
  | .freeTls => .tFreeTls
  | .freeBox => .tFreeBox
  | .munmap => .tMunmap
  | .exit => .tExit
  | .dead => .kExit

/-- **join never hangs**: while H is blocked in the futex wait of join or drop, the thread exists, its exit has
not been processed yet, and a step of T or K is enabled — the wait is never left without someone who will end it -/
theorem join_wait_has_waker (c : Cfg) (hc : c.Good) (s : St) (h : Reachable c s) (i : Nat)
    (hp : isParked (s.inst i).h = true) :
    (s.inst i).t ≠ .notStarted ∧ (s.inst i).kdone = false ∧ ∃ x', stepI c (s.inst i) (nextTK (s.inst i)) = some x' := by
  have inv := reachable_inv c hc s h i
  have hk := inv.parkedI hp
  have hsp : spawnedOk (s.inst i).h = true := by
    rcases isParked_cases _ hp with h1 | h1 <;> rw [h1] <;> rfl
  have hns : (s.inst i).t ≠ .notStarted := by
    intro h0; have := inv.started.mp h0; rw [hsp] at this; cases this
  refine ⟨hns, hk, ?_⟩
  obtain ⟨_, _, _, _, _, c6, c7, _, _, _⟩ := hc
  cases ht : (s.inst i).t <;> simp_all [nextTK, stepI]
  all_goals (first | exact ⟨_, rfl⟩ | ((repeat' split) <;> exact ⟨_, rfl⟩))

/-! ## tsm_layout_sound -/

/-- **tsm_layout_sound**: for every size and every power-of-two alignment of `UnsafeCell<Option<T>>` (zero-sized
to over-aligned) that fits the address space: the layout computation does not fail, the futex word is at offset 4,
size/align at 8/16, the value starts after them at the offset `value_offset` computes, properly aligned and inside
the block, the block's alignment is the largest field alignment and its size a multiple of it, and every field is
aligned at its absolute address whenever the allocator honours the block's alignment -/
theorem tsm_layout_sound (vSize k : Nat) (hfit : vSize + 2 * 2 ^ k + 64 < USIZE) :
    ∃ L voff, layoutTsm vSize (2 ^ k) = some L ∧ valueOffset (2 ^ k) = some voff ∧ LayoutOk vSize (2 ^ k) L voff :=
  layout_sound vSize k hfit

/-- an alignment of 0 (no Rust type has it) is reported, not silently totalised -/
theorem padding_zero_align_panics (b : Nat) : padding b 0 = none := by simp [padding]

/-! ## spawn_failure_is_error -/

def runI (c : Cfg) : Inst → List Ev → Option Inst
  | x, [] => some x
  | x, e :: rest =>
      match stepI c x e with
      | some x' => runI c x' rest
      | none => none

theorem runI_inv (c : Cfg) (hc : c.Good) (x x' : Inst) (es : List Ev) (h : runI c x es = some x') (hinv : IInv x) :
    IInv x' := by
  induction es generalizing x with
  | nil => simp [runI] at h; subst h; exact hinv
  | cons e rest ih =>
    simp only [runI] at h
    split at h
    · rename_i x1 h1; exact ih x1 h (stepI_inv c hc x x1 e h1 hinv)
    · simp at h

/-- **spawn_failure_is_error** (1): a handle exists exactly when a thread was created -/
theorem handle_iff_thread (c : Cfg) (hc : c.Good) (s : St) (h : Reachable c s) (i : Nat) :
    spawnedOk (s.inst i).h = true ↔ (s.inst i).t ≠ .notStarted := by
  have inv := reachable_inv c hc s h i
  constructor
  · intro hsp h0; have := inv.started.mp h0; rw [hsp] at this; cases this
  · intro hns
    cases hh : spawnedOk (s.inst i).h
    · exact absurd (inv.started.mpr hh) hns
    · rfl

/-- **spawn_failure_is_error** (2): when `clone` fails, spawn's only continuation releases tls, stack, closure
and shared block (each exactly once) and returns Err; no handle exists -/
theorem clone_failure_is_error (c : Cfg) (hc : c.Good) (s : St) (h : Reachable c s) (i : Nat)
    (hpc : (s.inst i).h = .sp4) :
    ∃ y, runI c (s.inst i) [.hClone false, .hUndoTls, .hUndoStack, .hUndoBox, .hUndoTsm] = some y ∧
      y.h = .failed true ∧ spawnedOk y.h = false ∧ y.t = .notStarted ∧ y.bad = false ∧
      y.tsm = .freed ∧ y.tls = .freed ∧ y.stack = .freed ∧ y.box = .freed ∧
      y.tsmFrees = 1 ∧ y.tlsFrees = 1 ∧ y.stackFrees = 1 ∧ y.boxFrees = 1 ∧ y.runs = 0 := by
  have inv := reachable_inv c hc s h i
  have hcc : c.checkClone = true := hc.1
  have hrun : ∃ y, runI c (s.inst i) [.hClone false, .hUndoTls, .hUndoStack, .hUndoBox, .hUndoTsm] = some y ∧
      y.h = .failed true := by
    simp [runI, stepI, hpc, hcc, freeTls, freeStack, freeBox, freeTsm, touchTsm]
  obtain ⟨y, hy, hyh⟩ := hrun
  have invy := runI_inv c hc _ y _ hy inv
  have ht : y.t = .notStarted := invy.started.mpr (by rw [hyh]; rfl)
  refine ⟨y, hy, hyh, by rw [hyh]; rfl, ht, invy.nbad, ?_, ?_, ?_, ?_, ?_, ?_, ?_, ?_, ?_⟩
  · rw [invy.tsmEq]; simp [tsmOf, hyh, hFreedTsm]
  · rw [invy.tlsEq]; simp [tlsOf, hyh, spawnedOk, tlsH]
  · rw [invy.stackEq]; simp [stackOf, hyh, spawnedOk, stackH]
  · rw [invy.boxEq]; simp [boxOf, hyh, spawnedOk, boxH]
  · rw [invy.tsmC, invy.tsmEq]; simp [tsmOf, hyh, hFreedTsm, cnt]
  · rw [invy.tlsC, invy.tlsEq]; simp [tlsOf, hyh, spawnedOk, tlsH, cnt]
  · rw [invy.stackC, invy.stackEq]; simp [stackOf, hyh, spawnedOk, stackH, cnt]
  · rw [invy.boxC, invy.boxEq]; simp [boxOf, hyh, spawnedOk, boxH, cnt]
  · rw [invy.runsI, ht]; rfl

/-- **spawn_failure_is_error** (3): when the stack `mmap` fails, spawn releases the closure and the shared block
and returns Err; nothing else had been set up -/
theorem mmap_failure_is_error (c : Cfg) (hc : c.Good) (s : St) (h : Reachable c s) (i : Nat)
    (hpc : (s.inst i).h = .sp2) :
    ∃ y, runI c (s.inst i) [.hMmap false, .hUndoBox, .hUndoTsm] = some y ∧
      y.h = .failed false ∧ spawnedOk y.h = false ∧ y.t = .notStarted ∧ y.bad = false ∧
      y.tsm = .freed ∧ y.tls = .unalloc ∧ y.stack = .unalloc ∧ y.box = .freed ∧
      y.tsmFrees = 1 ∧ y.boxFrees = 1 ∧ y.tlsFrees = 0 ∧ y.stackFrees = 0 := by
  have inv := reachable_inv c hc s h i
  have hcc : c.mmapCleanup = true := hc.2.1
  have hrun : ∃ y, runI c (s.inst i) [.hMmap false, .hUndoBox, .hUndoTsm] = some y ∧ y.h = .failed false := by
    simp [runI, stepI, hpc, hcc, freeBox, freeTsm, touchTsm]
  obtain ⟨y, hy, hyh⟩ := hrun
  have invy := runI_inv c hc _ y _ hy inv
  have ht : y.t = .notStarted := invy.started.mpr (by rw [hyh]; rfl)
  refine ⟨y, hy, hyh, by rw [hyh]; rfl, ht, invy.nbad, ?_, ?_, ?_, ?_, ?_, ?_, ?_, ?_⟩
  · rw [invy.tsmEq]; simp [tsmOf, hyh, hFreedTsm]
  · rw [invy.tlsEq]; simp [tlsOf, hyh, spawnedOk, tlsH]
  · rw [invy.stackEq]; simp [stackOf, hyh, spawnedOk, stackH]
  · rw [invy.boxEq]; simp [boxOf, hyh, spawnedOk, boxH]
  · rw [invy.tsmC, invy.tsmEq]; simp [tsmOf, hyh, hFreedTsm, cnt]
  · rw [invy.boxC, invy.boxEq]; simp [boxOf, hyh, spawnedOk, boxH, cnt]
  · rw [invy.tlsC, invy.tlsEq]; simp [tlsOf, hyh, spawnedOk, tlsH, cnt]
  · rw [invy.stackC, invy.stackEq]; simp [stackOf, hyh, spawnedOk, stackH, cnt]

/-! ## the defect of the code as it was (DESIGN §4 #20, #21), on the model of that code -/

/-- spawn.rs before commit ad01f67: `__clone`'s result ignored, `mmap(..)?` without clean-up, one-shot wait -/
def origCfg : Cfg := { genCfg with checkClone := false, mmapCleanup := false, recheck := false, spurious := false, loadSync := true }

def cloneFailTrace : List (Nat × Ev) :=
  [(0, .hAllocTsm), (0, .hBox), (0, .hMmap true), (0, .hAllocTls), (0, .hClone false),
   (0, .hJoin), (0, .hLoad 1), (0, .hFwait true)]

/-- (H's pc, spawn returned Ok, T's pc, futex word, live heap blocks, live mappings) after the trace -/
def cloneFailOutcome (c : Cfg) : Option (HPc × Bool × TPc × Nat × Nat × Nat) :=
  (run c St.init cloneFailTrace).map
    (fun s => ((s.inst 0).h, spawnedOk (s.inst 0).h, (s.inst 0).t, (s.inst 0).word, liveHeap (s.inst 0), liveMaps (s.inst 0)))

/-- **spawn_clone_fail_counterexample**: with the result of `__clone` ignored, a failed clone still yields
Ok(handle); `join` on it parks on a futex word that is 1 while no thread exists (nobody will ever clear it), and
tsm, tls, closure (3 heap blocks) and the stack mapping stay allocated -/
theorem spawn_clone_fail_counterexample :
    cloneFailOutcome origCfg = some (.wParked true, true, .notStarted, 1, 3, 1) := by decide

/-- the repaired code refuses that history: after the failed clone spawn does not return a handle -/
theorem fixed_code_rejects_clone_fail_trace : cloneFailOutcome genCfg = none := by decide

/-- a thread that was never created never starts: the park of the counterexample is for ever -/
theorem never_created_never_runs (c : Cfg) (x x' : Inst) (e : Ev) (h : stepI c x e = some x')
    (ht : x.t = .notStarted) (hh : spawnedOk x.h = true) : x'.t = .notStarted ∧ x'.kdone = x.kdone ∧ x'.word = x.word := by
  cases e <;> simp only [stepI] at h <;> (repeat' split at h) <;>
    first
    | (simp at h; done)
    | (simp only [Option.some.injEq] at h; subst h;
       simp_all [spawnedOk, touchTsm, touchTls, touchStack, touchBox, freeTsm, freeTls, freeStack, freeBox])

def mmapFailTrace : List (Nat × Ev) := [(0, .hAllocTsm), (0, .hBox), (0, .hMmap false)]

/-- (#21) as it was, a failed stack mmap returned Err but left the shared block and the boxed closure allocated -/
theorem spawn_mmap_fail_leak_counterexample :
    (run origCfg St.init mmapFailTrace).map (fun s => ((s.inst 0).h, liveHeap (s.inst 0))) = some (.failed false, 2) := by
  decide

/-! ## what the one-shot wait of the code before the repair depended on -/

/-- the code before the re-check loop, in an environment that behaves as the futex contract allows -/
def oneShotCfg : Cfg := { genCfg with recheck := false }

def fastPathTrace : List (Nat × Ev) :=
  [(0, .hAllocTsm), (0, .hBox), (0, .hMmap true), (0, .hAllocTls), (0, .hClone true),
   (0, .tRet 7), (0, .tWrite), (0, .tCas true), (0, .tFreeTls), (0, .tFreeBox), (0, .tMunmap), (0, .tExit), (0, .kExit),
   (0, .hJoin), (0, .hLoad 0), (0, .hReadSlot)]

def racedOf (c : Cfg) (tr : List (Nat × Ev)) : Option (Bool × Option (Option Nat)) :=
  (run c St.init tr).map (fun s => ((s.inst 0).raced, (s.inst 0).joinRes))

/-- with the one-shot `load(Relaxed)` the slot read was ordered after the slot write only by the hardware (TSO) -/
theorem relaxed_fast_path_needs_hw_ordering : racedOf oneShotCfg fastPathTrace = some (true, some (some 7)) := by decide
/-- the `Acquire` re-check of the repaired code orders it in the language-level model -/
theorem acquire_recheck_orders_fast_path : racedOf genCfg fastPathTrace = some (false, some (some 7)) := by decide

def spuriousTrace : List (Nat × Ev) :=
  [(0, .hAllocTsm), (0, .hBox), (0, .hMmap true), (0, .hAllocTls), (0, .hClone true),
   (0, .hJoin), (0, .hLoad 1), (0, .hFwait true), (0, .hSpur), (0, .hReadSlot)]

/-- the same spurious wake on the repaired code: H goes back to the load, sees 1, waits again -/
def spuriousTraceFixed : List (Nat × Ev) :=
  [(0, .hAllocTsm), (0, .hBox), (0, .hMmap true), (0, .hAllocTls), (0, .hClone true),
   (0, .hJoin), (0, .hLoad 1), (0, .hFwait true), (0, .hSpur), (0, .hLoad 1), (0, .hFwait true),
   (0, .tRet 9), (0, .tWrite), (0, .tCas true), (0, .tFreeTls), (0, .tFreeBox), (0, .tMunmap), (0, .tExit), (0, .kExit),
   (0, .hLoad 0), (0, .hReadSlot)]

/-- **spurious_wake_breaks_join** (the code before the repair): `futex_wait_fast` returns on Ok(()) without
re-reading the word, so a wake that is not the kernel's clear-tid wake lets join read the slot of a thread that is
still running — it returns None for a closure that has not finished, and then frees the block under the thread -/
theorem spurious_wake_breaks_join : racedOf oneShotCfg spuriousTrace = some (true, some none) := by decide
/-- the repaired code does not take that step (after the spurious return it is back at the load) ... -/
theorem recheck_refuses_early_read : racedOf genCfg spuriousTrace = none := by decide
/-- ... and completes the join correctly once the thread has exited -/
theorem recheck_survives_spurious_wake : racedOf genCfg spuriousTraceFixed = some (false, some (some 9)) := by decide

/-! ## non-vacuity -/

def fullJoinTrace : List (Nat × Ev) :=
  [(0, .hAllocTsm), (0, .hBox), (0, .hMmap true), (0, .hAllocTls), (0, .hClone true),
   (1, .hAllocTsm), (0, .hJoin), (0, .hLoad 1), (0, .hFwait true),
   (1, .hBox), (1, .hMmap true), (1, .hAllocTls), (1, .hClone true), (1, .tPanic),
   (0, .tRet 42), (0, .tWrite), (0, .tCas true), (0, .tFreeTls), (0, .tFreeBox), (0, .tMunmap), (0, .tExit), (0, .kExit),
   (0, .hLoad 0), (0, .hReadSlot), (0, .hFreeTsm),
   (1, .hDrop), (1, .hCas true), (1, .tPanicRead), (1, .tFreeTls), (1, .tCas false), (1, .tSetTid), (1, .tFreeTsm),
   (1, .tMunmap), (1, .tExit), (1, .kExit)]

/-- two threads live at once: one joined through the futex park (returns 42), one panicking and detached -/
example : (run genCfg St.init fullJoinTrace).map
    (fun s => ((s.inst 0).joinRes, complete (s.inst 0) && complete (s.inst 1) && (s.inst 1).panicked,
               (s.inst 0).bad || (s.inst 1).bad, liveHeap (s.inst 0) + liveHeap (s.inst 1) + liveMaps (s.inst 0) + liveMaps (s.inst 1))) =
    some (some (some 42), true, false, 1) := by decide
example : Reachable genCfg St.init := ⟨[], rfl⟩
example : genCfg.Good := gen_cfg_good
example : ∃ L voff, layoutTsm 0 (2 ^ 0) = some L ∧ valueOffset (2 ^ 0) = some voff ∧ L = ⟨24, 8⟩ ∧ voff = 24 :=
  ⟨_, _, by decide, by decide, rfl, rfl⟩
example : layoutTsm 128 64 = some ⟨192, 64⟩ ∧ valueOffset 64 = some 64 := by decide
example : layoutTsm 4097 1 = some ⟨4128, 8⟩ ∧ valueOffset 1 = some 24 := by decide

/-! ## thread topology: spawned threads as the handle side of other threads -/

/-- tie T: `set_tid_address` acts on the calling thread, so only code that runs on the spawned thread itself (its entry
closure, the panic handler's thread paths) may issue it; no path of `spawn`, `join` or `Drop::drop` — which run on the
thread that owns the handle, possibly itself a spawned thread — contains it (helper functions inlined) -/
def handleSideResetsTid : Bool :=
  joinPaths.any (has .set_tid_0) || dropPaths.any (has .set_tid_0) || spawnPaths.any (has .set_tid_0)

theorem gen_handle_side_never_resets_tid : handleSideResetsTid = false := by decide

/-- the topology parameters of the current source, for any ownership forest -/
def genTopo (owner : Nat → Option Nat) : Topo :=
  { owner := owner, hTidDrop := (lostP dropPaths).any (has .set_tid_0),
    hTidDealloc := joinPaths.any (has .set_tid_0) || (spawnPaths.filter (has .ret_err)).any (has .set_tid_0) }

theorem gen_topo_good (owner : Nat → Option Nat) : (genTopo owner).Good := by
  constructor <;> (simp only [genTopo]; decide)

def ReachableN (c : Cfg) (tp : Topo) (s : St) : Prop := ∃ evs, runN c tp St.init evs = some s

/-- with no handle-side `set_tid_address`, a step of a nested family is a step of the flat family: attributing the
handle side to the thread that executes it only *restricts* when its steps can happen (the owner must be inside its closure) -/
theorem stepN_is_step (c : Cfg) (tp : Topo) (htp : tp.Good) (s s' : St) (i : Nat) (e : Ev)
    (h : stepN c tp s i e = some s') : step c s i e = some s' := by
  obtain ⟨h1, h2⟩ := htp
  unfold stepN at h
  split at h
  · simp at h
  · split at h
    · simp at h
    · rename_i s1 hs1
      have hw : hWipes tp (s.inst i) e = false := by
        cases e <;> simp [hWipes, h1, h2]
      simp only [hw, Bool.false_eq_true, if_false, Option.some.injEq] at h
      rw [hs1, h]

theorem runN_is_run (c : Cfg) (tp : Topo) (htp : tp.Good) (s s' : St) (evs : List (Nat × Ev))
    (h : runN c tp s evs = some s') : run c s evs = some s' := by
  induction evs generalizing s with
  | nil => simpa [runN, run] using h
  | cons x rest ih =>
    obtain ⟨i, e⟩ := x
    simp only [runN] at h
    split at h
    · rename_i s1 h1
      simp only [run, stepN_is_step c tp htp s s1 i e h1]
      exact ih s1 h
    · simp at h

/-- **every nested family is a flat family**: whatever the ownership forest (any depth, any fan-out, threads that are
handle side and thread side at once), every state it can reach is reachable by the flat model — so every theorem of
C05 / C06 holds for nested families as it stands -/
theorem reachableN_reachable (c : Cfg) (tp : Topo) (htp : tp.Good) (s : St) (h : ReachableN c tp s) : Reachable c s := by
  obtain ⟨evs, h⟩ := h
  exact ⟨evs, runN_is_run c tp htp _ s evs h⟩

/-- **the clear-tid address of a spawned thread is its own exit word unless IT lost the hand-over**: in a nested family,
whatever handle-side work a thread has done for other instances (spawned them, had spawns fail, joined them, dropped
their handles early or late), its clear-tid address has been reset only if its own handle was dropped first — the
thread went (is going) through the lost-CAS branch of its own epilogue / panic handler -/
theorem clear_tid_intact_nested (c : Cfg) (hc : c.Good) (tp : Topo) (htp : tp.Good) (s : St) (h : ReachableN c tp s) (j : Nat)
    (hst : (s.inst j).t ≠ .notStarted) (hct : (s.inst j).ctid = false) :
    (s.inst j).winner = some .H ∧ (s.inst j).h = .detached := by
  have inv := reachable_inv c hc s (reachableN_reachable c tp htp s h) j
  have hw := inv.ctidW hst hct
  exact ⟨hw, inv.wH.mp hw⟩

/-- **join never hangs, nested**: while the thread that owns the handle of `i` — main or a spawned thread — is blocked in
the futex wait of join / drop, instance `i`'s thread exists, its exit has not been processed and a step of `i`'s thread
or of the kernel is enabled *in the nested family* (thread and kernel steps need nobody's permission) -/
theorem join_wait_has_waker_nested (c : Cfg) (hc : c.Good) (tp : Topo) (htp : tp.Good) (s : St) (h : ReachableN c tp s) (i : Nat)
    (hp : isParked (s.inst i).h = true) :
    (s.inst i).t ≠ .notStarted ∧ (s.inst i).kdone = false ∧ ∃ s', stepN c tp s i (nextTK (s.inst i)) = some s' := by
  obtain ⟨h1, h2, x', hx⟩ := join_wait_has_waker c hc s (reachableN_reachable c tp htp s h) i hp
  refine ⟨h1, h2, ?_⟩
  have hne : isHEv (nextTK (s.inst i)) = false := by
    unfold nextTK; cases (s.inst i).t <;> simp [isHEv]
  have hw : hWipes tp (s.inst i) (nextTK (s.inst i)) = false := by
    unfold nextTK; cases (s.inst i).t <;> simp [hWipes]
  simp [stepN, hne, step, hx, hw]

/-- and a thread that has exited with its clear-tid address intact is what ends the wait: the kernel's step is enabled
and it clears the word and wakes the parked owner -/
theorem exit_wakes_parked_owner (c : Cfg) (hc : c.Good) (tp : Topo) (htp : tp.Good) (s : St) (h : ReachableN c tp s) (i : Nat) (jn : Bool)
    (hp : (s.inst i).h = .wParked jn) (hd : (s.inst i).t = .dead) :
    (s.inst i).ctid = true ∧ ∃ s', stepN c tp s i .kExit = some s' ∧ (s'.inst i).word = 0 ∧ (s'.inst i).h = retTo c jn := by
  have hr := reachableN_reachable c tp htp s h
  have inv := reachable_inv c hc s hr i
  have hk : (s.inst i).kdone = false := inv.parkedI (by rw [hp]; rfl)
  have hct : (s.inst i).ctid = true := by
    cases hcc : (s.inst i).ctid
    · have := (clear_tid_intact_nested c hc tp htp s h i (by rw [hd]; simp) hcc).2
      rw [hp] at this; cases this
    · rfl
  refine ⟨hct, ?_⟩
  simp [stepN, isHEv, hWipes, step, stepI, hd, hk, hct, hp, setInst, touchTsm]

/-- the variants: a handle-side `set_tid_address(0)` — in `Drop for JoinHandle` (`hTidDrop`) or in `Tsm::dealloc`
(`hTidDealloc`) — executed by a SPAWNED thread resets that thread's own clear-tid address -/
def dropTidTopo : Topo := { owner := fun i => if i = 1 then some 0 else none, hTidDrop := true, hTidDealloc := false }
def deallocTidTopo : Topo := { dropTidTopo with hTidDrop := false, hTidDealloc := true }
def nestedTopo : Topo := genTopo (fun i => if i = 1 then some 0 else none)

def spawn01 : List (Nat × Ev) :=
  [(0, .hAllocTsm), (0, .hBox), (0, .hMmap true), (0, .hAllocTls), (0, .hClone true),
   (1, .hAllocTsm), (1, .hBox), (1, .hMmap true), (1, .hAllocTls), (1, .hClone true),
   (1, .tRet 3), (1, .tWrite), (1, .tCas true), (1, .tFreeTls), (1, .tFreeBox), (1, .tMunmap), (1, .tExit), (1, .kExit)]
def parentExits : List (Nat × Ev) :=
  [(0, .tRet 7), (0, .tWrite), (0, .tCas true), (0, .tFreeTls), (0, .tFreeBox), (0, .tMunmap), (0, .tExit), (0, .kExit)]
/-- thread 0 (spawned by main) spawns thread 1, drops its handle after it finished, returns; main joins thread 0 -/
def nestedDropLate : List (Nat × Ev) :=
  spawn01 ++ [(1, .hDrop), (1, .hCas false), (1, .hLoad 0), (1, .hFreeTsm)] ++ parentExits ++ [(0, .hJoin), (0, .hLoad 1), (0, .hFwait true)]
/-- ... joins thread 1 instead -/
def nestedJoin : List (Nat × Ev) :=
  spawn01 ++ [(1, .hJoin), (1, .hLoad 0), (1, .hReadSlot), (1, .hFreeTsm)] ++ parentExits ++ [(0, .hJoin), (0, .hLoad 1), (0, .hFwait true)]

/-- the outer thread after the history: main is parked in `join` on it, it has exited, the kernel has finished its exit, its
exit word is still 1, its join state is still allocated; the inner thread's execution is complete -/
def outerOf (tp : Topo) (tr : List (Nat × Ev)) : Option Bool :=
  (runN genCfg tp St.init tr).map (fun s => (s.inst 0).h == .wParked true && (s.inst 0).t == .dead && (s.inst 0).kdone &&
    (s.inst 0).word == 1 && (s.inst 0).tsm == .live && complete (s.inst 1))

/-- **caller_settid_breaks_join**: with the reset moved into `Drop for JoinHandle` (into `Tsm::dealloc`), a spawned
thread that drops the handle of a finished child (joins a child) wipes its own clear-tid address: it exits, the kernel
is done with it, its exit word is still 1, and main is parked on it in `join` with the join state still allocated -/
theorem caller_settid_breaks_join :
    outerOf dropTidTopo nestedDropLate = some true ∧ outerOf deallocTidTopo nestedJoin = some true ∧
    outerOf deallocTidTopo nestedDropLate = some true := by decide

/-- ... for ever: once the thread is gone and the kernel has finished its exit, no thread or kernel step is left for it -/
theorem no_waker_after_exit (c : Cfg) (x : Inst) (e : Ev) (ht : x.t = .dead) (hk : x.kdone = true) (he : isHEv e = false) :
    stepI c x e = none := by
  cases e <;> simp_all [stepI, isHEv]

/-- the source as it is refuses those histories (the kernel has cleared the word: main cannot park on it) and completes them -/
theorem current_code_nested_ok :
    outerOf nestedTopo nestedDropLate = none ∧ outerOf nestedTopo nestedJoin = none ∧
    (runN genCfg nestedTopo St.init
      (spawn01 ++ [(1, .hDrop), (1, .hCas false), (1, .hLoad 0), (1, .hFreeTsm)] ++ parentExits ++ [(0, .hJoin), (0, .hLoad 0), (0, .hReadSlot), (0, .hFreeTsm)])).map
      (fun s => (complete (s.inst 0) && complete (s.inst 1), (s.inst 0).joinRes, (s.inst 0).bad || (s.inst 1).bad, liveHeap (s.inst 0) + liveHeap (s.inst 1)))
      = some (true, some (some 7), false, 0) := by decide

/-- a handle-side step of a nested instance needs its owner inside its closure: before the owner exists, and after its
closure returned, the model refuses it (non-vacuity of the attribution) -/
example : runN genCfg nestedTopo St.init [(1, .hAllocTsm)] = none := by decide
example : (runN genCfg nestedTopo St.init (spawn01 ++ [(0, .tRet 7), (1, .hDrop)])).isNone = true := by decide
example : ReachableN genCfg nestedTopo St.init := ⟨[], rfl⟩

end TinyVerif.Thread
