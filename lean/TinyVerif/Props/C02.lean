/-
C02 — RwLock: writer exclusion, reader sharing, visibility, try_read/try_write — for every number of
threads, every reader/writer program mix and every schedule (incl. wake hand-off choices, spurious futex
returns, spurious weak-CAS failures, arbitrary/stale values observed by relaxed loads).

Model: `Model/RwLock.lean`; inductive invariant: `Proofs/RwInv.lean`, `Proofs/RwStep.lean` (one lemma per
program counter, `step_inv`).  Ties on every run of `bin/check C02`:
 * C: the real rwlock.rs runs under the deterministic scheduler shim and every trace must be accepted by
   `step` (driver `drv_c02`, which replays each RMW with the ordering the running code actually passed), with
   exclusion / try / deadlock / lost-update / livelock oracles on the implementation;
 * T (static): `Gen/SyncSites.lean` regenerated from rwlock.rs, every RMW of `state` with a *role* derived from
   what it does to the word (`acquire` = may raise the count field / set WRITE_LOCKED, `release` = `fetch_sub`,
   `keep` = provably leaves the count alone or zero).  Position-independent obligations: every acquiring RMW is
   Acquire or stronger, every releasing RMW Release or stronger, no plain store to `state`, the bit constants have
   the model's values, wait and wake use the same futex key kind.  The per-function site list is not pinned (C
   pins the operation sequence);
 * T (observed): `Gen/RwObs.lean` regenerated from the traces (orderings of the RMWs that returned a guard /
   began a guard's drop, spin budget, futex operation words of the real rusl::futex): must be good in any case,
   and is what the configuration rests on when the static table was not understood.

Wake-up: the reader-queue half is proved for every execution of the model (`rw_readers_no_lost_wakeup_partial`,
invariant `RQ2` in `Proofs/RwWake.lean`).  The writer-queue half is proved (`rw_writers_no_lost_wakeup_sc_partial`,
invariant `WQ` in `Proofs/RwWakeW.lean`) for the executions in which the two loads of `write_contended`'s hand-shake
(Acquire load of `writer_notify`, then the re-read of `state`) observe current values and `writer_notify` does not
wrap; every other load may still observe any value.  The derived no-deadlock statement is NOT proved: the full
statement is kept below as a comment (`rw_no_lost_wakeup`), the schedule exploration of the implementation with its
deadlock and livelock oracles is the supporting (not substituting) evidence.
-/
import TinyVerif.Model.RwLock
import TinyVerif.Proofs.RwStep
import TinyVerif.Proofs.RwWake
import TinyVerif.Proofs.RwWakeW
import TinyVerif.Gen.SyncSites
import TinyVerif.Gen.RwObs
set_option linter.unusedSimpArgs false
set_option linter.unusedVariables false
namespace TinyVerif.RwLock
open TinyVerif.Gen.Sync

/-! ## tie T: position-independent obligations on the regenerated site table and on the observation -/

def isAcq : Ord → Bool
  | .acquire | .acqrel | .seqcst => true
  | _ => false
def isRel : Ord → Bool
  | .release | .acqrel | .seqcst => true
  | _ => false

/-- the RMW sites of rwlock.rs on the lock word (the extractor gives the roles `acquire` / `release` / `keep` /
`both` only to RMWs of the lock word, which it identifies by what is done to it, not by its field name) -/
def stateSites : List Site :=
  rwlockSites.filter (fun s => s.role == "acquire" || s.role == "release" || s.role == "keep" || s.role == "both")
def needsAcq (s : Site) : Bool := s.role == "acquire" || s.role == "both"
def needsRel (s : Site) : Bool := s.role == "release" || s.role == "both"
def succOrd (s : Site) : Ord := s.ords.getD 0 .unknown

/-- the static table was understood: every atomic operation has literal (or aliased) orderings -/
def staticUnderstood : Bool :=
  rwlockSites.all (fun s => s.role == "wait" || s.role == "wake" || (!s.ords.isEmpty && s.ords.all (· != .unknown)))
/-- every RMW of `state` that may create a guard is Acquire or stronger (and there is one) -/
def staticAcqOk : Bool := stateSites.any needsAcq && stateSites.all (fun s => !needsAcq s || isAcq (succOrd s))
/-- every RMW of `state` that gives a guard up is Release or stronger (and there is one) -/
def staticRelOk : Bool := stateSites.any needsRel && stateSites.all (fun s => !needsRel s || isRel (succOrd s))
/-- both atomics are only ever written by RMWs -/
def noStore : Bool := rwlockSites.all (fun s => s.op != "store")

def obsAcqOk : Bool :=
  Gen.RwObs.observed.any (fun r => r.2.1 == "acquire") &&
  Gen.RwObs.observed.all (fun r => r.2.1 != "acquire" || isAcq r.2.2)
def obsRelOk : Bool :=
  Gen.RwObs.observed.any (fun r => r.2.1 == "release") &&
  Gen.RwObs.observed.all (fun r => r.2.1 != "release" || isRel r.2.2)

def constVal (n : String) : Option Nat := (rwConsts.find? (·.1 == n)).map (·.2)
/-- the bit layout of the model is the bit layout of rwlock.rs: the model's values all occur among the file's
constants, and each constant that still goes by its name has the model's value -/
def constsOk : Bool :=
  [1, MASK, MAX_READERS, RW, WW].all (fun v => rwConsts.any (·.2 == v)) &&
  (constVal "READ_LOCKED").all (· == 1) && (constVal "MASK").all (· == MASK) &&
  (constVal "WRITE_LOCKED").all (· == WRITE_LOCKED) && (constVal "MAX_READERS").all (· == MAX_READERS) &&
  (constVal "READERS_WAITING").all (· == RW) && (constVal "WRITERS_WAITING").all (· == WW)

def futexKeyOk : Bool :=
  Gen.RwObs.futexWaitPrivate == Gen.RwObs.futexWakePrivate &&
  (!futexKeyUnderstood || (futexWaitPrivate == Gen.RwObs.futexWaitPrivate && futexWakePrivate == Gen.RwObs.futexWakePrivate))

def genShapeOk : Bool := noStore && constsOk && futexKeyOk

theorem gen_shape_ok : genShapeOk = true := by decide

/-- the model configuration: a bit is set iff *all* RMWs of that kind are strong enough, in the observation and
(when understood) in the source -/
def genCfg : Cfg :=
  let a := obsAcqOk && (!staticUnderstood || staticAcqOk)
  let r := obsRelOk && (!staticUnderstood || staticRelOk)
  { readAcq := a, writeAcq := a, readRel := r, writeRel := r, spinMax := Gen.RwObs.spinBudget }

theorem gen_cfg_good : genCfg.Good := by decide

/-! ## reachability -/

def Reachable (c : Cfg) (s : St) : Prop := ∃ progs evs, run c (init progs) evs = some s

theorem run_inv (c : Cfg) (hc : c.Good) (s s' : St) (evs : List (Nat × Ev)) (h : run c s evs = some s')
    (hinv : RInv s) : RInv s' := by
  induction evs generalizing s with
  | nil => simp [run] at h; subst h; exact hinv
  | cons x rest ih =>
    obtain ⟨i, e⟩ := x
    simp only [run] at h
    split at h
    · rename_i s1 h1
      exact ih s1 h (step_inv c hc s s1 i e h1 hinv)
    · simp at h

theorem reachable_inv (c : Cfg) (hc : c.Good) (s : St) (h : Reachable c s) : RInv s := by
  obtain ⟨progs, evs, h⟩ := h
  exact run_inv c hc _ s evs h (init_inv progs)

/-! ## property theorems -/

/-- **a write guard excludes every other guard** -/
theorem rw_writer_excludes_all (c : Cfg) (hc : c.Good) (s : St) (h : Reachable c s) (i j : Nat)
    (hi : holdsW (s.ths i) = true) (hij : j ≠ i) : holdsW (s.ths j) = false ∧ holdsR (s.ths j) = false := by
  have inv := reachable_inv c hc s h
  constructor
  · cases hj : holdsW (s.ths j) with
    | false => rfl
    | true => exact absurd (inv.uniqW j i hj hi) hij
  · exact nR_zero_no_reader s inv (inv.noRW ⟨i, hi⟩) j

/-- **read guards coexist only with read guards** -/
theorem rw_readers_only_with_readers (c : Cfg) (hc : c.Good) (s : St) (h : Reachable c s) (i j : Nat)
    (hi : holdsR (s.ths i) = true) : holdsW (s.ths j) = false := by
  have inv := reachable_inv c hc s h
  cases hj : holdsW (s.ths j) with
  | false => rfl
  | true =>
    have := nR_zero_no_reader s inv (inv.noRW ⟨j, hj⟩) i
    rw [hi] at this; cases this

/-- the count field of `state` is exactly the number of read guards, or `WRITE_LOCKED` iff a write guard exists -/
theorem rw_state_counts_guards (c : Cfg) (hc : c.Good) (s : St) (h : Reachable c s) :
    (cnt s.state = WRITE_LOCKED ↔ ∃ i, holdsW (s.ths i) = true) ∧
    (cnt s.state ≠ WRITE_LOCKED → cnt s.state = nR s) := by
  have inv := reachable_inv c hc s h
  exact ⟨inv.wl, inv.cntR⟩

/-- **visibility**: no guarded access ever races: a write under a write guard happens-after every earlier
guarded access, a read under a read guard happens-after every earlier guarded write (needs Acquire on every
acquiring RMW and Release on both unlocks: `c.Good`, re-checked against the source by `gen_cfg_good`) -/
theorem rw_visibility (c : Cfg) (hc : c.Good) (s : St) (h : Reachable c s) : s.raced = false :=
  (reachable_inv c hc s h).nrace

/-- the asserts of `write_unlock` / `wake_writer_or_readers` (`is_unlocked(state)` after a writer leaves)
hold: after a write unlock the count field is 0 -/
theorem rw_write_unlock_leaves_unlocked (c : Cfg) (hc : c.Good) (s : St) (h : Reachable c s) (i : Nat)
    (hi : (s.ths i).pc = .unlock true) : cnt (wsub s.state WRITE_LOCKED) = 0 := by
  have inv := reachable_inv c hc s h
  have hw : holdsW (s.ths i) = true := by simp [holdsW, hi]
  have := inv.wl.mpr ⟨i, hw⟩
  have hlt := inv.lt32
  unfold wsub
  simp only [cnt, WRITE_LOCKED, RW, TWO32] at *
  omega

/-- **try_read / try_write never block**: from their load or CAS the only successors are another CAS
attempt, success, or failure — never a futex wait -/
theorem try_nonblocking (c : Cfg) (s s' : St) (i : Nat) (e : Ev) (w : Bool)
    (hpc : (s.ths i).pc = .tLoad w ∨ ∃ st, (s.ths i).pc = .tCas w st) (h : step c s i e = some s') :
    (∃ st, (s'.ths i).pc = .tCas w st) ∨ (s'.ths i).pc = .acquired w ∨ (s'.ths i).pc = .tryFailed := by
  cases w
  all_goals
  have key : ∀ (w : Bool) (b : Prop) [Decidable b] (x : Nat) (q : Pc), q = (if b then Pc.tCas w x else Pc.tryFailed) →
      (∃ st, q = .tCas w st) ∨ q = .acquired w ∨ q = .tryFailed := by
    intro w b _ x q hq
    subst hq
    split
    · left; exact ⟨_, rfl⟩
    · right; right; rfl
  unfold step at h
  by_cases hi : i ≥ s.n
  · simp [hi] at h
  · simp only [hi, if_false] at h
    rcases hpc with hpc | ⟨st, hpc⟩
    · simp only [hpc] at h
      unfold step_tLoad at h
      split at h
      · cases h
        simp only [setPc, setTh_ths_same]
        exact key _ _ _ _ rfl
      · simp at h
    · simp only [hpc] at h
      unfold step_tCas at h
      simp only [Bool.false_eq_true, if_false, if_true] at h
      split at h
      · rename_i exp new r
        cases r with
        | ok =>
          split at h
          · simp at h
          · simp only [] at h; cases h; right; left; simp [rmwState]
        | fail o =>
          split at h
          · simp at h
          · simp only [] at h; cases h
            simp only [setPc, setTh_ths_same]
            exact key _ _ _ _ rfl
        | spur o =>
          split at h
          · simp at h
          · simp only [] at h; cases h
            simp only [setPc, setTh_ths_same]
            exact key _ _ _ _ rfl
      · simp at h

/-- **try_write succeeds only when the lock is free, try_read only when no writer holds it**: the winning CAS
read a `state` that admits the request -/
theorem try_succeeds_only_if_admitted (c : Cfg) (hc : c.Good) (s s' : St) (i : Nat) (e : Ev) (w : Bool) (st : Nat)
    (hr : Reachable c s) (hpc : (s.ths i).pc = .tCas w st) (h : step c s i e = some s')
    (hok : (s'.ths i).pc = .acquired w) :
    (∀ j, holdsW (s.ths j) = false) ∧ (w = true → ∀ j, holdsR (s.ths j) = false) := by
  have inv := reachable_inv c hc s hr
  have hwf := inv.pcwf i; rw [hpc] at hwf; simp only [PcWf] at hwf
  cases w
  all_goals
  have keyf : ∀ (w : Bool) (b : Prop) [Decidable b] (x : Nat), (if b then Pc.tCas w x else Pc.tryFailed) ≠ .acquired w := by
    intro w b _ x; split <;> simp
  unfold step at h
  by_cases hi : i ≥ s.n
  · simp [hi] at h
  · simp only [hi, if_false, hpc] at h
    unfold step_tCas at h
    simp only [Bool.false_eq_true, if_false, if_true] at h hwf
    split at h
    · rename_i exp new r
      cases r with
      | ok =>
        split at h
        · simp at h
        · rename_i hcond
          simp only [not_or, Decidable.not_not, Bool.not_eq_true', Bool.not_eq_false', Bool.not_eq_false] at hcond
          obtain ⟨he, hn, hcc⟩ := hcond
          simp only [casConsistent, beq_iff_eq] at hcc
          subst he
          rw [← hcc] at hwf
          first
          | (obtain ⟨h1, _, _⟩ := (readLockable_iff _).mp hwf
             have hnwl : cnt s.state ≠ WRITE_LOCKED := by simp only [cnt, RW, WRITE_LOCKED]; omega
             exact ⟨no_writer_of_cnt s inv hnwl, by intro hh; cases hh⟩)
          | (have hu := (unlocked_iff _).mp hwf
             have hnwl : cnt s.state ≠ WRITE_LOCKED := by simp only [cnt, RW, WRITE_LOCKED]; omega
             have hc0 := inv.cntR hnwl
             have h0 : nR s = 0 := by simp only [cnt, RW] at hc0; omega
             exact ⟨no_writer_of_cnt s inv hnwl, fun _ => nR_zero_no_reader s inv h0⟩)
      | fail o =>
        split at h
        · simp at h
        · simp only [] at h; cases h
          simp only [setPc, setTh_ths_same] at hok
          exact absurd hok (keyf _ _ _)
      | spur o =>
        split at h
        · simp at h
        · simp only [] at h; cases h
          simp only [setPc, setTh_ths_same] at hok
          exact absurd hok (keyf _ _ _)
    · simp at h

/-! ## wake-up: the reader queue (proved) and the writer queue (not proved) -/

theorem run_rq (c : Cfg) (hc : c.Good) (s s' : St) (evs : List (Nat × Ev)) (h : run c s evs = some s')
    (hinv : RInv s) (hq : RQ2 s) : RQ2 s' := by
  induction evs generalizing s with
  | nil => simp [run] at h; subst h; exact hq
  | cons x rest ih =>
    obtain ⟨i, e⟩ := x
    simp only [run] at h
    split at h
    · rename_i s1 h1
      exact ih s1 h (step_inv c hc s s1 i e h1 hinv) (step_rq c s s1 i e h1 hinv hq)
    · simp at h

/-- **no lost wake-up for readers** (partial wake-up result): in every reachable state, whenever a reader is
parked on `state`, the readers-waiting bit is still set in the lock word — so the thread that makes the word
unlocked sees it and runs `wake_writer_or_readers` — or a thread is already about to issue the wake-all.  And a
reader only ever sleeps on an expected value that carries the bit. -/
theorem rw_readers_no_lost_wakeup_partial (c : Cfg) (hc : c.Good) (s : St) (h : Reachable c s)
    (hp : ∃ i, parkedOn (s.ths i) 0 = true) :
    hasRW s.state = true ∨ ∃ j, (s.ths j).pc = .kWakeR := by
  obtain ⟨progs, evs, h⟩ := h
  exact (run_rq c hc _ s evs h (init_inv progs) (init_rq2 progs)).rq hp

/-! ### the writer queue, for hand-shake loads that observe current values -/

theorem runW_run (c : Cfg) (s s' : St) (evs : List (Nat × Ev)) (h : runW c s evs = some s') : run c s evs = some s' := by
  induction evs generalizing s with
  | nil => simpa [runW, run] using h
  | cons x rest ih =>
    obtain ⟨i, e⟩ := x
    simp only [runW] at h
    split at h
    · rename_i s1 h1
      simp only [run, stepW_step c s s1 i e h1]
      exact ih s1 h
    · simp at h

theorem runW_wq (c : Cfg) (hc : c.Good) (s s' : St) (evs : List (Nat × Ev)) (h : runW c s evs = some s')
    (hinv : RInv s) (hq : WQ s) : WQ s' := by
  induction evs generalizing s with
  | nil => simp [runW] at h; subst h; exact hq
  | cons x rest ih =>
    obtain ⟨i, e⟩ := x
    simp only [runW] at h
    split at h
    · rename_i s1 h1
      exact ih s1 h (step_inv c hc s s1 i e (stepW_step c s s1 i e h1) hinv) (step_wq c s s1 i e h1 hinv hq)
    · simp at h

/-- reachable by steps in which the load of `writer_notify` that samples the sequence number and the following re-read
of `state` (both in `write_contended`) return the current value, and `writer_notify` stays below 2^32 -/
def ReachableW (c : Cfg) (s : St) : Prop := ∃ progs evs, runW c (init progs) evs = some s

theorem ReachableW.reachable {c : Cfg} {s : St} (h : ReachableW c s) : Reachable c s := by
  obtain ⟨progs, evs, h⟩ := h
  exact ⟨progs, evs, runW_run c _ s evs h⟩

/-- **no lost wake-up for writers** (partial: see `ReachableW`): whenever a writer is parked on `writer_notify`,
the writers-waiting bit is still set in the lock word (so whoever makes the word unlocked runs
`wake_writer_or_readers`), or a `wake_writer` is already under way (`writer_notify` about to be bumped, or the
futex wake about to be issued), or an awake writer exists that carries `other_writers_waiting = true` and puts the
bit back when it takes the lock.  And a writer that is about to sleep, or sleeps, on the *current* value of
`writer_notify` is covered by the bit or by a `wake_writer` that has not bumped the counter yet
(`rw_writer_sleeps_covered`). -/
theorem rw_writers_no_lost_wakeup_sc_partial (c : Cfg) (hc : c.Good) (s : St) (h : ReachableW c s)
    (hp : ∃ i, parkedOn (s.ths i) 1 = true) :
    hasWW s.state = true ∨ (∃ j, pendW (s.ths j).pc = true) ∨ (∃ j, owing (s.ths j).pc = true) := by
  obtain ⟨progs, evs, h⟩ := h
  obtain ⟨i, hi⟩ := hp
  rw [parkedOn1_eq] at hi
  exact (runW_wq c hc _ s evs h (init_inv progs) (init_wq progs)).park ⟨i, hi⟩

theorem rw_writer_sleeps_covered (c : Cfg) (hc : c.Good) (s : St) (h : ReachableW c s) (i : Nat)
    (hp : preSleep (s.ths i).pc = some s.notify) :
    hasWW s.state = true ∨ ∃ k, pendA (s.ths k).pc = true := by
  obtain ⟨progs, evs, h⟩ := h
  exact (runW_wq c hc _ s evs h (init_inv progs) (init_wq progs)).pre i s.notify hp rfl

/-- non-vacuity: a restricted execution that ends with a writer parked on `writer_notify` (and the bit set) -/
def parkTrace : List (Nat × Ev) :=
  [(0, .call .write), (0, .cas 0 true 0 WRITE_LOCKED .ok), (0, .acq),
   (1, .call .write), (1, .cas 0 true 0 WRITE_LOCKED (.fail WRITE_LOCKED)), (1, .load 0 WRITE_LOCKED),
   (1, .cas 0 false WRITE_LOCKED (WRITE_LOCKED + WW) .ok), (1, .load 1 0), (1, .load 0 (WRITE_LOCKED + WW)),
   (1, .load 1 0), (1, .fwait 1 0 true)]

example : (runW { genCfg with spinMax := 0 } (init [[⟨.write, 0⟩], [⟨.write, 0⟩]]) parkTrace).map
    (fun s => parkedOn (s.ths 1) 1 && hasWW s.state && preSleep (s.ths 1).pc == some s.notify) = some true := by decide

/-- why the restriction: with a *stale* re-read of `state` after the sequence number was sampled (which the
Acquire load of `writer_notify` forbids in the real memory model, and `stepW` excludes) the unrestricted model
reaches a state with a writer asleep on the current `writer_notify`, the word 0 and nobody left to wake it -/
def staleTrace : List (Nat × Ev) :=
  [(0, .call .write), (0, .cas 0 true 0 WRITE_LOCKED .ok), (0, .acq),
   (1, .call .write), (1, .cas 0 true 0 WRITE_LOCKED (.fail WRITE_LOCKED)), (1, .load 0 WRITE_LOCKED),
   (1, .cas 0 false WRITE_LOCKED (WRITE_LOCKED + WW) .ok),
   (0, .rel), (0, .fsub 0 WRITE_LOCKED (WRITE_LOCKED + WW)), (0, .cas 0 false WW 0 .ok), (0, .fadd 1 1 0), (0, .fwake 1 1 []),
   (1, .load 1 1), (1, .load 0 (WRITE_LOCKED + WW)), (1, .load 1 1), (1, .fwait 1 1 true)]

theorem writer_half_needs_current_state_load :
    (run { genCfg with spinMax := 0 } (init [[⟨.write, 0⟩], [⟨.write, 0⟩]]) staleTrace).map
      (fun s => parkedOn (s.ths 1) 1 && s.state == 0 && (s.ths 0).pc == .idle) = some true := by decide
theorem stale_trace_not_in_restricted_relation :
    runW { genCfg with spinMax := 0 } (init [[⟨.write, 0⟩], [⟨.write, 0⟩]]) staleTrace = none := by decide

/-
`rw_no_lost_wakeup` (full statement kept; the reader half and, under `ReachableW`, the writer half are proved):
  Reachable c s →
    ((∃ i, parkedOn (s.ths i) 0) → hasRW s.state ∨ ∃ j, (s.ths j).pc = .kWakeR)                       -- proved
    ∧ ((∃ i, parkedOn (s.ths i) 1) → hasWW s.state ∨ (∃ j, wake pending at j) ∨ ∃ j, awake writer contender j)  -- proved for ReachableW only
  and hence: whenever a thread is parked some other thread can step (`rw_no_deadlock`)                  -- NOT proved
For all of `Reachable` the writer half needs the release/acquire argument on `writer_notify` (sequence sampled with
Acquire before the relaxed re-read of `state`), i.e. a model in which relaxed loads of `state` are bounded by the
thread's view; the present model lets a relaxed load observe any value, under which the writer half is false
(`ReachableW` restricts exactly those two loads to current values = the sequentially consistent reading of them).
-/

/-! ## the orderings are necessary: model-level races with a weakened ordering -/

def badRel : Cfg := { genCfg with writeRel := false }
def badAcq : Cfg := { genCfg with readAcq := false }

def raceTrace : List (Nat × Ev) :=
  [(0, .call .write), (0, .cas 0 true 0 WRITE_LOCKED .ok), (0, .acq), (0, .data), (0, .rel),
   (0, .fsub 0 WRITE_LOCKED WRITE_LOCKED),
   (1, .call .read), (1, .load 0 0), (1, .cas 0 true 0 1 .ok), (1, .acq), (1, .data)]

def racedOf (c : Cfg) : Option Bool :=
  (run c (init [[⟨.write, 1⟩], [⟨.read, 1⟩]]) raceTrace).map (·.raced)

theorem relaxed_write_unlock_races : racedOf badRel = some true := by decide
theorem relaxed_read_acquire_races : racedOf badAcq = some true := by decide
theorem good_cfg_same_trace_no_race : racedOf genCfg = some false := by decide

/-! ## the defect repaired by /repo commit "fix: try_read/try_write compute the new lock word lazily":
`bool::then_some(s + READ_LOCKED)` evaluated the sum even for a non-lockable `s`; with both waiting bits set on a
write-locked word the u32 addition overflows (debug builds panic).  The model mirrors the repaired, lazy code. -/

theorem old_try_read_eager_add_overflows :
    isReadLockable (WRITE_LOCKED + RW + WW) = false ∧ WRITE_LOCKED + RW + WW + 1 = TWO32 := by decide
theorem old_try_write_eager_add_overflows :
    isUnlocked (1 + RW + WW) = false ∧ 1 + RW + WW + WRITE_LOCKED = TWO32 := by decide

/-! ## non-vacuity -/

/-- two readers hold the lock at once (reader sharing is reachable) -/
def twoReaders : Option (Nat × Bool × Bool) :=
  (run genCfg (init [[⟨.read, 0⟩], [⟨.read, 0⟩]])
    [(0, .call .read), (0, .load 0 0), (0, .cas 0 true 0 1 .ok),
     (1, .call .read), (1, .load 0 1), (1, .cas 0 true 1 2 .ok)]).map
    (fun s => (s.state, holdsR (s.ths 0), holdsR (s.ths 1)))

example : twoReaders = some (2, true, true) := by decide

/-- a reachable state with a reader parked on `state` while a writer holds the lock and the RW bit is set -/
def parkedReader : Option (Bool × Bool × Bool) :=
  (run { genCfg with spinMax := 0 } (init [[⟨.write, 0⟩], [⟨.read, 0⟩]])
    [(0, .call .write), (0, .cas 0 true 0 WRITE_LOCKED .ok),
     (1, .call .read), (1, .load 0 WRITE_LOCKED), (1, .load 0 WRITE_LOCKED),
     (1, .cas 0 false WRITE_LOCKED (WRITE_LOCKED + RW) .ok), (1, .load 0 (WRITE_LOCKED + RW)),
     (1, .fwait 0 (WRITE_LOCKED + RW) true)]).map
    (fun s => (parkedOn (s.ths 1) 0, hasRW s.state, holdsW (s.ths 0)))

example : parkedReader = some (true, true, true) := by decide
example : Reachable genCfg (init [[⟨.write, 1⟩]]) := ⟨[[⟨.write, 1⟩]], [], rfl⟩
example : genCfg.Good := gen_cfg_good

end TinyVerif.RwLock
