/-
C07 — a program started through tiny-std's entry point observes exactly the argument vector, environment
block and auxiliary values the kernel passed, in every link mode; environment lookup returns the value of
the first entry whose name equals the key exactly.

Models: Model/Start.lean (resolve, from_auxv, relocate_symbols, `ArgsOs::next` / `Args::next` — AS WRITTEN) and
Model/Env.lean (var / var_unix after the `fix:` commit 10a4869; the argument iterators as stateful objects:
`core`'s default `nth` / `skip` / `step_by` / `fold` / `count` / `last` bodies over that `next`, and `len` /
`size_hint` as overridden after the `fix:` commit d3e06ee; `Env.Legacy` = the bodies before either fix).  Helper lemmas: Proofs/StartLemmas.lean, Proofs/EnvLemmas.lean,
Proofs/ArgsIterLemmas.lean.  Observed only (no theorem): the `_start` assembly, the vDSO
symbol lookup and the vDSO clock's agreement with the system call (checks/c07.py).

The three link modes differ, for this code, only in the gate of `relocate_symbols`:
  static        `_DYNAMIC` = 0                    → no relocation   (`relocate_skipped`)
  dynamic PIE   AT_BASE ≠ 0 (ld.so did the work)  → no relocation   (`relocate_skipped`)
  static PIE    `_DYNAMIC` ≠ 0 ∧ AT_BASE = 0      → `relocate_exact`
-/
import TinyVerif.Proofs.StartLemmas
import TinyVerif.Proofs.EnvLemmas
import TinyVerif.Proofs.ArgsIterLemmas
namespace TinyVerif.C07
open TinyVerif.Start TinyVerif.Env

/-! ## resolve: argc / argv / envp / auxv -/

/-- On every memory that holds an ABI-conformant initial stack at `sp` (any argv incl. none, empty strings,
arbitrary non-NUL bytes; any environment block; any aux vector, duplicates included), `resolve` returns
`argc = argv.length`, `argv = sp+8`, `envp = sp+8+8*argc+8`, the aux values in which the LAST listed value
of each of the ten kept keys wins (0 when the key is absent; keys outside the ten, incl. all keys > 51, are
ignored), and the memory `relocate_symbols` leaves.  No fault, no overflow panic, fuel suffices. -/
theorem resolve_exact {m : Mem} {sp : Nat} {argv env : List Bytes} {aux : List (Nat × Nat)} {aptrs eptrs : List Nat}
    (h : StackAt m sp argv env aux aptrs eptrs) (dynv fuel : Nat) (hf : env.length < fuel ∧ aux.length < fuel) :
    resolve m sp dynv fuel =
        (relocateSymbols m dynv (auxOf aux) fuel).bind (fun m' => .ok (envOf sp argv.length, auxOf aux, m')) ∧
      ∀ key ∈ keptKeys, (auxOf aux).get key = auxLast aux key := by
  refine ⟨resolve_eq h dynv fuel hf, fun key hkey => ?_⟩
  unfold auxOf auxLast
  rw [get_fold key hkey aux AuxValues.zeroed]
  have : AuxValues.zeroed.get key = 0 := by
    simp only [keptKeys, List.mem_cons, List.not_mem_nil, or_false] at hkey
    rcases hkey with h | h | h | h | h | h | h | h | h | h <;> subst h <;> rfl
  rw [this]

/-- static and dynamic-PIE starts: `relocate_symbols` does nothing, `resolve` returns the memory unchanged -/
theorem relocate_skipped (m : Mem) (dynv : Nat) (aux : AuxValues) (fuel : Nat)
    (h : dynv = 0 ∨ aux.at_base ≠ 0) : relocateSymbols m dynv aux fuel = .ok m := by
  unfold relocateSymbols
  rcases h with h | h
  · simp [h]
  · by_cases hd : dynv = 0 <;> simp [hd, h]

theorem resolve_exact_no_reloc {m : Mem} {sp : Nat} {argv env : List Bytes} {aux : List (Nat × Nat)} {aptrs eptrs : List Nat}
    (h : StackAt m sp argv env aux aptrs eptrs) (dynv fuel : Nat) (hf : env.length < fuel ∧ aux.length < fuel)
    (hmode : dynv = 0 ∨ auxLast aux AT_BASE ≠ 0) :
    resolve m sp dynv fuel = .ok (envOf sp argv.length, auxOf aux, m) := by
  obtain ⟨h1, h2⟩ := resolve_exact h dynv fuel hf
  have hb : (auxOf aux).at_base = auxLast aux AT_BASE := h2 AT_BASE (by simp [keptKeys])
  rw [h1, relocate_skipped m dynv _ fuel (by rw [hb]; exact hmode)]
  rfl

/-- the pointers `resolve` returned lead the argument iterator to exactly `argv`, in order, and the
environment walk (`env_ptr.read()` until NULL, `UnixStr::from_ptr`) to exactly `env` — on ANY memory `m'`
that still holds the stack (the unrelocated memory, or the relocated one when no relocation target lies in
the stack) -/
theorem args_iter_exact {m : Mem} {sp : Nat} {argv env : List Bytes} {aux : List (Nat × Nat)} {aptrs eptrs : List Nat}
    (h : StackAt m sp argv env aux aptrs eptrs) (fuel k : Nat)
    (hf : ∀ s ∈ argv, s.length < fuel) (hk : argv.length < k) :
    let e := envOf sp argv.length
    (argsOs e).len = argv.length ∧
    collectOs m e fuel k (argsOs e) = .ok argv ∧
    collectArgs m e fuel k (argsOs e) = .ok (argv.map asStr) := by
  obtain ⟨_, h2, _, _⟩ := stack_parts h
  have hl := StrsAt_length m aptrs argv h.astrs
  have hos : collectOs m (envOf sp argv.length) fuel k (argsOs (envOf sp argv.length)) = .ok argv :=
    collectOs_eq m (envOf sp argv.length) fuel argv.length aptrs argv 0 k (by simpa [envOf] using h2) h.astrs h.aptrs_ne
      (fun s hs => ⟨h.argv_nul_free s hs, hf s hs⟩) (by omega) (by simp [envOf]) (by omega)
  refine ⟨rfl, hos, ?_⟩
  rw [collectArgs_eq, hos]; rfl

theorem env_walk_exact {m : Mem} {sp : Nat} {argv env : List Bytes} {aux : List (Nat × Nat)} {aptrs eptrs : List Nat}
    (h : StackAt m sp argv env aux aptrs eptrs) (fuel k : Nat)
    (hf : ∀ s ∈ env, s.length < fuel) (hk : env.length < k) :
    envWalk m fuel k (envOf sp argv.length).envp = .ok env := by
  obtain ⟨_, _, h3, _⟩ := stack_parts h
  have hl := StrsAt_length m eptrs env h.estrs
  exact envWalk_eq m fuel eptrs env _ k h3 h.estrs h.eptrs_ne (fun s hs => ⟨h.env_nul_free s hs, hf s hs⟩)
    (by simp [envOf]; omega) (by omega)

/-- UTF-8 validity alone decides `Ok` / `Err` per element of `args()` -/
theorem args_item (s : Bytes) : asStr s = if utf8Valid s then .ok s else .err := rfl

/-! ## the kernel's image itself -/

/-- `buildStack sp argv env aux` (argc, argv pointers, NULL, envp pointers, NULL, auxv pairs, AT_NULL, then the
strings) satisfies `StackAt` for EVERY argv / env / aux vector that fits the address space -/
theorem buildStack_stack_at (sp : Nat) (argv env : List Bytes) (aux : List (Nat × Nat))
    (hsp : sp + (buildStack sp argv env aux).length < W64)
    (haux : ∀ kv ∈ aux, kv.1 ≠ 0 ∧ kv.1 < W64 ∧ kv.2 < W64)
    (ha : ∀ s ∈ argv, 0 ∉ s) (he : ∀ s ∈ env, 0 ∉ s) :
    StackAt (memOf sp (buildStack sp argv env aux)) sp argv env aux
      (ptrsFrom (sp + 8 * nWords argv env aux) argv)
      (ptrsFrom (sp + 8 * nWords argv env aux + (strBytes argv).length) env) :=
  buildStack_wf sp argv env aux hsp haux ha he

/-- end to end on the ABI image, static or dynamic-PIE start: `resolve` returns argc = |argv|, the aux values with
the last listed value per kept key, the memory untouched; the argument iterator then yields exactly `argv` and the
environment walk exactly `env` -/
theorem startup_exact (sp : Nat) (argv env : List Bytes) (aux : List (Nat × Nat)) (dynv fuel k : Nat)
    (hsp : sp + (buildStack sp argv env aux).length < W64)
    (haux : ∀ kv ∈ aux, kv.1 ≠ 0 ∧ kv.1 < W64 ∧ kv.2 < W64)
    (ha : ∀ s ∈ argv, 0 ∉ s) (he : ∀ s ∈ env, 0 ∉ s)
    (hmode : dynv = 0 ∨ auxLast aux AT_BASE ≠ 0)
    (hf : env.length < fuel ∧ aux.length < fuel ∧ (∀ s ∈ argv, s.length < fuel) ∧ (∀ s ∈ env, s.length < fuel))
    (hk : argv.length < k ∧ env.length < k) :
    let m := memOf sp (buildStack sp argv env aux)
    let e := envOf sp argv.length
    resolve m sp dynv fuel = .ok (e, auxOf aux, m) ∧
    (∀ key ∈ keptKeys, (auxOf aux).get key = auxLast aux key) ∧
    collectOs m e fuel k (argsOs e) = .ok argv ∧
    collectArgs m e fuel k (argsOs e) = .ok (argv.map asStr) ∧
    envWalk m fuel k e.envp = .ok env := by
  have h := buildStack_stack_at sp argv env aux hsp haux ha he
  obtain ⟨_, ha2, ha3⟩ := args_iter_exact h fuel k hf.2.2.1 hk.1
  exact ⟨resolve_exact_no_reloc h dynv fuel ⟨hf.1, hf.2.1⟩ hmode, (resolve_exact h dynv fuel ⟨hf.1, hf.2.1⟩).2,
    ha2, ha3, env_walk_exact h fuel k hf.2.2.2 hk.2⟩

/-! ## static-PIE self relocation -/

/-- `DynSection::relocate(base)` under the ELF well-formedness hypothesis `RelocWF` (tables where .dynamic says,
every R_RELATIVE target a mapped word outside the tables, targets pairwise distinct, no address overflow):
every RELATIVE REL target holds old + base, every RELATIVE RELA target holds base + addend, every byte outside
the targets is unchanged; no fault, no overflow panic. -/
theorem relocate_exact {m : Mem} {base : Nat} {d : DynSection} {rels : List RelEnt} {relas : List RelaEnt}
    (wf : RelocWF m base d rels relas) :
    ∃ m', relocate m d base = .ok m' ∧
      (∀ e ∈ rels, e.info = R_RELATIVE → ∀ old, rd64 m (base + e.off) = .ok old → rd64 m' (base + e.off) = .ok (old + base)) ∧
      (∀ e ∈ relas, e.info = R_RELATIVE → rd64 m' (base + e.off) = .ok (base + e.addend)) ∧
      (∀ x, (∀ e ∈ rels, e.info = R_RELATIVE → x < base + e.off ∨ base + e.off + 8 ≤ x) →
            (∀ e ∈ relas, e.info = R_RELATIVE → x < base + e.off ∨ base + e.off + 8 ≤ x) → m' x = m x) :=
  relocate_correct wf

/-- `init_from_dynv`: the last DT_REL / DT_RELSZ / DT_RELA / DT_RELASZ entry before DT_NULL wins, others ignored -/
theorem init_from_dynv_exact (m : Mem) (dynv fuel : Nat) (dyn : List (Nat × Nat))
    (hw : WordsAt m dynv (auxFlat dyn ++ [0, 0])) (hne : ∀ kv ∈ dyn, kv.1 ≠ 0) (hf : dyn.length < fuel) :
    initFromDynv m dynv fuel = .ok (dynOf dyn) := initFromDynv_eq m dynv fuel dyn hw hne hf

/-- The PT_DYNAMIC scan AS WRITTEN looks at the program headers 1 … ph_num-1 only (`hs`, located from
`at_phdr + phent` on); header 0 is never examined.  It yields `dynv - p_vaddr` of the first PT_DYNAMIC among
those, `none` (base stays 0) when there is none. -/
theorem find_base_scan (m : Mem) (dynv phent phdr : Nat) (hs : List (Nat × Nat))
    (hat : PhdrsAt m phent (phdr + phent) hs) (hlt : phdr + phent * hs.length < W64)
    (hva : ∀ va, firstDyn hs = some va → va ≤ dynv) :
    findBaseLoop m dynv phent hs.length phdr = .ok ((firstDyn hs).map (dynv - ·)) :=
  findBaseLoop_eq m dynv phent hs phdr hat hlt hva

/-- … hence the scan finds THE PT_DYNAMIC header of the table `h0 :: hs` exactly under the hypothesis
"PT_DYNAMIC is not the first program header" (true of every layout the probes' linker produces: PT_PHDR or a
PT_LOAD comes first; checked on the probes by checks/c07.py) -/
theorem find_base_exact (m : Mem) (dynv phent phdr : Nat) (h0 : Nat × Nat) (hs : List (Nat × Nat))
    (hfirst : h0.1 ≠ PT_DYNAMIC)
    (hat : PhdrsAt m phent (phdr + phent) hs) (hlt : phdr + phent * hs.length < W64)
    (hva : ∀ va, firstDyn hs = some va → va ≤ dynv) :
    findBaseLoop m dynv phent (h0 :: hs).length.pred phdr = .ok ((firstDyn (h0 :: hs)).map (dynv - ·)) := by
  simp only [List.length_cons, Nat.pred_succ, firstDyn, if_neg hfirst]
  exact findBaseLoop_eq m dynv phent hs phdr hat hlt hva

/-- without that hypothesis the scan is wrong: a table whose only PT_DYNAMIC header is the first one
(`p_type = 2`, `p_vaddr = 0x100` at address 64, one more header of type 1 behind it) yields no base -/
example :
    let img : Bytes := le 4 2 ++ le 4 0 ++ le 8 0 ++ le 8 256 ++ List.replicate 32 0 ++
                       le 4 1 ++ le 4 0 ++ le 8 0 ++ le 8 0 ++ List.replicate 32 0
    findBaseLoop (memOf 64 img) 4096 56 1 64 = .ok none := by decide

/-- `relocate_symbols` in a static-PIE start (`_DYNAMIC ≠ 0`, AT_BASE = 0, at least one header) is exactly
`relocate` with the `.dynamic` summary and the base found by the scan -/
theorem relocate_symbols_static_pie (m : Mem) (dynv fuel : Nat) (aux : AuxValues) (hs : List (Nat × Nat))
    (dyn : List (Nat × Nat)) (hd : dynv ≠ 0) (hb : aux.at_base = 0) (hn : aux.at_phnum = hs.length + 1)
    (hat : PhdrsAt m aux.at_phent (aux.at_phdr + aux.at_phent) hs) (hlt : aux.at_phdr + aux.at_phent * hs.length < W64)
    (hva : ∀ va, firstDyn hs = some va → va ≤ dynv)
    (hw : WordsAt m dynv (auxFlat dyn ++ [0, 0])) (hne : ∀ kv ∈ dyn, kv.1 ≠ 0) (hf : dyn.length < fuel) :
    relocateSymbols m dynv aux fuel =
      relocate m (dynOf dyn) (match firstDyn hs with | some va => dynv - va | none => 0) := by
  unfold relocateSymbols
  rw [if_pos hd, if_pos hb, if_pos (by omega), hn, Nat.add_sub_cancel,
    findBaseLoop_eq m dynv aux.at_phent hs aux.at_phdr hat hlt hva, R.bind_ok, R.bind_ok,
    initFromDynv_eq m dynv fuel dyn hw hne hf, R.bind_ok]
  cases firstDyn hs <;> rfl

/-! ## the argument iterators as stateful objects: every method, in any order -/

/-- `ArgsOs::next` at ANY position `i` of the iterator: the `i`-th argument passed and one step forward, `None`
and no step once all `argc` have been yielded -/
theorem args_next_at {m : Mem} {sp : Nat} {argv env : List Bytes} {aux : List (Nat × Nat)} {aptrs eptrs : List Nat}
    (h : StackAt m sp argv env aux aptrs eptrs) (fuel : Nat) (hf : ∀ s ∈ argv, s.length < fuel) (i : Nat) :
    let e := envOf sp argv.length
    ArgsOs.next m e fuel ⟨i, argv.length⟩ = .ok (argv[i]?, ⟨if i < argv.length then i + 1 else i, argv.length⟩) ∧
    Args.next m e fuel ⟨i, argv.length⟩ =
      .ok ((argv.map asStr)[i]?, ⟨if i < argv.length then i + 1 else i, argv.length⟩) :=
  ⟨next_spec_os h fuel hf i, next_spec_args (next_spec_os h fuel hf) i⟩

/-- `nth(k)` / `skip(k).next()` (the default bodies: `k ×` next, then next) on an iterator that has already
yielded `i` arguments answer the argument at OFFSET `k` FROM THE CURRENT POSITION, `argv[i + k]`, and leave the
iterator behind it (`None` and exhausted when there is none) — never an argument already yielded -/
theorem args_nth_relative {m : Mem} {sp : Nat} {argv env : List Bytes} {aux : List (Nat × Nat)} {aptrs eptrs : List Nat}
    (h : StackAt m sp argv env aux aptrs eptrs) (fuel : Nat) (hf : ∀ s ∈ argv, s.length < fuel)
    (k i : Nat) (hi : i ≤ argv.length) :
    let e := envOf sp argv.length
    let after : ArgsOs := ⟨min (i + k + 1) argv.length, argv.length⟩
    nthWith (ArgsOs.next m e fuel) k ⟨i, argv.length⟩ = .ok (argv[i + k]?, after) ∧
    skipNextWith (ArgsOs.next m e fuel) k ⟨i, argv.length⟩ = .ok (argv[i + k]?, after) ∧
    nthWith (Args.next m e fuel) k ⟨i, argv.length⟩ = .ok ((argv.map asStr)[i + k]?, after) ∧
    skipNextWith (Args.next m e fuel) k ⟨i, argv.length⟩ = .ok ((argv.map asStr)[i + k]?, after) := by
  have H := next_spec_os h fuel hf
  have H' := next_spec_args H
  exact ⟨nthWith_eq H rfl k i hi, skipNextWith_eq H rfl k i hi,
    nthWith_eq H' (by simp) k i hi, skipNextWith_eq H' (by simp) k i hi⟩

/-- THE PROPERTY for the iterators.  EVERY script of calls (`next`, `nth(k)`, `skip(k).next()`, `step_by(k)` polled to
the end, `len`, `size_hint`, `count`, `last`, `fold`; any order, any length, any `k`, `step_by(0)` excluded because
`core` panics on it) on ONE fresh `args_os()` / `args()` iterator answers exactly what std's contract demands of an
iterator over the argument vector passed — what a plain slice iterator over `argv` answers (`specRun`): each call is
relative to the current position, no argument is yielded twice, none is skipped that was not asked to be, never more
than argc items, and `len()` / `size_hint()` are at every point of the script the exact number of arguments not yet
yielded (`ExactSizeIterator`'s contract).  No fault, no panic (in particular `num_args - ind` never overflows);
`argc + 1` polls suffice for every loop. -/
theorem iter_ops_exact {m : Mem} {sp : Nat} {argv env : List Bytes} {aux : List (Nat × Nat)} {aptrs eptrs : List Nat}
    (h : StackAt m sp argv env aux aptrs eptrs) (fuel k : Nat) (hf : ∀ s ∈ argv, s.length < fuel) (hk : argv.length < k)
    (ops : List ItOp) (hops : ∀ op ∈ ops, op.wf) :
    let e := envOf sp argv.length
    runOps (ArgsOs.next m e fuel) k ops (argsOs e) = .ok (specRun argv ops 0) ∧
    runOps (Args.next m e fuel) k ops (argsOs e) = .ok (specRun (argv.map asStr) ops 0) := by
  have H := next_spec_os h fuel hf
  have H' := next_spec_args H
  exact ⟨runOps_eq H rfl k hk ops 0 hops (Nat.zero_le _), runOps_eq H' (by simp) k hk ops 0 hops (Nat.zero_le _)⟩

/-- `len()` / `size_hint()` on an iterator that has already yielded `i` arguments, whatever calls brought it there:
exactly `argc - i`, and `(argc - i, Some(argc - i))`; the iterator is left where it was -/
theorem len_remaining_at {m : Mem} {sp : Nat} {argv env : List Bytes} {aux : List (Nat × Nat)} {aptrs eptrs : List Nat}
    (h : StackAt m sp argv env aux aptrs eptrs) (fuel k : Nat) (hf : ∀ s ∈ argv, s.length < fuel) (hk : argv.length < k)
    (i : Nat) (hi : i ≤ argv.length) :
    let e := envOf sp argv.length
    let it : ArgsOs := ⟨i, argv.length⟩
    itStep (ArgsOs.next m e fuel) k .len it = .ok (.num (argv.length - i), it) ∧
    itStep (ArgsOs.next m e fuel) k .sizeHint it = .ok (.hint (argv.length - i) (some (argv.length - i)), it) ∧
    itStep (Args.next m e fuel) k .len it = .ok (.num (argv.length - i), it) ∧
    itStep (Args.next m e fuel) k .sizeHint it = .ok (.hint (argv.length - i) (some (argv.length - i)), it) := by
  have H := next_spec_os h fuel hf
  have H' := next_spec_args H
  have hl : (argv.map asStr).length = argv.length := by simp
  have a1 := itStep_eq H rfl k hk .len trivial i hi
  have a2 := itStep_eq H rfl k hk .sizeHint trivial i hi
  have a3 := itStep_eq H' hl k hk .len trivial i hi
  have a4 := itStep_eq H' hl k hk .sizeHint trivial i hi
  simp only [specStep, hl] at a1 a2 a3 a4
  exact ⟨a1, a2, a3, a4⟩

/-- the iterators are fused and bounded: once the position is argc every further call answers `None` / nothing /
0 / (0, Some(0)) and stays there, whatever the script did before -/
theorem iter_exhausted_stays {m : Mem} {sp : Nat} {argv env : List Bytes} {aux : List (Nat × Nat)} {aptrs eptrs : List Nat}
    (h : StackAt m sp argv env aux aptrs eptrs) (fuel k : Nat) (hf : ∀ s ∈ argv, s.length < fuel) (hk : argv.length < k)
    (op : ItOp) (hop : op.wf) :
    ∃ out, itStep (ArgsOs.next m (envOf sp argv.length) fuel) k op ⟨argv.length, argv.length⟩ = .ok (out, ⟨argv.length, argv.length⟩) ∧
      (out = .item none ∨ out = .items [] ∨ out = .num 0 ∨ out = .hint 0 (some 0)) := by
  have H := next_spec_os h fuel hf
  have := itStep_eq H rfl k hk op hop argv.length (Nat.le_refl _)
  have h2 : (specStep argv op argv.length).2 = argv.length := by
    cases op <;> simp only [specStep] <;> omega
  refine ⟨(specStep argv op argv.length).1, ?_, ?_⟩
  · rw [this, h2]
  · cases op <;> simp_all [specStep, ItOp.wf, everyKth_nil]

/-- the repaired code on a concrete image: three arguments, `next()` then `len()` / `size_hint()` answer 2 and
(2, Some(2)), the number of arguments that remain; after two more `next()` they answer 0 and (0, Some(0)), also
after a further `next()` past the end; `args()` answers the same -/
theorem len_remaining_witness :
    let argv : List Bytes := [[97], [], [255, 254]]
    let m := memOf 4096 (buildStack 4096 argv [] [])
    let e := envOf 4096 3
    runOps (ArgsOs.next m e 50) 5 [.next, .len, .sizeHint] (argsOs e) = .ok [.item (some [97]), .num 2, .hint 2 (some 2)] ∧
    specRun argv [.next, .len, .sizeHint] 0 = [.item (some [97]), .num 2, .hint 2 (some 2)] ∧
    runOps (ArgsOs.next m e 50) 5 [.len, .nth 1, .len, .next, .len, .next, .len, .sizeHint] (argsOs e) =
      .ok [.num 3, .item (some []), .num 1, .item (some [255, 254]), .num 0, .item none, .num 0, .hint 0 (some 0)] ∧
    runOps (Args.next m e 50) 5 [.next, .len, .sizeHint] (argsOs e) = .ok [.item (some (.ok [97])), .num 2, .hint 2 (some 2)] := by
  decide

/-- HISTORY (finding repaired by the `fix:` commit d3e06ee): before it `ExactSizeIterator::len` was `num_args`
whatever had been yielded and `size_hint()` the default (0, None) — `Legacy.runOps`.  On the same image, `next()`
then `len()`: the old code answered 3 with two arguments left, and (0, None), a valid bound but not the exact one
`ExactSizeIterator` promises; that is NOT what the arguments passed demand (`specRun`), the repaired code's answer is -/
theorem legacy_len_not_remaining_witness :
    let argv : List Bytes := [[97], [], [255, 254]]
    let m := memOf 4096 (buildStack 4096 argv [] [])
    let e := envOf 4096 3
    Legacy.runOps (ArgsOs.next m e 50) 5 [.next, .len, .sizeHint] (argsOs e) = .ok [.item (some [97]), .num 3, .hint 0 none] ∧
    Legacy.runOps (ArgsOs.next m e 50) 5 [.next, .len, .sizeHint] (argsOs e) ≠ .ok (specRun argv [.next, .len, .sizeHint] 0) ∧
    runOps (ArgsOs.next m e 50) 5 [.next, .len, .sizeHint] (argsOs e) = .ok (specRun argv [.next, .len, .sizeHint] 0) := by
  decide

/-- the old and the repaired code differ in NOTHING but the answers of `len` / `size_hint` -/
theorem legacy_itStep_same {α : Type} (nx : Nx α) (fuel : Nat) (op : ItOp) (it : ArgsOs)
    (h : op ≠ .len ∧ op ≠ .sizeHint) : Legacy.itStep nx fuel op it = itStep nx fuel op it := by
  cases op <;> simp_all [Legacy.itStep]

/-- the model computes, on a concrete image, what the theorems say: after `next()`, `nth(1)` is the argument two
further on (not `argv[1]`), `skip(0).next()` the one after it, `step_by(2)` from position 1 yields `argv[1], argv[3]`,
`count()` after two `next()` is argc - 2, and `args()` reports UTF-8 validity per element -/
example :
    let argv : List Bytes := [[112], [97], [], [255, 254], [98]]
    let m := memOf 4096 (buildStack 4096 argv [[65, 61, 98]] [(11, 7)])
    let e := envOf 4096 5
    runOps (ArgsOs.next m e 50) 7 [.next, .nth 1, .skip 0, .next, .next] (argsOs e) =
      .ok [.item (some [112]), .item (some []), .item (some [255, 254]), .item (some [98]), .item none] ∧
    runOps (ArgsOs.next m e 50) 7 [.next, .stepBy 2, .next] (argsOs e) =
      .ok [.item (some [112]), .items [[97], [255, 254]], .item none] ∧
    runOps (ArgsOs.next m e 50) 7 [.next, .next, .count] (argsOs e) = .ok [.item (some [112]), .item (some [97]), .num 3] ∧
    runOps (Args.next m e 50) 7 [.nth 3, .last] (argsOs e) = .ok [.item (some .err), .item (some (.ok [98]))] ∧
    runOps (ArgsOs.next m e 50) 7 [.nth 18446744073709551615, .next] (argsOs e) = .ok [.item none, .item none] := by
  decide

/-- `specRun` tells a relative `nth` from an ABSOLUTE-index one (`self.ind = min(n, num_args); self.next()`, which
would answer `argv[1]` = [97] to `next(); nth(1)` and `argv[0]` again to `next(); nth(0)`): the arguments demand
`argv[2]` and `argv[1]` -/
example : specRun ([[112], [97], [98]] : List Bytes) [.next, .nth 1] 0 = [.item (some [112]), .item (some [98])] ∧
    specRun ([[112], [97], [98]] : List Bytes) [.next, .nth 0] 0 = [.item (some [112]), .item (some [97])] := by
  decide

/-! ## environment lookup -/

/-- answer of `var_unix` demanded by the property -/
def specUnix (key : Bytes) (env : List Bytes) : VarRes :=
  match lookup key env with
  | some v => .found v
  | none => .missing

/-- answer of `var` demanded by the property (the value must also be UTF-8) -/
def specStr (key : Bytes) (env : List Bytes) : VarRes :=
  match lookup key env with
  | some v => if utf8Valid v then .found v else .notUnicode
  | none => .missing

/-- `var_unix(key)` = value of the first entry whose bytes before its first '=' equal `key`, for every non-empty,
NUL-free, '='-free key and EVERY environment block (duplicates, names that are prefixes of each other or of the
key, empty names or values, values with '=', entries without '=', empty entries) -/
theorem var_unix_exact (key : Bytes) (hne : key ≠ []) (h0 : 0 ∉ key) (hq : EQ ∉ key) :
    ∀ env : List Bytes, varUnix key env = .ok (specUnix key env)
  | [] => rfl
  | e :: env => by
    have ih := var_unix_exact key hne h0 hq env
    unfold specUnix at ih ⊢
    simp only [varUnix, entryUnix_eq key e hne h0 hq, R.bind_ok, entrySpec, lookup]
    by_cases hc : EQ ∈ e ∧ nameOf e = key
    · simp only [if_pos hc]
    · simp only [if_neg hc]; exact ih

theorem var_exact (key : Bytes) (hne : key ≠ []) (h0 : 0 ∉ key) (hq : EQ ∉ key) :
    ∀ env : List Bytes, var key env = .ok (specStr key env)
  | [] => rfl
  | e :: env => by
    have ih := var_exact key hne h0 hq env
    unfold specStr at ih ⊢
    simp only [var, entryStr_eq key e hne h0 hq, R.bind_ok, entrySpec, lookup]
    by_cases hc : EQ ∈ e ∧ nameOf e = key
    · simp only [if_pos hc]
    · simp only [if_neg hc]; exact ih

/-- the loops AS WRITTEN over memory read the block `resolve` located and answer as the list-level model -/
theorem var_mem_exact (m : Mem) (fuel : Nat) (key : Bytes) : ∀ (ps : List Nat) (env : List Bytes) (envPtr k : Nat),
    WordsAt m envPtr (ps ++ [0]) → StrsAt m ps env → (∀ p ∈ ps, p ≠ 0) → (∀ s ∈ env, 0 ∉ s ∧ s.length < fuel) →
    0 < envPtr → ps.length < k →
    varUnixMem m fuel key k envPtr = varUnix key env ∧ varMem m fuel key k envPtr = var key env
  | _, _, _, 0, _, _, _, _, _, hk => by omega
  | [], [], envPtr, k + 1, hw, _, _, _, ha, _ => by
    simp only [List.nil_append, WordsAt] at hw
    have : envPtr ≠ 0 := by omega
    simp [varUnixMem, varMem, varUnix, var, this, hw.1]
  | [], _ :: _, _, _ + 1, _, hs, _, _, _, _ => by simp [StrsAt] at hs
  | _ :: _, [], _, _ + 1, _, hs, _, _, _, _ => by simp [StrsAt] at hs
  | p :: ps, s :: ss, envPtr, k + 1, hw, hs, hne, hss, ha, hk => by
    simp only [List.cons_append, WordsAt] at hw
    simp only [StrsAt] at hs
    have hp : p ≠ 0 := hne p (by simp)
    have hs0 := hss s (by simp)
    have ih := var_mem_exact m fuel key ps ss (envPtr + 8) k hw.2 hs.2
      (fun q hq => hne q (by simp [hq])) (fun t ht => hss t (by simp [ht])) (by omega) (by simp at hk; omega)
    have hnz : envPtr ≠ 0 := by omega
    simp only [varUnixMem, varMem, varUnix, var, if_neg hnz, hw.1, R.bind_ok, if_neg hp,
      cstr_eq m p s fuel hs.1 hs0.1 hs0.2, ih.1, ih.2]
    exact ⟨trivial, trivial⟩

/-- error branch: the empty key is reported missing whatever the block holds (even an entry `=value`) -/
theorem var_empty_key : ∀ env : List Bytes, varUnix [] env = .ok .missing ∧ var [] env = .ok .missing
  | [] => ⟨rfl, rfl⟩
  | e :: env => by
    have ih := var_empty_key env
    have h1 : entryUnix [] e = .ok none := by
      cases e <;> simp [entryUnix, matchUpTo, matchLoop, rdl]
    have h2 : entryStr [] e = .ok none := by
      simp [entryStr, matchUpToStr, matchStrLoop]
    simp [varUnix, var, h1, h2, ih.1, ih.2]

theorem eq_not_mem_nameOf : ∀ e : Bytes, EQ ∉ nameOf e
  | [] => by simp [nameOf]
  | b :: e => by
    have ih := eq_not_mem_nameOf e
    unfold nameOf at ih ⊢
    by_cases hb : b = EQ
    · simp [hb]
    · simp only [ne_eq, hb, not_false_eq_true, decide_true, List.takeWhile_cons_of_pos, List.mem_cons, not_or]
      exact ⟨fun h => hb h.symm, ih⟩

/-- error branch: for a key containing '=' the property's lookup is "missing" (no name contains '=') … -/
theorem lookup_key_with_eq (key : Bytes) (hq : EQ ∈ key) : ∀ env : List Bytes, lookup key env = none
  | [] => rfl
  | e :: env => by
    have : nameOf e ≠ key := by
      intro h
      exact eq_not_mem_nameOf e (h ▸ hq)
    simp [lookup, this, lookup_key_with_eq key hq env]

/-- … while the code answers with the rest of the first entry that starts with `key ++ "="`
(e.g. key `A=B` against `A=B=c` answers `c`): such keys are outside the property's quantifier -/
example : varUnix [65, 61, 66] [[65, 61, 66, 61, 99]] = .ok (.found [99]) ∧ lookup [65, 61, 66] [[65, 61, 66, 61, 99]] = none := by
  decide

/-- THE DEFECT (before the `fix:` commit): the matched prefix was never required to be the whole key —
key `HOMER` against the single entry `HOME=x` answered `x`; the property demands "missing" -/
theorem var_prefix_counterexample :
    Legacy.varUnix [72, 79, 77, 69, 82] [[72, 79, 77, 69, 61, 120]] = .ok (.found [120]) ∧
    Legacy.var [72, 79, 77, 69, 82] [[72, 79, 77, 69, 61, 120]] = .ok (.found [120]) ∧
    specUnix [72, 79, 77, 69, 82] [[72, 79, 77, 69, 61, 120]] = .missing := by decide

/-- the repaired code on the same witness, and on a block with duplicates / prefix-related names / '=' in a
value / an entry without '=' / an empty name -/
example : varUnix [72, 79, 77, 69, 82] [[72, 79, 77, 69, 61, 120]] = .ok .missing := by decide
example :
    let env : List Bytes := [[72, 79], [72, 79, 77, 69, 82, 61, 49], [61, 57], [72, 79, 77, 69, 61, 97, 61, 98], [72, 79, 77, 69, 61, 122]]
    varUnix [72, 79, 77, 69] env = .ok (.found [97, 61, 98]) ∧ var [72, 79, 77, 69] env = .ok (.found [97, 61, 98]) ∧
    varUnix [72, 79] env = .ok .missing ∧ varUnix [72, 79, 77, 69, 82] env = .ok (.found [49]) := by decide


/-! ## non-vacuity: the hypotheses are satisfiable by concrete, non-trivial images -/

instance decWordsAt (m : Mem) : ∀ (a : Nat) (ws : List Nat), Decidable (WordsAt m a ws)
  | _, [] => isTrue trivial
  | a, w :: ws => by
    unfold WordsAt
    exact @instDecidableAnd _ _ inferInstance (decWordsAt m (a + 8) ws)

instance decCStrAt (m : Mem) (p : Nat) (s : Bytes) : Decidable (CStrAt m p s) := by
  unfold CStrAt; exact inferInstance

instance decStrsAt (m : Mem) : ∀ (ps : List Nat) (ss : List Bytes), Decidable (StrsAt m ps ss)
  | [], [] => isTrue trivial
  | p :: ps, s :: ss => by
    unfold StrsAt
    exact @instDecidableAnd _ _ inferInstance (decStrsAt m ps ss)
  | [], _ :: _ => isFalse (by simp [StrsAt])
  | _ :: _, [] => isFalse (by simp [StrsAt])

/-- `buildStack` (the ABI image: argc, argv pointers, NULL, envp pointers, NULL, auxv pairs, AT_NULL, strings)
satisfies `StackAt`: three arguments (one empty, one non-UTF-8), an environment with a duplicate name and an
empty value, an aux vector with a duplicate key, a key > 51 and AT_BASE = 0 -/
example :
    let argv : List Bytes := [[97], [], [255, 254]]
    let env : List Bytes := [[72, 61, 120], [72, 61, 121], [65, 61]]
    let aux : List (Nat × Nat) := [(3, 5), (7, 0), (3, 9), (52, 1), (11, 1000)]
    let sb := 4096 + 8 * nWords argv env aux
    StackAt (memOf 4096 (buildStack 4096 argv env aux)) 4096 argv env aux
      (ptrsFrom sb argv) (ptrsFrom (sb + (strBytes argv).length) env) := by
  refine ⟨by decide, by decide, by decide, by decide, by decide, by decide, by decide, by decide, by decide⟩

/-- and on it the model computes what the theorems say (argc 3, the three arguments in order with UTF-8
validity per element, the environment in order, AT_PHDR = 9 = the LAST listed value, AT_UID = 1000) -/
example :
    let argv : List Bytes := [[97], [], [255, 254]]
    let env : List Bytes := [[72, 61, 120], [72, 61, 121], [65, 61]]
    let aux : List (Nat × Nat) := [(3, 5), (7, 0), (3, 9), (52, 1), (11, 1000)]
    let m := memOf 4096 (buildStack 4096 argv env aux)
    let e := envOf 4096 3
    collectOs m e 50 50 (argsOs e) = .ok argv ∧
    collectArgs m e 50 50 (argsOs e) = .ok [.ok [97], .ok [], .err] ∧
    envWalk m 50 50 e.envp = .ok env ∧
    varUnixMem m 50 [72] 50 e.envp = .ok (.found [120]) ∧
    (auxOf aux).at_phdr = 9 ∧ (auxOf aux).at_uid = 1000 ∧ (auxOf aux).at_base = 0 := by decide

/-- `RelocWF` is satisfiable: image at base 4096 with one REL entry (target +64, old word 7), one RELA entry
(target +72, addend 5) and one non-relative RELA entry (type 6, ignored) -/
def relocImg : Bytes :=
  le 8 64 ++ le 8 8 ++                                  -- Elf64_Rel  { r_offset 64, r_info R_RELATIVE }
  le 8 72 ++ le 8 8 ++ le 8 5 ++                        -- Elf64_Rela { 72, R_RELATIVE, addend 5 }
  le 8 80 ++ le 8 6 ++ le 8 1 ++                        -- Elf64_Rela { 80, R_X86_64_GLOB_DAT, 1 }: not relative
  le 8 7 ++ le 8 0 ++ le 8 3                            -- words at +64, +72, +80

instance decRelAt (m : Mem) : ∀ (a : Nat) (es : List RelEnt), Decidable (RelAt m a es)
  | _, [] => isTrue trivial
  | a, e :: es => by
    unfold RelAt
    exact @instDecidableAnd _ _ inferInstance (@instDecidableAnd _ _ inferInstance (decRelAt m (a + 16) es))

instance decRelaAt (m : Mem) : ∀ (a : Nat) (es : List RelaEnt), Decidable (RelaAt m a es)
  | _, [] => isTrue trivial
  | a, e :: es => by
    unfold RelaAt
    exact @instDecidableAnd _ _ inferInstance (@instDecidableAnd _ _ inferInstance
      (@instDecidableAnd _ _ inferInstance (decRelaAt m (a + 24) es)))

example : RelocWF (memOf 4096 relocImg) 4096 ⟨0, 16, 16, 48⟩ [⟨64, 8⟩] [⟨72, 8, 5⟩, ⟨80, 6, 1⟩] := by
  refine ⟨by decide, by decide, by decide, by decide, by decide, by decide, ?_, ?_, ?_, ?_, ?_, ?_, ?_, ?_, ?_⟩
  · intro e he hr; simp at he; subst he; exact ⟨by decide, 7, by decide, by decide⟩
  · intro e he hr; simp at he; rcases he with rfl | rfl
    · exact ⟨by decide, by decide⟩
    · exact absurd hr (by decide)
  · intro e he hr; simp at he; rcases he with rfl | rfl
    · exact ⟨0, by decide⟩
    · exact absurd hr (by decide)
  · intro e he hr; simp at he; subst he; decide
  · intro e he hr; simp at he; subst he; decide
  · intro e he hr; simp at he; rcases he with rfl | rfl
    · decide
    · exact absurd hr (by decide)
  · simp
  · simp only [List.pairwise_cons, List.mem_singleton, forall_eq, List.Pairwise.nil, and_true, List.not_mem_nil, false_imp_iff, implies_true]
    intro _ h; exact absurd h (by decide)
  · intro e1 he1 e2 he2 h1 h2; simp at he1 he2; subst he1; rcases he2 with rfl | rfl
    · unfold Apart; decide
    · exact absurd h2 (by decide)

/-- and on it `relocate` yields old + base = 4103 at +64, base + addend = 4101 at +72, leaves +80 alone -/
def relocImgAfter : Bool :=
  match relocate (memOf 4096 relocImg) ⟨0, 16, 16, 48⟩ 4096 with
  | .ok m' => decide (rd64 m' 4160 = .ok 4103 ∧ rd64 m' 4168 = .ok 4101 ∧ rd64 m' 4176 = .ok 3)
  | _ => false

example : relocImgAfter = true := by decide

end TinyVerif.C07
