/-
C17 — io_uring rings: exactly-once, in-order hand-over both ways, across index wrap.

Everything here is about `Model/Ring.lean` run with `Code.fixed` (= /repo's current
`get_next_sqe_slot` / `flush_submission_queue` / `get_next_cqe`, tied to the code by the
correspondence of checks/c17.py), for
  * every ring size 2^k (k ≤ 30; the kernel allows at most 2^15 / 2^16 entries),
  * every index shift (SQE128 / CQE32 flags),
  * EVERY initial counter value c, cc < 2^32 (so the 32-bit wrap is covered without 2^32 steps),
  * every interleaving of application steps {get+fill, flush, reap, reread} and kernel steps
    {consume k, post vs} at call granularity (induction over the op list) — and, for the content of a
    reaped completion, BELOW call granularity: since /repo bc63d9e `get_next_cqe` gives the slot of the
    entry it returned back to the kernel only on the next call (`release_pending`; the kernel-visible
    head lags by at most one, `cq_head_lag`), so the entry may be read through the returned reference
    after any number of kernel steps (`cq_content_held`, op `reread`).
The `orig_*` theorems at the end show, on the model of the code *before* the C17 repairs (`Code.orig`)
and before that last repair (`Code.eagerRelease`), that the repairs were necessary (the same witnesses
were observed on the real code through harness/c17 / harness/c18 before the repairs; see
known_findings.d/C17.jsonl and C18.jsonl).
-/
import TinyVerif.Proofs.RingInv
import TinyVerif.Proofs.RingDrain
import TinyVerif.Gen.RingBorrow
namespace TinyVerif.Ring

/-- the state reached from a fresh ring by an arbitrary interleaving `ops` -/
def reached (flags k kc c cc : Nat) (ops : List Op) : St :=
  (run .fixed (init flags k kc c cc) ops).1

/-- hypotheses shared by all theorems: ring sizes and initial counters are representable -/
structure Params (k kc c cc : Nat) : Prop where
  hk : k ≤ 30
  hkc : kc ≤ 30
  hc : c < W
  hcc : cc < W

theorem reached_inv {k kc c cc : Nat} (p : Params k kc c cc) (flags : Nat) (ops : List Op) :
    ∃ inq unpub cinq hold, Inv k kc c cc (reached flags k kc c cc ops) inq unpub cinq hold :=
  inv_run ops (inv_init flags k kc c cc p.hk p.hkc p.hc p.hcc)

/-- Every submission the kernel consumed is, in order and with identical slot and content, a
submission the application published, and everything published was filled by the application:
`consumed` is a prefix of `flushed`, which is a prefix of `filled` (nothing lost, duplicated,
reordered or altered). -/
theorem sq_in_order_once {k kc c cc : Nat} (p : Params k kc c cc) (flags : Nat) (ops : List Op) :
    (reached flags k kc c cc ops).consumed <+: (reached flags k kc c cc ops).flushed ∧
    (reached flags k kc c cc ops).flushed <+: (reached flags k kc c cc ops).filled := by
  obtain ⟨inq, unpub, cinq, hold, h⟩ := reached_inv p flags ops
  exact ⟨⟨inq, h.flushed_eq.symm⟩, ⟨unpub, h.filled_eq.symm⟩⟩

/-- A slot handed out by `get_next_sqe_slot` is not the slot of any entry that was filled and not
yet consumed by the kernel. -/
theorem sq_no_reuse {k kc c cc : Nat} (p : Params k kc c cc) (flags : Nat) (ops : List Op)
    (v i : Nat) (hs : (step .fixed (reached flags k kc c cc ops) (.get v)).2 = .slot i) :
    ∀ e ∈ (reached flags k kc c cc ops).filled.drop (reached flags k kc c cc ops).consumed.length,
      e.slot ≠ i := by
  obtain ⟨inq, unpub, cinq, hold, h⟩ := reached_inv p flags ops
  generalize reached flags k kc c cc ops = s at *
  obtain ⟨h1, h2⟩ := inv_get h v
  by_cases hlt : inq.length + unpub.length < 2 ^ k
  · have hi := (h1 hlt).1
    rw [hi] at hs
    injection hs with hs
    intro e he
    have hd : s.filled.drop s.consumed.length = inq ++ unpub := by
      rw [h.filled_eq, h.flushed_eq, List.append_assoc, List.drop_left]
    rw [hd] at he
    obtain ⟨j, hj, hsl⟩ := good_mem k (sqShift s) s.sqMem _ _ h.sqGood e he
    rw [hsl, ← hs, h.filled_len]
    simp only [List.length_append] at hj
    exact slotOf_ne k (sqShift s) _ _ (by omega) (by omega)
  · rw [h2 hlt] at hs
    cases hs

/-- `get_next_sqe_slot` returns `None` exactly when a full ring of entries is in flight. -/
theorem sq_capacity {k kc c cc : Nat} (p : Params k kc c cc) (flags : Nat) (ops : List Op) (v : Nat) :
    (reached flags k kc c cc ops).consumed.length ≤ (reached flags k kc c cc ops).filled.length ∧
    ((step .fixed (reached flags k kc c cc ops) (.get v)).2 = .noSlot ↔
      (reached flags k kc c cc ops).filled.length - (reached flags k kc c cc ops).consumed.length = 2 ^ k) := by
  obtain ⟨inq, unpub, cinq, hold, h⟩ := reached_inv p flags ops
  generalize reached flags k kc c cc ops = s at *
  obtain ⟨h1, h2⟩ := inv_get h v
  have hl := h.filled_len
  have hcap := h.cap
  refine ⟨by omega, ?_⟩
  by_cases hlt : inq.length + unpub.length < 2 ^ k
  · rw [(h1 hlt).1]
    constructor
    · intro hx; cases hx
    · intro hx; omega
  · rw [h2 hlt]
    constructor
    · intro _; omega
    · intro _; rfl

/-- The pointer handed out stays inside the entry array (the code does unchecked pointer arithmetic). -/
theorem sq_slot_in_bounds {k kc c cc : Nat} (p : Params k kc c cc) (flags : Nat) (ops : List Op)
    (v i : Nat) (hs : (step .fixed (reached flags k kc c cc ops) (.get v)).2 = .slot i) :
    i < 2 ^ k * 2 ^ sqShift (reached flags k kc c cc ops) := by
  obtain ⟨inq, unpub, cinq, hold, h⟩ := reached_inv p flags ops
  generalize reached flags k kc c cc ops = s at *
  obtain ⟨h1, h2⟩ := inv_get h v
  by_cases hlt : inq.length + unpub.length < 2 ^ k
  · rw [(h1 hlt).1] at hs
    injection hs with hs
    rw [← hs]; exact slotOf_lt _ _ _
  · rw [h2 hlt] at hs; cases hs

/-- `flush_submission_queue` returns the number of filled entries the kernel has not consumed. -/
theorem sq_flush_count {k kc c cc : Nat} (p : Params k kc c cc) (flags : Nat) (ops : List Op) :
    (step .fixed (reached flags k kc c cc ops) .flush).2 =
      .flushed ((reached flags k kc c cc ops).filled.length - (reached flags k kc c cc ops).consumed.length) := by
  obtain ⟨inq, unpub, cinq, hold, h⟩ := reached_inv p flags ops
  generalize reached flags k kc c cc ops = s at *
  rw [(inv_flush h).1, h.filled_len]
  congr 1; omega

/-- Every completion the application reaped is, in order and with identical slot and content, a
completion the kernel posted: `reaped` is a prefix of `posted`. -/
theorem cq_in_order_once {k kc c cc : Nat} (p : Params k kc c cc) (flags : Nat) (ops : List Op) :
    (reached flags k kc c cc ops).reaped <+: (reached flags k kc c cc ops).posted := by
  obtain ⟨inq, unpub, cinq, hold, h⟩ := reached_inv p flags ops
  exact ⟨cinq, h.posted_eq.symm⟩

/-- `get_next_cqe` returns `None` exactly when every posted completion has been reaped. -/
theorem cq_progress {k kc c cc : Nat} (p : Params k kc c cc) (flags : Nat) (ops : List Op) :
    (step .fixed (reached flags k kc c cc ops) .reap).2 = .noCqe ↔
      (reached flags k kc c cc ops).posted = (reached flags k kc c cc ops).reaped := by
  obtain ⟨inq, unpub, cinq, hold, h⟩ := reached_inv p flags ops
  generalize reached flags k kc c cc ops = s at *
  obtain ⟨h1, h2⟩ := inv_reap h
  cases hc : cinq with
  | nil =>
    rw [(h1 hc).1, h.posted_eq, hc]
    simp
  | cons e rest =>
    rw [(h2 e rest hc).1, h.posted_eq, hc]
    constructor
    · intro hx; cases hx
    · intro hx
      have := congrArg List.length hx
      simp at this

/-- When `get_next_cqe` returns an entry, what the application reads from it is the content of the
oldest posted-and-unreaped completion. -/
theorem cq_content {k kc c cc : Nat} (p : Params k kc c cc) (flags : Nat) (ops : List Op) (v : Nat)
    (hs : (step .fixed (reached flags k kc c cc ops) .reap).2 = .cqe v) :
    ((reached flags k kc c cc ops).posted[(reached flags k kc c cc ops).reaped.length]?).map Ent.val
      = some v := by
  obtain ⟨inq, unpub, cinq, hold, h⟩ := reached_inv p flags ops
  generalize reached flags k kc c cc ops = s at *
  obtain ⟨h1, h2⟩ := inv_reap h
  cases hc : cinq with
  | nil => rw [(h1 hc).1] at hs; cases hs
  | cons e rest =>
    rw [(h2 e rest hc).1] at hs
    injection hs with hs
    rw [h.posted_eq, hc]
    simp [hs]

/-- **cq_content below call granularity** (what was false before /repo bc63d9e): the entry `get_next_cqe` returned a
reference to is not overwritten by ANY later step — kernel posts included, with the completion ring full or not —
until `get_next_cqe` is called again: reading through the reference at any later moment (`reread`) yields the
completion that was handed out. -/
theorem cq_content_held {k kc c cc : Nat} (p : Params k kc c cc) (flags : Nat) (ops : List Op) (v : Nat)
    (hs : (step .fixed (reached flags k kc c cc ops) .reap).2 = .cqe v)
    (later : List Op) (hl : ∀ op ∈ later, op ≠ .reap) :
    ∃ e, (step .fixed (reached flags k kc c cc ops) .reap).1.reaped = (reached flags k kc c cc ops).reaped ++ [e] ∧
      e.val = v ∧
      (run .fixed (step .fixed (reached flags k kc c cc ops) .reap).1 later).1.cqMem e.slot = v ∧
      (step .fixed (run .fixed (step .fixed (reached flags k kc c cc ops) .reap).1 later).1 .reread).2 = .cqe v := by
  obtain ⟨inq, unpub, cinq, hold, h⟩ := reached_inv p flags ops
  generalize reached flags k kc c cc ops = s at *
  obtain ⟨h1, h2⟩ := inv_reap h
  cases hc : cinq with
  | nil => rw [(h1 hc).1] at hs; cases hs
  | cons e rest =>
    obtain ⟨a1, a2, _, a4⟩ := h2 e rest hc
    rw [a1] at hs
    injection hs with hs
    obtain ⟨_, _, _, b1, b2⟩ := inv_run_hold later hl a4
    have hm := b1.held_content e (by simp)
    refine ⟨e, a2, hs, by rw [hm, hs], ?_⟩
    show (match (run .fixed (step .fixed s .reap).1 later).1.reaped.getLast? with
      | none => ((run .fixed (step .fixed s .reap).1 later).1, Out.noCqe)
      | some e' => ((run .fixed (step .fixed s .reap).1 later).1,
          Out.cqe ((run .fixed (step .fixed s .reap).1 later).1.cqMem e'.slot))).2 = _
    rw [b2, a2, List.getLast?_concat]
    simp only [hm, hs]

/-- **borrow_contract_holds** — the ASSUMPTION of `cq_content_held` (and of C18's split-reap theorems) that is not
behaviour but type: `later` contains no `get_next_cqe` although the caller still reads through the reference, i.e. a
completion reference is dead at the next `get_next_cqe` call, there is at most one, no other `&mut` ring method runs
while it lives, and it does not outlive the ring.  Extracted fact: the borrow checker rejects every program of
harness/c17/borrow-probes that violates one of these (regenerated on every run into Gen/RingBorrow.lean). -/
theorem borrow_contract_holds : genBorrowContract.holds = true := by decide

/-- why the contract is needed — with TWO outstanding references the content guarantee FAILS on the current code: ring
of 2 completion entries, the caller keeps the reference to completion 1 (slot 0) across the `get_next_cqe` call that
returns completion 2; that call releases slot 0, the kernel's third completion lands there: the first reference now
shows 3 (completion 1 is lost, 3 will be seen twice).  This is the history the borrow `&mut self` rules out. -/
theorem two_references_break_content :
    (run .fixed (init 0 1 1 0 0) [.post [1, 2], .reap, .reap, .post [3]]).2 = [.posted 2, .cqe 1, .cqe 2, .posted 1] ∧
    (run .fixed (init 0 1 1 0 0) [.post [1, 2], .reap, .reap, .post [3]]).1.reaped = [⟨0, 1⟩, ⟨1, 2⟩] ∧
    (run .fixed (init 0 1 1 0 0) [.post [1, 2], .reap, .reap, .post [3]]).1.cqMem 0 = 3 ∧
    -- with the single reference the API allows (completion 1 read before the next call) the post finds no room in slot 0
    (run .fixed (init 0 1 1 0 0) [.post [1, 2], .reap, .post [3], .reread]).2 = [.posted 2, .cqe 1, .posted 0, .cqe 1] := by
  decide

/-- the kernel-visible completion head lags behind what the application reaped by at most one entry: the one
whose reference may still be alive (`release_pending`) -/
theorem cq_head_lag {k kc c cc : Nat} (p : Params k kc c cc) (flags : Nat) (ops : List Op) :
    (reached flags k kc c cc ops).cqKHead =
      (cc + ((reached flags k kc c cc ops).reaped.length - if (reached flags k kc c cc ops).relPending then 1 else 0)) % W ∧
    ((reached flags k kc c cc ops).relPending = true → (reached flags k kc c cc ops).reaped ≠ []) := by
  obtain ⟨inq, unpub, cinq, hold, h⟩ := reached_inv p flags ops
  generalize reached flags k kc c cc ops = s at *
  have hl := h.hold_len
  have hle := h.hold_le
  refine ⟨by rw [h.ckhead_eq, hl], ?_⟩
  intro hp hnil
  rw [if_pos hp] at hl
  rw [hnil, hl] at hle
  simp at hle

/-- DRAINING (round 8).  From every reachable state, calling `get_next_cqe` as many times as there are
posted-and-unreaped completions returns exactly those completions, oldest first, each with the content the kernel
posted (nothing skipped at any fill level — an exactly full ring and a wrapped counter included); afterwards
everything posted has been reaped exactly once (`reaped = posted`) and one further call answers `None`. -/
theorem cq_drain {k kc c cc : Nat} (p : Params k kc c cc) (flags : Nat) (ops : List Op) :
    let s := reached flags k kc c cc ops
    let r := run .fixed s (List.replicate (s.posted.length - s.reaped.length) .reap)
    r.2 = (s.posted.drop s.reaped.length).map (fun e => Out.cqe e.val) ∧
    r.1.reaped = s.posted ∧ r.1.posted = s.posted ∧
    (step .fixed r.1 .reap).2 = .noCqe := by
  obtain ⟨inq, unpub, cinq, hold, h⟩ := reached_inv p flags ops
  generalize reached flags k kc c cc ops = s at *
  have hn : s.posted.length - s.reaped.length = cinq.length := by
    rw [h.posted_eq, List.length_append]; omega
  have hd : s.posted.drop s.reaped.length = cinq := by
    rw [h.posted_eq]; simp
  obtain ⟨d1, d2, d3, hold', d4⟩ := drain_inv cinq h
  simp only [hn, hd]
  refine ⟨d2, by rw [d1, h.posted_eq], d3, ((inv_reap d4).1 rfl).1⟩

/-- the kernel side of the same statement: a kernel that consumes without running out of budget takes exactly the
published-and-unconsumed submissions, in order, and then `consumed = flushed` (every published submission reaches
the kernel exactly once) -/
theorem sq_drain {k kc c cc : Nat} (p : Params k kc c cc) (flags : Nat) (ops : List Op) (n : Nat)
    (hn : (reached flags k kc c cc ops).flushed.length - (reached flags k kc c cc ops).consumed.length ≤ n) :
    (step .fixed (reached flags k kc c cc ops) (.consume n)).2 =
      .consumed ((reached flags k kc c cc ops).flushed.drop (reached flags k kc c cc ops).consumed.length) ∧
    (step .fixed (reached flags k kc c cc ops) (.consume n)).1.consumed = (reached flags k kc c cc ops).flushed ∧
    (step .fixed (reached flags k kc c cc ops) (.consume n)).1.flushed = (reached flags k kc c cc ops).flushed := by
  obtain ⟨inq, unpub, cinq, hold, h⟩ := reached_inv p flags ops
  generalize reached flags k kc c cc ops = s at *
  have hl : inq.length ≤ n := by
    rw [h.flushed_eq, List.length_append] at hn; omega
  have hd : s.flushed.drop s.consumed.length = inq := by
    rw [h.flushed_eq]; simp
  obtain ⟨c1, c2, c3, _⟩ := consume_all n h hl
  rw [step_consume, hd]
  exact ⟨by rw [c1], by rw [c2, h.flushed_eq], c3⟩

/-- non-vacuity: an exactly full completion ring (4 of 4) whose counters wrap is drained completely -/
example :
    (run .fixed (reached 0 1 2 0 4294967294 [.post [5, 6, 7, 8]]) (List.replicate 4 .reap)).2 =
      [.cqe 5, .cqe 6, .cqe 7, .cqe 8] := by decide

/-- ROOM (round 8).  What the lazy slot release costs, exactly: on every reachable state the kernel can post
`cq_entries − (posted − reaped) − (1 if a reference is outstanding)` further completions and not one more — the
application's held entry keeps ONE slot from the kernel and nothing else does; the stamps posted are the first
that many offered, appended in order. -/
theorem cq_post_room {k kc c cc : Nat} (p : Params k kc c cc) (flags : Nat) (ops : List Op) (vs : List Nat) :
    let s := reached flags k kc c cc ops
    (step .fixed s (.post vs)).2 =
      .posted (min vs.length (2 ^ kc - ((s.posted.length - s.reaped.length) + if s.relPending then 1 else 0))) ∧
    ∀ n, (step .fixed s (.post vs)).2 = .posted n →
      (step .fixed s (.post vs)).1.posted.map (·.val) = s.posted.map (·.val) ++ vs.take n := by
  obtain ⟨inq, unpub, cinq, hold, h⟩ := reached_inv p flags ops
  generalize reached flags k kc c cc ops = s at *
  obtain ⟨c1, c2⟩ := post_count vs h
  have hn : s.posted.length - s.reaped.length = cinq.length := by
    rw [h.posted_eq, List.length_append]; omega
  simp only [step_post, hn]
  refine ⟨?_, ?_⟩
  · rw [c1, h.hold_len, Nat.add_comm]
  · intro n hnn
    cases hnn
    exact c2

/-- non-vacuity: ring of 4, one reference outstanding, one unreaped: room for 2 of the 5 offered -/
example : (step .fixed (reached 0 1 2 0 4294967295 [.post [1, 2], .reap]) (.post [3, 4, 5, 6, 7])).2 = .posted 2 := by
  decide

/-- `needs_wakeup` answers exactly whether the kernel set IORING_SQ_NEED_WAKEUP, whatever the other bits of the SQ
flags word (CQ overflow, task-run) are: with it an application following the wake-up protocol of an SQPOLL ring
wakes the idle kernel thread, so that what it flushed is consumed at all -/
theorem needs_wakeup_iff (other : Nat) (b : Bool) :
    needsWakeup (2 * other + (if b then 1 else 0)) = b := by
  cases b <;> simp [needsWakeup, Nat.add_mod, Nat.mul_mod]

example : needsWakeup 3 = true ∧ needsWakeup 2 = false ∧ needsWakeup 1 = true := by decide

/-- No call of the three methods panics, from any state, in any interleaving (so debug and release
builds behave alike). -/
theorem no_panic (s : St) (ops : List Op) : Out.panic ∉ (run .fixed s ops).2 := by
  induction ops generalizing s with
  | nil => simp [run]
  | cons op ops ih =>
    simp only [run, List.mem_cons, not_or]
    exact ⟨fun hx => step_fixed_no_panic s op hx.symm, ih _⟩

/-! ### the code before the repairs (commits "fix: io_uring submission ring counters…" and
"fix: get_next_cqe must test…"): `no_panic` and `cq_progress` were false -/

/-- debug build: `tail + 1` overflows when the submission tail is u32::MAX -/
theorem orig_debug_panics_at_wrap :
    (run (.orig false) (init 0 1 1 4294967295 0) [.get 1]).2 = [.panic] := by decide

/-- either build: a completion posted when the CQ tail wraps to 0 is never returned
(`tail <= head` with tail = 0, head = u32::MAX) although posted ≠ reaped -/
theorem orig_hides_completion_after_wrap (release : Bool) :
    (run (.orig release) (init 0 1 1 0 4294967295) [.post [5], .reap]).2 = [.posted 1, .noCqe] := by
  cases release <;> decide

/-- before /repo bc63d9e (`Code.eagerRelease`): `get_next_cqe` had already released the slot when it returned the
reference; on a full completion ring (here: 1 entry) the kernel's next post lands in the entry the caller is
still holding — reading through the reference afterwards shows completion 2 instead of 1.  `cq_content_held` is
the negation of this for the current code: the second post finds no room (`posted 0`) and the reference still
shows 1. -/
theorem orig_held_entry_overwritten :
    (run .eagerRelease (init 0 1 0 0 0) [.post [1], .reap, .post [2], .reread]).2 =
      [.posted 1, .cqe 1, .posted 1, .cqe 2] ∧
    (run .fixed (init 0 1 0 0 0) [.post [1], .reap, .post [2], .reread, .reap, .post [2], .reread, .reap]).2 =
      [.posted 1, .cqe 1, .posted 0, .cqe 1, .noCqe, .posted 1, .cqe 2, .cqe 2] := by decide

/-- the same inputs on the current code -/
theorem fixed_at_wrap :
    (run .fixed (init 0 1 1 4294967295 0) [.get 1]).2 = [.slot 1] ∧
    (run .fixed (init 0 1 1 0 4294967295) [.post [5], .reap]).2 = [.posted 1, .cqe 5] := by decide

/-! ### non-vacuity -/

/-- the parameter set is inhabited at the wrap boundary -/
example : Params 3 3 4294967294 4294967295 := ⟨by decide, by decide, by decide, by decide⟩

/-- a concrete interleaving crossing the 32-bit wrap on both rings, ring full on the way:
slots are handed out 0,1,(none),0; the kernel consumes them in order; completions come back in order -/
example :
    (run .fixed (init 0 1 1 4294967295 4294967295)
      [.get 11, .get 12, .get 13, .flush, .consume 1, .get 13, .flush, .consume 5,
       .post [21, 22, 23], .reap, .reap, .reap]).2 =
    [.slot 1, .slot 0, .noSlot, .flushed 2, .consumed [⟨1, 11⟩], .slot 1, .flushed 2,
     .consumed [⟨0, 12⟩, ⟨1, 13⟩], .posted 2, .cqe 21, .cqe 22, .noCqe] := by decide

/-- with 128-byte SQEs / 32-byte CQEs the index is shifted -/
example :
    (run .fixed (init 3072 2 2 4294967294 4294967294)
      [.get 1, .get 2, .get 3, .flush, .consume 2, .post [7, 8, 9], .reap]).2 =
    [.slot 4, .slot 6, .slot 0, .flushed 3, .consumed [⟨4, 1⟩, ⟨6, 2⟩], .posted 3, .cqe 7] := by decide

end TinyVerif.Ring
