/-
C08 — memcpy / memmove / memset / memcmp / bcmp match C for every length, alignment and overlap and
never write a byte outside the destination range.

Property theorems about `TinyVerif.Model.MemFns`, the executable mirror of
tiny-start/src/symbols/mem.rs (tied to the code by the correspondence run of `bin/check C08`).

Every theorem quantifies over *every* memory `m` (any arena, any content), *every* length `n`, *every*
destination/source address (hence every alignment) and, where it applies, every overlap.  Addresses are
`Nat`s; the only place where the 64-bit width of `usize` matters is memmove's direction test on the
wrapping pointer difference, and there C's precondition "the objects do not wrap the address space"
(`dest + n ≤ 2^64`, `src + n ≤ 2^64`) is assumed.  The other theorems hold for all `Nat` addresses (so in
particular under that precondition).

`Blit m m' d s n` (Proofs/MemFnsLemmas.lean) says: `m'.bad = m.bad` (no misaligned word dereference, no
`usize` underflow, no loop out of fuel happened), every byte `d+i`, `i<n`, of `m'` is the *original* byte
`s+i` of `m` (memmove semantics), every address outside `[d, d+n)` reads the same in `m'` as in `m`, and
(`Acc`) every address the call LOADED lies in `[s, s+n)` and every address it STORED to lies in `[d, d+n)` —
the model logs each byte address of each load in `Mem.rlog` and of each store in `Mem.wlog` (a word access = its
8 byte addresses).  `Filled` is the same for memset (no load at all).  `CmpAcc` is the access statement of the
compare loop: only `s1[i]`, `s2[i]`, `i < n` are loaded, nothing is stored.  The `*_reads_in_bounds` /
`*_writes_in_bounds` theorems below are "the functions access no memory outside `[s, s+n)` of any operand".
All statements are at full strength; nothing here is `…_partial`.
-/
import TinyVerif.Model.MemFns
import TinyVerif.Proofs.MemFnsLemmas
namespace TinyVerif.MemFns

/-! ## copy_forward / copy_backward -/

/-- **copy_forward** is a correct copy whenever going forwards is safe: `dest ≤ src` (overlapping or not)
or `dest` at/after the end of the source.  All `n` (below and above the word threshold), all alignments. -/
theorem copy_forward_spec (m : Mem) (dest src n : Nat) (hz : dest ≤ src ∨ src + n ≤ dest) :
    Blit m (copyForward m dest src n) dest src n :=
  copyForward_blit m dest src n hz

/-- **copy_backward** is a correct copy whenever going backwards is safe: `src ≤ dest` or `src` at/after the
end of the destination. -/
theorem copy_backward_spec (m : Mem) (dest src n : Nat) (hz : src ≤ dest ∨ dest + n ≤ src) :
    Blit m (copyBackward m dest src n) dest src n :=
  copyBackward_blit m dest src n hz

/-- without the direction hypothesis a forward copy is *not* a memmove (the hypothesis is not idle) -/
example : ¬ Blit (mkArena 64 32 1) (copyForward (mkArena 64 32 1) 66 64 4) 66 64 4 := by
  intro h
  have := h.2.1 68
  revert this
  decide

/-! ## memmove: every overlap -/

/-- **memmove**: for every `dest`, `src`, `n` whose objects do not wrap the address space — disjoint,
overlapping with `dest < src`, overlapping with `dest > src`, identical — the result is the memmove of the
original bytes and `dest` is returned. -/
theorem memmove_spec (m : Mem) (dest src n : Nat) (hd : dest + n ≤ TWO64) (hs : src + n ≤ TWO64) :
    Blit m (memmove m dest src n).1 dest src n ∧ (memmove m dest src n).2 = dest :=
  memmove_blit m dest src n hd hs

/-- the destination holds the original source bytes -/
theorem memmove_dest_bytes (m : Mem) (dest src n : Nat) (hd : dest + n ≤ TWO64) (hs : src + n ≤ TWO64)
    (i : Nat) (hi : i < n) : (memmove m dest src n).1.rd (dest + i) = m.rd (src + i) := by
  have h := (memmove_spec m dest src n hd hs).1.2.1 (dest + i)
  rw [if_pos (by omega)] at h
  rw [h]; congr 1; omega

/-- **no byte outside `[dest, dest+n)` is written** -/
theorem memmove_outside_unchanged (m : Mem) (dest src n : Nat) (hd : dest + n ≤ TWO64) (hs : src + n ≤ TWO64)
    (x : Nat) (hx : x < dest ∨ dest + n ≤ x) : (memmove m dest src n).1.rd x = m.rd x := by
  have h := (memmove_spec m dest src n hd hs).1.2.1 x
  rw [if_neg (by omega)] at h
  exact h

/-- no misaligned `*mut usize` dereference, no `usize` underflow, every loop terminates within its bound -/
theorem memmove_no_bad_event (m : Mem) (dest src n : Nat) (hd : dest + n ≤ TWO64) (hs : src + n ≤ TWO64) :
    (memmove m dest src n).1.bad = m.bad :=
  (memmove_spec m dest src n hd hs).1.1

/-- **memmove loads only source bytes**: every byte address loaded during the call lies in `[src, src+n)`
(word loads count with all 8 of their byte addresses), whatever the overlap and the alignments -/
theorem memmove_reads_in_bounds (m : Mem) (dest src n : Nat) (hd : dest + n ≤ TWO64) (hs : src + n ≤ TWO64)
    (a : Nat) (ha : a ∈ (memmove m dest src n).1.rlog) : a ∈ m.rlog ∨ (src ≤ a ∧ a < src + n) :=
  (memmove_spec m dest src n hd hs).1.2.2.1 a ha

/-- **memmove stores only to destination bytes** (the set of addresses stored to, not just the values left
behind: a store that rewrites the old value outside `[dest, dest+n)` would be in `wlog`) -/
theorem memmove_writes_in_bounds (m : Mem) (dest src n : Nat) (hd : dest + n ≤ TWO64) (hs : src + n ≤ TWO64)
    (a : Nat) (ha : a ∈ (memmove m dest src n).1.wlog) : a ∈ m.wlog ∨ (dest ≤ a ∧ a < dest + n) :=
  (memmove_spec m dest src n hd hs).1.2.2.2 a ha

/-- the direction lemma: the test `dest.wrapping_sub(src) >= n` on the wrapping difference chooses forward
exactly when forward is safe (given no wrap of the objects) -/
theorem memmove_direction (dest src n : Nat) (hd : dest + n ≤ TWO64) (hs : src + n ≤ TWO64) :
    (wrappingSub dest src ≥ n → dest ≤ src ∨ src + n ≤ dest) ∧
    (¬ wrappingSub dest src ≥ n → src ≤ dest ∨ dest + n ≤ src) := by
  by_cases h0 : n = 0
  · subst h0; omega
  · rw [wrappingSub_eq dest src (by simp only [TWO64] at *; omega) (by simp only [TWO64] at *; omega)]
    split <;> simp only [TWO64] at * <;> omega

/-! ## memcpy -/

/-- **memcpy** (C's precondition: the ranges do not overlap): destination = source bytes, nothing else
written, returns `dest`.  (The code is `copy_forward`, so it is in fact also correct for `dest ≤ src`.) -/
theorem memcpy_spec (m : Mem) (dest src n : Nat) (hdis : dest + n ≤ src ∨ src + n ≤ dest) :
    Blit m (memcpy m dest src n).1 dest src n ∧ (memcpy m dest src n).2 = dest :=
  ⟨copyForward_blit m dest src n (by omega), rfl⟩

theorem memcpy_outside_unchanged (m : Mem) (dest src n : Nat) (hdis : dest + n ≤ src ∨ src + n ≤ dest)
    (x : Nat) (hx : x < dest ∨ dest + n ≤ x) : (memcpy m dest src n).1.rd x = m.rd x := by
  have h := (memcpy_spec m dest src n hdis).1.2.1 x
  rw [if_neg (by omega)] at h
  exact h

theorem memcpy_dest_bytes (m : Mem) (dest src n : Nat) (hdis : dest + n ≤ src ∨ src + n ≤ dest)
    (i : Nat) (hi : i < n) : (memcpy m dest src n).1.rd (dest + i) = m.rd (src + i) := by
  have h := (memcpy_spec m dest src n hdis).1.2.1 (dest + i)
  rw [if_pos (by omega)] at h
  rw [h]; congr 1; omega

theorem memcpy_reads_in_bounds (m : Mem) (dest src n : Nat) (hdis : dest + n ≤ src ∨ src + n ≤ dest)
    (a : Nat) (ha : a ∈ (memcpy m dest src n).1.rlog) : a ∈ m.rlog ∨ (src ≤ a ∧ a < src + n) :=
  (memcpy_spec m dest src n hdis).1.2.2.1 a ha

theorem memcpy_writes_in_bounds (m : Mem) (dest src n : Nat) (hdis : dest + n ≤ src ∨ src + n ≤ dest)
    (a : Nat) (ha : a ∈ (memcpy m dest src n).1.wlog) : a ∈ m.wlog ∨ (dest ≤ a ∧ a < dest + n) :=
  (memcpy_spec m dest src n hdis).1.2.2.2 a ha

/-! ## memset -/

/-- `c as u8` is the low byte of the `c_int` -/
theorem asU8_low_byte (c : Int) : ((asU8 c).toNat : Int) = c % 256 := by
  unfold asU8
  rw [UInt8.toNat_ofNat']
  omega

/-- **memset**: `[s, s+n)` is filled with the low byte of `c`, every other address is unchanged, `s` is
returned; every `n`, every alignment of `s`, every `c`. -/
theorem memset_spec (m : Mem) (s : Nat) (c : Int) (n : Nat) :
    Filled m (memset m s c n).1 s (asU8 c) n ∧ (memset m s c n).2 = s :=
  ⟨setBytes_filled m s (asU8 c) n, rfl⟩

theorem memset_outside_unchanged (m : Mem) (s : Nat) (c : Int) (n x : Nat) (hx : x < s ∨ s + n ≤ x) :
    (memset m s c n).1.rd x = m.rd x := by
  have h := (memset_spec m s c n).1.2.1 x
  rw [if_neg (by omega)] at h
  exact h

theorem memset_dest_bytes (m : Mem) (s : Nat) (c : Int) (n i : Nat) (hi : i < n) :
    (memset m s c n).1.rd (s + i) = asU8 c := by
  have h := (memset_spec m s c n).1.2.1 (s + i)
  rw [if_pos (by omega)] at h
  exact h

/-- **memset loads nothing** and stores only inside `[s, s+n)` -/
theorem memset_reads_nothing (m : Mem) (s : Nat) (c : Int) (n a : Nat) (ha : a ∈ (memset m s c n).1.rlog) :
    a ∈ m.rlog := by
  rcases (memset_spec m s c n).1.2.2.1 a ha with h | h
  · exact h
  · omega

theorem memset_writes_in_bounds (m : Mem) (s : Nat) (c : Int) (n a : Nat) (ha : a ∈ (memset m s c n).1.wlog) :
    a ∈ m.wlog ∨ (s ≤ a ∧ a < s + n) :=
  (memset_spec m s c n).1.2.2.2 a ha

/-! ## memcmp / bcmp -/

/-- **memcmp**: the loop always returns; the result is 0 with all `n` byte pairs equal, or it is the
difference (as `i32`s) of the *first* differing pair of (unsigned) bytes. -/
theorem memcmp_spec (m : Mem) (s1 s2 n : Nat) : CmpPost m s1 s2 n (memcmp m s1 s2 n).2 :=
  compareBytes_spec m s1 s2 n

/-- result 0 iff the ranges are equal -/
theorem memcmp_zero_iff (m : Mem) (s1 s2 n : Nat) :
    (memcmp m s1 s2 n).2 = some 0 ↔ ∀ j, j < n → m.rd (s1 + j) = m.rd (s2 + j) := by
  have h := memcmp_spec m s1 s2 n
  cases hc : (memcmp m s1 s2 n).2 with
  | none => rw [hc] at h; exact h.elim
  | some v =>
    rw [hc] at h
    rcases h with ⟨hv, hall⟩ | ⟨p, hp, _, hne, hv⟩
    · subst hv; exact ⟨fun _ => hall, fun _ => rfl⟩
    · have hne' : (m.rd (s1 + p)).toNat ≠ (m.rd (s2 + p)).toNat := fun e => hne (UInt8.toNat_inj.mp e)
      constructor
      · intro e; injection e with e; omega
      · intro hall; exact absurd (hall p hp) hne

/-- otherwise its sign is the sign of the first differing bytes' (unsigned) difference, and it is an `i32` -/
theorem memcmp_sign (m : Mem) (s1 s2 n : Nat) (v : Int) (hv : (memcmp m s1 s2 n).2 = some v) (hnz : v ≠ 0) :
    ∃ p, p < n ∧ (∀ j, j < p → m.rd (s1 + j) = m.rd (s2 + j)) ∧
      (v < 0 ↔ (m.rd (s1 + p)).toNat < (m.rd (s2 + p)).toNat) ∧
      (v > 0 ↔ (m.rd (s1 + p)).toNat > (m.rd (s2 + p)).toNat) ∧ -255 ≤ v ∧ v ≤ 255 := by
  have h := memcmp_spec m s1 s2 n
  rw [hv] at h
  rcases h with ⟨h0, _⟩ | ⟨p, hp, hpre, _, hval⟩
  · exact absurd h0 hnz
  · have b1 := (m.rd (s1 + p)).toNat_lt
    have b2 := (m.rd (s2 + p)).toNat_lt
    exact ⟨p, hp, hpre, by omega, by omega, by omega, by omega⟩

/-- **bcmp** is memcmp -/
theorem bcmp_eq_memcmp (m : Mem) (s1 s2 n : Nat) : bcmp m s1 s2 n = memcmp m s1 s2 n := rfl

theorem bcmp_zero_iff (m : Mem) (s1 s2 n : Nat) :
    (bcmp m s1 s2 n).2 = some 0 ↔ ∀ j, j < n → m.rd (s1 + j) = m.rd (s2 + j) :=
  memcmp_zero_iff m s1 s2 n

/-- **memcmp loads only operand bytes**: every byte address loaded during the call is `s1 + i` or `s2 + i` for some
`i < n` — nothing before the start, nothing past `s1[n-1]` / `s2[n-1]`, for either operand -/
theorem memcmp_reads_in_bounds (m : Mem) (s1 s2 n a : Nat) (ha : a ∈ (memcmp m s1 s2 n).1.rlog) :
    a ∈ m.rlog ∨ (s1 ≤ a ∧ a < s1 + n) ∨ (s2 ≤ a ∧ a < s2 + n) := by
  rcases (compareBytes_acc m s1 s2 n).1 a ha with h | ⟨i, hi, h | h⟩
  · exact Or.inl h
  · exact Or.inr (Or.inl (by omega))
  · exact Or.inr (Or.inr (by omega))

/-- sharper: a loaded byte of the second operand has the same index `i < n` as a loaded byte of the first -/
theorem memcmp_reads_indexed (m : Mem) (s1 s2 n a : Nat) (ha : a ∈ (memcmp m s1 s2 n).1.rlog) :
    a ∈ m.rlog ∨ ∃ i, i < n ∧ (a = s1 + i ∨ a = s2 + i) :=
  (compareBytes_acc m s1 s2 n).1 a ha

/-- **memcmp stores nothing** and leaves the memory as it was -/
theorem memcmp_writes_nothing (m : Mem) (s1 s2 n : Nat) :
    (memcmp m s1 s2 n).1.wlog = m.wlog ∧ (memcmp m s1 s2 n).1.bad = m.bad ∧ ∀ x, (memcmp m s1 s2 n).1.rd x = m.rd x :=
  (compareBytes_acc m s1 s2 n).2

theorem bcmp_reads_in_bounds (m : Mem) (s1 s2 n a : Nat) (ha : a ∈ (bcmp m s1 s2 n).1.rlog) :
    a ∈ m.rlog ∨ (s1 ≤ a ∧ a < s1 + n) ∨ (s2 ≤ a ∧ a < s2 + n) :=
  memcmp_reads_in_bounds m s1 s2 n a ha

theorem bcmp_writes_nothing (m : Mem) (s1 s2 n : Nat) :
    (bcmp m s1 s2 n).1.wlog = m.wlog ∧ (bcmp m s1 s2 n).1.bad = m.bad ∧ ∀ x, (bcmp m s1 s2 n).1.rd x = m.rd x :=
  memcmp_writes_nothing m s1 s2 n

/-! ## non-vacuity: concrete runs through every branch (word path with aligned and misaligned source,
byte path, both directions), on a pattern-filled arena -/

-- the constants the theorems were proved for are the ones in the code (also compared at run time)
example : WORD_SIZE = 8 ∧ WORD_MASK = 7 ∧ WORD_COPY_THRESHOLD = 16 := by decide
-- hypotheses of memmove_spec are met at the very top of the address space, with overlap in both directions
example : (TWO64 - 40) + 40 ≤ TWO64 ∧ (TWO64 - 43) + 40 ≤ TWO64 := by decide
example : wrappingSub 100 103 = TWO64 - 3 ∧ wrappingSub 103 100 = 3 := by decide
-- forward, n ≥ 16, destination misaligned by 3, source then misaligned: word path with unaligned reads
example : ((memmove (mkArena 64 128 1) 67 70 40).1.rd 67 = pattern 1 6 ∧
           (memmove (mkArena 64 128 1) 67 70 40).1.rd 106 = pattern 1 45 ∧
           (memmove (mkArena 64 128 1) 67 70 40).1.rd 107 = pattern 1 43 ∧
           (memmove (mkArena 64 128 1) 67 70 40).1.bad = 0) := by decide +kernel
-- backward (dest > src, overlapping), word path with aligned source
example : ((memmove (mkArena 64 128 1) 80 72 40).1.rd 80 = pattern 1 8 ∧
           (memmove (mkArena 64 128 1) 80 72 40).1.rd 119 = pattern 1 47 ∧
           (memmove (mkArena 64 128 1) 80 72 40).1.rd 79 = pattern 1 15 ∧
           (memmove (mkArena 64 128 1) 80 72 40).1.bad = 0) := by decide +kernel
-- byte path (n < 16)
example : (memcpy (mkArena 64 64 2) 65 100 15).1.rd 79 = pattern 2 50 := by decide +kernel
-- memset: low byte of a negative c_int, word path
example : ((memset (mkArena 64 64 1) 67 (-2) 30).1.rd 67 = 254 ∧ (memset (mkArena 64 64 1) 67 (-2) 30).1.rd 96 = 254 ∧
           (memset (mkArena 64 64 1) 67 (-2) 30).1.rd 97 = pattern 1 33 ∧ (memset (mkArena 64 64 1) 67 (-2) 30).1.bad = 0) := by
  decide +kernel
example : broadcast 0xAB = 0xABABABABABABABAB := by decide +kernel
-- memcmp: equal, first difference negative / positive on *unsigned* bytes
example : (memcmp (mkArena 0 300 1) 10 261 20).2 = some 0 := by decide +kernel
example : (memcmp ((mkArena 0 300 1).wr 270 255) 10 261 20).2 = some (-106) := by decide +kernel
example : (memcmp (((mkArena 0 300 1).wr 15 128).wr 266 127) 10 261 20).2 = some 1 := by decide +kernel

/-! ### the access logs are not idle -/
-- the logs record what happened: byte path = one load and one store per byte, in order; the word path logs all
-- 8 byte addresses of each word
example : (memcpy (mkArena 64 64 2) 65 100 3).1.rlog = [102, 101, 100] ∧
          (memcpy (mkArena 64 64 2) 65 100 3).1.wlog = [67, 66, 65] := by decide +kernel
example : (memmove (mkArena 64 128 1) 67 70 40).1.rlog.length = 40 ∧
          (memmove (mkArena 64 128 1) 67 70 40).1.wlog.length = 40 ∧
          109 ∈ (memmove (mkArena 64 128 1) 67 70 40).1.rlog ∧ 70 ∈ (memmove (mkArena 64 128 1) 67 70 40).1.rlog := by
  decide +kernel
example : (memset (mkArena 64 64 1) 67 (-2) 30).1.rlog = [] ∧ (memset (mkArena 64 64 1) 67 (-2) 30).1.wlog.length = 30 := by
  decide +kernel
-- memcmp of equal ranges loads all 2n bytes; it stops loading at the first difference
example : (memcmp (mkArena 0 300 1) 10 261 20).1.rlog.length = 40 := by decide +kernel
example : (memcmp ((mkArena 0 300 1).wr 270 255) 10 261 20).1.rlog = [270, 19, 269, 18, 268, 17, 267, 16, 266, 15, 265,
    14, 264, 13, 263, 12, 262, 11, 261, 10] := by decide +kernel
-- `Acc` is falsifiable: a word load that starts inside a 7-byte operand but runs one byte past its end (the
-- "`while p < end`" word loop) is NOT within the operand
example : ¬ Acc (mkArena 64 64 1) (noteWord (mkArena 64 64 1) 100) 100 107 0 0 := by
  intro h
  have := h.1 107 (by decide)
  revert this
  decide

end TinyVerif.MemFns
