/-
C20 — parsers derived with `ArgParse` / `Subcommand` accept exactly their declared grammar and never panic.
Property theorems about `TinyVerif.Model.Cli` (tied to tiny-cli's derives by the correspondence run of `bin/check C20`:
the same shape table generates the Rust structs with the real derives and the Lean `Shape` terms).

All theorems quantify over *every* shape (any number of fields, any nesting depth), every argument list of arbitrary
byte strings and every rendering `dbg` of the `{:?}` text of an unrecognised argument.
-/
import TinyVerif.Model.Cli
import TinyVerif.Proofs.CliLemmas
set_option linter.unusedSimpArgs false
set_option linter.unusedVariables false
namespace TinyVerif.Cli

/-! ## the 128-byte cause buffer -/

/-- **cause_buf_in_bounds**: whatever pieces are written, building the cause never panics (the `unwrap` on
`get_mut(len..len+n)` and the subtraction `128 - len` are unreachable), the stored text is at most 128 bytes, it is
exactly the concatenation of the pieces when that fits and exactly the fallback text when it does not. -/
theorem cause_buf_in_bounds (pieces : List Bytes) :
    ∃ c, newCause pieces = .ok c ∧ c.length ≤ 128 ∧
      (pieces.flatten.length ≤ 128 → c = pieces.flatten) ∧
      (128 < pieces.flatten.length → c = M_OVERFLOW) := by
  refine ⟨_, newCause_spec pieces, ?_, ?_, ?_⟩
  · by_cases h : pieces.flatten.length ≤ CAP
    · rw [if_pos h]; exact h
    · rw [if_neg h]; decide
  · intro h; rw [if_pos h]
  · intro h; rw [if_neg (by simp only [CAP]; omega)]

/-- the invariant `len ≤ 128 ∧ len = bytes written` is kept by every successful `write_str`, a refused write means the
text really does not fit, and no write panics -/
theorem cause_buf_write_inv (b : CauseBuf) (s : Bytes) (hb : b.Inv) :
    (∀ b', b.writeStr s = .ok b' → b'.Inv ∧ b'.data = b.data ++ s) ∧
    (b.writeStr s = .fmtErr → CAP < b.len + s.length) ∧
    b.writeStr s ≠ .panic := by
  obtain ⟨h1, h2⟩ := hb
  have hc : ¬ CAP < b.len := by omega
  unfold CauseBuf.writeStr
  simp only [hc, if_false]
  by_cases hs : CAP - b.len < s.length
  · simp only [hs, if_true]
    refine ⟨?_, ?_, ?_⟩
    · intro b' h; cases h
    · intro _; omega
    · intro h; cases h
  · have h3 : ¬ CAP < b.len + s.length := by omega
    simp only [hs, h3, if_false]
    refine ⟨?_, ?_, ?_⟩
    · intro b' h
      cases h
      refine ⟨⟨?_, ?_⟩, rfl⟩
      · simp only [List.length_append]; omega
      · simp only []; omega
    · intro h; cases h
    · intro h; cases h

example : newCause [M_UNREC, dbgAscii ([122, 122] ++ [0])] =
    .ok (M_UNREC ++ [79, 107, 40, 34, 122, 122, 92, 48, 34, 41]) := by decide
-- a 110-byte unrecognised argument: the fallback text
set_option maxRecDepth 8000 in
example : newCause [M_UNREC, dbgAscii (List.replicate 110 120 ++ [0])] = .ok M_OVERFLOW := by decide

/-! ## totality: `ok` or an error value, never a panic -/

/-- **parse_total**: for every shape, every list of arbitrary byte strings (non-UTF-8, empty, option-like, arbitrarily
long) and every `{:?}` rendering, the outcome is a parsed value or an error value whose cause text is at most 128 bytes
— never a panic. -/
theorem parse_total (dbg : Bytes → Bytes) (sh : Shape) (args : List Bytes) :
    (∃ v, report dbg sh args = .ok v) ∨
    (∃ help kind cause, report dbg sh args = .err help kind cause ∧ cause.length ≤ 128) := by
  unfold report
  cases hp : parse sh args with
  | ok v => exact Or.inl ⟨v, rfl⟩
  | error e =>
    obtain ⟨c, hc, hlen, _, _⟩ := cause_buf_in_bounds (e.kind.pieces dbg)
    exact Or.inr ⟨e.help, e.kind, c, by simp only [hc], hlen⟩

/-! ## one struct level: a well-formed prefix followed by anything -/

/-- after a prefix of well-formed occurrences the parser is in the state the occurrences denote -/
theorem parse_prefix (fs : List Field) (sub : SubSpec) (its : List Item) (tail : List Bytes)
    (hg : GoodItems fs sub.present (initAccs fs) its) :
    parse (.mk fs sub) (renderItems fs its ++ tail) =
      match loop fs sub.present (subParse sub) (applyItems (initAccs fs) its) .none tail with
      | .error e => .error e
      | .ok (accs, sv) => finish fs sub accs sv := by
  rw [parse, loop_items fs sub.present (subParse sub) .none tail its (initAccs fs) hg]
  rfl

/-- **help_err**: `-h` / `--help` in any position after well-formed occurrences (and not shadowed by an option of the
struct spelled `-h`) yields the help error of this struct with an empty cause. -/
theorem help_err (dbg : Bytes → Bytes) (fs : List Field) (sub : SubSpec) (its : List Item) (h : Bytes) (rest : List Bytes)
    (hg : GoodItems fs sub.present (initAccs fs) its) (hh : isHelp h = true) (hns : findOpt fs 0 h = none) :
    parse (.mk fs sub) (renderItems fs its ++ h :: rest) = .error ⟨[], .help⟩ ∧
    report dbg (.mk fs sub) (renderItems fs its ++ h :: rest) = .err [] .help [] := by
  have hp : parse (.mk fs sub) (renderItems fs its ++ h :: rest) = .error ⟨[], .help⟩ := by
    rw [parse_prefix fs sub its _ hg, loop]
    simp only [hns, hh, if_true]
  refine ⟨hp, ?_⟩
  unfold report
  rw [hp]
  rfl

/-- **unknown_option_err**: an argument that is no option literal of the struct, no help request, no subcommand name
and for which no positional is left is rejected with "Unrecognized argument" and this struct's help. -/
theorem unknown_option_err (fs : List Field) (sub : SubSpec) (its : List Item) (x : Bytes) (rest : List Bytes)
    (hg : GoodItems fs sub.present (initAccs fs) its) (hx : findOpt fs 0 x = none) (hh : isHelp x = false)
    (hno : (sub.present = true ∧ subParse sub x rest = .noMatch) ∨
           (sub.present = false ∧ firstEmptyPos fs (applyItems (initAccs fs) its) 0 = none)) :
    parse (.mk fs sub) (renderItems fs its ++ x :: rest) = .error ⟨[], .unrecognized x⟩ := by
  rw [parse_prefix fs sub its _ hg, loop]
  rcases hno with ⟨hp, hs⟩ | ⟨hp, hs⟩
  · simp only [hx, hh, hp, hs, if_true, Bool.false_eq_true, if_false]
  · simp only [hx, hh, hp, hs, Bool.false_eq_true, if_false]

/-- the cause of an unrecognised argument is `Unrecognized argument: ` + its `{:?}` text, or the fallback when that
exceeds 128 bytes (e.g. a 10 kB argument) -/
theorem unknown_option_cause (dbg : Bytes → Bytes) (sh : Shape) (args : List Bytes) (path : List Bytes) (x : Bytes)
    (hp : parse sh args = .error ⟨path, .unrecognized x⟩) :
    report dbg sh args = .err path (.unrecognized x)
      (if (M_UNREC ++ dbg (x ++ [0])).length ≤ 128 then M_UNREC ++ dbg (x ++ [0]) else M_OVERFLOW) := by
  unfold report
  rw [hp]
  simp only [ErrKind.pieces, newCause_spec, List.flatten_cons, List.flatten_nil, List.append_nil, CAP]

/-- **missing_value_err**: a value-taking option as the last argument -/
theorem missing_value_err (fs : List Field) (sub : SubSpec) (its : List Item) (i : Nat) (f : Field) (l : Bytes)
    (hg : GoodItems fs sub.present (initAccs fs) its) (hfind : findOpt fs 0 l = some (i, f)) (hk : f.kind ≠ .bool) :
    parse (.mk fs sub) (renderItems fs its ++ [l]) = .error ⟨[], .missingValue f.litMatch⟩ := by
  rw [parse_prefix fs sub its _ hg, loop]
  simp only [hfind, hk, if_false]

/-- **malformed_value_err**: a value that does not convert (not UTF-8, not an `i32`) is an error naming the option;
the argument after a value-taking option is consumed whatever it looks like -/
theorem malformed_value_err (fs : List Field) (sub : SubSpec) (its : List Item) (i : Nat) (f : Field) (l x : Bytes)
    (rest : List Bytes) (ce : ConvErr)
    (hg : GoodItems fs sub.present (initAccs fs) its) (hfind : findOpt fs 0 l = some (i, f)) (hk : f.kind ≠ .bool)
    (hc : convert f.kind x = .error ce) :
    parse (.mk fs sub) (renderItems fs its ++ l :: x :: rest) = .error ⟨[], ce.atOpt f.litMatch⟩ := by
  rw [parse_prefix fs sub its _ hg, loop]
  simp only [hfind, hk, if_false, hc]

/-- **missing_required_err**: when the arguments end and a required option/positional was never given, the error names
the first such field in declaration order -/
theorem missing_required_err (fs : List Field) (sub : SubSpec) (its : List Item) (k : ErrKind)
    (hg : GoodItems fs sub.present (initAccs fs) its)
    (hm : firstMissing fs (applyItems (initAccs fs) its) = some k) :
    parse (.mk fs sub) (renderItems fs its) = .error ⟨[], k⟩ := by
  have := parse_prefix fs sub its [] hg
  rw [List.append_nil] at this
  rw [this, loop]
  simp only [finish, hm]

/-- a required subcommand that was never given -/
theorem missing_command_err (fs : List Field) (sub : SubSpec) (its : List Item)
    (hg : GoodItems fs sub.present (initAccs fs) its)
    (hm : firstMissing fs (applyItems (initAccs fs) its) = none) (hr : sub.required = true) :
    parse (.mk fs sub) (renderItems fs its) = .error ⟨[], .missingCommand sub.names⟩ := by
  have := parse_prefix fs sub its [] hg
  rw [List.append_nil] at this
  rw [this, loop]
  simp only [finish, hm, hr]


/-! ## round trip: every arrangement of every admissible assignment parses back to it -/

/-- a subcommand name must reach the subcommand tail: it is not an option literal of the parent and not `-h`/`--help` -/
def NameOk (fs : List Field) (n : Bytes) : Prop := findOpt fs 0 n = none ∧ isHelp n = false

mutual
/-- `Admissible sh v lay`: `lay` arranges exactly the values of `v` — per struct level (`LevelAdm`, Proofs/CliLemmas):
* match literals are not shadowed by an earlier field, positional fields are `T`/`Option<T>`;
* every occurrence is typed for its field and its printed value converts back (`convert kind (print a) = ok a`:
  UTF-8 for `str`, print/parse round trip for `FromStr` kinds); a positional value is not an option literal of the
  struct nor `-h`/`--help` (option values may be anything);
* positional values appear in declaration order with none skipped; options in *any* order, interleaved anyhow,
  short or long alias per occurrence;
* per field the occurrences denote the value: flag set iff it occurs, `Vec` = its occurrences in order, required
  exactly once, `Option` at most once;
* the chosen subcommand is a declared variant whose name is not captured by the parent, and (recursively) the
  variant's struct is admissible one level down. -/
def Admissible : Shape → Value → List (List Item) → Prop
  | .mk fs sub, v, lay =>
    match v with
    | .mk vs sv => LevelAdm fs sub.present vs (lay.headD []) ∧ AdmSub fs sub sv lay.tail
def AdmSub (fs : List Field) : SubSpec → SubVal → List (List Item) → Prop
  | .none, sv, _ => sv = .none
  | .cmds opt cs, sv, lay => (sv = .none ∧ opt = true) ∨ AdmCmds fs cs sv lay
def AdmCmds (fs : List Field) : Cmds → SubVal → List (List Item) → Prop
  | .nil, _, _ => False
  | .unit n r, sv, lay =>
    match sv with
    | .unit m => if m = n then NameOk fs n else AdmCmds fs r sv lay
    | .args m _ => m ≠ n ∧ AdmCmds fs r sv lay
    | .none => False
  | .args n sh r, sv, lay =>
    match sv with
    | .args m v => if m = n then NameOk fs n ∧ Admissible sh v lay else AdmCmds fs r sv lay
    | .unit m => m ≠ n ∧ AdmCmds fs r sv lay
    | .none => False
end

theorem renderCmds_none : (cs : Cmds) → (lay : List (List Item)) → renderCmds cs .none lay = []
  | .nil, _ => by simp only [renderCmds]
  | .unit n r, lay => by simp only [renderCmds]; exact renderCmds_none r lay
  | .args n sh r, lay => by simp only [renderCmds]; exact renderCmds_none r lay

/-- what the subcommand tail of an admissible value looks like to the parent's loop -/
def TailOk (fs : List Field) (cs : Cmds) (sv : SubVal) (tail : List Bytes) : Prop :=
  ∃ n rest, tail = n :: rest ∧ NameOk fs n ∧
    ((sv = .unit n ∧ rest = [] ∧ cmdsParse cs n [] = .unit n) ∨
     (∃ v, sv = .args n v ∧ cmdsParse cs n rest = .inner n (.ok v)))

/-- one struct level, given what its subcommand tail does -/
theorem parse_level (fs : List Field) (sub : SubSpec) (vs : List Acc) (sv : SubVal) (its : List Item) (tail : List Bytes)
    (hl : LevelAdm fs sub.present vs its)
    (ht : (sv = .none ∧ tail = [] ∧ sub.required = false) ∨ (∃ o cs, sub = .cmds o cs ∧ TailOk fs cs sv tail)) :
    parse (.mk fs sub) (renderItems fs its ++ tail) = .ok (.mk vs sv) := by
  obtain ⟨hg, hap, hm⟩ := level_sound hl
  rw [parse_prefix fs sub its tail hg, hap]
  rcases ht with ⟨h1, h2, h3⟩ | ⟨o, cs, hsub, n, rest, htl, ⟨hn1, hn2⟩, hcase⟩
  · subst h1; subst h2
    rw [loop]
    simp only [finish, hm, h3]
  · subst hsub; subst htl
    rw [loop]
    simp only [hn1, hn2, SubSpec.present, if_true, Bool.false_eq_true, if_false, subParse]
    rcases hcase with ⟨h1, h2, h3⟩ | ⟨v, h1, h2⟩
    · subst h1; subst h2
      rw [h3]
      simp only []
      rw [loop]
      simp only [finish, hm]
      cases o <;> rfl
    · subst h1
      rw [h2]
      simp only [finish, hm]
      cases o <;> rfl

mutual
/-- **parse_render**: for every shape (any number of fields, any nesting of required/optional subcommands), every
value assignment and every admissible arrangement of it (options in any order and interleaved with the positionals,
short or long alias per occurrence), rendering and parsing gives back exactly the assignment. -/
theorem parse_render : (sh : Shape) → (v : Value) → (lay : List (List Item)) →
    Admissible sh v lay → parse sh (render sh v lay) = .ok v
  | .mk fs sub, .mk vs sv, lay, h => by
    rw [Admissible] at h
    obtain ⟨hl, hs⟩ := h
    rw [render]
    apply parse_level fs sub vs sv _ _ hl
    cases sub with
    | none =>
      rw [AdmSub] at hs
      subst hs
      left
      exact ⟨rfl, by rw [renderSub], rfl⟩
    | cmds o cs =>
      rw [AdmSub] at hs
      rw [renderSub]
      rcases hs with ⟨h1, h2⟩ | hc
      · subst h1; subst h2
        left
        exact ⟨rfl, renderCmds_none cs _, rfl⟩
      · right
        exact ⟨o, cs, rfl, cmds_render fs cs sv lay.tail hc⟩
theorem cmds_render (fs : List Field) : (cs : Cmds) → (sv : SubVal) → (lay : List (List Item)) →
    AdmCmds fs cs sv lay → TailOk fs cs sv (renderCmds cs sv lay)
  | .nil, sv, lay, h => by simp only [AdmCmds] at h
  | .unit n r, .none, lay, h => by simp only [AdmCmds] at h
  | .unit n r, .unit m, lay, h => by
    simp only [AdmCmds] at h
    simp only [renderCmds]
    by_cases hmn : m = n
    · subst hmn
      simp only [if_true] at h ⊢
      exact ⟨m, [], rfl, h, Or.inl ⟨rfl, rfl, by simp only [cmdsParse, if_true]⟩⟩
    · simp only [hmn, if_false] at h ⊢
      obtain ⟨k, rest, h1, h2, h3⟩ := cmds_render fs r (.unit m) lay h
      refine ⟨k, rest, h1, h2, ?_⟩
      rcases h3 with ⟨a, b, c⟩ | ⟨v, a, b⟩
      · cases a
        exact Or.inl ⟨rfl, b, by simp only [cmdsParse, hmn, if_false]; exact c⟩
      · cases a
  | .unit n r, .args m v, lay, h => by
    simp only [AdmCmds] at h
    obtain ⟨hmn, h⟩ := h
    simp only [renderCmds]
    obtain ⟨k, rest, h1, h2, h3⟩ := cmds_render fs r (.args m v) lay h
    refine ⟨k, rest, h1, h2, ?_⟩
    rcases h3 with ⟨a, b, c⟩ | ⟨v', a, b⟩
    · cases a
    · cases a
      exact Or.inr ⟨v, rfl, by simp only [cmdsParse, hmn, if_false]; exact b⟩
  | .args n sh r, .none, lay, h => by simp only [AdmCmds] at h
  | .args n sh r, .unit m, lay, h => by
    simp only [AdmCmds] at h
    obtain ⟨hmn, h⟩ := h
    simp only [renderCmds]
    obtain ⟨k, rest, h1, h2, h3⟩ := cmds_render fs r (.unit m) lay h
    refine ⟨k, rest, h1, h2, ?_⟩
    rcases h3 with ⟨a, b, c⟩ | ⟨v', a, b⟩
    · cases a
      exact Or.inl ⟨rfl, b, by simp only [cmdsParse, hmn, if_false]; exact c⟩
    · cases a
  | .args n sh r, .args m v, lay, h => by
    simp only [AdmCmds] at h
    simp only [renderCmds]
    by_cases hmn : m = n
    · subst hmn
      simp only [if_true] at h ⊢
      obtain ⟨hn, hadm⟩ := h
      exact ⟨m, render sh v lay, rfl, hn, Or.inr ⟨v, rfl, by simp only [cmdsParse, if_true]; rw [parse_render sh v lay hadm]⟩⟩
    · simp only [hmn, if_false] at h ⊢
      obtain ⟨k, rest, h1, h2, h3⟩ := cmds_render fs r (.args m v) lay h
      refine ⟨k, rest, h1, h2, ?_⟩
      rcases h3 with ⟨a, b, c⟩ | ⟨v', a, b⟩
      · cases a
      · cases a
        exact Or.inr ⟨v, rfl, by simp only [cmdsParse, hmn, if_false]; exact b⟩
end

/-! ## non-vacuity -/

/-- `struct { #[cli(long="num", short="n")] num: i32, #[cli(short="v")] v: bool, file: &str }` -/
def exFs : List Field :=
  [⟨[110,117,109], some [45,45,110,117,109], some [45,110], .int, .req⟩,
   ⟨[118], none, some [45,118], .bool, .req⟩,
   ⟨[102,105,108,101], none, none, .str, .req⟩]
def exSh : Shape := .mk exFs .none
def exV : Value := .mk [.single (some (.int (-5))), .flag true, .single (some (.bytes [120]))] .none
/-- `x -v --num -5`: the positional first, then the flag, then the option by its long alias -/
def exLay : List (List Item) := [[.posv 2 (.bytes [120]), .flag 1 false, .optv 0 true (.int (-5))]]

example : render exSh exV exLay = [[120], [45,118], [45,45,110,117,109], [45,53]] := by decide

theorem exAdm : Admissible exSh exV exLay := by
  rw [exSh, exV, Admissible]
  refine ⟨⟨?_, ?_, ?_, ?_, rfl, ?_⟩, rfl⟩
  · intro i f ul l hf hl
    rcases i with _ | _ | _ | i
    · simp [exFs] at hf; subst hf; cases ul <;> simp [Field.lit] at hl <;> subst hl <;> decide
    · simp [exFs] at hf; subst hf; cases ul <;> simp [Field.lit] at hl <;> subst hl <;> decide
    · simp [exFs] at hf; subst hf; cases ul <;> simp [Field.lit] at hl
    · simp [exFs] at hf
  · intro i f hf hp
    rcases i with _ | _ | _ | i
    · simp [exFs] at hf; subst hf; simp [Field.isPos] at hp
    · simp [exFs] at hf; subst hf; simp [Field.isPos] at hp
    · simp [exFs] at hf; subst hf; simp
    · simp [exFs] at hf
  · intro it hit
    simp [exLay] at hit
    rcases hit with h | h | h <;> subst h
    · exact ⟨_, rfl, by decide, rfl, by decide, by decide, rfl⟩
    · exact ⟨_, rfl, by decide, rfl⟩
    · exact ⟨_, rfl, by decide, by decide, rfl⟩
  · simp only [exLay, List.headD, PosOrdered]
    refine ⟨by simp, ?_, trivial⟩
    intro j g hj hg hp
    rcases j with _ | _ | j
    · simp [exFs] at hg; subst hg; simp [Field.isPos] at hp
    · simp [exFs] at hg; subst hg; simp [Field.isPos] at hp
    · omega
  · intro j f hf
    rcases j with _ | _ | _ | j
    · simp [exFs] at hf; subst hf
      exact ⟨_, rfl, by simp [FieldVal, exLay, occs, Item.target, Item.atom?]⟩
    · simp [exFs] at hf; subst hf
      exact ⟨_, rfl, by simp [FieldVal, exLay, occs, Item.target, Item.atom?]⟩
    · simp [exFs] at hf; subst hf
      exact ⟨_, rfl, by simp [FieldVal, exLay, occs, Item.target, Item.atom?]⟩
    · simp [exFs] at hf

/-- non-vacuity of `parse_render`: the instance above, obtained from the theorem -/
example : parse exSh (render exSh exV exLay) = .ok exV := parse_render _ _ _ exAdm

/-! concrete behaviours of the generated grammar (each also replayed on the compiled derive by `bin/check C20`) -/

-- the hypotheses of the error lemmas are satisfiable: `x -v` is a well-formed prefix of `exSh`
example : GoodItems exFs false (initAccs exFs) [.posv 2 (.bytes [120]), .flag 1 false] :=
  ⟨⟨rfl, by decide, by decide, _, rfl, rfl⟩, ⟨_, _, rfl, rfl, by decide, rfl⟩, trivial⟩
-- `x -v -h` : help;  `x -v --num` : missing value;  `x -v` : required option missing;  `x -v y` : unrecognised
example : parse exSh [[120], [45,118], [45,104]] = .error ⟨[], .help⟩ := rfl
example : parse exSh [[120], [45,118], [45,45,110,117,109]] = .error ⟨[], .missingValue [45,110,32,124,32,45,45,110,117,109]⟩ := rfl
example : parse exSh [[120], [45,118]] = .error ⟨[], .missingOption [45,110,32,124,32,45,45,110,117,109]⟩ := rfl
example : parse exSh [[120], [45,118], [121]] = .error ⟨[], .unrecognized [121]⟩ := rfl
-- a value-taking option consumes the next argument whatever it is: `--num -h` is a malformed value, not a help request
example : parse exSh [[45,45,110,117,109], [45,104]] = .error ⟨[], .badIntAt [45,110,32,124,32,45,45,110,117,109] .invalidDigit⟩ := rfl
-- a repeated single-valued option: the last one wins (`-n 1 -n 2 x`)
example : parse exSh [[45,110], [49], [45,110], [50], [120]] =
    .ok (.mk [.single (some (.int 2)), .flag false, .single (some (.bytes [120]))] .none) := rfl
-- non-UTF-8 positional for a `&str` field
example : parse exSh [[255]] = .error ⟨[], .badUtf8Pos⟩ := rfl
-- `FromStr` boundary values print and parse back
example : parseI32 (printInt I32_MIN) = .ok I32_MIN := rfl
example : parseI32 (printInt I32_MAX) = .ok I32_MAX := rfl
example : parseI32 [50,49,52,55,52,56,51,54,52,56] = .error .posOverflow := rfl


end TinyVerif.Cli
