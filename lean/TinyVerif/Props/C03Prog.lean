/-
C03 — progress: from a reachable state no operation raises one of the model's error outcomes.

The theorems of `Props/C03.lean` / `Props/C03Ind.lean` speak about steps that return `.ok`.  The model has explicit
`error` outcomes for a failed `debug_assert!` of the port (13 sites), an arithmetic underflow (20 sites), a read of a
header word that was never written, the dead direct-mmap branches, a chunk not found in the bin it should be in, a
fencepost loop that does not end — and `os-desync:*`: the list of OS answers handed to `step` does not match the
system calls the operation makes (an artefact of taking the OS answers as a list).  Here: from the invariant
`Inv3 = Inv2 ∧ RcOk ∧ FpOk` (`RcOk`: `release_checks > 0` once the heap is initialised; `FpOk`: `footprint` = sum of
the segment sizes — both needed: kernel-checked states with `Inv2` from which `free` stops with
`underflow:release_checks` resp. `underflow:footprint` are in `Proofs/DlProgStep.lean` / `DlProgSys.lean`; both
inductive) only the desync outcomes are possible.  Consequences for the real allocator (whose debug build executes
the same asserts and overflow checks): no `debug_assert!` of the port can fail and no subtraction can underflow, for
any history, any sizes / alignments and any OS behaviour within the contract — "the heap remains fully usable".

`ValidOp`: the id of a malloc / calloc is not in use, the id of a realloc / free names a live block (the harness's
own bookkeeping).
-/
import TinyVerif.Props.C03Ind
import TinyVerif.Proofs.DlProgAll
namespace TinyVerif.Dl

/-- **no model error from a good state**: a step either runs or stops because the OS-answer list does not fit -/
theorem step_never_fails {hs : Hist} {op : Op} {os : List OsDir} (hi : Inv3 hs) (hop : OpOk hs op os)
    (hv : ValidOp hs op) :
    (∃ hs' out, hs.step op os = .ok (hs', out) ∧ Inv3 hs') ∨ (∃ e, hs.step op os = .error e ∧ StepErr e) := by
  rcases step_ok_or_desync hi hop hv with ⟨hs', out, h⟩ | h
  · exact Or.inl ⟨hs', out, h, inv3_step hi hop h⟩
  · exact Or.inr h

/-- in particular none of the port's `debug_assert!`s and none of the underflow guards can fire -/
theorem no_assert_no_underflow {hs : Hist} {op : Op} {os : List OsDir} (hi : Inv3 hs) (hop : OpOk hs op os)
    (hv : ValidOp hs op) (e : String) (h : hs.step op os = .error e) :
    e = "os-desync:mmap" ∨ e = "os-desync:mremap" ∨ e = "os-desync:munmap" ∨ e = "os-desync:unused-answers" := by
  rcases step_progress hi.1 hi.2.1 hi.2.2 hop hv e h with (h1 | h1 | h1) | h1
  · exact Or.inl h1
  · exact Or.inr (Or.inl h1)
  · exact Or.inr (Or.inr (Or.inl h1))
  · exact Or.inr (Or.inr (Or.inr h1))

/-- **every history from the empty heap** whose operations satisfy `OpOk` and `ValidOp` in the state they are
applied to either runs to the end in the invariant or stops at a desync -/
theorem history_never_fails {ops : List (Op × List OsDir)} (hok : RunOk2 Hist.init ops) :
    (∃ hs' evs, Hist.init.run ops = .ok (hs', evs) ∧ Inv3 hs') ∨
    (∃ e, Hist.init.run ops = .error e ∧ StepErr e) := by
  rcases run_progress hok with ⟨hs', evs, h, hi⟩ | h
  · exact Or.inl ⟨hs', evs, h, hi⟩
  · exact Or.inr h

example : Inv3 Hist.init := inv3_init

end TinyVerif.Dl
